//! C19 feature-matrix probe: the same records through whatever arrow version the enabled features
//! select; prints a digest that must be identical under every configuration.
use serde::{Deserialize, Serialize};
use serde_arrow::_impl::arrow::{array::RecordBatch, datatypes::FieldRef};
use serde_arrow::schema::{SchemaLike, TracingOptions};

#[derive(Serialize, Deserialize, PartialEq, Debug, Clone)]
enum E { A, B(i32), C { x: bool, y: Option<f32> } }
#[derive(Serialize, Deserialize, PartialEq, Debug, Clone)]
struct Record { a: i8, b: Option<u64>, s: String, os: Option<String>, l: Vec<i16>, t: (u8, bool), e: E, f: f64, n: Inner, d: i64 }
#[derive(Serialize, Deserialize, PartialEq, Debug, Clone)]
struct Inner { p: Vec<Option<String>>, q: Option<Vec<u32>> }

fn main() {
    let rows = vec![
        Record { a: -128, b: Some(u64::MAX), s: "héllo".into(), os: None, l: vec![], t: (0, true), e: E::A, f: -1.5, n: Inner { p: vec![None, Some("x".into())], q: None }, d: i64::MIN },
        Record { a: 127, b: None, s: "".into(), os: Some("日本".into()), l: vec![1, -2, 3], t: (255, false), e: E::B(i32::MIN), f: 1e300, n: Inner { p: vec![], q: Some(vec![1, 2]) }, d: 0 },
        Record { a: 0, b: Some(0), s: "a".into(), os: Some("".into()), l: vec![i16::MAX], t: (7, true), e: E::C { x: true, y: Some(0.25) }, f: 0.0, n: Inner { p: vec![Some("".into())], q: Some(vec![]) }, d: i64::MAX },
    ];
    for (label, opts) in [("default", TracingOptions::default().allow_null_fields(true)), ("small", TracingOptions::default().allow_null_fields(true).sequence_as_large_list(false).strings_as_large_utf8(false)), ("dict", TracingOptions::default().allow_null_fields(true).string_dictionary_encoding(true))] {
        let fields = Vec::<FieldRef>::from_type::<Record>(opts).expect("from_type");
        println!("{} fields {:?}", label, fields.iter().map(|f| format!("{}:{:?}:{}:{:?}", f.name(), f.data_type(), f.is_nullable(), { let mut m: Vec<_> = f.metadata().iter().collect(); m.sort(); m })).collect::<Vec<_>>());
        let arrays = serde_arrow::to_arrow(&fields, &rows).expect("to_arrow");
        println!("{} lens {:?}", label, arrays.iter().map(|a| a.len()).collect::<Vec<_>>());
        let back: Vec<Record> = serde_arrow::from_arrow(&fields, &arrays).expect("from_arrow");
        println!("{} roundtrip {}", label, back == rows);
        let batch: RecordBatch = serde_arrow::to_record_batch(&fields, &rows).expect("to_record_batch");
        let back2: Vec<Record> = serde_arrow::from_record_batch(&batch).expect("from_record_batch");
        println!("{} batch rows {} cols {} roundtrip {}", label, batch.num_rows(), batch.num_columns(), back2 == rows);
        println!("{} values {:?}", label, back2);
        // sliced arrays
        let sliced: Vec<_> = arrays.iter().map(|a| a.slice(1, 2)).collect();
        let back3: Vec<Record> = serde_arrow::from_arrow(&fields, &sliced).expect("from_arrow sliced");
        println!("{} slice {}", label, back3 == rows[1..3].to_vec());
        // an error must be an error everywhere
        let bad = serde_arrow::to_arrow(&fields[..1], &[Bad { a: 1000 }]);
        println!("{} bad {}", label, bad.is_err());
    }
}
#[derive(Serialize)] struct Bad { a: i32 }
