(* finite sweeps over all 2^17 sets of leaf kinds x 17 kinds (vm_compute), coerce_numbers = false, allow_to_string = true *)
From Verif Require Import Coerce.
Lemma step_ok_false_true : forall lg, all_checks (step_check false true lg) = true.
Proof. intros [|]; vm_compute; reflexivity. Qed.
Lemma absorb_ok_false_true : forall lg, all_checks (absorb_check false true lg) = true.
Proof. intros [|]; vm_compute; reflexivity. Qed.
