(* What the tracer model encodes about the serde-call -> tracer-transition tables of both tracers, as
   literal tables, compared with the tables regenerated from /repo's source on every run
   (Gen/TracerTables.v).  A leaf call mapped to another data type, a date matcher consulted in another
   order, a transition added to or dropped from a method: each changes a generated table. *)
From Coq Require Import String.
From Verif Require Import Tracer TracerTables CoerceTable.
Local Open Scope string_scope.

Definition str_list_eqb (x y : list string) : bool :=
  (fix go x y := match x, y with [] , [] => true | a :: x', c :: y' => String.eqb a c && go x' y' | _, _ => false end) x y.
Definition Row := (string * list string * list string * list string)%type.
Definition row_eqb (a c : Row) : bool :=
  let '(n1, c1, t1, m1) := a in let '(n2, c2, t2, m2) := c in
  String.eqb n1 n2 && str_list_eqb c1 c2 && str_list_eqb t1 t2 && str_list_eqb m1 m2.
Fixpoint rows_eqb (x y : list Row) : bool :=
  match x, y with [], [] => true | a :: x', c :: y' => row_eqb a c && rows_eqb x' y' | _, _ => false end.

Definition expected_forwarders : list (string * string) := [
  ("ensure_utf8", "self.ensure_primitive_with_strategy(item_type, strategy)");
  ("ensure_primitive", "self.ensure_primitive_with_strategy(item_type, None)");
  ("ensure_number", "self.ensure_primitive_with_strategy(item_type, None)")
].
Definition forwarders_ok : bool :=
  (fix go (x y : list (string * string)) := match x, y with
     | [], [] => true | (a, c) :: x', (a', c') :: y' => String.eqb a a' && String.eqb c c' && go x' y' | _, _ => false end)
  tracer_forwarders expected_forwarders.

Definition expected_sample_calls : list Row := [
  ("serialize_bool", ["ensure_primitive(DataType::Boolean)"], ["Boolean"], []);
  ("serialize_i8", ["ensure_number(DataType::Int8)"], ["Int8"], []);
  ("serialize_i16", ["ensure_number(DataType::Int16)"], ["Int16"], []);
  ("serialize_i32", ["ensure_number(DataType::Int32)"], ["Int32"], []);
  ("serialize_i64", ["ensure_number(DataType::Int64)"], ["Int64"], []);
  ("serialize_u8", ["ensure_number(DataType::UInt8)"], ["UInt8"], []);
  ("serialize_u16", ["ensure_number(DataType::UInt16)"], ["UInt16"], []);
  ("serialize_u32", ["ensure_number(DataType::UInt32)"], ["UInt32"], []);
  ("serialize_u64", ["ensure_number(DataType::UInt64)"], ["UInt64"], []);
  ("serialize_f32", ["ensure_number(DataType::Float32)"], ["Float32"], []);
  ("serialize_f64", ["ensure_number(DataType::Float64)"], ["Float64"], []);
  ("serialize_char", ["ensure_primitive(DataType::UInt32)"], ["UInt32"], []);
  ("serialize_unit", ["ensure_primitive(DataType::Null)"], ["Null"], []);
  ("serialize_str", ["ensure_primitive_with_strategy(ty, st)"], ["Timestamp"; "Timestamp"; "Time64"; "Date32"], ["matches_naive_datetime"; "matches_utc_datetime"; "matches_naive_time"; "matches_naive_date"]);
  ("serialize_bytes", ["ensure_primitive(DataType::LargeBinary)"], ["LargeBinary"], []);
  ("serialize_none", ["mark_nullable()"], [], []);
  ("serialize_some", ["mark_nullable()"], [], []);
  ("serialize_unit_struct", [], [], []);
  ("serialize_newtype_struct", [], [], []);
  ("serialize_map", ["ensure_struct(&[], StructMode::Map)"; "ensure_map()"], [], []);
  ("serialize_seq", ["ensure_list()"], [], []);
  ("serialize_struct", ["ensure_struct(&[], StructMode::Struct)"], [], []);
  ("serialize_tuple", ["ensure_tuple(len)"], [], []);
  ("serialize_tuple_struct", ["ensure_tuple(len)"], [], []);
  ("serialize_unit_variant", ["ensure_union_variant(variant_name, variant_index)"; "ensure_primitive(DataType::Null)"], ["Null"], []);
  ("serialize_newtype_variant", ["ensure_union_variant(variant_name, variant_index)"], [], []);
  ("serialize_struct_variant", ["ensure_union_variant(variant_name, variant_index)"; "ensure_struct(&[], StructMode::Struct)"], [], []);
  ("serialize_tuple_variant", ["ensure_union_variant(variant_name, variant_index)"; "ensure_tuple(len)"], [], [])
].
Definition expected_type_calls : list Row := [
  ("deserialize_any", [], [], []);
  ("deserialize_bool", ["ensure_primitive(DataType::Boolean)"], ["Boolean"], []);
  ("deserialize_i8", ["ensure_primitive(DataType::Int8)"], ["Int8"], []);
  ("deserialize_i16", ["ensure_primitive(DataType::Int16)"], ["Int16"], []);
  ("deserialize_i32", ["ensure_primitive(DataType::Int32)"], ["Int32"], []);
  ("deserialize_i64", ["ensure_primitive(DataType::Int64)"], ["Int64"], []);
  ("deserialize_u8", ["ensure_primitive(DataType::UInt8)"], ["UInt8"], []);
  ("deserialize_u16", ["ensure_primitive(DataType::UInt16)"], ["UInt16"], []);
  ("deserialize_u32", ["ensure_primitive(DataType::UInt32)"], ["UInt32"], []);
  ("deserialize_u64", ["ensure_primitive(DataType::UInt64)"], ["UInt64"], []);
  ("deserialize_f32", ["ensure_primitive(DataType::Float32)"], ["Float32"], []);
  ("deserialize_f64", ["ensure_primitive(DataType::Float64)"], ["Float64"], []);
  ("deserialize_char", ["ensure_primitive(DataType::UInt32)"], ["UInt32"], []);
  ("deserialize_str", ["ensure_utf8(self.0.get_options().string_type(), None)"], [], []);
  ("deserialize_string", ["ensure_utf8(self.0.get_options().string_type(), None)"], [], []);
  ("deserialize_bytes", ["ensure_primitive(DataType::LargeBinary)"], ["LargeBinary"], []);
  ("deserialize_byte_buf", ["ensure_primitive(DataType::LargeBinary)"], ["LargeBinary"], []);
  ("deserialize_option", ["mark_nullable()"], [], []);
  ("deserialize_unit", ["ensure_primitive(DataType::Null)"], ["Null"], []);
  ("deserialize_unit_struct", ["ensure_primitive(DataType::Null)"], ["Null"], []);
  ("deserialize_newtype_struct", [], [], []);
  ("deserialize_seq", ["ensure_list()"], [], []);
  ("deserialize_tuple", ["ensure_tuple(len)"], [], []);
  ("deserialize_tuple_struct", [], [], []);
  ("deserialize_map", ["ensure_map()"], [], []);
  ("deserialize_struct", ["ensure_struct(fields, StructMode::Struct)"], [], []);
  ("deserialize_enum", ["ensure_union(variants)"], [], []);
  ("deserialize_identifier", [], [], []);
  ("deserialize_ignored_any", [], [], [])
].
Definition sample_calls_ok : bool := rows_eqb sample_calls expected_sample_calls.
Definition type_calls_ok : bool := rows_eqb type_calls expected_type_calls.

Fixpoint lookup_row (m : string) (l : list Row) : option Row :=
  match l with [] => None | ((n, c, t, k) as r) :: rest => if String.eqb n m then Some r else lookup_row m rest end.

(* the method makes exactly one transition, a primitive one, naming exactly the type `ty` *)
Definition leaf_call (m ty : string) (l : list Row) : bool :=
  match lookup_row m l with
  | Some (_, [c], [t], []) =>
    String.eqb t ty && (String.eqb c ("ensure_primitive(DataType::" ++ ty ++ ")") || String.eqb c ("ensure_number(DataType::" ++ ty ++ ")"))
  | _ => false
  end.

(* serde leaf call, a value making that call, the type the model traces for it *)
Definition leaf_methods : list (string * string * Value * PT) := [
  ("serialize_bool", "deserialize_bool", VBool true, PBool);
  ("serialize_i8", "deserialize_i8", VInt I8 0, PI I8); ("serialize_i16", "deserialize_i16", VInt I16 0, PI I16);
  ("serialize_i32", "deserialize_i32", VInt I32 0, PI I32); ("serialize_i64", "deserialize_i64", VInt I64 0, PI I64);
  ("serialize_u8", "deserialize_u8", VInt U8 0, PI U8); ("serialize_u16", "deserialize_u16", VInt U16 0, PI U16);
  ("serialize_u32", "deserialize_u32", VInt U32 0, PI U32); ("serialize_u64", "deserialize_u64", VInt U64 0, PI U64);
  ("serialize_f32", "deserialize_f32", VF32 0, PFloat32); ("serialize_f64", "deserialize_f64", VF64 0, PFloat64);
  ("serialize_char", "deserialize_char", VChar 120, PI U32);
  ("serialize_unit", "deserialize_unit", VUnit, PNull);
  ("serialize_bytes", "deserialize_bytes", VBytes [], PLargeBinary)].

Definition leaf_tables_ok : bool :=
  forallb (fun r : string * string * Value * PT =>
             let '(ms, mt, _, p) := r in leaf_call ms (pt_name p) sample_calls && leaf_call mt (pt_name p) type_calls) leaf_methods.

(* ---- the shape transitions (ensure_struct / tuple / union / list / map) ----
   What the model's ensure_* encode, as a literal table compared with the arms regenerated from the source: the depth limit is enforced
   first; a position that is Unknown or a null-only primitive is upgraded to the shape; a position that has the shape already keeps it
   (a struct position switches to map mode when a map arrives; a tuple position marks the elements that the shorter tuples lack as
   nullable); every other position is refused.  The kind bookkeeping behind C07_success_puts_in_class. *)
Definition upgrade_guard : string :=
  "this if matches!(this, Self::Unknown(_)) || matches!(this, Self::Primitive(ref tracer) if tracer.item_type == DataType::Null)".
Definition expected_ensure_arms : list (string * string * list (string * string)) := [
  ("ensure_struct", "yes", [(upgrade_guard, "assigns Self::Struct"); ("Self::Struct(tracer)", "{ if let StructMode::Map = mode { tracer.mode = StructMode::Map; } }"); ("_", "fail")]);
  ("ensure_tuple", "yes", [(upgrade_guard, "assigns Self::Tuple"); ("Self::Tuple(tracer)", "{ let seen = tracer.field_tracers.len(); for idx in seen.min(num_fields)..seen.max(num_fields) { tracer.field_tracer(idx).mark_nullable(); } }"); ("_", "fail")]);
  ("ensure_union", "yes", [(upgrade_guard, "assigns Self::Union"); ("Self::Union(_tracer)", "{}"); ("_", "fail")]);
  ("ensure_list", "yes", [(upgrade_guard, "assigns Self::List"); ("Self::List(_tracer)", "{}"); ("_", "fail")]);
  ("ensure_map", "yes", [(upgrade_guard, "assigns Self::Map"); ("Self::Map(_tracer)", "{}"); ("_", "fail")])
].
Definition ensure_arms_ok : bool :=
  (fix go (x y : list (string * string * list (string * string))) := match x, y with
     | [], [] => true
     | (n, d, a) :: x', (n', d', a') :: y' =>
       String.eqb n n' && String.eqb d d' &&
       (fix arms (p q : list (string * string)) := match p, q with
          | [], [] => true | (u, v) :: p', (u', v') :: q' => String.eqb u u' && String.eqb v v' && arms p' q' | _, _ => false end) a a' && go x' y'
     | _, _ => false end) ensure_arms expected_ensure_arms.

(* the model's reading of that table: one equation per shape *)
Lemma ensure_list_reads d t : ensure_list d t =
  if Nat.leb max_depth d then Err else if upgradable t then Ok (TList (t_nullable t) (TUnknown false)) else match t with TList _ _ => Ok t | _ => Err end.
Proof. reflexivity. Qed.
Lemma ensure_map_reads d t : ensure_map d t =
  if Nat.leb max_depth d then Err else if upgradable t then Ok (TMap (t_nullable t) (TUnknown false) (TUnknown false)) else match t with TMap _ _ _ => Ok t | _ => Err end.
Proof. reflexivity. Qed.
Lemma ensure_struct_reads d m t : ensure_struct d m t =
  if Nat.leb max_depth d then Err else if upgradable t then Ok (TStruct (t_nullable t) m 0 []) else match t with TStruct n m0 s fs => Ok (TStruct n (m0 || m) s fs) | _ => Err end.
Proof. reflexivity. Qed.
Lemma ensure_tuple_reads d k t : ensure_tuple d k t =
  if Nat.leb max_depth d then Err else if upgradable t then Ok (TTuple (t_nullable t) (repeat (TUnknown false) k)) else match t with TTuple nl fs => Ok (TTuple nl (arity_adjust fs k)) | _ => Err end.
Proof. reflexivity. Qed.
Lemma ensure_union_reads d t : ensure_union d t =
  if Nat.leb max_depth d then Err else if upgradable t then Ok (TUnion (t_nullable t) []) else match t with TUnion _ _ => Ok t | _ => Err end.
Proof. reflexivity. Qed.
Lemma upgradable_reads t : upgradable t = match t with TUnknown _ => true | TPrim _ PNull => true | _ => false end.
Proof. reflexivity. Qed.
