(* Repeating the samples changes nothing, for nested data: tracing a collection twice over succeeds whenever tracing it once
   does, and gives the same tracer up to the order of record fields and counters.  Needs the converse direction of the projection
   theorems: a record / sequence position traces successfully as soon as each of its children does. *)
From Verif Require Import Tracer Coerce Coerce_proofs Builder_proofs Null_proofs Struct_proofs Project_proofs FlatRecords_proofs Shapes_proofs Nested_order.
From Coq Require Import Permutation.
Require Import Lia.
Local Open Scope nat_scope.

Lemma fold_prefix o d l1 l2 r t : trace_seq' o d (l1 ++ l2) r = Ok t -> exists t1, trace_seq' o d l1 r = Ok t1.
Proof. rewrite fold_app. destruct (trace_seq' o d l1 r) as [t1| |p]; [eauto|rewrite fold_err; discriminate|rewrite fold_panic; discriminate]. Qed.

(* ---- sequences ---- *)
Lemma seq_complete_from o d : Nat.leb max_depth d = false -> forall ls n item item',
  trace_seq' o (S d) (concat ls) (Ok item) = Ok item' -> trace_seq' o d (map VSeq ls) (Ok (TList n item)) = Ok (TList n item').
Proof.
  intros Hd. induction ls as [|l r IH]; intros n item item' H; [cbn in H |- *; congruence|].
  cbn [concat] in H. destruct (fold_prefix o (S d) l (concat r) _ _ H) as (it1 & E1). rewrite fold_app, E1 in H.
  cbn [map]. rewrite ts_cons, trace_seq_eq. unfold ensure_list. rewrite Hd. cbn [upgradable bind]. rewrite E1. cbn [bind]. apply (IH n it1 item' H).
Qed.

Lemma seq_complete o d ls item' : Nat.leb max_depth d = false -> ls <> [] ->
  trace_seq' o (S d) (concat ls) (Ok (TUnknown false)) = Ok item' ->
  trace_seq' o d (map VSeq ls) (Ok (TUnknown false)) = Ok (TList false item').
Proof.
  intros Hd Hne H. destruct ls as [|l r]; [congruence|].
  assert (E : trace o d (VSeq l) (TUnknown false) = trace o d (VSeq l) (TList false (TUnknown false))).
  { rewrite !trace_seq_eq. unfold ensure_list. rewrite Hd. reflexivity. }
  cbn [map]. rewrite ts_cons, E, <- ts_cons. apply (seq_complete_from o d Hd (l :: r) false (TUnknown false) item' H).
Qed.

Lemma seq_depth_ok o d l r n0 t : trace_seq' o d (map VSeq (l :: r)) (Ok (TUnknown n0)) = Ok t -> Nat.leb max_depth d = false.
Proof.
  cbn [map]. rewrite ts_cons, trace_seq_eq. unfold ensure_list. destruct (Nat.leb max_depth d); [|reflexivity]. cbn [bind]. rewrite fold_err. discriminate.
Qed.

(* ---- records ---- *)
Lemma struct_field_ok tr key seen fs t' :
  tr (match fget2 key fs with Some (t, _) => t | None => start seen end) = Ok t' -> exists fs', struct_field tr key seen fs = Ok fs'.
Proof.
  intros H. unfold struct_field. pose proof (find_fget2 fs key) as Hf. destruct (find_field_idx fs key) as [[t i]|].
  - destruct Hf as (ls & Hg). rewrite Hg in H. rewrite H. cbn [bind]. eauto.
  - rewrite Hf in H. unfold start in H. rewrite H. cbn [bind]. eauto.
Qed.

Lemma sfields_progress o d seen fs : forall fa acc, NoDup (map fst fa) ->
  (forall key, In key (map fst fa) -> fget2 key acc = fget2 key fs) ->
  (forall key x, In (key, x) fa -> exists t', trace o (S d + count_dots key) x (match fget2 key fs with Some (t, _) => t | None => start seen end) = Ok t') ->
  exists fs', sfields (trace o) d seen fa acc = Ok fs'.
Proof.
  induction fa as [|[key x] r IH]; intros acc Hnd Hsame Hok; [exists acc; reflexivity|]. cbn [sfields].
  cbn [map fst] in Hnd. apply NoDup_cons_iff in Hnd as [Hnotin Hnd].
  destruct (Hok key x (or_introl eq_refl)) as (t' & Ht). rewrite <- (Hsame key (or_introl eq_refl)) in Ht.
  destruct (struct_field_ok _ key seen acc t' Ht) as (acc1 & E1). rewrite E1. cbn [bind]. apply (IH acc1 Hnd).
  - intros k Hk. pose proof (sf_fget2 _ key seen acc acc1 k E1) as H1. destruct (bytes_eqb key k) eqn:E.
    + apply bytes_eqb_eq in E. subst k. contradiction.
    + rewrite H1. apply Hsame. right. exact Hk.
  - intros k y Hin. apply Hok. right. exact Hin.
Qed.

Lemma flookup_in k x fa : NoDup (map fst fa) -> In (k, x) fa -> flookup k fa = Some x.
Proof.
  induction fa as [|[key y] r IH]; intros Hnd Hin; [contradiction|]. cbn [map fst] in Hnd. apply NoDup_cons_iff in Hnd as [Hnotin Hnd]. cbn [flookup].
  destruct Hin as [E|Hin].
  - injection E as -> ->. rewrite bytes_eqb_refl. reflexivity.
  - destruct (bytes_eqb key k) eqn:E; [apply bytes_eqb_eq in E; subst key; exfalso; apply Hnotin; apply (in_map fst _ _ Hin)|apply IH; assumption].
Qed.

Section RecordComplete.
  Variable o : Opts.
  Variable d : nat.

  Lemma pinv_progress SS seen fs fa : PInv o d SS seen fs -> NoDup (map fst fa) ->
    (forall k, exists T, trace_seq' o (S d + count_dots k) (vals k (SS ++ [fa])) (Ok (TUnknown false)) = Ok T) ->
    exists fs', sfields (trace o) d seen fa fs = Ok fs'.
  Proof.
    intros (Hs & Hlt & Hk) Hnd Hall. apply (sfields_progress o d seen fs fa fs Hnd); [reflexivity|].
    intros key x Hin. destruct (Hall key) as (T' & HT'). rewrite vals_snoc, (flookup_in key x fa Hnd Hin), fold_snoc in HT'.
    specialize (Hk key). destruct (fget2 key fs) as [[tk ls]|].
    - destruct Hk as (_ & T & HT & ->). rewrite HT in HT'. cbn [bind] in HT'.
      destruct (missing key SS); cbn [mk]; [rewrite trace_mark, HT'; eexists; reflexivity|eexists; exact HT'].
    - rewrite Hk in HT'. cbn [trace_seq' fold_left bind] in HT'.
      assert (Est : start seen = mk (match SS with [] => false | _ => true end) (TUnknown false)) by (unfold start; subst seen; destruct SS; reflexivity).
      rewrite Est. destruct (match SS with [] => false | _ => true end); cbn [mk]; [rewrite trace_mark, HT'; eexists; reflexivity|eexists; exact HT'].
  Qed.

  Lemma complete_from : Nat.leb max_depth d = false -> forall S1 S0 n m seen fs,
    Forall (fun fa => NoDup (map fst fa)) S1 -> PInv o d S0 seen fs ->
    (forall k, exists T, trace_seq' o (S d + count_dots k) (vals k (S0 ++ S1)) (Ok (TUnknown false)) = Ok T) ->
    exists t, trace_seq' o d (map VStruct S1) (Ok (TStruct n m seen fs)) = Ok t.
  Proof.
    intros Hd. induction S1 as [|fa r IH]; intros S0 n m seen fs HF Hinv Hall; [eexists; reflexivity|].
    assert (Hall1 : forall k, exists T, trace_seq' o (S d + count_dots k) (vals k (S0 ++ [fa])) (Ok (TUnknown false)) = Ok T).
    { intros k. destruct (Hall k) as (T & HT). change (fa :: r) with ([fa] ++ r) in HT. rewrite app_assoc in HT. unfold vals in HT. rewrite flat_map_app in HT.
      apply (fold_prefix _ _ _ _ _ _ HT). }
    destruct (pinv_progress S0 seen fs fa Hinv (Forall_inv HF) Hall1) as (fs1 & Hloop).
    cbn [map]. rewrite ts_cons, trace_struct_eq. unfold ensure_struct. rewrite Hd. cbn [upgradable bind]. rewrite Hloop. cbn [bind].
    apply (IH (S0 ++ [fa]) n (m || false) (S seen) (struct_end seen fs1) (Forall_inv_tail HF) (pinv_step o d S0 seen fs fa fs1 Hinv (Forall_inv HF) Hloop)).
    intros k. rewrite <- app_assoc. apply Hall.
  Qed.

  Lemma record_complete SS n0 : Nat.leb max_depth d = false -> Forall (fun fa => NoDup (map fst fa)) SS ->
    (forall k, exists T, trace_seq' o (S d + count_dots k) (vals k SS) (Ok (TUnknown false)) = Ok T) ->
    exists t, trace_seq' o d (map VStruct SS) (Ok (TUnknown n0)) = Ok t.
  Proof.
    intros Hd HF Hall. destruct SS as [|fa r]; [eexists; reflexivity|]. cbn [map]. rewrite ts_cons, trace_struct_fresh, <- ts_cons.
    apply (complete_from Hd (fa :: r) [] n0 false 0 [] HF (pinv_nil o d) Hall).
  Qed.

  Lemma struct_depth_ok fa r n0 t : trace_seq' o d (map VStruct (fa :: r)) (Ok (TUnknown n0)) = Ok t -> Nat.leb max_depth d = false.
  Proof.
    cbn [map]. rewrite ts_cons, trace_struct_eq. unfold ensure_struct. destruct (Nat.leb max_depth d); [|reflexivity]. cbn [bind]. rewrite fold_err. discriminate.
  Qed.
End RecordComplete.

(* ---- maps traced as maps ---- *)
Lemma maps_complete_from o d : o_map_as_struct o = false -> Nat.leb max_depth d = false -> forall kvss n kt vt kt' vt',
  trace_seq' o (S d) (mkeys kvss) (Ok kt) = Ok kt' -> trace_seq' o (S d) (mvals kvss) (Ok vt) = Ok vt' ->
  trace_seq' o d (map VMap kvss) (Ok (TMap n kt vt)) = Ok (TMap n kt' vt').
Proof.
  intros Hm Hd. induction kvss as [|kvs r IH]; intros n kt vt kt' vt' Hk Hv; [cbn in Hk, Hv |- *; congruence|].
  unfold mkeys, mvals in Hk, Hv. cbn [flat_map] in Hk, Hv. fold (mkeys r) in Hk. fold (mvals r) in Hv.
  destruct (fold_prefix o (S d) _ _ _ _ Hk) as (k1 & Ek). destruct (fold_prefix o (S d) _ _ _ _ Hv) as (v1 & Ev).
  rewrite fold_app, Ek in Hk. rewrite fold_app, Ev in Hv.
  cbn [map]. rewrite ts_cons, (trace_map_eq o d kvs _ Hm). unfold ensure_map. rewrite Hd. cbn [upgradable bind].
  rewrite (mgo_join o d kvs kt vt k1 v1 Ek Ev). cbn [bind fst snd]. apply (IH n k1 v1 kt' vt' Hk Hv).
Qed.

Lemma maps_complete o d kvss kt vt : o_map_as_struct o = false -> Nat.leb max_depth d = false -> kvss <> [] ->
  trace_seq' o (S d) (mkeys kvss) (Ok (TUnknown false)) = Ok kt -> trace_seq' o (S d) (mvals kvss) (Ok (TUnknown false)) = Ok vt ->
  trace_seq' o d (map VMap kvss) (Ok (TUnknown false)) = Ok (TMap false kt vt).
Proof.
  intros Hm Hd Hne Hk Hv. destruct kvss as [|kvs r]; [congruence|].
  assert (E : trace o d (VMap kvs) (TUnknown false) = trace o d (VMap kvs) (TMap false (TUnknown false) (TUnknown false))).
  { rewrite !(trace_map_eq o d kvs _ Hm). unfold ensure_map. rewrite Hd. reflexivity. }
  cbn [map]. rewrite ts_cons, E, <- ts_cons. apply (maps_complete_from o d Hm Hd (kvs :: r) false _ _ kt vt Hk Hv).
Qed.

Lemma maps_depth_ok o d kvs r n0 t : o_map_as_struct o = false ->
  trace_seq' o d (map VMap (kvs :: r)) (Ok (TUnknown n0)) = Ok t -> Nat.leb max_depth d = false.
Proof.
  intros Hm. cbn [map]. rewrite ts_cons, (trace_map_eq o d kvs _ Hm). unfold ensure_map. destruct (Nat.leb max_depth d); [|reflexivity]. cbn [bind]. rewrite fold_err. discriminate.
Qed.

(* ---- tuples ---- *)
Definition TInvC o d (S0 : list (list Value)) (F : list Tracer) : Prop :=
  forall i, exists T b, trace_seq' o (S d) (col i S0) (Ok (TUnknown false)) = Ok T /\ nth_tracer F i = mk b T.

Lemma adjust_mk n F i : exists b, nth_tracer (arity_adjust F n) i = mk b (nth_tracer F i).
Proof.
  rewrite nth_adjust. destruct (Nat.ltb i n && Nat.ltb i (length F)) eqn:E1; [exists false; reflexivity|].
  destruct (Nat.ltb i n || Nat.ltb i (length F)) eqn:E2; [exists true; reflexivity|]. exists false. cbn [mk].
  apply Bool.orb_false_iff in E2 as [_ E2]. apply Nat.ltb_ge in E2. symmetry. apply nth_tracer_beyond, E2.
Qed.
Lemma mk_mk a c t : mk a (mk c t) = mk (a || c) t.
Proof. destruct a, c; cbn [mk orb]; try reflexivity. apply mark_idem. Qed.

Lemma tinvc_step o d S0 F l F' : TInvC o d S0 F -> tgo (trace o) d 0 l (arity_adjust F (length l)) = Ok F' -> TInvC o d (S0 ++ [l]) F'.
Proof.
  intros Hcol H. destruct (tgo_spec o d l 0 _ F' H) as (_ & _ & Hhi & Hin).
  intros i. destruct (Hcol i) as (T & b & RT & ET). destruct (adjust_mk (length l) F i) as (b' & Ea). rewrite ET, mk_mk in Ea.
  rewrite col_app, fold_app, RT. unfold col at 1. cbn [flat_map]. rewrite app_nil_r.
  destruct (nth_error l i) as [x|] eqn:E.
  - cbn [trace_seq' fold_left bind]. pose proof (Hin i x E) as Hx. cbn [Nat.add] in Hx. rewrite Ea, trace_mk in Hx.
    destruct (b' || b).
    + destruct (trace o (S d) x T) as [T'| |p]; cbn [omark] in Hx; try discriminate. injection Hx as Hx. exists T', true. split; [reflexivity|symmetry; exact Hx].
    + exists (nth_tracer F' i), false. split; [exact Hx|reflexivity].
  - cbn [trace_seq' fold_left]. exists T, (b' || b). split; [reflexivity|]. rewrite Hhi; [exact Ea|]. apply nth_error_None in E. lia.
Qed.

Lemma tgo_progress o d : forall l pos acc,
  (forall j x, nth_error l j = Some x -> exists t', trace o (S d) x (nth_tracer acc (pos + j)) = Ok t') ->
  exists acc', tgo (trace o) d pos l acc = Ok acc'.
Proof.
  induction l as [|x r IH]; intros pos acc Hok; [eexists; reflexivity|]. cbn [tgo].
  destruct (Hok 0 x eq_refl) as (t' & Ht). rewrite Nat.add_0_r in Ht. rewrite Ht. cbn [bind]. apply IH.
  intros j y Hy. destruct (Hok (S j) y Hy) as (t2 & Ht2). exists t2. rewrite nth_set_tracer.
  replace (S pos + j) with (pos + S j) by lia. destruct (Nat.eqb_spec (pos + S j) pos); [lia|exact Ht2].
Qed.

Lemma tuples_complete_from o d : Nat.leb max_depth d = false -> forall S1 S0 n F, TInvC o d S0 F ->
  (forall i, exists T, trace_seq' o (S d) (col i (S0 ++ S1)) (Ok (TUnknown false)) = Ok T) ->
  exists t, trace_seq' o d (map VTuple S1) (Ok (TTuple n F)) = Ok t.
Proof.
  intros Hd. induction S1 as [|l r IH]; intros S0 n F Hinv Hall; [eexists; reflexivity|].
  assert (Hgo : exists F', tgo (trace o) d 0 l (arity_adjust F (length l)) = Ok F').
  { apply tgo_progress. intros j x Hx. destruct (Hall j) as (T & HT). change (l :: r) with ([l] ++ r) in HT. rewrite app_assoc, col_app in HT.
    destruct (fold_prefix _ _ _ _ _ _ HT) as (T1 & HT1). destruct (Hinv j) as (T0 & b & R0 & E0). rewrite col_app, fold_app, R0 in HT1. unfold col in HT1. cbn [flat_map] in HT1. rewrite Hx in HT1.
    cbn [app trace_seq' fold_left bind] in HT1. destruct (adjust_mk (length l) F j) as (b' & Ea). cbn [Nat.add]. rewrite Ea, E0, mk_mk, trace_mk, HT1.
    destruct (b' || b); eexists; reflexivity. }
  destruct Hgo as (F' & Hgo). cbn [map]. rewrite ts_cons, trace_tuple_eq. unfold ensure_tuple. rewrite Hd. cbn [upgradable bind]. rewrite Hgo. cbn [bind].
  apply (IH (S0 ++ [l]) n F' (tinvc_step o d S0 F l F' Hinv Hgo)). intros i. rewrite <- app_assoc. apply Hall.
Qed.

Lemma tinvc_first o d l F1 : tgo (trace o) d 0 l (repeat (TUnknown false) (length l)) = Ok F1 -> TInvC o d [l] F1.
Proof.
  intros E. destruct (tgo_spec o d l 0 _ F1 E) as (_ & _ & Hhi & Hin). intros i. unfold col. cbn [flat_map]. rewrite app_nil_r.
  destruct (nth_error l i) as [x|] eqn:Ex.
  - cbn [trace_seq' fold_left bind]. pose proof (Hin i x Ex) as Hx. cbn [Nat.add] in Hx. rewrite nth_tracer_repeat in Hx. exists (nth_tracer F1 i), false. split; [exact Hx|reflexivity].
  - cbn [trace_seq' fold_left]. exists (TUnknown false), false. split; [reflexivity|]. rewrite Hhi, nth_tracer_repeat; [reflexivity|]. apply nth_error_None in Ex. lia.
Qed.

Lemma tuple_complete o d ls n0 : Nat.leb max_depth d = false ->
  (forall i, exists T, trace_seq' o (S d) (col i ls) (Ok (TUnknown false)) = Ok T) ->
  exists t, trace_seq' o d (map VTuple ls) (Ok (TUnknown n0)) = Ok t.
Proof.
  intros Hd Hall. destruct ls as [|l r]; [eexists; reflexivity|].
  assert (Hgo : exists F1, tgo (trace o) d 0 l (repeat (TUnknown false) (length l)) = Ok F1).
  { apply tgo_progress. intros j x Hx. rewrite nth_tracer_repeat. destruct (Hall j) as (T & HT). change (l :: r) with ([l] ++ r) in HT. rewrite col_app in HT.
    destruct (fold_prefix _ _ _ _ _ _ HT) as (T1 & HT1). unfold col in HT1. cbn [flat_map] in HT1. rewrite Hx in HT1. cbn [app trace_seq' fold_left bind] in HT1. eexists; exact HT1. }
  destruct Hgo as (F1 & Hgo). cbn [map]. rewrite ts_cons, trace_tuple_eq. unfold ensure_tuple. rewrite Hd. cbn [upgradable t_nullable bind]. rewrite Hgo. cbn [bind].
  apply (tuples_complete_from o d Hd r [l] n0 F1 (tinvc_first o d l F1 Hgo)). exact Hall.
Qed.

Lemma tuple_depth_ok o d l r n0 t : trace_seq' o d (map VTuple (l :: r)) (Ok (TUnknown n0)) = Ok t -> Nat.leb max_depth d = false.
Proof.
  cbn [map]. rewrite ts_cons, trace_tuple_eq. unfold ensure_tuple. destruct (Nat.leb max_depth d); [|reflexivity]. cbn [bind]. rewrite fold_err. discriminate.
Qed.

(* ---- enum variants ---- *)
Definition UAll o d (ws : list (Z * bytes * Value)) : Prop :=
  forall i, exists nm T, Forall (fun e : bytes * Value => fst e = nm) (wsel i ws) /\
                         trace_seq' o (S d + count_dots nm) (map snd (wsel i ws)) (Ok (TUnknown false)) = Ok T.

Lemma ustep_progress o d S0 n V w : Nat.leb max_depth d = false -> UInv o d S0 V -> (0 <= fst (fst w))%Z -> UAll o d (S0 ++ [w]) ->
  exists t, ustep o d w (TUnion n V) = Ok t.
Proof.
  intros Hd (Hpos & Hlen & Hsel) Hge Hall. destruct w as [[idx name] p]. cbn [fst] in Hge. unfold ustep, ensure_union. rewrite Hd. cbn [upgradable bind].
  destruct (Z.ltb_spec idx 0) as [|_]; [lia|]. set (i := Z.to_nat idx).
  destruct (Hall i) as (nm & T & Hnm & HT). rewrite wsel_app in Hnm, HT.
  assert (Hsel_i : wsel i [(idx, name, p)] = [(name, p)]).
  { unfold wsel. cbn [flat_map]. replace (Z.of_nat i) with idx by (unfold i; lia). rewrite Z.eqb_refl. reflexivity. }
  rewrite Hsel_i in Hnm, HT. apply Forall_app in Hnm as [Hnm0 Hnm1]. pose proof (Forall_inv Hnm1) as En. cbn [fst] in En. subst nm.
  rewrite map_app in HT. change (map snd [(name, p)]) with [p] in HT. rewrite fold_snoc in HT. specialize (Hsel i). destruct (get_variant V i) as [[prev vt]|].
  - destruct Hsel as (Hne & Hprev & Htr). destruct (wsel i S0) as [|e r] eqn:Ee; [congruence|].
    pose proof (Forall_inv Hprev) as P1. pose proof (Forall_inv Hnm0) as P2. cbn beta in P1, P2. assert (E0 : prev = name) by congruence. clear P1 P2. revert Htr. rewrite E0. intros Htr.
    rewrite bytes_eqb_refl. rewrite Htr in HT. cbn [bind] in HT. rewrite HT. cbn [bind]. eexists; reflexivity.
  - rewrite Hsel in HT. cbn [map trace_seq' fold_left bind] in HT. rewrite HT. cbn [bind]. eexists; reflexivity.
Qed.

Lemma uall_prefix o d a c : UAll o d (a ++ c) -> UAll o d a.
Proof.
  intros H i. destruct (H i) as (nm & T & Hnm & HT). rewrite wsel_app in Hnm, HT. apply Forall_app in Hnm as [Hnm _]. rewrite map_app in HT.
  destruct (fold_prefix _ _ _ _ _ _ HT) as (T1 & HT1). exists nm, T1. split; assumption.
Qed.

Lemma unions_complete_from o d : Nat.leb max_depth d = false -> forall cs S0 n V, Forall (fun c => vpl c <> None) cs ->
  Forall (fun w : Z * bytes * Value => (0 <= fst (fst w))%Z) (pls cs) -> UInv o d S0 V -> UAll o d (S0 ++ pls cs) ->
  exists t, trace_seq' o d cs (Ok (TUnion n V)) = Ok t.
Proof.
  intros Hd. induction cs as [|c r IH]; intros S0 n V HF Hpos Hinv Hall; [eexists; reflexivity|].
  pose proof (Forall_inv HF) as Hc. destruct (vpl c) as [w|] eqn:Ew; [|congruence].
  unfold pls in Hpos, Hall. cbn [flat_map] in Hpos, Hall. fold (pls r) in Hpos, Hall. rewrite Ew in Hpos, Hall. cbn [app] in Hpos.
  assert (Hall1 : UAll o d (S0 ++ [w])) by (apply (uall_prefix o d (S0 ++ [w]) (pls r)); rewrite <- app_assoc; exact Hall).
  destruct (ustep_progress o d S0 n V w Hd Hinv (Forall_inv Hpos) Hall1) as (t1 & E).
  destruct (uinv_step o d S0 n V w t1 Hinv E) as (V1 & -> & Hinv1).
  rewrite ts_cons, (trace_variant_eq o d c w _ Ew), E. apply (IH (S0 ++ [w]) n V1 (Forall_inv_tail HF) (Forall_inv_tail Hpos) Hinv1).
  rewrite <- app_assoc. exact Hall.
Qed.

Lemma union_complete o d cs n0 : Nat.leb max_depth d = false -> Forall (fun c => vpl c <> None) cs ->
  Forall (fun w : Z * bytes * Value => (0 <= fst (fst w))%Z) (pls cs) -> UAll o d (pls cs) ->
  exists t, trace_seq' o d cs (Ok (TUnknown n0)) = Ok t.
Proof.
  intros Hd HF Hpos Hall. destruct cs as [|c r]; [eexists; reflexivity|]. pose proof (Forall_inv HF) as Hc. destruct (vpl c) as [w|] eqn:Ew; [|congruence].
  assert (E : trace o d c (TUnknown n0) = trace o d c (TUnion n0 [])).
  { rewrite !(trace_variant_eq o d c w _ Ew). destruct w as [[idx name] p]. unfold ustep, ensure_union. rewrite Hd. reflexivity. }
  rewrite ts_cons, E, <- ts_cons. apply (unions_complete_from o d Hd (c :: r) [] n0 [] HF Hpos (uinv_nil o d) Hall).
Qed.

Lemma union_depth_ok o d c r n0 t : vpl c <> None -> trace_seq' o d (c :: r) (Ok (TUnknown n0)) = Ok t -> Nat.leb max_depth d = false.
Proof.
  intros Hc. destruct (vpl c) as [w|] eqn:Ew; [|congruence]. rewrite ts_cons, (trace_variant_eq o d c w _ Ew). destruct w as [[idx name] p].
  unfold ustep, ensure_union. destruct (Nat.leb max_depth d); [|reflexivity]. cbn [bind]. rewrite fold_err. discriminate.
Qed.

Section Repeat.
  Variable o : Opts.

  Lemma cores_app vs ws : cores (vs ++ ws) = cores vs ++ cores ws.
  Proof. unfold cores. apply flat_map_app. Qed.
  Lemma vals_app k S1 S2 : vals k (S1 ++ S2) = vals k S1 ++ vals k S2.
  Proof. unfold vals. apply flat_map_app. Qed.
  Lemma missing_dup k SS : missing k (SS ++ SS) = missing k SS.
  Proof. unfold missing. rewrite existsb_app. destruct (existsb _ SS); reflexivity. Qed.
  Lemma nullish_dup vs : existsb nullish (vs ++ vs) = existsb nullish vs.
  Proof. rewrite existsb_app. destruct (existsb nullish vs); reflexivity. Qed.

  (* Hom is inherited by the doubled collection of children (used through the induction hypothesis on the children of vs itself) *)
  Theorem nested_repeat : forall n d vs t, Hom o n vs -> trace_seq' o d vs (Ok (TUnknown false)) = Ok t ->
    exists t2, trace_seq' o d (vs ++ vs) (Ok (TUnknown false)) = Ok t2 /\ teq t t2.
  Proof.
    induction n as [|n IH]; intros d vs t Hh H1.
    - destruct Hh as [(l & Hl)|[]]. exists t. split; [|apply (leaf_result_teq o d vs l t Hl H1)].
      rewrite trace_seq_same in *. apply (leaf_repeat o d vs l t Hl H1).
    - destruct Hh as [(l & Hl)|[(ls & Hc & Hh)|[(RS & Hc & Hm & Hnd & Hh)|[(Hm & kvss & Hc & Hhk & Hhv)|[(TS & Hc & Hh)|(HF & Hh)]]]]].
      + exists t. split; [|apply (leaf_result_teq o d vs l t Hl H1)]. rewrite trace_seq_same in *. apply (leaf_repeat o d vs l t Hl H1).
      + (* sequences *)
        destruct ls as [|l0 r0].
        { destruct (cores_nil_atoms o vs Hc) as (l & Hl). exists t. split; [|apply (leaf_result_teq o d vs l t Hl H1)]. rewrite trace_seq_same in *. apply (leaf_repeat o d vs l t Hl H1). }
        rewrite (strip0 o d vs) in H1 by (rewrite Hc; first [apply containers_map; reflexivity|discriminate]). rewrite Hc in H1.
        destruct (omk_ok_inv _ _ _ H1) as (u & E1 & ->).
        pose proof (seq_depth_ok o d l0 r0 false u E1) as Hd.
        destruct (seq_projection o d (l0 :: r0) false u ltac:(discriminate) E1) as (it & -> & Hi).
        destruct (IH (S d) (concat (l0 :: r0)) it Hh Hi) as (it2 & Hi2 & Hteq).
        rewrite (strip0 o d (vs ++ vs)) by (rewrite cores_app, Hc, <- map_app; first [apply containers_map; reflexivity|discriminate]).
        rewrite cores_app, Hc, <- map_app, nullish_dup.
        rewrite (seq_complete o d ((l0 :: r0) ++ (l0 :: r0)) it2 Hd ltac:(discriminate)) by (rewrite concat_app; exact Hi2).
        rewrite omk_ok. eexists. split; [reflexivity|]. apply teq_mk. constructor. exact Hteq.
      + (* records, as structs or as maps with string keys *)
        destruct RS as [|x0 r0].
        { destruct (cores_nil_atoms o vs Hc) as (l & Hl). exists t. split; [|apply (leaf_result_teq o d vs l t Hl H1)]. rewrite trace_seq_same in *. apply (leaf_repeat o d vs l t Hl H1). }
        assert (Hrc : forall a, is_container (rec a) = true) by (intros [[|] ?]; reflexivity).
        rewrite (strip0 o d vs) in H1 by (rewrite Hc; first [apply containers_map; exact Hrc|discriminate]). rewrite Hc in H1.
        rewrite (recs_collection o d (x0 :: r0) false Hm) in H1.
        destruct (omk_ok_inv _ _ _ H1) as (w & E1 & ->).
        set (RS := x0 :: r0) in *. set (SS := map snd RS) in *. set (bb := existsb fst RS) in *.
        assert (HneS : SS <> []) by (unfold SS, RS; discriminate).
        destruct (trace_seq' o d (map VStruct SS) (Ok (TUnknown false))) as [u| |p] eqn:F1; [|rewrite obm_err in E1; discriminate|rewrite obm_panic in E1; discriminate].
        rewrite obm_ok in E1. injection E1 as <-.
        assert (Hd : Nat.leb max_depth d = false) by (unfold SS, RS in F1; cbn [map] in F1; apply (struct_depth_ok o d _ _ false u F1)).
        destruct (record_projection o d SS false u HneS Hnd F1) as (fs1 & -> & P1).
        assert (Hnd2 : Forall (fun fa => NoDup (map fst fa)) (SS ++ SS)) by (apply Forall_app; split; exact Hnd).
        assert (Hall : forall k, exists T, trace_seq' o (S d + count_dots k) (vals k (SS ++ SS)) (Ok (TUnknown false)) = Ok T /\
                                        (forall T1 l1, fget2 k fs1 = Some (T1, l1) -> exists T0, T1 = mk (missing k SS) T0 /\ teq T0 T)).
        { intros k. rewrite vals_app. specialize (P1 k). destruct (fget2 k fs1) as [[tk lk]|].
          - destruct P1 as (_ & T0 & R0 & ->). destruct (IH _ (vals k SS) T0 (Hh k) R0) as (T2 & R2 & Hq). exists T2. split; [exact R2|].
            intros T1 l1 E. injection E as <- <-. exists T0. split; [reflexivity|exact Hq].
          - rewrite P1. exists (TUnknown false). split; [reflexivity|]. intros T1 l1 E. discriminate. }
        destruct (record_complete o d (SS ++ SS) false Hd Hnd2 (fun k => let (T, HT) := Hall k in ex_intro _ T (proj1 HT))) as (u2 & E2).
        assert (Hm2 : existsb fst (RS ++ RS) = true -> o_map_as_struct o = true) by (rewrite existsb_app; fold bb; destruct bb; [intros _; apply Hm; reflexivity|discriminate]).
        rewrite (strip0 o d (vs ++ vs)) by (rewrite cores_app, Hc, <- map_app; first [apply containers_map; exact Hrc|discriminate]).
        rewrite cores_app, Hc, <- map_app, nullish_dup, (recs_collection o d (RS ++ RS) false Hm2), map_app. fold SS. rewrite E2, obm_ok, omk_ok.
        eexists. split; [reflexivity|]. apply teq_mk.
        destruct (record_projection o d (SS ++ SS) false u2 ltac:(intros E; apply app_eq_nil in E as [E _]; contradiction) Hnd2 E2) as (fs2 & -> & P2).
        assert (Hnone : forall k, fget2 k fs1 = None <-> fget2 k fs2 = None).
        { intros k. specialize (P1 k). specialize (P2 k). rewrite vals_app in P2.
          destruct (fget2 k fs1) as [[t1 l1]|], (fget2 k fs2) as [[t2 l2]|]; split; intros Hx; try discriminate; try reflexivity.
          - destruct P1 as (Hne & _). rewrite (proj1 (app_eq_nil _ _ P2)) in Hne. contradiction.
          - destruct P2 as (Hne & _). rewrite P1 in Hne. contradiction. }
        assert (Hsome : forall k t1 l1 t2 l2, fget2 k fs1 = Some (t1, l1) -> fget2 k fs2 = Some (t2, l2) -> teq t1 t2).
        { intros k t1 l1 t2 l2 G1 G2. specialize (P2 k). rewrite G2 in P2. destruct P2 as (_ & T2 & R2 & ->).
          destruct (Hall k) as (T & RT & Hrel). destruct (Hrel t1 l1 G1) as (T0 & -> & Hq). rewrite RT in R2. injection R2 as <-.
          rewrite missing_dup. apply teq_mk. exact Hq. }
        rewrite existsb_app. fold bb. destruct bb; cbn [orb bmode fmode]; [apply teq_mstruct|apply teq_struct]; assumption.
      + (* maps traced as maps *)
        destruct kvss as [|kv0 r0].
        { destruct (cores_nil_atoms o vs Hc) as (l & Hl). exists t. split; [|apply (leaf_result_teq o d vs l t Hl H1)]. rewrite trace_seq_same in *. apply (leaf_repeat o d vs l t Hl H1). }
        rewrite (strip0 o d vs) in H1 by (rewrite Hc; first [apply containers_map; reflexivity|discriminate]). rewrite Hc in H1.
        destruct (omk_ok_inv _ _ _ H1) as (u & E1 & ->).
        pose proof (maps_depth_ok o d kv0 r0 false u Hm E1) as Hd.
        destruct (maps_projection o d (kv0 :: r0) false u Hm ltac:(discriminate) E1) as (kt & vt & -> & Hk & Hv).
        destruct (IH (S d) _ kt Hhk Hk) as (kt2 & Hk2 & Hqk). destruct (IH (S d) _ vt Hhv Hv) as (vt2 & Hv2 & Hqv).
        set (KS := kv0 :: r0) in *.
        assert (Ek : mkeys (KS ++ KS) = mkeys KS ++ mkeys KS) by (apply flat_map_app).
        assert (Ev : mvals (KS ++ KS) = mvals KS ++ mvals KS) by (apply flat_map_app).
        rewrite <- Ek in Hk2. rewrite <- Ev in Hv2.
        pose proof (maps_complete o d (KS ++ KS) kt2 vt2 Hm Hd ltac:(discriminate) Hk2 Hv2) as E2.
        rewrite (strip0 o d (vs ++ vs)) by (rewrite cores_app, Hc, <- map_app; first [apply containers_map; reflexivity|discriminate]).
        rewrite cores_app, Hc, <- map_app, nullish_dup, E2, omk_ok. eexists. split; [reflexivity|]. apply teq_mk. apply teq_map; assumption.
      + (* tuples and tuple structs *)
        destruct TS as [|x0 r0].
        { destruct (cores_nil_atoms o vs Hc) as (l & Hl). exists t. split; [|apply (leaf_result_teq o d vs l t Hl H1)]. rewrite trace_seq_same in *. apply (leaf_repeat o d vs l t Hl H1). }
        assert (Htc : forall a, is_container (tup a) = true) by (intros [[|] ?]; reflexivity).
        rewrite (strip0 o d vs) in H1 by (rewrite Hc; first [apply containers_map; exact Htc|discriminate]). rewrite Hc, tups_collection in H1.
        destruct (omk_ok_inv _ _ _ H1) as (u & E1 & ->).
        set (TS := x0 :: r0) in *. set (LS := map snd TS) in *.
        assert (Hd : Nat.leb max_depth d = false) by (unfold LS, TS in E1; cbn [map] in E1; apply (tuple_depth_ok o d _ _ false u E1)).
        destruct (tuple_projection o d LS false u ltac:(unfold LS, TS; discriminate) E1) as (F & -> & Hlen & Hcol).
        assert (Hall : forall i, exists T, trace_seq' o (S d) (col i (LS ++ LS)) (Ok (TUnknown false)) = Ok T /\ teq (nth_tracer F i) (mk (tflag i LS) T)).
        { intros i. rewrite col_app. destruct (Hcol i) as (T0 & R0 & ->). destruct (IH (S d) (col i LS) _ (Hh i) R0) as (T2 & R2 & Hq). exists T2. split; [exact R2|apply teq_mk, Hq]. }
        destruct (tuple_complete o d (LS ++ LS) false Hd (fun i => let (T, HT) := Hall i in ex_intro _ T (proj1 HT))) as (u2 & E2).
        rewrite (strip0 o d (vs ++ vs)) by (rewrite cores_app, Hc, <- map_app; first [apply containers_map; exact Htc|discriminate]).
        rewrite cores_app, Hc, <- map_app, nullish_dup, tups_collection, map_app. fold LS. rewrite E2, omk_ok. eexists. split; [reflexivity|]. apply teq_mk.
        destruct (tuple_projection o d (LS ++ LS) false u2 ltac:(unfold LS, TS; discriminate) E2) as (F2 & -> & Hlen2 & Hcol2).
        apply teq_tuple; [rewrite Hlen, Hlen2, maxlen_app; lia|].
        intros i. destruct (Hall i) as (T & RT & Hq). destruct (Hcol2 i) as (T2 & R2 & ->). rewrite RT in R2. injection R2 as <-.
        assert (Ef : tflag i (LS ++ LS) = tflag i LS) by (unfold tflag; rewrite maxlen_app, tmiss_app, Nat.max_id; destruct (tmiss i LS); reflexivity).
        rewrite Ef. exact Hq.
      + (* enum variants *)
        destruct (cores vs) as [|c0 r0] eqn:Hc.
        { destruct (cores_nil_atoms o vs Hc) as (l & Hl). exists t. split; [|apply (leaf_result_teq o d vs l t Hl H1)]. rewrite trace_seq_same in *. apply (leaf_repeat o d vs l t Hl H1). }
        rewrite (strip0 o d vs) in H1 by (rewrite Hc; first [exact (variants_containers _ HF)|discriminate]). rewrite Hc in H1.
        destruct (omk_ok_inv _ _ _ H1) as (u & E1 & ->).
        pose proof (union_depth_ok o d c0 r0 false u (Forall_inv HF) E1) as Hd.
        destruct (union_projection o d (c0 :: r0) false u ltac:(discriminate) HF E1) as (V & -> & (Hpos & Hlen & Hsel)).
        set (CS := c0 :: r0) in *.
        assert (HF2 : Forall (fun c => vpl c <> None) (CS ++ CS)) by (apply Forall_app; split; exact HF).
        assert (Epl : pls (CS ++ CS) = pls CS ++ pls CS) by (apply flat_map_app).
        assert (Hpos2 : Forall (fun w : Z * bytes * Value => (0 <= fst (fst w))%Z) (pls (CS ++ CS))) by (rewrite Epl; apply Forall_app; split; exact Hpos).
        assert (Hall : forall i, exists nm T, Forall (fun e : bytes * Value => fst e = nm) (wsel i (pls (CS ++ CS))) /\
                                 trace_seq' o (S d + count_dots nm) (map snd (wsel i (pls (CS ++ CS)))) (Ok (TUnknown false)) = Ok T /\
                                 (forall nm1 T1, get_variant V i = Some (nm1, T1) -> nm1 = nm /\ teq T1 T)).
        { intros i. rewrite Epl, wsel_app, map_app. specialize (Hsel i). destruct (get_variant V i) as [[nm T1]|].
          - destruct Hsel as (_ & Hnm & R1). destruct (IH _ _ T1 (Hh i) R1) as (T2 & R2 & Hq). exists nm, T2. split; [apply Forall_app; split; exact Hnm|].
            split; [exact R2|]. intros nm1 T0 E. injection E as <- <-. split; [reflexivity|exact Hq].
          - rewrite Hsel. exists [], (TUnknown false). split; [constructor|]. split; [reflexivity|]. intros nm1 T0 E. discriminate. }
        assert (Hall' : UAll o d (pls (CS ++ CS))) by (intros i; destruct (Hall i) as (nm & T & A & B & _); exists nm, T; split; assumption).
        destruct (union_complete o d (CS ++ CS) false Hd HF2 Hpos2 Hall') as (u2 & E2).
        rewrite (strip0 o d (vs ++ vs)) by (rewrite cores_app, Hc; first [exact (variants_containers _ HF2)|discriminate]).
        rewrite cores_app, Hc, nullish_dup. fold CS. rewrite E2, omk_ok. eexists. split; [reflexivity|]. apply teq_mk.
        destruct (union_projection o d (CS ++ CS) false u2 ltac:(discriminate) HF2 E2) as (V2 & -> & (_ & Hlen2 & Hsel2)).
        assert (Hnames : forall i nm T nm' T', get_variant V i = Some (nm, T) -> get_variant V2 i = Some (nm', T') -> nm = nm' /\ teq T T').
        { intros i nm T nm' T' G1 G2. destruct (Hall i) as (nm0 & T0 & Hn0 & R0 & Hrel). destruct (Hrel nm T G1) as (-> & Hq).
          specialize (Hsel2 i). rewrite G2 in Hsel2. destruct Hsel2 as (Hne2 & Hn2 & R2).
          destruct (wsel i (pls (CS ++ CS))) as [|e r] eqn:Ee; [congruence|].
          pose proof (Forall_inv Hn0) as P1. pose proof (Forall_inv Hn2) as P2. cbn beta in P1, P2. assert (E0 : nm0 = nm') by congruence. clear P1 P2. subst nm'.
          split; [reflexivity|]. rewrite R0 in R2. injection R2 as <-. exact Hq. }
        apply teq_union.
        -- rewrite Hlen, Hlen2, Epl, ulen_app. lia.
        -- intros i. specialize (Hsel i). specialize (Hsel2 i). rewrite Epl, wsel_app in Hsel2.
           destruct (get_variant V i) as [[nm T]|], (get_variant V2 i) as [[nm' T']|]; split; intros Hx; try discriminate; try reflexivity.
           ++ destruct Hsel as (Hne1 & _). rewrite (proj1 (app_eq_nil _ _ Hsel2)) in Hne1. contradiction.
           ++ destruct Hsel2 as (Hne2 & _). rewrite Hsel in Hne2. contradiction.
        -- intros i nm T nm' T' G1 G2. apply (proj1 (Hnames i nm T nm' T' G1 G2)).
        -- intros i nm T nm' T' G1 G2. apply (proj2 (Hnames i nm T nm' T' G1 G2)).
  Qed.
End Repeat.
