(* Repeating the samples changes nothing, for nested data: tracing a collection twice over succeeds whenever tracing it once
   does, and gives the same tracer up to the order of record fields and counters.  Needs the converse direction of the projection
   theorems: a record / sequence position traces successfully as soon as each of its children does. *)
From Verif Require Import Tracer Coerce Coerce_proofs Builder_proofs Null_proofs Struct_proofs Project_proofs FlatRecords_proofs Nested_order.
From Coq Require Import Permutation.
Require Import Lia.
Local Open Scope nat_scope.

Lemma fold_prefix o d l1 l2 r t : trace_seq' o d (l1 ++ l2) r = Ok t -> exists t1, trace_seq' o d l1 r = Ok t1.
Proof. rewrite fold_app. destruct (trace_seq' o d l1 r) as [t1| |p]; [eauto|rewrite fold_err; discriminate|rewrite fold_panic; discriminate]. Qed.

(* ---- sequences ---- *)
Lemma seq_complete_from o d : Nat.leb max_depth d = false -> forall ls n item item',
  trace_seq' o (S d) (concat ls) (Ok item) = Ok item' -> trace_seq' o d (map VSeq ls) (Ok (TList n item)) = Ok (TList n item').
Proof.
  intros Hd. induction ls as [|l r IH]; intros n item item' H; [cbn in H |- *; congruence|].
  cbn [concat] in H. destruct (fold_prefix o (S d) l (concat r) _ _ H) as (it1 & E1). rewrite fold_app, E1 in H.
  cbn [map]. rewrite ts_cons, trace_seq_eq. unfold ensure_list. rewrite Hd. cbn [upgradable bind]. rewrite E1. cbn [bind]. apply (IH n it1 item' H).
Qed.

Lemma seq_complete o d ls item' : Nat.leb max_depth d = false -> ls <> [] ->
  trace_seq' o (S d) (concat ls) (Ok (TUnknown false)) = Ok item' ->
  trace_seq' o d (map VSeq ls) (Ok (TUnknown false)) = Ok (TList false item').
Proof.
  intros Hd Hne H. destruct ls as [|l r]; [congruence|].
  assert (E : trace o d (VSeq l) (TUnknown false) = trace o d (VSeq l) (TList false (TUnknown false))).
  { rewrite !trace_seq_eq. unfold ensure_list. rewrite Hd. reflexivity. }
  cbn [map]. rewrite ts_cons, E, <- ts_cons. apply (seq_complete_from o d Hd (l :: r) false (TUnknown false) item' H).
Qed.

Lemma seq_depth_ok o d l r n0 t : trace_seq' o d (map VSeq (l :: r)) (Ok (TUnknown n0)) = Ok t -> Nat.leb max_depth d = false.
Proof.
  cbn [map]. rewrite ts_cons, trace_seq_eq. unfold ensure_list. destruct (Nat.leb max_depth d); [|reflexivity]. cbn [bind]. rewrite fold_err. discriminate.
Qed.

(* ---- records ---- *)
Lemma struct_field_ok tr key seen fs t' :
  tr (match fget2 key fs with Some (t, _) => t | None => start seen end) = Ok t' -> exists fs', struct_field tr key seen fs = Ok fs'.
Proof.
  intros H. unfold struct_field. pose proof (find_fget2 fs key) as Hf. destruct (find_field_idx fs key) as [[t i]|].
  - destruct Hf as (ls & Hg). rewrite Hg in H. rewrite H. cbn [bind]. eauto.
  - rewrite Hf in H. unfold start in H. rewrite H. cbn [bind]. eauto.
Qed.

Lemma sfields_progress o d seen fs : forall fa acc, NoDup (map fst fa) ->
  (forall key, In key (map fst fa) -> fget2 key acc = fget2 key fs) ->
  (forall key x, In (key, x) fa -> exists t', trace o (S d + count_dots key) x (match fget2 key fs with Some (t, _) => t | None => start seen end) = Ok t') ->
  exists fs', sfields (trace o) d seen fa acc = Ok fs'.
Proof.
  induction fa as [|[key x] r IH]; intros acc Hnd Hsame Hok; [exists acc; reflexivity|]. cbn [sfields].
  cbn [map fst] in Hnd. apply NoDup_cons_iff in Hnd as [Hnotin Hnd].
  destruct (Hok key x (or_introl eq_refl)) as (t' & Ht). rewrite <- (Hsame key (or_introl eq_refl)) in Ht.
  destruct (struct_field_ok _ key seen acc t' Ht) as (acc1 & E1). rewrite E1. cbn [bind]. apply (IH acc1 Hnd).
  - intros k Hk. pose proof (sf_fget2 _ key seen acc acc1 k E1) as H1. destruct (bytes_eqb key k) eqn:E.
    + apply bytes_eqb_eq in E. subst k. contradiction.
    + rewrite H1. apply Hsame. right. exact Hk.
  - intros k y Hin. apply Hok. right. exact Hin.
Qed.

Lemma flookup_in k x fa : NoDup (map fst fa) -> In (k, x) fa -> flookup k fa = Some x.
Proof.
  induction fa as [|[key y] r IH]; intros Hnd Hin; [contradiction|]. cbn [map fst] in Hnd. apply NoDup_cons_iff in Hnd as [Hnotin Hnd]. cbn [flookup].
  destruct Hin as [E|Hin].
  - injection E as -> ->. rewrite bytes_eqb_refl. reflexivity.
  - destruct (bytes_eqb key k) eqn:E; [apply bytes_eqb_eq in E; subst key; exfalso; apply Hnotin; apply (in_map fst _ _ Hin)|apply IH; assumption].
Qed.

Section RecordComplete.
  Variable o : Opts.
  Variable d : nat.

  Lemma pinv_progress SS seen fs fa : PInv o d SS seen fs -> NoDup (map fst fa) ->
    (forall k, exists T, trace_seq' o (S d + count_dots k) (vals k (SS ++ [fa])) (Ok (TUnknown false)) = Ok T) ->
    exists fs', sfields (trace o) d seen fa fs = Ok fs'.
  Proof.
    intros (Hs & Hlt & Hk) Hnd Hall. apply (sfields_progress o d seen fs fa fs Hnd); [reflexivity|].
    intros key x Hin. destruct (Hall key) as (T' & HT'). rewrite vals_snoc, (flookup_in key x fa Hnd Hin), fold_snoc in HT'.
    specialize (Hk key). destruct (fget2 key fs) as [[tk ls]|].
    - destruct Hk as (_ & T & HT & ->). rewrite HT in HT'. cbn [bind] in HT'.
      destruct (missing key SS); cbn [mk]; [rewrite trace_mark, HT'; eexists; reflexivity|eexists; exact HT'].
    - rewrite Hk in HT'. cbn [trace_seq' fold_left bind] in HT'.
      assert (Est : start seen = mk (match SS with [] => false | _ => true end) (TUnknown false)) by (unfold start; subst seen; destruct SS; reflexivity).
      rewrite Est. destruct (match SS with [] => false | _ => true end); cbn [mk]; [rewrite trace_mark, HT'; eexists; reflexivity|eexists; exact HT'].
  Qed.

  Lemma complete_from : Nat.leb max_depth d = false -> forall S1 S0 n m seen fs,
    Forall (fun fa => NoDup (map fst fa)) S1 -> PInv o d S0 seen fs ->
    (forall k, exists T, trace_seq' o (S d + count_dots k) (vals k (S0 ++ S1)) (Ok (TUnknown false)) = Ok T) ->
    exists t, trace_seq' o d (map VStruct S1) (Ok (TStruct n m seen fs)) = Ok t.
  Proof.
    intros Hd. induction S1 as [|fa r IH]; intros S0 n m seen fs HF Hinv Hall; [eexists; reflexivity|].
    assert (Hall1 : forall k, exists T, trace_seq' o (S d + count_dots k) (vals k (S0 ++ [fa])) (Ok (TUnknown false)) = Ok T).
    { intros k. destruct (Hall k) as (T & HT). change (fa :: r) with ([fa] ++ r) in HT. rewrite app_assoc in HT. unfold vals in HT. rewrite flat_map_app in HT.
      apply (fold_prefix _ _ _ _ _ _ HT). }
    destruct (pinv_progress S0 seen fs fa Hinv (Forall_inv HF) Hall1) as (fs1 & Hloop).
    cbn [map]. rewrite ts_cons, trace_struct_eq. unfold ensure_struct. rewrite Hd. cbn [upgradable bind]. rewrite Hloop. cbn [bind].
    apply (IH (S0 ++ [fa]) n (m || false) (S seen) (struct_end seen fs1) (Forall_inv_tail HF) (pinv_step o d S0 seen fs fa fs1 Hinv (Forall_inv HF) Hloop)).
    intros k. rewrite <- app_assoc. apply Hall.
  Qed.

  Lemma record_complete SS n0 : Nat.leb max_depth d = false -> Forall (fun fa => NoDup (map fst fa)) SS ->
    (forall k, exists T, trace_seq' o (S d + count_dots k) (vals k SS) (Ok (TUnknown false)) = Ok T) ->
    exists t, trace_seq' o d (map VStruct SS) (Ok (TUnknown n0)) = Ok t.
  Proof.
    intros Hd HF Hall. destruct SS as [|fa r]; [eexists; reflexivity|]. cbn [map]. rewrite ts_cons, trace_struct_fresh, <- ts_cons.
    apply (complete_from Hd (fa :: r) [] n0 false 0 [] HF (pinv_nil o d) Hall).
  Qed.

  Lemma struct_depth_ok fa r n0 t : trace_seq' o d (map VStruct (fa :: r)) (Ok (TUnknown n0)) = Ok t -> Nat.leb max_depth d = false.
  Proof.
    cbn [map]. rewrite ts_cons, trace_struct_eq. unfold ensure_struct. destruct (Nat.leb max_depth d); [|reflexivity]. cbn [bind]. rewrite fold_err. discriminate.
  Qed.
End RecordComplete.

Section Repeat.
  Variable o : Opts.

  Lemma cores_app vs ws : cores (vs ++ ws) = cores vs ++ cores ws.
  Proof. unfold cores. apply flat_map_app. Qed.
  Lemma vals_app k S1 S2 : vals k (S1 ++ S2) = vals k S1 ++ vals k S2.
  Proof. unfold vals. apply flat_map_app. Qed.
  Lemma missing_dup k SS : missing k (SS ++ SS) = missing k SS.
  Proof. unfold missing. rewrite existsb_app. destruct (existsb _ SS); reflexivity. Qed.
  Lemma nullish_dup vs : existsb nullish (vs ++ vs) = existsb nullish vs.
  Proof. rewrite existsb_app. destruct (existsb nullish vs); reflexivity. Qed.

  (* Hom is inherited by the doubled collection of children (used through the induction hypothesis on the children of vs itself) *)
  Theorem nested_repeat : forall n d vs t, Hom o n vs -> trace_seq' o d vs (Ok (TUnknown false)) = Ok t ->
    exists t2, trace_seq' o d (vs ++ vs) (Ok (TUnknown false)) = Ok t2 /\ teq t t2.
  Proof.
    induction n as [|n IH]; intros d vs t Hh H1.
    - destruct Hh as [(l & Hl)|[]]. exists t. split; [|apply (leaf_result_teq o d vs l t Hl H1)].
      rewrite trace_seq_same in *. apply (leaf_repeat o d vs l t Hl H1).
    - destruct Hh as [(l & Hl)|[(ls & Hc & Hh)|[(SS & Hc & Hnd & Hh)|(Hm & SS & Hc & Hnd & Hh)]]].
      + exists t. split; [|apply (leaf_result_teq o d vs l t Hl H1)]. rewrite trace_seq_same in *. apply (leaf_repeat o d vs l t Hl H1).
      + (* sequences *)
        destruct ls as [|l0 r0].
        { destruct (cores_nil_atoms o vs Hc) as (l & Hl). exists t. split; [|apply (leaf_result_teq o d vs l t Hl H1)]. rewrite trace_seq_same in *. apply (leaf_repeat o d vs l t Hl H1). }
        rewrite (strip0 o d vs) in H1 by (rewrite Hc; first [apply containers_map; reflexivity|discriminate]). rewrite Hc in H1.
        destruct (omk_ok_inv _ _ _ H1) as (u & E1 & ->).
        pose proof (seq_depth_ok o d l0 r0 false u E1) as Hd.
        destruct (seq_projection o d (l0 :: r0) false u ltac:(discriminate) E1) as (it & -> & Hi).
        destruct (IH (S d) (concat (l0 :: r0)) it Hh Hi) as (it2 & Hi2 & Hteq).
        rewrite (strip0 o d (vs ++ vs)) by (rewrite cores_app, Hc, <- map_app; first [apply containers_map; reflexivity|discriminate]).
        rewrite cores_app, Hc, <- map_app, nullish_dup.
        rewrite (seq_complete o d ((l0 :: r0) ++ (l0 :: r0)) it2 Hd ltac:(discriminate)) by (rewrite concat_app; exact Hi2).
        rewrite omk_ok. eexists. split; [reflexivity|]. apply teq_mk. constructor. exact Hteq.
      + (* records *)
        destruct SS as [|fa0 r0].
        { destruct (cores_nil_atoms o vs Hc) as (l & Hl). exists t. split; [|apply (leaf_result_teq o d vs l t Hl H1)]. rewrite trace_seq_same in *. apply (leaf_repeat o d vs l t Hl H1). }
        rewrite (strip0 o d vs) in H1 by (rewrite Hc; first [apply containers_map; reflexivity|discriminate]). rewrite Hc in H1.
        destruct (omk_ok_inv _ _ _ H1) as (u & E1 & ->).
        pose proof (struct_depth_ok o d fa0 r0 false u E1) as Hd.
        destruct (record_projection o d (fa0 :: r0) false u ltac:(discriminate) Hnd E1) as (fs1 & -> & P1).
        set (SS := fa0 :: r0) in *.
        assert (Hnd2 : Forall (fun fa => NoDup (map fst fa)) (SS ++ SS)) by (apply Forall_app; split; exact Hnd).
        assert (Hall : forall k, exists T, trace_seq' o (S d + count_dots k) (vals k (SS ++ SS)) (Ok (TUnknown false)) = Ok T /\
                                        (forall T1 l1, fget2 k fs1 = Some (T1, l1) -> exists T0, T1 = mk (missing k SS) T0 /\ teq T0 T)).
        { intros k. rewrite vals_app. specialize (P1 k). destruct (fget2 k fs1) as [[tk lk]|].
          - destruct P1 as (_ & T0 & R0 & ->). destruct (IH _ (vals k SS) T0 (Hh k) R0) as (T2 & R2 & Hq). exists T2. split; [exact R2|].
            intros T1 l1 E. injection E as <- <-. exists T0. split; [reflexivity|exact Hq].
          - rewrite P1. exists (TUnknown false). split; [reflexivity|]. intros T1 l1 E. discriminate. }
        destruct (record_complete o d (SS ++ SS) false Hd Hnd2 (fun k => let (T, HT) := Hall k in ex_intro _ T (proj1 HT))) as (u2 & E2).
        rewrite (strip0 o d (vs ++ vs)) by (rewrite cores_app, Hc, <- map_app; first [apply containers_map; reflexivity|discriminate]).
        rewrite cores_app, Hc, <- map_app, nullish_dup, E2, omk_ok. eexists. split; [reflexivity|]. apply teq_mk.
        destruct (record_projection o d (SS ++ SS) false u2 ltac:(discriminate) Hnd2 E2) as (fs2 & -> & P2).
        apply teq_struct.
        -- intros k. specialize (P1 k). specialize (P2 k). rewrite vals_app in P2.
           destruct (fget2 k fs1) as [[t1 l1]|], (fget2 k fs2) as [[t2 l2]|]; split; intros Hx; try discriminate; try reflexivity.
           ++ destruct P1 as (Hne & _). rewrite (proj1 (app_eq_nil _ _ P2)) in Hne. contradiction.
           ++ destruct P2 as (Hne & _). rewrite P1 in Hne. contradiction.
        -- intros k t1 l1 t2 l2 G1 G2. specialize (P2 k). rewrite G2 in P2. destruct P2 as (_ & T2 & R2 & ->).
           destruct (Hall k) as (T & RT & Hrel). destruct (Hrel t1 l1 G1) as (T0 & -> & Hq). rewrite RT in R2. injection R2 as <-.
           rewrite missing_dup. apply teq_mk. exact Hq.
      + (* records presented as maps *)
        destruct SS as [|fa0 r0].
        { destruct (cores_nil_atoms o vs Hc) as (l & Hl). exists t. split; [|apply (leaf_result_teq o d vs l t Hl H1)]. rewrite trace_seq_same in *. apply (leaf_repeat o d vs l t Hl H1). }
        rewrite (strip0 o d vs) in H1 by (rewrite Hc; first [apply containers_map; reflexivity|discriminate]). rewrite Hc in H1.
        rewrite (maps_collection o d (fa0 :: r0) Hm ltac:(discriminate)) in H1.
        destruct (omk_ok_inv _ _ _ H1) as (w & E1 & ->).
        destruct (trace_seq' o d (map VStruct (fa0 :: r0)) (Ok (TUnknown false))) as [u| |p] eqn:F1; try discriminate E1. cbn [omode] in E1. injection E1 as <-.
        pose proof (struct_depth_ok o d fa0 r0 false u F1) as Hd.
        destruct (record_projection o d (fa0 :: r0) false u ltac:(discriminate) Hnd F1) as (fs1 & -> & P1).
        set (SS := fa0 :: r0) in *.
        assert (Hnd2 : Forall (fun fa => NoDup (map fst fa)) (SS ++ SS)) by (apply Forall_app; split; exact Hnd).
        assert (Hall : forall k, exists T, trace_seq' o (S d + count_dots k) (vals k (SS ++ SS)) (Ok (TUnknown false)) = Ok T /\
                                        (forall T1 l1, fget2 k fs1 = Some (T1, l1) -> exists T0, T1 = mk (missing k SS) T0 /\ teq T0 T)).
        { intros k. rewrite vals_app. specialize (P1 k). destruct (fget2 k fs1) as [[tk lk]|].
          - destruct P1 as (_ & T0 & R0 & ->). destruct (IH _ (vals k SS) T0 (Hh k) R0) as (T2 & R2 & Hq). exists T2. split; [exact R2|].
            intros T1 l1 E. injection E as <- <-. exists T0. split; [reflexivity|exact Hq].
          - rewrite P1. exists (TUnknown false). split; [reflexivity|]. intros T1 l1 E. discriminate. }
        destruct (record_complete o d (SS ++ SS) false Hd Hnd2 (fun k => let (T, HT) := Hall k in ex_intro _ T (proj1 HT))) as (u2 & E2).
        rewrite (strip0 o d (vs ++ vs)) by (rewrite cores_app, Hc, <- map_app; first [apply containers_map; reflexivity|discriminate]).
        rewrite cores_app, Hc, <- map_app, nullish_dup, (maps_collection o d (SS ++ SS) Hm ltac:(discriminate)), E2. cbn [omode]. rewrite omk_ok.
        eexists. split; [reflexivity|]. apply teq_mk.
        destruct (record_projection o d (SS ++ SS) false u2 ltac:(discriminate) Hnd2 E2) as (fs2 & -> & P2).
        cbn [fmode]. apply teq_mstruct.
        -- intros k. specialize (P1 k). specialize (P2 k). rewrite vals_app in P2.
           destruct (fget2 k fs1) as [[t1 l1]|], (fget2 k fs2) as [[t2 l2]|]; split; intros Hx; try discriminate; try reflexivity.
           ++ destruct P1 as (Hne & _). rewrite (proj1 (app_eq_nil _ _ P2)) in Hne. contradiction.
           ++ destruct P2 as (Hne & _). rewrite P1 in Hne. contradiction.
        -- intros k t1 l1 t2 l2 G1 G2. specialize (P2 k). rewrite G2 in P2. destruct P2 as (_ & T2 & R2 & ->).
           destruct (Hall k) as (T & RT & Hrel). destruct (Hrel t1 l1 G1) as (T0 & -> & Hq). rewrite RT in R2. injection R2 as <-.
           rewrite missing_dup. apply teq_mk. exact Hq.
  Qed.
End Repeat.
