(* Success does not depend on the order of the samples, for nested data, unless primitives may coerce to strings: whenever a collection
   of the class Hom traces, every permutation of it traces.  From the projection theorems (the children of a position that traces,
   trace), the induction hypothesis on the children, and the converse theorems (a position traces as soon as its children do). *)
From Verif Require Import Tracer Coerce Coerce_proofs Builder_proofs Null_proofs Struct_proofs Project_proofs FlatRecords_proofs Shapes_proofs Nested_order Nested_repeat.
From Coq Require Import Permutation.
Require Import Lia.
Local Open Scope nat_scope.

Section Success.
  Variable o : Opts.
  Hypothesis Hts : o_to_string o = false.

  Lemma leaf_succ d vs vs' l t : all_atoms o vs = Some l -> Permutation vs vs' ->
    trace_seq' o d vs (Ok (TUnknown false)) = Ok t -> exists t', trace_seq' o d vs' (Ok (TUnknown false)) = Ok t'.
  Proof.
    intros Hl Hp H. pose proof (leaf_success_order_free o d vs vs' l Hts Hl Hp) as E. rewrite trace_seq_same in *. rewrite H in E.
    destruct (trace_seq o d vs' (TUnknown false)) as [t'| |p]; try discriminate E. eauto.
  Qed.

  Theorem nested_success_order_free : forall n d vs vs' t,
    Hom o n vs -> Permutation vs vs' -> trace_seq' o d vs (Ok (TUnknown false)) = Ok t ->
    exists t', trace_seq' o d vs' (Ok (TUnknown false)) = Ok t'.
  Proof.
    induction n as [|n IH]; intros d vs vs' t Hh Hp H1.
    - destruct Hh as [(l & Hl)|[]]. apply (leaf_succ d vs vs' l t Hl Hp H1).
    - pose proof (cores_perm vs vs' Hp) as Hcp.
      destruct Hh as [(l & Hl)|[(ls & Hc & Hh)|[(RS & Hc & Hm & Hnd & Hh)|[(Hm & kvss & Hc & Hhk & Hhv)|[(TS & Hc & Hh)|(HF & Hh)]]]]].
      + apply (leaf_succ d vs vs' l t Hl Hp H1).
      + (* sequences *)
        rewrite Hc in Hcp. destruct (Permutation_map_inv _ _ (Permutation_sym Hcp)) as (ls' & Hc' & Hpl).
        destruct ls as [|l0 r0].
        { destruct (cores_nil_atoms o vs Hc) as (l & Hl). apply (leaf_succ d vs vs' l t Hl Hp H1). }
        assert (Hne' : ls' <> []) by (intros ->; apply Permutation_sym, Permutation_nil in Hpl; discriminate).
        rewrite (strip0 o d vs) in H1 by (rewrite Hc; first [apply containers_map; reflexivity|discriminate]). rewrite Hc in H1.
        destruct (omk_ok_inv _ _ _ H1) as (u & E1 & ->).
        pose proof (seq_depth_ok o d l0 r0 false u E1) as Hd.
        destruct (seq_projection o d (l0 :: r0) false u ltac:(discriminate) E1) as (it & -> & Hi).
        destruct (IH (S d) _ (concat ls') it Hh (concat_perm _ _ Hpl) Hi) as (it' & Hi').
        rewrite (strip0 o d vs') by (rewrite Hc'; first [apply containers_map; reflexivity|destruct ls'; [congruence|discriminate]]).
        rewrite Hc', (seq_complete o d ls' it' Hd Hne' Hi'), omk_ok. eexists; reflexivity.
      + (* records, as structs or as maps with string keys *)
        rewrite Hc in Hcp. destruct (Permutation_map_inv _ _ (Permutation_sym Hcp)) as (RS' & Hc' & Hpl).
        pose proof (Permutation_map snd Hpl) as Hps. pose proof (existsb_perm fst RS RS' Hpl) as Hbp.
        assert (Hnd' : Forall (fun fa => NoDup (map fst fa)) (map snd RS')) by (apply (Permutation_Forall Hps Hnd)).
        assert (Hm' : existsb fst RS' = true -> o_map_as_struct o = true) by (rewrite <- Hbp; exact Hm).
        destruct RS as [|x0 r0].
        { destruct (cores_nil_atoms o vs Hc) as (l & Hl). apply (leaf_succ d vs vs' l t Hl Hp H1). }
        assert (Hne' : RS' <> []) by (intros ->; apply Permutation_sym, Permutation_nil in Hpl; discriminate).
        assert (Hrc : forall a, is_container (rec a) = true) by (intros [[|] ?]; reflexivity).
        rewrite (strip0 o d vs) in H1 by (rewrite Hc; first [apply containers_map; exact Hrc|discriminate]). rewrite Hc in H1.
        rewrite (recs_collection o d (x0 :: r0) false Hm) in H1.
        destruct (omk_ok_inv _ _ _ H1) as (w & E1 & ->).
        set (SS := map snd (x0 :: r0)) in *. set (SS' := map snd RS') in *.
        destruct (trace_seq' o d (map VStruct SS) (Ok (TUnknown false))) as [u| |p] eqn:F1; [|rewrite obm_err in E1; discriminate|rewrite obm_panic in E1; discriminate].
        assert (Hd : Nat.leb max_depth d = false) by (unfold SS in F1; cbn [map] in F1; apply (struct_depth_ok o d _ _ false u F1)).
        destruct (record_projection o d SS false u ltac:(unfold SS; discriminate) Hnd F1) as (fs1 & -> & P1).
        assert (Hall : forall k, exists T, trace_seq' o (S d + count_dots k) (vals k SS') (Ok (TUnknown false)) = Ok T).
        { intros k. specialize (P1 k). destruct (fget2 k fs1) as [[tk lk]|].
          - destruct P1 as (_ & T0 & R0 & _). apply (IH _ (vals k SS) (vals k SS') T0 (Hh k) (vals_perm k _ _ Hps) R0).
          - pose proof (vals_perm k _ _ Hps) as Hvp. fold SS SS' in Hvp. rewrite P1 in Hvp. apply Permutation_nil in Hvp. rewrite Hvp. eexists; reflexivity. }
        destruct (record_complete o d SS' false Hd Hnd' Hall) as (u2 & E2).
        rewrite (strip0 o d vs') by (rewrite Hc'; first [apply containers_map; exact Hrc|destruct RS'; [congruence|discriminate]]).
        rewrite Hc', (recs_collection o d RS' false Hm'). fold SS'. rewrite E2, obm_ok, omk_ok. eexists; reflexivity.
      + (* maps traced as maps *)
        rewrite Hc in Hcp. destruct (Permutation_map_inv _ _ (Permutation_sym Hcp)) as (kvss' & Hc' & Hpl).
        destruct kvss as [|kv0 r0].
        { destruct (cores_nil_atoms o vs Hc) as (l & Hl). apply (leaf_succ d vs vs' l t Hl Hp H1). }
        assert (Hne' : kvss' <> []) by (intros ->; apply Permutation_sym, Permutation_nil in Hpl; discriminate).
        rewrite (strip0 o d vs) in H1 by (rewrite Hc; first [apply containers_map; reflexivity|discriminate]). rewrite Hc in H1.
        destruct (omk_ok_inv _ _ _ H1) as (u & E1 & ->).
        pose proof (maps_depth_ok o d kv0 r0 false u Hm E1) as Hd.
        destruct (maps_projection o d (kv0 :: r0) false u Hm ltac:(discriminate) E1) as (kt & vt & -> & Hk & Hv).
        destruct (IH (S d) _ (mkeys kvss') kt Hhk (Permutation_flat_map _ Hpl) Hk) as (kt' & Hk').
        destruct (IH (S d) _ (mvals kvss') vt Hhv (Permutation_flat_map _ Hpl) Hv) as (vt' & Hv').
        rewrite (strip0 o d vs') by (rewrite Hc'; first [apply containers_map; reflexivity|destruct kvss'; [congruence|discriminate]]).
        rewrite Hc', (maps_complete o d kvss' kt' vt' Hm Hd Hne' Hk' Hv'), omk_ok. eexists; reflexivity.
      + (* tuples and tuple structs *)
        rewrite Hc in Hcp. destruct (Permutation_map_inv _ _ (Permutation_sym Hcp)) as (TS' & Hc' & Hpl).
        pose proof (Permutation_map snd Hpl) as Hps.
        destruct TS as [|x0 r0].
        { destruct (cores_nil_atoms o vs Hc) as (l & Hl). apply (leaf_succ d vs vs' l t Hl Hp H1). }
        assert (Hne' : TS' <> []) by (intros ->; apply Permutation_sym, Permutation_nil in Hpl; discriminate).
        assert (Htc : forall a, is_container (tup a) = true) by (intros [[|] ?]; reflexivity).
        rewrite (strip0 o d vs) in H1 by (rewrite Hc; first [apply containers_map; exact Htc|discriminate]). rewrite Hc, tups_collection in H1.
        destruct (omk_ok_inv _ _ _ H1) as (u & E1 & ->).
        assert (Hd : Nat.leb max_depth d = false) by (cbn [map] in E1; apply (tuple_depth_ok o d _ _ false u E1)).
        destruct (tuple_projection o d (map snd (x0 :: r0)) false u ltac:(discriminate) E1) as (F & -> & Hlen & Hcol).
        assert (Hall : forall i, exists T, trace_seq' o (S d) (col i (map snd TS')) (Ok (TUnknown false)) = Ok T).
        { intros i. destruct (Hcol i) as (T0 & R0 & _). apply (IH (S d) (col i (map snd (x0 :: r0))) (col i (map snd TS')) _ (Hh i) (col_perm i _ _ Hps) R0). }
        destruct (tuple_complete o d (map snd TS') false Hd Hall) as (u2 & E2).
        rewrite (strip0 o d vs') by (rewrite Hc'; first [apply containers_map; exact Htc|destruct TS'; [congruence|discriminate]]).
        rewrite Hc', tups_collection, E2, omk_ok. eexists; reflexivity.
      + (* enum variants *)
        destruct (cores vs) as [|c0 r0] eqn:Hc.
        { destruct (cores_nil_atoms o vs Hc) as (l & Hl). apply (leaf_succ d vs vs' l t Hl Hp H1). }
        assert (HF' : Forall (fun c => vpl c <> None) (cores vs')) by (apply (Permutation_Forall Hcp HF)).
        assert (Hne' : cores vs' <> []) by (intros E; rewrite E in Hcp; apply Permutation_sym, Permutation_nil in Hcp; discriminate).
        rewrite (strip0 o d vs) in H1 by (rewrite Hc; first [exact (variants_containers _ HF)|discriminate]). rewrite Hc in H1.
        destruct (omk_ok_inv _ _ _ H1) as (u & E1 & ->).
        pose proof (union_depth_ok o d c0 r0 false u (Forall_inv HF) E1) as Hd.
        destruct (union_projection o d (c0 :: r0) false u ltac:(discriminate) HF E1) as (V & -> & (Hpos & Hlen & Hsel)).
        pose proof (pls_perm _ _ Hcp) as Hpp.
        assert (Hpos' : Forall (fun w : Z * bytes * Value => (0 <= fst (fst w))%Z) (pls (cores vs'))) by (apply (Permutation_Forall Hpp Hpos)).
        assert (Hall : UAll o d (pls (cores vs'))).
        { intros i. specialize (Hsel i). pose proof (wsel_perm i _ _ Hpp) as Hw. destruct (get_variant V i) as [[nm T]|].
          - destruct Hsel as (_ & Hnm & R1).
            destruct (IH _ _ (map snd (wsel i (pls (cores vs')))) T (Hh i) (Permutation_map snd Hw) R1) as (T' & R').
            exists nm, T'. split; [apply (Permutation_Forall Hw Hnm)|exact R'].
          - rewrite Hsel in Hw. apply Permutation_nil in Hw. rewrite Hw. exists [], (TUnknown false). split; [constructor|reflexivity]. }
        destruct (union_complete o d (cores vs') false Hd HF' Hpos' Hall) as (u2 & E2).
        rewrite (strip0 o d vs') by first [exact (variants_containers _ HF')|exact Hne']. rewrite E2, omk_ok. eexists; reflexivity.
  Qed.
End Success.
