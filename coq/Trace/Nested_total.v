(* Every collection that traces is in the class Hom: the crate refuses positions at which the samples mix shapes (other than the
   mixtures the class contains: struct / string-keyed map, tuple / tuple struct, and nulls anywhere), so success alone puts a
   collection in the class - up to the absence of duplicate keys inside one record, which the projection theorem needs.  With this the
   theorems about Hom hold for every collection of samples. *)
From Verif Require Import Tracer Coerce Coerce_proofs Builder_proofs Null_proofs Struct_proofs Project_proofs FlatRecords_proofs Shapes_proofs Nested_order Nested_repeat Nested_success Nested_schema.
From Coq Require Import Permutation.
Require Import Lia.
Local Open Scope nat_scope.

(* nesting depth; wrappers and nulls do not count *)
Fixpoint vdepth (v : Value) : nat :=
  match v with
  | VSome x | VNewtypeStruct x => vdepth x
  | VSeq l | VTuple l | VTupleStruct l => S (list_max (map vdepth l))
  | VMap kvs => S (list_max (map (fun kv : Value * Value => let '(k, x) := kv in Nat.max (vdepth k) (vdepth x)) kvs))
  | VStruct fs => S (list_max (map (fun f : bytes * Value => let '(_, x) := f in vdepth x) fs))
  | VUnitVariant _ _ => 1
  | VNewtypeVariant _ _ x => S (vdepth x)
  | VTupleVariant _ _ l => S (S (list_max (map vdepth l)))
  | VStructVariant _ _ fs => S (S (list_max (map (fun f : bytes * Value => let '(_, x) := f in vdepth x) fs)))
  | _ => 0
  end.

Definition skeys (kvs : list (Value * Value)) : list bytes :=
  flat_map (fun kv : Value * Value => match fst kv with VStr k => [k] | _ => [] end) kvs.

Section Total.
  Variable o : Opts.

  (* no record mentions a key twice, at any depth *)
  Fixpoint ndk (v : Value) : Prop :=
    match v with
    | VSome x | VNewtypeStruct x | VNewtypeVariant _ _ x => ndk x
    | VSeq l | VTuple l | VTupleStruct l | VTupleVariant _ _ l => fold_right (fun x P => ndk x /\ P) True l
    | VMap kvs => (o_map_as_struct o = true -> NoDup (skeys kvs)) /\
                  fold_right (fun (kv : Value * Value) P => let '(k, x) := kv in ndk k /\ ndk x /\ P) True kvs
    | VStruct fs | VStructVariant _ _ fs =>
      NoDup (map fst fs) /\ fold_right (fun (f : bytes * Value) P => let '(_, x) := f in ndk x /\ P) True fs
    | _ => True
    end.

  Definition bound (n : nat) (v : Value) : Prop := vdepth v <= n /\ ndk v.

  (* ---- kinds ---- *)
  Inductive Kind := KList | KMap | KStruct | KTuple | KUnion.
  Definition tkind (t : Tracer) : option Kind :=
    match t with
    | TList _ _ => Some KList | TMap _ _ _ => Some KMap | TStruct _ _ _ _ => Some KStruct | TTuple _ _ => Some KTuple | TUnion _ _ => Some KUnion
    | _ => None
    end.
  Definition vkind (c : Value) : option Kind :=
    match c with
    | VSeq _ => Some KList
    | VMap _ => Some (if o_map_as_struct o then KStruct else KMap)
    | VStruct _ => Some KStruct
    | VTuple _ | VTupleStruct _ => Some KTuple
    | VUnitVariant _ _ | VNewtypeVariant _ _ _ | VTupleVariant _ _ _ | VStructVariant _ _ _ => Some KUnion
    | _ => None
    end.
  Definition plain (c : Value) : bool :=
    match c with VNone | VSome _ | VUnit | VUnitStruct | VNewtypeStruct _ => false | _ => true end.

  Lemma core_plain : forall v cc, core v = Some cc -> plain cc = true.
  Proof. induction v; intros cc H; cbn [core] in H; try discriminate; try (injection H as <-; reflexivity); auto. Qed.
  Lemma core_depth : forall v cc, core v = Some cc -> vdepth cc = vdepth v.
  Proof. induction v; intros cc H; cbn [core] in H; try discriminate; try (injection H as <-; reflexivity); cbn [vdepth]; auto. Qed.
  Lemma core_ndk : forall v cc, core v = Some cc -> ndk v -> ndk cc.
  Proof. induction v; intros cc H Hn; cbn [core] in H; try discriminate; try (injection H as <-; exact Hn); cbn [ndk] in Hn; auto. Qed.

  Lemma container_kind c : is_container c = true <-> vkind c <> None.
  Proof. destruct c; cbn [is_container vkind]; split; intros H; try discriminate; try reflexivity; try congruence. Qed.

  Lemma tkind_mark t : tkind (mark_nullable t) = tkind t.
  Proof. destruct t; reflexivity. Qed.
  Lemma tkind_mk b t : tkind (mk b t) = tkind t.
  Proof. destruct b; cbn [mk]; [apply tkind_mark|reflexivity]. Qed.
  Lemma tkind_complex t k : tkind t = Some k -> is_complex t = true.
  Proof. destruct t; cbn; congruence. Qed.

  Lemma str_type_nonnull s : pt_eqb (str_type o s) PNull = false.
  Proof. unfold str_type. repeat match goal with |- context [if ?cnd then _ else _] => destruct cnd end; reflexivity. Qed.
  Lemma prim_on_complex pt t : is_complex t = true -> pt_eqb pt PNull = false -> ensure_prim o pt t = Err.
  Proof. intros Hc Hp. destruct t; try discriminate Hc; cbn [ensure_prim]; rewrite Hp; reflexivity. Qed.

  (* a plain value traced into a position that has a shape: the kinds agree, and the kind stays *)
  Lemma plain_step d c t t' : plain c = true -> is_complex t = true -> trace o d c t = Ok t' -> vkind c = tkind t /\ tkind t' = tkind t.
  Proof.
    intros Hp Hc H.
    destruct c; try discriminate Hp;
      try (cbn [trace] in H; rewrite prim_on_complex in H by first [exact Hc|reflexivity|apply str_type_nonnull]; discriminate H).
    - rewrite trace_seq_eq in H. unfold ensure_list in H. destruct (Nat.leb max_depth d); [discriminate|].
      destruct t; try discriminate Hc; cbn [upgradable bind] in H; try discriminate. apply bind_ok in H as (x & _ & H). injection H as <-. split; reflexivity.
    - rewrite trace_tuple_eq in H. unfold ensure_tuple in H. destruct (Nat.leb max_depth d); [discriminate|].
      destruct t; try discriminate Hc; cbn [upgradable bind] in H; try discriminate. apply bind_ok in H as (x & _ & H). injection H as <-. split; reflexivity.
    - rewrite trace_tuple_struct, trace_tuple_eq in H. unfold ensure_tuple in H. destruct (Nat.leb max_depth d); [discriminate|].
      destruct t; try discriminate Hc; cbn [upgradable bind] in H; try discriminate. apply bind_ok in H as (x & _ & H). injection H as <-. split; reflexivity.
    - cbn [vkind]. destruct (o_map_as_struct o) eqn:Em.
      + rewrite (trace_map_struct_eq o d kvs t Em) in H. unfold ensure_struct in H. destruct (Nat.leb max_depth d); [discriminate|].
        destruct t; try discriminate Hc; cbn [upgradable bind] in H; try discriminate. apply bind_ok in H as (x & _ & H). injection H as <-. split; reflexivity.
      + rewrite (trace_map_eq o d kvs t Em) in H. unfold ensure_map in H. destruct (Nat.leb max_depth d); [discriminate|].
        destruct t; try discriminate Hc; cbn [upgradable bind] in H; try discriminate. apply bind_ok in H as (x & _ & H). injection H as <-. split; reflexivity.
    - rewrite trace_struct_eq in H. unfold ensure_struct in H. destruct (Nat.leb max_depth d); [discriminate|].
      destruct t; try discriminate Hc; cbn [upgradable bind] in H; try discriminate. apply bind_ok in H as (x & _ & H). injection H as <-. split; reflexivity.
    - erewrite trace_variant_eq in H by reflexivity. cbn [ustep] in H. unfold ensure_union in H. destruct (Nat.leb max_depth d); [discriminate|].
      destruct t; try discriminate Hc; cbn [upgradable bind] in H; try discriminate.
      repeat match type of H with
             | (if ?c then _ else _) = _ => destruct c
             | match ?c with _ => _ end = _ => destruct c as [[? ?]|]
             | bind _ _ = Ok _ => apply bind_ok in H as (? & _ & H)
             end; try discriminate; injection H as <-; split; reflexivity.
    - erewrite trace_variant_eq in H by reflexivity. cbn [ustep] in H. unfold ensure_union in H. destruct (Nat.leb max_depth d); [discriminate|].
      destruct t; try discriminate Hc; cbn [upgradable bind] in H; try discriminate.
      repeat match type of H with
             | (if ?c then _ else _) = _ => destruct c
             | match ?c with _ => _ end = _ => destruct c as [[? ?]|]
             | bind _ _ = Ok _ => apply bind_ok in H as (? & _ & H)
             end; try discriminate; injection H as <-; split; reflexivity.
    - erewrite trace_variant_eq in H by reflexivity. cbn [ustep] in H. unfold ensure_union in H. destruct (Nat.leb max_depth d); [discriminate|].
      destruct t; try discriminate Hc; cbn [upgradable bind] in H; try discriminate.
      repeat match type of H with
             | (if ?c then _ else _) = _ => destruct c
             | match ?c with _ => _ end = _ => destruct c as [[? ?]|]
             | bind _ _ = Ok _ => apply bind_ok in H as (? & _ & H)
             end; try discriminate; injection H as <-; split; reflexivity.
    - erewrite trace_variant_eq in H by reflexivity. cbn [ustep] in H. unfold ensure_union in H. destruct (Nat.leb max_depth d); [discriminate|].
      destruct t; try discriminate Hc; cbn [upgradable bind] in H; try discriminate.
      repeat match type of H with
             | (if ?c then _ else _) = _ => destruct c
             | match ?c with _ => _ end = _ => destruct c as [[? ?]|]
             | bind _ _ = Ok _ => apply bind_ok in H as (? & _ & H)
             end; try discriminate; injection H as <-; split; reflexivity.
  Qed.
  Lemma ustep_kind d w t t1 : ustep o d w t = Ok t1 -> tkind t1 = Some KUnion.
  Proof.
    destruct w as [[idx name] p]. unfold ustep. intros H. apply bind_ok in H as (t0 & _ & H). destruct t0; try discriminate.
    repeat match type of H with
           | (if ?cnd then _ else _) = _ => destruct cnd
           | match ?cnd with _ => _ end = _ => destruct cnd as [[? ?]|]
           | bind _ _ = Ok _ => apply bind_ok in H as (? & _ & H)
           end; try discriminate; injection H as <-; reflexivity.
  Qed.

  (* the first container of a position gives it its kind *)
  Lemma container_result_kind d c t1 : is_container c = true -> trace o d c (TUnknown false) = Ok t1 -> tkind t1 = vkind c.
  Proof.
    intros Hc H. destruct c; try discriminate Hc.
    - rewrite trace_seq_eq in H. apply bind_ok in H as (t0 & _ & H). destruct t0; try discriminate. apply bind_ok in H as (x & _ & H). injection H as <-. reflexivity.
    - rewrite trace_tuple_eq in H. apply bind_ok in H as (t0 & _ & H). destruct t0; try discriminate. apply bind_ok in H as (x & _ & H). injection H as <-. reflexivity.
    - rewrite trace_tuple_struct, trace_tuple_eq in H. apply bind_ok in H as (t0 & _ & H). destruct t0; try discriminate. apply bind_ok in H as (x & _ & H). injection H as <-. reflexivity.
    - cbn [vkind]. destruct (o_map_as_struct o) eqn:Em.
      + rewrite (trace_map_struct_eq o d kvs _ Em) in H. apply bind_ok in H as (t0 & _ & H). destruct t0; try discriminate. apply bind_ok in H as (x & _ & H). injection H as <-. reflexivity.
      + rewrite (trace_map_eq o d kvs _ Em) in H. apply bind_ok in H as (t0 & _ & H). destruct t0; try discriminate. apply bind_ok in H as (x & _ & H). injection H as <-. reflexivity.
    - rewrite trace_struct_eq in H. apply bind_ok in H as (t0 & _ & H). destruct t0; try discriminate. apply bind_ok in H as (x & _ & H). injection H as <-. reflexivity.
    - erewrite trace_variant_eq in H by reflexivity. apply (ustep_kind d _ _ _ H).
    - erewrite trace_variant_eq in H by reflexivity. apply (ustep_kind d _ _ _ H).
    - erewrite trace_variant_eq in H by reflexivity. apply (ustep_kind d _ _ _ H).
    - erewrite trace_variant_eq in H by reflexivity. apply (ustep_kind d _ _ _ H).
  Qed.

  Lemma cores_cons v r : cores (v :: r) = (match core v with Some c => [c] | None => [] end) ++ cores r.
  Proof. reflexivity. Qed.

  (* once a position has a kind, every later sample has that kind (or is a null) *)
  Lemma settled_kinds d : forall vs t t' k, tkind t = Some k -> trace_seq' o d vs (Ok t) = Ok t' ->
    Forall (fun c => vkind c = Some k) (cores vs) /\ tkind t' = Some k.
  Proof.
    induction vs as [|v r IH]; intros t t' k Hk H.
    - cbn in H. injection H as <-. split; [constructor|exact Hk].
    - rewrite ts_cons in H. rewrite cores_cons. destruct (core v) as [c|] eqn:Ec.
      + rewrite (trace_core_some o d v c t Ec) in H. destruct (trace o d c t) as [t1| |p] eqn:Et.
        * destruct (plain_step d c t t1 (core_plain v c Ec) (tkind_complex t k Hk) Et) as (Hv & Ht1). rewrite omk_ok in H.
          destruct (IH (mk (nullish v) t1) t' k ltac:(rewrite tkind_mk, Ht1; exact Hk) H) as (HF & Hk').
          split; [constructor; [rewrite Hv; exact Hk|exact HF]|exact Hk'].
        * rewrite omk_err, fold_err in H. discriminate.
        * rewrite omk_panic, fold_panic in H. discriminate.
      + rewrite (nulllike_on_settled o d v t Ec (complex_settled t (tkind_complex t k Hk))) in H.
        apply (IH (mark_nullable t) t' k ltac:(rewrite tkind_mark; exact Hk) H).
  Qed.

  Lemma first_container d : forall vs u t c0 r0, ustate u = true -> cores vs = c0 :: r0 -> is_container c0 = true ->
    trace_seq' o d vs (Ok u) = Ok t -> Forall (fun c => vkind c = vkind c0) (c0 :: r0).
  Proof.
    induction vs as [|v r IH]; intros u t c0 r0 Hu Hc Hcont H; [discriminate|].
    rewrite ts_cons in H. rewrite cores_cons in Hc. destruct (core v) as [c|] eqn:Ec.
    - cbn [app] in Hc. injection Hc as -> Hr.
      rewrite (trace_core_some o d v c0 u Ec), (container_on_ustate o d c0 u Hcont Hu), omk_omk in H.
      destruct (trace o d c0 (TUnknown false)) as [t1| |p] eqn:Et; [|rewrite omk_err, fold_err in H; discriminate|rewrite omk_panic, fold_panic in H; discriminate].
      pose proof (container_result_kind d c0 t1 Hcont Et) as Hk. rewrite omk_ok in H.
      destruct (vkind c0) as [k|] eqn:Ek; [|apply container_kind in Hcont; congruence].
      destruct (settled_kinds d r _ t k ltac:(rewrite tkind_mk; exact Hk) H) as (HF & _). rewrite Hr in HF.
      constructor; [exact Ek|exact HF].
    - cbn [app] in Hc. destruct (nulllike_on_ustate o d v u Ec Hu) as (u' & E & Hu' & _). rewrite E in H. apply (IH u' t c0 r0 Hu' Hc Hcont H).
  Qed.

  (* ---- leaf positions ---- *)
  Definition leafy (t : Tracer) : bool := match t with TPrim _ q => negb (pt_eqb q PNull) | _ => false end.

  Lemma coerce_nonnull cn ts lg prev n curr ty' n' : pt_eqb prev PNull = false -> pt_eqb curr PNull = false ->
    coerce_core cn ts lg prev n curr = Some (ty', n') -> pt_eqb ty' PNull = false.
  Proof.
    intros Hp Hcu H. unfold coerce_core in H. destruct (pt_eqb prev curr); [injection H as <- _; exact Hcu|].
    destruct prev; try discriminate Hp; destruct curr; try discriminate Hcu;
      repeat match type of H with (if ?cnd then _ else _) = _ => destruct cnd end; try discriminate; injection H as <- _; reflexivity.
  Qed.

  Lemma atom_on_leafy pt t t1 : pt_eqb pt PNull = false -> leafy t = true -> ensure_prim o pt t = Ok t1 -> leafy t1 = true.
  Proof.
    intros Hpt Hl H. destruct t as [|n q| | | | |]; try discriminate Hl. cbn [ensure_prim] in H. cbn [leafy] in Hl. apply negb_true_iff in Hl.
    unfold coerce in H. destruct (coerce_core _ _ _ q n pt) as [[ty' n']|] eqn:E; [|discriminate]. injection H as <-. cbn [leafy].
    rewrite (coerce_nonnull _ _ _ q n pt ty' n' Hl Hpt E). reflexivity.
  Qed.
  Lemma atom_on_ustate pt u t1 : pt_eqb pt PNull = false -> ustate u = true -> ensure_prim o pt u = Ok t1 -> leafy t1 = true.
  Proof.
    intros Hpt Hu H. destruct u as [n|[] []| | | | |]; cbn in Hu; try discriminate.
    - cbn [ensure_prim] in H. injection H as <-. cbn [leafy]. rewrite Hpt. reflexivity.
    - cbn [ensure_prim] in H. unfold coerce, coerce_core in H. destruct pt; try discriminate Hpt; cbn in H; injection H as <-; reflexivity.
  Qed.
  Lemma mark_leafy t : leafy (mark_nullable t) = leafy t.
  Proof. destruct t; reflexivity. Qed.
  Lemma mk_leafy b t : leafy (mk b t) = leafy t.
  Proof. destruct b; cbn [mk]; [apply mark_leafy|reflexivity]. Qed.

  Lemma null_on_leafy t : leafy t = true -> ensure_prim o PNull t = Ok (mark_nullable t).
  Proof.
    intros Hl. destruct t as [|n q| | | | |]; try discriminate Hl. cbn [leafy] in Hl. apply negb_true_iff in Hl. cbn [ensure_prim mark_nullable].
    unfold coerce, coerce_core. destruct q; try discriminate Hl; reflexivity.
  Qed.
  Lemma nulllike_on_leafy d : forall v t, core v = None -> leafy t = true -> trace o d v t = Ok (mark_nullable t).
  Proof.
    intros v. induction v; intros t Hc Hl; cbn [core] in Hc; try discriminate; cbn [trace].
    - reflexivity.
    - rewrite (IHv (mark_nullable t) Hc); [rewrite mark_idem; reflexivity|rewrite mark_leafy; exact Hl].
    - apply (null_on_leafy t Hl).
    - apply (null_on_leafy t Hl).
    - apply (IHv t Hc Hl).
  Qed.

  Lemma container_on_leafy d c t : is_container c = true -> leafy t = true -> trace o d c t = Err.
  Proof.
    intros Hc Hl. destruct t as [|n q| | | | |]; try discriminate Hl. cbn [leafy] in Hl. apply negb_true_iff in Hl.
    assert (Hup : upgradable (TPrim n q) = false) by (destruct q; try discriminate Hl; reflexivity).
    destruct c; try discriminate Hc.
    - rewrite trace_seq_eq. unfold ensure_list. rewrite Hup. destruct (Nat.leb max_depth d); reflexivity.
    - rewrite trace_tuple_eq. unfold ensure_tuple. rewrite Hup. destruct (Nat.leb max_depth d); reflexivity.
    - rewrite trace_tuple_struct, trace_tuple_eq. unfold ensure_tuple. rewrite Hup. destruct (Nat.leb max_depth d); reflexivity.
    - destruct (o_map_as_struct o) eqn:Em.
      + rewrite (trace_map_struct_eq o d kvs _ Em). unfold ensure_struct. rewrite Hup. destruct (Nat.leb max_depth d); reflexivity.
      + rewrite (trace_map_eq o d kvs _ Em). unfold ensure_map. rewrite Hup. destruct (Nat.leb max_depth d); reflexivity.
    - rewrite trace_struct_eq. unfold ensure_struct. rewrite Hup. destruct (Nat.leb max_depth d); reflexivity.
    - erewrite trace_variant_eq by reflexivity. cbn [ustep]. unfold ensure_union. rewrite Hup. destruct (Nat.leb max_depth d); reflexivity.
    - erewrite trace_variant_eq by reflexivity. cbn [ustep]. unfold ensure_union. rewrite Hup. destruct (Nat.leb max_depth d); reflexivity.
    - erewrite trace_variant_eq by reflexivity. cbn [ustep]. unfold ensure_union. rewrite Hup. destruct (Nat.leb max_depth d); reflexivity.
    - erewrite trace_variant_eq by reflexivity. cbn [ustep]. unfold ensure_union. rewrite Hup. destruct (Nat.leb max_depth d); reflexivity.
  Qed.

  (* a plain value that is not a container is a typed scalar *)
  Lemma plain_atom d c : plain c = true -> is_container c = false -> exists pt, pt_eqb pt PNull = false /\ forall t, trace o d c t = ensure_prim o pt t.
  Proof.
    intros Hp Hc. destruct c; try discriminate Hp; try discriminate Hc; eexists; (split; [|intros t; reflexivity]); first [reflexivity|apply str_type_nonnull].
  Qed.
  Lemma core_atoms : forall v cc, core v = Some cc -> is_container cc = false -> exists a, atoms o v = Some a.
  Proof.
    induction v; intros cc H Hc; cbn [core] in H; try discriminate; try (injection H as <-; try discriminate Hc; cbn [atoms]; eexists; reflexivity).
    - destruct (IHv cc H Hc) as (a & Ha). cbn [atoms]. rewrite Ha. eexists; reflexivity.
    - apply (IHv cc H Hc).
  Qed.

  Lemma leafy_all d : forall vs t t', leafy t = true -> trace_seq' o d vs (Ok t) = Ok t' -> exists l, all_atoms o vs = Some l.
  Proof.
    induction vs as [|v r IH]; intros t t' Hl H; [exists []; reflexivity|]. rewrite ts_cons in H. destruct (core v) as [c|] eqn:Ec.
    - rewrite (trace_core_some o d v c t Ec) in H. destruct (is_container c) eqn:Hcont.
      + rewrite (container_on_leafy d c t Hcont Hl), omk_err, fold_err in H. discriminate.
      + destruct (plain_atom d c (core_plain v c Ec) Hcont) as (pt & Hpt & Htr). rewrite Htr in H.
        destruct (ensure_prim o pt t) as [t1| |p] eqn:E; [|rewrite omk_err, fold_err in H; discriminate|rewrite omk_panic, fold_panic in H; discriminate].
        rewrite omk_ok in H. destruct (IH _ t' ltac:(rewrite mk_leafy; apply (atom_on_leafy pt t t1 Hpt Hl E)) H) as (l & Hall).
        destruct (core_atoms v c Ec Hcont) as (a & Ha). exists (a ++ l). cbn [all_atoms]. rewrite Ha, Hall. reflexivity.
    - rewrite (nulllike_on_leafy d v t Ec Hl) in H. destruct (IH _ t' ltac:(rewrite mark_leafy; exact Hl) H) as (l & Hall).
      destruct (core_none_atoms o v Ec) as (a & Ha). exists (a ++ l). cbn [all_atoms]. rewrite Ha, Hall. reflexivity.
  Qed.

  Lemma first_atom d : forall vs u t c0 r0, ustate u = true -> cores vs = c0 :: r0 -> is_container c0 = false ->
    trace_seq' o d vs (Ok u) = Ok t -> exists l, all_atoms o vs = Some l.
  Proof.
    induction vs as [|v r IH]; intros u t c0 r0 Hu Hc Hcont H; [discriminate|].
    rewrite ts_cons in H. rewrite cores_cons in Hc. destruct (core v) as [c|] eqn:Ec.
    - cbn [app] in Hc. injection Hc as -> Hr. rewrite (trace_core_some o d v c0 u Ec) in H.
      destruct (plain_atom d c0 (core_plain v c0 Ec) Hcont) as (pt & Hpt & Htr). rewrite Htr in H.
      destruct (ensure_prim o pt u) as [t1| |p] eqn:E; [|rewrite omk_err, fold_err in H; discriminate|rewrite omk_panic, fold_panic in H; discriminate].
      rewrite omk_ok in H. destruct (leafy_all d r _ t ltac:(rewrite mk_leafy; apply (atom_on_ustate pt u t1 Hpt Hu E)) H) as (l & Hall).
      destruct (core_atoms v c0 Ec Hcont) as (a & Ha). exists (a ++ l). cbn [all_atoms]. rewrite Ha, Hall. reflexivity.
    - cbn [app] in Hc. destruct (nulllike_on_ustate o d v u Ec Hu) as (u' & E & Hu' & _). rewrite E in H.
      destruct (IH u' t c0 r0 Hu' Hc Hcont H) as (l & Hall). destruct (core_none_atoms o v Ec) as (a & Ha). exists (a ++ l). cbn [all_atoms]. rewrite Ha, Hall. reflexivity.
  Qed.
  (* ---- the shape of the samples at a position of a given kind ---- *)
  Lemma cores_plain : forall vs, Forall (fun c => plain c = true) (cores vs).
  Proof.
    induction vs as [|v r IH]; [constructor|]. rewrite cores_cons. apply Forall_app. split; [|exact IH].
    destruct (core v) as [c|] eqn:Ec; [constructor; [apply (core_plain v c Ec)|constructor]|constructor].
  Qed.

  Lemma shape_list cs : Forall (fun c => vkind c = Some KList) cs -> exists ls, cs = map VSeq ls.
  Proof.
    induction 1 as [|c r Hc _ (ls & ->)]; [exists []; reflexivity|].
    destruct c; cbn [vkind] in Hc; try discriminate; try (destruct (o_map_as_struct o); discriminate). exists (l :: ls). reflexivity.
  Qed.
  Lemma shape_tuple cs : Forall (fun c => vkind c = Some KTuple) cs -> exists TS, cs = map tup TS.
  Proof.
    induction 1 as [|c r Hc _ (TS & ->)]; [exists []; reflexivity|].
    destruct c; cbn [vkind] in Hc; try discriminate; try (destruct (o_map_as_struct o); discriminate); [exists ((false, l) :: TS)|exists ((true, l) :: TS)]; reflexivity.
  Qed.
  Lemma shape_map cs : cs <> [] -> Forall (fun c => vkind c = Some KMap) cs -> o_map_as_struct o = false /\ exists kvss, cs = map VMap kvss.
  Proof.
    intros Hne HF. split.
    - destruct cs as [|c r]; [congruence|]. pose proof (Forall_inv HF) as Hc. destruct c; cbn [vkind] in Hc; try discriminate. destruct (o_map_as_struct o); [discriminate|reflexivity].
    - clear Hne. induction HF as [|c r Hc _ (kvss & ->)]; [exists []; reflexivity|].
      destruct c; cbn [vkind] in Hc; try discriminate. exists (kvs :: kvss). reflexivity.
  Qed.
  Lemma shape_union cs : Forall (fun c => vkind c = Some KUnion) cs -> Forall (fun c => vpl c <> None) cs.
  Proof.
    apply Forall_impl. intros c Hc. destruct c; cbn [vkind] in Hc; try discriminate; try (destruct (o_map_as_struct o); discriminate); cbn [vpl]; discriminate.
  Qed.

  Lemma mfields_keys tr d seen : forall kvs acc acc', mfields tr d seen kvs acc = Ok acc' -> exists fa, kvs = strkeys fa.
  Proof.
    induction kvs as [|[k x] r IH]; intros acc acc' H; [exists []; reflexivity|]. cbn [mfields] in H.
    destruct k; try discriminate H. apply bind_ok in H as (acc1 & _ & H). destruct (IH _ _ H) as (fa & ->). exists ((s, x) :: fa). reflexivity.
  Qed.
  Lemma map_struct_keys d kvs t t1 : o_map_as_struct o = true -> trace o d (VMap kvs) t = Ok t1 -> exists fa, kvs = strkeys fa.
  Proof.
    intros Hm H. rewrite (trace_map_struct_eq o d kvs t Hm) in H. apply bind_ok in H as (t0 & _ & H). destruct t0; try discriminate.
    apply bind_ok in H as (fs' & Hf & _). apply (mfields_keys _ _ _ _ _ _ Hf).
  Qed.

  Lemma rec_shape1 d c t t1 : vkind c = Some KStruct -> trace o d c t = Ok t1 -> exists x, c = rec x /\ (fst x = true -> o_map_as_struct o = true).
  Proof.
    intros Hk H. destruct c; cbn [vkind] in Hk; try discriminate.
    - destruct (o_map_as_struct o) eqn:Em; [|discriminate]. destruct (map_struct_keys d kvs t t1 Em H) as (fa & ->). exists (true, fa). split; reflexivity.
    - exists (false, fs). split; [reflexivity|discriminate].
  Qed.
  Lemma recs_shape d : forall cs t t', Forall (fun c => vkind c = Some KStruct) cs -> trace_seq' o d cs (Ok t) = Ok t' ->
    exists RS, cs = map rec RS /\ (existsb fst RS = true -> o_map_as_struct o = true).
  Proof.
    induction cs as [|c r IH]; intros t t' HF H; [exists []; split; [reflexivity|discriminate]|]. rewrite ts_cons in H.
    destruct (trace o d c t) as [t1| |p] eqn:Et; [|rewrite fold_err in H; discriminate|rewrite fold_panic in H; discriminate].
    destruct (rec_shape1 d c t t1 (Forall_inv HF) Et) as (x & -> & Hx). destruct (IH t1 t' (Forall_inv_tail HF) H) as (RS & -> & HRS).
    exists (x :: RS). split; [reflexivity|]. cbn [existsb]. intros E. apply orb_true_iff in E as [E|E]; [apply Hx, E|apply HRS, E].
  Qed.

  (* ---- bounds are inherited by the children ---- *)
  Lemma fr_forall l : fold_right (fun x P => ndk x /\ P) True l <-> Forall ndk l.
  Proof. induction l as [|x r IH]; cbn [fold_right]; split; intros H; [constructor|exact I|destruct H as [H1 H2]; constructor; [exact H1|apply IH, H2]|inversion H; subst; split; [assumption|apply IH; assumption]]. Qed.

  Lemma cores_bounds n vs : Forall (bound n) vs -> Forall (bound n) (cores vs).
  Proof.
    induction 1 as [|v r [Hd Hn] _ IH]; [constructor|]. rewrite cores_cons. apply Forall_app. split; [|exact IH].
    destruct (core v) as [c|] eqn:Ec; [|constructor]. constructor; [|constructor]. split; [rewrite (core_depth v c Ec); exact Hd|apply (core_ndk v c Ec Hn)].
  Qed.

  Lemma container_depth c : is_container c = true -> 1 <= vdepth c.
  Proof. destruct c; cbn [is_container vdepth]; intros H; try discriminate; lia. Qed.

  Lemma seq_children n ls : Forall (bound (S n)) (map VSeq ls) -> Forall (bound n) (concat ls).
  Proof.
    induction ls as [|l r IH]; intros H; [constructor|]. cbn [map] in H. cbn [concat]. apply Forall_app. split; [|apply IH, (Forall_inv_tail H)].
    destruct (Forall_inv H) as [Hd Hn]. cbn [vdepth ndk] in Hd, Hn. apply fr_forall in Hn. apply le_S_n, list_max_le in Hd. rewrite Forall_map in Hd.
    rewrite Forall_forall in *. intros x Hin. split; [apply Hd, Hin|apply Hn, Hin].
  Qed.

  Lemma tuple_children n TS : Forall (bound (S n)) (map tup TS) -> forall i, Forall (bound n) (col i (map snd TS)).
  Proof.
    intros H i. induction TS as [|x r IH]; [constructor|]. cbn [map] in H. cbn [map]. unfold col. cbn [flat_map]. fold (col i (map snd r)).
    apply Forall_app. split; [|apply IH, (Forall_inv_tail H)].
    destruct (nth_error (snd x) i) as [y|] eqn:Ey; [|constructor]. constructor; [|constructor]. apply nth_error_In in Ey.
    assert (Hb : bound (S n) (VTuple (snd x))) by (pose proof (Forall_inv H) as Hb; destruct x as [[|] l]; exact Hb).
    destruct Hb as [Hd Hn]. cbn [vdepth ndk] in Hd, Hn. apply fr_forall in Hn. apply le_S_n, list_max_le in Hd. rewrite Forall_map in Hd.
    rewrite Forall_forall in *. split; [apply Hd, Ey|apply Hn, Ey].
  Qed.

  Lemma map_children n kvss : Forall (bound (S n)) (map VMap kvss) -> Forall (bound n) (mkeys kvss) /\ Forall (bound n) (mvals kvss).
  Proof.
    induction kvss as [|kvs r IH]; intros H; [split; constructor|]. cbn [map] in H. destruct (IH (Forall_inv_tail H)) as [Hk Hv].
    destruct (Forall_inv H) as [Hd [_ Hn]]. cbn [vdepth] in Hd. apply le_S_n, list_max_le in Hd. rewrite Forall_map in Hd.
    unfold mkeys, mvals. cbn [flat_map]. fold (mkeys r) (mvals r).
    assert (Hall : Forall (fun kv : Value * Value => bound n (fst kv) /\ bound n (snd kv)) kvs).
    { clear H Hk Hv IH. induction kvs as [|[k x] rr IHk]; [constructor|]. cbn [fold_right] in Hn. destruct Hn as (Hnk & Hnx & Hn).
      pose proof (Forall_inv Hd) as Hd1. cbn beta iota in Hd1. constructor; [cbn [fst snd]; split; split; first [lia|assumption]|apply IHk; [exact (Forall_inv_tail Hd)|exact Hn]]. }
    split; apply Forall_app; split; try assumption; rewrite Forall_map; eapply Forall_impl; try exact Hall; cbn beta; intros kv [H1 H2]; assumption.
  Qed.

  Lemma skeys_strkeys fa : skeys (strkeys fa) = map fst fa.
  Proof. induction fa as [|[k x] r IH]; [reflexivity|]. unfold skeys, strkeys in *. cbn [map flat_map fst snd app]. rewrite IH. reflexivity. Qed.

  Lemma flookup_in k fa x : flookup k fa = Some x -> In (k, x) fa.
  Proof.
    induction fa as [|[key y] r IH]; cbn [flookup]; [discriminate|]. destruct (bytes_eqb key k) eqn:E.
    - intros H. injection H as ->. apply bytes_eqb_eq in E. subst key. left. reflexivity.
    - intros H. right. apply IH, H.
  Qed.

  Lemma field_bound n (fa : list (bytes * Value)) k x :
    list_max (map (fun f : bytes * Value => let '(_, y) := f in vdepth y) fa) <= n ->
    fold_right (fun (f : bytes * Value) P => let '(_, y) := f in ndk y /\ P) True fa -> In (k, x) fa -> bound n x.
  Proof.
    intros Hd Hn Hin. apply list_max_le in Hd. rewrite Forall_map in Hd. induction fa as [|[key y] r IH]; [contradiction|].
    cbn [fold_right] in Hn. destruct Hn as [Hy Hn]. destruct Hin as [E|Hin].
    - injection E as -> ->. split; [exact (Forall_inv Hd)|exact Hy].
    - apply IH; [exact (Forall_inv_tail Hd)|exact Hn|exact Hin].
  Qed.

  Lemma strkeys_bound n fa k x :
    list_max (map (fun kv : Value * Value => let '(kk, y) := kv in Nat.max (vdepth kk) (vdepth y)) (strkeys fa)) <= n ->
    fold_right (fun (kv : Value * Value) P => let '(kk, y) := kv in ndk kk /\ ndk y /\ P) True (strkeys fa) -> In (k, x) fa -> bound n x.
  Proof.
    intros Hd Hn Hin. apply list_max_le in Hd. rewrite Forall_map in Hd. induction fa as [|[key y] r IH]; [contradiction|].
    cbn [strkeys map fst snd fold_right] in Hn, Hd. destruct Hn as (_ & Hy & Hn). destruct Hin as [E|Hin].
    - injection E as -> ->. pose proof (Forall_inv Hd) as H1. cbn beta iota in H1. split; [lia|exact Hy].
    - apply IH; [exact (Forall_inv_tail Hd)|exact Hn|exact Hin].
  Qed.

  Lemma rec_children n RS : (existsb fst RS = true -> o_map_as_struct o = true) -> Forall (bound (S n)) (map rec RS) ->
    Forall (fun fa => NoDup (map fst fa)) (map snd RS) /\ forall k, Forall (bound n) (vals k (map snd RS)).
  Proof.
    induction RS as [|x r IH]; intros Hm H; [split; [constructor|intros k; constructor]|].
    cbn [map] in H. destruct (IH ltac:(intros E; apply Hm; cbn [existsb]; rewrite E; apply orb_true_r) (Forall_inv_tail H)) as [Hnd Hv].
    pose proof (Forall_inv H) as Hb. destruct x as [[|] fa]; unfold rec in Hb; cbn [fst snd] in Hb; destruct Hb as [Hd Hn]; cbn [vdepth ndk] in Hd, Hn.
    - destruct Hn as [Hnk Hn]. specialize (Hnk (Hm eq_refl)). rewrite skeys_strkeys in Hnk. apply le_S_n in Hd.
      split; [cbn [map snd]; constructor; assumption|]. intros k. cbn [map snd]. unfold vals. cbn [flat_map]. fold (vals k (map snd r)).
      apply Forall_app. split; [|apply Hv]. destruct (flookup k fa) as [y|] eqn:El; [|constructor]. constructor; [|constructor].
      apply (strkeys_bound n fa k y Hd Hn (flookup_in k fa y El)).
    - destruct Hn as [Hnk Hn]. apply le_S_n in Hd.
      split; [cbn [map snd]; constructor; assumption|]. intros k. cbn [map snd]. unfold vals. cbn [flat_map]. fold (vals k (map snd r)).
      apply Forall_app. split; [|apply Hv]. destruct (flookup k fa) as [y|] eqn:El; [|constructor]. constructor; [|constructor].
      apply (field_bound n fa k y Hd Hn (flookup_in k fa y El)).
  Qed.

  Lemma vpl_bound n c i nm p : bound (S n) c -> vpl c = Some (i, nm, p) -> bound n p.
  Proof.
    intros [Hd Hn] H. destruct c; cbn [vpl] in H; try discriminate; injection H as <- <- <-; unfold bound; cbn [vdepth ndk] in *.
    - split; [lia|exact I].
    - split; [lia|exact Hn].
    - split; [lia|exact Hn].
    - split; [lia|exact Hn].
  Qed.

  Lemma union_children n cs : Forall (bound (S n)) cs -> forall i, Forall (bound n) (map snd (wsel i (pls cs))).
  Proof.
    intros H i. induction cs as [|c r IH]; [constructor|]. unfold pls. cbn [flat_map]. fold (pls r). rewrite wsel_app, map_app. apply Forall_app.
    split; [|apply IH, (Forall_inv_tail H)]. destruct (vpl c) as [[[idx nm] p]|] eqn:Ev; [|constructor].
    unfold wsel. cbn [flat_map]. destruct (Z.eqb idx (Z.of_nat i)); [|constructor]. cbn [app map snd]. constructor; [|constructor].
    apply (vpl_bound n c idx nm p (Forall_inv H) Ev).
  Qed.
  Lemma kinds_containers k cs : Forall (fun c => vkind c = Some k) cs -> Forall (fun c => is_container c = true) cs.
  Proof. apply Forall_impl. intros c H. apply container_kind. congruence. Qed.

  Lemma hom_nil n : Hom o n [].
  Proof. destruct n; left; exists []; reflexivity. Qed.

  (* THE THEOREM: a collection that traces is in the class *)
  Theorem success_hom : forall n d vs t, Forall (bound n) vs -> trace_seq' o d vs (Ok (TUnknown false)) = Ok t -> Hom o n vs.
  Proof.
    induction n as [|n IH]; intros d vs t Hb H.
    - left. destruct (cores vs) as [|c0 r0] eqn:Hc; [apply (cores_nil_atoms o vs Hc)|].
      destruct (is_container c0) eqn:Hcont; [|apply (first_atom d vs (TUnknown false) t c0 r0 eq_refl Hc Hcont H)].
      exfalso. pose proof (cores_bounds 0 vs Hb) as Hcb. rewrite Hc in Hcb. destruct (Forall_inv Hcb) as [Hd _]. pose proof (container_depth c0 Hcont). lia.
    - destruct (cores vs) as [|c0 r0] eqn:Hc; [left; apply (cores_nil_atoms o vs Hc)|].
      destruct (is_container c0) eqn:Hcont; [|left; apply (first_atom d vs (TUnknown false) t c0 r0 eq_refl Hc Hcont H)].
      right. pose proof (first_container d vs (TUnknown false) t c0 r0 eq_refl Hc Hcont H) as Hk.
      pose proof (cores_bounds (S n) vs Hb) as Hcb. rewrite Hc in Hcb.
      destruct (vkind c0) as [k|] eqn:Ek; [|apply container_kind in Hcont; congruence].
      rewrite (strip0 o d vs) in H by (rewrite Hc; first [exact (kinds_containers k _ Hk)|discriminate]). rewrite Hc in H.
      destruct (omk_ok_inv _ _ _ H) as (u & E1 & _). clear H.
      destruct k.
      + (* sequences *)
        left. destruct (shape_list _ Hk) as (ls & Hls). exists ls. rewrite Hc. split; [exact Hls|]. rewrite Hls in E1, Hcb.
        destruct (seq_projection o d ls false u ltac:(intros ->; discriminate) E1) as (it & _ & Hi).
        apply (IH (S d) (concat ls) it (seq_children n ls Hcb) Hi).
      + (* maps traced as maps *)
        right. right. left. destruct (shape_map (c0 :: r0) ltac:(discriminate) Hk) as (Hm & kvss & Hkv). split; [exact Hm|]. exists kvss. rewrite Hc. split; [exact Hkv|].
        rewrite Hkv in E1, Hcb. destruct (maps_projection o d kvss false u Hm ltac:(intros ->; discriminate) E1) as (kt & vt & _ & Hkt & Hvt).
        destruct (map_children n kvss Hcb) as [Bk Bv]. split; [apply (IH (S d) _ kt Bk Hkt)|apply (IH (S d) _ vt Bv Hvt)].
      + (* records *)
        right. left. destruct (recs_shape d _ _ u Hk E1) as (RS & HRS & Hm). exists RS. rewrite Hc. split; [exact HRS|]. split; [exact Hm|].
        rewrite HRS in E1, Hcb. destruct (rec_children n RS Hm Hcb) as [Hnd Bv]. split; [exact Hnd|]. intros key.
        rewrite (recs_collection o d RS false Hm) in E1.
        destruct (trace_seq' o d (map VStruct (map snd RS)) (Ok (TUnknown false))) as [w| |p] eqn:F1; [|rewrite obm_err in E1; discriminate|rewrite obm_panic in E1; discriminate].
        destruct (record_projection o d (map snd RS) false w ltac:(destruct RS; [discriminate|discriminate]) Hnd F1) as (fs1 & _ & P1).
        specialize (P1 key). destruct (fget2 key fs1) as [[tk lk]|].
        * destruct P1 as (_ & T0 & R0 & _). apply (IH _ _ T0 (Bv key) R0).
        * rewrite P1. apply hom_nil.
      + (* tuples *)
        right. right. right. left. destruct (shape_tuple _ Hk) as (TS & HTS). exists TS. rewrite Hc. split; [exact HTS|]. rewrite HTS in E1, Hcb.
        rewrite tups_collection in E1.
        destruct (tuple_projection o d (map snd TS) false u ltac:(destruct TS; [discriminate|discriminate]) E1) as (F & _ & _ & Hcol).
        intros i. destruct (Hcol i) as (T0 & R0 & _). apply (IH (S d) _ _ (tuple_children n TS Hcb i) R0).
      + (* enum variants *)
        right. right. right. right. pose proof (shape_union _ Hk) as HF. rewrite Hc. split; [exact HF|].
        destruct (union_projection o d (c0 :: r0) false u ltac:(discriminate) HF E1) as (V & _ & (_ & _ & Hsel)).
        intros i. specialize (Hsel i). destruct (get_variant V i) as [[nm T]|].
        * destruct Hsel as (_ & _ & R1). apply (IH _ _ T (union_children n _ Hcb i) R1).
        * rewrite Hsel. apply hom_nil.
  Qed.
End Total.


(* ---- the laws of C07 for every collection of samples ---- *)
Section Laws.
  Variable o : Opts.

  Definition depth_of (vs : list Value) : nat := list_max (map vdepth vs).
  Lemma bound_all vs : Forall (ndk o) vs -> Forall (bound o (depth_of vs)) vs.
  Proof.
    intros H. assert (Hd : Forall (fun v => vdepth v <= depth_of vs) vs) by (apply (proj1 (Forall_map vdepth (fun k => k <= depth_of vs) vs)); apply list_max_le; unfold depth_of; lia).
    rewrite Forall_forall in *. intros v Hin. split; [apply Hd, Hin|apply H, Hin].
  Qed.

  Theorem order_independent_total : forall d vs vs' t t', Forall (ndk o) vs -> Permutation vs vs' ->
    trace_seq' o d vs (Ok (TUnknown false)) = Ok t -> trace_seq' o d vs' (Ok (TUnknown false)) = Ok t' -> teq t t'.
  Proof.
    intros d vs vs' t t' Hn Hp H1 H2.
    apply (nested_order_independent o (depth_of vs) d vs vs' t t' (success_hom o _ d vs t (bound_all vs Hn) H1) Hp H1 H2).
  Qed.

  Theorem repeat_total : forall d vs t, Forall (ndk o) vs -> trace_seq' o d vs (Ok (TUnknown false)) = Ok t ->
    exists t2, trace_seq' o d (vs ++ vs) (Ok (TUnknown false)) = Ok t2 /\ teq t t2.
  Proof. intros d vs t Hn H1. apply (nested_repeat o (depth_of vs) d vs t (success_hom o _ d vs t (bound_all vs Hn) H1) H1). Qed.

  Theorem success_order_free_total : o_to_string o = false -> forall d vs vs' t, Forall (ndk o) vs -> Permutation vs vs' ->
    trace_seq' o d vs (Ok (TUnknown false)) = Ok t -> exists t', trace_seq' o d vs' (Ok (TUnknown false)) = Ok t'.
  Proof.
    intros Hts d vs vs' t Hn Hp H1.
    apply (nested_success_order_free o Hts (depth_of vs) d vs vs' t (success_hom o _ d vs t (bound_all vs Hn) H1) Hp H1).
  Qed.

  Theorem from_samples_total : forall vs vs' fs1 fs2, Forall (ndk o) vs -> Permutation vs vs' ->
    from_samples o [] vs = Ok fs1 -> from_samples o [] vs' = Ok fs2 -> sdeq (SStruct fs1) (SStruct fs2).
  Proof.
    intros vs vs' fs1 fs2 Hn Hp H1 H2. pose proof H1 as H1'. unfold from_samples in H1'. apply bind_ok in H1' as (r1 & T1 & _).
    apply (from_samples_order_independent o (depth_of vs) vs vs' fs1 fs2 (success_hom o _ 0 vs r1 (bound_all vs Hn) T1) Hp H1 H2).
  Qed.
End Laws.
