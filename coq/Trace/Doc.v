(* The documented mapping from Rust constructs to Arrow types (serde_arrow/src/lib.rs:306-330 and
   the doc comment of every tracing option), written directly by recursion on a description of the
   type. This is a specification: it does not mention the tracer. *)
From Verif Require Export Tracer.
Local Open Scope nat_scope.

Inductive Ty :=
| TyUnit | TyBool | TyInt (k : IntKind) | TyF32 | TyF64 | TyChar | TyString | TyBytes
| TyOption (t : Ty) | TySeq (t : Ty) | TyTuple (ts : list Ty) | TyMap (k v : Ty)
| TyStruct (fs : list (bytes * Ty)) | TyNewtype (t : Ty) | TyEnum (vs : list (bytes * Payload))
with Payload := PUnit | PNewtype (t : Ty) | PTuple (ts : list Ty) | PStruct (fs : list (bytes * Ty)).

Definition all_unit (vs : list (bytes * Payload)) : bool :=
  forallb (fun v : bytes * Payload => match snd v with PUnit => true | _ => false end) vs.

Section Doc.
  Variable o : Opts.
  Definition str_dt : SDT := if o_dict o then SDictU32 (o_large_utf8 o) else SPrim (PStr (o_large_utf8 o)).
  Definition null_field (name : bytes) : Outcome SField := if o_allow_null o then Ok (mkSF name (SPrim PNull) true None) else Err.

  (* from_type = true: tracing from the type (maps cannot be traced as structs; no date guessing) *)
  Fixpoint doc_field (name : bytes) (nullable : bool) (t : Ty) {struct t} : Outcome SField :=
    let fields :=
        fix go (fs : list (bytes * Ty)) : Outcome (list SField) :=
          match fs with [] => Ok [] | (n, ft) :: r => do f <- doc_field n false ft ;; do rest <- go r ;; Ok (f :: rest) end in
    let tuple :=
        fix go (i : N) (ts : list Ty) : Outcome (list SField) :=
          match ts with [] => Ok [] | ft :: r => do f <- doc_field (print_N i) false ft ;; do rest <- go (N.succ i) r ;; Ok (f :: rest) end in
    match t with
    | TyUnit => null_field name
    | TyBool => Ok (mkSF name (SPrim PBool) nullable None)
    | TyInt k => Ok (mkSF name (SPrim (PI k)) nullable None)
    | TyF32 => Ok (mkSF name (SPrim PFloat32) nullable None)
    | TyF64 => Ok (mkSF name (SPrim PFloat64) nullable None)
    | TyChar => Ok (mkSF name (SPrim (PI U32)) nullable None)
    | TyString => Ok (mkSF name str_dt nullable None)
    | TyBytes => Ok (mkSF name (SPrim PLargeBinary) nullable None)
    | TyOption x => doc_field name true x
    | TyNewtype x => doc_field name nullable x
    | TySeq x => do f <- doc_field (b "element") false x ;; Ok (mkSF name (SList (o_large_list o) f) nullable None)
    | TyTuple ts => do fs <- tuple 0%N ts ;; Ok (mkSF name (SStruct fs) nullable (Some STupleAsStruct))
    | TyMap k v =>
      if o_map_as_struct o then Err
      else do kf <- doc_field (b "key") false k ;; do vf <- doc_field (b "value") false v ;; Ok (mkSF name (SMap kf vf) nullable None)
    | TyStruct fs => do sfs <- fields fs ;; Ok (mkSF name (SStruct sfs) nullable None)
    | TyEnum vs =>
      if all_unit vs && o_enums_str o then Ok (mkSF name (SDictU32 (o_large_utf8 o)) nullable None)
      else if all_unit vs && negb (o_allow_null o) then Err
      else
        do fs <- (fix go (vs : list (bytes * Payload)) : Outcome (list SField) :=
                    match vs with
                    | [] => Ok []
                    | (vn, p) :: r =>
                      do f <- match p with
                              | PUnit => null_field vn
                              | PNewtype x => doc_field vn false x
                              | PTuple ts => do tfs <- tuple 0%N ts ;; Ok (mkSF vn (SStruct tfs) false (Some STupleAsStruct))
                              | PStruct sfs => do ffs <- fields sfs ;; Ok (mkSF vn (SStruct ffs) false None)
                              end ;;
                      do rest <- go r ;; Ok (f :: rest)
                    end) vs ;;
        Ok (mkSF name (SUnion fs) nullable None)
    end.

  (* the root must be a struct-like type; its fields are the schema *)
  Definition doc_schema (t : Ty) : Outcome (list SField) :=
    do f <- doc_field (b "$") false t ;;
    if sf_nullable f then Err else match sf_dt f with SStruct fs => Ok fs | _ => Err end.
End Doc.
