(* finite sweeps over all 2^17 sets of leaf kinds x 17 kinds (vm_compute), coerce_numbers = true, allow_to_string = false *)
From Verif Require Import Coerce.
Lemma step_ok_true_false : forall lg, all_checks (step_check true false lg) = true.
Proof. intros [|]; vm_compute; reflexivity. Qed.
Lemma absorb_ok_true_false : forall lg, all_checks (absorb_check true false lg) = true.
Proof. intros [|]; vm_compute; reflexivity. Qed.
