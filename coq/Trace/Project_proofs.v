(* The projection theorem for records: the tracer of each field of a record position is exactly what tracing that field's
   values alone (in the order of the samples) gives, marked nullable iff some sample does not mention the field.  The fields of a
   record are traced independently of each other; for samples with ANY nested content. *)
From Verif Require Import Tracer Builder_proofs Null_proofs Struct_proofs.
Require Import Lia.
Local Open Scope nat_scope.

(* the first field called k: its tracer and its last-seen counter *)
Fixpoint fget2 (k : bytes) (fs : list (bytes * Tracer * nat)) : option (Tracer * nat) :=
  match fs with [] => None | (n, t, ls) :: r => if bytes_eqb n k then Some (t, ls) else fget2 k r end.

Lemma find_fget2 fs k : match find_field_idx fs k with
                        | Some (t, i) => exists ls, fget2 k fs = Some (t, ls)
                        | None => fget2 k fs = None end.
Proof.
  induction fs as [|[[n t0] ls0] r IH]; cbn [find_field_idx fget2]; [reflexivity|].
  destruct (bytes_eqb n k); [exists ls0; reflexivity|]. destruct (find_field_idx r k) as [[t j]|]; exact IH.
Qed.

Lemma fget2_set_field fs key : forall t i t' s k, find_field_idx fs key = Some (t, i) ->
  fget2 k (set_field fs i t' s) = if bytes_eqb key k then Some (t', s) else fget2 k fs.
Proof.
  induction fs as [|[[n t0] ls0] r IH]; intros t i t' s k H; cbn [find_field_idx] in H; [discriminate|].
  destruct (bytes_eqb n key) eqn:En.
  - injection H as <- <-. apply bytes_eqb_eq in En. subst n. cbn [set_field fget2]. destruct (bytes_eqb key k); reflexivity.
  - destruct (find_field_idx r key) as [[t1 j]|] eqn:Er; [|discriminate]. injection H as <- <-. cbn [set_field fget2].
    destruct (bytes_eqb n k) eqn:Ek.
    + destruct (bytes_eqb key k) eqn:Ekk; [|reflexivity]. apply bytes_eqb_eq in Ek, Ekk. subst. rewrite bytes_eqb_refl in En. discriminate.
    + apply (IH t1 j t' s k eq_refl).
Qed.

Lemma fget2_app fs key t' s k :
  fget2 k (fs ++ [(key, t', s)]) = match fget2 k fs with Some r => Some r | None => if bytes_eqb key k then Some (t', s) else None end.
Proof.
  induction fs as [|[[n t0] ls0] r IH]; cbn [app fget2]; [reflexivity|]. destruct (bytes_eqb n k); [reflexivity|exact IH].
Qed.

Lemma fget2_struct_end seen fs k :
  fget2 k (struct_end seen fs) = option_map (fun tl : Tracer * nat => (if Nat.eqb (snd tl) seen then fst tl else mark_nullable (fst tl), snd tl)) (fget2 k fs).
Proof.
  unfold struct_end. induction fs as [|[[n t0] ls0] r IH]; cbn [map fget2 option_map]; [reflexivity|].
  destruct (Nat.eqb ls0 seen) eqn:E; cbn [fget2]; (destruct (bytes_eqb n k); [cbn [option_map fst snd]; rewrite E; reflexivity|exact IH]).
Qed.

Definition start (seen : nat) : Tracer := if Nat.eqb seen 0 then TUnknown false else TUnknown true.

(* one field of a sample: every other field is untouched; the field itself is traced into (from a fresh tracer if it is new)
   and stamped with the sample counter *)
Lemma sf_fget2 tr key seen fs fs' k : struct_field tr key seen fs = Ok fs' ->
  if bytes_eqb key k
  then exists t', fget2 k fs' = Some (t', seen) /\ tr (match fget2 key fs with Some (t, _) => t | None => start seen end) = Ok t'
  else fget2 k fs' = fget2 k fs.
Proof.
  intros H. pose proof (find_fget2 fs key) as Hf.
  destruct (struct_field_cases tr key seen fs fs' H) as [(t & i & ls & t' & Ef & Hn & Ht & ->)|(t' & Ef & Ht & ->)].
  - rewrite Ef in Hf. destruct Hf as (ls1 & Hg). rewrite (fget2_set_field fs key t i t' seen k Ef).
    destruct (bytes_eqb key k) eqn:E; [|reflexivity]. exists t'. split; [reflexivity|]. rewrite Hg. exact Ht.
  - rewrite Ef in Hf. rewrite fget2_app. destruct (bytes_eqb key k) eqn:E.
    + apply bytes_eqb_eq in E. subst k. rewrite Hf. exists t'. split; [reflexivity|exact Ht].
    + destruct (fget2 k fs); reflexivity.
Qed.

Fixpoint flookup (k : bytes) (fa : list (bytes * Value)) : option Value :=
  match fa with [] => None | (key, x) :: r => if bytes_eqb key k then Some x else flookup k r end.

Lemma flookup_none k fa : ~ In k (map fst fa) -> flookup k fa = None.
Proof.
  induction fa as [|[key x] r IH]; cbn [map fst In flookup]; [reflexivity|]. intros H.
  destruct (bytes_eqb key k) eqn:E; [apply bytes_eqb_eq in E; tauto|apply IH; tauto].
Qed.

Section Sample.
  Variable o : Opts.

  (* all the fields of one sample (its keys are distinct) *)
  Lemma sfields_fget2 d seen : forall fa fs fs' k, NoDup (map fst fa) -> sfields (trace o) d seen fa fs = Ok fs' ->
    match flookup k fa with
    | Some x => exists t', fget2 k fs' = Some (t', seen) /\
                           trace o (S d + count_dots k) x (match fget2 k fs with Some (t, _) => t | None => start seen end) = Ok t'
    | None => fget2 k fs' = fget2 k fs
    end.
  Proof.
    induction fa as [|[key x] r IH]; intros fs fs' k Hnd H; cbn [sfields] in H; [injection H as <-; reflexivity|].
    apply bind_ok in H as (fs1 & Hf & H). cbn [map fst] in Hnd. apply NoDup_cons_iff in Hnd as [Hnotin Hnd].
    pose proof (sf_fget2 _ key seen fs fs1 k Hf) as H1. pose proof (IH fs1 fs' k Hnd H) as H2. cbn [flookup].
    destruct (bytes_eqb key k) eqn:E.
    - apply bytes_eqb_eq in E. subst k. destruct H1 as (t' & Hg & Ht). rewrite (flookup_none key r Hnotin) in H2.
      exists t'. split; [rewrite H2; exact Hg|exact Ht].
    - rewrite H1 in H2. exact H2.
  Qed.
End Sample.

(* ---- what the samples say about one field ---- *)
Definition vals (k : bytes) (SS : list (list (bytes * Value))) : list Value :=
  flat_map (fun fa => match flookup k fa with Some x => [x] | None => [] end) SS.
Definition missing (k : bytes) (SS : list (list (bytes * Value))) : bool :=
  existsb (fun fa => match flookup k fa with None => true | Some _ => false end) SS.
Definition mk (m : bool) (t : Tracer) : Tracer := if m then mark_nullable t else t.

Lemma vals_snoc k SS fa : vals k (SS ++ [fa]) = vals k SS ++ match flookup k fa with Some x => [x] | None => [] end.
Proof. unfold vals. rewrite flat_map_app. cbn [flat_map]. rewrite app_nil_r. reflexivity. Qed.
Lemma missing_snoc k SS fa : missing k (SS ++ [fa]) = missing k SS || match flookup k fa with None => true | Some _ => false end.
Proof. unfold missing. rewrite existsb_app. cbn [existsb]. rewrite orb_false_r. reflexivity. Qed.
Lemma vals_nil_missing k SS : vals k SS = [] -> missing k SS = match SS with [] => false | _ => true end.
Proof.
  induction SS as [|fa r IH]; [reflexivity|]. cbn [vals flat_map missing existsb]. destruct (flookup k fa); [discriminate|]. reflexivity.
Qed.
Lemma fget2_in k fs t ls : fget2 k fs = Some (t, ls) -> In (k, t, ls) fs.
Proof.
  induction fs as [|[[n t0] ls0] r IH]; cbn [fget2]; [discriminate|]. destruct (bytes_eqb n k) eqn:E.
  - intros H. injection H as <- <-. apply bytes_eqb_eq in E. subst. left. reflexivity.
  - intros H. right. apply IH, H.
Qed.
Lemma mark_mk m t : mark_nullable (mk m t) = mk true t.
Proof. destruct m; cbn [mk]; [apply mark_idem|reflexivity]. Qed.
Lemma trace_mk o d x m T t' : trace o d x (mk m T) = Ok t' -> exists T', trace o d x T = Ok T' /\ t' = mk m T'.
Proof.
  destruct m; cbn [mk].
  - rewrite trace_mark. destruct (trace o d x T) as [T'| |p]; cbn [omark]; try discriminate. intros H. injection H as <-. exists T'. split; reflexivity.
  - intros H. exists t'. split; [exact H|reflexivity].
Qed.
Lemma fold_snoc o d l x r : trace_seq' o d (l ++ [x]) r = do t <- trace_seq' o d l r ;; trace o d x t.
Proof. rewrite fold_app. destruct (trace_seq' o d l r); reflexivity. Qed.

Section Projection.
  Variable o : Opts.
  Variable d : nat.

  Definition PInv (SS : list (list (bytes * Value))) (seen : nat) (fs : list (bytes * Tracer * nat)) : Prop :=
    seen = length SS /\ LT seen fs /\
    forall k, match fget2 k fs with
              | Some (tk, _) => vals k SS <> [] /\ exists T, trace_seq' o (S d + count_dots k) (vals k SS) (Ok (TUnknown false)) = Ok T /\ tk = mk (missing k SS) T
              | None => vals k SS = []
              end.

  Lemma pinv_nil : PInv [] 0 [].
  Proof. split; [reflexivity|]. split; [intros f []|]. intros k. reflexivity. Qed.

  Lemma pinv_step SS seen fs fa fs' : PInv SS seen fs -> NoDup (map fst fa) -> sfields (trace o) d seen fa fs = Ok fs' ->
    PInv (SS ++ [fa]) (S seen) (struct_end seen fs').
  Proof.
    intros (Hs & Hlt & Hk) Hnd Hloop. split; [rewrite app_length; cbn [length]; lia|]. split.
    - apply struct_end_LT. apply (sfields_LE o d seen fa fs fs'); [|exact Hloop]. intros f Hin. specialize (Hlt f Hin). lia.
    - intros k. specialize (Hk k). pose proof (sfields_fget2 o d seen fa fs fs' k Hnd Hloop) as Hg.
      rewrite fget2_struct_end, vals_snoc, missing_snoc.
      destruct (flookup k fa) as [x|] eqn:El.
      + destruct Hg as (t' & Hg & Ht). rewrite Hg. cbn [option_map fst snd]. rewrite Nat.eqb_refl, orb_false_r.
        split; [destruct (vals k SS); discriminate|].
        destruct (fget2 k fs) as [[tk ls]|].
        * destruct Hk as (_ & T & HT & ->). destruct (trace_mk o _ x _ T t' Ht) as (T' & HT' & ->).
          exists T'. split; [rewrite fold_snoc, HT; exact HT'|reflexivity].
        * rewrite Hk. cbn [app]. rewrite (vals_nil_missing k SS Hk).
          assert (Est : start seen = mk (match SS with [] => false | _ => true end) (TUnknown false)).
          { unfold start. subst seen. destruct SS; reflexivity. }
          rewrite Est in Ht. destruct (trace_mk o _ x _ _ t' Ht) as (T' & HT' & ->).
          exists T'. split; [cbn [trace_seq' fold_left bind]; exact HT'|reflexivity].
      + rewrite Hg, app_nil_r. destruct (fget2 k fs) as [[tk ls]|] eqn:Eg; cbn [option_map fst snd].
        * destruct Hk as (Hne & T & HT & ->). pose proof (Hlt _ (fget2_in k fs _ ls Eg)) as Hls. cbn [fls3 snd] in Hls.
          destruct (Nat.eqb_spec ls seen) as [->|_]; [lia|]. split; [exact Hne|]. exists T. split; [exact HT|].
          rewrite orb_true_r. apply mark_mk.
        * exact Hk.
  Qed.
End Projection.

Section Collection.
  Variable o : Opts.
  Variable d : nat.

  Lemma trace_struct_fresh fa n0 : trace o d (VStruct fa) (TUnknown n0) = trace o d (VStruct fa) (TStruct n0 false 0 []).
  Proof. rewrite !trace_struct_eq. unfold ensure_struct. destruct (Nat.leb max_depth d); reflexivity. Qed.

  Lemma project_from : forall S1 S0 n m seen fs t,
    Forall (fun fa => NoDup (map fst fa)) S1 -> PInv o d S0 seen fs ->
    trace_seq' o d (map VStruct S1) (Ok (TStruct n m seen fs)) = Ok t ->
    exists fs', t = TStruct n m (seen + length S1) fs' /\ PInv o d (S0 ++ S1) (seen + length S1) fs'.
  Proof.
    induction S1 as [|fa r IH]; intros S0 n m seen fs t HF Hinv H.
    - cbn [map trace_seq' fold_left] in H. injection H as <-. exists fs. rewrite Nat.add_0_r, app_nil_r. split; [reflexivity|exact Hinv].
    - cbn [map trace_seq' fold_left bind] in H. destruct (trace o d (VStruct fa) (TStruct n m seen fs)) as [t1| |p] eqn:E.
      + rewrite trace_struct_eq in E. apply bind_ok in E as (t0 & He & E). apply ensure_struct_on_struct in He. subst t0.
        apply bind_ok in E as (fs1 & Hloop & E). injection E as <-.
        pose proof (pinv_step o d S0 seen fs fa fs1 Hinv (Forall_inv HF) Hloop) as Hinv1.
        rewrite orb_false_r in H. destruct (IH (S0 ++ [fa]) n m (S seen) (struct_end seen fs1) t (Forall_inv_tail HF) Hinv1 H) as (fs' & -> & Hinv').
        exists fs'. cbn [length]. replace (seen + S (length r)) with (S seen + length r) by lia. rewrite <- app_assoc in Hinv'. split; [reflexivity|exact Hinv'].
      + fold (trace_seq' o d (map VStruct r) Err) in H. rewrite fold_err in H. discriminate.
      + fold (trace_seq' o d (map VStruct r) (Panic p)) in H. rewrite fold_panic in H. discriminate.
  Qed.

  (* THE PROJECTION THEOREM: a collection of record samples (distinct keys within a sample, any nested content) traced into a fresh
     position gives a record tracer in which the tracer of every field k is exactly the result of tracing the values of k alone, in
     the order of the samples, into a fresh tracer - marked nullable iff some sample does not mention k; fields no sample mentions
     do not exist *)
  Theorem record_projection SS n0 t :
    SS <> [] -> Forall (fun fa => NoDup (map fst fa)) SS ->
    trace_seq' o d (map VStruct SS) (Ok (TUnknown n0)) = Ok t ->
    exists fs, t = TStruct n0 false (length SS) fs /\
      forall k, match fget2 k fs with
                | Some (tk, _) => vals k SS <> [] /\
                                  exists T, trace_seq' o (S d + count_dots k) (vals k SS) (Ok (TUnknown false)) = Ok T /\ tk = mk (missing k SS) T
                | None => vals k SS = []
                end.
  Proof.
    intros Hne HF H. destruct SS as [|fa r]; [congruence|]. cbn [map trace_seq' fold_left bind] in H. rewrite trace_struct_fresh in H.
    change (fold_left (fun acc v => do t0 <- acc;; trace o d v t0) (map VStruct r) (trace o d (VStruct fa) (TStruct n0 false 0 [])))
      with (trace_seq' o d (map VStruct (fa :: r)) (Ok (TStruct n0 false 0 []))) in H.
    destruct (project_from (fa :: r) [] n0 false 0 [] t HF (pinv_nil o d) H) as (fs' & -> & (_ & _ & Hk)).
    exists fs'. split; [reflexivity|]. exact Hk.
  Qed.
End Collection.
