(* C06 for tables. *)
From Verif Require Import Tracer Coerce Coerce_proofs Null_proofs Struct_proofs Project_proofs FlatRecords_proofs Nested_order.
From Coq Require Import Permutation.
Local Open Scope nat_scope.

(* C06 for tables: the type traced for a column accepts every scalar that any record carries in that column, and the column is
   nullable as soon as a record omits it or carries a null in it *)
From Verif Require Import Accept Accept_proofs.
Section TableClosure.
  Variable o : Opts.
  Variable d : nat.

  Lemma vals_in k SS fa v : In fa SS -> flookup k fa = Some v -> In v (vals k SS).
  Proof. intros Hin Hl. unfold vals. apply in_flat_map. exists fa. split; [exact Hin|]. rewrite Hl. left. reflexivity. Qed.

  Lemma leaf_result_shape dd vs l t : all_atoms o vs = Some l -> trace_seq o dd vs (TUnknown false) = Ok t ->
    (exists n, t = TUnknown n) \/ (exists n q, t = TPrim n q).
  Proof.
    intros Hl H. rewrite (trace_seq_atoms o dd vs l _ Hl) in H.
    pose proof (inv_render _ _ _ _ _ (inv_run o l _ _ _ (inv0 _ _ _) (all_atoms_ok o vs l Hl) H)) as Hr.
    unfold render in Hr. destruct (s_any _).
    - destruct (F _ _ _ _); cbn [option_map] in Hr; [injection Hr as <-; right; eauto|discriminate].
    - injection Hr as <-. left. eauto.
  Qed.

  Theorem table_column_accepts SS n0 m s fs k tk lk fa v pr :
    Forall (fun fa => NoDup (map fst fa)) SS -> (exists l, all_atoms o (vals k SS) = Some l) ->
    trace_seq' o d (map VStruct SS) (Ok (TUnknown n0)) = Ok (TStruct n0 m s fs) ->
    fget2 k fs = Some (tk, lk) -> In fa SS -> flookup k fa = Some v -> pres_of o v = Some pr ->
    exists n q, tk = TPrim n q /\ builder_accepts q pr = true.
  Proof.
    intros HF (l & Hl) H Hg Hin Hlk Hpr.
    assert (Hne : SS <> []) by (intros ->; contradiction).
    destruct (record_projection o d SS n0 _ Hne HF H) as (fs1 & E & P). injection E as -> -> ->. specialize (P k). rewrite Hg in P.
    destruct P as (_ & T & R & ->). rewrite trace_seq_same in R. pose proof (vals_in k SS fa v Hin Hlk) as Hv.
    destruct (pres_atoms o v pr Hpr) as (p & Ha & _).
    (* the column saw a typed scalar, so it is a primitive *)
    destruct (leaf_result_shape _ _ l T Hl R) as [(nn & ->)|(nn & q & ->)].
    - exfalso. rewrite (trace_seq_atoms o _ _ l _ Hl) in R.
      pose proof (inv_run o l _ _ _ (inv0 _ _ _) (all_atoms_ok o _ l Hl) R) as Hinv.
      assert (Hinl : In (AKind p) l) by (apply (all_atoms_in o _ l v _ Hl Hv Ha); left; reflexivity).
      pose proof (absorbed_in l summ0 _ Hinl) as Habs. destruct Hinv as [Hr _ _ _]. unfold render in Hr.
      assert (Hany : s_any (summ l summ0) = true) by (rewrite <- Habs; cbn [summ_atom]; destruct (kind_of_pt p); reflexivity).
      rewrite Hany in Hr. destruct (F _ _ _ _); discriminate.
    - exists (if missing k SS then true else nn), q. split; [destruct (missing k SS); reflexivity|].
      apply (leaf_accepts o _ (vals k SS) l nn q v pr Hl R Hv Hpr).
  Qed.
End TableClosure.
