(* finite sweep: completeness of the closed form without allow_to_string, coerce_numbers = true *)
From Verif Require Import Coerce.
Lemma complete_ok_true : forall lg, all_checks (complete_check true lg) = true.
Proof. intros [|]; vm_compute; reflexivity. Qed.
