From Verif Require Import Coerce Coerce_proofs Accept AcceptChk_true AcceptChk_false.
Require Import ZifyBool ZifyNat ZifyN.
Local Open Scope N_scope.
Arguments all_sets : simpl never.
Arguments F : simpl never.
Arguments bit : simpl never.
Arguments N.lor : simpl never.

Lemma accept_ok cn ts lg : all_accept_checks cn ts lg = true.
Proof. destruct cn; [apply accept_ok_true|apply accept_ok_false]. Qed.

(* how a scalar value arrives *)
Definition pres_of (o : Opts) (v : Value) : option nat :=
  match v with
  | VBool _ => Some 0 | VInt I8 _ => Some 1 | VInt I16 _ => Some 2 | VInt I32 _ => Some 3 | VInt I64 _ => Some 4
  | VInt U8 _ => Some 5 | VInt U16 _ => Some 6 | VInt U32 _ => Some 7 | VInt U64 _ => Some 8
  | VF32 _ => Some 9 | VF64 _ => Some 10 | VChar _ => Some 11
  | VStr s => match str_type o s with PStr _ => Some 12 | PTs false => Some 13 | PTs true => Some 14
                                     | PTime64Ns => Some 15 | PDate32T => Some 16 | _ => None end
  | VBytes _ => Some 17
  | _ => None
  end%nat.

Lemma pres_atoms o v pr : pres_of o v = Some pr ->
  exists p, atoms o v = Some [AKind p] /\ kind_of_pt p = Some (kind_of_pres pr) /\ (pr < npres)%nat.
Proof.
  destruct v; cbn [pres_of atoms]; intros H; try discriminate;
    try (inversion H; subst; eexists; split; [reflexivity|split; [reflexivity|cbv; lia]]).
  - destruct k; inversion H; subst; eexists; (split; [reflexivity|split; [reflexivity|cbv; lia]]).
  - destruct (str_type o s) as [| |k| | |l|u| | |] eqn:E; try discriminate; try destruct u; inversion H; subst;
      eexists; (split; [reflexivity|split; [reflexivity|cbv; lia]]).
Qed.

Lemma all_atoms_in o : forall vs l v a, all_atoms o vs = Some l -> In v vs -> atoms o v = Some a -> incl a l.
Proof.
  induction vs as [|w r IH]; intros l v a H Hin Ha; [destruct Hin|]. cbn [all_atoms] in H.
  destruct (atoms o w) as [aw|] eqn:Ew; [|discriminate]. destruct (all_atoms o r) as [b0|] eqn:Eb; [|discriminate].
  inversion H; subst. destruct Hin as [->|Hin].
  - rewrite Ha in Ew. inversion Ew; subst. apply incl_appl. apply incl_refl.
  - apply incl_appr. eapply IH; eauto.
Qed.

(* the joined type accepts every scalar that reached the position *)
Theorem leaf_accepts o d vs l n q v pr :
  all_atoms o vs = Some l -> trace_seq o d vs (TUnknown false) = Ok (TPrim n q) ->
  In v vs -> pres_of o v = Some pr -> builder_accepts q pr = true.
Proof.
  intros H R Hin Hpr. destruct (pres_atoms o v pr Hpr) as [p [Ha [Hk Hlt]]].
  rewrite (trace_seq_atoms o d vs l _ H) in R.
  assert (Hok := all_atoms_ok o vs l H).
  assert (Hinv := inv_run o l _ _ _ (inv0 _ _ _) Hok R).
  assert (Hinl : In (AKind p) l) by (apply (all_atoms_in o vs l v _ H Hin Ha); left; reflexivity).
  assert (Habs := absorbed_in l summ0 _ Hinl). cbn [summ_atom] in Habs. rewrite Hk in Habs.
  assert (Hset : N.lor (s_set (summ l summ0)) (bit (kind_of_pres pr)) = s_set (summ l summ0)) by (rewrite <- Habs at 2; reflexivity).
  assert (Hany : s_any (summ l summ0) = true) by (rewrite <- Habs; reflexivity).
  assert (Hbit := lor_bit_absorbed _ _ Hset).
  destruct Hinv as [Hr _ _ Hd]. unfold render in Hr. rewrite Hany in Hr.
  destruct (F (o_coerce o) (o_to_string o) (o_large_utf8 o) (s_set (summ l summ0))) as [q'|] eqn:EF; [|discriminate].
  inversion Hr; subst q'.
  assert (Hall := accept_ok (o_coerce o) (o_to_string o) (o_large_utf8 o)). unfold all_accept_checks in Hall.
  rewrite forallb_forall in Hall. specialize (Hall _ Hd). rewrite forallb_forall in Hall.
  assert (Hc := Hall pr). unfold accept_check in Hc. rewrite Hbit, EF in Hc. apply Hc. apply in_seq. unfold npres in *. lia.
Qed.

(* a null (None, Some, unit) at the position makes the traced field nullable *)
Theorem leaf_null_nullable o d vs l t v :
  all_atoms o vs = Some l -> trace_seq o d vs (TUnknown false) = Ok t ->
  In v vs -> (v = VNone \/ v = VUnit \/ v = VUnitStruct \/ exists x, v = VSome x) -> t_nullable t = true.
Proof.
  intros H R Hin Hv. rewrite (trace_seq_atoms o d vs l _ H) in R.
  assert (Hok := all_atoms_ok o vs l H).
  assert (Hinv := inv_run o l _ _ _ (inv0 _ _ _) Hok R).
  assert (exists a la, atoms o v = Some la /\ In a la /\ (a = AMark \/ a = AKind PNull)) as [a [la [Ha [Hia Hcase]]]].
  { destruct Hv as [->|[->|[->|[x ->]]]]; cbn [atoms].
    - exists AMark, [AMark]. repeat split; [left; reflexivity|left; reflexivity].
    - exists (AKind PNull), [AKind PNull]. repeat split; [left; reflexivity|right; reflexivity].
    - exists (AKind PNull), [AKind PNull]. repeat split; [left; reflexivity|right; reflexivity].
    - assert (exists lx, atoms o x = Some lx) as [lx Ex].
      { clear -H Hin. revert l H. induction vs as [|w r IH]; intros l H; [destruct Hin|]. cbn [all_atoms] in H.
        destruct (atoms o w) as [aw|] eqn:Ew; [|discriminate]. destruct (all_atoms o r) as [b0|] eqn:Eb; [|discriminate].
        destruct Hin as [->|Hin]; [|eapply IH; eauto]. cbn [atoms] in Ew. destruct (atoms o x) as [lx|]; [eexists; reflexivity|discriminate]. }
      rewrite Ex. exists AMark, (AMark :: lx). repeat split; [left; reflexivity|left; reflexivity]. }
  assert (Hinl : In a l) by (apply (all_atoms_in o vs l v la H Hin Ha); exact Hia).
  assert (Habs := absorbed_in l summ0 _ Hinl).
  assert (Hnull : s_null (summ l summ0) = true) by (destruct Hcase as [->| ->]; rewrite <- Habs; reflexivity).
  destruct Hinv as [Hr _ _ _]. unfold render in Hr.
  destruct (s_any (summ l summ0)); [destruct (F _ _ _ _); [|discriminate]|]; inversion Hr; subst t; cbn; exact Hnull.
Qed.
