(* Constants and defaults of the source (regenerated on every run: Gen/Constants.v) against the models. *)
From Coq Require Import String.
From Verif Require Import Tracer DecimalCodec Constants.
Local Open Scope string_scope.

Fixpoint lookup_default (k : string) (l : list (string * string)) : option string :=
  match l with [] => None | (a, c) :: r => if String.eqb a k then Some c else lookup_default k r end.
Definition bool_text (x : bool) : string := if x then "true" else "false".
Definition default_is (k : string) (x : bool) : bool :=
  match lookup_default k tracing_defaults with Some v => String.eqb v (bool_text x) | None => false end.

(* default_opts of the tracer model is `impl Default for TracingOptions`, field by field; the default budget is 100 *)
Definition defaults_ok : bool :=
  default_is "allow_null_fields" (o_allow_null default_opts) && default_is "map_as_struct" (o_map_as_struct default_opts)
  && default_is "sequence_as_large_list" (o_large_list default_opts) && default_is "string_as_large_utf8" (o_large_utf8 default_opts)
  && default_is "string_dictionary_encoding" (o_dict default_opts) && default_is "coerce_numbers" (o_coerce default_opts)
  && default_is "allow_to_string" (o_to_string default_opts) && default_is "guess_dates" (o_guess_dates default_opts)
  && default_is "enums_without_data_as_strings" (o_enums_str default_opts)
  && match lookup_default "from_type_budget" tracing_defaults with Some v => String.eqb v "100" | None => false end
  && Nat.eqb (length tracing_defaults) 12.

Theorem constants_match :
  max_depth = max_type_depth /\ depth_limited_transitions = 5 /\ BUF = buffer_size_i128 /\ defaults_ok = true.
Proof. repeat split; vm_compute; reflexivity. Qed.
