(* finite sweep: every kind in the set is accepted by the builder of the joined type, coerce_numbers = false *)
From Verif Require Import Accept.
Lemma accept_ok_false : forall ts lg, all_accept_checks false ts lg = true.
Proof. intros [|] [|]; vm_compute; reflexivity. Qed.
