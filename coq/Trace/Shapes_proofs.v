(* Projection lemmas for the remaining shapes: maps traced as maps, tuples, enum variants.  Each says: the tracer of a child position is
   the result of tracing the child's values alone, in the order of the samples. *)
From Verif Require Import Tracer Builder_proofs Null_proofs Struct_proofs Project_proofs.
From Coq Require Import Bool.
Require Import Lia.
Local Open Scope nat_scope.

Lemma tsc o d v r t : trace_seq' o d (v :: r) (Ok t) = trace_seq' o d r (trace o d v t).
Proof. reflexivity. Qed.

(* ---------------- maps traced as maps: a key position and a value position ---------------- *)
Section MapLoop.
  Variable tr : nat -> Value -> Tracer -> Outcome Tracer.
  Variable dots : nat.
  Fixpoint mgo (kvs : list (Value * Value)) (kt vt : Tracer) : Outcome (Tracer * Tracer) :=
    match kvs with
    | [] => Ok (kt, vt)
    | (k, x) :: r => do kt' <- tr (S dots) k kt ;; do vt' <- tr (S dots) x vt ;; mgo r kt' vt'
    end.
End MapLoop.

Lemma trace_map_eq o d kvs t : o_map_as_struct o = false ->
  trace o d (VMap kvs) t =
  do t0 <- ensure_map d t ;;
  match t0 with TMap n kt vt => do kv <- mgo (trace o) d kvs kt vt ;; Ok (TMap n (fst kv) (snd kv)) | _ => Err end.
Proof. intros Hm. cbn [trace]. rewrite Hm. destruct (ensure_map d t) as [t0| |p]; cbn [bind]; reflexivity. Qed.

Lemma mgo_split o d : forall kvs kt vt kt' vt', mgo (trace o) d kvs kt vt = Ok (kt', vt') ->
  trace_seq' o (S d) (map fst kvs) (Ok kt) = Ok kt' /\ trace_seq' o (S d) (map snd kvs) (Ok vt) = Ok vt'.
Proof.
  induction kvs as [|[k x] r IH]; intros kt vt kt' vt' H; cbn [mgo] in H.
  - injection H as <- <-. split; reflexivity.
  - apply bind_ok in H as (k1 & Hk & H). apply bind_ok in H as (v1 & Hv & H). cbn [map fst snd]. rewrite !tsc, Hk, Hv. apply (IH _ _ _ _ H).
Qed.

Lemma mgo_join o d : forall kvs kt vt kt' vt',
  trace_seq' o (S d) (map fst kvs) (Ok kt) = Ok kt' -> trace_seq' o (S d) (map snd kvs) (Ok vt) = Ok vt' ->
  mgo (trace o) d kvs kt vt = Ok (kt', vt').
Proof.
  induction kvs as [|[k x] r IH]; intros kt vt kt' vt' H1 H2; cbn [mgo map fst snd] in *.
  - cbn in H1, H2. congruence.
  - rewrite tsc in H1, H2. destruct (trace o (S d) k kt) as [k1| |p]; [|rewrite fold_err in H1; discriminate|rewrite fold_panic in H1; discriminate].
    destruct (trace o (S d) x vt) as [v1| |p]; [|rewrite fold_err in H2; discriminate|rewrite fold_panic in H2; discriminate]. cbn [bind]. apply (IH _ _ _ _ H1 H2).
Qed.

Definition mkeys (kvss : list (list (Value * Value))) : list Value := flat_map (map fst) kvss.
Definition mvals (kvss : list (list (Value * Value))) : list Value := flat_map (map snd) kvss.

Lemma maps_from o d : o_map_as_struct o = false -> forall kvss n kt vt t,
  trace_seq' o d (map VMap kvss) (Ok (TMap n kt vt)) = Ok t ->
  exists kt' vt', t = TMap n kt' vt' /\ trace_seq' o (S d) (mkeys kvss) (Ok kt) = Ok kt' /\ trace_seq' o (S d) (mvals kvss) (Ok vt) = Ok vt'.
Proof.
  intros Hm. induction kvss as [|kvs r IH]; intros n kt vt t H.
  - cbn in H. injection H as <-. exists kt, vt. repeat split.
  - cbn [map] in H. rewrite tsc, (trace_map_eq o d kvs _ Hm) in H. unfold ensure_map in H.
    destruct (Nat.leb max_depth d); [cbn [bind] in H; rewrite fold_err in H; discriminate|]. cbn [upgradable bind] in H.
    destruct (mgo (trace o) d kvs kt vt) as [[k1 v1]| |p] eqn:E; cbn [bind fst snd] in H; [|rewrite fold_err in H; discriminate|rewrite fold_panic in H; discriminate].
    destruct (mgo_split o d kvs kt vt k1 v1 E) as [Hk Hv]. destruct (IH n k1 v1 t H) as (kt' & vt' & -> & Hk' & Hv').
    exists kt', vt'. split; [reflexivity|]. unfold mkeys, mvals. cbn [flat_map]. rewrite !fold_app, Hk, Hv. split; assumption.
Qed.

Lemma maps_projection o d kvss n0 t : o_map_as_struct o = false -> kvss <> [] ->
  trace_seq' o d (map VMap kvss) (Ok (TUnknown n0)) = Ok t ->
  exists kt vt, t = TMap n0 kt vt /\ trace_seq' o (S d) (mkeys kvss) (Ok (TUnknown false)) = Ok kt /\
                trace_seq' o (S d) (mvals kvss) (Ok (TUnknown false)) = Ok vt.
Proof.
  intros Hm Hne H. destruct kvss as [|kvs r]; [congruence|].
  assert (E : trace o d (VMap kvs) (TUnknown n0) = trace o d (VMap kvs) (TMap n0 (TUnknown false) (TUnknown false))).
  { rewrite !(trace_map_eq o d kvs _ Hm). unfold ensure_map. destruct (Nat.leb max_depth d); reflexivity. }
  cbn [map] in H. rewrite tsc, E, <- tsc in H. apply (maps_from o d Hm (kvs :: r) n0 _ _ t H).
Qed.

(* ---------------- tuples: one position per index ---------------- *)
Section TupleLoop.
  Variable tr : nat -> Value -> Tracer -> Outcome Tracer.
  Fixpoint tgo (dots pos : nat) (l : list Value) (acc : list Tracer) : Outcome (list Tracer) :=
    match l with
    | [] => Ok acc
    | x :: r => do t' <- tr (S dots) x (nth_tracer acc pos) ;; tgo dots (S pos) r (set_tracer acc pos t')
    end.
End TupleLoop.

Lemma trace_tuple_eq o d l t :
  trace o d (VTuple l) t =
  do t0 <- ensure_tuple d (length l) t ;;
  match t0 with TTuple n fields => do fs' <- tgo (trace o) d 0 l fields ;; Ok (TTuple n fs') | _ => Err end.
Proof. cbn [trace]. destruct (ensure_tuple d (length l) t) as [t0| |p]; cbn [bind]; reflexivity. Qed.
Lemma trace_tuple_struct o d l t : trace o d (VTupleStruct l) t = trace o d (VTuple l) t.
Proof. reflexivity. Qed.

Lemma nth_set_tracer : forall fs i j t, nth_tracer (set_tracer fs i t) j = if Nat.eqb j i then t else nth_tracer fs j.
Proof.
  induction fs as [|f r IH]; intros i j t.
  - assert (Hnil : forall k, nth_tracer [] k = TUnknown false) by (intros k; destruct k; reflexivity).
    revert j. induction i as [|i IHi]; intros j; destruct j as [|j]; cbn [set_tracer nth_tracer Nat.eqb].
    + reflexivity.
    + reflexivity.
    + reflexivity.
    + rewrite IHi. reflexivity.
  - destruct i as [|i], j as [|j]; cbn [set_tracer nth_tracer Nat.eqb]; try reflexivity. apply IH.
Qed.
Lemma length_set_tracer : forall fs i t, length (set_tracer fs i t) = Nat.max (length fs) (S i).
Proof.
  induction fs as [|f r IH]; intros i t.
  - induction i as [|i IHi]; cbn [set_tracer length]; [reflexivity|]. rewrite IHi. cbn [length]. lia.
  - destruct i as [|i]; cbn [set_tracer length]; [lia|]. rewrite IH. lia.
Qed.
Lemma nth_tracer_beyond : forall fs i, length fs <= i -> nth_tracer fs i = TUnknown false.
Proof. induction fs as [|f r IH]; intros i H; [destruct i; reflexivity|]. destruct i as [|i]; cbn [length] in H; [lia|]. cbn [nth_tracer]. apply IH. lia. Qed.

(* what one tuple does to the positions *)
Lemma tgo_spec o d : forall l pos acc acc', tgo (trace o) d pos l acc = Ok acc' ->
  length acc' = Nat.max (length acc) (match l with [] => 0 | _ => pos + length l end) /\
  (forall i, i < pos -> nth_tracer acc' i = nth_tracer acc i) /\
  (forall i, pos + length l <= i -> nth_tracer acc' i = nth_tracer acc i) /\
  (forall j x, nth_error l j = Some x -> trace o (S d) x (nth_tracer acc (pos + j)) = Ok (nth_tracer acc' (pos + j))).
Proof.
  induction l as [|x r IH]; intros pos acc acc' H; cbn [tgo] in H.
  - injection H as <-. repeat split; try reflexivity; try lia. intros j x Hx. destruct j; discriminate.
  - apply bind_ok in H as (t' & Ht & H). destruct (IH _ _ _ H) as (Hlen & Hlo & Hhi & Hin). repeat split.
    + rewrite Hlen, length_set_tracer. cbn [length]. destruct r; cbn [length]; lia.
    + intros i Hi. rewrite (Hlo i ltac:(lia)), nth_set_tracer. destruct (Nat.eqb_spec i pos); [lia|reflexivity].
    + intros i Hi. cbn [length] in Hi. rewrite (Hhi i ltac:(lia)), nth_set_tracer. destruct (Nat.eqb_spec i pos); [lia|reflexivity].
    + intros j y Hy. destruct j as [|j]; cbn [nth_error] in Hy.
      * injection Hy as <-. rewrite Nat.add_0_r, (Hlo pos ltac:(lia)), nth_set_tracer, Nat.eqb_refl. exact Ht.
      * specialize (Hin j y Hy). rewrite nth_set_tracer in Hin. replace (S pos + j) with (pos + S j) in Hin by lia.
        destruct (Nat.eqb_spec (pos + S j) pos); [lia|exact Hin].
Qed.

Definition col (i : nat) (ls : list (list Value)) : list Value :=
  flat_map (fun l => match nth_error l i with Some x => [x] | None => [] end) ls.
Definition maxlen (ls : list (list Value)) : nat := fold_right Nat.max 0 (map (@length Value) ls).

Lemma col_app i l1 l2 : col i (l1 ++ l2) = col i l1 ++ col i l2.
Proof. apply flat_map_app. Qed.
Lemma maxlen_app l1 l2 : maxlen (l1 ++ l2) = Nat.max (maxlen l1) (maxlen l2).
Proof. unfold maxlen. induction l1 as [|a r IH]; cbn [app map fold_right]; [reflexivity|]. rewrite IH. lia. Qed.

Lemma maxlen_single l : maxlen [l] = length l.
Proof. unfold maxlen. cbn [map fold_right]. lia. Qed.

(* ---- tuples of different lengths: positions that a shorter tuple lacks are nullable ---- *)
Lemma nth_adjust : forall n fs i,
  nth_tracer (arity_adjust fs n) i =
  if Nat.ltb i n && Nat.ltb i (length fs) then nth_tracer fs i
  else if Nat.ltb i n || Nat.ltb i (length fs) then mark_nullable (nth_tracer fs i) else TUnknown false.
Proof.
  induction n as [|n IH]; intros fs i.
  - cbn [arity_adjust Nat.ltb Nat.leb andb orb]. revert i. induction fs as [|f r IHr]; intros i; [destruct i; reflexivity|].
    destruct i as [|i]; cbn [map nth_tracer length]; [reflexivity|]. rewrite IHr. change (S i <? S (length r)) with (i <? length r). reflexivity.
  - destruct fs as [|f r]; cbn [arity_adjust length].
    + destruct i as [|i]; cbn [nth_tracer]; [reflexivity|]. rewrite (IH [] i). cbn [length]. change (S i <? S n) with (i <? n).
      replace (i <? 0) with false by (symmetry; apply Nat.ltb_ge; lia). rewrite Bool.andb_false_r, Bool.orb_false_r.
      destruct (i <? n); [destruct i; reflexivity|reflexivity].
    + destruct i as [|i]; cbn [nth_tracer]; [reflexivity|]. rewrite (IH r i). change (S i <? S n) with (i <? n). change (S i <? S (length r)) with (i <? length r). reflexivity.
Qed.
Lemma length_adjust : forall n fs, length (arity_adjust fs n) = Nat.max n (length fs).
Proof.
  induction n as [|n IH]; intros fs; [cbn [arity_adjust]; rewrite map_length; lia|].
  destruct fs as [|f r]; cbn [arity_adjust length]; rewrite IH; cbn [length]; lia.
Qed.

Definition tmiss (i : nat) (ls : list (list Value)) : bool := existsb (fun l => Nat.leb (length l) i) ls.
Definition tflag (i : nat) (ls : list (list Value)) : bool := Nat.ltb i (maxlen ls) && tmiss i ls.

Lemma col_beyond i ls : maxlen ls <= i -> col i ls = [].
Proof.
  induction ls as [|l r IH]; intros H; [reflexivity|]. unfold maxlen in H. cbn [map fold_right] in H. fold (maxlen r) in H.
  unfold col. cbn [flat_map]. fold (col i r). rewrite IH by lia. destruct (nth_error l i) eqn:E; [|reflexivity].
  assert (i < length l) by (apply nth_error_Some; congruence). lia.
Qed.
Lemma tmiss_beyond i ls : ls <> [] -> maxlen ls <= i -> tmiss i ls = true.
Proof.
  destruct ls as [|l r]; [congruence|]. intros _ H. unfold maxlen in H. cbn [map fold_right] in H. unfold tmiss. cbn [existsb].
  replace (length l <=? i) with true by (symmetry; apply Nat.leb_le; lia). reflexivity.
Qed.
Lemma tmiss_app i a c : tmiss i (a ++ c) = tmiss i a || tmiss i c.
Proof. apply existsb_app. Qed.

Lemma trace_mk o d v b t : trace o d v (mk b t) = (if b then omark (trace o d v t) else trace o d v t).
Proof. destruct b; cbn [mk]; [apply trace_mark|reflexivity]. Qed.
Lemma mk_true_mk b t : mark_nullable (mk b t) = mk true t.
Proof. destruct b; cbn [mk]; [apply mark_idem|reflexivity]. Qed.

Definition TInv o d (S0 : list (list Value)) (F : list Tracer) : Prop :=
  length F = maxlen S0 /\
  forall i, exists T, trace_seq' o (S d) (col i S0) (Ok (TUnknown false)) = Ok T /\ nth_tracer F i = mk (tflag i S0) T.

Lemma tinv_step o d S0 F l F' : S0 <> [] -> TInv o d S0 F -> tgo (trace o) d 0 l (arity_adjust F (length l)) = Ok F' -> TInv o d (S0 ++ [l]) F'.
Proof.
  intros Hne (Hlen & Hcol) H. destruct (tgo_spec o d l 0 _ F' H) as (Hl' & _ & Hhi & Hin). split.
  - rewrite Hl', length_adjust, maxlen_app, Hlen, maxlen_single. destruct l; cbn [length]; lia.
  - intros i. destruct (Hcol i) as (T & RT & ET). rewrite col_app, fold_app, RT. unfold col at 1. cbn [flat_map]. rewrite app_nil_r.
    assert (Hfl : tflag i (S0 ++ [l]) = (Nat.ltb i (Nat.max (maxlen S0) (length l))) && (tmiss i S0 || Nat.leb (length l) i)).
    { unfold tflag. rewrite maxlen_app, maxlen_single, tmiss_app. unfold tmiss at 2. cbn [existsb]. rewrite Bool.orb_false_r. reflexivity. }
    pose proof (nth_adjust (length l) F i) as Ha. rewrite Hlen in Ha. rewrite ET in Ha.
    destruct (nth_error l i) as [x|] eqn:Ex.
    + assert (Hil : i < length l) by (apply nth_error_Some; congruence).
      pose proof (Hin i x Ex) as Hx. cbn [Nat.add] in Hx. rewrite Ha in Hx.
      replace (i <? length l) with true in Hx by (symmetry; apply Nat.ltb_lt; exact Hil). cbn [andb orb] in Hx.
      cbn [trace_seq' fold_left bind].
      destruct (Nat.ltb_spec i (maxlen S0)) as [HiM|HiM].
      * (* the position exists already *)
        rewrite trace_mk in Hx. rewrite Hfl. replace (i <? Nat.max (maxlen S0) (length l)) with true by (symmetry; apply Nat.ltb_lt; lia).
        replace (length l <=? i) with false by (symmetry; apply Nat.leb_gt; exact Hil). rewrite Bool.orb_false_r. cbn [andb].
        unfold tflag in Hx. replace (i <? maxlen S0) with true in Hx by (symmetry; apply Nat.ltb_lt; exact HiM). cbn [andb] in Hx.
        destruct (tmiss i S0); [|exists (nth_tracer F' i); split; [exact Hx|reflexivity]].
        destruct (trace o (S d) x T) as [T'| |p]; cbn [omark] in Hx; try discriminate. injection Hx as Hx. exists T'. split; [reflexivity|symmetry; exact Hx].
      * (* a new position: every earlier tuple lacks it *)
        assert (ET0 : T = TUnknown false) by (rewrite (col_beyond i S0 HiM) in RT; cbn in RT; congruence). subst T.
        unfold tflag in Hx. replace (i <? maxlen S0) with false in Hx by (symmetry; apply Nat.ltb_ge; exact HiM). cbn [andb mk] in Hx.
        change (mark_nullable (TUnknown false)) with (mk true (TUnknown false)) in Hx. rewrite trace_mk in Hx.
        rewrite Hfl. replace (i <? Nat.max (maxlen S0) (length l)) with true by (symmetry; apply Nat.ltb_lt; lia). rewrite (tmiss_beyond i S0 Hne HiM). cbn [andb orb].
        destruct (trace o (S d) x (TUnknown false)) as [T'| |p]; cbn [omark] in Hx; try discriminate. injection Hx as Hx. exists T'. split; [reflexivity|symmetry; exact Hx].
    + assert (Hil : length l <= i) by (apply nth_error_None; exact Ex).
      cbn [trace_seq' fold_left]. exists T. split; [reflexivity|]. rewrite (Hhi i ltac:(lia)), Ha, Hfl.
      replace (i <? length l) with false by (symmetry; apply Nat.ltb_ge; exact Hil). replace (length l <=? i) with true by (symmetry; apply Nat.leb_le; exact Hil).
      cbn [andb orb]. rewrite Bool.orb_true_r, Bool.andb_true_r.
      destruct (Nat.ltb_spec i (maxlen S0)) as [HiM|HiM].
      * replace (i <? Nat.max (maxlen S0) (length l)) with true by (symmetry; apply Nat.ltb_lt; lia). apply mk_true_mk.
      * replace (i <? Nat.max (maxlen S0) (length l)) with false by (symmetry; apply Nat.ltb_ge; lia).
        assert (ET0 : T = TUnknown false) by (rewrite (col_beyond i S0 HiM) in RT; cbn in RT; congruence). subst T. reflexivity.
Qed.

Lemma tuples_from o d : forall ls S0 n F t, S0 <> [] -> TInv o d S0 F ->
  trace_seq' o d (map VTuple ls) (Ok (TTuple n F)) = Ok t -> exists F', t = TTuple n F' /\ TInv o d (S0 ++ ls) F'.
Proof.
  induction ls as [|l r IH]; intros S0 n F t Hne Hinv H.
  - cbn in H. injection H as <-. exists F. rewrite app_nil_r. split; [reflexivity|exact Hinv].
  - cbn [map] in H. rewrite tsc, trace_tuple_eq in H. unfold ensure_tuple in H.
    destruct (Nat.leb max_depth d); [cbn [bind] in H; rewrite fold_err in H; discriminate|]. cbn [upgradable bind] in H.
    destruct (tgo (trace o) d 0 l (arity_adjust F (length l))) as [F1| |p] eqn:E; cbn [bind] in H; [|rewrite fold_err in H; discriminate|rewrite fold_panic in H; discriminate].
    destruct (IH (S0 ++ [l]) n F1 t ltac:(intros E0; apply app_eq_nil in E0 as [E0 _]; contradiction) (tinv_step o d S0 F l F1 Hne Hinv E) H) as (F' & -> & Hinv'). exists F'. split; [reflexivity|].
    rewrite <- app_assoc in Hinv'. exact Hinv'.
Qed.

Lemma nth_tracer_repeat k i : nth_tracer (repeat (TUnknown false) k) i = TUnknown false.
Proof. revert i. induction k as [|k IH]; intros i; [destruct i; reflexivity|]. destruct i; cbn [repeat nth_tracer]; [reflexivity|apply IH]. Qed.

(* the tracer of position i is the trace of the i-th elements alone, nullable iff some tuple is too short to have one *)
Theorem tuple_projection o d ls n0 t : ls <> [] ->
  trace_seq' o d (map VTuple ls) (Ok (TUnknown n0)) = Ok t ->
  exists F, t = TTuple n0 F /\ length F = maxlen ls /\
            forall i, exists T, trace_seq' o (S d) (col i ls) (Ok (TUnknown false)) = Ok T /\ nth_tracer F i = mk (tflag i ls) T.
Proof.
  intros Hne H. destruct ls as [|l r]; [congruence|]. cbn [map] in H. rewrite tsc, trace_tuple_eq in H. unfold ensure_tuple in H.
  destruct (Nat.leb max_depth d); [cbn [bind] in H; rewrite fold_err in H; discriminate|]. cbn [upgradable t_nullable bind] in H.
  destruct (tgo (trace o) d 0 l (repeat (TUnknown false) (length l))) as [F1| |p] eqn:E; cbn [bind] in H; [|rewrite fold_err in H; discriminate|rewrite fold_panic in H; discriminate].
  assert (Hinv1 : TInv o d [l] F1).
  { destruct (tgo_spec o d l 0 _ F1 E) as (Hl' & _ & Hhi & Hin). split.
    - rewrite Hl', repeat_length, maxlen_single. destruct l; cbn [length]; lia.
    - intros i. unfold col. cbn [flat_map]. rewrite app_nil_r.
      assert (Hf : tflag i [l] = false).
      { unfold tflag, tmiss. rewrite maxlen_single. cbn [existsb]. rewrite Bool.orb_false_r. destruct (Nat.ltb_spec i (length l)); [|reflexivity].
        replace (length l <=? i) with false by (symmetry; apply Nat.leb_gt; assumption). reflexivity. }
      rewrite Hf. cbn [mk]. destruct (nth_error l i) as [x|] eqn:Ex.
      + cbn [trace_seq' fold_left bind]. pose proof (Hin i x Ex) as Hx. cbn [Nat.add] in Hx. rewrite nth_tracer_repeat in Hx. exists (nth_tracer F1 i). split; [exact Hx|reflexivity].
      + cbn [trace_seq' fold_left]. exists (TUnknown false). split; [reflexivity|]. rewrite Hhi, nth_tracer_repeat; [reflexivity|]. apply nth_error_None in Ex. lia. }
  destruct (tuples_from o d r [l] n0 F1 t ltac:(discriminate) Hinv1 H) as (F' & -> & Hlen & Hcol). exists F'. split; [reflexivity|]. split; assumption.
Qed.

Lemma tuple_structs o d : forall ls r, trace_seq' o d (map VTupleStruct ls) r = trace_seq' o d (map VTuple ls) r.
Proof.
  induction ls as [|l rest IH]; intros r; [reflexivity|].
  change (trace_seq' o d (map VTupleStruct rest) (do t <- r ;; trace o d (VTupleStruct l) t) = trace_seq' o d (map VTuple rest) (do t <- r ;; trace o d (VTuple l) t)).
  rewrite IH. f_equal.
Qed.

(* ---------------- enum variants: one position per variant index ---------------- *)
Definition vpl (v : Value) : option (Z * bytes * Value) :=
  match v with
  | VUnitVariant i n => Some (i, n, VUnit)
  | VNewtypeVariant i n x => Some (i, n, x)
  | VTupleVariant i n l => Some (i, n, VTuple l)
  | VStructVariant i n fs => Some (i, n, VStruct fs)
  | _ => None
  end.

Definition ustep o d (w : Z * bytes * Value) (t : Tracer) : Outcome Tracer :=
  let '(idx, name, p) := w in
  do t0 <- ensure_union d t ;;
  match t0 with
  | TUnion n vs =>
    if (idx <? 0)%Z then Err else
    match get_variant vs (Z.to_nat idx) with
    | Some (prev, vt) =>
      if bytes_eqb prev name then do vt' <- trace o (S d + count_dots name) p vt ;; Ok (TUnion n (set_variant vs (Z.to_nat idx) (name, vt'))) else Err
    | None => do vt' <- trace o (S d + count_dots name) p (TUnknown false) ;; Ok (TUnion n (set_variant vs (Z.to_nat idx) (name, vt')))
    end
  | _ => Err
  end.

Lemma trace_variant_eq o d v w t : vpl v = Some w -> trace o d v t = ustep o d w t.
Proof. destruct v; try discriminate; intros E; injection E as <-; reflexivity. Qed.

Lemma get_set_variant : forall vs i j v, get_variant (set_variant vs i v) j = if Nat.eqb j i then Some v else get_variant vs j.
Proof.
  induction vs as [|x r IH]; intros i j v.
  - revert j. induction i as [|i IHi]; intros j; destruct j as [|j]; cbn [set_variant get_variant Nat.eqb]; try reflexivity.
    rewrite IHi. reflexivity.
  - destruct i as [|i], j as [|j]; cbn [set_variant get_variant Nat.eqb]; try reflexivity. apply IH.
Qed.
Lemma length_set_variant : forall vs i v, length (set_variant vs i v) = Nat.max (length vs) (S i).
Proof.
  induction vs as [|x r IH]; intros i v.
  - induction i as [|i IHi]; cbn [set_variant length]; [reflexivity|]. rewrite IHi. cbn [length]. lia.
  - destruct i as [|i]; cbn [set_variant length]; [lia|]. rewrite IH. lia.
Qed.

Definition wsel (i : nat) (ws : list (Z * bytes * Value)) : list (bytes * Value) :=
  flat_map (fun w : Z * bytes * Value => let '(idx, nm, p) := w in if Z.eqb idx (Z.of_nat i) then [(nm, p)] else []) ws.
Definition ulen (ws : list (Z * bytes * Value)) : nat :=
  fold_right Nat.max 0 (map (fun w : Z * bytes * Value => S (Z.to_nat (fst (fst w)))) ws).
Lemma wsel_app i a c : wsel i (a ++ c) = wsel i a ++ wsel i c.
Proof. apply flat_map_app. Qed.
Lemma ulen_app a c : ulen (a ++ c) = Nat.max (ulen a) (ulen c).
Proof. unfold ulen. induction a as [|x r IH]; cbn [app map fold_right]; [reflexivity|]. rewrite IH. lia. Qed.

Lemma ulen_single w : ulen [w] = S (Z.to_nat (fst (fst w))).
Proof. unfold ulen. cbn [map fold_right]. lia. Qed.

Definition UInv o d (S0 : list (Z * bytes * Value)) (V : list (option (bytes * Tracer))) : Prop :=
  Forall (fun w : Z * bytes * Value => (0 <= fst (fst w))%Z) S0 /\
  length V = ulen S0 /\
  forall i, match get_variant V i with
            | None => wsel i S0 = []
            | Some (nm, T) => wsel i S0 <> [] /\ Forall (fun e : bytes * Value => fst e = nm) (wsel i S0) /\
                              trace_seq' o (S d + count_dots nm) (map snd (wsel i S0)) (Ok (TUnknown false)) = Ok T
            end.

Lemma uinv_nil o d : UInv o d [] [].
Proof. split; [constructor|]. split; [reflexivity|]. intros i. destruct i; reflexivity. Qed.

Lemma uinv_step o d S0 n V w t : UInv o d S0 V -> ustep o d w (TUnion n V) = Ok t ->
  exists V', t = TUnion n V' /\ UInv o d (S0 ++ [w]) V'.
Proof.
  intros (Hpos & Hlen & Hsel) H. destruct w as [[idx name] p]. unfold ustep, ensure_union in H.
  destruct (Nat.leb max_depth d); [discriminate|]. cbn [upgradable bind] in H.
  destruct (Z.ltb_spec idx 0) as [|Hge]; [discriminate|]. set (i := Z.to_nat idx) in *.
  assert (Hsel_i : wsel i [(idx, name, p)] = [(name, p)]).
  { unfold wsel. cbn [flat_map]. replace (Z.of_nat i) with idx by (unfold i; lia). rewrite Z.eqb_refl. reflexivity. }
  assert (Hsel_j : forall j, j <> i -> wsel j [(idx, name, p)] = []).
  { intros j Hj. unfold wsel. cbn [flat_map]. destruct (Z.eqb_spec idx (Z.of_nat j)) as [E|]; [exfalso; apply Hj; unfold i; lia|reflexivity]. }
  assert (Hfin : forall vt', (match get_variant V i with Some (prev, vt) => prev = name /\ trace o (S d + count_dots name) p vt = Ok vt'
                                                         | None => trace o (S d + count_dots name) p (TUnknown false) = Ok vt' end) ->
                             UInv o d (S0 ++ [(idx, name, p)]) (set_variant V i (name, vt'))).
  { intros vt' Hv. split; [apply Forall_app; split; [exact Hpos|constructor; [exact Hge|constructor]]|]. split.
    - rewrite length_set_variant, ulen_app, Hlen, ulen_single. cbn [fst]. fold i. lia.
    - intros j. rewrite get_set_variant, wsel_app. destruct (Nat.eqb_spec j i) as [->|Hj].
      + rewrite Hsel_i. specialize (Hsel i). destruct (get_variant V i) as [[prev vt]|].
        * destruct Hv as (-> & Hv). destruct Hsel as (Hne & Hall & Htr). split; [intros E; apply app_eq_nil in E as [_ E]; discriminate|]. split.
          -- apply Forall_app. split; [exact Hall|constructor; [reflexivity|constructor]].
          -- rewrite map_app, fold_app, Htr. cbn [map snd trace_seq' fold_left bind]. exact Hv.
        * rewrite Hsel. cbn [app]. split; [discriminate|]. split; [constructor; [reflexivity|constructor]|].
          cbn [map snd trace_seq' fold_left bind]. exact Hv.
      + rewrite (Hsel_j j Hj), app_nil_r. apply Hsel. }
  destruct (get_variant V i) as [[prev vt]|] eqn:Eg.
  - destruct (bytes_eqb prev name) eqn:En; [|discriminate]. apply bytes_eqb_eq in En. apply bind_ok in H as (vt' & Hv & H). injection H as <-.
    eexists. split; [reflexivity|]. apply Hfin. split; assumption.
  - apply bind_ok in H as (vt' & Hv & H). injection H as <-. eexists. split; [reflexivity|]. apply Hfin. exact Hv.
Qed.

Definition pls (cs : list Value) : list (Z * bytes * Value) :=
  flat_map (fun c => match vpl c with Some w => [w] | None => [] end) cs.

Lemma unions_from o d : forall cs S0 n V t, Forall (fun c => vpl c <> None) cs -> UInv o d S0 V ->
  trace_seq' o d cs (Ok (TUnion n V)) = Ok t -> exists V', t = TUnion n V' /\ UInv o d (S0 ++ pls cs) V'.
Proof.
  induction cs as [|c r IH]; intros S0 n V t HF Hinv H.
  - cbn in H. injection H as <-. exists V. cbn [pls flat_map]. rewrite app_nil_r. split; [reflexivity|exact Hinv].
  - rewrite tsc in H. pose proof (Forall_inv HF) as Hc. destruct (vpl c) as [w|] eqn:Ew; [|congruence].
    rewrite (trace_variant_eq o d c w _ Ew) in H. destruct (ustep o d w (TUnion n V)) as [t1| |p] eqn:E; [|rewrite fold_err in H; discriminate|rewrite fold_panic in H; discriminate].
    destruct (uinv_step o d S0 n V w t1 Hinv E) as (V1 & -> & Hinv1).
    destruct (IH (S0 ++ [w]) n V1 t (Forall_inv_tail HF) Hinv1 H) as (V' & -> & Hinv'). exists V'. split; [reflexivity|].
    unfold pls. cbn [flat_map]. fold (pls r). rewrite Ew. rewrite <- app_assoc in Hinv'. exact Hinv'.
Qed.

Theorem union_projection o d cs n0 t : cs <> [] -> Forall (fun c => vpl c <> None) cs ->
  trace_seq' o d cs (Ok (TUnknown n0)) = Ok t -> exists V, t = TUnion n0 V /\ UInv o d (pls cs) V.
Proof.
  intros Hne HF H. destruct cs as [|c r]; [congruence|]. pose proof (Forall_inv HF) as Hc. destruct (vpl c) as [w|] eqn:Ew; [|congruence].
  assert (E : trace o d c (TUnknown n0) = trace o d c (TUnion n0 [])).
  { rewrite !(trace_variant_eq o d c w _ Ew). destruct w as [[idx name] p]. unfold ustep, ensure_union. destruct (Nat.leb max_depth d); reflexivity. }
  rewrite tsc, E, <- tsc in H. apply (unions_from o d (c :: r) [] n0 [] t HF (uinv_nil o d) H).
Qed.
