(* finite sweep: every kind in the set is accepted by the builder of the joined type, coerce_numbers = true *)
From Verif Require Import Accept.
Lemma accept_ok_true : forall ts lg, all_accept_checks true ts lg = true.
Proof. intros [|] [|]; vm_compute; reflexivity. Qed.
