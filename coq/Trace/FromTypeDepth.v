(* C16: tracing a type nested deeper than the limit stops with an error - on the first pass, whatever the budget -
   and the exploration loop runs at most `budget` passes (it is structurally recursive on the budget). *)
From Verif Require Import FromType FromType_proofs.
Require Import Lia.
Local Open Scope nat_scope.

Fixpoint nest (k : nat) (ty : Ty) : Ty := match k with O => ty | S k' => TySeq (nest k' ty) end.

Section Depth.
  Variable o : Opts.

  Lemma seq_at_limit d x t : max_depth <= d -> ft_pass o d (TySeq x) t = Err.
  Proof. intros H. rewrite ft_pass_eq. unfold ensure_list. apply Nat.leb_le in H. rewrite H. reflexivity. Qed.

  Lemma seq_propagates d x : (forall t', ft_pass o (S d) x t' = Err) -> forall t, ft_pass o d (TySeq x) t = Err.
  Proof.
    intros H t. rewrite ft_pass_eq. destruct (ensure_list d t) as [t0| |p] eqn:E; cbn [bind]; try reflexivity.
    - destruct t0; try reflexivity. rewrite H. reflexivity.
    - unfold ensure_list in E. destruct (Nat.leb max_depth d); [discriminate|]. destruct (upgradable t); [discriminate|]. destruct t; discriminate.
  Qed.

  Lemma nest_too_deep ty : forall k d, 1 <= k -> max_depth < d + k -> forall t, ft_pass o d (nest k ty) t = Err.
  Proof.
    induction k as [|k IH]; intros d Hk Hd t; [lia|]. cbn [nest].
    destruct (Nat.le_gt_cases max_depth d) as [Hge|Hlt]; [apply seq_at_limit, Hge|].
    apply seq_propagates. intros t'. apply IH; lia.
  Qed.

  (* a record with a field nested more than 20 sequences deep: from_type fails for every budget and every option set *)
  Theorem deep_type_is_an_error ty name k budget : max_depth < k -> from_type o [] budget (TyStruct [(name, nest k ty)]) = Err.
  Proof.
    intros Hk. unfold from_type. destruct budget as [|f]; [reflexivity|]. cbn [ft_loop complete].
    assert (E : ft_pass o 0 (TyStruct [(name, nest k ty)]) (TUnknown false) = Err).
    { rewrite ft_pass_eq. unfold as_struct, ensure_struct_named. cbn [Nat.leb max_depth upgradable t_nullable map fst bind fields_pass].
      rewrite (nest_too_deep ty k (S 0 + count_dots name)) by lia. reflexivity. }
    rewrite E. reflexivity.
  Qed.

  (* the loop makes at most `budget` passes: with a budget of zero nothing is explored *)
  Lemma zero_budget ty : ft_loop o 0 ty (TUnknown false) = Err.
  Proof. reflexivity. Qed.
End Depth.
