(* Order independence for nested data: collections of samples built from leaf values, Option / newtype wrappers, sequences and
   records, nested to any depth (tables, nested records, lists of records, records with list fields, optional anything), trace to
   the same tracer in every order of the samples - up to the order of record fields (first seen) and internal counters.
   By induction on the nesting depth from: the leaf-level closed form (Coerce_proofs), nullability being orthogonal to tracing
   (Null_proofs), the projection theorem for records (Project_proofs) and the analogous fact for sequences. *)
From Verif Require Import Tracer Coerce Coerce_proofs Builder_proofs Null_proofs Struct_proofs Project_proofs FlatRecords_proofs Shapes_proofs.
From Coq Require Import Permutation.
Require Import Lia.
Local Open Scope nat_scope.

(* ---- equality of tracers up to the order of record fields and counters ---- *)
Inductive teq : Tracer -> Tracer -> Prop :=
| teq_unknown n : teq (TUnknown n) (TUnknown n)
| teq_prim n p : teq (TPrim n p) (TPrim n p)
| teq_list n i i' : teq i i' -> teq (TList n i) (TList n i')
| teq_struct n s s' fs fs' :
    (forall k, fget2 k fs = None <-> fget2 k fs' = None) ->
    (forall k t l t' l', fget2 k fs = Some (t, l) -> fget2 k fs' = Some (t', l') -> teq t t') ->
    teq (TStruct n false s fs) (TStruct n false s' fs')
| teq_mstruct n s s' fs fs' :
    (forall k, fget2 k fs = None <-> fget2 k fs' = None) ->
    (forall k t l t' l', fget2 k fs = Some (t, l) -> fget2 k fs' = Some (t', l') -> teq t t') ->
    teq (TStruct n true s fs) (TStruct n true s' fs')
| teq_map n k k' v v' : teq k k' -> teq v v' -> teq (TMap n k v) (TMap n k' v')
| teq_tuple n fs fs' : length fs = length fs' -> (forall i, teq (nth_tracer fs i) (nth_tracer fs' i)) -> teq (TTuple n fs) (TTuple n fs')
| teq_union n vs vs' : length vs = length vs' ->
    (forall i, get_variant vs i = None <-> get_variant vs' i = None) ->
    (forall i nm t nm' t', get_variant vs i = Some (nm, t) -> get_variant vs' i = Some (nm', t') -> nm = nm') ->
    (forall i nm t nm' t', get_variant vs i = Some (nm, t) -> get_variant vs' i = Some (nm', t') -> teq t t') ->
    teq (TUnion n vs) (TUnion n vs').

Lemma teq_mark t t' : teq t t' -> teq (mark_nullable t) (mark_nullable t').
Proof. intros H. destruct H; cbn [mark_nullable]; constructor; assumption. Qed.
Lemma teq_mk b t t' : teq t t' -> teq (mk b t) (mk b t').
Proof. destruct b; cbn [mk]; [apply teq_mark|tauto]. Qed.

(* ---- wrappers and nulls ---- *)
Fixpoint core (v : Value) : option Value :=
  match v with VNone | VUnit | VUnitStruct => None | VSome x | VNewtypeStruct x => core x | _ => Some v end.
Fixpoint nullish (v : Value) : bool :=
  match v with VNone | VUnit | VUnitStruct | VSome _ => true | VNewtypeStruct x => nullish x | _ => false end.
Definition cores (vs : list Value) : list Value := flat_map (fun v => match core v with Some c => [c] | None => [] end) vs.
Definition omk (b : bool) (r : Outcome Tracer) : Outcome Tracer := if b then omark r else r.

Lemma omark_idem r : omark (omark r) = omark r.
Proof. destruct r; cbn [omark]; rewrite ?mark_idem; reflexivity. Qed.
Lemma omk_omk a c r : omk a (omk c r) = omk (a || c) r.
Proof. destruct a, c; cbn [omk orb]; try reflexivity. apply omark_idem. Qed.
Lemma omk_ok b t : omk b (Ok t) = Ok (mk b t).
Proof. destruct b; reflexivity. Qed.

Lemma core_none_nullish v : core v = None -> nullish v = true.
Proof. induction v; cbn [core nullish]; try discriminate; auto. Qed.

(* a value with a core is its core plus (possibly) a null *)
Lemma trace_core_some o d : forall v cc t, core v = Some cc -> trace o d v t = omk (nullish v) (trace o d cc t).
Proof.
  intros v. induction v; intros cc t Hc; cbn [core] in Hc; try discriminate; try (injection Hc as <-; reflexivity).
  - cbn [trace nullish omk]. rewrite trace_mark, (IHv cc t Hc). destruct (nullish v); cbn [omk]; [apply omark_idem|reflexivity].
  - cbn [trace nullish]. apply (IHv cc t Hc).
Qed.

(* null-like values (None, unit, unit struct, wrapped or not) only mark a position that already has a shape ... *)
Lemma unit_on_settled o t : upgradable t = false -> ensure_prim o PNull t = Ok (mark_nullable t).
Proof.
  destruct t as [n|n p|n i|n k v|n m s fs|n fs|n vs]; cbn [upgradable ensure_prim]; try discriminate; try reflexivity.
  destruct p; try discriminate; intros _; reflexivity.
Qed.
Lemma nulllike_on_settled o d : forall v t, core v = None -> upgradable t = false -> trace o d v t = Ok (mark_nullable t).
Proof.
  intros v. induction v; intros t Hc Hu; cbn [core] in Hc; try discriminate; cbn [trace].
  - reflexivity.
  - rewrite (IHv (mark_nullable t) Hc); [rewrite mark_idem; reflexivity|rewrite upgradable_mark; exact Hu].
  - apply (unit_on_settled o t Hu).
  - apply (unit_on_settled o t Hu).
  - apply (IHv t Hc Hu).
Qed.

(* ... and keep a position that has no shape yet shapeless and nullable *)
Definition ustate (t : Tracer) : bool := match t with TUnknown _ => true | TPrim true PNull => true | _ => false end.
Lemma ustate_mark t : ustate t = true -> ustate (mark_nullable t) = true.
Proof. destruct t as [n|[] []| | | | |]; cbn; try discriminate; reflexivity. Qed.
Lemma nulllike_on_ustate o d : forall v t, core v = None -> ustate t = true ->
  exists t', trace o d v t = Ok t' /\ ustate t' = true /\ t_nullable t' = true.
Proof.
  intros v. induction v; intros t Hc Hu; cbn [core] in Hc; try discriminate; cbn [trace].
  - exists (mark_nullable t). split; [reflexivity|]. split; [apply ustate_mark, Hu|apply nullable_mark].
  - destruct (IHv (mark_nullable t) Hc (ustate_mark t Hu)) as (t' & E & H1 & H2). exists t'. repeat split; assumption.
  - destruct t as [n|[] []| | | | |]; cbn in Hu; try discriminate; cbn [ensure_prim pt_eqb]; [rewrite orb_true_r|unfold coerce, coerce_core; cbn [pt_eqb]]; eexists; repeat split.
  - destruct t as [n|[] []| | | | |]; cbn in Hu; try discriminate; cbn [ensure_prim pt_eqb]; [rewrite orb_true_r|unfold coerce, coerce_core; cbn [pt_eqb]]; eexists; repeat split.
  - apply (IHv t Hc Hu).
Qed.

(* containers *)
Definition is_container (v : Value) : bool :=
  match v with
  | VSeq _ | VStruct _ | VMap _ | VTuple _ | VTupleStruct _
  | VUnitVariant _ _ | VNewtypeVariant _ _ _ | VTupleVariant _ _ _ | VStructVariant _ _ _ => true
  | _ => false
  end.
Lemma container_on_ustate o d c u : is_container c = true -> ustate u = true -> trace o d c u = omk (t_nullable u) (trace o d c (TUnknown false)).
Proof.
  intros Hc Hu. assert (E : trace o d c u = trace o d c (TUnknown (t_nullable u))).
  { destruct u as [n|[] []| | | | |]; cbn in Hu; try discriminate; [reflexivity|]. destruct c; try discriminate Hc; cbn [trace t_nullable];
      unfold ensure_list, ensure_struct, ensure_map, ensure_tuple, ensure_union; reflexivity. }
  rewrite E. destruct (t_nullable u); cbn [omk]; [|reflexivity]. change (TUnknown true) with (mark_nullable (TUnknown false)). apply trace_mark.
Qed.
Lemma complex_mark t : is_complex (mark_nullable t) = is_complex t.
Proof. destruct t; reflexivity. Qed.
Lemma complex_settled t : is_complex t = true -> upgradable t = false.
Proof. destruct t as [n|n []| | | | |]; cbn; congruence. Qed.

(* a position that has a shape keeps it *)
Lemma keep_complex o : forall v d t t', is_complex t = true -> trace o d v t = Ok t' -> is_complex t' = true.
Proof.
  intros v. induction v using Value_ind'; intros d t t' Hl Htr;
    try (cbn [trace] in Htr; unfold ensure_prim in Htr; destruct t as [n0|n0 prev|n0 it|n0 kt vt|n0 m0 s0 fs0|n0 fs0|n0 vs0]; try discriminate Hl;
         repeat match type of Htr with
                | (if ?c then _ else _) = _ => destruct c
                end; try discriminate; injection Htr as <-; reflexivity).
  - cbn [trace] in Htr. apply (IHv d (mark_nullable t) t'); [rewrite complex_mark; exact Hl|exact Htr].
  - cbn [trace] in Htr. apply (IHv d t t' Hl Htr).
  - rewrite trace_seq_eq in Htr. apply bind_ok in Htr as (t0 & _ & Htr). destruct t0; try discriminate. apply bind_ok in Htr as (it' & _ & Htr). injection Htr as <-. reflexivity.
  - cbn [trace] in Htr. apply bind_ok in Htr as (t0 & _ & Htr). destruct t0; try discriminate. apply bind_ok in Htr as (x & _ & Htr). injection Htr as <-. reflexivity.
  - cbn [trace] in Htr. apply bind_ok in Htr as (t0 & _ & Htr). destruct t0; try discriminate. apply bind_ok in Htr as (x & _ & Htr). injection Htr as <-. reflexivity.
  - cbn [trace] in Htr. destruct (o_map_as_struct o); apply bind_ok in Htr as (t0 & _ & Htr); destruct t0; try discriminate; apply bind_ok in Htr as (x & _ & Htr); injection Htr as <-; reflexivity.
  - rewrite trace_struct_eq in Htr. apply bind_ok in Htr as (t0 & _ & Htr). destruct t0; try discriminate. apply bind_ok in Htr as (x & _ & Htr). injection Htr as <-. reflexivity.
  - cbn [trace] in Htr. apply bind_ok in Htr as (t0 & _ & Htr). destruct t0; try discriminate.
    repeat match type of Htr with
           | (if ?c then _ else _) = _ => destruct c
           | match ?c with _ => _ end = _ => destruct c as [[? ?]|]
           | bind _ _ = Ok _ => apply bind_ok in Htr as (? & _ & Htr)
           end; try discriminate; injection Htr as <-; reflexivity.
  - cbn [trace] in Htr. apply bind_ok in Htr as (t0 & _ & Htr). destruct t0; try discriminate.
    repeat match type of Htr with
           | (if ?c then _ else _) = _ => destruct c
           | match ?c with _ => _ end = _ => destruct c as [[? ?]|]
           | bind _ _ = Ok _ => apply bind_ok in Htr as (? & _ & Htr)
           end; try discriminate; injection Htr as <-; reflexivity.
  - cbn [trace] in Htr. apply bind_ok in Htr as (t0 & _ & Htr). destruct t0; try discriminate.
    repeat match type of Htr with
           | (if ?c then _ else _) = _ => destruct c
           | match ?c with _ => _ end = _ => destruct c as [[? ?]|]
           | bind _ _ = Ok _ => apply bind_ok in Htr as (? & _ & Htr)
           end; try discriminate; injection Htr as <-; reflexivity.
  - cbn [trace] in Htr. apply bind_ok in Htr as (t0 & _ & Htr). destruct t0; try discriminate.
    repeat match type of Htr with
           | (if ?c then _ else _) = _ => destruct c
           | match ?c with _ => _ end = _ => destruct c as [[? ?]|]
           | bind _ _ = Ok _ => apply bind_ok in Htr as (? & _ & Htr)
           end; try discriminate; injection Htr as <-; reflexivity.
Qed.

Lemma ustep_complex o d w t t1 : ustep o d w t = Ok t1 -> is_complex t1 = true.
Proof.
  destruct w as [[idx name] p]. unfold ustep. intros H. apply bind_ok in H as (t0 & _ & H). destruct t0; try discriminate.
  repeat match type of H with
         | (if ?c then _ else _) = _ => destruct c
         | match ?c with _ => _ end = _ => destruct c as [[? ?]|]
         | bind _ _ = Ok _ => apply bind_ok in H as (? & _ & H)
         end; try discriminate; injection H as <-; reflexivity.
Qed.
Lemma container_result_complex o d c t1 : is_container c = true -> trace o d c (TUnknown false) = Ok t1 -> is_complex t1 = true.
Proof.
  intros Hc H. destruct c; try discriminate Hc.
  - rewrite trace_seq_eq in H. apply bind_ok in H as (t0 & _ & H). destruct t0; try discriminate. apply bind_ok in H as (x & _ & H). injection H as <-. reflexivity.
  - rewrite trace_tuple_eq in H. apply bind_ok in H as (t0 & _ & H). destruct t0; try discriminate. apply bind_ok in H as (x & _ & H). injection H as <-. reflexivity.
  - rewrite trace_tuple_struct, trace_tuple_eq in H. apply bind_ok in H as (t0 & _ & H). destruct t0; try discriminate. apply bind_ok in H as (x & _ & H). injection H as <-. reflexivity.
  - cbn [trace] in H. destruct (o_map_as_struct o); apply bind_ok in H as (t0 & _ & H); destruct t0; try discriminate; apply bind_ok in H as (x & _ & H); injection H as <-; reflexivity.
  - rewrite trace_struct_eq in H. apply bind_ok in H as (t0 & _ & H). destruct t0; try discriminate. apply bind_ok in H as (x & _ & H). injection H as <-. reflexivity.
  - erewrite trace_variant_eq in H by reflexivity. apply (ustep_complex o d _ _ _ H).
  - erewrite trace_variant_eq in H by reflexivity. apply (ustep_complex o d _ _ _ H).
  - erewrite trace_variant_eq in H by reflexivity. apply (ustep_complex o d _ _ _ H).
  - erewrite trace_variant_eq in H by reflexivity. apply (ustep_complex o d _ _ _ H).
Qed.

Lemma ts_cons o d v r t : trace_seq' o d (v :: r) (Ok t) = trace_seq' o d r (trace o d v t).
Proof. reflexivity. Qed.
Lemma ts_mk o d r b t1 : trace_seq' o d r (Ok (mk b t1)) = omk b (trace_seq' o d r (Ok t1)).
Proof. destruct b; [apply fold_mark|reflexivity]. Qed.
Lemma omk_err b : omk b Err = Err. Proof. destruct b; reflexivity. Qed.
Lemma omk_panic b p : omk b (Panic p) = Panic p. Proof. destruct b; reflexivity. Qed.
Lemma complex_mk b t : is_complex (mk b t) = is_complex t.
Proof. destruct b; cbn [mk]; [apply complex_mark|reflexivity]. Qed.

(* stripping nulls and wrappers from a collection traced into a position that has a shape *)
Lemma strip_settled o d : forall vs t, is_complex t = true ->
  trace_seq' o d vs (Ok t) = omk (existsb nullish vs) (trace_seq' o d (cores vs) (Ok t)).
Proof.
  induction vs as [|v r IH]; intros t Hc; [reflexivity|]. rewrite ts_cons. cbn [existsb]. unfold cores. cbn [flat_map]. fold (cores r).
  destruct (core v) as [c|] eqn:Ec.
  - rewrite (trace_core_some o d v c t Ec). cbn [app]. rewrite ts_cons. destruct (trace o d c t) as [t1| |p] eqn:Et.
    + rewrite omk_ok, ts_mk, (IH t1 (keep_complex o c d t t1 Hc Et)), omk_omk. reflexivity.
    + rewrite omk_err, !fold_err, omk_err. reflexivity.
    + rewrite omk_panic, !fold_panic, omk_panic. reflexivity.
  - rewrite (nulllike_on_settled o d v t Ec (complex_settled t Hc)), (core_none_nullish v Ec). cbn [app orb].
    change (mark_nullable t) with (mk true t). rewrite ts_mk, (IH t Hc), omk_omk. reflexivity.
Qed.

(* ... and into a position that has none yet, when the collection contains a container *)
Lemma strip_unsettled o d : forall vs u, ustate u = true -> Forall (fun c => is_container c = true) (cores vs) -> cores vs <> [] ->
  trace_seq' o d vs (Ok u) = omk (t_nullable u || existsb nullish vs) (trace_seq' o d (cores vs) (Ok (TUnknown false))).
Proof.
  induction vs as [|v r IH]; intros u Hu HF Hne; [cbn in Hne; congruence|]. rewrite ts_cons. cbn [existsb]. unfold cores in *. cbn [flat_map] in *. fold (cores r) in *.
  destruct (core v) as [c|] eqn:Ec.
  - cbn [app] in *. rewrite (trace_core_some o d v c u Ec), (container_on_ustate o d c u (Forall_inv HF) Hu), omk_omk, ts_cons.
    destruct (trace o d c (TUnknown false)) as [t1| |p] eqn:Et.
    + rewrite omk_ok, ts_mk, (strip_settled o d r t1 (container_result_complex o d c t1 (Forall_inv HF) Et)), omk_omk.
      f_equal. destruct (nullish v), (t_nullable u), (existsb nullish r); reflexivity.
    + rewrite omk_err, !fold_err, omk_err. reflexivity.
    + rewrite omk_panic, !fold_panic, omk_panic. reflexivity.
  - cbn [app] in *. destruct (nulllike_on_ustate o d v u Ec Hu) as (u' & E & Hu' & Hn'). rewrite E, (IH u' Hu' HF Hne), Hn', (core_none_nullish v Ec).
    rewrite !orb_true_r. reflexivity.
Qed.

(* collections of null-like values are leaf collections *)
Lemma core_none_atoms o : forall v, core v = None -> exists a, atoms o v = Some a.
Proof.
  induction v; cbn [core atoms]; intros H; try discriminate; try (eexists; reflexivity).
  - destruct (IHv H) as (a & ->). eexists; reflexivity.
  - apply (IHv H).
Qed.
Lemma cores_nil_atoms o : forall vs, cores vs = [] -> exists l, all_atoms o vs = Some l.
Proof.
  induction vs as [|v r IH]; intros H; [exists []; reflexivity|]. unfold cores in H. cbn [flat_map] in H. fold (cores r) in H.
  destruct (core v) as [c|] eqn:Ec; [discriminate|]. cbn [app] in H. destruct (core_none_atoms o v Ec) as (a & Ha). destruct (IH H) as (l & Hl).
  exists (a ++ l). cbn [all_atoms]. rewrite Ha, Hl. reflexivity.
Qed.

(* ---- sequences: the item tracer sees the elements of all samples, one after the other ---- *)
Lemma seq_from_list o d : forall ls n item t,
  trace_seq' o d (map VSeq ls) (Ok (TList n item)) = Ok t ->
  exists item', t = TList n item' /\ trace_seq' o (S d) (concat ls) (Ok item) = Ok item'.
Proof.
  induction ls as [|l r IH]; intros n item t H.
  - cbn in H. injection H as <-. exists item. split; reflexivity.
  - cbn [map] in H. rewrite ts_cons, trace_seq_eq in H. unfold ensure_list in H.
    destruct (Nat.leb max_depth d); [cbn [bind] in H; rewrite fold_err in H; discriminate|]. cbn [upgradable bind] in H.
    destruct (trace_seq' o (S d) l (Ok item)) as [it1| |p] eqn:E; cbn [bind] in H.
    + destruct (IH n it1 t H) as (item' & -> & Hi). exists item'. split; [reflexivity|]. cbn [concat]. rewrite fold_app, E. exact Hi.
    + rewrite fold_err in H. discriminate.
    + rewrite fold_panic in H. discriminate.
Qed.

Lemma seq_projection o d ls n0 t : ls <> [] ->
  trace_seq' o d (map VSeq ls) (Ok (TUnknown n0)) = Ok t ->
  exists item, t = TList n0 item /\ trace_seq' o (S d) (concat ls) (Ok (TUnknown false)) = Ok item.
Proof.
  destruct ls as [|l r]; [congruence|]. intros _ H.
  assert (E : trace o d (VSeq l) (TUnknown n0) = trace o d (VSeq l) (TList n0 (TUnknown false))).
  { rewrite !trace_seq_eq. unfold ensure_list. destruct (Nat.leb max_depth d); reflexivity. }
  cbn [map] in H. rewrite ts_cons, E, <- ts_cons in H. apply (seq_from_list o d (l :: r) n0 (TUnknown false) t H).
Qed.

(* ---- records presented as maps with string keys (JSON objects), when maps are traced as structs ---- *)
Definition strkeys (fa : list (bytes * Value)) : list (Value * Value) := map (fun kx : bytes * Value => (VStr (fst kx), snd kx)) fa.
Definition fmode (t : Tracer) : Tracer := match t with TStruct n _ s fs => TStruct n true s fs | _ => t end.
Definition omode (r : Outcome Tracer) : Outcome Tracer := match r with Ok t => Ok (fmode t) | Err => Err | Panic p => Panic p end.

Lemma mfields_strkeys tr d seen : forall fa acc, mfields tr d seen (strkeys fa) acc = sfields tr d seen fa acc.
Proof.
  induction fa as [|[k x] r IH]; intros acc; [reflexivity|]. cbn [strkeys map mfields sfields fst snd]. fold (strkeys r).
  destruct (struct_field (tr (S d + count_dots k) x) k seen acc); cbn [bind]; [apply IH|reflexivity|reflexivity].
Qed.

Lemma trace_map_is_struct o d fa t : o_map_as_struct o = true -> trace o d (VMap (strkeys fa)) t = omode (trace o d (VStruct fa) t).
Proof.
  intros Hm. rewrite (trace_map_struct_eq o d _ t Hm), trace_struct_eq. unfold ensure_struct. destruct (Nat.leb max_depth d); [reflexivity|].
  destruct (upgradable t); cbn [bind].
  - rewrite mfields_strkeys. destruct (sfields (trace o) d 0 fa []); reflexivity.
  - destruct t as [| | | |n m s fs| |]; try reflexivity. cbn [bind]. rewrite mfields_strkeys, orb_true_r, orb_false_r.
    destruct (sfields (trace o) d s fa fs); reflexivity.
Qed.

Lemma fmode_mark t : fmode (mark_nullable t) = mark_nullable (fmode t).
Proof. destruct t; reflexivity. Qed.

Lemma trace_fmode o : forall v dd nn mm sn ffs, trace o dd v (fmode (TStruct nn mm sn ffs)) = omode (trace o dd v (TStruct nn mm sn ffs)).
Proof.
  intros v. induction v using Value_ind'; intros dd nn mm sn ffs; cbn [fmode];
    try (cbn [trace ensure_prim]; match goal with |- (if ?c then _ else _) = _ => destruct c; reflexivity end).
  - reflexivity.
  - cbn [trace mark_nullable]. apply (IHv dd true mm sn ffs).
  - cbn [trace]. apply (IHv dd nn mm sn ffs).
  - cbn [trace]. unfold ensure_list. destruct (Nat.leb max_depth dd); reflexivity.
  - cbn [trace]. unfold ensure_tuple. destruct (Nat.leb max_depth dd); reflexivity.
  - cbn [trace]. unfold ensure_tuple. destruct (Nat.leb max_depth dd); reflexivity.
  - destruct (o_map_as_struct o) eqn:Em.
    + rewrite !(trace_map_struct_eq o dd kvs _ Em). unfold ensure_struct. destruct (Nat.leb max_depth dd); [reflexivity|]. cbn [upgradable bind]. rewrite !orb_true_r.
      destruct (mfields (trace o) dd sn kvs ffs); reflexivity.
    + cbn [trace]. rewrite Em. unfold ensure_map. destruct (Nat.leb max_depth dd); reflexivity.
  - rewrite !trace_struct_eq. unfold ensure_struct. destruct (Nat.leb max_depth dd); [reflexivity|]. cbn [upgradable bind]. rewrite !orb_false_r.
    destruct (sfields (trace o) dd sn fs ffs); reflexivity.
  - cbn [trace]. unfold ensure_union. destruct (Nat.leb max_depth dd); reflexivity.
  - cbn [trace]. unfold ensure_union. destruct (Nat.leb max_depth dd); reflexivity.
  - cbn [trace]. unfold ensure_union. destruct (Nat.leb max_depth dd); reflexivity.
  - cbn [trace]. unfold ensure_union. destruct (Nat.leb max_depth dd); reflexivity.
Qed.

Lemma struct_stays o d fa n m s fs t' : trace o d (VStruct fa) (TStruct n m s fs) = Ok t' -> exists m' s' fs', t' = TStruct n m' s' fs'.
Proof.
  rewrite trace_struct_eq. unfold ensure_struct. destruct (Nat.leb max_depth d); [discriminate|]. cbn [upgradable bind].
  destruct (sfields (trace o) d s fa fs); cbn [bind]; try discriminate. intros H. injection H as <-. eauto.
Qed.

Lemma maps_from_struct o d : o_map_as_struct o = true -> forall SS n m s fs,
  trace_seq' o d (map (fun fa => VMap (strkeys fa)) SS) (Ok (fmode (TStruct n m s fs))) = omode (trace_seq' o d (map VStruct SS) (Ok (TStruct n m s fs))).
Proof.
  intros Hm. induction SS as [|fa r IH]; intros n m s fs; [reflexivity|]. cbn [map]. rewrite !ts_cons, (trace_map_is_struct o d fa _ Hm), (trace_fmode o (VStruct fa) d n m s fs).
  destruct (trace o d (VStruct fa) (TStruct n m s fs)) as [t1| |p] eqn:E; cbn [omode].
  - destruct (struct_stays o d fa n m s fs t1 E) as (m' & s' & fs' & ->). cbn [fmode]. change (TStruct n true s' fs') with (fmode (TStruct n m' s' fs')). apply IH.
  - rewrite !fold_err. reflexivity.
  - rewrite !fold_panic. reflexivity.
Qed.

Lemma maps_collection o d SS : o_map_as_struct o = true -> SS <> [] ->
  trace_seq' o d (map (fun fa => VMap (strkeys fa)) SS) (Ok (TUnknown false)) = omode (trace_seq' o d (map VStruct SS) (Ok (TUnknown false))).
Proof.
  intros Hm Hne. destruct SS as [|fa r]; [congruence|]. cbn [map]. rewrite !ts_cons, (trace_map_is_struct o d fa _ Hm).
  destruct (trace o d (VStruct fa) (TUnknown false)) as [t1| |p] eqn:E; cbn [omode].
  - assert (exists n m s fs, t1 = TStruct n m s fs) as (n & m & s & fs & ->).
    { rewrite trace_struct_eq in E. unfold ensure_struct in E. destruct (Nat.leb max_depth d); [discriminate|]. cbn [upgradable bind] in E.
      destruct (sfields (trace o) d 0 fa []); cbn [bind] in E; try discriminate. injection E as <-. eauto. }
    apply (maps_from_struct o d Hm r n m s fs).
  - rewrite !fold_err. reflexivity.
  - rewrite !fold_panic. reflexivity.
Qed.

(* ---- records in either presentation, mixed within one collection ---- *)
Definition rec (x : bool * list (bytes * Value)) : Value := if fst x then VMap (strkeys (snd x)) else VStruct (snd x).
Definition bmode (b : bool) (t : Tracer) : Tracer := if b then fmode t else t.
Definition obm (b : bool) (r : Outcome Tracer) : Outcome Tracer := if b then omode r else r.
Definition tup (x : bool * list Value) : Value := if fst x then VTupleStruct (snd x) else VTuple (snd x).

Lemma omode_idem r : omode (omode r) = omode r.
Proof. destruct r as [t| |p]; [destruct t|..]; reflexivity. Qed.
Lemma obm_obm a c r : obm a (obm c r) = obm (a || c) r.
Proof. destruct a, c; cbn [obm orb]; try reflexivity. apply omode_idem. Qed.
Lemma obm_err b : obm b Err = Err. Proof. destruct b; reflexivity. Qed.
Lemma obm_panic b p : obm b (Panic p) = Panic p. Proof. destruct b; reflexivity. Qed.
Lemma obm_ok b t : obm b (Ok t) = Ok (bmode b t). Proof. destruct b; reflexivity. Qed.

Lemma trace_rec o d x b0 n m s fs : (fst x = true -> o_map_as_struct o = true) ->
  trace o d (rec x) (bmode b0 (TStruct n m s fs)) = obm (fst x || b0) (trace o d (VStruct (snd x)) (TStruct n m s fs)).
Proof.
  intros Hm. destruct x as [b fa]. cbn [fst snd] in *. rewrite <- obm_obm. unfold rec. cbn [fst snd].
  assert (E0 : trace o d (VStruct fa) (bmode b0 (TStruct n m s fs)) = obm b0 (trace o d (VStruct fa) (TStruct n m s fs))).
  { destruct b0; cbn [bmode obm]; [apply trace_fmode|reflexivity]. }
  destruct b; cbn [obm]; [rewrite (trace_map_is_struct o d fa _ (Hm eq_refl)), E0; reflexivity|exact E0].
Qed.

Lemma recs_from_struct o d : forall RS b0 n m s fs, (existsb fst RS = true -> o_map_as_struct o = true) ->
  trace_seq' o d (map rec RS) (Ok (bmode b0 (TStruct n m s fs))) = obm (b0 || existsb fst RS) (trace_seq' o d (map VStruct (map snd RS)) (Ok (TStruct n m s fs))).
Proof.
  induction RS as [|x r IH]; intros b0 n m s fs Hm; [cbn [map existsb trace_seq' fold_left]; rewrite orb_false_r, obm_ok; reflexivity|].
  cbn [map existsb] in *. rewrite !ts_cons, (trace_rec o d x b0 n m s fs) by (intros E; apply Hm; rewrite E; reflexivity).
  destruct (trace o d (VStruct (snd x)) (TStruct n m s fs)) as [t1| |p] eqn:E.
  - destruct (struct_stays o d _ n m s fs t1 E) as (m' & s' & fs' & ->). rewrite obm_ok, IH by (intros E2; apply Hm; rewrite E2; apply orb_true_r).
    f_equal. destruct (fst x), b0, (existsb fst r); reflexivity.
  - rewrite obm_err, !fold_err, obm_err. reflexivity.
  - rewrite obm_panic, !fold_panic, obm_panic. reflexivity.
Qed.

Lemma recs_collection o d RS n0 : (existsb fst RS = true -> o_map_as_struct o = true) ->
  trace_seq' o d (map rec RS) (Ok (TUnknown n0)) = obm (existsb fst RS) (trace_seq' o d (map VStruct (map snd RS)) (Ok (TUnknown n0))).
Proof.
  intros Hm. destruct RS as [|x r]; [reflexivity|].
  assert (E : trace o d (rec x) (TUnknown n0) = trace o d (rec x) (TStruct n0 false 0 [])).
  { destruct x as [[|] fa]; unfold rec; cbn [fst snd].
    - assert (Hm1 : o_map_as_struct o = true) by (apply Hm; reflexivity). rewrite !(trace_map_is_struct o d fa _ Hm1), trace_struct_fresh. reflexivity.
    - apply trace_struct_fresh. }
  cbn [map]. rewrite !ts_cons, E, trace_struct_fresh, <- !ts_cons.
  change (TStruct n0 false 0 []) with (bmode false (TStruct n0 false 0 [])) at 1. apply (recs_from_struct o d (x :: r) false n0 false 0 [] Hm).
Qed.

Lemma tups_collection o d : forall TS r, trace_seq' o d (map tup TS) r = trace_seq' o d (map VTuple (map snd TS)) r.
Proof.
  induction TS as [|x rest IH]; intros r; [reflexivity|].
  change (trace_seq' o d (map tup rest) (do t <- r ;; trace o d (tup x) t) = trace_seq' o d (map VTuple (map snd rest)) (do t <- r ;; trace o d (VTuple (snd x)) t)).
  rewrite IH. f_equal. destruct x as [[|] l]; reflexivity.
Qed.

(* ---- the class of collections: homogeneous nested data ---- *)
Section Order.
  Variable o : Opts.

  Fixpoint Hom (n : nat) (vs : list Value) : Prop :=
    (exists l, all_atoms o vs = Some l) \/
    match n with
    | 0 => False
    | S n' =>
      (exists ls, cores vs = map VSeq ls /\ Hom n' (concat ls)) \/
      (exists RS, cores vs = map rec RS /\ (existsb fst RS = true -> o_map_as_struct o = true) /\
                  Forall (fun fa => NoDup (map fst fa)) (map snd RS) /\ forall k, Hom n' (vals k (map snd RS))) \/
      (o_map_as_struct o = false /\ exists kvss, cores vs = map VMap kvss /\ Hom n' (mkeys kvss) /\ Hom n' (mvals kvss)) \/
      (exists TS, cores vs = map tup TS /\ forall i, Hom n' (col i (map snd TS))) \/
      (Forall (fun c => vpl c <> None) (cores vs) /\ forall i, Hom n' (map snd (wsel i (pls (cores vs)))))
    end.

  Lemma fold_max_perm l l' : Permutation l l' -> fold_right Nat.max 0 l = fold_right Nat.max 0 l'.
  Proof. induction 1; cbn [fold_right]; lia. Qed.
  Lemma maxlen_perm ls ls' : Permutation ls ls' -> maxlen ls = maxlen ls'.
  Proof. intros H. unfold maxlen. apply fold_max_perm, Permutation_map, H. Qed.
  Lemma ulen_perm ws ws' : Permutation ws ws' -> ulen ws = ulen ws'.
  Proof. intros H. unfold ulen. apply fold_max_perm, Permutation_map, H. Qed.
  Lemma col_perm i ls ls' : Permutation ls ls' -> Permutation (col i ls) (col i ls').
  Proof. intros H. unfold col. apply Permutation_flat_map, H. Qed.
  Lemma wsel_perm i ws ws' : Permutation ws ws' -> Permutation (wsel i ws) (wsel i ws').
  Proof. intros H. unfold wsel. apply Permutation_flat_map, H. Qed.
  Lemma pls_perm cs cs' : Permutation cs cs' -> Permutation (pls cs) (pls cs').
  Proof. intros H. unfold pls. apply Permutation_flat_map, H. Qed.
  Lemma variants_containers cs : Forall (fun c => vpl c <> None) cs -> Forall (fun c => is_container c = true) cs.
  Proof. apply Forall_impl. intros c H. destruct c; try reflexivity; cbn [vpl] in H; congruence. Qed.

  Lemma existsb_perm {A} (f : A -> bool) l l' : Permutation l l' -> existsb f l = existsb f l'.
  Proof. induction 1; cbn [existsb]; try congruence. destruct (f x), (f y); reflexivity. Qed.
  Lemma tflag_perm i ls ls' : Permutation ls ls' -> tflag i ls = tflag i ls'.
  Proof. intros H. unfold tflag, tmiss. rewrite (maxlen_perm ls ls' H), (existsb_perm _ ls ls' H). reflexivity. Qed.

  Lemma cores_perm vs vs' : Permutation vs vs' -> Permutation (cores vs) (cores vs').
  Proof. intros H. unfold cores. apply Permutation_flat_map, H. Qed.

  Lemma concat_perm (ls ls' : list (list Value)) : Permutation ls ls' -> Permutation (concat ls) (concat ls').
  Proof.
    induction 1 as [|x l l' _ IHp|x y l|l l' l'' _ IH1 _ IH2]; cbn [concat];
      [constructor|apply Permutation_app_head, IHp|rewrite !app_assoc; apply Permutation_app_tail, Permutation_app_comm|eapply perm_trans; eassumption].
  Qed.

  Lemma vseq_inj : forall a c, VSeq a = VSeq c -> a = c.
  Proof. intros a c H. injection H as ->. reflexivity. Qed.
  Lemma vstruct_inj : forall a c, VStruct a = VStruct c -> a = c.
  Proof. intros a c H. injection H as ->. reflexivity. Qed.

  (* a leaf position ends as an untyped or a primitive tracer *)
  Lemma leaf_result_teq d vs l t : all_atoms o vs = Some l -> trace_seq o d vs (TUnknown false) = Ok t -> teq t t.
  Proof.
    intros Hl H. rewrite (trace_seq_atoms o d vs l _ Hl) in H.
    pose proof (inv_render _ _ _ _ _ (inv_run o l _ _ _ (inv0 _ _ _) (all_atoms_ok o vs l Hl) H)) as Hr.
    unfold render in Hr. destruct (s_any _).
    - destruct (F _ _ _ _); cbn [option_map] in Hr; [injection Hr as <-; constructor|discriminate].
    - injection Hr as <-. constructor.
  Qed.

  Lemma leaf_case d vs vs' l t t' : all_atoms o vs = Some l -> Permutation vs vs' ->
    trace_seq' o d vs (Ok (TUnknown false)) = Ok t -> trace_seq' o d vs' (Ok (TUnknown false)) = Ok t' -> teq t t'.
  Proof.
    intros Hl Hp H1 H2. rewrite trace_seq_same in H1, H2. rewrite <- (leaf_perm o d vs vs' l t t' Hl Hp H1 H2). apply (leaf_result_teq d vs l t Hl H1).
  Qed.

  Lemma strip0 d vs : Forall (fun c => is_container c = true) (cores vs) -> cores vs <> [] ->
    trace_seq' o d vs (Ok (TUnknown false)) = omk (existsb nullish vs) (trace_seq' o d (cores vs) (Ok (TUnknown false))).
  Proof. intros HF Hne. apply (strip_unsettled o d vs (TUnknown false) eq_refl HF Hne). Qed.

  Lemma containers_map {A} (f : A -> Value) l : (forall a, is_container (f a) = true) -> Forall (fun c => is_container c = true) (map f l).
  Proof. intros H. apply Forall_map. apply Forall_forall. intros a _. apply H. Qed.

  Lemma omk_ok_inv b r t : omk b r = Ok t -> exists u, r = Ok u /\ t = mk b u.
  Proof. destruct r as [u| |p]; [rewrite omk_ok; intros H; injection H as <-; eauto|rewrite omk_err; discriminate|rewrite omk_panic; discriminate]. Qed.

  (* THE THEOREM: the same samples in any order give the same tracer, up to field order and counters *)
  Theorem nested_order_independent : forall n d vs vs' t t',
    Hom n vs -> Permutation vs vs' ->
    trace_seq' o d vs (Ok (TUnknown false)) = Ok t -> trace_seq' o d vs' (Ok (TUnknown false)) = Ok t' -> teq t t'.
  Proof.
    induction n as [|n IH]; intros d vs vs' t t' Hh Hp H1 H2.
    - destruct Hh as [(l & Hl)|[]]. apply (leaf_case d vs vs' l t t' Hl Hp H1 H2).
    - pose proof (cores_perm vs vs' Hp) as Hcp. pose proof (existsb_perm nullish vs vs' Hp) as Hnp.
      destruct Hh as [(l & Hl)|[(ls & Hc & Hh)|[(RS & Hc & Hm & Hnd & Hh)|[(Hm & kvss & Hc & Hhk & Hhv)|[(TS & Hc & Hh)|(HF & Hh)]]]]].
      + apply (leaf_case d vs vs' l t t' Hl Hp H1 H2).
      + (* sequences *)
        rewrite Hc in Hcp. destruct (Permutation_map_inv _ _ (Permutation_sym Hcp)) as (ls' & Hc' & Hpl).
        destruct ls as [|l0 r0].
        { destruct (cores_nil_atoms o vs Hc) as (l & Hl). apply (leaf_case d vs vs' l t t' Hl Hp H1 H2). }
        assert (Hne' : ls' <> []) by (intros ->; apply Permutation_sym, Permutation_nil in Hpl; discriminate).
        rewrite (strip0 d vs) in H1 by (rewrite Hc; first [apply containers_map; reflexivity|discriminate]).
        rewrite (strip0 d vs') in H2 by (rewrite Hc'; first [apply containers_map; reflexivity|destruct ls'; [congruence|discriminate]]).
        rewrite Hc in H1. rewrite Hc', <- Hnp in H2.
        destruct (omk_ok_inv _ _ _ H1) as (u & E1 & ->). destruct (omk_ok_inv _ _ _ H2) as (u' & E2 & ->). apply teq_mk.
        destruct (seq_projection o d (l0 :: r0) false u ltac:(discriminate) E1) as (it & -> & Hi).
        destruct (seq_projection o d ls' false u' Hne' E2) as (it' & -> & Hi').
        constructor. apply (IH (S d) (concat (l0 :: r0)) (concat ls') it it' Hh (concat_perm _ _ Hpl) Hi Hi').
      + (* records, presented as structs or as maps with string keys *)
        rewrite Hc in Hcp. destruct (Permutation_map_inv _ _ (Permutation_sym Hcp)) as (RS' & Hc' & Hpl).
        pose proof (Permutation_map snd Hpl) as Hps. pose proof (existsb_perm fst RS RS' Hpl) as Hbp.
        assert (Hnd' : Forall (fun fa => NoDup (map fst fa)) (map snd RS')) by (apply (Permutation_Forall Hps Hnd)).
        assert (Hm' : existsb fst RS' = true -> o_map_as_struct o = true) by (rewrite <- Hbp; exact Hm).
        destruct RS as [|x0 r0].
        { destruct (cores_nil_atoms o vs Hc) as (l & Hl). apply (leaf_case d vs vs' l t t' Hl Hp H1 H2). }
        assert (Hne' : RS' <> []) by (intros ->; apply Permutation_sym, Permutation_nil in Hpl; discriminate).
        assert (Hrc : forall a, is_container (rec a) = true) by (intros [[|] ?]; reflexivity).
        rewrite (strip0 d vs) in H1 by (rewrite Hc; first [apply containers_map; exact Hrc|discriminate]).
        rewrite (strip0 d vs') in H2 by (rewrite Hc'; first [apply containers_map; exact Hrc|destruct RS'; [congruence|discriminate]]).
        rewrite Hc in H1. rewrite Hc', <- Hnp in H2.
        rewrite (recs_collection o d (x0 :: r0) false Hm) in H1. rewrite (recs_collection o d RS' false Hm'), <- Hbp in H2.
        destruct (omk_ok_inv _ _ _ H1) as (w & E1 & ->). destruct (omk_ok_inv _ _ _ H2) as (w' & E2 & ->). apply teq_mk.
        set (SS := map snd (x0 :: r0)) in *. set (SS' := map snd RS') in *. set (bb := existsb fst (x0 :: r0)) in *.
        assert (HneS : SS <> []) by (unfold SS; discriminate).
        assert (HneS' : SS' <> []) by (unfold SS'; destruct RS'; [congruence|discriminate]).
        destruct (trace_seq' o d (map VStruct SS) (Ok (TUnknown false))) as [u| |p] eqn:F1; [|rewrite obm_err in E1; discriminate|rewrite obm_panic in E1; discriminate].
        destruct (trace_seq' o d (map VStruct SS') (Ok (TUnknown false))) as [u'| |p] eqn:F2; [|rewrite obm_err in E2; discriminate|rewrite obm_panic in E2; discriminate].
        rewrite obm_ok in E1, E2. injection E1 as <-. injection E2 as <-.
        destruct (record_projection o d SS false u HneS Hnd F1) as (fs1 & -> & P1).
        destruct (record_projection o d SS' false u' HneS' Hnd' F2) as (fs2 & -> & P2).
        assert (Hnone : forall k, fget2 k fs1 = None <-> fget2 k fs2 = None).
        { intros k. specialize (P1 k). specialize (P2 k). pose proof (vals_perm k _ _ Hps) as Hvp. fold SS SS' in Hvp.
          destruct (fget2 k fs1) as [[t1 l1]|], (fget2 k fs2) as [[t2 l2]|]; split; intros Hx; try discriminate; try reflexivity.
          - destruct P1 as (Hne & _). rewrite P2 in Hvp. apply Permutation_sym, Permutation_nil in Hvp. contradiction.
          - destruct P2 as (Hne & _). rewrite P1 in Hvp. apply Permutation_nil in Hvp. contradiction. }
        assert (Hsome : forall k t1 l1 t2 l2, fget2 k fs1 = Some (t1, l1) -> fget2 k fs2 = Some (t2, l2) -> teq t1 t2).
        { intros k t1 l1 t2 l2 G1 G2. specialize (P1 k). specialize (P2 k). rewrite G1 in P1. rewrite G2 in P2.
          destruct P1 as (_ & T1 & R1 & ->). destruct P2 as (_ & T2 & R2 & ->).
          rewrite (missing_perm k _ _ Hps). apply teq_mk.
          apply (IH _ (vals k SS) (vals k SS') T1 T2 (Hh k) (vals_perm k _ _ Hps) R1 R2). }
        destruct bb; cbn [bmode fmode]; [apply teq_mstruct|apply teq_struct]; assumption.
      + (* maps traced as maps: a key position and a value position *)
        rewrite Hc in Hcp. destruct (Permutation_map_inv _ _ (Permutation_sym Hcp)) as (kvss' & Hc' & Hpl).
        destruct kvss as [|kv0 r0].
        { destruct (cores_nil_atoms o vs Hc) as (l & Hl). apply (leaf_case d vs vs' l t t' Hl Hp H1 H2). }
        assert (Hne' : kvss' <> []) by (intros ->; apply Permutation_sym, Permutation_nil in Hpl; discriminate).
        rewrite (strip0 d vs) in H1 by (rewrite Hc; first [apply containers_map; reflexivity|discriminate]).
        rewrite (strip0 d vs') in H2 by (rewrite Hc'; first [apply containers_map; reflexivity|destruct kvss'; [congruence|discriminate]]).
        rewrite Hc in H1. rewrite Hc', <- Hnp in H2.
        destruct (omk_ok_inv _ _ _ H1) as (u & E1 & ->). destruct (omk_ok_inv _ _ _ H2) as (u' & E2 & ->). apply teq_mk.
        destruct (maps_projection o d (kv0 :: r0) false u Hm ltac:(discriminate) E1) as (kt & vt & -> & Hk & Hv).
        destruct (maps_projection o d kvss' false u' Hm Hne' E2) as (kt' & vt' & -> & Hk' & Hv').
        apply teq_map.
        -- apply (IH (S d) (mkeys (kv0 :: r0)) (mkeys kvss') kt kt' Hhk (Permutation_flat_map _ Hpl) Hk Hk').
        -- apply (IH (S d) (mvals (kv0 :: r0)) (mvals kvss') vt vt' Hhv (Permutation_flat_map _ Hpl) Hv Hv').
      + (* tuples and tuple structs: one position per index *)
        rewrite Hc in Hcp. destruct (Permutation_map_inv _ _ (Permutation_sym Hcp)) as (TS' & Hc' & Hpl).
        pose proof (Permutation_map snd Hpl) as Hps.
        destruct TS as [|x0 r0].
        { destruct (cores_nil_atoms o vs Hc) as (l & Hl). apply (leaf_case d vs vs' l t t' Hl Hp H1 H2). }
        assert (Hne' : TS' <> []) by (intros ->; apply Permutation_sym, Permutation_nil in Hpl; discriminate).
        assert (Htc : forall a, is_container (tup a) = true) by (intros [[|] ?]; reflexivity).
        rewrite (strip0 d vs) in H1 by (rewrite Hc; first [apply containers_map; exact Htc|discriminate]).
        rewrite (strip0 d vs') in H2 by (rewrite Hc'; first [apply containers_map; exact Htc|destruct TS'; [congruence|discriminate]]).
        rewrite Hc, tups_collection in H1. rewrite Hc', tups_collection, <- Hnp in H2.
        destruct (omk_ok_inv _ _ _ H1) as (u & E1 & ->). destruct (omk_ok_inv _ _ _ H2) as (u' & E2 & ->). apply teq_mk.
        destruct (tuple_projection o d (map snd (x0 :: r0)) false u ltac:(discriminate) E1) as (F & -> & Hlen & Hcol).
        destruct (tuple_projection o d (map snd TS') false u' ltac:(destruct TS'; [congruence|discriminate]) E2) as (F' & -> & Hlen' & Hcol').
        apply teq_tuple; [rewrite Hlen, Hlen'; apply maxlen_perm, Hps|].
        intros i. destruct (Hcol i) as (T & R & ->). destruct (Hcol' i) as (T' & R' & ->).
        rewrite (tflag_perm i _ _ Hps). apply teq_mk.
        apply (IH (S d) (col i (map snd (x0 :: r0))) (col i (map snd TS')) _ _ (Hh i) (col_perm i _ _ Hps) R R').
      + (* enum variants: one position per variant *)
        destruct (cores vs) as [|c0 r0] eqn:Hc.
        { destruct (cores_nil_atoms o vs Hc) as (l & Hl). apply (leaf_case d vs vs' l t t' Hl Hp H1 H2). }
        assert (HF' : Forall (fun c => vpl c <> None) (cores vs')) by (apply (Permutation_Forall Hcp HF)).
        assert (Hne' : cores vs' <> []) by (intros E; rewrite E in Hcp; apply Permutation_sym, Permutation_nil in Hcp; discriminate).
        rewrite (strip0 d vs) in H1 by (rewrite Hc; first [exact (variants_containers _ HF)|discriminate]).
        rewrite (strip0 d vs') in H2 by first [exact (variants_containers _ HF')|exact Hne'].
        rewrite Hc in H1. rewrite <- Hnp in H2.
        destruct (omk_ok_inv _ _ _ H1) as (u & E1 & ->). destruct (omk_ok_inv _ _ _ H2) as (u' & E2 & ->). apply teq_mk.
        destruct (union_projection o d (c0 :: r0) false u ltac:(discriminate) HF E1) as (V & -> & (_ & Hlen & Hsel)).
        destruct (union_projection o d (cores vs') false u' Hne' HF' E2) as (V' & -> & (_ & Hlen' & Hsel')).
        pose proof (pls_perm _ _ Hcp) as Hpp.
        assert (Hnames : forall i nm T nm' T', get_variant V i = Some (nm, T) -> get_variant V' i = Some (nm', T') -> nm = nm').
        { intros i nm T nm' T' G1 G2. specialize (Hsel i). specialize (Hsel' i). rewrite G1 in Hsel. rewrite G2 in Hsel'.
          destruct Hsel as (Hne1 & Hall & _). destruct Hsel' as (_ & Hall' & _). pose proof (wsel_perm i _ _ Hpp) as Hw.
          destruct (wsel i (pls (c0 :: r0))) as [|e r] eqn:Ee; [congruence|].
          pose proof (Forall_inv Hall) as N1. cbn beta in N1. rewrite Forall_forall in Hall'.
          specialize (Hall' e (Permutation_in _ Hw (or_introl eq_refl))). congruence. }
        apply teq_union.
        -- rewrite Hlen, Hlen'. apply ulen_perm, Hpp.
        -- intros i. specialize (Hsel i). specialize (Hsel' i). pose proof (wsel_perm i _ _ Hpp) as Hw.
           destruct (get_variant V i) as [[nm T]|], (get_variant V' i) as [[nm' T']|]; split; intros Hx; try discriminate; try reflexivity.
           ++ destruct Hsel as (Hne1 & _). rewrite Hsel' in Hw. apply Permutation_sym, Permutation_nil in Hw. contradiction.
           ++ destruct Hsel' as (Hne1 & _). rewrite Hsel in Hw. apply Permutation_nil in Hw. contradiction.
        -- exact Hnames.
        -- intros i nm T nm' T' G1 G2. pose proof (Hnames i nm T nm' T' G1 G2) as <-.
           specialize (Hsel i). specialize (Hsel' i). rewrite G1 in Hsel. rewrite G2 in Hsel'.
           destruct Hsel as (_ & _ & R1). destruct Hsel' as (_ & _ & R2).
           apply (IH _ _ _ T T' (Hh i) (Permutation_map snd (wsel_perm i _ _ Hpp)) R1 R2).
  Qed.
End Order.
