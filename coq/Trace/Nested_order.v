(* Order independence for nested data: collections of samples built from leaf values, Option / newtype wrappers, sequences and
   records, nested to any depth (tables, nested records, lists of records, records with list fields, optional anything), trace to
   the same tracer in every order of the samples - up to the order of record fields (first seen) and internal counters.
   By induction on the nesting depth from: the leaf-level closed form (Coerce_proofs), nullability being orthogonal to tracing
   (Null_proofs), the projection theorem for records (Project_proofs) and the analogous fact for sequences. *)
From Verif Require Import Tracer Coerce Coerce_proofs Builder_proofs Null_proofs Struct_proofs Project_proofs FlatRecords_proofs.
From Coq Require Import Permutation.
Require Import Lia.
Local Open Scope nat_scope.

(* ---- equality of tracers up to the order of record fields and counters ---- *)
Inductive teq : Tracer -> Tracer -> Prop :=
| teq_unknown n : teq (TUnknown n) (TUnknown n)
| teq_prim n p : teq (TPrim n p) (TPrim n p)
| teq_list n i i' : teq i i' -> teq (TList n i) (TList n i')
| teq_struct n s s' fs fs' :
    (forall k, fget2 k fs = None <-> fget2 k fs' = None) ->
    (forall k t l t' l', fget2 k fs = Some (t, l) -> fget2 k fs' = Some (t', l') -> teq t t') ->
    teq (TStruct n false s fs) (TStruct n false s' fs').

Lemma teq_mark t t' : teq t t' -> teq (mark_nullable t) (mark_nullable t').
Proof. intros H. destruct H; cbn [mark_nullable]; constructor; assumption. Qed.
Lemma teq_mk b t t' : teq t t' -> teq (mk b t) (mk b t').
Proof. destruct b; cbn [mk]; [apply teq_mark|tauto]. Qed.

(* ---- wrappers and nulls ---- *)
Fixpoint core (v : Value) : option Value :=
  match v with VNone => None | VSome x | VNewtypeStruct x => core x | _ => Some v end.
Fixpoint nullish (v : Value) : bool :=
  match v with VNone | VSome _ => true | VNewtypeStruct x => nullish x | _ => false end.
Definition cores (vs : list Value) : list Value := flat_map (fun v => match core v with Some c => [c] | None => [] end) vs.
Definition omk (b : bool) (r : Outcome Tracer) : Outcome Tracer := if b then omark r else r.

Lemma omark_idem r : omark (omark r) = omark r.
Proof. destruct r; cbn [omark]; rewrite ?mark_idem; reflexivity. Qed.
Lemma omk_omk a c r : omk a (omk c r) = omk (a || c) r.
Proof. destruct a, c; cbn [omk orb]; try reflexivity. apply omark_idem. Qed.
Lemma omk_ok b t : omk b (Ok t) = Ok (mk b t).
Proof. destruct b; reflexivity. Qed.

Lemma core_none_nullish v : core v = None -> nullish v = true.
Proof. induction v; cbn [core nullish]; try discriminate; auto. Qed.

Lemma trace_core o d : forall v t,
  trace o d v t = omk (nullish v) (match core v with Some c => trace o d c t | None => Ok t end).
Proof.
  intros v. induction v; intros t; try reflexivity.
  - cbn [trace core nullish omk]. rewrite trace_mark, IHv. destruct (nullish v); cbn [omk]; [apply omark_idem|reflexivity].
  - cbn [trace core nullish]. apply IHv.
Qed.

Lemma ts_cons o d v r t : trace_seq' o d (v :: r) (Ok t) = trace_seq' o d r (trace o d v t).
Proof. reflexivity. Qed.
Lemma ts_mk o d r b t1 : trace_seq' o d r (Ok (mk b t1)) = omk b (trace_seq' o d r (Ok t1)).
Proof. destruct b; [apply fold_mark|reflexivity]. Qed.
Lemma omk_err b : omk b Err = Err. Proof. destruct b; reflexivity. Qed.
Lemma omk_panic b p : omk b (Panic p) = Panic p. Proof. destruct b; reflexivity. Qed.

Lemma strip o d : forall vs t, trace_seq' o d vs (Ok t) = omk (existsb nullish vs) (trace_seq' o d (cores vs) (Ok t)).
Proof.
  induction vs as [|v r IH]; intros t; [reflexivity|]. rewrite ts_cons, trace_core. cbn [existsb]. unfold cores. cbn [flat_map]. fold (cores r).
  destruct (core v) as [c|] eqn:Ec.
  - cbn [app]. rewrite ts_cons. destruct (trace o d c t) as [t1| |p].
    + rewrite omk_ok, ts_mk, IH, omk_omk. reflexivity.
    + rewrite omk_err, !fold_err, omk_err. reflexivity.
    + rewrite omk_panic, !fold_panic, omk_panic. reflexivity.
  - rewrite (core_none_nullish v Ec). cbn [app orb]. rewrite omk_ok, ts_mk, IH, omk_omk. reflexivity.
Qed.

(* ---- sequences: the item tracer sees the elements of all samples, one after the other ---- *)
Lemma seq_from_list o d : forall ls n item t,
  trace_seq' o d (map VSeq ls) (Ok (TList n item)) = Ok t ->
  exists item', t = TList n item' /\ trace_seq' o (S d) (concat ls) (Ok item) = Ok item'.
Proof.
  induction ls as [|l r IH]; intros n item t H.
  - cbn in H. injection H as <-. exists item. split; reflexivity.
  - cbn [map] in H. rewrite ts_cons, trace_seq_eq in H. unfold ensure_list in H.
    destruct (Nat.leb max_depth d); [cbn [bind] in H; rewrite fold_err in H; discriminate|]. cbn [upgradable bind] in H.
    destruct (trace_seq' o (S d) l (Ok item)) as [it1| |p] eqn:E; cbn [bind] in H.
    + destruct (IH n it1 t H) as (item' & -> & Hi). exists item'. split; [reflexivity|]. cbn [concat]. rewrite fold_app, E. exact Hi.
    + rewrite fold_err in H. discriminate.
    + rewrite fold_panic in H. discriminate.
Qed.

Lemma seq_projection o d ls n0 t : ls <> [] ->
  trace_seq' o d (map VSeq ls) (Ok (TUnknown n0)) = Ok t ->
  exists item, t = TList n0 item /\ trace_seq' o (S d) (concat ls) (Ok (TUnknown false)) = Ok item.
Proof.
  destruct ls as [|l r]; [congruence|]. intros _ H.
  assert (E : trace o d (VSeq l) (TUnknown n0) = trace o d (VSeq l) (TList n0 (TUnknown false))).
  { rewrite !trace_seq_eq. unfold ensure_list. destruct (Nat.leb max_depth d); reflexivity. }
  cbn [map] in H. rewrite ts_cons, E, <- ts_cons in H. apply (seq_from_list o d (l :: r) n0 (TUnknown false) t H).
Qed.

(* ---- the class of collections: homogeneous nested data ---- *)
Section Order.
  Variable o : Opts.

  Fixpoint Hom (n : nat) (vs : list Value) : Prop :=
    (exists l, all_atoms o vs = Some l) \/
    match n with
    | 0 => False
    | S n' =>
      (exists ls, cores vs = map VSeq ls /\ Hom n' (concat ls)) \/
      (exists SS, cores vs = map VStruct SS /\ Forall (fun fa => NoDup (map fst fa)) SS /\ forall k, Hom n' (vals k SS))
    end.

  Lemma existsb_perm {A} (f : A -> bool) l l' : Permutation l l' -> existsb f l = existsb f l'.
  Proof. induction 1; cbn [existsb]; try congruence. destruct (f x), (f y); reflexivity. Qed.

  Lemma cores_perm vs vs' : Permutation vs vs' -> Permutation (cores vs) (cores vs').
  Proof. intros H. unfold cores. apply Permutation_flat_map, H. Qed.

  Lemma concat_perm (ls ls' : list (list Value)) : Permutation ls ls' -> Permutation (concat ls) (concat ls').
  Proof.
    induction 1 as [|x l l' _ IHp|x y l|l l' l'' _ IH1 _ IH2]; cbn [concat];
      [constructor|apply Permutation_app_head, IHp|rewrite !app_assoc; apply Permutation_app_tail, Permutation_app_comm|eapply perm_trans; eassumption].
  Qed.

  Lemma vseq_inj : forall a c, VSeq a = VSeq c -> a = c.
  Proof. intros a c H. injection H as ->. reflexivity. Qed.
  Lemma vstruct_inj : forall a c, VStruct a = VStruct c -> a = c.
  Proof. intros a c H. injection H as ->. reflexivity. Qed.

  (* a leaf position ends as an untyped or a primitive tracer *)
  Lemma leaf_result_teq d vs l t : all_atoms o vs = Some l -> trace_seq o d vs (TUnknown false) = Ok t -> teq t t.
  Proof.
    intros Hl H. rewrite (trace_seq_atoms o d vs l _ Hl) in H.
    pose proof (inv_render _ _ _ _ _ (inv_run o l _ _ _ (inv0 _ _ _) (all_atoms_ok o vs l Hl) H)) as Hr.
    unfold render in Hr. destruct (s_any _).
    - destruct (F _ _ _ _); cbn [option_map] in Hr; [injection Hr as <-; constructor|discriminate].
    - injection Hr as <-. constructor.
  Qed.

  (* THE THEOREM: the same samples in any order give the same tracer, up to field order and counters *)
  Theorem nested_order_independent : forall n d vs vs' t t',
    Hom n vs -> Permutation vs vs' ->
    trace_seq' o d vs (Ok (TUnknown false)) = Ok t -> trace_seq' o d vs' (Ok (TUnknown false)) = Ok t' -> teq t t'.
  Proof.
    induction n as [|n IH]; intros d vs vs' t t' Hh Hp H1 H2.
    - destruct Hh as [(l & Hl)|[]]. rewrite trace_seq_same in H1, H2. rewrite <- (leaf_perm o d vs vs' l t t' Hl Hp H1 H2).
      apply (leaf_result_teq d vs l t Hl H1).
    - destruct Hh as [(l & Hl)|[(ls & Hc & Hh)|(SS & Hc & Hnd & Hh)]].
      + apply (IH d vs vs' t t'); [destruct n; left; exists l; exact Hl|exact Hp|exact H1|exact H2].
      + rewrite strip in H1, H2. rewrite <- (existsb_perm nullish vs vs' Hp) in H2. pose proof (cores_perm vs vs' Hp) as Hcp. rewrite Hc in Hcp, H1.
        destruct (Permutation_map_inv _ _ (Permutation_sym Hcp)) as (ls' & Hc' & Hpl). rewrite Hc' in H2.
        destruct ls as [|l0 r0].
        * apply Permutation_nil in Hpl. subst ls'. cbn [map trace_seq' fold_left] in H1, H2. rewrite omk_ok in H1, H2. injection H1 as <-. injection H2 as <-. apply teq_mk. constructor.
        * assert (Hne' : ls' <> []) by (intros ->; apply Permutation_sym, Permutation_nil in Hpl; discriminate).
          destruct (trace_seq' o d (map VSeq (l0 :: r0)) (Ok (TUnknown false))) as [u| |p] eqn:E1; try (destruct (existsb nullish vs); discriminate).
          destruct (trace_seq' o d (map VSeq ls') (Ok (TUnknown false))) as [u'| |p] eqn:E2; try (destruct (existsb nullish vs); discriminate).
          rewrite omk_ok in H1, H2. injection H1 as <-. injection H2 as <-. apply teq_mk.
          destruct (seq_projection o d (l0 :: r0) false u ltac:(discriminate) E1) as (it & -> & Hi).
          destruct (seq_projection o d ls' false u' Hne' E2) as (it' & -> & Hi').
          constructor. apply (IH (S d) (concat (l0 :: r0)) (concat ls') it it' Hh (concat_perm _ _ Hpl) Hi Hi').
      + rewrite strip in H1, H2. rewrite <- (existsb_perm nullish vs vs' Hp) in H2. pose proof (cores_perm vs vs' Hp) as Hcp. rewrite Hc in Hcp, H1.
        destruct (Permutation_map_inv _ _ (Permutation_sym Hcp)) as (SS' & Hc' & Hpl). rewrite Hc' in H2.
        assert (Hnd' : Forall (fun fa => NoDup (map fst fa)) SS') by (rewrite Forall_forall in *; intros fa Hin; apply Hnd, (Permutation_in _ (Permutation_sym Hpl) Hin)).
        destruct SS as [|fa0 r0].
        * apply Permutation_nil in Hpl. subst SS'. cbn [map trace_seq' fold_left] in H1, H2. rewrite omk_ok in H1, H2. injection H1 as <-. injection H2 as <-. apply teq_mk. constructor.
        * assert (Hne' : SS' <> []) by (intros ->; apply Permutation_sym, Permutation_nil in Hpl; discriminate).
          destruct (trace_seq' o d (map VStruct (fa0 :: r0)) (Ok (TUnknown false))) as [u| |p] eqn:E1; try (destruct (existsb nullish vs); discriminate).
          destruct (trace_seq' o d (map VStruct SS') (Ok (TUnknown false))) as [u'| |p] eqn:E2; try (destruct (existsb nullish vs); discriminate).
          rewrite omk_ok in H1, H2. injection H1 as <-. injection H2 as <-. apply teq_mk.
          destruct (record_projection o d (fa0 :: r0) false u ltac:(discriminate) Hnd E1) as (fs1 & -> & P1).
          destruct (record_projection o d SS' false u' Hne' Hnd' E2) as (fs2 & -> & P2).
          apply teq_struct.
          -- intros k. specialize (P1 k). specialize (P2 k). pose proof (vals_perm k _ _ Hpl) as Hvp.
             destruct (fget2 k fs1) as [[t1 l1]|], (fget2 k fs2) as [[t2 l2]|]; split; intros Hx; try discriminate; try reflexivity.
             ++ destruct P1 as (Hne & _). rewrite P2 in Hvp. apply Permutation_sym, Permutation_nil in Hvp. contradiction.
             ++ destruct P2 as (Hne & _). rewrite P1 in Hvp. apply Permutation_nil in Hvp. contradiction.
          -- intros k t1 l1 t2 l2 G1 G2. specialize (P1 k). specialize (P2 k). rewrite G1 in P1. rewrite G2 in P2.
             destruct P1 as (_ & T1 & R1 & ->). destruct P2 as (_ & T2 & R2 & ->).
             rewrite (missing_perm k _ _ Hpl). apply teq_mk.
             apply (IH _ (vals k (fa0 :: r0)) (vals k SS') T1 T2 (Hh k) (vals_perm k _ _ Hpl) R1 R2).
  Qed.
End Order.
