(* From tracers to schemas: tracers that are equal up to the order of record fields give schemas that are equal up to the
   order of struct fields; with Nested_order: from_samples is order independent on nested data. *)
From Verif Require Import Tracer Coerce Coerce_proofs Null_proofs Struct_proofs Project_proofs FlatRecords_proofs Nested_order FromType_proofs Sort_proofs.
From Coq Require Import Permutation.
Local Open Scope nat_scope.

(* the first field called k of a schema struct *)
Notation sget := sgetT.

(* equality of schema fields up to the order of struct children *)
Inductive sfeq : SField -> SField -> Prop :=
| sfeq_mk name dt dt' n st : sdeq dt dt' -> sfeq (mkSF name dt n st) (mkSF name dt' n st)
with sdeq : SDT -> SDT -> Prop :=
| sdeq_prim p : sdeq (SPrim p) (SPrim p)
| sdeq_dict l : sdeq (SDictU32 l) (SDictU32 l)
| sdeq_list l f f' : sfeq f f' -> sdeq (SList l f) (SList l f')
| sdeq_struct fs fs' :
    (forall k, sget k fs = None <-> sget k fs' = None) ->
    (forall k f f', sget k fs = Some f -> sget k fs' = Some f' -> sfeq f f') ->
    sdeq (SStruct fs) (SStruct fs').

Section Lift.
  Variable o : Opts.

  Lemma to_field_name : forall t name path f, to_field o [] name path t = Ok f -> sf_name f = name.
  Proof.
    intros t name path f H. destruct t as [n|n p|n i|n k v|n m s fs|n fs|n vs]; cbn [to_field get_overwrite find option_map] in H.
    - destruct (o_allow_null o); [injection H as <-; reflexivity|discriminate].
    - destruct p; try (injection H as <-; reflexivity).
      + destruct (o_allow_null o); [injection H as <-; reflexivity|discriminate].
      + destruct (o_dict o); injection H as <-; reflexivity.
    - apply bind_ok in H as (x & _ & H). injection H as <-. reflexivity.
    - apply bind_ok in H as (x & _ & H). apply bind_ok in H as (y & _ & H). injection H as <-. reflexivity.
    - apply bind_ok in H as (x & _ & H). destruct m; injection H as <-; reflexivity.
    - apply bind_ok in H as (x & _ & H). injection H as <-. reflexivity.
    - repeat match type of H with (if ?c then _ else _) = _ => destruct c end; try discriminate; try (injection H as <-; reflexivity).
      apply bind_ok in H as (x & _ & H). injection H as <-. reflexivity.
  Qed.

  (* the children of a record field list, looked up by name *)
  Lemma tf_struct_sget path : forall fs l k, tf_struct o path fs = Ok l ->
    match fget2 k fs with
    | Some (t, _) => exists f, sget k l = Some f /\ to_field o [] k (path_join path k) t = Ok f
    | None => sget k l = None
    end.
  Proof.
    induction fs as [|[[n t0] ls0] r IH]; intros l k H; cbn [tf_struct] in H; [injection H as <-; reflexivity|].
    apply bind_ok in H as (f0 & Hf & H). apply bind_ok in H as (rest & Hr & H). injection H as <-.
    cbn [fget2 sget]. rewrite (to_field_name t0 n _ f0 Hf). destruct (bytes_eqb n k) eqn:E.
    - apply bytes_eqb_eq in E. subst k. exists f0. split; [reflexivity|exact Hf].
    - apply (IH rest k Hr).
  Qed.

  Lemma to_field_mstruct name path n s trs :
    to_field o [] name path (TStruct n true s trs) = do fs <- tf_struct o path trs ;; Ok (mkSF name (SStruct (sort_fields fs)) n (Some SMapAsStruct)).
  Proof. reflexivity. Qed.

  Lemma to_field_struct' name path n s trs :
    to_field o [] name path (TStruct n false s trs) = do fs <- tf_struct o path trs ;; Ok (mkSF name (SStruct fs) n None).
  Proof. reflexivity. Qed.

  Theorem to_field_teq : forall t t', teq t t' -> forall name path path' f f',
    to_field o [] name path t = Ok f -> to_field o [] name path' t' = Ok f' -> sfeq f f'.
  Proof.
    induction 1 as [n|n p|n i i' Hi IH|n s s' fs fs' Hnone Hsome IH|n s s' fs fs' Hnone Hsome IH]; intros name path path' f f' H1 H2.
    - cbn [to_field get_overwrite find option_map] in H1, H2. destruct (o_allow_null o); [|discriminate]. injection H1 as <-. injection H2 as <-. repeat constructor.
    - cbn [to_field get_overwrite find option_map] in H1, H2. destruct p; try (injection H1 as <-; injection H2 as <-; repeat constructor).
      + destruct (o_allow_null o); [|discriminate]. injection H1 as <-. injection H2 as <-. repeat constructor.
      + destruct (o_dict o); injection H1 as <-; injection H2 as <-; repeat constructor.
    - cbn [to_field get_overwrite find option_map] in H1, H2. apply bind_ok in H1 as (x & Hx & H1). apply bind_ok in H2 as (y & Hy & H2).
      injection H1 as <-. injection H2 as <-. constructor. constructor. apply (IH _ _ _ x y Hx Hy).
    - rewrite to_field_struct' in H1, H2. apply bind_ok in H1 as (l & Hl & H1). apply bind_ok in H2 as (l' & Hl' & H2).
      injection H1 as <-. injection H2 as <-. constructor. constructor.
      + intros k. pose proof (tf_struct_sget path fs l k Hl) as A. pose proof (tf_struct_sget path' fs' l' k Hl') as B. specialize (Hnone k).
        destruct (fget2 k fs) as [[t1 l1]|], (fget2 k fs') as [[t2 l2]|].
        * destruct A as (fa & -> & _). destruct B as (fb & -> & _). split; discriminate.
        * destruct Hnone as [_ Hx]. specialize (Hx eq_refl). discriminate.
        * destruct Hnone as [Hx _]. specialize (Hx eq_refl). discriminate.
        * rewrite A, B. tauto.
      + intros k fa fb Ga Gb. pose proof (tf_struct_sget path fs l k Hl) as A. pose proof (tf_struct_sget path' fs' l' k Hl') as B.
        destruct (fget2 k fs) as [[t1 l1]|] eqn:E1; [|rewrite A in Ga; discriminate].
        destruct (fget2 k fs') as [[t2 l2]|] eqn:E2; [|rewrite B in Gb; discriminate].
        destruct A as (fa' & Ea & Ta). destruct B as (fb' & Eb & Tb). rewrite Ea in Ga. rewrite Eb in Gb. injection Ga as <-. injection Gb as <-.
        apply (IH k t1 l1 t2 l2 E1 E2 _ _ _ _ _ Ta Tb).
    - rewrite to_field_mstruct in H1, H2. apply bind_ok in H1 as (l & Hl & H1). apply bind_ok in H2 as (l' & Hl' & H2).
      injection H1 as <-. injection H2 as <-. constructor. constructor.
      + intros k. rewrite !sget_sort. pose proof (tf_struct_sget path fs l k Hl) as A. pose proof (tf_struct_sget path' fs' l' k Hl') as B. specialize (Hnone k).
        destruct (fget2 k fs) as [[t1 l1]|], (fget2 k fs') as [[t2 l2]|].
        * destruct A as (fa & -> & _). destruct B as (fb & -> & _). split; discriminate.
        * destruct Hnone as [_ Hx]. specialize (Hx eq_refl). discriminate.
        * destruct Hnone as [Hx _]. specialize (Hx eq_refl). discriminate.
        * rewrite A, B. tauto.
      + intros k fa fb Ga Gb. rewrite sget_sort in Ga, Gb. pose proof (tf_struct_sget path fs l k Hl) as A. pose proof (tf_struct_sget path' fs' l' k Hl') as B.
        destruct (fget2 k fs) as [[t1 l1]|] eqn:E1; [|rewrite A in Ga; discriminate].
        destruct (fget2 k fs') as [[t2 l2]|] eqn:E2; [|rewrite B in Gb; discriminate].
        destruct A as (fa' & Ea & Ta). destruct B as (fb' & Eb & Tb). rewrite Ea in Ga. rewrite Eb in Gb. injection Ga as <-. injection Gb as <-.
        apply (IH k t1 l1 t2 l2 E1 E2 _ _ _ _ _ Ta Tb).
  Qed.

  (* from_samples on nested data: the same samples in any order give the same schema up to the order of struct fields *)
  Theorem from_samples_order_independent n vs vs' fs1 fs2 :
    Hom o n vs -> Permutation vs vs' ->
    from_samples o [] vs = Ok fs1 -> from_samples o [] vs' = Ok fs2 -> sdeq (SStruct fs1) (SStruct fs2).
  Proof.
    intros Hh Hp H1 H2. unfold from_samples in H1, H2. apply bind_ok in H1 as (r1 & T1 & H1). apply bind_ok in H2 as (r2 & T2 & H2).
    unfold check_overwrites in H1, H2. cbn [forallb] in H1, H2. unfold to_schema in H1, H2.
    apply bind_ok in H1 as (f1 & F1 & H1). apply bind_ok in H2 as (f2 & F2 & H2).
    pose proof (nested_order_independent o n 0 vs vs' r1 r2 Hh Hp T1 T2) as Hteq.
    pose proof (to_field_teq r1 r2 Hteq _ _ _ f1 f2 F1 F2) as Hs.
    destruct Hs as [name dt dt' nl st Hd]. cbn [sf_nullable sf_dt] in H1, H2. destruct nl; [discriminate|].
    destruct Hd; try discriminate. injection H1 as <-. injection H2 as <-. constructor; assumption.
  Qed.
End Lift.
