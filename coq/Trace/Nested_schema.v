(* From tracers to schemas: tracers that are equal up to the order of record fields give schemas that are equal up to the
   order of struct fields; with Nested_order: from_samples is order independent on nested data. *)
From Verif Require Import Tracer Coerce Coerce_proofs Null_proofs Struct_proofs Project_proofs FlatRecords_proofs Nested_order FromType_proofs Sort_proofs.
From Coq Require Import Permutation.
Require Import Lia.
Local Open Scope nat_scope.

(* the first field called k of a schema struct *)
Notation sget := sgetT.

(* equality of schema fields up to the order of struct children *)
Inductive sfeq : SField -> SField -> Prop :=
| sfeq_mk name dt dt' n st : sdeq dt dt' -> sfeq (mkSF name dt n st) (mkSF name dt' n st)
with sdeq : SDT -> SDT -> Prop :=
| sdeq_prim p : sdeq (SPrim p) (SPrim p)
| sdeq_dict l : sdeq (SDictU32 l) (SDictU32 l)
| sdeq_list l f f' : sfeq f f' -> sdeq (SList l f) (SList l f')
| sdeq_struct fs fs' :
    (forall k, sget k fs = None <-> sget k fs' = None) ->
    (forall k f f', sget k fs = Some f -> sget k fs' = Some f' -> sfeq f f') ->
    sdeq (SStruct fs) (SStruct fs')
| sdeq_map kf kf' vf vf' : sfeq kf kf' -> sfeq vf vf' -> sdeq (SMap kf vf) (SMap kf' vf')
| sdeq_positional fs fs' : Forall2 sfeq fs fs' -> sdeq (SStruct fs) (SStruct fs')
| sdeq_union fs fs' : Forall2 sfeq fs fs' -> sdeq (SUnion fs) (SUnion fs').

Section Lift.
  Variable o : Opts.

  Lemma to_field_name : forall t name path f, to_field o [] name path t = Ok f -> sf_name f = name.
  Proof.
    intros t name path f H. destruct t as [n|n p|n i|n k v|n m s fs|n fs|n vs]; cbn [to_field get_overwrite find option_map] in H.
    - destruct (o_allow_null o); [injection H as <-; reflexivity|discriminate].
    - destruct p; try (injection H as <-; reflexivity).
      + destruct (o_allow_null o); [injection H as <-; reflexivity|discriminate].
      + destruct (o_dict o); injection H as <-; reflexivity.
    - apply bind_ok in H as (x & _ & H). injection H as <-. reflexivity.
    - apply bind_ok in H as (x & _ & H). apply bind_ok in H as (y & _ & H). injection H as <-. reflexivity.
    - apply bind_ok in H as (x & _ & H). destruct m; injection H as <-; reflexivity.
    - apply bind_ok in H as (x & _ & H). injection H as <-. reflexivity.
    - repeat match type of H with (if ?c then _ else _) = _ => destruct c end; try discriminate; try (injection H as <-; reflexivity).
      apply bind_ok in H as (x & _ & H). injection H as <-. reflexivity.
  Qed.

  (* the children of a record field list, looked up by name *)
  Lemma tf_struct_sget path : forall fs l k, tf_struct o path fs = Ok l ->
    match fget2 k fs with
    | Some (t, _) => exists f, sget k l = Some f /\ to_field o [] k (path_join path k) t = Ok f
    | None => sget k l = None
    end.
  Proof.
    induction fs as [|[[n t0] ls0] r IH]; intros l k H; cbn [tf_struct] in H; [injection H as <-; reflexivity|].
    apply bind_ok in H as (f0 & Hf & H). apply bind_ok in H as (rest & Hr & H). injection H as <-.
    cbn [fget2 sget]. rewrite (to_field_name t0 n _ f0 Hf). destruct (bytes_eqb n k) eqn:E.
    - apply bytes_eqb_eq in E. subst k. exists f0. split; [reflexivity|exact Hf].
    - apply (IH rest k Hr).
  Qed.

  Lemma to_field_mstruct name path n s trs :
    to_field o [] name path (TStruct n true s trs) = do fs <- tf_struct o path trs ;; Ok (mkSF name (SStruct (sort_fields fs)) n (Some SMapAsStruct)).
  Proof. reflexivity. Qed.

  Lemma to_field_struct' name path n s trs :
    to_field o [] name path (TStruct n false s trs) = do fs <- tf_struct o path trs ;; Ok (mkSF name (SStruct fs) n None).
  Proof. reflexivity. Qed.

  (* tuple positions and enum variants: position by position *)
  Lemma tf_tuple_pointwise : forall trs trs' i path path' l l', length trs = length trs' ->
    (forall k name p p' f f', to_field o [] name p (nth_tracer trs k) = Ok f -> to_field o [] name p' (nth_tracer trs' k) = Ok f' -> sfeq f f') ->
    tf_tuple o path i trs = Ok l -> tf_tuple o path' i trs' = Ok l' -> Forall2 sfeq l l'.
  Proof.
    induction trs as [|t r IH]; intros trs' i path path' l l' Hlen Hpt H1 H2; destruct trs' as [|t' r']; try discriminate Hlen.
    - cbn [tf_tuple] in H1, H2. injection H1 as <-. injection H2 as <-. constructor.
    - cbn [tf_tuple] in H1, H2. fold (tf_tuple o path) in H1. fold (tf_tuple o path') in H2.
      apply bind_ok in H1 as (f & Hf & H1). apply bind_ok in H1 as (rest & Hr & H1). injection H1 as <-.
      apply bind_ok in H2 as (f' & Hf' & H2). apply bind_ok in H2 as (rest' & Hr' & H2). injection H2 as <-.
      constructor; [apply (Hpt 0 _ _ _ f f' Hf Hf')|].
      apply (IH r' (N.succ i) path path' rest rest'); [cbn [length] in Hlen; lia| |exact Hr|exact Hr'].
      intros k. apply (Hpt (S k)).
  Qed.

  Lemma teq_null_variant t t' : teq t t' -> is_null_variant t = is_null_variant t'.
  Proof. intros H. destruct H; reflexivity. Qed.

  Lemma sfeq_unknown_variant : sfeq unknown_variant_field unknown_variant_field.
  Proof. repeat constructor. Qed.

  Lemma tf_union_pointwise : forall vs vs' path path' l l', length vs = length vs' ->
    (forall i, get_variant vs i = None <-> get_variant vs' i = None) ->
    (forall i nm t nm' t', get_variant vs i = Some (nm, t) -> get_variant vs' i = Some (nm', t') -> nm = nm') ->
    (forall i nm t nm' t', get_variant vs i = Some (nm, t) -> get_variant vs' i = Some (nm', t') ->
        forall name p p' f f', to_field o [] name p t = Ok f -> to_field o [] name p' t' = Ok f' -> sfeq f f') ->
    tf_union o path vs = Ok l -> tf_union o path' vs' = Ok l' -> Forall2 sfeq l l'.
  Proof.
    induction vs as [|v r IH]; intros vs' path path' l l' Hlen Hnone Hnm Hpt H1 H2; destruct vs' as [|v' r']; try discriminate Hlen.
    - cbn [tf_union] in H1, H2. injection H1 as <-. injection H2 as <-. constructor.
    - pose proof (Hnone 0) as Hn0. cbn [get_variant] in Hn0.
      assert (IHr : forall rest rest', tf_union o path r = Ok rest -> tf_union o path' r' = Ok rest' -> Forall2 sfeq rest rest').
      { intros rest rest' Hr Hr'. apply (IH r' path path' rest rest'); [cbn [length] in Hlen; lia| | | |exact Hr|exact Hr'].
        - intros i. apply (Hnone (S i)).
        - intros i. apply (Hnm (S i)).
        - intros i. apply (Hpt (S i)). }
      cbn [tf_union] in H1, H2. fold (tf_union o path) in H1. fold (tf_union o path') in H2.
      destruct v as [[nm t]|], v' as [[nm' t']|].
      + apply bind_ok in H1 as (f & Hf & H1). apply bind_ok in H1 as (rest & Hr & H1). injection H1 as <-.
        apply bind_ok in H2 as (f' & Hf' & H2). apply bind_ok in H2 as (rest' & Hr' & H2). injection H2 as <-.
        pose proof (Hnm 0 nm t nm' t' eq_refl eq_refl) as <-.
        constructor; [apply (Hpt 0 nm t nm t' eq_refl eq_refl _ _ _ f f' Hf Hf')|apply (IHr _ _ Hr Hr')].
      + destruct Hn0 as [_ Hx]. specialize (Hx eq_refl). discriminate.
      + destruct Hn0 as [Hx _]. specialize (Hx eq_refl). discriminate.
      + apply bind_ok in H1 as (rest & Hr & H1). injection H1 as <-. apply bind_ok in H2 as (rest' & Hr' & H2). injection H2 as <-.
        constructor; [apply sfeq_unknown_variant|apply (IHr _ _ Hr Hr')].
  Qed.

  Lemma without_data_pointwise : forall vs vs', length vs = length vs' ->
    (forall i, get_variant vs i = None <-> get_variant vs' i = None) ->
    (forall i nm t nm' t', get_variant vs i = Some (nm, t) -> get_variant vs' i = Some (nm', t') -> is_null_variant t = is_null_variant t') ->
    forallb (fun v : option (bytes * Tracer) => match v with Some (_, vt) => is_null_variant vt | None => false end) vs =
    forallb (fun v : option (bytes * Tracer) => match v with Some (_, vt) => is_null_variant vt | None => false end) vs'.
  Proof.
    induction vs as [|v r IH]; intros vs' Hlen Hnone Hnv; destruct vs' as [|v' r']; try discriminate Hlen; [reflexivity|].
    cbn [forallb]. pose proof (Hnone 0) as Hn0. cbn [get_variant] in Hn0.
    rewrite (IH r'); [|cbn [length] in Hlen; lia|intros i; apply (Hnone (S i))|intros i; apply (Hnv (S i))].
    destruct v as [[nm t]|], v' as [[nm' t']|].
    - rewrite (Hnv 0 nm t nm' t' eq_refl eq_refl). reflexivity.
    - destruct Hn0 as [_ Hx]. specialize (Hx eq_refl). discriminate.
    - destruct Hn0 as [Hx _]. specialize (Hx eq_refl). discriminate.
    - reflexivity.
  Qed.

  Theorem to_field_teq : forall t t', teq t t' -> forall name path path' f f',
    to_field o [] name path t = Ok f -> to_field o [] name path' t' = Ok f' -> sfeq f f'.
  Proof.
    induction 1 as [n|n p|n i i' Hi IH|n s s' fs fs' Hnone Hsome IH|n s s' fs fs' Hnone Hsome IH|n kt kt' vt vt' Hk IHk Hv IHv|n fs fs' Hlen Hpt IH|n vs vs' Hlen Hnone Hnm Hpt IH]; intros name path path' f f' H1 H2.
    - cbn [to_field get_overwrite find option_map] in H1, H2. destruct (o_allow_null o); [|discriminate]. injection H1 as <-. injection H2 as <-. repeat constructor.
    - cbn [to_field get_overwrite find option_map] in H1, H2. destruct p; try (injection H1 as <-; injection H2 as <-; repeat constructor).
      + destruct (o_allow_null o); [|discriminate]. injection H1 as <-. injection H2 as <-. repeat constructor.
      + destruct (o_dict o); injection H1 as <-; injection H2 as <-; repeat constructor.
    - cbn [to_field get_overwrite find option_map] in H1, H2. apply bind_ok in H1 as (x & Hx & H1). apply bind_ok in H2 as (y & Hy & H2).
      injection H1 as <-. injection H2 as <-. constructor. constructor. apply (IH _ _ _ x y Hx Hy).
    - rewrite to_field_struct' in H1, H2. apply bind_ok in H1 as (l & Hl & H1). apply bind_ok in H2 as (l' & Hl' & H2).
      injection H1 as <-. injection H2 as <-. constructor. constructor.
      + intros k. pose proof (tf_struct_sget path fs l k Hl) as A. pose proof (tf_struct_sget path' fs' l' k Hl') as B. specialize (Hnone k).
        destruct (fget2 k fs) as [[t1 l1]|], (fget2 k fs') as [[t2 l2]|].
        * destruct A as (fa & -> & _). destruct B as (fb & -> & _). split; discriminate.
        * destruct Hnone as [_ Hx]. specialize (Hx eq_refl). discriminate.
        * destruct Hnone as [Hx _]. specialize (Hx eq_refl). discriminate.
        * rewrite A, B. tauto.
      + intros k fa fb Ga Gb. pose proof (tf_struct_sget path fs l k Hl) as A. pose proof (tf_struct_sget path' fs' l' k Hl') as B.
        destruct (fget2 k fs) as [[t1 l1]|] eqn:E1; [|rewrite A in Ga; discriminate].
        destruct (fget2 k fs') as [[t2 l2]|] eqn:E2; [|rewrite B in Gb; discriminate].
        destruct A as (fa' & Ea & Ta). destruct B as (fb' & Eb & Tb). rewrite Ea in Ga. rewrite Eb in Gb. injection Ga as <-. injection Gb as <-.
        apply (IH k t1 l1 t2 l2 E1 E2 _ _ _ _ _ Ta Tb).
    - rewrite to_field_mstruct in H1, H2. apply bind_ok in H1 as (l & Hl & H1). apply bind_ok in H2 as (l' & Hl' & H2).
      injection H1 as <-. injection H2 as <-. constructor. constructor.
      + intros k. rewrite !sget_sort. pose proof (tf_struct_sget path fs l k Hl) as A. pose proof (tf_struct_sget path' fs' l' k Hl') as B. specialize (Hnone k).
        destruct (fget2 k fs) as [[t1 l1]|], (fget2 k fs') as [[t2 l2]|].
        * destruct A as (fa & -> & _). destruct B as (fb & -> & _). split; discriminate.
        * destruct Hnone as [_ Hx]. specialize (Hx eq_refl). discriminate.
        * destruct Hnone as [Hx _]. specialize (Hx eq_refl). discriminate.
        * rewrite A, B. tauto.
      + intros k fa fb Ga Gb. rewrite sget_sort in Ga, Gb. pose proof (tf_struct_sget path fs l k Hl) as A. pose proof (tf_struct_sget path' fs' l' k Hl') as B.
        destruct (fget2 k fs) as [[t1 l1]|] eqn:E1; [|rewrite A in Ga; discriminate].
        destruct (fget2 k fs') as [[t2 l2]|] eqn:E2; [|rewrite B in Gb; discriminate].
        destruct A as (fa' & Ea & Ta). destruct B as (fb' & Eb & Tb). rewrite Ea in Ga. rewrite Eb in Gb. injection Ga as <-. injection Gb as <-.
        apply (IH k t1 l1 t2 l2 E1 E2 _ _ _ _ _ Ta Tb).
    - cbn [to_field get_overwrite find option_map] in H1, H2. apply bind_ok in H1 as (x & Hx & H1). apply bind_ok in H1 as (y & Hy & H1).
      apply bind_ok in H2 as (x' & Hx' & H2). apply bind_ok in H2 as (y' & Hy' & H2). injection H1 as <-. injection H2 as <-.
      constructor. constructor; [apply (IHk _ _ _ x x' Hx Hx')|apply (IHv _ _ _ y y' Hy Hy')].
    - rewrite to_field_tuple in H1, H2. apply bind_ok in H1 as (l & Hl & H1). apply bind_ok in H2 as (l' & Hl' & H2).
      injection H1 as <-. injection H2 as <-. constructor. apply sdeq_positional.
      apply (tf_tuple_pointwise fs fs' 0%N path path' l l' Hlen); [|exact Hl|exact Hl']. intros k nm p p' g g' G G'. apply (IH k nm p p' g g' G G').
    - rewrite to_field_union in H1, H2. cbn zeta in H1, H2.
      rewrite <- (without_data_pointwise vs vs' Hlen Hnone (fun i nm t nm' t' G G' => teq_null_variant t t' (Hpt i nm t nm' t' G G'))) in H2.
      rewrite <- Hlen in H2.
      destruct (forallb _ vs && o_enums_str o); [injection H1 as <-; injection H2 as <-; repeat constructor|].
      destruct (forallb _ vs && negb (o_allow_null o)); [discriminate|]. destruct (Nat.ltb 128 (length vs)); [discriminate|].
      apply bind_ok in H1 as (l & Hl & H1). apply bind_ok in H2 as (l' & Hl' & H2). injection H1 as <-. injection H2 as <-.
      constructor. apply sdeq_union. apply (tf_union_pointwise vs vs' path path' l l' Hlen Hnone Hnm); [|exact Hl|exact Hl'].
      intros i nm t nm' t' G G' nm0 p p' g g' Hg Hg'. apply (IH i nm t nm' t' G G' nm0 p p' g g' Hg Hg').
  Qed.

  (* from_samples on nested data: the same samples in any order give the same schema up to the order of struct fields *)
  Theorem from_samples_order_independent n vs vs' fs1 fs2 :
    Hom o n vs -> Permutation vs vs' ->
    from_samples o [] vs = Ok fs1 -> from_samples o [] vs' = Ok fs2 -> sdeq (SStruct fs1) (SStruct fs2).
  Proof.
    intros Hh Hp H1 H2. unfold from_samples in H1, H2. apply bind_ok in H1 as (r1 & T1 & H1). apply bind_ok in H2 as (r2 & T2 & H2).
    unfold check_overwrites in H1, H2. cbn [forallb] in H1, H2. unfold to_schema in H1, H2.
    apply bind_ok in H1 as (f1 & F1 & H1). apply bind_ok in H2 as (f2 & F2 & H2).
    pose proof (nested_order_independent o n 0 vs vs' r1 r2 Hh Hp T1 T2) as Hteq.
    pose proof (to_field_teq r1 r2 Hteq _ _ _ f1 f2 F1 F2) as Hs.
    destruct Hs as [name dt dt' nl st Hd]. cbn [sf_nullable sf_dt] in H1, H2. destruct nl; [discriminate|].
    destruct Hd; try discriminate; injection H1 as <-; injection H2 as <-; first [apply sdeq_struct; assumption|apply sdeq_positional; assumption].
  Qed.
End Lift.
