(* finite sweep: completeness of the closed form without allow_to_string, coerce_numbers = false *)
From Verif Require Import Coerce.
Lemma complete_ok_false : forall lg, all_checks (complete_check false lg) = true.
Proof. intros [|]; vm_compute; reflexivity. Qed.
