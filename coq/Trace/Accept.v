(* C06 at a leaf position: the primitive type the tracer joins to is wide enough for every sample
   that reached the position. Presentations (how a scalar arrives) refine kinds: a char is traced
   as UInt32 but is a different serde call. *)
From Verif Require Export Coerce.
Local Open Scope N_scope.

Definition npres : nat := 18.
(* 0 bool, 1-8 i8..u64, 9 f32, 10 f64, 11 char, 12 plain string, 13 datetime-like, 14 utc-datetime-like,
   15 time-like, 16 date-like, 17 bytes *)
Definition kind_of_pres (pr : nat) : nat :=
  match pr with
  | 11 => 7 | 12 => 11 | 13 => 12 | 14 => 13 | 15 => 14 | 16 => 15 | 17 => 16
  | n => n
  end%nat.

(* which serde calls the builder of a traced primitive type accepts (serialization/*_builder.rs:
   the overridden serialize_* methods; the Dictionary builder of string_dictionary_encoding
   accepts what the plain string builders accept) *)
Definition builder_accepts (p : PT) (pr : nat) : bool :=
  let is_strlike := Nat.leb 12 pr && Nat.leb pr 16 in
  let is_intlike := Nat.leb 1 pr && Nat.leb pr 8 in
  match p with
  | PNull => false
  | PBool => Nat.eqb pr 0
  | PI _ => Nat.eqb pr 0 || is_intlike || Nat.eqb pr 11
  | PFloat32 | PFloat64 => is_intlike || Nat.eqb pr 9 || Nat.eqb pr 10 || Nat.eqb pr 11
  | PStr _ => Nat.leb pr 16
  | PTs _ | PTime64Ns | PDate32T => is_strlike
  | PLargeBinary => Nat.eqb pr 17
  end.

Definition accept_check (cn ts lg : bool) (s : N) (pr : nat) : bool :=
  if N.testbit s (N.of_nat (kind_of_pres pr)) then
    match F cn ts lg s with Some p => builder_accepts p pr | None => true end
  else true.

Definition all_accept_checks (cn ts lg : bool) : bool :=
  forallb (fun s => forallb (accept_check cn ts lg s) (seq 0 npres)) (all_sets nkinds).

