(* C08: tracing from samples that cover a type gives the fully explored tracer of the type - the one from_type converges to - up to
   the sample counters, hence the same schema (= the documented one).  From the projection theorems and their converses. *)
From Verif Require Import Tracer Coerce Coerce_proofs Builder_proofs Null_proofs Struct_proofs Project_proofs FlatRecords_proofs Shapes_proofs Nested_order Nested_repeat FromType FromType_proofs.
From Coq Require Import Permutation.
Require Import Lia.
Local Open Scope nat_scope.

(* ---- induction over tracers ---- *)
Section TracerInd.
  Variable P : Tracer -> Prop.
  Hypothesis HU : forall n, P (TUnknown n).
  Hypothesis HP : forall n p, P (TPrim n p).
  Hypothesis HL : forall n i, P i -> P (TList n i).
  Hypothesis HM : forall n k v, P k -> P v -> P (TMap n k v).
  Hypothesis HS : forall n m s fs, Forall (fun f : bytes * Tracer * nat => P (snd (fst f))) fs -> P (TStruct n m s fs).
  Hypothesis HT : forall n F, Forall P F -> P (TTuple n F).
  Hypothesis HN : forall n V, Forall (fun x : option (bytes * Tracer) => match x with Some (_, t) => P t | None => True end) V -> P (TUnion n V).
  Fixpoint Tracer_ind' (t : Tracer) : P t :=
    match t with
    | TUnknown n => HU n
    | TPrim n p => HP n p
    | TList n i => HL n i (Tracer_ind' i)
    | TMap n k v => HM n k v (Tracer_ind' k) (Tracer_ind' v)
    | TStruct n m s fs =>
      HS n m s fs ((fix go (l : list (bytes * Tracer * nat)) : Forall (fun f : bytes * Tracer * nat => P (snd (fst f))) l :=
                      match l with [] => Forall_nil _ | (nm, ft, ls) :: r => Forall_cons (nm, ft, ls) (Tracer_ind' ft) (go r) end) fs)
    | TTuple n F => HT n F ((fix go (l : list Tracer) : Forall P l := match l with [] => Forall_nil _ | x :: r => Forall_cons x (Tracer_ind' x) (go r) end) F)
    | TUnion n V =>
      HN n V ((fix go (l : list (option (bytes * Tracer))) : Forall (fun x : option (bytes * Tracer) => match x with Some (_, t) => P t | None => True end) l :=
                 match l with
                 | [] => Forall_nil _
                 | Some (nm, vt) :: r => Forall_cons (Some (nm, vt)) (Tracer_ind' vt) (go r)
                 | None :: r => Forall_cons None I (go r)
                 end) V)
    end.
End TracerInd.

(* ---- forgetting the sample counters ---- *)
Fixpoint norm (t : Tracer) : Tracer :=
  match t with
  | TList n i => TList n (norm i)
  | TMap n k v => TMap n (norm k) (norm v)
  | TStruct n m _ fs => TStruct n m 0 (map (fun f : bytes * Tracer * nat => let '(nm, ft, _) := f in (nm, norm ft, 0)) fs)
  | TTuple n F => TTuple n (map norm F)
  | TUnion n V => TUnion n (map (fun x : option (bytes * Tracer) => match x with Some (nm, vt) => Some (nm, norm vt) | None => None end) V)
  | _ => t
  end.

Section ToFieldNorm.
  Variable o : Opts.
  Lemma to_field_mstruct_any name path n m s trs :
    to_field o [] name path (TStruct n m s trs) =
    do fs <- tf_struct o path trs ;; if m then Ok (mkSF name (SStruct (sort_fields fs)) n (Some SMapAsStruct)) else Ok (mkSF name (SStruct fs) n None).
  Proof. reflexivity. Qed.

  (* the schema does not see the counters *)
  Lemma to_field_norm : forall t name path, to_field o [] name path (norm t) = to_field o [] name path t.
  Proof.
    induction t as [n|n p|n i IH|n k v IHk IHv|n m s fs IH|n F IH|n V IH] using Tracer_ind'; intros name path; try reflexivity.
    - cbn [norm to_field get_overwrite find option_map]. rewrite IH. reflexivity.
    - cbn [norm to_field get_overwrite find option_map]. rewrite IHk, IHv. reflexivity.
    - cbn [norm]. rewrite !to_field_mstruct_any. f_equal. induction IH as [|[[nm ft] ls] r Hf _ IHr]; [reflexivity|].
      cbn [map tf_struct]. fold (tf_struct o path). cbn [fst snd] in Hf. rewrite Hf, IHr. reflexivity.
    - cbn [norm]. rewrite !to_field_tuple. f_equal. generalize 0%N. induction IH as [|x r Hx _ IHr]; intros i; [reflexivity|].
      cbn [map tf_tuple]. fold (tf_tuple o path). rewrite Hx, IHr. reflexivity.
    - cbn [norm]. rewrite !to_field_union. cbn zeta.
      assert (E2 : tf_union o path (map (fun x : option (bytes * Tracer) => match x with Some (nm, vt) => Some (nm, norm vt) | None => None end) V) = tf_union o path V).
      { induction IH as [|[[nm vt]|] r Hx _ IHr]; [reflexivity| |]; cbn [map tf_union]; fold (tf_union o path); rewrite ?Hx, IHr; reflexivity. }
      assert (E1 : forallb (fun v : option (bytes * Tracer) => match v with Some (_, vt) => is_null_variant vt | None => false end)
                     (map (fun x : option (bytes * Tracer) => match x with Some (nm, vt) => Some (nm, norm vt) | None => None end) V) =
                   forallb (fun v : option (bytes * Tracer) => match v with Some (_, vt) => is_null_variant vt | None => false end) V).
      { clear IH E2. induction V as [|[[nm vt]|] r IHr]; [reflexivity| |]; cbn [map forallb]; rewrite IHr; [destruct vt; reflexivity|reflexivity]. }
      rewrite E1, map_length.
      rewrite E2. reflexivity.
  Qed.
End ToFieldNorm.

(* ---- collections of samples that cover a type ---- *)
Definition somes (vs : list Value) : list Value := flat_map (fun v => match v with VSome w => [w] | _ => [] end) vs.
Definition optlike (v : Value) : Prop := v = VNone \/ exists w, v = VSome w.

Section Cover.
  Variable o : Opts.
  Hypothesis Hgd : o_guess_dates o = false.

  (* `Cov ty vs`: vs are values of the type described by ty, as its (derived or std) Serialize impl presents them, and together
     they exercise every variant, Some, and a non-empty collection at every position *)
  Fixpoint Cov (ty : Ty) (vs : list Value) {struct ty} : Prop :=
    let tuple_c (ts : list Ty) (ls : list (list Value)) : Prop :=
        ls <> [] /\ Forall (fun l => length l = length ts) ls /\
        (fix go (i : nat) (ts : list Ty) : Prop := match ts with [] => True | t :: r => Cov t (col i ls) /\ go (S i) r end) 0 ts in
    let struct_c (fs : list (bytes * Ty)) (SS : list (list (bytes * Value))) : Prop :=
        SS <> [] /\ NoDup (map fst fs) /\ Forall (fun fa => map fst fa = map fst fs) SS /\
        (fix go (fs : list (bytes * Ty)) : Prop := match fs with [] => True | (nm, t) :: r => Cov t (vals nm SS) /\ go r end) fs in
    match ty with
    | TyUnit => vs <> [] /\ Forall (fun v => v = VUnit \/ v = VUnitStruct) vs
    | TyBool => vs <> [] /\ Forall (fun v => exists x, v = VBool x) vs
    | TyInt k => vs <> [] /\ Forall (fun v => exists z, v = VInt k z) vs
    | TyF32 => vs <> [] /\ Forall (fun v => exists x, v = VF32 x) vs
    | TyF64 => vs <> [] /\ Forall (fun v => exists x, v = VF64 x) vs
    | TyChar => vs <> [] /\ Forall (fun v => exists x, v = VChar x) vs
    | TyString => vs <> [] /\ Forall (fun v => exists x, v = VStr x) vs
    | TyBytes => vs <> [] /\ Forall (fun v => exists x, v = VBytes x) vs
    | TyOption x => Forall optlike vs /\ Cov x (somes vs)
    | TyNewtype x => exists ws, vs = map VNewtypeStruct ws /\ Cov x ws
    | TySeq x => exists ls, vs = map VSeq ls /\ Cov x (concat ls)
    | TyTuple ts => exists ls, vs = map VTuple ls /\ tuple_c ts ls
    | TyMap k v => exists kvss, vs = map VMap kvss /\ Cov k (mkeys kvss) /\ Cov v (mvals kvss)
    | TyStruct fs => exists SS, vs = map VStruct SS /\ struct_c fs SS
    | TyEnum vars =>
      vs <> [] /\ Forall (fun v => vpl v <> None) vs /\
      Forall (fun w : Z * bytes * Value => (0 <= fst (fst w) < Z.of_nat (length vars))%Z) (pls vs) /\
      (fix go (i : nat) (vars : list (bytes * Payload)) : Prop :=
         match vars with
         | [] => True
         | (nm, p) :: r =>
           let pay := map snd (wsel i (pls vs)) in
           Forall (fun e : bytes * Value => fst e = nm) (wsel i (pls vs)) /\
           match p with
           | PUnit => pay <> [] /\ Forall (fun v => v = VUnit \/ v = VUnitStruct) pay
           | PNewtype x => Cov x pay
           | PTuple ts => exists ls, pay = map VTuple ls /\ tuple_c ts ls
           | PStruct fs => exists SS, pay = map VStruct SS /\ struct_c fs SS
           end /\ go (S i) r
         end) 0 vars
    end.

  Lemma cov_payload p pay :
    match p with
    | PUnit => pay <> [] /\ Forall (fun v => v = VUnit \/ v = VUnitStruct) pay
    | PNewtype x => Cov x pay
    | PTuple ts => exists ls, pay = map VTuple ls /\
        (ls <> [] /\ Forall (fun l => length l = length ts) ls /\
         (fix go (i : nat) (ts : list Ty) : Prop := match ts with [] => True | t :: r => Cov t (col i ls) /\ go (S i) r end) 0 ts)
    | PStruct fs => exists SS, pay = map VStruct SS /\
        (SS <> [] /\ NoDup (map fst fs) /\ Forall (fun fa => map fst fa = map fst fs) SS /\
         (fix go (fs : list (bytes * Ty)) : Prop := match fs with [] => True | (nm, t) :: r => Cov t (vals nm SS) /\ go r end) fs)
    end <-> Cov (ty_of_payload p) pay.
  Proof. destruct p; cbn [ty_of_payload Cov]; reflexivity. Qed.

  (* the positional / by-name clauses *)
  Lemma cov_positions ls : forall ts i,
    (fix go (i : nat) (ts : list Ty) : Prop := match ts with [] => True | t :: r => Cov t (col i ls) /\ go (S i) r end) i ts <->
    forall j t, nth_error ts j = Some t -> Cov t (col (i + j) ls).
  Proof.
    induction ts as [|t r IH]; intros i; split; intros H.
    - intros j t0 Hj. destruct j; discriminate.
    - exact I.
    - destruct H as [H1 H2]. intros j t0 Hj. destruct j as [|j]; cbn [nth_error] in Hj; [injection Hj as <-; rewrite Nat.add_0_r; exact H1|].
      replace (i + S j) with (S i + j) by lia. apply (proj1 (IH (S i)) H2 j t0 Hj).
    - split; [specialize (H 0 t eq_refl); rewrite Nat.add_0_r in H; exact H|]. apply IH. intros j t0 Hj. replace (S i + j) with (i + S j) by lia. apply (H (S j) t0 Hj).
  Qed.
  Lemma cov_fields SS : forall fs,
    (fix go (fs : list (bytes * Ty)) : Prop := match fs with [] => True | (nm, t) :: r => Cov t (vals nm SS) /\ go r end) fs <->
    forall nm t, In (nm, t) fs -> Cov t (vals nm SS).
  Proof.
    induction fs as [|[nm t] r IH]; split; intros H.
    - intros nm0 t0 [].
    - exact I.
    - destruct H as [H1 H2]. intros nm0 t0 [E|Hin]; [injection E as <- <-; exact H1|apply (proj1 IH H2 nm0 t0 Hin)].
    - split; [apply (H nm t (or_introl eq_refl))|apply IH; intros nm0 t0 Hin; apply (H nm0 t0 (or_intror Hin))].
  Qed.

  (* a covering collection is not empty *)
  Lemma somes_nil vs : somes vs <> [] -> vs <> [].
  Proof. intros H ->. apply H. reflexivity. Qed.
  Lemma cov_nonempty : forall ty vs0, Cov ty vs0 -> vs0 <> [].
  Proof.
    induction ty using Ty_ind'; intros vs0 Hc; cbn [Cov] in Hc; try (destruct Hc as [Hne _]; exact Hne).
    - destruct Hc as [_ Hc]. apply somes_nil, (IHty _ Hc).
    - destruct Hc as (ls & -> & Hc). pose proof (IHty _ Hc) as Hne. intros E. apply map_eq_nil in E. subst ls. apply Hne. reflexivity.
    - destruct Hc as (ls & -> & Hne & _). intros E. apply map_eq_nil in E. contradiction.
    - destruct Hc as (kvss & -> & Hk & _). pose proof (IHty1 _ Hk) as Hne. intros E. apply map_eq_nil in E. subst kvss. apply Hne. reflexivity.
    - destruct Hc as (SS & -> & Hne & _). intros E. apply map_eq_nil in E. contradiction.
    - destruct Hc as (ws & -> & Hc). pose proof (IHty _ Hc) as Hne. intros E. apply map_eq_nil in E. subst ws. apply Hne. reflexivity.
  Qed.
  (* ---- leaves ---- *)
  Lemma prim_collection d pt : pt_eqb pt PNull = false -> forall vs, vs <> [] ->
    Forall (fun v => forall t, trace o d v t = ensure_prim o pt t) vs -> trace_seq' o d vs (Ok (TUnknown false)) = Ok (TPrim false pt).
  Proof.
    intros Hpt vs Hne HF. destruct vs as [|v r]; [congruence|]. rewrite ts_cons, (Forall_inv HF). cbn [ensure_prim]. rewrite Hpt. cbn [orb].
    pose proof (Forall_inv_tail HF) as HF'. clear HF Hne. induction r as [|w r IH]; [reflexivity|].
    rewrite ts_cons, (Forall_inv HF'). cbn [ensure_prim]. unfold coerce, coerce_core. rewrite pt_eqb_refl. apply IH, (Forall_inv_tail HF').
  Qed.
  Lemma unit_collection d : forall vs, vs <> [] -> Forall (fun v => v = VUnit \/ v = VUnitStruct) vs ->
    trace_seq' o d vs (Ok (TUnknown false)) = Ok (TPrim true PNull).
  Proof.
    intros vs Hne HF. assert (Hstep : forall v, v = VUnit \/ v = VUnitStruct -> forall t, trace o d v t = ensure_prim o PNull t) by (intros v [-> | ->] t; reflexivity).
    destruct vs as [|v r]; [congruence|]. rewrite ts_cons, (Hstep v (Forall_inv HF)). cbn [ensure_prim pt_eqb orb].
    pose proof (Forall_inv_tail HF) as HF'. clear HF Hne. induction r as [|w r IH]; [reflexivity|].
    rewrite ts_cons, (Hstep w (Forall_inv HF')). cbn [ensure_prim]. unfold coerce, coerce_core. cbn [pt_eqb]. apply IH, (Forall_inv_tail HF').
  Qed.

  (* ---- Option: the Some payloads, marked ---- *)
  Lemma opt_collection d : forall vs, vs <> [] -> Forall optlike vs -> forall t,
    trace_seq' o d vs (Ok t) = omark (trace_seq' o d (somes vs) (Ok t)).
  Proof.
    induction vs as [|v r IH]; intros Hne HF t; [congruence|]. rewrite ts_cons. unfold somes. cbn [flat_map]. fold (somes r).
    pose proof (Forall_inv_tail HF) as HF'. destruct (Forall_inv HF) as [->|(w & ->)].
    - cbn [trace app]. destruct r as [|v2 r2]; [reflexivity|]. rewrite (IH ltac:(discriminate) HF'), fold_mark, omark_idem. reflexivity.
    - cbn [trace app]. rewrite trace_mark, ts_cons. destruct (trace o d w t) as [t1| |p]; cbn [omark].
      + destruct r as [|v2 r2]; [reflexivity|]. rewrite (IH ltac:(discriminate) HF'), fold_mark, omark_idem. reflexivity.
      + rewrite !fold_err. reflexivity.
      + rewrite !fold_panic. reflexivity.
  Qed.
  Lemma newtypes_collection d : forall ws r, trace_seq' o d (map VNewtypeStruct ws) r = trace_seq' o d ws r.
  Proof.
    induction ws as [|w rest IH]; intros r; [reflexivity|].
    change (trace_seq' o d (map VNewtypeStruct rest) (do t <- r ;; trace o d (VNewtypeStruct w) t) = trace_seq' o d rest (do t <- r ;; trace o d w t)).
    rewrite IH. reflexivity.
  Qed.

  Lemma norm_mark t : norm (mark_nullable t) = mark_nullable (norm t).
  Proof. destruct t; reflexivity. Qed.
  Lemma full_true : forall ty, full o true ty = mark_nullable (full o false ty).
  Proof.
    induction ty using Ty_ind'; try reflexivity.
    - cbn [FromType_proofs.full]. rewrite IHty, mark_idem. reflexivity.
    - cbn [FromType_proofs.full]. exact IHty.
  Qed.

  (* lists determined by their length and positions *)
  Lemma nth_tracer_ext : forall a c, length a = length c -> (forall i, i < length a -> nth_tracer a i = nth_tracer c i) -> a = c.
  Proof.
    induction a as [|x r IH]; intros [|y r'] Hl H; try discriminate Hl; [reflexivity|]. f_equal; [apply (H 0); cbn; lia|].
    apply IH; [cbn in Hl; lia|]. intros i Hi. apply (H (S i)). cbn. lia.
  Qed.
  Lemma nth_tracer_map_norm F i : nth_tracer (map norm F) i = norm (nth_tracer F i).
  Proof. revert i. induction F as [|x r IH]; intros i; [destruct i; reflexivity|]. destruct i; cbn [map nth_tracer]; [reflexivity|apply IH]. Qed.
  Lemma nth_tracer_map_full ts i t : nth_error ts i = Some t -> nth_tracer (map (fun t => full o false t) ts) i = full o false t.
  Proof. revert i. induction ts as [|x r IH]; intros i H; [destruct i; discriminate|]. destruct i; cbn [nth_error map nth_tracer] in *; [injection H as ->; reflexivity|apply IH, H]. Qed.

  Lemma maxlen_same ls n : ls <> [] -> Forall (fun l : list Value => length l = n) ls -> maxlen ls = n.
  Proof.
    induction ls as [|l r IH]; intros Hne HF; [congruence|]. unfold maxlen. cbn [map fold_right]. fold (maxlen r). rewrite (Forall_inv HF).
    destruct r as [|l2 r2]; [unfold maxlen; cbn; lia|]. rewrite (IH ltac:(discriminate) (Forall_inv_tail HF)). lia.
  Qed.
  Lemma tflag_same ls n i : Forall (fun l : list Value => length l = n) ls -> tflag i ls = false.
  Proof.
    intros HF. unfold tflag. destruct (Nat.ltb_spec i (maxlen ls)) as [Hi|]; [|reflexivity]. cbn [andb]. unfold tmiss.
    destruct (existsb (fun l => length l <=? i) ls) eqn:E; [|reflexivity]. apply existsb_exists in E as (l & Hin & Hle). apply Nat.leb_le in Hle.
    rewrite Forall_forall in HF. pose proof (HF l Hin) as Hl.
    assert (maxlen ls <= n). { clear -HF. unfold maxlen. induction ls as [|x r IH]; cbn [map fold_right]; [lia|]. rewrite (HF x (or_introl eq_refl)).
      assert (fold_right Nat.max 0 (map (@length Value) r) <= n) by (apply IH; intros y Hy; apply HF; right; exact Hy). lia. }
    lia.
  Qed.

  (* names *)
  Lemma add_names_same K : NoDup K -> add_names [] K = K /\ add_names K K = K.
  Proof.
    intros Hnd. assert (G : forall pre post, NoDup (pre ++ post) -> add_names pre post = pre ++ post).
    { intros pre post. revert pre. induction post as [|k r IH]; intros pre Hn; [rewrite app_nil_r; reflexivity|]. unfold add_names. cbn [fold_left]. fold (add_names (add_name pre k) r).
      assert (Hk : existsb (bytes_eqb k) pre = false).
      { destruct (existsb (bytes_eqb k) pre) eqn:E; [|reflexivity]. apply existsb_exists in E as (x & Hx & Ex). apply bytes_eqb_eq in Ex. subst x.
        exfalso. apply NoDup_remove_2 in Hn. apply Hn. apply in_or_app. left. exact Hx. }
      unfold add_name. rewrite Hk. rewrite (IH (pre ++ [k])); rewrite <- app_assoc; [reflexivity|exact Hn]. }
    split; [apply (G [] K Hnd)|].
    assert (G2 : forall ks acc, (forall k, In k ks -> In k acc) -> add_names acc ks = acc).
    { induction ks as [|k r IH]; intros acc Hin; [reflexivity|]. unfold add_names. cbn [fold_left]. fold (add_names (add_name acc k) r).
      assert (Hk : existsb (bytes_eqb k) acc = true) by (apply existsb_exists; exists k; split; [apply Hin; left; reflexivity|apply bytes_eqb_refl]).
      unfold add_name. rewrite Hk. apply IH. intros k0 H0. apply Hin. right. exact H0. }
    apply G2. auto.
  Qed.
  Definition Agrees (ty : Ty) : Prop := forall d vs0, ok o d ty = true -> Cov ty vs0 ->
    exists t, trace_seq' o d vs0 (Ok (TUnknown false)) = Ok t /\ norm t = norm (full o false ty).

  Lemma ltb_depth d : Nat.ltb d max_depth = true -> Nat.leb max_depth d = false.
  Proof. intros H. apply Nat.ltb_lt in H. apply Nat.leb_gt. exact H. Qed.

  Lemma agrees_tuple ts : Forall Agrees ts -> Agrees (TyTuple ts).
  Proof.
    intros HF d vs0 Hok Hc. cbn [FromType_proofs.ok] in Hok. apply andb_true_iff in Hok as [Hd Hok]. rewrite forallb_forall in Hok.
    cbn [Cov] in Hc. destruct Hc as (ls & -> & Hne & Hlen & Hpos0). pose proof (proj1 (cov_positions ls ts 0) Hpos0) as Hpos. cbn [Nat.add] in Hpos.
    assert (Hchild : forall i t, nth_error ts i = Some t -> exists T, trace_seq' o (S d) (col i ls) (Ok (TUnknown false)) = Ok T /\ norm T = norm (full o false t)).
    { intros i t Hi. rewrite Forall_forall in HF. apply (HF t (nth_error_In _ _ Hi) (S d) _ (Hok t (nth_error_In _ _ Hi))). apply (Hpos i t Hi). }
    assert (Hall : forall i, exists T, trace_seq' o (S d) (col i ls) (Ok (TUnknown false)) = Ok T).
    { intros i. destruct (nth_error ts i) as [t|] eqn:Ei; [destruct (Hchild i t Ei) as (T & R & _); eauto|].
      rewrite (col_beyond i ls); [eexists; reflexivity|]. rewrite (maxlen_same ls (length ts) Hne Hlen). apply nth_error_None, Ei. }
    destruct (tuple_complete o d ls false (ltb_depth d Hd) Hall) as (t & Ht). exists t. split; [exact Ht|].
    destruct (tuple_projection o d ls false t Hne Ht) as (F & -> & HlenF & Hcol). cbn [norm FromType_proofs.full]. f_equal.
    rewrite (maxlen_same ls (length ts) Hne Hlen) in HlenF.
    apply nth_tracer_ext; [rewrite !map_length; exact HlenF|]. rewrite map_length. intros i Hi. rewrite HlenF in Hi.
    destruct (nth_error ts i) as [ti|] eqn:Ei; [|apply nth_error_None in Ei; lia].
    rewrite !nth_tracer_map_norm, (nth_tracer_map_full ts i ti Ei). destruct (Hcol i) as (T & R & ->). rewrite (tflag_same ls (length ts) i Hlen). cbn [mk].
    destruct (Hchild i ti Ei) as (T' & R' & HT'). rewrite R in R'. injection R' as <-. exact HT'.
  Qed.

  Lemma agrees_leaf pt (ctor : Value -> Prop) : pt_eqb pt PNull = false ->
    (forall v, ctor v -> forall d t, trace o d v t = ensure_prim o pt t) ->
    forall d vs0, vs0 <> [] -> Forall ctor vs0 -> exists t, trace_seq' o d vs0 (Ok (TUnknown false)) = Ok t /\ norm t = TPrim false pt.
  Proof.
    intros Hpt Hstep d vs0 Hne HF. exists (TPrim false pt). split; [|reflexivity]. apply (prim_collection d pt Hpt vs0 Hne).
    eapply Forall_impl; [|exact HF]. intros v Hv t. apply (Hstep v Hv).
  Qed.

  Lemma str_plain s : str_type o s = PStr (o_large_utf8 o).
  Proof. unfold str_type. rewrite Hgd. reflexivity. Qed.

  (* ---- records ---- *)
  Lemma flookup_some_in k fa : In k (map fst fa) -> exists x, flookup k fa = Some x.
  Proof.
    induction fa as [|[key y] r IH]; intros Hin; [contradiction|]. cbn [flookup]. destruct (bytes_eqb key k) eqn:E; [eexists; reflexivity|].
    cbn [map fst] in Hin. destruct Hin as [->|Hin]; [rewrite bytes_eqb_refl in E; discriminate|apply IH, Hin].
  Qed.
  Lemma vals_notin K k SS : Forall (fun fa : list (bytes * Value) => map fst fa = K) SS -> ~ In k K -> vals k SS = [].
  Proof.
    intros HF Hk. unfold vals. induction SS as [|fa r IH]; [reflexivity|]. cbn [flat_map]. rewrite (IH (Forall_inv_tail HF)), app_nil_r.
    rewrite (flookup_none k fa); [reflexivity|]. rewrite (Forall_inv HF). exact Hk.
  Qed.
  Lemma missing_false K k SS : Forall (fun fa : list (bytes * Value) => map fst fa = K) SS -> In k K -> missing k SS = false.
  Proof.
    intros HF Hk. unfold missing. induction SS as [|fa r IH]; [reflexivity|]. cbn [existsb]. rewrite (IH (Forall_inv_tail HF)), Bool.orb_false_r.
    destruct (flookup_some_in k fa ltac:(rewrite (Forall_inv HF); exact Hk)) as (x & ->). reflexivity.
  Qed.
  Lemma names_fold K : NoDup K -> forall SS acc, (acc = [] \/ acc = K) -> SS <> [] -> Forall (fun fa : list (bytes * Value) => map fst fa = K) SS ->
    fold_left (fun acc v => match v with VStruct fa => add_names acc (map fst fa) | _ => acc end) (map VStruct SS) acc = K.
  Proof.
    intros Hnd. destruct (add_names_same K Hnd) as [A1 A2]. induction SS as [|fa r IH]; intros acc Hacc Hne HF; [congruence|].
    cbn [map fold_left]. rewrite (Forall_inv HF).
    assert (E : add_names acc K = K) by (destruct Hacc as [->| ->]; assumption). rewrite E.
    destruct r as [|fa2 r2]; [reflexivity|]. apply (IH K (or_intror eq_refl) ltac:(discriminate) (Forall_inv_tail HF)).
  Qed.

  Lemma fields_eq : forall (l1 : list (bytes * Tracer * nat)) (l2 : list (bytes * Ty)),
    map fname3 l1 = map fst l2 -> NoDup (map fst l2) ->
    (forall nm t, In (nm, t) l2 -> exists tk lk, fget2 nm l1 = Some (tk, lk) /\ norm tk = norm (full o false t)) ->
    map (fun f : bytes * Tracer * nat => let '(nm, ft, _) := f in (nm, norm ft, 0)) l1 =
    map (fun f : bytes * Tracer * nat => let '(nm, ft, _) := f in (nm, norm ft, 0)) (map (fun f : bytes * Ty => let '(nm, t) := f in (nm, full o false t, 0)) l2).
  Proof.
    induction l1 as [|[[n1 t1] s1] r1 IH]; intros [|[n2 ty2] r2] Hn Hnd Hf; try discriminate Hn; [reflexivity|].
    cbn [map fname3 fst] in Hn. injection Hn as -> Hn. cbn [map fst] in Hnd. apply NoDup_cons_iff in Hnd as [Hnotin Hnd]. cbn [map]. f_equal.
    - destruct (Hf n2 ty2 (or_introl eq_refl)) as (tk & lk & Hg & Hq). cbn [fget2] in Hg. rewrite bytes_eqb_refl in Hg. injection Hg as <- _. rewrite Hq. reflexivity.
    - apply (IH r2 Hn Hnd). intros nm t Hin. destruct (Hf nm t (or_intror Hin)) as (tk & lk & Hg & Hq). cbn [fget2] in Hg.
      destruct (bytes_eqb n2 nm) eqn:E; [apply bytes_eqb_eq in E; subst nm; exfalso; apply Hnotin; apply (in_map fst _ _ Hin)|]. exists tk, lk. split; assumption.
  Qed.

  Lemma agrees_struct fs : Forall (fun f : bytes * Ty => Agrees (snd f)) fs -> Agrees (TyStruct fs).
  Proof.
    intros HF d vs0 Hok Hc. cbn [FromType_proofs.ok] in Hok. apply andb_true_iff in Hok as [Hd Hok]. rewrite forallb_forall in Hok.
    cbn [Cov] in Hc. destruct Hc as (SS & -> & Hne & Hnd & Hkeys & Hfs0). pose proof (proj1 (cov_fields SS fs) Hfs0) as Hfs.
    set (K := map fst fs) in *.
    assert (HndS : Forall (fun fa => NoDup (map fst fa)) SS) by (eapply Forall_impl; [|exact Hkeys]; intros fa E; cbn beta in E; rewrite E; exact Hnd).
    assert (Hchild : forall nm t, In (nm, t) fs -> exists T, trace_seq' o (S d + count_dots nm) (vals nm SS) (Ok (TUnknown false)) = Ok T /\ norm T = norm (full o false t)).
    { intros nm t Hin. rewrite Forall_forall in HF. apply (HF (nm, t) Hin (S d + count_dots nm) _ (Hok (nm, t) Hin)). apply (Hfs nm t Hin). }
    assert (Hall : forall k, exists T, trace_seq' o (S d + count_dots k) (vals k SS) (Ok (TUnknown false)) = Ok T).
    { intros k. destruct (in_dec (list_eq_dec N.eq_dec) k K) as [Hin|Hnin].
      - unfold K in Hin. apply in_map_iff in Hin as ([nm t] & <- & Hin). destruct (Hchild nm t Hin) as (T & R & _). eauto.
      - rewrite (vals_notin K k SS Hkeys Hnin). eexists; reflexivity. }
    destruct (record_complete o d SS false (ltb_depth d Hd) HndS Hall) as (t & Ht). exists t. split; [exact Ht|].
    destruct (record_projection o d SS false t Hne HndS Ht) as (fs1 & -> & P1).
    destruct (record_collection_names o d (map VStruct SS) (TUnknown false) _ ltac:(apply Forall_map, Forall_forall; intros fa _; eexists; reflexivity) I
                ltac:(intros E; apply map_eq_nil in E; contradiction) Ht) as (n' & m' & s' & fs' & E & Hnames). injection E as <- <- <- <-.
    rewrite (names_fold K Hnd SS [] (or_introl eq_refl) Hne Hkeys) in Hnames.
    cbn [norm FromType_proofs.full]. f_equal. apply (fields_eq fs1 fs Hnames Hnd).
    intros nm t Hin. specialize (P1 nm). destruct (Hchild nm t Hin) as (T & R & HT).
    destruct (fget2 nm fs1) as [[tk lk]|].
    - destruct P1 as (_ & T' & R' & ->). rewrite R in R'. injection R' as <-.
      rewrite (missing_false K nm SS Hkeys ltac:(unfold K; apply (in_map fst _ _ Hin))). cbn [mk]. exists T, lk. split; [reflexivity|exact HT].
    - exfalso. apply (cov_nonempty t _ (Hfs nm t Hin)). exact P1.
  Qed.
  (* ---- enums ---- *)
  Lemma cov_variants (vs0 : list Value) : forall vars i,
    (fix go (i : nat) (vars : list (bytes * Payload)) : Prop :=
       match vars with
       | [] => True
       | (nm, p) :: r =>
         let pay := map snd (wsel i (pls vs0)) in
         Forall (fun e : bytes * Value => fst e = nm) (wsel i (pls vs0)) /\
         match p with
         | PUnit => pay <> [] /\ Forall (fun v => v = VUnit \/ v = VUnitStruct) pay
         | PNewtype x => Cov x pay
         | PTuple ts => exists ls, pay = map VTuple ls /\
             (ls <> [] /\ Forall (fun l => length l = length ts) ls /\
              (fix go (i : nat) (ts : list Ty) : Prop := match ts with [] => True | t :: r => Cov t (col i ls) /\ go (S i) r end) 0 ts)
         | PStruct fs => exists SS, pay = map VStruct SS /\
             (SS <> [] /\ NoDup (map fst fs) /\ Forall (fun fa => map fst fa = map fst fs) SS /\
              (fix go (fs : list (bytes * Ty)) : Prop := match fs with [] => True | (nm, t) :: r => Cov t (vals nm SS) /\ go r end) fs)
         end /\ go (S i) r
       end) i vars ->
    forall j nm p, nth_error vars j = Some (nm, p) ->
      Forall (fun e : bytes * Value => fst e = nm) (wsel (i + j) (pls vs0)) /\ Cov (ty_of_payload p) (map snd (wsel (i + j) (pls vs0))).
  Proof.
    induction vars as [|[nm0 p0] r IH]; intros i H j nm p Hj; [destruct j; discriminate|].
    destruct H as (Hn & Hp & Hr). destruct j as [|j]; cbn [nth_error] in Hj.
    - injection Hj as <- <-. rewrite Nat.add_0_r. split; [exact Hn|]. apply cov_payload. exact Hp.
    - replace (i + S j) with (S i + j) by lia. apply (IH (S i) Hr j nm p Hj).
  Qed.

  Lemma wsel_range n ws i : Forall (fun w : Z * bytes * Value => (0 <= fst (fst w) < Z.of_nat n)%Z) ws -> n <= i -> wsel i ws = [].
  Proof.
    intros HF Hi. unfold wsel. induction ws as [|[[idx nm] p] r IH]; [reflexivity|]. cbn [flat_map]. rewrite (IH (Forall_inv_tail HF)), app_nil_r.
    pose proof (Forall_inv HF) as Hx. cbn [fst] in Hx. destruct (Z.eqb_spec idx (Z.of_nat i)); [lia|reflexivity].
  Qed.
  Lemma wsel_member i ws nm p : In (nm, p) (wsel i ws) -> In (Z.of_nat i, nm, p) ws.
  Proof.
    unfold wsel. intros H. apply in_flat_map in H as ([[idx nm'] p'] & Hin & H). destruct (Z.eqb_spec idx (Z.of_nat i)) as [->|]; [|contradiction].
    destruct H as [E|[]]. injection E as <- <-. exact Hin.
  Qed.
  Lemma ulen_le n ws : Forall (fun w : Z * bytes * Value => (0 <= fst (fst w) < Z.of_nat n)%Z) ws -> ulen ws <= n.
  Proof.
    intros HF. unfold ulen. induction ws as [|w r IH]; cbn [map fold_right]; [lia|]. pose proof (Forall_inv HF) as Hx. cbn beta in Hx.
    pose proof (IH (Forall_inv_tail HF)). lia.
  Qed.
  Lemma ulen_ge ws idx nm p : In (idx, nm, p) ws -> S (Z.to_nat idx) <= ulen ws.
  Proof.
    unfold ulen. induction ws as [|w r IH]; intros Hin; [contradiction|]. cbn [map fold_right]. destruct Hin as [->|Hin]; [cbn [fst]; lia|]. pose proof (IH Hin). lia.
  Qed.

  Lemma get_variant_ext : forall (a c : list (option (bytes * Tracer))), length a = length c -> (forall i, i < length a -> get_variant a i = get_variant c i) -> a = c.
  Proof.
    induction a as [|x r IH]; intros [|y r'] Hl H; try discriminate Hl; [reflexivity|]. f_equal; [apply (H 0); cbn; lia|].
    apply IH; [cbn in Hl; lia|]. intros i Hi. apply (H (S i)). cbn. lia.
  Qed.
  Definition normopt (x : option (bytes * Tracer)) : option (bytes * Tracer) := match x with Some (nm, vt) => Some (nm, norm vt) | None => None end.
  Lemma get_variant_map f V i : f None = None -> get_variant (map f V) i = f (get_variant V i).
  Proof. intros Hf. revert i. induction V as [|x r IH]; intros i; [destruct i; cbn; symmetry; exact Hf|]. destruct i; cbn [map get_variant]; [reflexivity|apply IH]. Qed.
  Lemma get_variant_full vars i nm p : nth_error vars i = Some (nm, p) ->
    get_variant (map (fun v : bytes * Payload => let '(nm, p) := v in Some (nm, full o false (ty_of_payload p))) vars) i = Some (nm, full o false (ty_of_payload p)).
  Proof. revert i. induction vars as [|[n0 p0] r IH]; intros i H; [destruct i; discriminate|]. destruct i; cbn [nth_error map get_variant] in *; [injection H as -> ->; reflexivity|apply IH, H]. Qed.
  Lemma full_enum vars : full o false (TyEnum vars) = TUnion false (map (fun v : bytes * Payload => let '(nm, p) := v in Some (nm, full o false (ty_of_payload p))) vars).
  Proof. cbn [FromType_proofs.full]. f_equal. apply map_ext. intros [nm p]. destruct p; reflexivity. Qed.

  Lemma ok_payload d nm p : (let vd := S d + count_dots nm in
                             match p with
                             | PUnit => true
                             | PNewtype x => ok o vd x && negb (unit_like x)
                             | PTuple ts => Nat.ltb vd max_depth && forallb (fun t => ok o (S vd) t) ts
                             | PStruct fs => Nat.ltb vd max_depth && forallb (fun f : bytes * Ty => let '(nm, t) := f in ok o (S vd + count_dots nm) t) fs
                             end) = true -> ok o (S d + count_dots nm) (ty_of_payload p) = true.
  Proof. destruct p; cbn [ty_of_payload FromType_proofs.ok]; intros H; first [exact H|reflexivity|apply andb_true_iff in H as [H _]; exact H]. Qed.

  Lemma agrees_enum vars : Forall (fun v : bytes * Payload => Agrees (ty_of_payload (snd v))) vars -> Agrees (TyEnum vars).
  Proof.
    intros HF d vs0 Hok Hc. cbn [FromType_proofs.ok] in Hok. apply andb_true_iff in Hok as [Hok Hvars]. apply andb_true_iff in Hok as [Hok _]. apply andb_true_iff in Hok as [Hd Hn0].
    rewrite forallb_forall in Hvars. cbn [Cov] in Hc. destruct Hc as (Hne & HFv & Hrange & Hgo). pose proof (cov_variants vs0 vars 0 Hgo) as Hvs. cbn [Nat.add] in Hvs.
    set (n := length vars) in *. set (ws := pls vs0) in *.
    assert (Hchild : forall i nm p, nth_error vars i = Some (nm, p) ->
              exists T, trace_seq' o (S d + count_dots nm) (map snd (wsel i ws)) (Ok (TUnknown false)) = Ok T /\ norm T = norm (full o false (ty_of_payload p))).
    { intros i nm p Hi. rewrite Forall_forall in HF. pose proof (nth_error_In _ _ Hi) as Hin.
      apply (HF (nm, p) Hin (S d + count_dots nm) _ (ok_payload d nm p (Hvars (nm, p) Hin))). apply (Hvs i nm p Hi). }
    assert (Hpos : Forall (fun w : Z * bytes * Value => (0 <= fst (fst w))%Z) ws) by (eapply Forall_impl; [|exact Hrange]; cbn beta; intros w Hw; lia).
    assert (Hall : UAll o d ws).
    { intros i. destruct (nth_error vars i) as [[nm p]|] eqn:Ei.
      - destruct (Hchild i nm p Ei) as (T & R & _). exists nm, T. split; [apply (Hvs i nm p Ei)|exact R].
      - rewrite (wsel_range n ws i Hrange ltac:(apply nth_error_None, Ei)). exists [], (TUnknown false). split; [constructor|reflexivity]. }
    destruct (union_complete o d vs0 false (ltb_depth d Hd) HFv Hpos Hall) as (t & Ht). exists t. split; [exact Ht|].
    destruct (union_projection o d vs0 false t Hne HFv Ht) as (V & -> & (_ & HlenV & Hsel)). fold ws in HlenV, Hsel.
    rewrite full_enum. cbn [norm]. f_equal. fold normopt.
    assert (Hvar : forall i nm p, nth_error vars i = Some (nm, p) -> exists T, get_variant V i = Some (nm, T) /\ norm T = norm (full o false (ty_of_payload p))).
    { intros i nm p Hi. destruct (Hchild i nm p Hi) as (T & R & HT). destruct (Hvs i nm p Hi) as [Hnm Hcv]. pose proof (cov_nonempty _ _ Hcv) as Hne2.
      specialize (Hsel i). destruct (get_variant V i) as [[nm' T']|]; [|rewrite Hsel in Hne2; exfalso; apply Hne2; reflexivity].
      destruct Hsel as (_ & Hnm' & R'). destruct (wsel i ws) as [|e r] eqn:Ee; [exfalso; apply Hne2; reflexivity|].
      pose proof (Forall_inv Hnm) as P1. pose proof (Forall_inv Hnm') as P2. cbn beta in P1, P2. assert (E0 : nm' = nm) by congruence. clear P1 P2. subst nm'.
      rewrite R in R'. injection R' as <-. exists T. split; [reflexivity|exact HT]. }
    assert (HlenVn : length V = n).
    { rewrite HlenV. apply Nat.le_antisymm; [apply (ulen_le n ws Hrange)|].
      destruct n as [|n'] eqn:En; [lia|]. destruct (nth_error vars n') as [[nm p]|] eqn:El; [|apply nth_error_None in El; unfold n in En; lia].
      destruct (Hvs n' nm p El) as [_ Hcv]. pose proof (cov_nonempty _ _ Hcv) as Hne2. destruct (wsel n' ws) as [|[nm1 p1] r] eqn:Ee; [exfalso; apply Hne2; reflexivity|].
      pose proof (wsel_member n' ws nm1 p1 ltac:(rewrite Ee; left; reflexivity)) as Hin. pose proof (ulen_ge ws _ _ _ Hin). lia. }
    apply get_variant_ext; [rewrite !map_length; exact HlenVn|]. rewrite map_length. intros i Hi. rewrite HlenVn in Hi.
    destruct (nth_error vars i) as [[nm p]|] eqn:Ei; [|apply nth_error_None in Ei; unfold n in Hi; lia].
    rewrite !(get_variant_map normopt) by reflexivity. rewrite (get_variant_full vars i nm p Ei). destruct (Hvar i nm p Ei) as (T & -> & HT). cbn [normopt]. rewrite HT. reflexivity.
  Qed.

  (* THE THEOREM: samples that cover a type trace to the fully explored tracer of the type (up to the sample counters) *)
  Theorem cov_full : forall ty, Agrees ty.
  Proof.
    induction ty using Ty_ind'.
    - intros d vs0 _ [Hne HF]. exists (TPrim true PNull). split; [apply (unit_collection d vs0 Hne HF)|reflexivity].
    - intros d vs0 _ [Hne HF]. apply (agrees_leaf PBool (fun v => exists x, v = VBool x) eq_refl ltac:(intros v (x & ->) dd t; reflexivity) d vs0 Hne HF).
    - intros d vs0 _ [Hne HF]. apply (agrees_leaf (PI k) (fun v => exists z, v = VInt k z) ltac:(destruct k; reflexivity) ltac:(intros v (x & ->) dd t; reflexivity) d vs0 Hne HF).
    - intros d vs0 _ [Hne HF]. apply (agrees_leaf PFloat32 (fun v => exists x, v = VF32 x) eq_refl ltac:(intros v (x & ->) dd t; reflexivity) d vs0 Hne HF).
    - intros d vs0 _ [Hne HF]. apply (agrees_leaf PFloat64 (fun v => exists x, v = VF64 x) eq_refl ltac:(intros v (x & ->) dd t; reflexivity) d vs0 Hne HF).
    - intros d vs0 _ [Hne HF]. apply (agrees_leaf (PI U32) (fun v => exists x, v = VChar x) eq_refl ltac:(intros v (x & ->) dd t; reflexivity) d vs0 Hne HF).
    - intros d vs0 _ [Hne HF]. apply (agrees_leaf (PStr (o_large_utf8 o)) (fun v => exists x, v = VStr x) eq_refl ltac:(intros v (x & ->) dd t; cbn [trace]; rewrite str_plain; reflexivity) d vs0 Hne HF).
    - intros d vs0 _ [Hne HF]. apply (agrees_leaf PLargeBinary (fun v => exists x, v = VBytes x) eq_refl ltac:(intros v (x & ->) dd t; reflexivity) d vs0 Hne HF).
    - (* Option *)
      intros d vs0 Hok [HF Hc]. cbn [FromType_proofs.ok] in Hok. destruct (IHty d _ Hok Hc) as (t & Ht & Hn).
      exists (mark_nullable t). split.
      + rewrite (opt_collection d vs0 (somes_nil vs0 (cov_nonempty _ _ Hc)) HF), Ht. reflexivity.
      + cbn [FromType_proofs.full]. rewrite full_true, !norm_mark, Hn. reflexivity.
    - (* sequences *)
      intros d vs0 Hok (ls & -> & Hc). cbn [FromType_proofs.ok] in Hok. apply andb_true_iff in Hok as [Hd Hok].
      destruct (IHty (S d) _ Hok Hc) as (it & Hi & Hn). exists (TList false it). split.
      + apply (seq_complete o d ls it (ltb_depth d Hd)); [|exact Hi]. intros ->. apply (cov_nonempty _ _ Hc). reflexivity.
      + cbn [norm FromType_proofs.full]. rewrite Hn. reflexivity.
    - apply (agrees_tuple ts H).
    - (* maps *)
      intros d vs0 Hok (kvss & -> & Hck & Hcv). cbn [FromType_proofs.ok] in Hok. apply andb_true_iff in Hok as [Hok Hokv]. apply andb_true_iff in Hok as [Hok Hokk]. apply andb_true_iff in Hok as [Hm Hd].
      apply negb_true_iff in Hm. destruct (IHty1 (S d) _ Hokk Hck) as (kt & Hk & Hnk). destruct (IHty2 (S d) _ Hokv Hcv) as (vt & Hv & Hnv).
      exists (TMap false kt vt). split.
      + apply (maps_complete o d kvss kt vt Hm (ltb_depth d Hd)); [|exact Hk|exact Hv]. intros ->. apply (cov_nonempty _ _ Hck). reflexivity.
      + cbn [norm FromType_proofs.full]. rewrite Hnk, Hnv. reflexivity.
    - apply (agrees_struct fs H).
    - (* newtype *)
      intros d vs0 Hok (ws & -> & Hc). cbn [FromType_proofs.ok] in Hok. destruct (IHty d _ Hok Hc) as (t & Ht & Hn). exists t. split; [rewrite newtypes_collection; exact Ht|exact Hn].
    - apply (agrees_enum vs H).
  Qed.
End Cover.

(* hence: from_samples on covering samples returns the documented schema of the type - the same schema from_type returns *)
Theorem from_samples_covering o ty vs : o_guess_dates o = false -> ok o 0 ty = true -> Cov ty vs -> from_samples o [] vs = doc_schema o ty.
Proof.
  intros Hgd Hok Hc. destruct (cov_full o Hgd ty 0 vs Hok Hc) as (root & Ht & Hn).
  unfold from_samples, trace_all. change (fold_left (fun acc v => do t <- acc ;; trace o 0 v t) vs (Ok (TUnknown false))) with (trace_seq' o 0 vs (Ok (TUnknown false))).
  rewrite Ht. cbn [bind]. unfold check_overwrites. cbn [forallb]. unfold to_schema, doc_schema.
  rewrite <- (to_field_norm o root), Hn, (to_field_norm o (full o false ty)), (tf_all o ty _ _ false 0 Hok). reflexivity.
Qed.

Theorem tracers_agree o ty vs budget : o_guess_dates o = false -> ok o 0 ty = true -> passes ty <= budget -> Cov ty vs ->
  from_samples o [] vs = from_type o [] budget ty.
Proof. intros Hgd Hok Hb Hc. rewrite (from_samples_covering o ty vs Hgd Hok Hc), (from_type_is_doc o ty budget Hok Hb). reflexivity. Qed.
