(* sort_fields (the stable insertion sort by name that to_field applies to records traced in map mode) does not change
   which field a name denotes: the first field called k before sorting is the first field called k after sorting. *)
From Verif Require Import Tracer.
Require Import Lia ZifyBool ZifyN.
Local Open Scope N_scope.

Lemma bytes_leb_total : forall x y, bytes_leb x y = false -> bytes_leb y x = true.
Proof.
  induction x as [|a x IH]; intros [|c y]; cbn [bytes_leb]; try discriminate; try reflexivity.
  destruct (N.ltb_spec a c) as [L1|L1]; [discriminate|]. destruct (N.ltb_spec c a) as [L2|L2]; [reflexivity|]. apply IH.
Qed.

Lemma bytes_leb_trans : forall x y z, bytes_leb x y = true -> bytes_leb y z = true -> bytes_leb x z = true.
Proof.
  induction x as [|a x IH]; intros [|c y] [|e z]; cbn [bytes_leb]; try discriminate; try reflexivity.
  destruct (N.ltb_spec a c) as [A1|A1], (N.ltb_spec c a) as [A2|A2], (N.ltb_spec c e) as [A3|A3], (N.ltb_spec e c) as [A4|A4],
           (N.ltb_spec a e) as [A5|A5], (N.ltb_spec e a) as [A6|A6]; try discriminate; try reflexivity; try lia.
  apply IH.
Qed.

Fixpoint sgetT (k : bytes) (fs : list SField) : option SField :=
  match fs with [] => None | f :: r => if bytes_eqb (sf_name f) k then Some f else sgetT k r end.

Definition leb_f (f g : SField) : bool := bytes_leb (sf_name f) (sf_name g).
Fixpoint ssorted (l : list SField) : Prop :=
  match l with [] => True | f :: r => Forall (fun g => leb_f f g = true) r /\ ssorted r end.

Lemma insert_in f : forall l g, In g (insert_sorted f l) -> g = f \/ In g l.
Proof.
  induction l as [|h r IH]; intros g H; cbn [insert_sorted] in H.
  - destruct H as [<-|[]]. left. reflexivity.
  - destruct (bytes_leb (sf_name h) (sf_name f)).
    + destruct H as [<-|H]; [right; left; reflexivity|]. destruct (IH g H) as [->|H']; [left; reflexivity|right; right; exact H'].
    + destruct H as [<-|H]; [left; reflexivity|right; exact H].
Qed.

Lemma insert_sorted_sorted f : forall l, ssorted l -> ssorted (insert_sorted f l).
Proof.
  induction l as [|h r IH]; intros Hs; cbn [insert_sorted].
  - cbn. split; [constructor|exact I].
  - destruct Hs as [Hh Hr]. destruct (bytes_leb (sf_name h) (sf_name f)) eqn:E; cbn [ssorted].
    + split; [|apply IH, Hr]. apply Forall_forall. intros g Hg. destruct (insert_in f r g Hg) as [->|Hin]; [exact E|]. rewrite Forall_forall in Hh. apply Hh, Hin.
    + pose proof (bytes_leb_total _ _ E) as Efh. split; [|split; assumption]. constructor; [exact Efh|].
      rewrite Forall_forall in *. intros g Hg. unfold leb_f. apply (bytes_leb_trans _ (sf_name h)); [exact Efh|apply Hh, Hg].
Qed.

Lemma bytes_leb_refl x : bytes_leb x x = true.
Proof. induction x as [|a x IH]; cbn [bytes_leb]; [reflexivity|]. destruct (N.ltb_spec a a) as [L|L]; [lia|exact IH]. Qed.

Lemma sgetT_insert f k : forall l, ssorted l ->
  sgetT k (insert_sorted f l) = match sgetT k l with Some g => Some g | None => if bytes_eqb (sf_name f) k then Some f else None end.
Proof.
  induction l as [|h r IH]; intros Hs; cbn [insert_sorted sgetT]; [reflexivity|]. destruct Hs as [Hh Hr].
  destruct (bytes_leb (sf_name h) (sf_name f)) eqn:E; cbn [sgetT].
  - destruct (bytes_eqb (sf_name h) k); [reflexivity|apply IH, Hr].
  - destruct (bytes_eqb (sf_name f) k) eqn:Ef.
    + (* nothing in h :: r is called k: every element is >= h > f *)
      apply bytes_eqb_eq in Ef. destruct (bytes_eqb (sf_name h) k) eqn:Eh.
      { apply bytes_eqb_eq in Eh. rewrite Eh, <- Ef, bytes_leb_refl in E. discriminate. }
      assert (Hnone : sgetT k r = None).
      { clear IH. induction r as [|g r' IHr]; [reflexivity|]. cbn [sgetT]. pose proof (Forall_inv Hh) as Hg. unfold leb_f in Hg.
        destruct (bytes_eqb (sf_name g) k) eqn:Eg.
        - apply bytes_eqb_eq in Eg. rewrite Eg, <- Ef in Hg. pose proof (bytes_leb_total _ _ E) as Efh.
          (* h <= f and f <= h would make leb h f true *) rewrite Hg in E. discriminate.
        - apply IHr; [apply (Forall_inv_tail Hh)|destruct Hr; assumption]. }
      rewrite Hnone. reflexivity.
    + destruct (bytes_eqb (sf_name h) k); [reflexivity|destruct (sgetT k r); reflexivity].
Qed.

Lemma sort_acc k : forall l acc, ssorted acc ->
  ssorted (fold_left (fun a f => insert_sorted f a) l acc) /\
  sgetT k (fold_left (fun a f => insert_sorted f a) l acc) = match sgetT k acc with Some g => Some g | None => sgetT k l end.
Proof.
  induction l as [|f r IH]; intros acc Hs; cbn [fold_left sgetT].
  - split; [exact Hs|]. destruct (sgetT k acc); reflexivity.
  - destruct (IH (insert_sorted f acc) (insert_sorted_sorted f acc Hs)) as [H1 H2]. split; [exact H1|]. rewrite H2, (sgetT_insert f k acc Hs).
    destruct (sgetT k acc); [reflexivity|]. destruct (bytes_eqb (sf_name f) k); reflexivity.
Qed.

Theorem sget_sort k l : sgetT k (sort_fields l) = sgetT k l.
Proof. unfold sort_fields. destruct (sort_acc k l [] I) as [_ H]. rewrite H. reflexivity. Qed.
