(* Model of schema tracing from samples: serde_arrow/src/internal/schema/tracer.rs (Tracer, the
   ensure_* transitions, coerce_primitive_type, to_field / to_schema, overwrites) driven by
   from_samples/mod.rs (TracerSerializer: which transition each serde call makes).
   Names and paths are positional, so they are threaded through the traversals instead of being
   stored; `dots` is the number of '.' in the path of the current node (depth limit). *)
From Verif Require Export Value.
Local Open Scope nat_scope.

Record Opts := {
  o_allow_null : bool; o_map_as_struct : bool; o_large_list : bool; o_large_utf8 : bool;
  o_dict : bool; o_coerce : bool; o_to_string : bool; o_guess_dates : bool; o_enums_str : bool }.

Definition default_opts : Opts :=
  {| o_allow_null := false; o_map_as_struct := true; o_large_list := true; o_large_utf8 := true;
     o_dict := false; o_coerce := false; o_to_string := false; o_guess_dates := false; o_enums_str := false |}.

(* traced primitive types *)
Inductive PT :=
| PNull | PBool | PI (k : IntKind) | PFloat32 | PFloat64 | PStr (large : bool)
| PTs (utc : bool)            (* Timestamp(Millisecond, None | Some "UTC") *)
| PTime64Ns | PDate32T | PLargeBinary.

Definition pt_eqb (a c : PT) : bool :=
  match a, c with
  | PNull, PNull | PBool, PBool | PFloat32, PFloat32 | PFloat64, PFloat64
  | PTime64Ns, PTime64Ns | PDate32T, PDate32T | PLargeBinary, PLargeBinary => true
  | PI x, PI y => intkind_eqb x y
  | PStr x, PStr y | PTs x, PTs y => Bool.eqb x y
  | _, _ => false
  end.

Inductive Strategy := SMapAsStruct | STupleAsStruct | SUnknownVariant.

(* traced schema *)
Inductive SDT :=
| SPrim (p : PT) | SDictU32 (large : bool) | SList (large : bool) (f : SField)
| SStruct (fs : list SField) | SMap (kf vf : SField) | SUnion (fs : list SField)
with SField := mkSF (name : bytes) (dt : SDT) (nullable : bool) (strategy : option Strategy).

Definition sf_name (f : SField) := match f with mkSF n _ _ _ => n end.
Definition sf_dt (f : SField) := match f with mkSF _ d _ _ => d end.
Definition sf_nullable (f : SField) := match f with mkSF _ _ n _ => n end.
Definition sf_strategy (f : SField) := match f with mkSF _ _ _ s => s end.

Inductive Tracer :=
| TUnknown (nullable : bool)
| TPrim (nullable : bool) (ty : PT)
| TList (nullable : bool) (item : Tracer)
| TMap (nullable : bool) (key value : Tracer)
| TStruct (nullable : bool) (map_mode : bool) (seen : nat) (fields : list (bytes * Tracer * nat))
| TTuple (nullable : bool) (fields : list Tracer)
| TUnion (nullable : bool) (variants : list (option (bytes * Tracer))).

Definition t_nullable (t : Tracer) : bool :=
  match t with
  | TUnknown n | TPrim n _ | TList n _ | TMap n _ _ | TStruct n _ _ _ | TTuple n _ | TUnion n _ => n
  end.

Definition mark_nullable (t : Tracer) : Tracer :=
  match t with
  | TUnknown _ => TUnknown true | TPrim _ ty => TPrim true ty | TList _ i => TList true i
  | TMap _ k v => TMap true k v | TStruct _ m s fs => TStruct true m s fs | TTuple _ fs => TTuple true fs
  | TUnion _ vs => TUnion true vs
  end.

(* ---------------- coerce_primitive_type (strategies are always None for sampled leaves) ---------------- *)
Definition is_unsigned (p : PT) : bool := match p with PI (U8 | U16 | U32 | U64) => true | _ => false end.
Definition is_signed (p : PT) : bool := match p with PI (I8 | I16 | I32 | I64) => true | _ => false end.
Definition is_int (p : PT) : bool := match p with PI _ => true | _ => false end.
Definition is_float (p : PT) : bool := match p with PFloat32 | PFloat64 => true | _ => false end.
Definition is_to_string (p : PT) : bool := match p with PBool | PI _ | PFloat32 | PFloat64 => true | _ => false end.
Definition is_str (p : PT) : bool := match p with PStr _ => true | _ => false end.
Definition is_ts (p : PT) : bool := match p with PTs _ => true | _ => false end.

(* the arms in source order; None = the final failing arm. Only three options are consulted. *)
Definition coerce_core (cn ts lg : bool) (prev : PT) (nullable : bool) (curr : PT) : option (PT * bool) :=
  if pt_eqb prev curr then Some (curr, nullable)
  else match prev, curr with
  | PNull, _ => Some (curr, true)
  | _, PNull => Some (prev, true)
  | _, _ =>
    if is_unsigned prev && is_unsigned curr && cn then Some (PI U64, nullable)
    else if is_signed prev && is_signed curr && cn then Some (PI I64, nullable)
    else if is_signed prev && is_unsigned curr && cn then Some (PI I64, nullable)
    else if is_unsigned prev && is_signed curr && cn then Some (PI I64, nullable)
    else if is_float prev && is_float curr && cn then Some (PFloat64, nullable)
    else if is_int prev && is_float curr && cn then Some (PFloat64, nullable)
    else if is_float prev && is_int curr && cn then Some (PFloat64, nullable)
    else if is_str prev && is_to_string curr && ts then Some (prev, nullable)
    else if is_to_string prev && is_str curr && ts then Some (curr, nullable)
    else if is_ts prev && is_str curr then Some (curr, nullable)
    else if is_str prev && is_ts curr then Some (prev, nullable)
    else if is_ts prev && is_ts curr then Some (PStr lg, nullable)   (* time zones differ *)
    else None
  end.
Definition coerce (o : Opts) := coerce_core (o_coerce o) (o_to_string o) (o_large_utf8 o).

Definition is_complex (t : Tracer) : bool :=
  match t with TUnknown _ | TPrim _ _ => false | _ => true end.

Definition ensure_prim (o : Opts) (ty : PT) (t : Tracer) : Outcome Tracer :=
  match t with
  | TUnknown n => Ok (TPrim (n || pt_eqb ty PNull) ty)
  | TPrim n prev => match coerce o prev n ty with Some (ty', n') => Ok (TPrim n' ty') | None => Err end
  | _ => if pt_eqb ty PNull then Ok (mark_nullable t) else Err
  end.

(* Unknown, or a primitive that has only seen nulls, may still become any shape *)
Definition upgradable (t : Tracer) : bool :=
  match t with TUnknown _ => true | TPrim _ PNull => true | _ => false end.

Definition max_depth : nat := 20.

Definition ensure_list (dots : nat) (t : Tracer) : Outcome Tracer :=
  if Nat.leb max_depth dots then Err
  else if upgradable t then Ok (TList (t_nullable t) (TUnknown false))
  else match t with TList _ _ => Ok t | _ => Err end.
Definition ensure_map (dots : nat) (t : Tracer) : Outcome Tracer :=
  if Nat.leb max_depth dots then Err
  else if upgradable t then Ok (TMap (t_nullable t) (TUnknown false) (TUnknown false))
  else match t with TMap _ _ _ => Ok t | _ => Err end.
Definition ensure_struct (dots : nat) (map_mode : bool) (t : Tracer) : Outcome Tracer :=
  if Nat.leb max_depth dots then Err
  else if upgradable t then Ok (TStruct (t_nullable t) map_mode 0 [])
  else match t with TStruct n m s fs => Ok (TStruct n (m || map_mode) s fs) | _ => Err end.
(* a tuple of another length at a tuple position: the positions that the shorter tuples do not have are nullable
   (positions n .. length fs - 1 of a longer tracer; new positions length fs .. n - 1 for a longer sample) *)
Fixpoint arity_adjust (fs : list Tracer) (n : nat) {struct n} : list Tracer :=
  match n, fs with
  | O, _ => map mark_nullable fs
  | S n', f :: r => f :: arity_adjust r n'
  | S n', [] => TUnknown true :: arity_adjust [] n'
  end.
Definition ensure_tuple (dots : nat) (n : nat) (t : Tracer) : Outcome Tracer :=
  if Nat.leb max_depth dots then Err
  else if upgradable t then Ok (TTuple (t_nullable t) (repeat (TUnknown false) n))
  else match t with TTuple nl fs => Ok (TTuple nl (arity_adjust fs n)) | _ => Err end.
Definition ensure_union (dots : nat) (t : Tracer) : Outcome Tracer :=
  if Nat.leb max_depth dots then Err
  else if upgradable t then Ok (TUnion (t_nullable t) [])
  else match t with TUnion _ _ => Ok t | _ => Err end.

(* ---------------- date guessing (internal/chrono.rs matchers) ---------------- *)
Definition one_or_two_digits (s : bytes) : option bytes :=
  match s with
  | c :: r => if is_digit c then Some (match r with c2 :: r2 => if is_digit c2 then r2 else r | [] => r end) else None
  | [] => None
  end.
Definition one_or_more_digits (s : bytes) : option bytes :=
  let '(ds, r) := span_digits s in match ds with [] => None | _ => Some r end.
Definition match_char (c : N) (s : bytes) : option bytes :=
  match s with x :: r => if N.eqb x c then Some r else None | [] => None end.
Definition obind {A B} (o : option A) (f : A -> option B) : option B := match o with Some a => f a | None => None end.

Definition match_naive_date (s : bytes) : option bytes :=
  let s := match s with c :: r => if N.eqb c 43 || N.eqb c 45 then r else s | [] => s end in
  obind (one_or_more_digits s) (fun s => obind (match_char 45 s) (fun s => obind (one_or_two_digits s) (fun s =>
  obind (match_char 45 s) (fun s => one_or_two_digits s)))).
Definition match_naive_time (s : bytes) : option bytes :=
  obind (one_or_two_digits s) (fun s => obind (match_char 58 s) (fun s => obind (one_or_two_digits s) (fun s =>
  obind (match_char 58 s) (fun s => obind (one_or_two_digits s) (fun s =>
  match s with
  | c :: r => if N.eqb c 46 then one_or_more_digits r else Some s
  | [] => Some s
  end))))).
Definition match_datetime (space_ok : bool) (s : bytes) : option bytes :=
  obind (match_naive_date s) (fun s =>
  match s with
  | c :: r => if N.eqb c 84 || (space_ok && N.eqb c 32) then match_naive_time r else None
  | [] => None
  end).
Fixpoint strip_prefix (p s : bytes) : option bytes :=
  match p, s with
  | [], _ => Some s
  | a :: p', c :: s' => if N.eqb a c then strip_prefix p' s' else None
  | _ :: _, [] => None
  end.
Definition match_utc_tz (s : bytes) : option bytes :=
  match strip_prefix (b "Z") s with Some r => Some r | None =>
  match strip_prefix (b "+0000") s with Some r => Some r | None => strip_prefix (b "+00:00") s end end.
Definition fully (o : option bytes) : bool := match o with Some [] => true | _ => false end.

Definition str_type (o : Opts) (s : bytes) : PT :=
  if negb (o_guess_dates o) then PStr (o_large_utf8 o)
  else if fully (match_datetime false s) then PTs false
  else if fully (obind (match_datetime true s) match_utc_tz) then PTs true
  else if fully (match_naive_time s) then PTime64Ns
  else if fully (match_naive_date s) then PDate32T
  else PStr (o_large_utf8 o).

(* ---------------- struct bookkeeping ---------------- *)
Definition count_dots (name : bytes) : nat := length (filter (fun c => N.eqb c 46) name).

Fixpoint find_field_idx (fs : list (bytes * Tracer * nat)) (key : bytes) : option (Tracer * nat) :=
  match fs with
  | [] => None
  | (n, t, _) :: r => if bytes_eqb n key then Some (t, 0) else
                        match find_field_idx r key with Some (t', i) => Some (t', S i) | None => None end
  end.
Fixpoint set_field (fs : list (bytes * Tracer * nat)) (i : nat) (t : Tracer) (seen : nat) : list (bytes * Tracer * nat) :=
  match fs, i with
  | (n, _, _) :: r, O => (n, t, seen) :: r
  | f :: r, S i' => f :: set_field r i' t seen
  | [], _ => []
  end.

(* StructTracer::ensure_field followed by tracing the value into the field: `tr` traces the value *)
Definition struct_field (tr : Tracer -> Outcome Tracer) (key : bytes) (seen : nat)
           (fs : list (bytes * Tracer * nat)) : Outcome (list (bytes * Tracer * nat)) :=
  match find_field_idx fs key with
  | Some (t, i) => do t' <- tr t ;; Ok (set_field fs i t' seen)
  | None => let t0 := if Nat.eqb seen 0 then TUnknown false else TUnknown true in
            do t' <- tr t0 ;; Ok (fs ++ [(key, t', seen)])
  end.
Definition struct_end (seen : nat) (fs : list (bytes * Tracer * nat)) : list (bytes * Tracer * nat) :=
  map (fun f : bytes * Tracer * nat => let '(n, t, ls) := f in
                                        if Nat.eqb ls seen then f else (n, mark_nullable t, ls)) fs.

Fixpoint nth_tracer (fs : list Tracer) (i : nat) : Tracer :=
  match fs, i with t :: _, O => t | _ :: r, S i' => nth_tracer r i' | [], _ => TUnknown false end.
Fixpoint set_tracer (fs : list Tracer) (i : nat) (t : Tracer) : list Tracer :=
  match fs, i with
  | _ :: r, O => t :: r
  | f :: r, S i' => f :: set_tracer r i' t
  | [], O => [t]
  | [], S i' => TUnknown false :: set_tracer [] i' t
  end.

(* UnionTracer::ensure_variant: the slot idx must be free or carry the same name *)
Fixpoint get_variant (vs : list (option (bytes * Tracer))) (i : nat) : option (bytes * Tracer) :=
  match vs, i with v :: _, O => v | _ :: r, S i' => get_variant r i' | [], _ => None end.
Fixpoint set_variant (vs : list (option (bytes * Tracer))) (i : nat) (v : bytes * Tracer) : list (option (bytes * Tracer)) :=
  match vs, i with
  | _ :: r, O => Some v :: r
  | x :: r, S i' => x :: set_variant r i' v
  | [], O => [Some v]
  | [], S i' => None :: set_variant [] i' v
  end.

(* ---------------- TracerSerializer: one transition per serde call ---------------- *)
Fixpoint trace (o : Opts) (dots : nat) (v : Value) (t : Tracer) {struct v} : Outcome Tracer :=
  let trace_fields :=
      fix go (dots : nat) (seen : nat) (fs : list (bytes * Value)) (acc : list (bytes * Tracer * nat))
        : Outcome (list (bytes * Tracer * nat)) :=
        match fs with
        | [] => Ok acc
        | (key, x) :: r =>
          do acc' <- struct_field (trace o (S dots + count_dots key) x) key seen acc ;; go dots seen r acc'
        end in
  let trace_tuple :=
      fix go (dots : nat) (pos : nat) (l : list Value) (acc : list Tracer) : Outcome (list Tracer) :=
        match l with
        | [] => Ok acc
        | x :: r => do t' <- trace o (S dots) x (nth_tracer acc pos) ;; go dots (S pos) r (set_tracer acc pos t')
        end in
  let as_struct (dots : nat) (fs : list (bytes * Value)) (t0 : Tracer) : Outcome Tracer :=
      match t0 with
      | TStruct n m seen fields =>
        do fields' <- trace_fields dots seen fs fields ;; Ok (TStruct n m (S seen) (struct_end seen fields'))
      | _ => Err
      end in
  let as_tuple (dots : nat) (l : list Value) (t0 : Tracer) : Outcome Tracer :=
      match t0 with
      | TTuple n fields => do fields' <- trace_tuple dots 0 l fields ;; Ok (TTuple n fields')
      | _ => Err
      end in
  let with_variant (idx : Z) (name : bytes) (f : nat -> Tracer -> Outcome Tracer) : Outcome Tracer :=
      do t0 <- ensure_union dots t ;;
      match t0 with
      | TUnion n vs =>
        if (idx <? 0)%Z then Err else
        let i := Z.to_nat idx in
        match get_variant vs i with
        | Some (prev, vt) =>
          if bytes_eqb prev name then do vt' <- f (S dots + count_dots name) vt ;; Ok (TUnion n (set_variant vs i (name, vt'))) else Err
        | None => do vt' <- f (S dots + count_dots name) (TUnknown false) ;; Ok (TUnion n (set_variant vs i (name, vt')))
        end
      | _ => Err
      end in
  match v with
  | VBool _ => ensure_prim o PBool t
  | VInt k _ => ensure_prim o (PI k) t
  | VF32 _ => ensure_prim o PFloat32 t
  | VF64 _ => ensure_prim o PFloat64 t
  | VChar _ => ensure_prim o (PI U32) t
  | VStr s => ensure_prim o (str_type o s) t
  | VBytes _ => ensure_prim o PLargeBinary t
  | VNone => Ok (mark_nullable t)
  | VSome x => trace o dots x (mark_nullable t)
  | VUnit | VUnitStruct => ensure_prim o PNull t
  | VNewtypeStruct x => trace o dots x t
  | VSeq l =>
    do t0 <- ensure_list dots t ;;
    match t0 with
    | TList n item =>
      do item' <- (fix go (l : list Value) (it : Tracer) : Outcome Tracer :=
                     match l with [] => Ok it | x :: r => do it' <- trace o (S dots) x it ;; go r it' end) l item ;;
      Ok (TList n item')
    | _ => Err
    end
  | VTuple l | VTupleStruct l => do t0 <- ensure_tuple dots (length l) t ;; as_tuple dots l t0
  | VMap kvs =>
    if o_map_as_struct o then
      do t0 <- ensure_struct dots true t ;;
      match t0 with
      | TStruct n m seen fields =>
        do fields' <- (fix go (kvs : list (Value * Value)) (acc : list (bytes * Tracer * nat)) : Outcome (list (bytes * Tracer * nat)) :=
                         match kvs with
                         | [] => Ok acc
                         | (VStr key, x) :: r =>
                           do acc' <- struct_field (trace o (S dots + count_dots key) x) key seen acc ;; go r acc'
                         | _ :: _ => Err
                         end) kvs fields ;;
        Ok (TStruct n m (S seen) (struct_end seen fields'))
      | _ => Err
      end
    else
      do t0 <- ensure_map dots t ;;
      match t0 with
      | TMap n kt vt =>
        do kv <- (fix go (kvs : list (Value * Value)) (kt vt : Tracer) : Outcome (Tracer * Tracer) :=
                    match kvs with
                    | [] => Ok (kt, vt)
                    | (k, x) :: r => do kt' <- trace o (S dots) k kt ;; do vt' <- trace o (S dots) x vt ;; go r kt' vt'
                    end) kvs kt vt ;;
        Ok (TMap n (fst kv) (snd kv))
      | _ => Err
      end
  | VStruct fs => do t0 <- ensure_struct dots false t ;; as_struct dots fs t0
  | VUnitVariant idx name => with_variant idx name (fun _ vt => ensure_prim o PNull vt)
  | VNewtypeVariant idx name x => with_variant idx name (fun d vt => trace o d x vt)
  | VTupleVariant idx name l =>
    with_variant idx name (fun d vt => do t0 <- ensure_tuple d (length l) vt ;; as_tuple d l t0)
  | VStructVariant idx name fs =>
    with_variant idx name (fun d vt => do t0 <- ensure_struct d false vt ;; as_struct d fs t0)
  end.

(* ---------------- to_field / to_schema ---------------- *)
Fixpoint bytes_leb (x y : bytes) : bool :=
  match x, y with
  | [], _ => true
  | _ :: _, [] => false
  | a :: x', c :: y' => if (a <? c)%N then true else if (c <? a)%N then false else bytes_leb x' y'
  end.
Fixpoint insert_sorted (f : SField) (l : list SField) : list SField :=
  match l with
  | [] => [f]
  | g :: r => if bytes_leb (sf_name g) (sf_name f) then g :: insert_sorted f r else f :: l
  end.
(* stable sort by name (fields.sort_by(|a, b| a.name.cmp(&b.name))) *)
Definition sort_fields (l : list SField) : list SField := fold_left (fun acc f => insert_sorted f acc) l [].

Definition is_null_variant (t : Tracer) : bool :=
  match t with TPrim _ PNull => true | _ => false end.   (* an untyped payload (TUnknown) is data *)

Definition path_join (path name : bytes) : bytes := path ++ [46%N] ++ name.

Definition unknown_variant_field : SField := mkSF [] (SPrim PNull) true (Some SUnknownVariant).
Definition dict_field (o : Opts) (name : bytes) (nullable : bool) : SField := mkSF name (SDictU32 (o_large_utf8 o)) nullable None.

Section ToField.
  Variable o : Opts.
  Variable overwrites : list (bytes * SField).

  Definition get_overwrite (path : bytes) : option SField :=
    option_map snd (find (fun pf : bytes * SField => bytes_eqb (fst pf) path) overwrites).

  Fixpoint to_field (name path : bytes) (t : Tracer) {struct t} : Outcome SField :=
    match get_overwrite path with
    | Some ow => if bytes_eqb (sf_name ow) name then Ok ow else Err
    | None =>
      match t with
      | TUnknown _ => if o_allow_null o then Ok (mkSF name (SPrim PNull) true None) else Err
      | TPrim n ty =>
        match ty with
        | PNull => if o_allow_null o then Ok (mkSF name (SPrim PNull) true None) else Err
        | PStr l => if o_dict o then Ok (dict_field o name n) else Ok (mkSF name (SPrim (PStr l)) n None)
        | _ => Ok (mkSF name (SPrim ty) n None)
        end
      | TList n item =>
        do f <- to_field (b "element") (path_join path (b "element")) item ;;
        Ok (mkSF name (SList (o_large_list o) f) n None)
      | TMap n kt vt =>
        do kf <- to_field (b "key") (path_join path (b "key")) kt ;;
        do vf <- to_field (b "value") (path_join path (b "value")) vt ;;
        Ok (mkSF name (SMap kf vf) n None)
      | TStruct n map_mode _ fields =>
        do fs <- (fix go (l : list (bytes * Tracer * nat)) : Outcome (list SField) :=
                    match l with
                    | [] => Ok []
                    | (fname, ft, _) :: r => do f <- to_field fname (path_join path fname) ft ;; do rest <- go r ;; Ok (f :: rest)
                    end) fields ;;
        if map_mode then Ok (mkSF name (SStruct (sort_fields fs)) n (Some SMapAsStruct))
        else Ok (mkSF name (SStruct fs) n None)
      | TTuple n fields =>
        do fs <- (fix go (i : N) (l : list Tracer) : Outcome (list SField) :=
                    match l with
                    | [] => Ok []
                    | ft :: r => do f <- to_field (print_N i) (path_join path (print_N i)) ft ;; do rest <- go (N.succ i) r ;; Ok (f :: rest)
                    end) 0%N fields ;;
        Ok (mkSF name (SStruct fs) n (Some STupleAsStruct))
      | TUnion n variants =>
        let without_data := forallb (fun v : option (bytes * Tracer) => match v with Some (_, vt) => is_null_variant vt | None => false end) variants in
        if without_data && o_enums_str o then Ok (dict_field o name n)
        else if without_data && negb (o_allow_null o) then Err
        else if Nat.ltb 128 (length variants) then Err
        else
          do fs <- (fix go (l : list (option (bytes * Tracer))) : Outcome (list SField) :=
                      match l with
                      | [] => Ok []
                      | Some (vname, vt) :: r => do f <- to_field vname (path_join path vname) vt ;; do rest <- go r ;; Ok (f :: rest)
                      | None :: r => do rest <- go r ;; Ok (unknown_variant_field :: rest)
                      end) variants ;;
          Ok (mkSF name (SUnion fs) n None)
      end
    end.

  (* Tracer::collect_paths *)
  Fixpoint collect_paths (path : bytes) (t : Tracer) {struct t} : list bytes :=
    path ::
    match t with
    | TUnknown _ | TPrim _ _ => []
    | TList _ item => collect_paths (path_join path (b "element")) item
    | TMap _ kt vt => collect_paths (path_join path (b "key")) kt ++ collect_paths (path_join path (b "value")) vt
    | TStruct _ _ _ fields =>
      (fix go (l : list (bytes * Tracer * nat)) : list bytes :=
         match l with [] => [] | (fname, ft, _) :: r => collect_paths (path_join path fname) ft ++ go r end) fields
    | TTuple _ fields =>
      (fix go (i : N) (l : list Tracer) : list bytes :=
         match l with [] => [] | ft :: r => collect_paths (path_join path (print_N i)) ft ++ go (N.succ i) r end) 0%N fields
    | TUnion _ variants =>
      (fix go (l : list (option (bytes * Tracer))) : list bytes :=
         match l with
         | [] => []
         | Some (vname, vt) :: r => collect_paths (path_join path vname) vt ++ go r
         | None :: r => go r
         end) variants
    end.

  Definition check_overwrites (root : Tracer) : bool :=
    let paths := collect_paths (b "$") root in
    forallb (fun pf : bytes * SField => existsb (bytes_eqb (fst pf)) paths) overwrites.

  (* Tracer::to_schema *)
  Definition to_schema (root : Tracer) : Outcome (list SField) :=
    do f <- to_field (b "$") (b "$") root ;;
    if sf_nullable f then Err
    else match sf_dt f with SStruct fs => Ok fs | _ => Err end.
End ToField.

(* Tracer::from_samples (OuterSequenceSerializer: every element of the outer sequence is traced
   into the root), then finish / check / to_schema *)
Definition trace_all (o : Opts) (samples : list Value) : Outcome Tracer :=
  fold_left (fun acc v => do t <- acc ;; trace o 0 v t) samples (Ok (TUnknown false)).

Definition from_samples (o : Opts) (overwrites : list (bytes * SField)) (samples : list Value) : Outcome (list SField) :=
  do root <- trace_all o samples ;;
  if check_overwrites overwrites root then to_schema o overwrites root else Err.
