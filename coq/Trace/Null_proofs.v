(* Nullability is orthogonal to everything else a tracer records: marking a position nullable commutes with
   tracing any sample into it, whatever the nesting of the sample and the state of the tracer. *)
From Verif Require Import Tracer Builder_proofs.
Local Open Scope nat_scope.

Definition omark (r : Outcome Tracer) : Outcome Tracer := match r with Ok t => Ok (mark_nullable t) | Err => Err | Panic p => Panic p end.

Lemma mark_idem t : mark_nullable (mark_nullable t) = mark_nullable t.
Proof. destruct t; reflexivity. Qed.
Lemma upgradable_mark t : upgradable (mark_nullable t) = upgradable t.
Proof. destruct t as [| n []| | | | |]; reflexivity. Qed.
Lemma nullable_mark t : t_nullable (mark_nullable t) = true.
Proof. destruct t; reflexivity. Qed.

Lemma coerce_mark o prev n ty : coerce o prev true ty = match coerce o prev n ty with Some (ty', _) => Some (ty', true) | None => None end.
Proof.
  unfold coerce, coerce_core. destruct (pt_eqb prev ty); [reflexivity|].
  destruct prev, ty; try reflexivity;
    repeat match goal with |- context [if ?c then _ else _] => destruct c end; reflexivity.
Qed.

Lemma ensure_prim_mark o ty t : ensure_prim o ty (mark_nullable t) = omark (ensure_prim o ty t).
Proof.
  destruct t as [n|n prev|n i|n k v|n m s fs|n fs|n vs]; cbn [ensure_prim mark_nullable omark]; try (destruct (pt_eqb ty PNull); reflexivity).
  - rewrite (coerce_mark o prev n ty). destruct (coerce o prev n ty) as [[ty' n']|]; reflexivity.
Qed.

Ltac bind_cases :=
  repeat match goal with
         | |- context [bind ?e _] => let x := fresh "x" in destruct e as [x| |]; cbn [bind omark]; try reflexivity
         end.

Ltac crush :=
  repeat (cbn [bind omark mark_nullable];
          match goal with
          | |- ?x = ?x => reflexivity
          | |- context [bind ?e _] => destruct e
          | |- context [if ?c then _ else _] => destruct c
          | |- context [match get_variant ?a ?b with _ => _ end] => destruct (get_variant a b) as [[? ?]|]
          end); try reflexivity.
Ltac shape_case ens d t :=
  unfold ens; destruct (Nat.leb max_depth d); [reflexivity|]; rewrite upgradable_mark, ?nullable_mark;
  destruct (upgradable t); cbn [bind]; [crush|destruct t; cbn [mark_nullable bind omark]; try reflexivity; crush].

Theorem trace_mark o : forall v d t, trace o d v (mark_nullable t) = omark (trace o d v t).
Proof.
  intros v. induction v using Value_ind'; intros d t; cbn [trace]; try apply ensure_prim_mark.
  - (* none *) cbn [omark]. rewrite mark_idem. reflexivity.
  - (* some *) rewrite mark_idem, !IHv. destruct (trace o d v t); cbn [omark]; rewrite ?mark_idem; reflexivity.
  - (* newtype struct *) apply IHv.
  - (* seq *)
    unfold ensure_list. destruct (Nat.leb max_depth d); [reflexivity|]. rewrite upgradable_mark, nullable_mark.
    destruct (upgradable t) eqn:Eu; cbn [bind].
    + bind_cases.
    + destruct t as [n|n prev|n i|n k v|n m s fs|n fs|n vs]; cbn [mark_nullable bind omark]; try reflexivity. bind_cases.
  - (* tuple *) shape_case ensure_tuple d t.
  - (* tuple struct *) shape_case ensure_tuple d t.
  - (* map *) destruct (o_map_as_struct o); [shape_case ensure_struct d t|shape_case ensure_map d t].
  - (* struct *) shape_case ensure_struct d t.
  - (* unit variant *) shape_case ensure_union d t.
  - (* newtype variant *) shape_case ensure_union d t.
  - (* tuple variant *) shape_case ensure_union d t.
  - (* struct variant *) shape_case ensure_union d t.
Qed.

Definition trace_seq' (o : Opts) (d : nat) (vs : list Value) (r : Outcome Tracer) : Outcome Tracer :=
  fold_left (fun acc v => do t <- acc ;; trace o d v t) vs r.

Lemma fold_err o d vs : trace_seq' o d vs Err = Err.
Proof. induction vs as [|v r IH]; [reflexivity|]. cbn [trace_seq' fold_left bind]. exact IH. Qed.
Lemma fold_panic o d vs p : trace_seq' o d vs (Panic p) = Panic p.
Proof. induction vs as [|v r IH]; [reflexivity|]. cbn [trace_seq' fold_left bind]. exact IH. Qed.

(* marking the start nullable = marking the end nullable, for any collection of samples *)
Lemma fold_mark o d vs : forall t, trace_seq' o d vs (Ok (mark_nullable t)) = omark (trace_seq' o d vs (Ok t)).
Proof.
  induction vs as [|v r IH]; intros t; [reflexivity|]. cbn [trace_seq' fold_left bind]. rewrite trace_mark.
  destruct (trace o d v t) as [t'| |p]; cbn [omark].
  - apply IH.
  - fold (trace_seq' o d r Err). rewrite fold_err. reflexivity.
  - fold (trace_seq' o d r (Panic p)). rewrite fold_panic. reflexivity.
Qed.

Lemma fold_app o d l1 l2 r : trace_seq' o d (l1 ++ l2) r = trace_seq' o d l2 (trace_seq' o d l1 r).
Proof. unfold trace_seq'. apply fold_left_app. Qed.

(* a null sample anywhere in a collection of samples of any shape: its position is irrelevant, it makes the position nullable and
   changes nothing else - neither success nor any other part of the result *)
Theorem null_anywhere o d l1 l2 t :
  trace_seq' o d (l1 ++ VNone :: l2) (Ok t) = omark (trace_seq' o d (l1 ++ l2) (Ok t)).
Proof.
  rewrite !fold_app. destruct (trace_seq' o d l1 (Ok t)) as [t1| |p].
  - cbn [trace_seq' fold_left bind trace]. apply fold_mark.
  - change (VNone :: l2) with ([VNone] ++ l2). rewrite fold_app, !fold_err. reflexivity.
  - change (VNone :: l2) with ([VNone] ++ l2). rewrite fold_app, !fold_panic. reflexivity.
Qed.

Corollary null_positions_agree o d l1 l2 l1' l2' t : l1 ++ l2 = l1' ++ l2' ->
  trace_seq' o d (l1 ++ VNone :: l2) (Ok t) = trace_seq' o d (l1' ++ VNone :: l2') (Ok t).
Proof. intros E. rewrite !null_anywhere, E. reflexivity. Qed.

(* Some(x) is x plus a null *)
Theorem some_is_null_plus_value o d v t : trace o d (VSome v) t = omark (trace o d v t).
Proof. cbn [trace]. apply trace_mark. Qed.

Corollary null_makes_nullable o d l1 l2 t t' : trace_seq' o d (l1 ++ VNone :: l2) (Ok t) = Ok t' -> t_nullable t' = true.
Proof.
  rewrite null_anywhere. destruct (trace_seq' o d (l1 ++ l2) (Ok t)) as [t1| |p]; cbn [omark]; try discriminate.
  intros H. injection H as <-. apply nullable_mark.
Qed.

(* the elements of a sequence are traced into the item tracer one after the other *)
Lemma trace_seq_eq o d l t :
  trace o d (VSeq l) t =
  do t0 <- ensure_list d t ;;
  match t0 with TList n item => do item' <- trace_seq' o (S d) l (Ok item) ;; Ok (TList n item') | _ => Err end.
Proof.
  cbn [trace]. destruct (ensure_list d t) as [t0| |p]; cbn [bind]; try reflexivity. destruct t0 as [| |n item| | | |]; try reflexivity. f_equal.
  revert item. induction l as [|x r IH]; intros item; [reflexivity|]. cbn [trace_seq' fold_left bind].
  destruct (trace o (S d) x item) as [it'| |p]; cbn [bind].
  - apply IH.
  - fold (trace_seq' o (S d) r Err). rewrite fold_err. reflexivity.
  - fold (trace_seq' o (S d) r (Panic p)). rewrite fold_panic. reflexivity.
Qed.

(* ... so the position of a null among the elements of a sequence is irrelevant, at any depth *)
Theorem null_element_position o d l1 l2 l1' l2' t : l1 ++ l2 = l1' ++ l2' ->
  trace o d (VSeq (l1 ++ VNone :: l2)) t = trace o d (VSeq (l1' ++ VNone :: l2')) t.
Proof.
  intros E. rewrite !trace_seq_eq. destruct (ensure_list d t) as [t0| |p]; cbn [bind]; try reflexivity. destruct t0 as [| |n item| | | |]; try reflexivity.
  rewrite (null_positions_agree o (S d) l1 l2 l1' l2' _ E). reflexivity.
Qed.
