From Coq Require Import String.
From Verif Require Import Tracer TracerTables CoerceTable.

Lemma in_all_pt p : In p all_pt.
Proof. destruct p as [| |[]| | |[]|[]| | |]; cbn; tauto. Qed.
Lemma in_bools x : In x bools.
Proof. destruct x; cbn; tauto. Qed.

Lemma pt_eqb_eq a c : pt_eqb a c = true -> a = c.
Proof.
  destruct a as [| |[]| | |[]|[]| | |], c as [| |[]| | |[]|[]| | |]; cbn; intros H; try discriminate; reflexivity.
Qed.

Lemma res_eqb_eq a c : res_eqb a c = true -> a = c.
Proof.
  destruct a as [[p n]|], c as [[q m]|]; cbn; intros H; try discriminate; [|reflexivity].
  apply andb_true_iff in H as [H1 H2]. apply pt_eqb_eq in H1. apply Bool.eqb_prop in H2. subst. reflexivity.
Qed.

Lemma table_agrees_true : table_agrees = true.
Proof. vm_compute. reflexivity. Qed.

(* for every input: the arms of the source, read as a first-match table, are the model's coerce_core *)
Theorem coerce_table_is_model cn ts lg prev nl curr :
  first_match coerce_arms cn ts lg prev nl curr = Some (coerce_core cn ts lg prev nl curr).
Proof.
  pose proof table_agrees_true as H. unfold table_agrees in H.
  rewrite forallb_forall in H. specialize (H cn (in_bools cn)).
  rewrite forallb_forall in H. specialize (H ts (in_bools ts)).
  rewrite forallb_forall in H. specialize (H lg (in_bools lg)).
  rewrite forallb_forall in H. specialize (H nl (in_bools nl)).
  rewrite forallb_forall in H. specialize (H prev (in_all_pt prev)).
  rewrite forallb_forall in H. specialize (H curr (in_all_pt curr)).
  destruct (first_match coerce_arms cn ts lg prev nl curr) as [r|]; [|discriminate].
  apply res_eqb_eq in H. rewrite H. reflexivity.
Qed.

From Verif Require Import TracerTablesSpec.
(* the serde-call tables of both tracers are the ones the model was written against, and for every leaf
   call the model's transition is the primitive transition with the type the source names - in both tracers *)
Theorem leaf_calls_match_model :
  forwarders_ok = true /\ sample_calls_ok = true /\ type_calls_ok = true /\ leaf_tables_ok = true /\
  forall o d t, Forall (fun r : String.string * String.string * Value * PT =>
                          let '(_, _, v, p) := r in trace o d v t = ensure_prim o p t) leaf_methods.
Proof.
  split; [vm_compute; reflexivity|]. split; [vm_compute; reflexivity|]. split; [vm_compute; reflexivity|].
  split; [vm_compute; reflexivity|]. intros o d t. repeat constructor.
Qed.
