(* The closed form of leaf-level tracing: the primitive type of a position is a function of the SET
   of non-null leaf kinds seen there (and of three options), whatever the order (C07).
   Kinds are numbered 0..16; sets of kinds are bit masks (N). *)
From Verif Require Export Tracer.
Local Open Scope N_scope.

Definition nkinds : nat := 17.
Definition pt_of_kind (lg : bool) (i : nat) : PT :=
  match i with
  | 0 => PBool | 1 => PI I8 | 2 => PI I16 | 3 => PI I32 | 4 => PI I64
  | 5 => PI U8 | 6 => PI U16 | 7 => PI U32 | 8 => PI U64
  | 9 => PFloat32 | 10 => PFloat64 | 11 => PStr lg | 12 => PTs false | 13 => PTs true
  | 14 => PTime64Ns | 15 => PDate32T | _ => PLargeBinary
  end%nat.
Definition kind_of_pt (p : PT) : option nat :=
  match p with
  | PNull => None | PBool => Some 0 | PI I8 => Some 1 | PI I16 => Some 2 | PI I32 => Some 3 | PI I64 => Some 4
  | PI U8 => Some 5 | PI U16 => Some 6 | PI U32 => Some 7 | PI U64 => Some 8
  | PFloat32 => Some 9 | PFloat64 => Some 10 | PStr _ => Some 11 | PTs false => Some 12 | PTs true => Some 13
  | PTime64Ns => Some 14 | PDate32T => Some 15 | PLargeBinary => Some 16
  end%nat.

Definition bit (i : nat) : N := N.shiftl 1 (N.of_nat i).
Definition subset (s m : N) : bool := N.land s (N.lnot m 17) =? 0.
Definition m_signed : N := 30.          (* bits 1..4 *)
Definition m_unsigned : N := 480.       (* bits 5..8 *)
Definition m_ints : N := 510.
Definition m_floats : N := 1536.        (* bits 9, 10 *)
Definition m_nums : N := 2046.
Definition m_tostring : N := 2047.      (* bool + numbers *)
Definition m_str : N := 2048.
Definition m_ts : N := 12288.           (* bits 12, 13 *)
Definition single (s : N) : bool := negb (s =? 0) && (N.land s (s - 1) =? 0).

(* the primitive type any successful trace of a position ends with, given the set of kinds seen *)
Definition F (cn ts lg : bool) (s : N) : option PT :=
  if s =? 0 then Some PNull
  else if single s then Some (pt_of_kind lg (N.to_nat (N.log2 s)))
  else if negb (N.land s m_str =? 0) || (N.land s m_ts =? m_ts) then
         (if subset s (N.lor (N.lor m_str m_ts) (if ts then m_tostring else 0)) then Some (PStr lg) else None)
  else if subset s m_unsigned then (if cn then Some (PI U64) else None)
  else if subset s m_ints then (if cn then Some (PI I64) else None)
  else if subset s m_nums then (if cn then Some (PFloat64) else None)
  else None.

Definition opt_pt_eqb (a c : option PT) : bool :=
  match a, c with Some x, Some y => pt_eqb x y | None, None => true | _, _ => false end.

(* soundness of the closed form for one more kind *)
Definition step_check (cn ts lg : bool) (s : N) (i : nat) : bool :=
  if s =? 0 then true else
  match F cn ts lg s with
  | None => true
  | Some p =>
    match coerce_core cn ts lg p false (pt_of_kind lg i) with
    | None => true
    | Some (p', n') => opt_pt_eqb (F cn ts lg (N.lor s (bit i))) (Some p') && negb n'
    end
  end.

(* completeness without allow_to_string: the closed form is defined for a set iff every way of
   reaching it succeeds *)
Definition complete_check (cn lg : bool) (s : N) (i : nat) : bool :=
  if s =? 0 then true else
  match F cn false lg (N.lor s (bit i)) with
  | None => true
  | Some p' =>
    match F cn false lg s with
    | None => false
    | Some p => match coerce_core cn false lg p false (pt_of_kind lg i) with
                | Some (q, _) => pt_eqb q p'
                | None => false
                end
    end
  end.

Fixpoint all_sets (n : nat) : list N :=
  match n with
  | O => [0]
  | S n' => let l := all_sets n' in l ++ map (fun s => N.lor s (bit n')) l
  end.

Definition all_checks (chk : N -> nat -> bool) : bool :=
  forallb (fun s => forallb (chk s) (seq 0 nkinds)) (all_sets nkinds).

(* a kind already in the set changes nothing *)
Definition absorb_check (cn ts lg : bool) (s : N) (i : nat) : bool :=
  if N.testbit s (N.of_nat i) then
    match F cn ts lg s with
    | None => true
    | Some p => match coerce_core cn ts lg p false (pt_of_kind lg i) with
                | Some (q, n') => pt_eqb q p && negb n'
                | None => false
                end
    end
  else true.
