(* Records: a field that a sample does not mention is marked nullable by that sample, and stays nullable whatever is
   traced afterwards - for samples of any nested shape. *)
From Verif Require Import Tracer Builder_proofs Null_proofs.
Require Import Lia.
Local Open Scope nat_scope.

(* once nullable, always nullable *)
Lemma mark_fix t : t_nullable t = true -> mark_nullable t = t.
Proof. destruct t; cbn; intros ->; reflexivity. Qed.

Theorem nullable_monotone o d v t t' : t_nullable t = true -> trace o d v t = Ok t' -> t_nullable t' = true.
Proof.
  intros Hn H. rewrite <- (mark_fix t Hn), trace_mark in H. destruct (trace o d v t) as [t1| |p]; cbn [omark] in H; try discriminate.
  injection H as <-. apply nullable_mark.
Qed.

(* ---- the fields of a record tracer while one sample is processed ---- *)
Definition fname3 (f : bytes * Tracer * nat) : bytes := fst (fst f).
Definition ftr3 (f : bytes * Tracer * nat) : Tracer := snd (fst f).
Definition fls3 (f : bytes * Tracer * nat) : nat := snd f.

(* field `k` is present with a nullable tracer *)
Definition has_nullable (k : bytes) (fs : list (bytes * Tracer * nat)) : Prop :=
  exists t ls, In (k, t, ls) fs /\ t_nullable t = true.
(* every field called k is nullable, and there is one *)
Definition all_nullable (k : bytes) (fs : list (bytes * Tracer * nat)) : Prop :=
  (exists f, In f fs /\ fname3 f = k) /\ forall f, In f fs -> fname3 f = k -> t_nullable (ftr3 f) = true.

Lemma set_field_in fs : forall i t seen f, In f (set_field fs i t seen) ->
  In f fs \/ (exists n t0 ls0, nth_error fs i = Some (n, t0, ls0) /\ f = (n, t, seen)).
Proof.
  induction fs as [|[[n t0] ls0] r IH]; intros [|i] t seen f H; cbn [set_field] in H; try contradiction.
  - destruct H as [<-|H]; [right; exists n, t0, ls0; split; reflexivity|left; right; exact H].
  - destruct H as [<-|H]; [left; left; reflexivity|]. destruct (IH i t seen f H) as [H1|(n' & t' & ls' & E & ->)]; [left; right; exact H1|].
    right. exists n', t', ls'. split; [exact E|reflexivity].
Qed.

Lemma find_field_nth fs : forall key t i, find_field_idx fs key = Some (t, i) ->
  exists ls, nth_error fs i = Some (key, t, ls).
Proof.
  induction fs as [|[[n t0] ls0] r IH]; intros key t i H; cbn [find_field_idx] in H; [discriminate|].
  destruct (bytes_eqb n key) eqn:E.
  - injection H as <- <-. apply bytes_eqb_eq in E. subst n. exists ls0. reflexivity.
  - destruct (find_field_idx r key) as [[t' j]|] eqn:Ef; [|discriminate]. injection H as <- <-.
    destruct (IH key t' j Ef) as (ls & Hn). exists ls. exact Hn.
Qed.

Lemma set_field_names fs : forall i t seen, map fname3 (set_field fs i t seen) = map fname3 fs.
Proof.
  induction fs as [|[[n t0] ls0] r IH]; intros [|i] t seen; cbn [set_field map]; try reflexivity.
  f_equal. apply IH.
Qed.

(* ---- the record loops as standalone functions ---- *)
Section Loops.
  Variable tr : nat -> Value -> Tracer -> Outcome Tracer.
  Fixpoint sfields (dots seen : nat) (fs : list (bytes * Value)) (acc : list (bytes * Tracer * nat)) : Outcome (list (bytes * Tracer * nat)) :=
    match fs with
    | [] => Ok acc
    | (key, x) :: r => do acc' <- struct_field (tr (S dots + count_dots key) x) key seen acc ;; sfields dots seen r acc'
    end.
  Section M.
    Variables dots seen : nat.
    Fixpoint mfields (kvs : list (Value * Value)) (acc : list (bytes * Tracer * nat)) : Outcome (list (bytes * Tracer * nat)) :=
      match kvs with
      | [] => Ok acc
      | (VStr key, x) :: r => do acc' <- struct_field (tr (S dots + count_dots key) x) key seen acc ;; mfields r acc'
      | _ :: _ => Err
      end.
  End M.
End Loops.

Lemma trace_struct_eq o d fs t :
  trace o d (VStruct fs) t =
  do t0 <- ensure_struct d false t ;;
  match t0 with
  | TStruct n m seen fields => do fields' <- sfields (trace o) d seen fs fields ;; Ok (TStruct n m (S seen) (struct_end seen fields'))
  | _ => Err
  end.
Proof.
  cbn [trace]. destruct (ensure_struct d false t) as [t0| |p]; cbn [bind]; reflexivity.
Qed.

Lemma trace_map_struct_eq o d kvs t : o_map_as_struct o = true ->
  trace o d (VMap kvs) t =
  do t0 <- ensure_struct d true t ;;
  match t0 with
  | TStruct n m seen fields => do fields' <- mfields (trace o) d seen kvs fields ;; Ok (TStruct n m (S seen) (struct_end seen fields'))
  | _ => Err
  end.
Proof.
  intros Hm. cbn [trace]. rewrite Hm. destruct (ensure_struct d true t) as [t0| |p]; cbn [bind]; reflexivity.
Qed.

(* ---- invariants of the field list ---- *)
Definition NK (k : bytes) (fs : list (bytes * Tracer * nat)) : Prop := forall f, In f fs -> fname3 f = k -> t_nullable (ftr3 f) = true.
Definition UN (k : bytes) (seen : nat) (fs : list (bytes * Tracer * nat)) : Prop := forall f, In f fs -> fname3 f = k -> fls3 f < seen.
Definition LT (seen : nat) (fs : list (bytes * Tracer * nat)) : Prop := forall f, In f fs -> fls3 f < seen.
Definition LE (seen : nat) (fs : list (bytes * Tracer * nat)) : Prop := forall f, In f fs -> fls3 f <= seen.

Definition Mono (tr : Tracer -> Outcome Tracer) : Prop := forall t t', t_nullable t = true -> tr t = Ok t' -> t_nullable t' = true.

Lemma struct_field_cases tr key seen fs fs' : struct_field tr key seen fs = Ok fs' ->
  (exists t i ls t', find_field_idx fs key = Some (t, i) /\ nth_error fs i = Some (key, t, ls) /\ tr t = Ok t' /\ fs' = set_field fs i t' seen) \/
  (exists t', find_field_idx fs key = None /\ tr (if Nat.eqb seen 0 then TUnknown false else TUnknown true) = Ok t' /\ fs' = fs ++ [(key, t', seen)]).
Proof.
  unfold struct_field. destruct (find_field_idx fs key) as [[t i]|] eqn:Ef.
  - intros H. apply bind_ok in H as (t' & Ht & H). injection H as <-. destruct (find_field_nth fs key t i Ef) as (ls & Hn).
    left. exists t, i, ls, t'. repeat split; assumption.
  - intros H. apply bind_ok in H as (t' & Ht & H). injection H as <-. right. exists t'. repeat split; assumption.
Qed.

Lemma sf_in tr key seen fs fs' f : struct_field tr key seen fs = Ok fs' -> In f fs' ->
  In f fs \/ (fname3 f = key /\ fls3 f = seen /\
              ((exists t ls, In (key, t, ls) fs /\ tr t = Ok (ftr3 f)) \/
               (tr (if Nat.eqb seen 0 then TUnknown false else TUnknown true) = Ok (ftr3 f)))).
Proof.
  intros H Hin. destruct (struct_field_cases tr key seen fs fs' H) as [(t & i & ls & t' & _ & Hn & Ht & ->)|(t' & _ & Ht & ->)].
  - destruct (set_field_in fs i t' seen f Hin) as [H1|(n & t0 & ls0 & Hn' & ->)]; [left; exact H1|]. rewrite Hn in Hn'. injection Hn' as <- <- <-.
    right. cbn. repeat split. left. exists t, ls. split; [apply (nth_error_In _ _ Hn)|exact Ht].
  - apply in_app_iff in Hin as [H1|[<-|[]]]; [left; exact H1|]. right. cbn. repeat split. right. exact Ht.
Qed.

Lemma sf_NK tr k key seen fs fs' : Mono tr -> 1 <= seen -> NK k fs -> struct_field tr key seen fs = Ok fs' -> NK k fs'.
Proof.
  intros Hm Hs Hnk H f Hin Hk. destruct (sf_in tr key seen fs fs' f H Hin) as [H1|(Hn & _ & [(t & ls & Hin0 & Ht)|Ht])].
  - apply (Hnk f H1 Hk).
  - assert (Ek : fname3 (key, t, ls) = k) by (cbn; congruence). apply (Hm t _ (Hnk (key, t, ls) Hin0 Ek) Ht).
  - destruct (Nat.eqb_spec seen 0); [lia|]. apply (Hm (TUnknown true) _ eq_refl Ht).
Qed.

Lemma sf_UN tr k key seen fs fs' : key <> k -> UN k seen fs -> struct_field tr key seen fs = Ok fs' -> UN k seen fs'.
Proof.
  intros Hne Hun H f Hin Hk. destruct (sf_in tr key seen fs fs' f H Hin) as [H1|(Hn & _)]; [apply (Hun f H1 Hk)|congruence].
Qed.

Lemma sf_LE tr key seen fs fs' : LE seen fs -> struct_field tr key seen fs = Ok fs' -> LE seen fs'.
Proof.
  intros Hle H f Hin. destruct (sf_in tr key seen fs fs' f H Hin) as [H1|(_ & Hs & _)]; [apply (Hle f H1)|lia].
Qed.

Section LoopFacts.
  Variable o : Opts.
  Lemma mono_trace d x : Mono (trace o d x).
  Proof. intros t t' Hn H. apply (nullable_monotone o d x t t' Hn H). Qed.

  Lemma sfields_NK k d seen : 1 <= seen -> forall fa fs fs', NK k fs -> sfields (trace o) d seen fa fs = Ok fs' -> NK k fs'.
  Proof.
    intros Hs. induction fa as [|[key x] r IH]; intros fs fs' Hnk H; cbn [sfields] in H; [injection H as <-; exact Hnk|].
    apply bind_ok in H as (acc & Hf & H). apply (IH acc fs' (sf_NK _ k key seen fs acc (mono_trace _ x) Hs Hnk Hf) H).
  Qed.
  Lemma sfields_UN k d seen : forall fa fs fs', ~ In k (map fst fa) -> UN k seen fs -> sfields (trace o) d seen fa fs = Ok fs' -> UN k seen fs'.
  Proof.
    induction fa as [|[key x] r IH]; intros fs fs' Hk Hun H; cbn [sfields] in H; [injection H as <-; exact Hun|].
    apply bind_ok in H as (acc & Hf & H). cbn [map fst In] in Hk.
    apply (IH acc fs'); [tauto|eapply (sf_UN _ k key seen fs acc); [tauto|exact Hun|exact Hf]|exact H].
  Qed.
  Lemma sfields_LE d seen : forall fa fs fs', LE seen fs -> sfields (trace o) d seen fa fs = Ok fs' -> LE seen fs'.
  Proof.
    induction fa as [|[key x] r IH]; intros fs fs' Hle H; cbn [sfields] in H; [injection H as <-; exact Hle|].
    apply bind_ok in H as (acc & Hf & H). apply (IH acc fs' (sf_LE _ key seen fs acc Hle Hf) H).
  Qed.

  Lemma mfields_NK k d seen : 1 <= seen -> forall kvs fs fs', NK k fs -> mfields (trace o) d seen kvs fs = Ok fs' -> NK k fs'.
  Proof.
    intros Hs. induction kvs as [|[key x] r IH]; intros fs fs' Hnk H; cbn [mfields] in H; [injection H as <-; exact Hnk|].
    destruct key; try discriminate H.
    apply bind_ok in H as (acc & Hf & H). apply (IH acc fs' (sf_NK _ k s seen fs acc (mono_trace _ x) Hs Hnk Hf) H).
  Qed.
  Lemma mfields_LE d seen : forall kvs fs fs', LE seen fs -> mfields (trace o) d seen kvs fs = Ok fs' -> LE seen fs'.
  Proof.
    induction kvs as [|[key x] r IH]; intros fs fs' Hle H; cbn [mfields] in H; [injection H as <-; exact Hle|].
    destruct key; try discriminate H.
    apply bind_ok in H as (acc & Hf & H). apply (IH acc fs' (sf_LE _ s seen fs acc Hle Hf) H).
  Qed.
End LoopFacts.

(* the end of a record *)
Lemma struct_end_in seen fs f : In f (struct_end seen fs) ->
  exists g, In g fs /\ fname3 f = fname3 g /\ fls3 f = fls3 g /\
            ((fls3 g = seen /\ f = g) \/ (fls3 g <> seen /\ ftr3 f = mark_nullable (ftr3 g))).
Proof.
  unfold struct_end. intros H. apply in_map_iff in H as ([[n t] ls] & <- & Hin). exists (n, t, ls). split; [exact Hin|].
  destruct (Nat.eqb_spec ls seen); cbn; repeat split; [left|right]; split; try reflexivity; assumption.
Qed.

Lemma struct_end_NK k seen fs : NK k fs -> NK k (struct_end seen fs).
Proof.
  intros Hnk f Hin Hk. destruct (struct_end_in seen fs f Hin) as (g & Hg & Hn & _ & [[_ ->]|[_ Ht]]).
  - apply (Hnk g Hg). congruence.
  - rewrite Ht. apply nullable_mark.
Qed.
Lemma struct_end_UN k seen fs : UN k seen fs -> NK k (struct_end seen fs).
Proof.
  intros Hun f Hin Hk. destruct (struct_end_in seen fs f Hin) as (g & Hg & Hn & _ & [[Hs ->]|[_ Ht]]).
  - assert (Ek : fname3 g = k) by congruence. specialize (Hun g Hg Ek). lia.
  - rewrite Ht. apply nullable_mark.
Qed.
Lemma struct_end_LT seen fs : LE seen fs -> LT (S seen) (struct_end seen fs).
Proof. intros Hle f Hin. destruct (struct_end_in seen fs f Hin) as (g & Hg & _ & Hl & _). specialize (Hle g Hg). lia. Qed.

(* ---- the record tracer as a whole ---- *)
Definition SK (k : bytes) (t : Tracer) : Prop := exists n m s fs, t = TStruct n m s fs /\ 1 <= s /\ NK k fs.
Definition LTtop (t : Tracer) : Prop := match t with TStruct _ _ seen fs => LT seen fs | _ => True end.

Lemma LTtop_mark t : LTtop (mark_nullable t) <-> LTtop t.
Proof. destruct t; cbn; tauto. Qed.
Lemma SK_mark k t : SK k t -> SK k (mark_nullable t).
Proof. intros (n & m & s & fs & -> & Hs & Hn). exists true, m, s, fs. repeat split; assumption. Qed.

Lemma ensure_struct_on_struct d mm n m s fs t0 : ensure_struct d mm (TStruct n m s fs) = Ok t0 -> t0 = TStruct n (m || mm) s fs.
Proof. unfold ensure_struct. destruct (Nat.leb max_depth d); [discriminate|]. cbn [upgradable]. intros H. injection H as <-. reflexivity. Qed.

Section Whole.
  Variable o : Opts.

  (* B: once every field called k is nullable (and a sample has been seen), this stays so whatever is traced *)
  Lemma keep_SK k : forall v d t t', SK k t -> trace o d v t = Ok t' -> SK k t'.
  Proof.
    intros v. induction v using Value_ind'; intros d t t' HS Htr;
      try (destruct HS as (n0 & m0 & s0 & fs0 & -> & Hs & Hn); cbn [trace ensure_prim] in Htr;
           match type of Htr with
           | (if ?c then _ else _) = _ => destruct c; [injection Htr as <-; exists true, m0, s0, fs0; repeat split; assumption|discriminate]
           end).
    - (* none *) cbn [trace] in Htr. injection Htr as <-. apply SK_mark, HS.
    - (* some *) cbn [trace] in Htr. apply (IHv d _ t' (SK_mark k t HS) Htr).
    - (* newtype *) cbn [trace] in Htr. apply (IHv d t t' HS Htr).
    - (* seq *) destruct HS as (n & m & s & fs & -> & _). cbn [trace] in Htr. unfold ensure_list in Htr. destruct (Nat.leb max_depth d); discriminate.
    - destruct HS as (n & m & s & fs & -> & _). cbn [trace] in Htr. unfold ensure_tuple in Htr. destruct (Nat.leb max_depth d); discriminate.
    - destruct HS as (n & m & s & fs & -> & _). cbn [trace] in Htr. unfold ensure_tuple in Htr. destruct (Nat.leb max_depth d); discriminate.
    - (* map *) destruct HS as (n & m & s & fs & -> & Hs & Hn). destruct (o_map_as_struct o) eqn:Em.
      + rewrite (trace_map_struct_eq o d kvs _ Em) in Htr. apply bind_ok in Htr as (t0 & He & Htr). apply ensure_struct_on_struct in He. subst t0.
        apply bind_ok in Htr as (fs' & Hl & Htr). injection Htr as <-. exists n, (m || true), (S s), (struct_end s fs'). repeat split; [lia|].
        apply struct_end_NK. apply (mfields_NK o k d s Hs kvs fs fs' Hn Hl).
      + cbn [trace] in Htr. rewrite Em in Htr. unfold ensure_map in Htr. destruct (Nat.leb max_depth d); discriminate.
    - (* struct *) destruct HS as (n & m & s & fs0 & -> & Hs & Hn). rewrite trace_struct_eq in Htr. apply bind_ok in Htr as (t0 & He & Htr).
      apply ensure_struct_on_struct in He. subst t0. apply bind_ok in Htr as (fs' & Hl & Htr). injection Htr as <-.
      exists n, (m || false), (S s), (struct_end s fs'). repeat split; [lia|]. apply struct_end_NK. apply (sfields_NK o k d s Hs fs fs0 fs' Hn Hl).
    - destruct HS as (n' & m & s & fs & -> & _). cbn [trace] in Htr. unfold ensure_union in Htr. destruct (Nat.leb max_depth d); discriminate.
    - destruct HS as (n' & m & s & fs & -> & _). cbn [trace] in Htr. unfold ensure_union in Htr. destruct (Nat.leb max_depth d); discriminate.
    - destruct HS as (n' & m & s & fs & -> & _). cbn [trace] in Htr. unfold ensure_union in Htr. destruct (Nat.leb max_depth d); discriminate.
    - destruct HS as (n' & m & s & fs0 & -> & _). cbn [trace] in Htr. unfold ensure_union in Htr. destruct (Nat.leb max_depth d); discriminate.
  Qed.

  (* the record tracer a struct-like sample starts from *)
  Lemma ensure_struct_start d mm t t0 : LTtop t -> ensure_struct d mm t = Ok t0 ->
    exists n m s fs, t0 = TStruct n m s fs /\ LT s fs.
  Proof.
    unfold ensure_struct. destruct (Nat.leb max_depth d); [discriminate|]. destruct (upgradable t) eqn:Eu.
    - intros _ E. injection E as <-. exists (t_nullable t), mm, 0, []. split; [reflexivity|]. intros f [].
    - destruct t as [| | | |n m s fs| |]; try discriminate. intros Hl E. injection E as <-. exists n, (m || mm), s, fs. split; [reflexivity|exact Hl].
  Qed.

  (* A: a record sample that does not mention k leaves every field called k nullable *)
  Lemma struct_sample_marks k d fa t t' : LTtop t -> ~ In k (map fst fa) -> trace o d (VStruct fa) t = Ok t' -> SK k t'.
  Proof.
    intros Hl Hk Htr. rewrite trace_struct_eq in Htr. apply bind_ok in Htr as (t0 & He & Htr).
    destruct (ensure_struct_start d false t t0 Hl He) as (n & m & s & fs & -> & Hlt).
    apply bind_ok in Htr as (fs' & Hloop & Htr). injection Htr as <-. exists n, m, (S s), (struct_end s fs'). repeat split; [lia|].
    apply struct_end_UN. apply (sfields_UN o k d s fa fs fs' Hk); [|exact Hloop]. intros f Hin _. apply (Hlt f Hin).
  Qed.

  (* the counters of the top-level record stay below the sample counter *)
  Lemma keep_LTtop : forall v d t t', LTtop t -> trace o d v t = Ok t' -> LTtop t'.
  Proof.
    intros v. induction v using Value_ind'; intros d t t' Hl Htr;
      try (cbn [trace] in Htr; unfold ensure_prim in Htr; destruct t as [n0|n0 prev|n0 it|n0 kt vt|n0 m0 s0 fs0|n0 fs0|n0 vs0];
           repeat match type of Htr with
                  | (if ?c then _ else _) = _ => destruct c
                  | match ?c with _ => _ end = _ => destruct c as [[? ?]|]
                  end; try discriminate; injection Htr as <-; exact Hl || exact I).
    - cbn [trace] in Htr. apply (IHv d (mark_nullable t) t'); [apply LTtop_mark, Hl|exact Htr].
    - cbn [trace] in Htr. apply (IHv d t t' Hl Htr).
    - (* seq *) rewrite trace_seq_eq in Htr. apply bind_ok in Htr as (t0 & _ & Htr). destruct t0; try discriminate.
      apply bind_ok in Htr as (it' & _ & Htr). injection Htr as <-. exact I.
    - cbn [trace] in Htr. apply bind_ok in Htr as (t0 & _ & Htr). destruct t0; try discriminate. apply bind_ok in Htr as (x & _ & Htr). injection Htr as <-. exact I.
    - cbn [trace] in Htr. apply bind_ok in Htr as (t0 & _ & Htr). destruct t0; try discriminate. apply bind_ok in Htr as (x & _ & Htr). injection Htr as <-. exact I.
    - (* map *) destruct (o_map_as_struct o) eqn:Em.
      + rewrite (trace_map_struct_eq o d kvs _ Em) in Htr. apply bind_ok in Htr as (t0 & He & Htr).
        destruct (ensure_struct_start d true t t0 Hl He) as (n & m & s & fs & -> & Hlt).
        apply bind_ok in Htr as (fs' & Hloop & Htr). injection Htr as <-. cbn [LTtop]. apply struct_end_LT.
        apply (mfields_LE o d s kvs fs fs'); [|exact Hloop]. intros f Hin. specialize (Hlt f Hin). lia.
      + cbn [trace] in Htr. rewrite Em in Htr. apply bind_ok in Htr as (t0 & _ & Htr). destruct t0; try discriminate.
        apply bind_ok in Htr as (x & _ & Htr). injection Htr as <-. exact I.
    - (* struct *) rewrite trace_struct_eq in Htr. apply bind_ok in Htr as (t0 & He & Htr).
      destruct (ensure_struct_start d false t t0 Hl He) as (n & m & s & fs0 & -> & Hlt).
      apply bind_ok in Htr as (fs' & Hloop & Htr). injection Htr as <-. cbn [LTtop]. apply struct_end_LT.
      apply (sfields_LE o d s fs fs0 fs'); [|exact Hloop]. intros f Hin. specialize (Hlt f Hin). lia.
    - cbn [trace] in Htr. apply bind_ok in Htr as (t0 & _ & Htr). destruct t0; try discriminate.
      repeat match type of Htr with
             | (if ?c then _ else _) = _ => destruct c
             | match ?c with _ => _ end = _ => destruct c as [[? ?]|]
             | bind _ _ = Ok _ => apply bind_ok in Htr as (? & _ & Htr)
             end; try discriminate; injection Htr as <-; exact I.
    - cbn [trace] in Htr. apply bind_ok in Htr as (t0 & _ & Htr). destruct t0; try discriminate.
      repeat match type of Htr with
             | (if ?c then _ else _) = _ => destruct c
             | match ?c with _ => _ end = _ => destruct c as [[? ?]|]
             | bind _ _ = Ok _ => apply bind_ok in Htr as (? & _ & Htr)
             end; try discriminate; injection Htr as <-; exact I.
    - cbn [trace] in Htr. apply bind_ok in Htr as (t0 & _ & Htr). destruct t0; try discriminate.
      repeat match type of Htr with
             | (if ?c then _ else _) = _ => destruct c
             | match ?c with _ => _ end = _ => destruct c as [[? ?]|]
             | bind _ _ = Ok _ => apply bind_ok in Htr as (? & _ & Htr)
             end; try discriminate; injection Htr as <-; exact I.
    - cbn [trace] in Htr. apply bind_ok in Htr as (t0 & _ & Htr). destruct t0; try discriminate.
      repeat match type of Htr with
             | (if ?c then _ else _) = _ => destruct c
             | match ?c with _ => _ end = _ => destruct c as [[? ?]|]
             | bind _ _ = Ok _ => apply bind_ok in Htr as (? & _ & Htr)
             end; try discriminate; injection Htr as <-; exact I.
  Qed.
End Whole.

Section EndToEnd.
  Variable o : Opts.

  Lemma fold_LTtop d : forall vs t t', LTtop t -> trace_seq' o d vs (Ok t) = Ok t' -> LTtop t'.
  Proof.
    induction vs as [|v r IH]; intros t t' Hl H; [injection H as <-; exact Hl|]. cbn [trace_seq' fold_left bind] in H.
    destruct (trace o d v t) as [t1| |p] eqn:E.
    - apply (IH t1 t' (keep_LTtop o v d t t1 Hl E) H).
    - fold (trace_seq' o d r Err) in H. rewrite fold_err in H. discriminate.
    - fold (trace_seq' o d r (Panic p)) in H. rewrite fold_panic in H. discriminate.
  Qed.
  Lemma fold_SK k d : forall vs t t', SK k t -> trace_seq' o d vs (Ok t) = Ok t' -> SK k t'.
  Proof.
    induction vs as [|v r IH]; intros t t' Hs H; [injection H as <-; exact Hs|]. cbn [trace_seq' fold_left bind] in H.
    destruct (trace o d v t) as [t1| |p] eqn:E.
    - apply (IH t1 t' (keep_SK o k v d t t1 Hs E) H).
    - fold (trace_seq' o d r Err) in H. rewrite fold_err in H. discriminate.
    - fold (trace_seq' o d r (Panic p)) in H. rewrite fold_panic in H. discriminate.
  Qed.

  (* a field that some record sample does not mention is nullable at the end, whatever the other samples are (records with any
     nested content, records presented as maps, nulls, Some(..) wrappers), wherever the sample stands in the order, and whether the
     field was first seen before or after it *)
  Theorem missing_field_is_nullable d pre fa post n0 n m s fs k :
    ~ In k (map fst fa) ->
    trace_seq' o d (pre ++ VStruct fa :: post) (Ok (TUnknown n0)) = Ok (TStruct n m s fs) ->
    forall f, In f fs -> fname3 f = k -> t_nullable (ftr3 f) = true.
  Proof.
    intros Hk H. rewrite fold_app in H. destruct (trace_seq' o d pre (Ok (TUnknown n0))) as [t1| |p] eqn:E1.
    - pose proof (fold_LTtop d pre (TUnknown n0) t1 I E1) as Hl1. cbn [trace_seq' fold_left bind] in H.
      destruct (trace o d (VStruct fa) t1) as [t2| |p] eqn:E2.
      + pose proof (struct_sample_marks o k d fa t1 t2 Hl1 Hk E2) as Hs2.
        destruct (fold_SK k d post t2 _ Hs2 H) as (n' & m' & s' & fs' & E & _ & Hnk). injection E as <- <- <- <-. exact Hnk.
      + fold (trace_seq' o d post Err) in H. rewrite fold_err in H. discriminate.
      + fold (trace_seq' o d post (Panic p)) in H. rewrite fold_panic in H. discriminate.
    - change (VStruct fa :: post) with ([VStruct fa] ++ post) in H. rewrite fold_app, !fold_err in H. discriminate.
    - change (VStruct fa :: post) with ([VStruct fa] ++ post) in H. rewrite fold_app, !fold_panic in H. discriminate.
  Qed.
End EndToEnd.

(* ---- field order: fields appear in first-seen order, are never removed or renamed ---- *)
Definition add_name (acc : list bytes) (k : bytes) : list bytes := if existsb (bytes_eqb k) acc then acc else acc ++ [k].
Definition add_names (acc : list bytes) (ks : list bytes) : list bytes := fold_left add_name ks acc.

Lemma bytes_eqb_sym x y : bytes_eqb x y = bytes_eqb y x.
Proof.
  destruct (bytes_eqb x y) eqn:E1, (bytes_eqb y x) eqn:E2; try reflexivity.
  - apply bytes_eqb_eq in E1. subst. rewrite bytes_eqb_refl in E2. discriminate.
  - apply bytes_eqb_eq in E2. subst. rewrite bytes_eqb_refl in E1. discriminate.
Qed.

Lemma find_none_names fs key : find_field_idx fs key = None <-> existsb (bytes_eqb key) (map fname3 fs) = false.
Proof.
  induction fs as [|[[n t] ls] r IH]; cbn [find_field_idx map existsb fname3 fst]; [tauto|].
  rewrite (bytes_eqb_sym key n). destruct (bytes_eqb n key) eqn:E; cbn [orb].
  - split; discriminate.
  - destruct (find_field_idx r key) as [[t' i]|]; [split; [discriminate|]|]; rewrite <- IH; [discriminate|tauto].
Qed.

Lemma sf_names tr key seen fs fs' : struct_field tr key seen fs = Ok fs' -> map fname3 fs' = add_name (map fname3 fs) key.
Proof.
  intros H. unfold add_name. destruct (struct_field_cases tr key seen fs fs' H) as [(t & i & ls & t' & Ef & _ & _ & ->)|(t' & Ef & _ & ->)].
  - rewrite set_field_names. destruct (existsb (bytes_eqb key) (map fname3 fs)) eqn:E; [reflexivity|]. apply find_none_names in E. congruence.
  - apply find_none_names in Ef. rewrite Ef, map_app. reflexivity.
Qed.

Lemma struct_end_names seen fs : map fname3 (struct_end seen fs) = map fname3 fs.
Proof. unfold struct_end. rewrite map_map. apply map_ext. intros [[n t] ls]. destruct (Nat.eqb ls seen); reflexivity. Qed.

Lemma sfields_names o d seen : forall fa fs fs', sfields (trace o) d seen fa fs = Ok fs' -> map fname3 fs' = add_names (map fname3 fs) (map fst fa).
Proof.
  induction fa as [|[key x] r IH]; intros fs fs' H; cbn [sfields] in H; [injection H as <-; reflexivity|].
  apply bind_ok in H as (acc & Hf & H). rewrite (IH acc fs' H), (sf_names _ key seen fs acc Hf). reflexivity.
Qed.

(* one record sample: the field names grow by the new keys, in the order of their first occurrence *)
Theorem record_sample_names o d fa t t' : trace o d (VStruct fa) t = Ok t' ->
  exists n m s fs', t' = TStruct n m s fs' /\
    map fname3 fs' = add_names (match t with TStruct _ _ _ fs => map fname3 fs | _ => [] end) (map fst fa).
Proof.
  intros H. rewrite trace_struct_eq in H. apply bind_ok in H as (t0 & He & H).
  unfold ensure_struct in He. destruct (Nat.leb max_depth d); [discriminate|]. destruct (upgradable t) eqn:Eu.
  - injection He as <-. apply bind_ok in H as (fs' & Hl & H). injection H as <-. do 4 eexists. split; [reflexivity|].
    rewrite struct_end_names, (sfields_names o d 0 fa [] fs' Hl). destruct t as [| n []| | |? ? ? fs0| |]; try discriminate Eu; reflexivity.
  - destruct t as [| | | |n m s fs0| |]; try discriminate He. injection He as <-. apply bind_ok in H as (fs' & Hl & H). injection H as <-.
    do 4 eexists. split; [reflexivity|]. rewrite struct_end_names, (sfields_names o d s fa fs0 fs' Hl). reflexivity.
Qed.

(* a collection of record samples: the fields of the result are all keys, in first-seen order *)
Theorem record_collection_names o d : forall samples t t',
  Forall (fun v => exists fa, v = VStruct fa) samples ->
  (match t with TStruct _ _ _ _ | TUnknown _ => True | _ => False end) ->
  samples <> [] -> trace_seq' o d samples (Ok t) = Ok t' ->
  exists n m s fs', t' = TStruct n m s fs' /\
    map fname3 fs' = fold_left (fun acc v => match v with VStruct fa => add_names acc (map fst fa) | _ => acc end) samples
                               (match t with TStruct _ _ _ fs => map fname3 fs | _ => [] end).
Proof.
  induction samples as [|v r IH]; intros t t' HF Ht Hne H; [congruence|]. cbn [trace_seq' fold_left bind] in H.
  destruct (Forall_inv HF) as (fa & ->). destruct (trace o d (VStruct fa) t) as [t1| |p] eqn:E.
  - destruct (record_sample_names o d fa t t1 E) as (n1 & m1 & s1 & fs1 & -> & Hn1).
    destruct r as [|v2 r2].
    + injection H as <-. do 4 eexists. split; [reflexivity|]. cbn [fold_left]. exact Hn1.
    + destruct (IH (TStruct n1 m1 s1 fs1) t' (Forall_inv_tail HF) I ltac:(discriminate) H) as (n & m & s & fs' & -> & Hn).
      do 4 eexists. split; [reflexivity|]. rewrite Hn. cbn [fold_left]. rewrite Hn1. reflexivity.
  - fold (trace_seq' o d r Err) in H. rewrite fold_err in H. discriminate.
  - fold (trace_seq' o d r (Panic p)) in H. rewrite fold_panic in H. discriminate.
Qed.
