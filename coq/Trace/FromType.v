(* Model of schema tracing from a type: serde_arrow/src/internal/schema/from_type/mod.rs.
   `Tracer::from_type` hands the tracer to `T::deserialize` until the tracer is complete or the
   iteration budget is used up.  One call of `T::deserialize(TraceAny(tracer))` is `ft_pass`: the serde
   calls a (derived or std) Deserialize impl makes for a type described by `Ty`, each answered by TraceAny
   with the tracer transition of the source and a default value; of an enum exactly one variant is
   visited per pass - the first whose tracer is not complete. *)
From Verif Require Export Doc.
Local Open Scope nat_scope.

(* Tracer::is_complete *)
Fixpoint complete (t : Tracer) : bool :=
  match t with
  | TUnknown _ => false
  | TPrim _ _ => true
  | TList _ i => complete i
  | TMap _ k v => complete k && complete v
  | TStruct _ _ _ fs =>
    (fix go (l : list (bytes * Tracer * nat)) : bool := match l with [] => true | (_, ft, _) :: r => complete ft && go r end) fs
  | TTuple _ fs => (fix go (l : list Tracer) : bool := match l with [] => true | ft :: r => complete ft && go r end) fs
  | TUnion _ vs =>
    (fix go (l : list (option (bytes * Tracer))) : bool :=
       match l with [] => true | Some (_, vt) :: r => complete vt && go r | None :: r => go r end) vs
  end.

(* ensure_struct(fields, StructMode::Struct) / ensure_union(variants): all children are created up front *)
Definition ensure_struct_named (dots : nat) (names : list bytes) (t : Tracer) : Outcome Tracer :=
  if Nat.leb max_depth dots then Err
  else if upgradable t then Ok (TStruct (t_nullable t) false 0 (map (fun n => (n, TUnknown false, 0)) names))
  else match t with TStruct _ _ _ _ => Ok t | _ => Err end.
Definition ensure_union_named (dots : nat) (names : list bytes) (t : Tracer) : Outcome Tracer :=
  if Nat.leb max_depth dots then Err
  else if upgradable t then Ok (TUnion (t_nullable t) (map (fun n => Some (n, TUnknown false)) names))
  else match t with TUnion _ _ => Ok t | _ => Err end.

(* .position(|opt| !opt.as_ref().unwrap().tracer.is_complete()): None = no such variant *)
Fixpoint first_incomplete (vs : list (option (bytes * Tracer))) : Outcome (option nat) :=
  match vs with
  | [] => Ok None
  | Some (_, vt) :: r => if complete vt then do p <- first_incomplete r ;; Ok (option_map S p) else Ok (Some 0)
  | None :: _ => Panic PUnwrap
  end.

Section Pass.
  Variable o : Opts.

  Fixpoint ft_pass (dots : nat) (ty : Ty) (t : Tracer) {struct ty} : Outcome Tracer :=
    (* TraceStruct: keys are the static field names in order, the value of key i goes to fields[i] *)
    let fields_pass :=
        fix go (dots : nat) (fs : list (bytes * Ty)) (trs : list (bytes * Tracer * nat)) : Outcome (list (bytes * Tracer * nat)) :=
          match fs with
          | [] => Ok trs
          | (_, fty) :: r =>
            match trs with
            | [] => Panic PIndex
            | (tn, ft, ls) :: trs' =>
              do ft' <- ft_pass (S dots + count_dots tn) fty ft ;; do rest <- go dots r trs' ;; Ok ((tn, ft', ls) :: rest)
            end
          end in
    (* TraceTupleStruct: positions in order; running out of tracers ends the sequence early, which the
       visitor of a tuple reports as an invalid length *)
    let tuple_pass :=
        fix go (dots : nat) (ts : list Ty) (trs : list Tracer) : Outcome (list Tracer) :=
          match ts with
          | [] => Ok trs
          | ety :: r =>
            match trs with
            | [] => Err
            | tr :: trs' => do tr' <- ft_pass (S dots) ety tr ;; do rest <- go dots r trs' ;; Ok (tr' :: rest)
            end
          end in
    let as_tuple (dots : nat) (ts : list Ty) (t : Tracer) : Outcome Tracer :=
        do t0 <- ensure_tuple dots (length ts) t ;;
        match t0 with TTuple n trs => do trs' <- tuple_pass dots ts trs ;; Ok (TTuple n trs') | _ => Err end in
    let as_struct (dots : nat) (fs : list (bytes * Ty)) (t : Tracer) : Outcome Tracer :=
        do t0 <- ensure_struct_named dots (map fst fs) t ;;
        match t0 with TStruct n m s trs => do trs' <- fields_pass dots fs trs ;; Ok (TStruct n m s trs') | _ => Err end in
    match ty with
    | TyUnit => ensure_prim o PNull t
    | TyBool => ensure_prim o PBool t
    | TyInt k => ensure_prim o (PI k) t
    | TyF32 => ensure_prim o PFloat32 t
    | TyF64 => ensure_prim o PFloat64 t
    | TyChar => ensure_prim o (PI U32) t
    | TyString => ensure_prim o (PStr (o_large_utf8 o)) t
    | TyBytes => ensure_prim o PLargeBinary t
    | TyOption x => ft_pass dots x (mark_nullable t)
    | TyNewtype x => ft_pass dots x t
    | TySeq x =>
      do t0 <- ensure_list dots t ;;
      match t0 with TList n item => do item' <- ft_pass (S dots) x item ;; Ok (TList n item') | _ => Err end
    | TyTuple ts => as_tuple dots ts t
    | TyMap k v =>
      if o_map_as_struct o then Err
      else do t0 <- ensure_map dots t ;;
           match t0 with
           | TMap n kt vt => do kt' <- ft_pass (S dots) k kt ;; do vt' <- ft_pass (S dots) v vt ;; Ok (TMap n kt' vt')
           | _ => Err
           end
    | TyStruct fs => as_struct dots fs t
    | TyEnum vs =>
      do t0 <- ensure_union_named dots (map fst vs) t ;;
      match t0 with
      | TUnion n variants =>
        do pos <- first_incomplete variants ;;
        let idx := match pos with Some i => i | None => 0 end in
        match get_variant variants idx with
        | None => Err
        | Some (vname, vt) =>
          let vdots := S dots + count_dots vname in
          do vt' <- (fix pick (vs : list (bytes * Payload)) (i : nat) : Outcome Tracer :=
                       match vs, i with
                       | (_, p) :: _, O =>
                         match p with
                         | PUnit => ensure_prim o PNull vt
                         | PNewtype x => ft_pass vdots x vt
                         | PTuple ts => as_tuple vdots ts vt
                         | PStruct fs => as_struct vdots fs vt
                         end
                       | _ :: r, S i' => pick r i'
                       | [], _ => Err            (* the name is not a variant of the type *)
                       end) vs idx ;;
          Ok (TUnion n (set_variant variants idx (vname, vt')))
        end
      | _ => Err
      end
    end.

  (* while !tracer.is_complete() { if budget == 0 { fail } T::deserialize(TraceAny(&mut tracer))?; budget -= 1 } *)
  Fixpoint ft_loop (budget : nat) (ty : Ty) (t : Tracer) : Outcome Tracer :=
    if complete t then Ok t
    else match budget with O => Err | S f => do t' <- ft_pass 0 ty t ;; ft_loop f ty t' end.

  (* Tracer::from_type, finish, check, to_schema *)
  Definition from_type (overwrites : list (bytes * SField)) (budget : nat) (ty : Ty) : Outcome (list SField) :=
    do root <- ft_loop budget ty (TUnknown false) ;;
    if check_overwrites overwrites root then to_schema o overwrites root else Err.
End Pass.
