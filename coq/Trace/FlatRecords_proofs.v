(* Order independence for tables: collections of records whose field values are leaf-like (scalars, strings, bytes, unit, None,
   Some / newtype wrappers of those - the complete leaf alphabet) trace to the same field tracers in every order, field by field.
   Obtained from the projection theorem (Project_proofs.v) and the leaf-level closed form (Coerce_proofs.v). *)
From Verif Require Import Tracer Coerce Coerce_proofs Null_proofs Struct_proofs Project_proofs.
From Coq Require Import Permutation.
Local Open Scope nat_scope.

Lemma vals_perm k SS SS' : Permutation SS SS' -> Permutation (vals k SS) (vals k SS').
Proof. intros H. unfold vals. apply Permutation_flat_map. exact H. Qed.

Lemma missing_perm k SS SS' : Permutation SS SS' -> missing k SS = missing k SS'.
Proof.
  unfold missing. induction 1 as [|x l l' _ IH|x y l|l l' l'' _ IH1 _ IH2]; cbn [existsb]; try congruence.
  - destruct (match flookup k y with Some _ => false | None => true end), (match flookup k x with Some _ => false | None => true end); reflexivity.
Qed.

Lemma trace_seq_same o d vs t : trace_seq' o d vs (Ok t) = trace_seq o d vs t.
Proof. reflexivity. Qed.

Section Flat.
  Variable o : Opts.
  Variable d : nat.

  (* the same records in another order: every field has the same tracer (type, nullability), a field exists in one result iff it
     exists in the other; only the order of the fields (first seen) and internal counters may differ *)
  Theorem flat_records_order_independent SS SS' n0 m s fs m' s' fs' :
    Permutation SS SS' -> Forall (fun fa => NoDup (map fst fa)) SS ->
    (forall k, exists l, all_atoms o (vals k SS) = Some l) ->
    trace_seq' o d (map VStruct SS) (Ok (TUnknown n0)) = Ok (TStruct n0 m s fs) ->
    trace_seq' o d (map VStruct SS') (Ok (TUnknown n0)) = Ok (TStruct n0 m' s' fs') ->
    forall k, option_map fst (fget2 k fs) = option_map fst (fget2 k fs').
  Proof.
    intros Hp HF Hleaf H1 H2 k.
    assert (HF' : Forall (fun fa => NoDup (map fst fa)) SS') by (rewrite Forall_forall in *; intros fa Hin; apply HF; apply (Permutation_in _ (Permutation_sym Hp) Hin)).
    destruct SS as [|fa0 r0].
    { apply Permutation_nil in Hp. subst SS'. cbn in H1, H2. congruence. }
    assert (Hne' : SS' <> []) by (intros ->; apply Permutation_sym, Permutation_nil in Hp; discriminate).
    destruct (record_projection o d (fa0 :: r0) n0 _ ltac:(discriminate) HF H1) as (fs1 & E1 & P1). injection E1 as -> -> ->.
    destruct (record_projection o d SS' n0 _ Hne' HF' H2) as (fs2 & E2 & P2). injection E2 as -> -> ->.
    specialize (P1 k). specialize (P2 k). pose proof (vals_perm k _ _ Hp) as Hvp. pose proof (missing_perm k _ _ Hp) as Hmp.
    destruct (fget2 k fs1) as [[t1 l1]|], (fget2 k fs2) as [[t2 l2]|]; cbn [option_map fst].
    - destruct P1 as (_ & T1 & R1 & ->). destruct P2 as (_ & T2 & R2 & ->). destruct (Hleaf k) as (l & Hl).
      rewrite trace_seq_same in R1, R2. rewrite (leaf_perm o _ _ _ l T1 T2 Hl Hvp R1 R2), Hmp. reflexivity.
    - destruct P1 as (Hne & _). rewrite P2 in Hvp. apply Permutation_sym, Permutation_nil in Hvp. contradiction.
    - destruct P2 as (Hne & _). rewrite P1 in Hvp. apply Permutation_nil in Hvp. contradiction.
    - reflexivity.
  Qed.
End Flat.

