(* Lifting the finite sweeps to traces of any length: the tracer state of a leaf position is a
   function of the summary (any primitive seen?, nullable?, set of kinds) of the values that
   reached it; the summary is a commutative, idempotent fold. *)
From Verif Require Import Coerce CoerceChk_true_true CoerceChk_true_false CoerceChk_false_true CoerceChk_false_false
     CoerceCmp_true CoerceCmp_false.
From Coq Require Import Permutation.
Require Import ZifyBool ZifyNat ZifyN.
Local Open Scope N_scope.
Arguments all_sets : simpl never.
Arguments F : simpl never.
Arguments bit : simpl never.
Arguments N.lor : simpl never.

Inductive Atom := AMark | AKind (p : PT).

Definition astep (o : Opts) (t : Tracer) (a : Atom) : Outcome Tracer :=
  match a with AMark => Ok (mark_nullable t) | AKind p => ensure_prim o p t end.

(* the transitions a leaf value makes (None: not a leaf value) *)
Fixpoint atoms (o : Opts) (v : Value) : option (list Atom) :=
  match v with
  | VBool _ => Some [AKind PBool] | VInt k _ => Some [AKind (PI k)]
  | VF32 _ => Some [AKind PFloat32] | VF64 _ => Some [AKind PFloat64] | VChar _ => Some [AKind (PI U32)]
  | VStr s => Some [AKind (str_type o s)] | VBytes _ => Some [AKind PLargeBinary]
  | VNone => Some [AMark]
  | VSome x => option_map (cons AMark) (atoms o x)
  | VUnit | VUnitStruct => Some [AKind PNull]
  | VNewtypeStruct x => atoms o x
  | _ => None
  end.

Fixpoint run_atoms (o : Opts) (l : list Atom) (t : Tracer) : Outcome Tracer :=
  match l with [] => Ok t | a :: r => do t' <- astep o t a ;; run_atoms o r t' end.

Lemma run_atoms_app o l1 l2 t : run_atoms o (l1 ++ l2) t = do t' <- run_atoms o l1 t ;; run_atoms o l2 t'.
Proof.
  revert t; induction l1 as [|a r IH]; intros t; cbn [app run_atoms bind]; [reflexivity|].
  destruct (astep o t a) as [t'| |p]; cbn [bind]; [apply IH|reflexivity|reflexivity].
Qed.

Lemma trace_leaf o d : forall v la t, atoms o v = Some la -> trace o d v t = run_atoms o la t.
Proof.
  induction v; intros la t H; cbn [atoms] in H; try discriminate; try (inversion H; subst; cbn; destruct (ensure_prim _ _ _); reflexivity).
  - inversion H; subst. reflexivity.
  - destruct (atoms o v) as [l'|] eqn:E; [|discriminate]. inversion H; subst. cbn [trace run_atoms astep bind]. apply IHv. reflexivity.
  - cbn [trace]. apply IHv. exact H.
Qed.

(* values reaching one position, in sequence *)
Definition trace_seq (o : Opts) (d : nat) (vs : list Value) (t : Tracer) : Outcome Tracer :=
  fold_left (fun acc v => do t' <- acc ;; trace o d v t') vs (Ok t).

Fixpoint all_atoms (o : Opts) (vs : list Value) : option (list Atom) :=
  match vs with
  | [] => Some []
  | v :: r => match atoms o v, all_atoms o r with Some a, Some b => Some (a ++ b) | _, _ => None end
  end.

Lemma fold_err {A} (f : Tracer -> A -> Outcome Tracer) l :
  fold_left (fun acc v => do t' <- acc ;; f t' v) l Err = Err.
Proof. induction l; cbn; auto. Qed.
Lemma fold_panic {A} (f : Tracer -> A -> Outcome Tracer) l p :
  fold_left (fun acc v => do t' <- acc ;; f t' v) l (Panic p) = Panic p.
Proof. induction l; cbn; auto. Qed.

Lemma trace_seq_atoms o d : forall vs l t, all_atoms o vs = Some l -> trace_seq o d vs t = run_atoms o l t.
Proof.
  induction vs as [|v r IH]; intros l t H; cbn [all_atoms] in H.
  - inversion H; subst. reflexivity.
  - destruct (atoms o v) as [a|] eqn:Ea; [|discriminate]. destruct (all_atoms o r) as [b0|] eqn:Eb; [|discriminate].
    inversion H; subst. unfold trace_seq. cbn [fold_left bind]. rewrite (trace_leaf o d v a t Ea), run_atoms_app.
    destruct (run_atoms o a t) as [t'| |p]; cbn [bind].
    + apply IH. reflexivity.
    + apply (fold_err (fun t' v => trace o d v t')).
    + apply (fold_panic (fun t' v => trace o d v t')).
Qed.

(* ---------------- the summary ---------------- *)
Record Summ := { s_any : bool; s_null : bool; s_set : N }.
Definition summ0 : Summ := {| s_any := false; s_null := false; s_set := 0 |}.
Definition summ_atom (s : Summ) (a : Atom) : Summ :=
  match a with
  | AMark => {| s_any := s_any s; s_null := true; s_set := s_set s |}
  | AKind p => match kind_of_pt p with
               | None => {| s_any := true; s_null := true; s_set := s_set s |}
               | Some i => {| s_any := true; s_null := s_null s; s_set := N.lor (s_set s) (bit i) |}
               end
  end.
Definition summ (l : list Atom) (s : Summ) : Summ := fold_left summ_atom l s.

Lemma summ_atom_comm s a c : summ_atom (summ_atom s a) c = summ_atom (summ_atom s c) a.
Proof.
  destruct a as [|p], c as [|q]; cbn [summ_atom]; try reflexivity.
  - destruct (kind_of_pt q); reflexivity.
  - destruct (kind_of_pt p); reflexivity.
  - destruct (kind_of_pt p) as [i|], (kind_of_pt q) as [j|]; cbn; try reflexivity.
    f_equal. rewrite <- !N.lor_assoc. f_equal. apply N.lor_comm.
Qed.

Lemma summ_perm l1 l2 : Permutation l1 l2 -> forall s, summ l1 s = summ l2 s.
Proof.
  induction 1 as [|a l1 l2 _ IH|a c l|l1 l2 l3 _ IH1 _ IH2]; intros s; unfold summ in *; cbn [fold_left].
  - reflexivity.
  - apply IH.
  - rewrite summ_atom_comm. reflexivity.
  - rewrite IH1. apply IH2.
Qed.

Lemma summ_atom_idem s a : summ_atom (summ_atom s a) a = summ_atom s a.
Proof.
  destruct a as [|p]; cbn [summ_atom]; [reflexivity|]. destruct (kind_of_pt p) as [i|]; cbn; [|reflexivity].
  f_equal. rewrite <- N.lor_assoc, N.lor_diag. reflexivity.
Qed.

(* ---------------- rendering a summary as a tracer state ---------------- *)
Definition render (cn ts lg : bool) (s : Summ) : option Tracer :=
  if s_any s then option_map (TPrim (s_null s)) (F cn ts lg (s_set s)) else Some (TUnknown (s_null s)).

Definition atom_ok (lg : bool) (a : Atom) : Prop :=
  match a with AKind (PStr l) => l = lg | _ => True end.

Record Inv (cn ts lg : bool) (t : Tracer) (s : Summ) : Prop := {
  inv_render : render cn ts lg s = Some t;
  inv_unknown : s_any s = false -> s_set s = 0;
  inv_null : s_any s = true -> s_set s = 0 -> s_null s = true;
  inv_dom : In (s_set s) (all_sets nkinds) }.

Lemma all_sets_zero n : In 0 (all_sets n).
Proof. induction n as [|n IH]; cbn; [left; reflexivity|]. apply in_or_app. left. exact IH. Qed.

Lemma all_sets_lor n : forall s i, In s (all_sets n) -> (i < n)%nat -> In (N.lor s (bit i)) (all_sets n).
Proof.
  induction n as [|n IH]; intros s i Hs Hi; [lia|]. cbn [all_sets] in *.
  apply in_app_or in Hs. apply in_or_app. destruct (Nat.eq_dec i n) as [->|Hne].
  - destruct Hs as [Hs|Hs].
    + right. apply in_map_iff. exists s. split; [reflexivity|exact Hs].
    + right. apply in_map_iff in Hs as [s' [<- Hs']]. apply in_map_iff. exists s'. split; [|exact Hs'].
      rewrite <- N.lor_assoc, N.lor_diag. reflexivity.
  - destruct Hs as [Hs|Hs].
    + left. apply IH; [exact Hs|lia].
    + right. apply in_map_iff in Hs as [s' [<- Hs']]. apply in_map_iff. exists (N.lor s' (bit i)). split.
      * rewrite <- !N.lor_assoc. f_equal. apply N.lor_comm.
      * apply IH; [exact Hs'|lia].
Qed.

Lemma all_checks_spec chk : all_checks chk = true -> forall s i, In s (all_sets nkinds) -> (i < nkinds)%nat -> chk s i = true.
Proof.
  unfold all_checks. intros H s i Hs Hi. rewrite forallb_forall in H. specialize (H s Hs).
  rewrite forallb_forall in H. apply H. apply in_seq. lia.
Qed.

Lemma step_ok cn ts lg : all_checks (step_check cn ts lg) = true.
Proof. destruct cn, ts; [apply step_ok_true_true|apply step_ok_true_false|apply step_ok_false_true|apply step_ok_false_false]. Qed.
Lemma absorb_ok cn ts lg : all_checks (absorb_check cn ts lg) = true.
Proof. destruct cn, ts; [apply absorb_ok_true_true|apply absorb_ok_true_false|apply absorb_ok_false_true|apply absorb_ok_false_false]. Qed.
Lemma complete_ok cn lg : all_checks (complete_check cn lg) = true.
Proof. destruct cn; [apply complete_ok_true|apply complete_ok_false]. Qed.

Lemma kind_roundtrip lg p i : kind_of_pt p = Some i -> atom_ok lg (AKind p) -> pt_of_kind lg i = p /\ (i < nkinds)%nat.
Proof.
  destruct p as [| |k| | |l|u| | |]; cbn; intros H Hok; try discriminate;
    try destruct k; try destruct u; inversion H; subst i;
    (split; [first [reflexivity | subst l; reflexivity] | cbv; lia]).
Qed.

Lemma pt_eqb_eq a c : pt_eqb a c = true <-> a = c.
Proof.
  destruct a as [| |k| | |l|u| | |], c as [| |k'| | |l'|u'| | |]; cbn; split; intros H; try discriminate; try reflexivity;
    try (inversion H; subst).
  - destruct k, k'; try discriminate; reflexivity.
  - destruct k'; reflexivity.
  - destruct l, l'; try discriminate; reflexivity.
  - destruct l'; reflexivity.
  - destruct u, u'; try discriminate; reflexivity.
  - destruct u'; reflexivity.
Qed.

Lemma F_single cn ts lg i : (i < nkinds)%nat -> F cn ts lg (bit i) = Some (pt_of_kind lg i).
Proof.
  intros Hi. unfold nkinds in Hi.
  do 17 (destruct i as [|i]; [destruct cn, ts, lg; vm_compute; reflexivity|]). lia.
Qed.

Lemma bit_nonzero i : bit i <> 0.
Proof. unfold bit. rewrite N.shiftl_1_l. apply N.pow_nonzero. discriminate. Qed.

Lemma lor_bit_nonzero s i : N.lor s (bit i) <> 0.
Proof. intros H. apply N.lor_eq_0_iff in H as [_ H]. exact (bit_nonzero i H). Qed.

(* coerce never changes the nullable flag when both sides are non-null *)
Lemma coerce_nullable cn ts lg p n q r n' : p <> PNull -> q <> PNull ->
  coerce_core cn ts lg p n q = Some (r, n') -> n' = n /\ coerce_core cn ts lg p false q = Some (r, false).
Proof.
  intros Hp Hq. unfold coerce_core. destruct (pt_eqb p q); [intros H; inversion H; subst; split; reflexivity|].
  destruct p; try congruence; destruct q; try congruence; cbn;
    repeat match goal with |- context [if ?c then _ else _] => destruct c end;
    intros H; inversion H; subst; split; reflexivity.
Qed.

Lemma F_nonnull cn ts lg s p : s <> 0 -> F cn ts lg s = Some p -> p <> PNull.
Proof.
  intros Hs. unfold F. destruct (N.eqb_spec s 0); [contradiction|].
  destruct (single s).
  - intros H; inversion H; subst. generalize (N.to_nat (N.log2 s)). intros i.
    do 17 (destruct i as [|i]; [destruct lg; discriminate|]). discriminate.
  - repeat match goal with |- context [if ?c then _ else _] => destruct c end; intros H; inversion H; discriminate.
Qed.

(* one step preserves the invariant *)
Lemma inv_step o t s a t' :
  let cn := o_coerce o in let ts := o_to_string o in let lg := o_large_utf8 o in
  Inv cn ts lg t s -> atom_ok lg a -> astep o t a = Ok t' -> Inv cn ts lg t' (summ_atom s a).
Proof.
  intros cn ts lg [Hr Hu Hn Hd] Hok Hstep. destruct a as [|p]; cbn [astep summ_atom] in *.
  - inversion Hstep; subst. split; cbn; try assumption.
    + unfold render in *. cbn. destruct (s_any s); [|inversion Hr; reflexivity].
      destruct (F cn ts lg (s_set s)); [|discriminate]. inversion Hr; reflexivity.
    + intros _ _. reflexivity.
  - destruct (kind_of_pt p) as [i|] eqn:Ek.
    + (* a non-null kind *)
      destruct (kind_roundtrip lg p i Ek Hok) as [Hpt Hi].
      assert (Hpn : p <> PNull) by (intros ->; discriminate).
      unfold render in Hr. destruct (s_any s) eqn:Ea.
      * destruct (F cn ts lg (s_set s)) as [q|] eqn:EF; [|discriminate]. inversion Hr; subst t. cbn [ensure_prim] in Hstep.
        destruct (coerce o q (s_null s) p) as [[r n']|] eqn:Ec; [|discriminate]. inversion Hstep; subst t'.
        unfold coerce in Ec. fold cn ts lg in Ec.
        destruct (N.eqb_spec (s_set s) 0) as [E0|E0].
        -- (* only nulls so far *)
           rewrite E0 in EF. cbv in EF. inversion EF; subst q.
           unfold coerce_core in Ec. destruct (pt_eqb PNull p) eqn:Epp; [apply pt_eqb_eq in Epp; congruence|].
           injection Ec as Er En. subst r n'. split; cbn.
           ++ unfold render. cbn. rewrite E0, N.lor_0_l, F_single by exact Hi. rewrite Hpt, (Hn eq_refl E0). reflexivity.
           ++ discriminate.
           ++ intros _ H. exfalso. exact (lor_bit_nonzero _ _ H).
           ++ apply all_sets_lor; assumption.
        -- assert (Hq : q <> PNull) by (eapply F_nonnull; eassumption).
           destruct (coerce_nullable _ _ _ _ _ _ _ _ Hq Hpn Ec) as [-> Ec'].
           assert (Hchk := all_checks_spec _ (step_ok cn ts lg) _ _ Hd Hi). unfold step_check in Hchk.
           destruct (N.eqb_spec (s_set s) 0); [contradiction|]. rewrite EF, Hpt, Ec' in Hchk.
           apply andb_true_iff in Hchk as [Hchk _].
           destruct (F cn ts lg (N.lor (s_set s) (bit i))) as [r'|] eqn:EF'; [|discriminate]. cbn in Hchk. apply pt_eqb_eq in Hchk. subst r'.
           split; cbn.
           ++ unfold render. cbn. rewrite EF'. reflexivity.
           ++ discriminate.
           ++ intros _ H. exfalso. exact (lor_bit_nonzero _ _ H).
           ++ apply all_sets_lor; assumption.
      * inversion Hr; subst t. cbn [ensure_prim] in Hstep. inversion Hstep; subst t'.
        destruct (pt_eqb p PNull) eqn:Epn; [apply pt_eqb_eq in Epn; congruence|]. rewrite orb_false_r.
        split; cbn.
        -- unfold render. cbn. rewrite (Hu eq_refl), N.lor_0_l, F_single by exact Hi. rewrite Hpt. reflexivity.
        -- discriminate.
        -- intros _ H. exfalso. exact (lor_bit_nonzero _ _ H).
        -- apply all_sets_lor; assumption.
    + (* a null *)
      assert (p = PNull) by (destruct p as [| |k| | |l|u| | |]; try discriminate; try reflexivity; [destruct k|destruct u]; discriminate). subst p.
      unfold render in Hr. destruct (s_any s) eqn:Ea.
      * destruct (F cn ts lg (s_set s)) as [q|] eqn:EF; [|discriminate]. inversion Hr; subst t. cbn [ensure_prim] in Hstep.
        unfold coerce, coerce_core in Hstep. destruct (pt_eqb q PNull) eqn:Eq.
        -- apply pt_eqb_eq in Eq. subst q. inversion Hstep; subst t'.
           assert (E0 : s_set s = 0).
           { destruct (N.eqb_spec (s_set s) 0) as [E|E]; [exact E|]. exfalso. exact (F_nonnull _ _ _ _ _ E EF eq_refl). }
           split; cbn; try assumption.
           ++ unfold render. cbn. rewrite EF. rewrite (Hn eq_refl E0). reflexivity.
           ++ intros _ _. reflexivity.
        -- assert (Hst : Ok (TPrim true q) = Ok t') by (destruct q; try discriminate Eq; exact Hstep).
           inversion Hst; subst t'. split; cbn; try assumption.
           ++ unfold render. cbn. rewrite EF. reflexivity.
           ++ intros _ _. reflexivity.
      * inversion Hr; subst t. cbn [ensure_prim] in Hstep. cbn in Hstep. rewrite orb_true_r in Hstep. inversion Hstep; subst t'.
        split; cbn.
        -- unfold render. cbn. rewrite (Hu eq_refl). reflexivity.
        -- discriminate.
        -- intros _ _. reflexivity.
        -- exact Hd.
Qed.

Lemma inv0 cn ts lg : Inv cn ts lg (TUnknown false) summ0.
Proof. split; cbn; try reflexivity; try discriminate. apply all_sets_zero. Qed.

Lemma inv_run o : forall l t s t',
  Inv (o_coerce o) (o_to_string o) (o_large_utf8 o) t s -> Forall (atom_ok (o_large_utf8 o)) l ->
  run_atoms o l t = Ok t' -> Inv (o_coerce o) (o_to_string o) (o_large_utf8 o) t' (summ l s).
Proof.
  induction l as [|a r IH]; intros t s t' Hinv Hok Hrun; cbn [run_atoms summ fold_left] in *.
  - inversion Hrun; subst. exact Hinv.
  - inversion Hok as [|? ? Ha Hr]; subst. destruct (astep o t a) as [t1| |p] eqn:E1; cbn [bind] in Hrun; try discriminate.
    apply (IH t1 _ t'); [|exact Hr|exact Hrun]. eapply inv_step; eassumption.
Qed.

Lemma inv_functional cn ts lg t1 t2 s : Inv cn ts lg t1 s -> Inv cn ts lg t2 s -> t1 = t2.
Proof. intros [H1 _ _ _] [H2 _ _ _]. congruence. Qed.

(* the atoms of leaf values are well formed *)
Lemma str_type_ok o s : atom_ok (o_large_utf8 o) (AKind (str_type o s)).
Proof. unfold str_type. repeat match goal with |- context [if ?c then _ else _] => destruct c end; cbn; reflexivity. Qed.

Lemma atoms_ok o : forall v la, atoms o v = Some la -> Forall (atom_ok (o_large_utf8 o)) la.
Proof.
  induction v; intros la H; cbn [atoms] in H; try discriminate; try (inversion H; subst; repeat constructor).
  - apply str_type_ok.
  - destruct (atoms o v) as [l'|]; [|discriminate]. inversion H; subst. constructor; [exact I|]. apply IHv. reflexivity.
  - apply IHv. exact H.
Qed.

Lemma all_atoms_ok o : forall vs l, all_atoms o vs = Some l -> Forall (atom_ok (o_large_utf8 o)) l.
Proof.
  induction vs as [|v r IH]; intros l H; cbn [all_atoms] in H; [inversion H; constructor|].
  destruct (atoms o v) as [a|] eqn:Ea; [|discriminate]. destruct (all_atoms o r) as [b0|] eqn:Eb; [|discriminate].
  inversion H; subst. apply Forall_app. split; [eapply atoms_ok; eassumption|apply IH; reflexivity].
Qed.

Lemma all_atoms_perm o : forall vs1 vs2, Permutation vs1 vs2 -> forall l1, all_atoms o vs1 = Some l1 ->
  exists l2, all_atoms o vs2 = Some l2 /\ Permutation l1 l2.
Proof.
  induction 1 as [|v l1' l2' _ IH|v w l|l1' l2' l3' _ IH1 _ IH2]; intros l1 H1.
  - exists l1. split; [exact H1|apply Permutation_refl].
  - cbn [all_atoms] in *. destruct (atoms o v) as [a|]; [|discriminate]. destruct (all_atoms o l1') as [b1|] eqn:E1; [|discriminate].
    inversion H1; subst. destruct (IH b1 eq_refl) as [b2 [E2 Hp]]. rewrite E2. exists (a ++ b2). split; [reflexivity|].
    apply Permutation_app_head. exact Hp.
  - cbn [all_atoms] in *. destruct (atoms o w) as [aw|]; [|discriminate]. destruct (atoms o v) as [av|]; [|discriminate].
    destruct (all_atoms o l) as [bl|]; [|discriminate]. inversion H1; subst. exists (av ++ aw ++ bl). split; [reflexivity|].
    rewrite !app_assoc. apply Permutation_app_tail. apply Permutation_app_comm.
  - destruct (IH1 l1 H1) as [l2 [E2 P12]]. destruct (IH2 l2 E2) as [l3 [E3 P23]]. exists l3. split; [exact E3|].
    eapply Permutation_trans; eassumption.
Qed.

(* ---------------- C07 at a leaf position ---------------- *)
(* the same values in any order: whenever both orders trace, the resulting state (type and
   nullability) is the same *)
Theorem leaf_perm o d vs1 vs2 l1 t1 t2 :
  all_atoms o vs1 = Some l1 -> Permutation vs1 vs2 ->
  trace_seq o d vs1 (TUnknown false) = Ok t1 -> trace_seq o d vs2 (TUnknown false) = Ok t2 -> t1 = t2.
Proof.
  intros H1 Hp R1 R2. destruct (all_atoms_perm o vs1 vs2 Hp l1 H1) as [l2 [H2 Hpl]].
  rewrite (trace_seq_atoms o d vs1 l1 _ H1) in R1. rewrite (trace_seq_atoms o d vs2 l2 _ H2) in R2.
  assert (I1 := inv_run o l1 _ _ _ (inv0 _ _ _) (all_atoms_ok o vs1 l1 H1) R1).
  assert (I2 := inv_run o l2 _ _ _ (inv0 _ _ _) (all_atoms_ok o vs2 l2 H2) R2).
  rewrite (summ_perm l1 l2 Hpl) in I1. eapply inv_functional; eassumption.
Qed.

(* ---------------- repetition changes nothing ---------------- *)
Lemma absorbed_fold l : forall s a, summ_atom s a = s -> summ_atom (summ l s) a = summ l s.
Proof.
  induction l as [|c r IH]; intros s a H; cbn [summ fold_left]; [exact H|].
  apply IH. rewrite summ_atom_comm, H. reflexivity.
Qed.

Lemma absorbed_in l : forall s a, In a l -> summ_atom (summ l s) a = summ l s.
Proof.
  induction l as [|c r IH]; intros s a Hin; [destruct Hin|]. cbn [summ fold_left]. destruct Hin as [->|Hin].
  - apply absorbed_fold. apply summ_atom_idem.
  - apply IH. exact Hin.
Qed.

Lemma lor_bit_absorbed s i : N.lor s (bit i) = s -> N.testbit s (N.of_nat i) = true.
Proof.
  intros H. rewrite <- H. rewrite N.lor_spec. unfold bit. rewrite N.shiftl_1_l, N.pow2_bits_true. apply orb_true_r.
Qed.

Lemma coerce_any_nullable cn ts lg p q r m n : coerce_core cn ts lg p false q = Some (r, m) -> p <> PNull -> q <> PNull ->
  coerce_core cn ts lg p n q = Some (r, n).
Proof.
  intros H Hp Hq. unfold coerce_core in *. destruct (pt_eqb p q); [inversion H; subst; reflexivity|].
  destruct p; try congruence; destruct q; try congruence; cbn in *;
    repeat match goal with |- context [if ?c then _ else _] => destruct c end; inversion H; subst; reflexivity.
Qed.

Lemma absorb_step o t s a :
  Inv (o_coerce o) (o_to_string o) (o_large_utf8 o) t s -> atom_ok (o_large_utf8 o) a -> summ_atom s a = s -> astep o t a = Ok t.
Proof.
  intros [Hr Hu Hn Hd] Hok Habs. unfold render in Hr. destruct a as [|p]; cbn [astep summ_atom] in *.
  - assert (Hnull : s_null s = true) by (rewrite <- Habs; reflexivity).
    destruct (s_any s); [destruct (F _ _ _ _); [|discriminate]|]; inversion Hr; subst; cbn; rewrite Hnull; reflexivity.
  - destruct (kind_of_pt p) as [i|] eqn:Ek.
    + destruct (kind_roundtrip _ p i Ek Hok) as [Hpt Hi].
      assert (Hany : s_any s = true) by (rewrite <- Habs; reflexivity).
      assert (Hset : N.lor (s_set s) (bit i) = s_set s) by (rewrite <- Habs at 2; reflexivity).
      assert (Hbit := lor_bit_absorbed _ _ Hset).
      assert (Hnz : s_set s <> 0) by (intros E; rewrite E in Hbit; rewrite N.bits_0 in Hbit; discriminate).
      rewrite Hany in Hr. destruct (F (o_coerce o) (o_to_string o) (o_large_utf8 o) (s_set s)) as [q|] eqn:EF; [|discriminate].
      inversion Hr; subst t. cbn [ensure_prim].
      assert (Hchk := all_checks_spec _ (absorb_ok (o_coerce o) (o_to_string o) (o_large_utf8 o)) _ _ Hd Hi).
      unfold absorb_check in Hchk. rewrite Hbit, EF, Hpt in Hchk.
      destruct (coerce_core (o_coerce o) (o_to_string o) (o_large_utf8 o) q false p) as [[r m]|] eqn:Ec; [|discriminate].
      apply andb_true_iff in Hchk as [Hchk _]. apply pt_eqb_eq in Hchk. subst r.
      assert (Hq : q <> PNull) by (eapply F_nonnull; eassumption).
      assert (Hp : p <> PNull) by (intros ->; discriminate).
      unfold coerce. rewrite (coerce_any_nullable _ _ _ _ _ _ _ (s_null s) Ec Hq Hp). reflexivity.
    + assert (p = PNull) by (destruct p as [| |k| | |l|u| | |]; try discriminate; try reflexivity; [destruct k|destruct u]; discriminate). subst p.
      assert (Hany : s_any s = true) by (rewrite <- Habs; reflexivity).
      assert (Hnull : s_null s = true) by (rewrite <- Habs; reflexivity).
      rewrite Hany in Hr. destruct (F _ _ _ _) as [q|]; [|discriminate]. inversion Hr; subst t. cbn [ensure_prim].
      unfold coerce, coerce_core. rewrite Hnull. destruct (pt_eqb q PNull) eqn:Eq.
      * apply pt_eqb_eq in Eq. subst q. reflexivity.
      * destruct q; try discriminate Eq; reflexivity.
Qed.

Lemma absorb_run o : forall l t s,
  Inv (o_coerce o) (o_to_string o) (o_large_utf8 o) t s -> Forall (atom_ok (o_large_utf8 o)) l ->
  (forall a, In a l -> summ_atom s a = s) -> run_atoms o l t = Ok t.
Proof.
  induction l as [|a r IH]; intros t s Hinv Hok Habs; [reflexivity|]. cbn [run_atoms].
  inversion Hok as [|? ? Ha Hr]; subst. rewrite (absorb_step o t s a Hinv Ha (Habs a (or_introl eq_refl))). cbn [bind].
  apply (IH t s Hinv Hr). intros c Hc. apply Habs. right. exact Hc.
Qed.

Lemma all_atoms_app o vs1 vs2 l1 l2 : all_atoms o vs1 = Some l1 -> all_atoms o vs2 = Some l2 -> all_atoms o (vs1 ++ vs2) = Some (l1 ++ l2).
Proof.
  revert l1; induction vs1 as [|v r IH]; intros l1 H1 H2; cbn [all_atoms app] in *.
  - inversion H1; subst. exact H2.
  - destruct (atoms o v) as [a|]; [|discriminate]. destruct (all_atoms o r) as [b0|] eqn:Eb; [|discriminate].
    inversion H1; subst. rewrite (IH b0 eq_refl H2). rewrite app_assoc. reflexivity.
Qed.

(* tracing a collection twice over gives exactly what tracing it once gives *)
Theorem leaf_repeat o d vs l t :
  all_atoms o vs = Some l -> trace_seq o d vs (TUnknown false) = Ok t -> trace_seq o d (vs ++ vs) (TUnknown false) = Ok t.
Proof.
  intros H R. rewrite (trace_seq_atoms o d vs l _ H) in R.
  rewrite (trace_seq_atoms o d (vs ++ vs) (l ++ l) _ (all_atoms_app o vs vs l l H H)), run_atoms_app, R. cbn [bind].
  assert (I1 := inv_run o l _ _ _ (inv0 _ _ _) (all_atoms_ok o vs l H) R).
  apply (absorb_run o l t _ I1 (all_atoms_ok o vs l H)). intros a Ha. apply absorbed_in. exact Ha.
Qed.

(* ---------------- without allow_to_string success is order free ---------------- *)
Definition good (cn lg : bool) (s : Summ) : bool := match F cn false lg (s_set s) with Some _ => true | None => false end.

Lemma coerce_ok_any_nullable cn ts lg p q r m n : coerce_core cn ts lg p false q = Some (r, m) ->
  exists m', coerce_core cn ts lg p n q = Some (r, m').
Proof.
  intros H. unfold coerce_core in *. destruct (pt_eqb p q); [eexists; inversion H; reflexivity|].
  destruct p; destruct q; cbn in *;
    repeat match goal with |- context [if ?c then _ else _] => destruct c end; inversion H; subst; eexists; reflexivity.
Qed.

Lemma good_down cn lg s i : In s (all_sets nkinds) -> (i < nkinds)%nat ->
  F cn false lg (N.lor s (bit i)) <> None -> F cn false lg s <> None.
Proof.
  intros Hd Hi H. destruct (N.eqb_spec s 0) as [->|Hnz]; [cbv; discriminate|].
  assert (Hchk := all_checks_spec _ (complete_ok cn lg) _ _ Hd Hi). unfold complete_check in Hchk.
  destruct (N.eqb_spec s 0); [contradiction|].
  destruct (F cn false lg (N.lor s (bit i))); [|congruence]. destruct (F cn false lg s); [discriminate|discriminate].
Qed.

Lemma summ_app l1 l2 s : summ (l1 ++ l2) s = summ l2 (summ l1 s).
Proof. unfold summ. apply fold_left_app. Qed.

Lemma summ_dom l : forall s, Forall (atom_ok true) l \/ True -> In (s_set s) (all_sets nkinds) ->
  (forall a, In a l -> match a with AKind p => match kind_of_pt p with Some i => (i < nkinds)%nat | None => True end | AMark => True end) ->
  In (s_set (summ l s)) (all_sets nkinds).
Proof.
  induction l as [|a r IH]; intros s _ Hd Hk; [exact Hd|]. cbn [summ fold_left]. apply IH; [right; exact I| |intros c Hc; apply Hk; right; exact Hc].
  specialize (Hk a (or_introl eq_refl)). destruct a as [|p]; cbn [summ_atom]; [exact Hd|].
  destruct (kind_of_pt p) as [i|]; cbn; [apply all_sets_lor; assumption|exact Hd].
Qed.

Lemma kind_bound p i : kind_of_pt p = Some i -> (i < nkinds)%nat.
Proof. destruct p as [| |k| | |l|u| | |]; cbn; intros H; try discriminate; try destruct k; try destruct u; inversion H; cbv; lia. Qed.

Lemma run_complete o : o_to_string o = false -> forall l, Forall (atom_ok (o_large_utf8 o)) l ->
  good (o_coerce o) (o_large_utf8 o) (summ l summ0) = true -> exists t, run_atoms o l (TUnknown false) = Ok t.
Proof.
  intros Hts l. induction l as [|a r IH] using rev_ind; intros Hok Hgood; [eexists; reflexivity|].
  apply Forall_app in Hok as [Hokr Hoka]. inversion Hoka as [|? ? Ha _]; subst.
  rewrite summ_app in Hgood. cbn [summ fold_left] in Hgood.
  assert (Hdom : In (s_set (summ r summ0)) (all_sets nkinds)).
  { apply summ_dom; [right; exact I|apply all_sets_zero|]. intros c _. destruct c as [|p]; [exact I|].
    destruct (kind_of_pt p) eqn:E; [eapply kind_bound; eassumption|exact I]. }
  assert (Hgr : good (o_coerce o) (o_large_utf8 o) (summ r summ0) = true).
  { unfold good in *. destruct a as [|p]; cbn [summ_atom s_set] in Hgood; [exact Hgood|].
    destruct (kind_of_pt p) as [i|] eqn:Ek; cbn [s_set] in Hgood; [|exact Hgood].
    assert (Hne := good_down (o_coerce o) (o_large_utf8 o) _ i Hdom (kind_bound _ _ Ek)).
    destruct (F (o_coerce o) false (o_large_utf8 o) (N.lor (s_set (summ r summ0)) (bit i))); [|discriminate].
    destruct (F (o_coerce o) false (o_large_utf8 o) (s_set (summ r summ0))); [reflexivity|]. exfalso. apply Hne; [discriminate|reflexivity]. }
  destruct (IH Hokr Hgr) as [t Ht]. rewrite run_atoms_app, Ht. cbn [bind run_atoms].
  assert (Hinv := inv_run o r _ _ _ (inv0 _ _ _) Hokr Ht). rewrite Hts in Hinv.
  destruct Hinv as [Hr Hu Hn Hd]. unfold render in Hr.
  destruct a as [|p]; cbn [astep]; [eexists; reflexivity|].
  destruct (s_any (summ r summ0)) eqn:Ea.
  - destruct (F (o_coerce o) false (o_large_utf8 o) (s_set (summ r summ0))) as [q|] eqn:EF; [|discriminate]. inversion Hr; subst t.
    cbn [ensure_prim]. unfold coerce. rewrite Hts.
    destruct (kind_of_pt p) as [i|] eqn:Ek.
    + destruct (kind_roundtrip _ p i Ek Ha) as [Hpt Hi].
      destruct (N.eqb_spec (s_set (summ r summ0)) 0) as [E0|E0].
      * rewrite E0 in EF. cbv in EF. inversion EF; subst q. unfold coerce_core.
        destruct (pt_eqb PNull p); eexists; reflexivity.
      * assert (Hchk := all_checks_spec _ (complete_ok (o_coerce o) (o_large_utf8 o)) _ _ Hd Hi). unfold complete_check in Hchk.
        destruct (N.eqb_spec (s_set (summ r summ0)) 0); [contradiction|].
        unfold good in Hgood. cbn [summ_atom s_set] in Hgood. rewrite Ek in Hgood. cbn [s_set] in Hgood.
        destruct (F (o_coerce o) false (o_large_utf8 o) (N.lor (s_set (summ r summ0)) (bit i))) as [p'|]; [|discriminate].
        rewrite EF, Hpt in Hchk.
        destruct (coerce_core (o_coerce o) false (o_large_utf8 o) q false p) as [[r' m]|] eqn:Ec; [|discriminate].
        destruct (coerce_ok_any_nullable _ _ _ _ _ _ _ (s_null (summ r summ0)) Ec) as [m' Ec']. rewrite Ec'. eexists; reflexivity.
    + assert (p = PNull) by (destruct p as [| |k| | |l|u| | |]; try discriminate; try reflexivity; [destruct k|destruct u]; discriminate). subst p.
      unfold coerce_core. destruct (pt_eqb q PNull) eqn:Eq; [eexists; reflexivity|]. destruct q; try discriminate Eq; eexists; reflexivity.
  - inversion Hr; subst t. cbn [ensure_prim]. eexists; reflexivity.
Qed.

Lemma run_sound o : o_to_string o = false -> forall l t, Forall (atom_ok (o_large_utf8 o)) l ->
  run_atoms o l (TUnknown false) = Ok t -> good (o_coerce o) (o_large_utf8 o) (summ l summ0) = true.
Proof.
  intros Hts l t Hok R. assert (Hinv := inv_run o l _ _ _ (inv0 _ _ _) Hok R). rewrite Hts in Hinv.
  destruct Hinv as [Hr Hu Hn Hd]. unfold render in Hr. unfold good. destruct (s_any (summ l summ0)) eqn:Ea.
  - destruct (F _ _ _ _); [reflexivity|discriminate].
  - rewrite (Hu eq_refl). reflexivity.
Qed.

Theorem leaf_success_order_free o d vs1 vs2 l1 :
  o_to_string o = false -> all_atoms o vs1 = Some l1 -> Permutation vs1 vs2 ->
  is_ok (trace_seq o d vs1 (TUnknown false)) = is_ok (trace_seq o d vs2 (TUnknown false)).
Proof.
  intros Hts H1 Hp. destruct (all_atoms_perm o vs1 vs2 Hp l1 H1) as [l2 [H2 Hpl]].
  rewrite (trace_seq_atoms o d vs1 l1 _ H1), (trace_seq_atoms o d vs2 l2 _ H2).
  assert (Hok1 := all_atoms_ok o vs1 l1 H1). assert (Hok2 := all_atoms_ok o vs2 l2 H2).
  destruct (run_atoms o l1 (TUnknown false)) as [t1| |p1] eqn:R1; destruct (run_atoms o l2 (TUnknown false)) as [t2| |p2] eqn:R2; cbn; try reflexivity; exfalso.
  - assert (G := run_sound o Hts l1 t1 Hok1 R1). rewrite (summ_perm l1 l2 Hpl) in G. destruct (run_complete o Hts l2 Hok2 G) as [t Ht]. congruence.
  - assert (G := run_sound o Hts l1 t1 Hok1 R1). rewrite (summ_perm l1 l2 Hpl) in G. destruct (run_complete o Hts l2 Hok2 G) as [t Ht]. congruence.
  - assert (G := run_sound o Hts l2 t2 Hok2 R2). rewrite <- (summ_perm l1 l2 Hpl) in G. destruct (run_complete o Hts l1 Hok1 G) as [t Ht]. congruence.
  - assert (G := run_sound o Hts l2 t2 Hok2 R2). rewrite <- (summ_perm l1 l2 Hpl) in G. destruct (run_complete o Hts l1 Hok1 G) as [t Ht]. congruence.
Qed.
