(* from_type = the documented mapping: for every type description inside the stated side conditions the
   multi-pass exploration converges to the fully explored tracer within `passes ty` iterations, and the
   schema of that tracer is doc_schema. *)
From Verif Require Import FromType.
Require Import Lia.
Local Open Scope nat_scope.

(* ---------------- standalone versions of the loops inside ft_pass ---------------- *)
Section Loops.
  Variable pass : nat -> Ty -> Tracer -> Outcome Tracer.
  Fixpoint fields_pass (dots : nat) (fs : list (bytes * Ty)) (trs : list (bytes * Tracer * nat)) : Outcome (list (bytes * Tracer * nat)) :=
    match fs with
    | [] => Ok trs
    | (_, fty) :: r =>
      match trs with
      | [] => Panic PIndex
      | (tn, ft, ls) :: trs' =>
        do ft' <- pass (S dots + count_dots tn) fty ft ;; do rest <- fields_pass dots r trs' ;; Ok ((tn, ft', ls) :: rest)
      end
    end.
  Fixpoint tuple_pass (dots : nat) (ts : list Ty) (trs : list Tracer) : Outcome (list Tracer) :=
    match ts with
    | [] => Ok trs
    | ety :: r =>
      match trs with
      | [] => Err
      | tr :: trs' => do tr' <- pass (S dots) ety tr ;; do rest <- tuple_pass dots r trs' ;; Ok (tr' :: rest)
      end
    end.
  Definition as_tuple (o : Opts) (dots : nat) (ts : list Ty) (t : Tracer) : Outcome Tracer :=
    do t0 <- ensure_tuple dots (length ts) t ;;
    match t0 with TTuple n trs => do trs' <- tuple_pass dots ts trs ;; Ok (TTuple n trs') | _ => Err end.
  Definition as_struct (dots : nat) (fs : list (bytes * Ty)) (t : Tracer) : Outcome Tracer :=
    do t0 <- ensure_struct_named dots (map fst fs) t ;;
    match t0 with TStruct n m s trs => do trs' <- fields_pass dots fs trs ;; Ok (TStruct n m s trs') | _ => Err end.
  Definition payload_pass (o : Opts) (vdots : nat) (p : Payload) (vt : Tracer) : Outcome Tracer :=
    match p with
    | PUnit => ensure_prim o PNull vt
    | PNewtype x => pass vdots x vt
    | PTuple ts => as_tuple o vdots ts vt
    | PStruct fs => as_struct vdots fs vt
    end.
  Section Pick.
    Variable o : Opts.
    Variable vdots : nat.
    Variable vt : Tracer.
    Fixpoint pick (vs : list (bytes * Payload)) (i : nat) : Outcome Tracer :=
      match vs, i with
      | (_, p) :: _, O => payload_pass o vdots p vt
      | _ :: r, S i' => pick r i'
      | [], _ => Err
      end.
  End Pick.
End Loops.

Lemma ft_pass_eq o dots ty t :
  ft_pass o dots ty t =
  match ty with
  | TyUnit => ensure_prim o PNull t
  | TyBool => ensure_prim o PBool t
  | TyInt k => ensure_prim o (PI k) t
  | TyF32 => ensure_prim o PFloat32 t
  | TyF64 => ensure_prim o PFloat64 t
  | TyChar => ensure_prim o (PI U32) t
  | TyString => ensure_prim o (PStr (o_large_utf8 o)) t
  | TyBytes => ensure_prim o PLargeBinary t
  | TyOption x => ft_pass o dots x (mark_nullable t)
  | TyNewtype x => ft_pass o dots x t
  | TySeq x =>
    do t0 <- ensure_list dots t ;;
    match t0 with TList n item => do item' <- ft_pass o (S dots) x item ;; Ok (TList n item') | _ => Err end
  | TyTuple ts => as_tuple (ft_pass o) o dots ts t
  | TyMap k v =>
    if o_map_as_struct o then Err
    else do t0 <- ensure_map dots t ;;
         match t0 with
         | TMap n kt vt => do kt' <- ft_pass o (S dots) k kt ;; do vt' <- ft_pass o (S dots) v vt ;; Ok (TMap n kt' vt')
         | _ => Err
         end
  | TyStruct fs => as_struct (ft_pass o) dots fs t
  | TyEnum vs =>
    do t0 <- ensure_union_named dots (map fst vs) t ;;
    match t0 with
    | TUnion n variants =>
      do pos <- first_incomplete variants ;;
      let idx := match pos with Some i => i | None => 0 end in
      match get_variant variants idx with
      | None => Err
      | Some (vname, vt) =>
        do vt' <- pick (ft_pass o) o (S dots + count_dots vname) vt vs idx ;;
        Ok (TUnion n (set_variant variants idx (vname, vt')))
      end
    | _ => Err
    end
  end.
Proof. destruct ty; reflexivity. Qed.

(* a variant's payload is traced like a position of this type *)
Definition ty_of_payload (p : Payload) : Ty :=
  match p with PUnit => TyUnit | PNewtype x => x | PTuple ts => TyTuple ts | PStruct fs => TyStruct fs end.

Lemma payload_pass_eq o d p vt : payload_pass (ft_pass o) o d p vt = ft_pass o d (ty_of_payload p) vt.
Proof. destruct p; cbn [ty_of_payload payload_pass]; rewrite ?(ft_pass_eq o d (TyTuple _)), ?(ft_pass_eq o d (TyStruct _)), ?(ft_pass_eq o d TyUnit); reflexivity. Qed.

(* ---------------- induction over type descriptions ---------------- *)
Section TyInd.
  Variable P : Ty -> Prop.
  Hypothesis HUnit : P TyUnit.
  Hypothesis HBool : P TyBool.
  Hypothesis HInt : forall k, P (TyInt k).
  Hypothesis HF32 : P TyF32.
  Hypothesis HF64 : P TyF64.
  Hypothesis HChar : P TyChar.
  Hypothesis HString : P TyString.
  Hypothesis HBytes : P TyBytes.
  Hypothesis HOption : forall x, P x -> P (TyOption x).
  Hypothesis HSeq : forall x, P x -> P (TySeq x).
  Hypothesis HTuple : forall ts, Forall P ts -> P (TyTuple ts).
  Hypothesis HMap : forall k v, P k -> P v -> P (TyMap k v).
  Hypothesis HStruct : forall fs, Forall (fun f => P (snd f)) fs -> P (TyStruct fs).
  Hypothesis HNewtype : forall x, P x -> P (TyNewtype x).
  Hypothesis HEnum : forall vs, Forall (fun v => P (ty_of_payload (snd v))) vs -> P (TyEnum vs).

  Fixpoint Ty_ind' (ty : Ty) : P ty :=
    let tys := fix go (ts : list Ty) : Forall P ts :=
                 match ts with [] => Forall_nil _ | t :: r => Forall_cons t (Ty_ind' t) (go r) end in
    let flds := fix go (fs : list (bytes * Ty)) : Forall (fun f => P (snd f)) fs :=
                  match fs with [] => Forall_nil _ | (nm, t) :: r => Forall_cons (nm, t) (Ty_ind' t) (go r) end in
    match ty with
    | TyUnit => HUnit | TyBool => HBool | TyInt k => HInt k | TyF32 => HF32 | TyF64 => HF64 | TyChar => HChar
    | TyString => HString | TyBytes => HBytes
    | TyOption x => HOption x (Ty_ind' x)
    | TySeq x => HSeq x (Ty_ind' x)
    | TyTuple ts => HTuple ts (tys ts)
    | TyMap k v => HMap k v (Ty_ind' k) (Ty_ind' v)
    | TyStruct fs => HStruct fs (flds fs)
    | TyNewtype x => HNewtype x (Ty_ind' x)
    | TyEnum vs =>
      HEnum vs ((fix go (vs : list (bytes * Payload)) : Forall (fun v => P (ty_of_payload (snd v))) vs :=
                   match vs with
                   | [] => Forall_nil _
                   | (nm, p) :: r =>
                     Forall_cons (nm, p)
                                 (match p return P (ty_of_payload p) with
                                  | PUnit => HUnit
                                  | PNewtype x => Ty_ind' x
                                  | PTuple ts => HTuple ts (tys ts)
                                  | PStruct fs => HStruct fs (flds fs)
                                  end) (go r)
                   end) vs)
    end.
End TyInd.

(* ---------------- helpers over two lists ---------------- *)
Section Two.
  Context {A B : Type}.
  Section R. Variable R : A -> B -> Prop.
    Fixpoint all2 (l : list A) (l' : list B) : Prop :=
      match l, l' with [], [] => True | a :: r, c :: r' => R a c /\ all2 r r' | _, _ => False end.
  End R.
  Section F. Variable f : A -> B -> nat.
    Fixpoint max2 (l : list A) (l' : list B) : nat :=
      match l, l' with a :: r, c :: r' => Nat.max (f a c) (max2 r r') | _, _ => 0 end.
    Fixpoint sum2 (l : list A) (l' : list B) : nat :=
      match l, l' with a :: r, c :: r' => f a c + sum2 r r' | _, _ => 0 end.
  End F.
End Two.

Fixpoint unit_like (ty : Ty) : bool :=
  match ty with TyUnit => true | TyOption x | TyNewtype x => unit_like x | _ => false end.

Section Spec.
  Variable o : Opts.

  (* the tracer of a fully explored position *)
  Fixpoint full (n : bool) (ty : Ty) {struct ty} : Tracer :=
    let tuple_full (n : bool) (ts : list Ty) := TTuple n (map (fun t => full false t) ts) in
    let struct_full (n : bool) (fs : list (bytes * Ty)) :=
        TStruct n false 0 (map (fun f : bytes * Ty => let '(nm, t) := f in (nm, full false t, 0)) fs) in
    match ty with
    | TyUnit => TPrim true PNull
    | TyBool => TPrim n PBool
    | TyInt k => TPrim n (PI k)
    | TyF32 => TPrim n PFloat32
    | TyF64 => TPrim n PFloat64
    | TyChar => TPrim n (PI U32)
    | TyString => TPrim n (PStr (o_large_utf8 o))
    | TyBytes => TPrim n PLargeBinary
    | TyOption x => full true x
    | TyNewtype x => full n x
    | TySeq x => TList n (full false x)
    | TyTuple ts => tuple_full n ts
    | TyMap k v => TMap n (full false k) (full false v)
    | TyStruct fs => struct_full n fs
    | TyEnum vs =>
      TUnion n (map (fun v : bytes * Payload =>
                       let '(nm, p) := v in
                       Some (nm, match p with
                                 | PUnit => TPrim true PNull
                                 | PNewtype x => full false x
                                 | PTuple ts => tuple_full false ts
                                 | PStruct fs => struct_full false fs
                                 end)) vs)
    end.

  (* iterations an unexplored position needs: everything below a position is visited in every pass,
     except that exactly one variant of an enum is *)
  Fixpoint passes (ty : Ty) {struct ty} : nat :=
    let tuple_p (ts : list Ty) := Nat.max 1 (fold_right (fun t acc => Nat.max (passes t) acc) 0 ts) in
    let struct_p (fs : list (bytes * Ty)) := Nat.max 1 (fold_right (fun (f : bytes * Ty) acc => let '(_, t) := f in Nat.max (passes t) acc) 0 fs) in
    match ty with
    | TyOption x | TyNewtype x | TySeq x => passes x
    | TyTuple ts => tuple_p ts
    | TyMap k v => Nat.max (passes k) (passes v)
    | TyStruct fs => struct_p fs
    | TyEnum vs =>
      Nat.max 1 (fold_right (fun (v : bytes * Payload) acc =>
                               let '(_, p) := v in
                               match p with PUnit => 1 | PNewtype x => passes x | PTuple ts => tuple_p ts | PStruct fs => struct_p fs end + acc) 0 vs)
    | _ => 1
    end.

  (* the side conditions: depth limit, maps only when they are not traced as structs, enums with 1..128
     variants, no newtype variant whose payload is unit-like (known finding, C06) *)
  Fixpoint ok (d : nat) (ty : Ty) {struct ty} : bool :=
    let tuple_ok (d : nat) (ts : list Ty) := Nat.ltb d max_depth && forallb (fun t => ok (S d) t) ts in
    let struct_ok (d : nat) (fs : list (bytes * Ty)) :=
        Nat.ltb d max_depth && forallb (fun f : bytes * Ty => let '(nm, t) := f in ok (S d + count_dots nm) t) fs in
    match ty with
    | TyOption x | TyNewtype x => ok d x
    | TySeq x => Nat.ltb d max_depth && ok (S d) x
    | TyTuple ts => tuple_ok d ts
    | TyMap k v => negb (o_map_as_struct o) && Nat.ltb d max_depth && ok (S d) k && ok (S d) v
    | TyStruct fs => struct_ok d fs
    | TyEnum vs =>
      Nat.ltb d max_depth && negb (Nat.eqb (length vs) 0) && Nat.leb (length vs) 128 &&
      forallb (fun v : bytes * Payload =>
                 let '(nm, p) := v in
                 let vd := S d + count_dots nm in
                 match p with
                 | PUnit => true
                 | PNewtype x => ok vd x && negb (unit_like x)
                 | PTuple ts => tuple_ok vd ts
                 | PStruct fs => struct_ok vd fs
                 end) vs
    | _ => true
    end.

  (* a visited position: the right shape, children unvisited or visited *)
  Fixpoint shaped (n : bool) (ty : Ty) (t : Tracer) {struct ty} : Prop :=
    let tuple_s (n : bool) (ts : list Ty) (t : Tracer) :=
        exists trs, t = TTuple n trs /\ all2 (fun ty' tr => tr = TUnknown false \/ shaped false ty' tr) ts trs in
    let struct_s (n : bool) (fs : list (bytes * Ty)) (t : Tracer) :=
        exists trs, t = TStruct n false 0 trs /\
                    all2 (fun (f : bytes * Ty) (tr : bytes * Tracer * nat) =>
                            let '(nm, fty) := f in exists t', tr = (nm, t', 0) /\ (t' = TUnknown false \/ shaped false fty t')) fs trs in
    match ty with
    | TyUnit => t = TPrim true PNull
    | TyBool => t = TPrim n PBool
    | TyInt k => t = TPrim n (PI k)
    | TyF32 => t = TPrim n PFloat32
    | TyF64 => t = TPrim n PFloat64
    | TyChar => t = TPrim n (PI U32)
    | TyString => t = TPrim n (PStr (o_large_utf8 o))
    | TyBytes => t = TPrim n PLargeBinary
    | TyOption x => shaped true x t
    | TyNewtype x => shaped n x t
    | TySeq x => exists item, t = TList n item /\ (item = TUnknown false \/ shaped false x item)
    | TyTuple ts => tuple_s n ts t
    | TyMap k v => exists kt vt, t = TMap n kt vt /\ (kt = TUnknown false \/ shaped false k kt) /\ (vt = TUnknown false \/ shaped false v vt)
    | TyStruct fs => struct_s n fs t
    | TyEnum vs =>
      exists vts, t = TUnion n vts /\
                  all2 (fun (v : bytes * Payload) (vt : option (bytes * Tracer)) =>
                          let '(nm, p) := v in
                          exists t', vt = Some (nm, t') /\
                                     (t' = TUnknown false \/
                                      match p with
                                      | PUnit => t' = TPrim true PNull
                                      | PNewtype x => shaped false x t'
                                      | PTuple ts => tuple_s false ts t'
                                      | PStruct fs => struct_s false fs t'
                                      end)) vs vts
    end.

  (* iterations still needed *)
  Fixpoint rem (ty : Ty) (t : Tracer) {struct ty} : nat :=
    let tuple_r (ts : list Ty) (t : Tracer) :=
        match t with TTuple _ trs => max2 (fun ty' tr => rem ty' tr) ts trs | TUnknown _ => passes (TyTuple ts) | _ => 0 end in
    let struct_r (fs : list (bytes * Ty)) (t : Tracer) :=
        match t with
        | TStruct _ _ _ trs => max2 (fun (f : bytes * Ty) (tr : bytes * Tracer * nat) => let '(_, fty) := f in let '(_, ft, _) := tr in rem fty ft) fs trs
        | TUnknown _ => passes (TyStruct fs)
        | _ => 0
        end in
    match t with
    | TUnknown _ => passes ty
    | _ =>
      match ty with
      | TyOption x | TyNewtype x => rem x t
      | TySeq x => match t with TList _ item => rem x item | _ => 0 end
      | TyTuple ts => tuple_r ts t
      | TyMap k v => match t with TMap _ kt vt => Nat.max (rem k kt) (rem v vt) | _ => 0 end
      | TyStruct fs => struct_r fs t
      | TyEnum vs =>
        match t with
        | TUnion _ vts =>
          sum2 (fun (v : bytes * Payload) (vt : option (bytes * Tracer)) =>
                  let '(_, p) := v in
                  match vt with
                  | Some (_, t') =>
                    match p with
                    | PUnit => match t' with TUnknown _ => 1 | _ => 0 end
                    | PNewtype x => rem x t'
                    | PTuple ts => tuple_r ts t'
                    | PStruct fs => struct_r fs t'
                    end
                  | None => 0
                  end) vs vts
        | _ => 0
        end
      | _ => 0
      end
    end.
End Spec.

(* ---------------- list helpers ---------------- *)
Lemma all2_iff {A B} (R R' : A -> B -> Prop) l l' : (forall a c, R a c <-> R' a c) -> all2 R l l' <-> all2 R' l l'.
Proof.
  intros H. revert l'. induction l as [|a r IH]; intros [|c r']; cbn [all2]; try tauto.
  rewrite (H a c), (IH r'). tauto.
Qed.
Lemma max2_ext {A B} (f g : A -> B -> nat) l l' : (forall a c, f a c = g a c) -> max2 f l l' = max2 g l l'.
Proof. intros H. revert l'. induction l as [|a r IH]; intros [|c r']; cbn [max2]; try reflexivity. rewrite H, IH. reflexivity. Qed.
Lemma sum2_ext {A B} (f g : A -> B -> nat) l l' : (forall a c, f a c = g a c) -> sum2 f l l' = sum2 g l l'.
Proof. intros H. revert l'. induction l as [|a r IH]; intros [|c r']; cbn [sum2]; try reflexivity. rewrite H, IH. reflexivity. Qed.
Lemma forallb_ext' {A} (f g : A -> bool) l : (forall a, f a = g a) -> forallb f l = forallb g l.
Proof. intros H. induction l as [|a r IH]; cbn [forallb]; [reflexivity|]. rewrite H, IH. reflexivity. Qed.
Lemma all2_length {A B} (R : A -> B -> Prop) l l' : all2 R l l' -> length l = length l'.
Proof. revert l'. induction l as [|a r IH]; intros [|c r']; cbn [all2 length]; try tauto. intros [_ H]. f_equal. apply IH, H. Qed.

Section Proofs.
  Variable o : Opts.
  Notation full := (full o). Notation shaped := (shaped o). Notation ok := (ok o).

  Definition appr (n : bool) (ty : Ty) (t : Tracer) : Prop := t = TUnknown n \/ shaped n ty t.
  Definition nt_unit (p : Payload) : bool := match p with PNewtype x => unit_like x | _ => false end.

  (* ---- the enum clauses in terms of ty_of_payload ---- *)
  Lemma shaped_enum n vs t :
    shaped n (TyEnum vs) t <->
    exists vts, t = TUnion n vts /\
                all2 (fun (v : bytes * Payload) vt => exists t', vt = Some (fst v, t') /\ appr false (ty_of_payload (snd v)) t') vs vts.
  Proof.
    cbn [FromType_proofs.shaped]. split; intros (vts & -> & H); exists vts; (split; [reflexivity|]); revert H; apply all2_iff;
      intros [nm p] vt; cbn [fst snd]; unfold appr; destruct p; cbn [ty_of_payload FromType_proofs.shaped]; tauto.
  Qed.

  Lemma rem_payload p t' :
    match p with
    | PUnit => match t' with TUnknown _ => 1 | _ => 0 end
    | PNewtype x => rem x t'
    | PTuple ts => match t' with TTuple _ trs => max2 (fun ty' tr => rem ty' tr) ts trs | TUnknown _ => passes (TyTuple ts) | _ => 0 end
    | PStruct fs =>
      match t' with
      | TStruct _ _ _ trs => max2 (fun (f : bytes * Ty) (tr : bytes * Tracer * nat) => let '(_, fty) := f in let '(_, ft, _) := tr in rem fty ft) fs trs
      | TUnknown _ => passes (TyStruct fs)
      | _ => 0
      end
    end = rem (ty_of_payload p) t'.
  Proof. destruct p, t'; reflexivity. Qed.

  Lemma rem_enum vs n vts :
    rem (TyEnum vs) (TUnion n vts) =
    sum2 (fun (v : bytes * Payload) (vt : option (bytes * Tracer)) => match vt with Some (_, t') => rem (ty_of_payload (snd v)) t' | None => 0 end) vs vts.
  Proof.
    cbn [rem]. apply sum2_ext. intros [nm p] [[vn t']|]; cbn [snd]; [|reflexivity]. apply rem_payload.
  Qed.

  Lemma passes_enum vs :
    passes (TyEnum vs) = Nat.max 1 (fold_right (fun (v : bytes * Payload) acc => passes (ty_of_payload (snd v)) + acc) 0 vs).
  Proof.
    cbn [passes]. f_equal. induction vs as [|[nm p] r IH]; cbn [fold_right]; [reflexivity|]. rewrite IH. f_equal. destruct p; reflexivity.
  Qed.

  Lemma ok_enum d vs :
    ok d (TyEnum vs) =
    Nat.ltb d max_depth && negb (Nat.eqb (length vs) 0) && Nat.leb (length vs) 128 &&
    forallb (fun v : bytes * Payload => ok (S d + count_dots (fst v)) (ty_of_payload (snd v)) && negb (nt_unit (snd v))) vs.
  Proof.
    cbn [FromType_proofs.ok]. f_equal. apply forallb_ext'. intros [nm p]. cbn [fst snd]. destruct p; cbn [ty_of_payload nt_unit FromType_proofs.ok negb]; rewrite ?andb_true_r; reflexivity.
  Qed.

  Lemma full_enum n vs :
    full n (TyEnum vs) = TUnion n (map (fun v : bytes * Payload => Some (fst v, full false (ty_of_payload (snd v)))) vs).
  Proof. cbn [FromType_proofs.full]. f_equal. apply map_ext. intros [nm p]. destruct p; reflexivity. Qed.

  Lemma rem_unknown ty n : rem ty (TUnknown n) = passes ty.
  Proof. destruct ty; reflexivity. Qed.
  Lemma rem_option x t : rem (TyOption x) t = rem x t.
  Proof. destruct t; try reflexivity. rewrite !rem_unknown. reflexivity. Qed.
  Lemma rem_newtype x t : rem (TyNewtype x) t = rem x t.
  Proof. destruct t; try reflexivity. rewrite !rem_unknown. reflexivity. Qed.

  (* ---------------- one pass ---------------- *)
  Definition PassOK (ty : Ty) : Prop :=
    forall n dots t, ok dots ty = true -> appr n ty t ->
      exists t', ft_pass o dots ty t = Ok t' /\ shaped n ty t' /\ rem ty t' <= pred (rem ty t).

  Lemma pt_eqb_refl p : pt_eqb p p = true.
  Proof. destruct p as [| |[]| | |[]|[]| | |]; reflexivity. Qed.
  Lemma coerce_same p n : coerce o p n p = Some (p, n).
  Proof. unfold coerce, coerce_core. rewrite pt_eqb_refl. reflexivity. Qed.

  Lemma leaf_pass p n t : pt_eqb p PNull = false -> (t = TUnknown n \/ t = TPrim n p) -> ensure_prim o p t = Ok (TPrim n p).
  Proof.
    intros Hp [-> | ->]; cbn [ensure_prim].
    - rewrite Hp, orb_false_r. reflexivity.
    - rewrite coerce_same. reflexivity.
  Qed.
  Lemma unit_pass n t : (t = TUnknown n \/ t = TPrim true PNull) -> ensure_prim o PNull t = Ok (TPrim true PNull).
  Proof.
    intros [-> | ->]; cbn [ensure_prim].
    - cbn [pt_eqb]. rewrite orb_true_r. reflexivity.
    - rewrite coerce_same. reflexivity.
  Qed.

  Ltac leaf_case :=
    intros n dots t _ Ha; rewrite ft_pass_eq; eexists; split;
    [first [eapply unit_pass; exact Ha | eapply leaf_pass; [reflexivity|exact Ha]]|split; [reflexivity|cbn; lia]].

  Lemma pass_unit : PassOK TyUnit. Proof. leaf_case. Qed.
  Lemma pass_bool : PassOK TyBool. Proof. leaf_case. Qed.
  Lemma pass_int k : PassOK (TyInt k). Proof. leaf_case. Qed.
  Lemma pass_f32 : PassOK TyF32. Proof. leaf_case. Qed.
  Lemma pass_f64 : PassOK TyF64. Proof. leaf_case. Qed.
  Lemma pass_char : PassOK TyChar. Proof. leaf_case. Qed.
  Lemma pass_string : PassOK TyString. Proof. leaf_case. Qed.
  Lemma pass_bytes : PassOK TyBytes. Proof. leaf_case. Qed.

  Lemma shaped_mark ty : forall t, shaped true ty t -> mark_nullable t = t.
  Proof.
    induction ty using Ty_ind'; intros t Hs; cbn [FromType_proofs.shaped] in Hs; try (subst; reflexivity).
    - apply IHty, Hs.
    - destruct Hs as (item & -> & _). reflexivity.
    - destruct Hs as (trs & -> & _). reflexivity.
    - destruct Hs as (kt & vt & -> & _). reflexivity.
    - destruct Hs as (trs & -> & _). reflexivity.
    - apply IHty, Hs.
    - destruct Hs as (vts & -> & _). reflexivity.
  Qed.

  Lemma depth_ok d : Nat.ltb d max_depth = true -> Nat.leb max_depth d = false.
  Proof. intros H. apply Nat.ltb_lt in H. apply Nat.leb_gt. exact H. Qed.

  Lemma pass_option x : PassOK x -> PassOK (TyOption x).
  Proof.
    intros IH n dots t Hok Ha. rewrite ft_pass_eq. cbn [FromType_proofs.ok] in Hok.
    assert (Hm : appr true x (mark_nullable t) /\ rem x (mark_nullable t) = rem x t).
    { destruct Ha as [-> | Hs].
      - split; [left; reflexivity|]. cbn [mark_nullable]. rewrite !rem_unknown. reflexivity.
      - cbn [FromType_proofs.shaped] in Hs. rewrite (shaped_mark x t Hs). split; [right; exact Hs|reflexivity]. }
    destruct Hm as [Hm Hr]. destruct (IH true dots _ Hok Hm) as (t' & E & Hs' & Hr'). exists t'. split; [exact E|]. split; [exact Hs'|].
    rewrite !rem_option, <- Hr. exact Hr'.
  Qed.

  Lemma pass_newtype x : PassOK x -> PassOK (TyNewtype x).
  Proof.
    intros IH n dots t Hok Ha. rewrite ft_pass_eq. cbn [FromType_proofs.ok] in Hok.
    assert (Hm : appr n x t) by (destruct Ha as [-> | Hs]; [left; reflexivity|right; exact Hs]).
    destruct (IH n dots t Hok Hm) as (t' & E & Hs' & Hr'). exists t'. split; [exact E|]. split; [exact Hs'|]. rewrite !rem_newtype. exact Hr'.
  Qed.

  Lemma pass_seq x : PassOK x -> PassOK (TySeq x).
  Proof.
    intros IH n dots t Hok Ha. rewrite ft_pass_eq. cbn [FromType_proofs.ok] in Hok. apply andb_true_iff in Hok as [Hd Hok].
    unfold ensure_list. rewrite (depth_ok _ Hd).
    destruct Ha as [-> | (item & -> & Hi)]; cbn [upgradable t_nullable bind].
    - destruct (IH false (S dots) (TUnknown false) Hok (or_introl eq_refl)) as (item' & E & Hs' & Hr'). rewrite E. cbn [bind].
      eexists. split; [reflexivity|]. split; [exists item'; split; [reflexivity|right; exact Hs']|].
      rewrite rem_unknown in Hr'. cbn [rem passes]. exact Hr'.
    - destruct (IH false (S dots) item Hok Hi) as (item' & E & Hs' & Hr'). rewrite E. cbn [bind].
      eexists. split; [reflexivity|]. split; [exists item'; split; [reflexivity|right; exact Hs']|]. cbn [rem]. exact Hr'.
  Qed.

  Lemma pass_map k v : PassOK k -> PassOK v -> PassOK (TyMap k v).
  Proof.
    intros IHk IHv n dots t Hok Ha. rewrite ft_pass_eq. cbn [FromType_proofs.ok] in Hok.
    apply andb_true_iff in Hok as [Hok Hv]. apply andb_true_iff in Hok as [Hok Hk]. apply andb_true_iff in Hok as [Hm Hd].
    apply negb_true_iff in Hm. rewrite Hm. unfold ensure_map. rewrite (depth_ok _ Hd).
    destruct Ha as [-> | (kt & vt & -> & Hkt & Hvt)]; cbn [upgradable t_nullable bind].
    - destruct (IHk false (S dots) (TUnknown false) Hk (or_introl eq_refl)) as (kt' & Ek & Hsk & Hrk). rewrite Ek. cbn [bind].
      destruct (IHv false (S dots) (TUnknown false) Hv (or_introl eq_refl)) as (vt' & Ev & Hsv & Hrv). rewrite Ev. cbn [bind].
      eexists. split; [reflexivity|]. split; [exists kt', vt'; split; [reflexivity|split; right; assumption]|].
      rewrite rem_unknown in Hrk, Hrv. cbn [rem passes]. lia.
    - destruct (IHk false (S dots) kt Hk Hkt) as (kt' & Ek & Hsk & Hrk). rewrite Ek. cbn [bind].
      destruct (IHv false (S dots) vt Hv Hvt) as (vt' & Ev & Hsv & Hrv). rewrite Ev. cbn [bind].
      eexists. split; [reflexivity|]. split; [exists kt', vt'; split; [reflexivity|split; right; assumption]|]. cbn [rem]. lia.
  Qed.

  (* ---- tuples ---- *)
  Definition RT (ty' : Ty) (tr : Tracer) : Prop := tr = TUnknown false \/ shaped false ty' tr.
  Definition gT (ty' : Ty) (tr : Tracer) : nat := rem ty' tr.

  Lemma tuple_pass_ok d : forall ts trs,
    Forall PassOK ts -> forallb (fun t => ok (S d) t) ts = true -> all2 RT ts trs ->
    exists trs', tuple_pass (ft_pass o) d ts trs = Ok trs' /\ all2 RT ts trs' /\ max2 gT ts trs' <= pred (max2 gT ts trs).
  Proof.
    induction ts as [|ty r IH]; intros [|tr trs] HF Hok Hall; cbn [all2] in Hall; try contradiction.
    - exists []. cbn. auto.
    - destruct Hall as [Hh Ht]. cbn [forallb] in Hok. apply andb_true_iff in Hok as [Hok1 Hok2].
      pose proof (Forall_inv HF) as P1. pose proof (Forall_inv_tail HF) as P2.
      destruct (P1 false (S d) tr Hok1 Hh) as (tr' & E & Hs & Hr).
      destruct (IH trs P2 Hok2 Ht) as (trs' & E2 & Hall' & Hr2).
      cbn [tuple_pass]. rewrite E. cbn [bind]. rewrite E2. cbn [bind]. eexists. split; [reflexivity|].
      split; [cbn [all2]; split; [right; exact Hs|exact Hall']|]. cbn [max2]. unfold gT at 1 3. lia.
  Qed.

  Lemma all2_unknown_tuple ts : all2 RT ts (repeat (TUnknown false) (length ts)).
  Proof. induction ts as [|ty r IH]; cbn [length repeat all2]; [exact I|split; [left; reflexivity|exact IH]]. Qed.
  Lemma max2_unknown_tuple ts : max2 gT ts (repeat (TUnknown false) (length ts)) = fold_right (fun t acc => Nat.max (passes t) acc) 0 ts.
  Proof. induction ts as [|ty r IH]; cbn [length repeat max2 fold_right]; [reflexivity|]. unfold gT at 1. rewrite rem_unknown, IH. reflexivity. Qed.

  Lemma arity_adjust_same fs : arity_adjust fs (length fs) = fs.
  Proof. induction fs as [|f r IH]; [reflexivity|]. cbn [length arity_adjust]. rewrite IH. reflexivity. Qed.

  Lemma pass_tuple ts : Forall PassOK ts -> PassOK (TyTuple ts).
  Proof.
    intros HF n dots t Hok Ha. rewrite ft_pass_eq. cbn [FromType_proofs.ok] in Hok. apply andb_true_iff in Hok as [Hd Hok].
    unfold as_tuple, ensure_tuple. rewrite (depth_ok _ Hd).
    destruct Ha as [-> | (trs & -> & Hall)]; cbn [upgradable t_nullable bind].
    - destruct (tuple_pass_ok dots ts _ HF Hok (all2_unknown_tuple ts)) as (trs' & E & Hall' & Hr). rewrite E. cbn [bind].
      eexists. split; [reflexivity|]. split; [exists trs'; split; [reflexivity|exact Hall']|].
      rewrite max2_unknown_tuple in Hr. cbn [rem passes]. change (max2 (fun ty' tr => rem ty' tr) ts trs') with (max2 gT ts trs'). lia.
    - rewrite (all2_length _ _ _ Hall), arity_adjust_same. destruct (tuple_pass_ok dots ts trs HF Hok Hall) as (trs' & E & Hall' & Hr). rewrite E. cbn [bind].
      eexists. split; [reflexivity|]. split; [exists trs'; split; [reflexivity|exact Hall']|].
      cbn [rem]. change (max2 (fun ty' tr => rem ty' tr) ts) with (max2 gT ts). exact Hr.
  Qed.

  (* ---- structs ---- *)
  Definition RS (f : bytes * Ty) (tr : bytes * Tracer * nat) : Prop :=
    let '(nm, fty) := f in exists t', tr = (nm, t', 0) /\ (t' = TUnknown false \/ shaped false fty t').
  Definition gS (f : bytes * Ty) (tr : bytes * Tracer * nat) : nat := let '(_, fty) := f in let '(_, ft, _) := tr in rem fty ft.

  Lemma fields_pass_ok d : forall fs trs,
    Forall (fun f => PassOK (snd f)) fs ->
    forallb (fun f : bytes * Ty => let '(nm, t) := f in ok (S d + count_dots nm) t) fs = true -> all2 RS fs trs ->
    exists trs', fields_pass (ft_pass o) d fs trs = Ok trs' /\ all2 RS fs trs' /\ max2 gS fs trs' <= pred (max2 gS fs trs).
  Proof.
    induction fs as [|[nm fty] r IH]; intros [|tr trs] HF Hok Hall; cbn [all2] in Hall; try contradiction.
    - exists []. cbn. auto.
    - destruct Hall as [(ft & -> & Hh) Ht]. cbn [forallb] in Hok. apply andb_true_iff in Hok as [Hok1 Hok2].
      pose proof (Forall_inv HF) as P1. pose proof (Forall_inv_tail HF) as P2. cbn [snd] in P1.
      destruct (P1 false _ ft Hok1 Hh) as (ft' & E & Hs & Hr).
      destruct (IH trs P2 Hok2 Ht) as (trs' & E2 & Hall' & Hr2).
      cbn [fields_pass]. rewrite E. cbn [bind]. rewrite E2. cbn [bind]. eexists. split; [reflexivity|].
      split; [cbn [all2]; split; [exists ft'; split; [reflexivity|right; exact Hs]|exact Hall']|]. cbn [max2 gS]. lia.
  Qed.

  Lemma all2_unknown_struct fs : all2 RS fs (map (fun nm => (nm, TUnknown false, 0)) (map fst fs)).
  Proof. induction fs as [|[nm ty] r IH]; cbn [map fst all2]; [exact I|split; [exists (TUnknown false); split; [reflexivity|left; reflexivity]|exact IH]]. Qed.
  Lemma max2_unknown_struct fs :
    max2 gS fs (map (fun nm => (nm, TUnknown false, 0)) (map fst fs)) = fold_right (fun (f : bytes * Ty) acc => let '(_, t) := f in Nat.max (passes t) acc) 0 fs.
  Proof. induction fs as [|[nm ty] r IH]; cbn [map fst max2 fold_right gS]; [reflexivity|]. rewrite rem_unknown, IH. reflexivity. Qed.

  Lemma pass_struct fs : Forall (fun f => PassOK (snd f)) fs -> PassOK (TyStruct fs).
  Proof.
    intros HF n dots t Hok Ha. rewrite ft_pass_eq. cbn [FromType_proofs.ok] in Hok. apply andb_true_iff in Hok as [Hd Hok].
    unfold as_struct, ensure_struct_named. rewrite (depth_ok _ Hd).
    destruct Ha as [-> | (trs & -> & Hall)]; cbn [upgradable t_nullable bind].
    - destruct (fields_pass_ok dots fs _ HF Hok (all2_unknown_struct fs)) as (trs' & E & Hall' & Hr). rewrite E. cbn [bind].
      eexists. split; [reflexivity|]. split; [exists trs'; split; [reflexivity|exact Hall']|].
      rewrite max2_unknown_struct in Hr. cbn [rem passes].
      change (max2 (fun (f : bytes * Ty) (tr : bytes * Tracer * nat) => let '(_, fty) := f in let '(_, ft, _) := tr in rem fty ft) fs trs') with (max2 gS fs trs'). lia.
    - destruct (fields_pass_ok dots fs trs HF Hok Hall) as (trs' & E & Hall' & Hr). rewrite E. cbn [bind].
      eexists. split; [reflexivity|]. split; [exists trs'; split; [reflexivity|exact Hall']|].
      cbn [rem]. exact Hr.
  Qed.

  (* ---- complete <-> nothing remains ---- *)
  Lemma passes_pos ty : 1 <= passes ty.
  Proof. induction ty using Ty_ind'; cbn [passes]; lia. Qed.

  Definition cS (trs : list (bytes * Tracer * nat)) : bool := forallb (fun tr : bytes * Tracer * nat => let '(_, ft, _) := tr in complete ft) trs.
  Definition cU (vts : list (option (bytes * Tracer))) : bool :=
    forallb (fun vt : option (bytes * Tracer) => match vt with Some (_, t') => complete t' | None => true end) vts.
  Lemma complete_tuple n trs : complete (TTuple n trs) = forallb complete trs.
  Proof. reflexivity. Qed.
  Lemma complete_struct n m sn trs : complete (TStruct n m sn trs) = cS trs.
  Proof. cbn [complete]. induction trs as [|[[nm ft] ls] r IH]; [reflexivity|]. cbn [cS forallb]. rewrite IH. reflexivity. Qed.
  Lemma complete_union n vts : complete (TUnion n vts) = cU vts.
  Proof. cbn [complete]. induction vts as [|[[nm t']|] r IH]; [reflexivity| |]; cbn [cU forallb]; rewrite IH; reflexivity. Qed.

  Definition CR (ty : Ty) : Prop :=
    forall n t, appr n ty t -> (complete t = true -> rem ty t = 0) /\ (complete t = false -> 1 <= rem ty t).

  Definition RV (v : bytes * Payload) (vt : option (bytes * Tracer)) : Prop :=
    exists t', vt = Some (fst v, t') /\ appr false (ty_of_payload (snd v)) t'.
  Definition gV (v : bytes * Payload) (vt : option (bytes * Tracer)) : nat :=
    match vt with Some (_, t') => rem (ty_of_payload (snd v)) t' | None => 0 end.

  Lemma cr_tuple ts : Forall CR ts -> forall trs, all2 RT ts trs ->
    (forallb complete trs = true -> max2 gT ts trs = 0) /\ (forallb complete trs = false -> 1 <= max2 gT ts trs).
  Proof.
    induction ts as [|ty r IH]; intros HF [|tr trs] Hall; cbn [all2] in Hall; try contradiction.
    - cbn. split; [reflexivity|discriminate].
    - destruct Hall as [Hh Ht]. destruct (Forall_inv HF false tr Hh) as [C1 C2]. destruct (IH (Forall_inv_tail HF) trs Ht) as [D1 D2].
      cbn [forallb max2]. unfold gT at 1 3. destruct (complete tr) eqn:Ec; cbn [andb].
      + split; [intros Hc; rewrite (C1 eq_refl), (D1 Hc); reflexivity|intros Hc; specialize (D2 Hc); lia].
      + split; [discriminate|intros _; specialize (C2 eq_refl); lia].
  Qed.
  Lemma cr_struct fs : Forall (fun f => CR (snd f)) fs -> forall trs, all2 RS fs trs ->
    (cS trs = true -> max2 gS fs trs = 0) /\ (cS trs = false -> 1 <= max2 gS fs trs).
  Proof.
    induction fs as [|[nm fty] r IH]; intros HF [|tr trs] Hall; cbn [all2] in Hall; try contradiction.
    - cbn. split; [reflexivity|discriminate].
    - destruct Hall as [(ft & -> & Hh) Ht]. pose proof (Forall_inv HF) as P1. cbn [snd] in P1. destruct (P1 false ft Hh) as [C1 C2].
      destruct (IH (Forall_inv_tail HF) trs Ht) as [D1 D2].
      cbn [cS forallb max2 gS]. fold (cS trs). destruct (complete ft) eqn:Ec; cbn [andb].
      + split; [intros Hc; rewrite (C1 eq_refl), (D1 Hc); reflexivity|intros Hc; specialize (D2 Hc); lia].
      + split; [discriminate|intros _; specialize (C2 eq_refl); lia].
  Qed.
  Lemma cr_union vs : Forall (fun v => CR (ty_of_payload (snd v))) vs -> forall vts, all2 RV vs vts ->
    (cU vts = true -> sum2 gV vs vts = 0) /\ (cU vts = false -> 1 <= sum2 gV vs vts).
  Proof.
    induction vs as [|v r IH]; intros HF [|vt vts] Hall; cbn [all2] in Hall; try contradiction.
    - cbn. split; [reflexivity|discriminate].
    - destruct Hall as [(t' & -> & Hh) Ht]. destruct (Forall_inv HF false t' Hh) as [C1 C2].
      destruct (IH (Forall_inv_tail HF) vts Ht) as [D1 D2].
      cbn [cU forallb sum2 gV]. fold (cU vts). destruct (complete t') eqn:Ec; cbn [andb].
      + split; [intros Hc; rewrite (C1 eq_refl), (D1 Hc); reflexivity|intros Hc; specialize (D2 Hc); lia].
      + split; [discriminate|intros _; specialize (C2 eq_refl); lia].
  Qed.

  Lemma cr_all ty : CR ty.
  Proof.
    induction ty using Ty_ind'; intros n t [-> | Hs];
      try (split; [discriminate|intros _; rewrite rem_unknown; apply passes_pos]);
      cbn [FromType_proofs.shaped] in Hs; try (subst t; cbn; split; [reflexivity|discriminate]).
    - rewrite rem_option. apply (IHty true). right. exact Hs.
    - destruct Hs as (item & -> & Hi). cbn [complete rem]. apply (IHty false). exact Hi.
    - destruct Hs as (trs & -> & Hall). rewrite complete_tuple. cbn [rem]. apply (cr_tuple ts H trs Hall).
    - destruct Hs as (kt & vt & -> & Hk & Hv). cbn [complete rem]. destruct (IHty1 false kt Hk) as [C1 C2]. destruct (IHty2 false vt Hv) as [D1 D2].
      destruct (complete kt) eqn:Ek, (complete vt) eqn:Ev; cbn [andb]; split; intros Hc; try discriminate;
        try specialize (C1 eq_refl); try specialize (D1 eq_refl); try specialize (C2 eq_refl); try specialize (D2 eq_refl); lia.
    - destruct Hs as (trs & -> & Hall). rewrite complete_struct. cbn [rem]. apply (cr_struct fs H trs Hall).
    - rewrite rem_newtype. apply (IHty n). right. exact Hs.
    - pose proof (proj1 (shaped_enum n vs t) Hs) as (vts & -> & Hall). rewrite complete_union, rem_enum. apply (cr_union vs H vts Hall).
  Qed.

  (* ---- enums: exactly one variant per pass ---- *)
  Lemma fi_total vs : forall vts, all2 RV vs vts -> exists pos, first_incomplete vts = Ok pos.
  Proof.
    induction vs as [|v r IH]; intros [|vt vts] Hall; cbn [all2] in Hall; try contradiction.
    - exists None. reflexivity.
    - destruct Hall as [(t' & -> & _) Ht]. cbn [first_incomplete]. destruct (complete t'); [|eexists; reflexivity].
      destruct (IH vts Ht) as (pos & E). rewrite E. cbn [bind]. eexists. reflexivity.
  Qed.

  Lemma fi_none vs : forall vts, all2 RV vs vts -> first_incomplete vts = Ok None -> cU vts = true.
  Proof.
    induction vs as [|v r IH]; intros [|vt vts] Hall; cbn [all2] in Hall; try contradiction; [reflexivity|].
    destruct Hall as [(t' & -> & _) Ht]. cbn [first_incomplete cU forallb]. fold (cU vts). destruct (complete t') eqn:Ec; [|discriminate].
    destruct (first_incomplete vts) as [[i|]| |] eqn:E; cbn [bind option_map]; try discriminate. intros _. cbn [andb]. apply (IH vts Ht E).
  Qed.

  Lemma fi_some vs : forall vts i, all2 RV vs vts -> first_incomplete vts = Ok (Some i) ->
    exists v t_i, nth_error vs i = Some v /\ get_variant vts i = Some (fst v, t_i) /\ appr false (ty_of_payload (snd v)) t_i /\ complete t_i = false /\
      forall t', appr false (ty_of_payload (snd v)) t' ->
        all2 RV vs (set_variant vts i (fst v, t')) /\
        sum2 gV vs (set_variant vts i (fst v, t')) + rem (ty_of_payload (snd v)) t_i = sum2 gV vs vts + rem (ty_of_payload (snd v)) t'.
  Proof.
    induction vs as [|v r IH]; intros [|vt vts] i Hall; cbn [all2] in Hall; try contradiction; [discriminate|].
    destruct Hall as [(t0 & -> & H0) Ht]. cbn [first_incomplete]. destruct (complete t0) eqn:Ec.
    - destruct (first_incomplete vts) as [[j|]| |] eqn:E; cbn [bind option_map]; try discriminate. intros Hi. injection Hi as <-.
      destruct (IH vts j Ht E) as (v' & t_i & Hn & Hg & Ha & Hc & Hupd). exists v', t_i. cbn [nth_error get_variant]. repeat (split; [assumption|]).
      intros t' Ht'. destruct (Hupd t' Ht') as [U1 U2]. cbn [set_variant all2 sum2]. split; [split; [exists t0; split; [reflexivity|exact H0]|exact U1]|lia].
    - intros Hi. injection Hi as <-. exists v, t0. cbn [nth_error get_variant]. repeat (split; [first [reflexivity|assumption]|]).
      intros t' Ht'. cbn [set_variant all2 sum2 gV]. split; [split; [exists t'; split; [reflexivity|exact Ht']|exact Ht]|lia].
  Qed.

  Lemma pick_nth pass vd vt vs : forall i v, nth_error vs i = Some v -> pick pass o vd vt vs i = payload_pass pass o vd (snd v) vt.
  Proof.
    induction vs as [|[nm p] r IH]; intros [|i] v Hn; cbn [nth_error] in Hn; try discriminate.
    - injection Hn as <-. reflexivity.
    - cbn [pick]. apply IH, Hn.
  Qed.

  Lemma forallb_nth {A} (f : A -> bool) l i a : forallb f l = true -> nth_error l i = Some a -> f a = true.
  Proof. intros Hf Hn. apply nth_error_In in Hn. rewrite forallb_forall in Hf. apply Hf, Hn. Qed.
  Lemma Forall_nth {A} (P : A -> Prop) l i a : Forall P l -> nth_error l i = Some a -> P a.
  Proof. intros Hf Hn. apply nth_error_In in Hn. rewrite Forall_forall in Hf. apply Hf, Hn. Qed.

  Lemma all2_unknown_enum vs : all2 RV vs (map (fun nm => Some (nm, TUnknown false)) (map fst vs)).
  Proof. induction vs as [|[nm p] r IH]; cbn [map fst all2]; [exact I|split; [exists (TUnknown false); split; [reflexivity|left; reflexivity]|exact IH]]. Qed.
  Lemma sum2_unknown_enum vs :
    sum2 gV vs (map (fun nm => Some (nm, TUnknown false)) (map fst vs)) = fold_right (fun (v : bytes * Payload) acc => passes (ty_of_payload (snd v)) + acc) 0 vs.
  Proof. induction vs as [|[nm p] r IH]; cbn [map fst sum2 fold_right gV snd]; [reflexivity|]. rewrite rem_unknown, IH. reflexivity. Qed.

  (* the body of deserialize_enum after ensure_union *)
  Lemma enum_step vs dots n vts :
    Forall (fun v => PassOK (ty_of_payload (snd v))) vs ->
    forallb (fun v : bytes * Payload => ok (S dots + count_dots (fst v)) (ty_of_payload (snd v)) && negb (nt_unit (snd v))) vs = true ->
    vs <> [] -> all2 RV vs vts ->
    exists vts',
      (do pos <- first_incomplete vts ;;
       match get_variant vts (match pos with Some i => i | None => 0 end) with
       | None => Err
       | Some (vname, vt) =>
         do vt' <- pick (ft_pass o) o (S dots + count_dots vname) vt vs (match pos with Some i => i | None => 0 end) ;;
         Ok (TUnion n (set_variant vts (match pos with Some i => i | None => 0 end) (vname, vt')))
       end) = Ok (TUnion n vts') /\ all2 RV vs vts' /\ sum2 gV vs vts' <= pred (sum2 gV vs vts).
  Proof.
    intros HF Hok Hne Hall. destruct (fi_total vs vts Hall) as (pos & Efi). rewrite Efi. cbn [bind].
    assert (Hcr : Forall (fun v => CR (ty_of_payload (snd v))) vs) by (apply Forall_forall; intros v _; apply cr_all).
    destruct pos as [i|].
    - destruct (fi_some vs vts i Hall Efi) as (v & t_i & Hn & Hg & Ha & Hc & Hupd). rewrite Hg.
      rewrite (pick_nth _ _ _ vs i v Hn), payload_pass_eq.
      pose proof (forallb_nth _ vs i v Hok Hn) as Hokv. apply andb_true_iff in Hokv as [Hokv _].
      destruct (Forall_nth _ vs i v HF Hn false _ t_i Hokv Ha) as (t' & E & Hs & Hr). rewrite E. cbn [bind].
      destruct (Hupd t' (or_intror Hs)) as [U1 U2]. eexists. split; [reflexivity|]. split; [exact U1|].
      destruct (cr_all (ty_of_payload (snd v)) false t_i Ha) as [_ C2]. specialize (C2 Hc). lia.
    - pose proof (fi_none vs vts Hall Efi) as Hcu. destruct (cr_union vs Hcr vts Hall) as [Z _]. specialize (Z Hcu).
      destruct vs as [|v r]; [congruence|]. destruct vts as [|vt vts]; cbn [all2] in Hall; [contradiction|].
      destruct Hall as [(t0 & -> & H0) Ht]. destruct v as [nm p]. cbn [fst snd] in *. cbn [get_variant pick]. rewrite payload_pass_eq.
      cbn [forallb] in Hok. apply andb_true_iff in Hok as [Hokv _]. apply andb_true_iff in Hokv as [Hokv _].
      destruct (Forall_inv HF false _ t0 Hokv H0) as (t' & E & Hs & Hr). cbn [fst snd] in E. rewrite E. cbn [bind].
      eexists. split; [reflexivity|]. cbn [set_variant all2 sum2 gV]. cbn [sum2 gV] in Z.
      split; [split; [exists t'; split; [reflexivity|right; exact Hs]|exact Ht]|]. lia.
  Qed.

  Lemma pass_enum vs : Forall (fun v => PassOK (ty_of_payload (snd v))) vs -> PassOK (TyEnum vs).
  Proof.
    intros HF n dots t Hok Ha. rewrite ft_pass_eq. rewrite ok_enum in Hok.
    apply andb_true_iff in Hok as [Hok Hvs]. apply andb_true_iff in Hok as [Hok _]. apply andb_true_iff in Hok as [Hd Hne].
    assert (Hne' : vs <> []) by (intros ->; discriminate Hne).
    unfold ensure_union_named. rewrite (depth_ok _ Hd).
    destruct Ha as [-> | Hs]; cbn [upgradable t_nullable bind].
    - destruct (enum_step vs dots n _ HF Hvs Hne' (all2_unknown_enum vs)) as (vts' & E & Hall' & Hr). rewrite E.
      eexists. split; [reflexivity|]. split; [apply shaped_enum; exists vts'; split; [reflexivity|exact Hall']|].
      rewrite sum2_unknown_enum in Hr. rewrite rem_enum, rem_unknown, passes_enum. fold gV. lia.
    - pose proof (proj1 (shaped_enum n vs t) Hs) as (vts & -> & Hall). cbn [upgradable bind].
      destruct (enum_step vs dots n vts HF Hvs Hne' Hall) as (vts' & E & Hall' & Hr). rewrite E.
      eexists. split; [reflexivity|]. split; [apply shaped_enum; exists vts'; split; [reflexivity|exact Hall']|].
      rewrite !rem_enum. exact Hr.
  Qed.

  Theorem pass_ok ty : PassOK ty.
  Proof.
    induction ty using Ty_ind'.
    - apply pass_unit. - apply pass_bool. - apply pass_int. - apply pass_f32. - apply pass_f64. - apply pass_char.
    - apply pass_string. - apply pass_bytes. - apply pass_option, IHty. - apply pass_seq, IHty. - apply pass_tuple, H.
    - apply pass_map; assumption. - apply pass_struct, H. - apply pass_newtype, IHty. - apply pass_enum, H.
  Qed.

  (* ---------------- convergence ---------------- *)
  Lemma complete_full_tuple ts : Forall (fun ty => forall n t, appr n ty t -> complete t = true -> t = full n ty) ts ->
    forall trs, all2 RT ts trs -> forallb complete trs = true -> trs = map (fun t => full false t) ts.
  Proof.
    induction ts as [|ty r IH]; intros HF [|tr trs] Hall Hc; cbn [all2] in Hall; try contradiction; [reflexivity|].
    destruct Hall as [Hh Ht]. cbn [forallb] in Hc. apply andb_true_iff in Hc as [Hc1 Hc2]. cbn [map]. f_equal.
    - apply (Forall_inv HF false tr Hh Hc1). - apply (IH (Forall_inv_tail HF) trs Ht Hc2).
  Qed.
  Lemma complete_full_struct fs : Forall (fun f => forall n t, appr n (snd f) t -> complete t = true -> t = full n (snd f)) fs ->
    forall trs, all2 RS fs trs -> cS trs = true -> trs = map (fun f : bytes * Ty => let '(nm, t) := f in (nm, full false t, 0)) fs.
  Proof.
    induction fs as [|[nm fty] r IH]; intros HF [|tr trs] Hall Hc; cbn [all2] in Hall; try contradiction; [reflexivity|].
    destruct Hall as [(ft & -> & Hh) Ht]. cbn [cS forallb] in Hc. apply andb_true_iff in Hc as [Hc1 Hc2]. cbn [map]. f_equal.
    - pose proof (Forall_inv HF) as P1. cbn [snd] in P1. rewrite (P1 false ft Hh Hc1). reflexivity.
    - apply (IH (Forall_inv_tail HF) trs Ht Hc2).
  Qed.
  Lemma complete_full_union vs : Forall (fun v => forall n t, appr n (ty_of_payload (snd v)) t -> complete t = true -> t = full n (ty_of_payload (snd v))) vs ->
    forall vts, all2 RV vs vts -> cU vts = true -> vts = map (fun v : bytes * Payload => Some (fst v, full false (ty_of_payload (snd v)))) vs.
  Proof.
    induction vs as [|v r IH]; intros HF [|vt vts] Hall Hc; cbn [all2] in Hall; try contradiction; [reflexivity|].
    destruct Hall as [(t' & -> & Hh) Ht]. cbn [cU forallb] in Hc. apply andb_true_iff in Hc as [Hc1 Hc2]. cbn [map]. f_equal.
    - rewrite (Forall_inv HF false t' Hh Hc1). reflexivity.
    - apply (IH (Forall_inv_tail HF) vts Ht Hc2).
  Qed.

  Lemma complete_full ty : forall n t, appr n ty t -> complete t = true -> t = full n ty.
  Proof.
    induction ty using Ty_ind'; intros n t [-> | Hs] Hc; try discriminate Hc;
      cbn [FromType_proofs.shaped] in Hs; try (subst t; reflexivity).
    - apply (IHty true t (or_intror Hs) Hc).
    - destruct Hs as (item & -> & Hi). cbn [complete] in Hc. cbn [FromType_proofs.full]. f_equal. apply (IHty false item Hi Hc).
    - destruct Hs as (trs & -> & Hall). rewrite complete_tuple in Hc. cbn [FromType_proofs.full]. f_equal. apply (complete_full_tuple ts H trs Hall Hc).
    - destruct Hs as (kt & vt & -> & Hk & Hv). cbn [complete] in Hc. apply andb_true_iff in Hc as [Hc1 Hc2]. cbn [FromType_proofs.full].
      f_equal; [apply (IHty1 false kt Hk Hc1)|apply (IHty2 false vt Hv Hc2)].
    - destruct Hs as (trs & -> & Hall). rewrite complete_struct in Hc. cbn [FromType_proofs.full]. f_equal. apply (complete_full_struct fs H trs Hall Hc).
    - apply (IHty n t (or_intror Hs) Hc).
    - pose proof (proj1 (shaped_enum n vs t) Hs) as (vts & -> & Hall). rewrite complete_union in Hc. rewrite full_enum. f_equal.
      apply (complete_full_union vs H vts Hall Hc).
  Qed.

  Lemma ft_loop_converges ty : ok 0 ty = true -> forall fuel t, appr false ty t -> rem ty t <= fuel -> ft_loop o fuel ty t = Ok (full false ty).
  Proof.
    intros Hok. induction fuel as [|f IH]; intros t Ha Hr; cbn [ft_loop]; destruct (complete t) eqn:Ec.
    - rewrite (complete_full ty false t Ha Ec). reflexivity.
    - destruct (cr_all ty false t Ha) as [_ C2]. specialize (C2 Ec). lia.
    - rewrite (complete_full ty false t Ha Ec). reflexivity.
    - destruct (pass_ok ty false 0 t Hok Ha) as (t' & E & Hs & Hr'). rewrite E. cbn [bind]. apply IH; [right; exact Hs|lia].
  Qed.

  Theorem ft_converges ty budget : ok 0 ty = true -> passes ty <= budget -> ft_loop o budget ty (TUnknown false) = Ok (full false ty).
  Proof. intros Hok Hb. apply ft_loop_converges; [exact Hok|left; reflexivity|rewrite rem_unknown; exact Hb]. Qed.

  (* ---------------- the schema of the fully explored tracer is the documented one ---------------- *)
  Definition tf_tuple (path : bytes) :=
    fix go (i : N) (l : list Tracer) : Outcome (list SField) :=
      match l with
      | [] => Ok []
      | ft :: r => do f <- to_field o [] (print_N i) (path_join path (print_N i)) ft ;; do rest <- go (N.succ i) r ;; Ok (f :: rest)
      end.
  Definition tf_struct (path : bytes) :=
    fix go (l : list (bytes * Tracer * nat)) : Outcome (list SField) :=
      match l with
      | [] => Ok []
      | (fname, ft, _) :: r => do f <- to_field o [] fname (path_join path fname) ft ;; do rest <- go r ;; Ok (f :: rest)
      end.
  Definition tf_union (path : bytes) :=
    fix go (l : list (option (bytes * Tracer))) : Outcome (list SField) :=
      match l with
      | [] => Ok []
      | Some (vname, vt) :: r => do f <- to_field o [] vname (path_join path vname) vt ;; do rest <- go r ;; Ok (f :: rest)
      | None :: r => do rest <- go r ;; Ok (unknown_variant_field :: rest)
      end.
  Definition doc_tuple :=
    fix go (i : N) (ts : list Ty) : Outcome (list SField) :=
      match ts with [] => Ok [] | ft :: r => do f <- doc_field o (print_N i) false ft ;; do rest <- go (N.succ i) r ;; Ok (f :: rest) end.
  Definition doc_fields :=
    fix go (fs : list (bytes * Ty)) : Outcome (list SField) :=
      match fs with [] => Ok [] | (n, ft) :: r => do f <- doc_field o n false ft ;; do rest <- go r ;; Ok (f :: rest) end.
  Definition doc_variants :=
    fix go (vs : list (bytes * Payload)) : Outcome (list SField) :=
      match vs with
      | [] => Ok []
      | (vn, p) :: r => do f <- doc_field o vn false (ty_of_payload p) ;; do rest <- go r ;; Ok (f :: rest)
      end.

  Lemma to_field_tuple name path n trs :
    to_field o [] name path (TTuple n trs) = do fs <- tf_tuple path 0%N trs ;; Ok (mkSF name (SStruct fs) n (Some STupleAsStruct)).
  Proof. reflexivity. Qed.
  Lemma to_field_struct name path n trs :
    to_field o [] name path (TStruct n false 0 trs) = do fs <- tf_struct path trs ;; Ok (mkSF name (SStruct fs) n None).
  Proof. reflexivity. Qed.
  Lemma to_field_union name path n vts :
    to_field o [] name path (TUnion n vts) =
    let without_data := forallb (fun v : option (bytes * Tracer) => match v with Some (_, vt) => is_null_variant vt | None => false end) vts in
    if without_data && o_enums_str o then Ok (dict_field o name n)
    else if without_data && negb (o_allow_null o) then Err
    else if Nat.ltb 128 (length vts) then Err
    else do fs <- tf_union path vts ;; Ok (mkSF name (SUnion fs) n None).
  Proof. reflexivity. Qed.
  Lemma doc_field_tuple name n ts : doc_field o name n (TyTuple ts) = do fs <- doc_tuple 0%N ts ;; Ok (mkSF name (SStruct fs) n (Some STupleAsStruct)).
  Proof. reflexivity. Qed.
  Lemma doc_field_struct name n fs : doc_field o name n (TyStruct fs) = do sfs <- doc_fields fs ;; Ok (mkSF name (SStruct sfs) n None).
  Proof. reflexivity. Qed.
  Lemma doc_field_enum name n vs :
    doc_field o name n (TyEnum vs) =
    if all_unit vs && o_enums_str o then Ok (mkSF name (SDictU32 (o_large_utf8 o)) n None)
    else if all_unit vs && negb (o_allow_null o) then Err
    else do fs <- doc_variants vs ;; Ok (mkSF name (SUnion fs) n None).
  Proof.
    cbn [doc_field]. destruct (all_unit vs && o_enums_str o); [reflexivity|]. destruct (all_unit vs && negb (o_allow_null o)); [reflexivity|].
    f_equal. induction vs as [|[vn p] r IH]; [reflexivity|]. cbn [doc_variants]. fold doc_variants. rewrite <- IH. destruct p; reflexivity.
  Qed.

  Definition TF (ty : Ty) : Prop := forall name path n d, ok d ty = true -> to_field o [] name path (full n ty) = doc_field o name n ty.

  Lemma is_null_full ty n : is_null_variant (full n ty) = unit_like ty.
  Proof. revert n. induction ty using Ty_ind'; intros n; try reflexivity; cbn [FromType_proofs.full unit_like]; try apply IHty. Qed.

  Lemma tf_tuple_full ts d : Forall TF ts -> forallb (fun t => ok (S d) t) ts = true ->
    forall path i, tf_tuple path i (map (fun t => full false t) ts) = doc_tuple i ts.
  Proof.
    induction ts as [|ty r IH]; intros HF Hok path i; [reflexivity|]. cbn [forallb] in Hok. apply andb_true_iff in Hok as [H1 H2].
    cbn [map tf_tuple doc_tuple]. fold (tf_tuple path) doc_tuple. rewrite (Forall_inv HF _ _ false (S d) H1), (IH (Forall_inv_tail HF) H2). reflexivity.
  Qed.
  Lemma tf_struct_full fs d : Forall (fun f => TF (snd f)) fs ->
    forallb (fun f : bytes * Ty => let '(nm, t) := f in ok (S d + count_dots nm) t) fs = true ->
    forall path, tf_struct path (map (fun f : bytes * Ty => let '(nm, t) := f in (nm, full false t, 0)) fs) = doc_fields fs.
  Proof.
    induction fs as [|[nm ty] r IH]; intros HF Hok path; [reflexivity|]. cbn [forallb] in Hok. apply andb_true_iff in Hok as [H1 H2].
    cbn [map tf_struct doc_fields]. fold (tf_struct path) doc_fields. pose proof (Forall_inv HF) as P1. cbn [snd] in P1.
    rewrite (P1 _ _ false _ H1), (IH (Forall_inv_tail HF) H2). reflexivity.
  Qed.
  Lemma tf_union_full vs d : Forall (fun v => TF (ty_of_payload (snd v))) vs ->
    forallb (fun v : bytes * Payload => ok (S d + count_dots (fst v)) (ty_of_payload (snd v)) && negb (nt_unit (snd v))) vs = true ->
    forall path, tf_union path (map (fun v : bytes * Payload => Some (fst v, full false (ty_of_payload (snd v)))) vs) = doc_variants vs.
  Proof.
    induction vs as [|[nm p] r IH]; intros HF Hok path; [reflexivity|]. cbn [forallb] in Hok. apply andb_true_iff in Hok as [H1 H2].
    apply andb_true_iff in H1 as [H1 _]. cbn [fst snd] in H1.
    cbn [map tf_union doc_variants fst snd]. fold (tf_union path) doc_variants. pose proof (Forall_inv HF) as P1. cbn [snd] in P1.
    rewrite (P1 _ _ false _ H1), (IH (Forall_inv_tail HF) H2). reflexivity.
  Qed.
  Lemma without_data_full vs (X : bytes * Payload -> bool) :
    forallb (fun v : bytes * Payload => X v && negb (nt_unit (snd v))) vs = true ->
    forallb (fun v : option (bytes * Tracer) => match v with Some (_, vt) => is_null_variant vt | None => false end)
            (map (fun v : bytes * Payload => Some (fst v, full false (ty_of_payload (snd v)))) vs) = all_unit vs.
  Proof.
    unfold all_unit. induction vs as [|[nm p] r IH]; intros Hok; [reflexivity|]. cbn [forallb] in Hok. apply andb_true_iff in Hok as [H1 H2].
    apply andb_true_iff in H1 as [_ H1]. cbn [snd] in H1. cbn [map forallb fst snd]. rewrite (IH H2), is_null_full. f_equal.
    destruct p; cbn [ty_of_payload unit_like nt_unit] in *; try reflexivity. apply negb_true_iff in H1. exact H1.
  Qed.

  Lemma tf_all ty : TF ty.
  Proof.
    induction ty using Ty_ind'; intros name path n d Hok.
    - reflexivity.
    - reflexivity.
    - reflexivity.
    - reflexivity.
    - reflexivity.
    - reflexivity.
    - cbn [FromType_proofs.full to_field get_overwrite find option_map doc_field]. unfold str_dt, dict_field. destruct (o_dict o); reflexivity.
    - reflexivity.
    - cbn [FromType_proofs.full doc_field]. cbn [FromType_proofs.ok] in Hok. apply (IHty name path true d Hok).
    - cbn [FromType_proofs.ok] in Hok. apply andb_true_iff in Hok as [_ Hok].
      cbn [FromType_proofs.full to_field get_overwrite find option_map doc_field]. rewrite (IHty _ _ false (S d) Hok). reflexivity.
    - cbn [FromType_proofs.ok] in Hok. apply andb_true_iff in Hok as [_ Hok].
      cbn [FromType_proofs.full]. rewrite to_field_tuple, doc_field_tuple, (tf_tuple_full ts d H Hok). reflexivity.
    - cbn [FromType_proofs.ok] in Hok. apply andb_true_iff in Hok as [Hok Hv]. apply andb_true_iff in Hok as [Hok Hk]. apply andb_true_iff in Hok as [Hm _].
      apply negb_true_iff in Hm. cbn [FromType_proofs.full to_field get_overwrite find option_map doc_field]. rewrite Hm.
      rewrite (IHty1 _ _ false (S d) Hk), (IHty2 _ _ false (S d) Hv). reflexivity.
    - cbn [FromType_proofs.ok] in Hok. apply andb_true_iff in Hok as [_ Hok].
      cbn [FromType_proofs.full]. rewrite to_field_struct, doc_field_struct, (tf_struct_full fs d H Hok). reflexivity.
    - cbn [FromType_proofs.full doc_field]. cbn [FromType_proofs.ok] in Hok. apply (IHty name path n d Hok).
    - rewrite ok_enum in Hok. apply andb_true_iff in Hok as [Hok Hvs]. apply andb_true_iff in Hok as [_ Hlen].
      rewrite full_enum, to_field_union, doc_field_enum. cbv zeta. rewrite (without_data_full vs _ Hvs).
      destruct (all_unit vs && o_enums_str o); [reflexivity|]. destruct (all_unit vs && negb (o_allow_null o)); [reflexivity|].
      rewrite map_length. apply Nat.leb_le in Hlen. destruct (Nat.ltb_spec 128 (length vs)) as [Hl|_]; [lia|].
      rewrite (tf_union_full vs d H Hvs). reflexivity.
  Qed.

  (* from_type = the documented mapping *)
  Theorem from_type_is_doc ty budget : ok 0 ty = true -> passes ty <= budget -> from_type o [] budget ty = doc_schema o ty.
  Proof.
    intros Hok Hb. unfold from_type. rewrite (ft_converges ty budget Hok Hb). cbn [bind].
    unfold check_overwrites. cbn [forallb]. unfold to_schema, doc_schema. rewrite (tf_all ty _ _ false 0 Hok). reflexivity.
  Qed.
End Proofs.
