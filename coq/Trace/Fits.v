(* C06, nested: whenever tracing a collection succeeds, every sample FITS the traced tracer at every depth - the tracer has the
   sample's shape at every position, every field / tuple position / variant / key of the sample is there, a position is nullable
   wherever the sample has a null, an Option or a missing field, and at every leaf the traced primitive type is one that the builder of
   that type accepts for the sample's scalar (numeric and string coercions are wide enough). *)
From Verif Require Import Tracer Coerce Coerce_proofs Builder_proofs Null_proofs Struct_proofs Project_proofs FlatRecords_proofs Shapes_proofs Nested_order Nested_repeat Nested_total Accept Accept_proofs.
From Coq Require Import Permutation.
Require Import Lia.
Local Open Scope nat_scope.

Section Fits.
  Variable o : Opts.

  Fixpoint fits (v : Value) (t : Tracer) {struct v} : Prop :=
    match v with
    | VNone | VUnit | VUnitStruct => t_nullable t = true
    | VSome x => t_nullable t = true /\ fits x t
    | VNewtypeStruct x => fits x t
    | VBool _ | VInt _ _ | VF32 _ | VF64 _ | VChar _ | VStr _ | VBytes _ =>
      exists n q, t = TPrim n q /\ forall pr, pres_of o v = Some pr -> builder_accepts q pr = true
    | VSeq l =>
      match t with
      | TList _ it => (fix all (l : list Value) : Prop := match l with [] => True | x :: r => fits x it /\ all r end) l
      | _ => False
      end
    | VTuple l | VTupleStruct l =>
      match t with
      | TTuple _ F =>
        (fix all (i : nat) (l : list Value) : Prop := match l with [] => True | x :: r => fits x (nth_tracer F i) /\ all (S i) r end) 0 l /\
        (forall i, length l <= i -> i < length F -> t_nullable (nth_tracer F i) = true)   (* positions a shorter tuple lacks are nullable *)
      | _ => False
      end
    | VMap kvs =>
      if o_map_as_struct o then
        match t with
        | TStruct _ _ _ fs =>
          (fix all (kvs : list (Value * Value)) : Prop :=
             match kvs with
             | [] => True
             | (VStr k, x) :: r => match fget2 k fs with Some (tk, _) => fits x tk | None => False end /\ all r
             | _ :: _ => False
             end) kvs
        | _ => False
        end
      else
        match t with
        | TMap _ kt vt => (fix all (kvs : list (Value * Value)) : Prop := match kvs with [] => True | (k, x) :: r => fits k kt /\ fits x vt /\ all r end) kvs
        | _ => False
        end
    | VStruct fa =>
      match t with
      | TStruct _ _ _ fs =>
        (fix all (fa : list (bytes * Value)) : Prop :=
           match fa with [] => True | (k, x) :: r => match fget2 k fs with Some (tk, _) => fits x tk | None => False end /\ all r end) fa
      | _ => False
      end
    | VUnitVariant i nm =>
      match t with TUnion _ V => (0 <= i)%Z /\ exists T, get_variant V (Z.to_nat i) = Some (nm, T) /\ t_nullable T = true | _ => False end
    | VNewtypeVariant i nm x =>
      match t with TUnion _ V => (0 <= i)%Z /\ exists T, get_variant V (Z.to_nat i) = Some (nm, T) /\ fits x T | _ => False end
    | VTupleVariant i nm l =>
      match t with
      | TUnion _ V => (0 <= i)%Z /\ exists T, get_variant V (Z.to_nat i) = Some (nm, T) /\
          match T with
          | TTuple _ F =>
            (fix all (i : nat) (l : list Value) : Prop := match l with [] => True | x :: r => fits x (nth_tracer F i) /\ all (S i) r end) 0 l /\
            (forall i, length l <= i -> i < length F -> t_nullable (nth_tracer F i) = true)
          | _ => False
          end
      | _ => False
      end
    | VStructVariant i nm fa =>
      match t with
      | TUnion _ V => (0 <= i)%Z /\ exists T, get_variant V (Z.to_nat i) = Some (nm, T) /\
          match T with
          | TStruct _ _ _ fs =>
            (fix all (fa : list (bytes * Value)) : Prop :=
               match fa with [] => True | (k, x) :: r => match fget2 k fs with Some (tk, _) => fits x tk | None => False end /\ all r end) fa
          | _ => False
          end
      | _ => False
      end
    end.

  (* the list-level clauses *)
  Lemma fits_seq l n it : fits (VSeq l) (TList n it) <-> Forall (fun x => fits x it) l.
  Proof. cbn [fits]. induction l as [|x r IH]; split; intros H; [constructor|exact I|destruct H as [H1 H2]; constructor; [exact H1|apply IH, H2]|inversion H; subst; split; [assumption|apply IH; assumption]]. Qed.

  Lemma fits_tuple_gen F : forall l i,
    (fix all (i : nat) (l : list Value) : Prop := match l with [] => True | x :: r => fits x (nth_tracer F i) /\ all (S i) r end) i l <->
    forall j x, nth_error l j = Some x -> fits x (nth_tracer F (i + j)).
  Proof.
    induction l as [|y r IH]; intros i; split; intros H.
    - intros j x Hx. destruct j; discriminate.
    - exact I.
    - destruct H as [H1 H2]. intros j x Hx. destruct j as [|j]; cbn [nth_error] in Hx; [injection Hx as <-; rewrite Nat.add_0_r; exact H1|].
      replace (i + S j) with (S i + j) by lia. apply (proj1 (IH (S i)) H2 j x Hx).
    - split; [specialize (H 0 y eq_refl); rewrite Nat.add_0_r in H; exact H|]. apply IH. intros j x Hx. replace (S i + j) with (i + S j) by lia. apply (H (S j) x Hx).
  Qed.
  Lemma fits_tuple l n F : fits (VTuple l) (TTuple n F) <->
    (forall j x, nth_error l j = Some x -> fits x (nth_tracer F j)) /\ (forall i, length l <= i -> i < length F -> t_nullable (nth_tracer F i) = true).
  Proof. cbn [fits]. rewrite (fits_tuple_gen F l 0). reflexivity. Qed.

  Lemma fits_fields fs : forall fa,
    (fix all (fa : list (bytes * Value)) : Prop :=
       match fa with [] => True | (k, x) :: r => match fget2 k fs with Some (tk, _) => fits x tk | None => False end /\ all r end) fa <->
    forall k x, In (k, x) fa -> exists tk lk, fget2 k fs = Some (tk, lk) /\ fits x tk.
  Proof.
    induction fa as [|[k x] r IH]; split; intros H.
    - intros k0 x0 [].
    - exact I.
    - destruct H as [H1 H2]. intros k0 x0 [E|Hin].
      + injection E as <- <-. destruct (fget2 k fs) as [[tk lk]|]; [exists tk, lk; split; [reflexivity|exact H1]|contradiction].
      + apply (proj1 IH H2 k0 x0 Hin).
    - split.
      + destruct (H k x (or_introl eq_refl)) as (tk & lk & -> & Hf). exact Hf.
      + apply IH. intros k0 x0 Hin. apply (H k0 x0 (or_intror Hin)).
  Qed.
  Lemma fits_struct fa n m s fs : fits (VStruct fa) (TStruct n m s fs) <-> forall k x, In (k, x) fa -> exists tk lk, fget2 k fs = Some (tk, lk) /\ fits x tk.
  Proof. cbn [fits]. apply fits_fields. Qed.
  Lemma fits_mapstruct fa n m s fs : o_map_as_struct o = true ->
    (fits (VMap (strkeys fa)) (TStruct n m s fs) <-> forall k x, In (k, x) fa -> exists tk lk, fget2 k fs = Some (tk, lk) /\ fits x tk).
  Proof.
    intros Hm. cbn [fits]. rewrite Hm. rewrite <- (fits_fields fs fa). induction fa as [|[k x] r IH]; [reflexivity|].
    cbn [strkeys map fst snd]. fold (strkeys r). rewrite IH. reflexivity.
  Qed.
  Lemma fits_map kvs n kt vt : o_map_as_struct o = false ->
    (fits (VMap kvs) (TMap n kt vt) <-> Forall (fun kv : Value * Value => fits (fst kv) kt /\ fits (snd kv) vt) kvs).
  Proof.
    intros Hm. cbn [fits]. rewrite Hm. induction kvs as [|[k x] r IH]; split; intros H; [constructor|exact I| |].
    - destruct H as (H1 & H2 & H3). constructor; [split; assumption|apply IH, H3].
    - inversion H as [|? ? [H1 H2] H3]; subst. repeat split; try assumption. apply IH, H3.
  Qed.

  (* marking a position nullable, or switching a record position to map mode, never un-fits a sample *)
  Lemma fits_mark : forall v t, fits v t -> fits v (mark_nullable t).
  Proof.
    intros v. induction v using Value_ind'; intros t Hf; cbn [fits] in *;
      try (destruct Hf as (nn & q & -> & Hq); exists true, q; split; [reflexivity|exact Hq]);
      try (apply nullable_mark);
      try (destruct t; try contradiction; cbn [mark_nullable]; exact Hf).
    all: try (destruct Hf as [_ Hf]; split; [apply nullable_mark|apply IHv, Hf]).
    all: try (apply IHv, Hf).
    all: try (destruct (o_map_as_struct o); destruct t; try contradiction; cbn [mark_nullable]; exact Hf).
  Qed.
  Lemma fits_mk b v t : fits v t -> fits v (mk b t).
  Proof. destruct b; cbn [mk]; [apply fits_mark|tauto]. Qed.
  Lemma fits_fmode : forall v t, fits v t -> fits v (fmode t).
  Proof.
    intros v. induction v using Value_ind'; intros t Hf; destruct t; cbn [fmode]; try exact Hf; cbn [fits] in *; try exact Hf;
      try (destruct Hf as (nn & q & E & _); discriminate E).
    all: try (destruct Hf as [Hn Hf]; split; [exact Hn|]; apply (IHv (TStruct nullable map_mode seen fields) Hf)).
    all: try (apply (IHv (TStruct nullable map_mode seen fields) Hf)).
    all: try (destruct (o_map_as_struct o); exact Hf).
  Qed.
  Lemma fits_bmode b v t : fits v t -> fits v (bmode b t).
  Proof. destruct b; cbn [bmode]; [apply fits_fmode|tauto]. Qed.
  (* ---- leaf positions: the atom-level forms of leaf_accepts / leaf_null_nullable ---- *)
  Lemma leaf_nullable_atom d vs l t a : all_atoms o vs = Some l -> trace_seq o d vs (TUnknown false) = Ok t ->
    In a l -> (a = AMark \/ a = AKind PNull) -> t_nullable t = true.
  Proof.
    intros H R Hinl Hcase. rewrite (trace_seq_atoms o d vs l _ H) in R.
    assert (Hok := all_atoms_ok o vs l H). assert (Hinv := inv_run o l _ _ _ (inv0 _ _ _) Hok R).
    assert (Habs := absorbed_in l summ0 _ Hinl).
    assert (Hnull : s_null (summ l summ0) = true) by (destruct Hcase as [->| ->]; rewrite <- Habs; reflexivity).
    destruct Hinv as [Hr _ _ _]. unfold render in Hr.
    destruct (s_any (summ l summ0)); [destruct (F _ _ _ _); [|discriminate]|]; inversion Hr; subst t; cbn; exact Hnull.
  Qed.

  Lemma leaf_accepts_atom d vs l t p pr : all_atoms o vs = Some l -> trace_seq o d vs (TUnknown false) = Ok t ->
    In (AKind p) l -> kind_of_pt p = Some (kind_of_pres pr) -> (pr < npres)%nat ->
    exists n q, t = TPrim n q /\ builder_accepts q pr = true.
  Proof.
    intros H R Hinl Hk Hlt. rewrite (trace_seq_atoms o d vs l _ H) in R.
    assert (Hok := all_atoms_ok o vs l H). assert (Hinv := inv_run o l _ _ _ (inv0 _ _ _) Hok R).
    assert (Habs := absorbed_in l summ0 _ Hinl). cbn [summ_atom] in Habs. rewrite Hk in Habs.
    assert (Hset : N.lor (s_set (summ l summ0)) (bit (kind_of_pres pr)) = s_set (summ l summ0)) by (rewrite <- Habs at 2; reflexivity).
    assert (Hany : s_any (summ l summ0) = true) by (rewrite <- Habs; reflexivity).
    assert (Hbit := lor_bit_absorbed _ _ Hset).
    destruct Hinv as [Hr _ _ Hd]. unfold render in Hr. rewrite Hany in Hr.
    destruct (F (o_coerce o) (o_to_string o) (o_large_utf8 o) (s_set (summ l summ0))) as [q'|] eqn:EF; [|discriminate].
    inversion Hr; subst t. eexists _, q'. split; [reflexivity|].
    assert (Hall := accept_ok (o_coerce o) (o_to_string o) (o_large_utf8 o)). unfold all_accept_checks in Hall.
    rewrite forallb_forall in Hall. specialize (Hall _ Hd). rewrite forallb_forall in Hall.
    assert (Hc := Hall pr). unfold accept_check in Hc. rewrite Hbit, EF in Hc. apply Hc. apply in_seq. unfold npres in *. lia.
  Qed.

  Lemma str_pres s : exists pr, pres_of o (VStr s) = Some pr.
  Proof. cbn [pres_of]. unfold str_type. repeat match goal with |- context [if ?cnd then _ else _] => destruct cnd end; eexists; reflexivity. Qed.

  Definition atom_ctor (v : Value) : bool :=
    match v with VBool _ | VInt _ _ | VF32 _ | VF64 _ | VChar _ | VStr _ | VBytes _ => true | _ => false end.
  Lemma pres_some v : atom_ctor v = true -> exists pr, pres_of o v = Some pr.
  Proof. destruct v; try discriminate; intros _; try (eexists; reflexivity); [destruct k; eexists; reflexivity|apply str_pres]. Qed.

  Lemma atoms_fits d vs l t : all_atoms o vs = Some l -> trace_seq o d vs (TUnknown false) = Ok t ->
    forall v a, atoms o v = Some a -> incl a l -> fits v t.
  Proof.
    intros H R v. induction v; intros a Ha Hincl; cbn [atoms] in Ha; try discriminate.
    all: try (injection Ha as <-;
              match goal with
              | |- fits ?vv _ =>
                destruct (pres_some vv eq_refl) as (pr & Hpr); destruct (pres_atoms o vv pr Hpr) as (p & Hat & Hk & Hlt); cbn [atoms] in Hat; injection Hat as Ep;
                destruct (leaf_accepts_atom d vs l t p pr H R ltac:(apply Hincl; rewrite Ep; left; reflexivity) Hk Hlt) as (nn & q & -> & Hacc);
                cbn [fits]; exists nn, q; split; [reflexivity|]; intros pr' Hpr'; rewrite Hpr in Hpr'; injection Hpr' as <-; exact Hacc
              end).
    - injection Ha as <-. cbn [fits]. apply (leaf_nullable_atom d vs l t AMark H R); [apply Hincl; left; reflexivity|left; reflexivity].
    - destruct (atoms o v) as [ax|] eqn:Ex; [|discriminate]. injection Ha as <-. cbn [fits]. split.
      + apply (leaf_nullable_atom d vs l t AMark H R); [apply Hincl; left; reflexivity|left; reflexivity].
      + apply (IHv ax eq_refl). intros x Hx. apply Hincl. right. exact Hx.
    - injection Ha as <-. cbn [fits]. apply (leaf_nullable_atom d vs l t (AKind PNull) H R); [apply Hincl; left; reflexivity|right; reflexivity].
    - injection Ha as <-. cbn [fits]. apply (leaf_nullable_atom d vs l t (AKind PNull) H R); [apply Hincl; left; reflexivity|right; reflexivity].
    - cbn [fits]. apply (IHv a Ha Hincl).
  Qed.

  Lemma leaf_fits d vs l t : all_atoms o vs = Some l -> trace_seq' o d vs (Ok (TUnknown false)) = Ok t -> Forall (fun v => fits v t) vs.
  Proof.
    intros H R. rewrite trace_seq_same in R. apply Forall_forall. intros v Hin.
    assert (exists a, atoms o v = Some a) as (a & Ha).
    { clear R. revert l H. induction vs as [|w r IH]; intros l H; [destruct Hin|]. cbn [all_atoms] in H.
      destruct (atoms o w) as [aw|] eqn:Ew; [|discriminate]. destruct (all_atoms o r) as [b0|] eqn:Eb; [|discriminate].
      destruct Hin as [->|Hin]; [eexists; exact Ew|apply (IH Hin b0 eq_refl)]. }
    apply (atoms_fits d vs l t H R v a Ha (all_atoms_in o vs l v a H Hin Ha)).
  Qed.
  (* ---- wrappers and nulls around a sample ---- *)
  Lemma fits_nulllike : forall v t, core v = None -> t_nullable t = true -> fits v t.
  Proof.
    intros v. induction v; intros t Hc Hn; cbn [core] in Hc; try discriminate; cbn [fits]; try exact Hn.
    - split; [exact Hn|apply (IHv t Hc Hn)].
    - apply (IHv t Hc Hn).
  Qed.
  Lemma fits_wrap : forall v cc t, core v = Some cc -> (nullish v = true -> t_nullable t = true) -> fits cc t -> fits v t.
  Proof.
    intros v. induction v; intros cc t Hc Hn Hf; cbn [core] in Hc; try discriminate; try (injection Hc as <-; exact Hf).
    - cbn [fits]. cbn [nullish] in Hn. split; [apply Hn; reflexivity|]. apply (IHv cc t Hc); [intros _; apply Hn; reflexivity|exact Hf].
    - cbn [fits]. cbn [nullish] in Hn. apply (IHv cc t Hc Hn Hf).
  Qed.
  Lemma nullable_mk_true t : t_nullable (mk true t) = true.
  Proof. apply nullable_mark. Qed.

  Lemma fits_from_cores vs u : (forall c, In c (cores vs) -> fits c u) -> Forall (fun v => fits v (mk (existsb nullish vs) u)) vs.
  Proof.
    intros Hc. apply Forall_forall. intros v Hin.
    assert (Hnl : nullish v = true -> t_nullable (mk (existsb nullish vs) u) = true).
    { intros Hn. assert (E : existsb nullish vs = true) by (apply existsb_exists; exists v; split; assumption). rewrite E. apply nullable_mk_true. }
    destruct (core v) as [c|] eqn:Ec.
    - apply (fits_wrap v c _ Ec Hnl). apply fits_mk. apply Hc. unfold cores. apply in_flat_map. exists v. split; [exact Hin|]. rewrite Ec. left. reflexivity.
    - apply (fits_nulllike v _ Ec). apply Hnl. apply (core_none_nullish v Ec).
  Qed.

  (* THE THEOREM (class form): every sample fits the traced tracer, at every depth *)
  Theorem fits_hom : forall n d vs t, Hom o n vs -> trace_seq' o d vs (Ok (TUnknown false)) = Ok t -> Forall (fun v => fits v t) vs.
  Proof.
    induction n as [|n IH]; intros d vs t Hh H1.
    - destruct Hh as [(l & Hl)|[]]. apply (leaf_fits d vs l t Hl H1).
    - destruct Hh as [(l & Hl)|[(ls & Hc & Hh)|[(RS & Hc & Hm & Hnd & Hh)|[(Hm & kvss & Hc & Hhk & Hhv)|[(TS & Hc & Hh)|(HF & Hh)]]]]].
      + apply (leaf_fits d vs l t Hl H1).
      + (* sequences *)
        destruct ls as [|l0 r0].
        { destruct (cores_nil_atoms o vs Hc) as (l & Hl). apply (leaf_fits d vs l t Hl H1). }
        rewrite (strip0 o d vs) in H1 by (rewrite Hc; first [apply containers_map; reflexivity|discriminate]). rewrite Hc in H1.
        destruct (omk_ok_inv _ _ _ H1) as (u & E1 & ->).
        destruct (seq_projection o d (l0 :: r0) false u ltac:(discriminate) E1) as (it & -> & Hi).
        pose proof (IH (S d) _ it Hh Hi) as Hall. rewrite Forall_forall in Hall.
        apply fits_from_cores. intros c Hin. rewrite Hc in Hin. apply in_map_iff in Hin as (l & <- & Hl).
        apply fits_seq. apply Forall_forall. intros x Hx. apply Hall. apply in_concat. exists l. split; assumption.
      + (* records *)
        destruct RS as [|x0 r0].
        { destruct (cores_nil_atoms o vs Hc) as (l & Hl). apply (leaf_fits d vs l t Hl H1). }
        assert (Hrc : forall a, is_container (rec a) = true) by (intros [[|] ?]; reflexivity).
        rewrite (strip0 o d vs) in H1 by (rewrite Hc; first [apply containers_map; exact Hrc|discriminate]). rewrite Hc in H1.
        rewrite (recs_collection o d (x0 :: r0) false Hm) in H1.
        destruct (omk_ok_inv _ _ _ H1) as (w & E1 & ->).
        set (RS := x0 :: r0) in *. set (SS := map snd RS) in *.
        destruct (trace_seq' o d (map VStruct SS) (Ok (TUnknown false))) as [u| |p] eqn:F1; [|rewrite obm_err in E1; discriminate|rewrite obm_panic in E1; discriminate].
        rewrite obm_ok in E1. injection E1 as <-.
        destruct (record_projection o d SS false u ltac:(unfold SS, RS; discriminate) Hnd F1) as (fs1 & -> & P1).
        apply fits_from_cores. intros c Hin. rewrite Hc in Hin. apply in_map_iff in Hin as ([b fa] & <- & Hx).
        assert (HfaS : In fa SS) by (unfold SS; apply in_map_iff; exists (b, fa); split; [reflexivity|exact Hx]).
        assert (Hfa : NoDup (map fst fa)) by (rewrite Forall_forall in Hnd; apply (Hnd fa HfaS)).
        apply fits_bmode.
        assert (Hfields : forall k x, In (k, x) fa -> exists tk lk, fget2 k fs1 = Some (tk, lk) /\ fits x tk).
        { intros k x Hkx. pose proof (Nested_repeat.flookup_in k x fa Hfa Hkx) as Hlk.
          assert (Hv : In x (vals k SS)) by (unfold vals; apply in_flat_map; exists fa; split; [exact HfaS|rewrite Hlk; left; reflexivity]).
          specialize (P1 k). destruct (fget2 k fs1) as [[tk lk]|].
          - destruct P1 as (_ & T & R & ->). exists (mk (missing k SS) T), lk. split; [reflexivity|]. apply fits_mk.
            pose proof (IH _ _ T (Hh k) R) as Hall. rewrite Forall_forall in Hall. apply Hall, Hv.
          - rewrite P1 in Hv. contradiction. }
        unfold rec. cbn [fst snd]. destruct b.
        * apply fits_mapstruct; [apply Hm; apply existsb_exists; exists (true, fa); split; [exact Hx|reflexivity]|exact Hfields].
        * apply fits_struct. exact Hfields.
      + (* maps traced as maps *)
        destruct kvss as [|kv0 r0].
        { destruct (cores_nil_atoms o vs Hc) as (l & Hl). apply (leaf_fits d vs l t Hl H1). }
        rewrite (strip0 o d vs) in H1 by (rewrite Hc; first [apply containers_map; reflexivity|discriminate]). rewrite Hc in H1.
        destruct (omk_ok_inv _ _ _ H1) as (u & E1 & ->).
        destruct (maps_projection o d (kv0 :: r0) false u Hm ltac:(discriminate) E1) as (kt & vt & -> & Hk & Hv).
        pose proof (IH (S d) _ kt Hhk Hk) as Hallk. pose proof (IH (S d) _ vt Hhv Hv) as Hallv. rewrite Forall_forall in Hallk, Hallv.
        apply fits_from_cores. intros c Hin. rewrite Hc in Hin. apply in_map_iff in Hin as (kvs & <- & Hkvs).
        apply (fits_map kvs false kt vt Hm). apply Forall_forall. intros kv Hkv. split.
        * apply Hallk. unfold mkeys. apply in_flat_map. exists kvs. split; [exact Hkvs|apply in_map, Hkv].
        * apply Hallv. unfold mvals. apply in_flat_map. exists kvs. split; [exact Hkvs|apply in_map, Hkv].
      + (* tuples *)
        destruct TS as [|x0 r0].
        { destruct (cores_nil_atoms o vs Hc) as (l & Hl). apply (leaf_fits d vs l t Hl H1). }
        assert (Htc : forall a, is_container (tup a) = true) by (intros [[|] ?]; reflexivity).
        rewrite (strip0 o d vs) in H1 by (rewrite Hc; first [apply containers_map; exact Htc|discriminate]). rewrite Hc, tups_collection in H1.
        destruct (omk_ok_inv _ _ _ H1) as (u & E1 & ->).
        destruct (tuple_projection o d (map snd (x0 :: r0)) false u ltac:(discriminate) E1) as (F & -> & HlenF & Hcol).
        apply fits_from_cores. intros c Hin. rewrite Hc in Hin. apply in_map_iff in Hin as ([b l] & <- & Hx).
        assert (Hl : fits (VTuple l) (TTuple false F)).
        { assert (Hlin : In l (map snd (x0 :: r0))) by (apply in_map_iff; exists (b, l); split; [reflexivity|exact Hx]).
          apply fits_tuple. split.
          - intros j x Hjx. destruct (Hcol j) as (T0 & R0 & ->). apply fits_mk. pose proof (IH (S d) _ _ (Hh j) R0) as Hall. rewrite Forall_forall in Hall. apply Hall.
            unfold col. apply in_flat_map. exists l. split; [exact Hlin|rewrite Hjx; left; reflexivity].
          - intros i Hli HiF. destruct (Hcol i) as (T0 & _ & ->). rewrite HlenF in HiF.
            assert (Ef : tflag i (map snd (x0 :: r0)) = true).
            { unfold tflag. apply andb_true_iff. split; [apply Nat.ltb_lt, HiF|]. unfold tmiss. apply existsb_exists. exists l. split; [exact Hlin|apply Nat.leb_le, Hli]. }
            rewrite Ef. apply nullable_mk_true. }
        destruct b; exact Hl.
      + (* enum variants *)
        destruct (cores vs) as [|c0 r0] eqn:Hc.
        { destruct (cores_nil_atoms o vs Hc) as (l & Hl). apply (leaf_fits d vs l t Hl H1). }
        rewrite (strip0 o d vs) in H1 by (rewrite Hc; first [exact (variants_containers _ HF)|discriminate]). rewrite Hc in H1.
        destruct (omk_ok_inv _ _ _ H1) as (u & E1 & ->).
        destruct (union_projection o d (c0 :: r0) false u ltac:(discriminate) HF E1) as (V & -> & (Hpos & _ & Hsel)).
        apply fits_from_cores. rewrite Hc. intros c Hin.
        rewrite Forall_forall in HF. pose proof (HF c Hin) as Hvc. destruct (vpl c) as [[[idx nm] p]|] eqn:Ev; [|congruence].
        assert (Hw : In (idx, nm, p) (pls (c0 :: r0))) by (unfold pls; apply in_flat_map; exists c; split; [exact Hin|rewrite Ev; left; reflexivity]).
        rewrite Forall_forall in Hpos. pose proof (Hpos _ Hw) as Hge. cbn [fst] in Hge.
        assert (Hsel_in : In (nm, p) (wsel (Z.to_nat idx) (pls (c0 :: r0)))).
        { unfold wsel. apply in_flat_map. exists (idx, nm, p). split; [exact Hw|]. replace (Z.of_nat (Z.to_nat idx)) with idx by lia. rewrite Z.eqb_refl. left. reflexivity. }
        specialize (Hsel (Z.to_nat idx)). destruct (get_variant V (Z.to_nat idx)) as [[nm' T]|] eqn:Eg; [|rewrite Hsel in Hsel_in; contradiction].
        destruct Hsel as (_ & Hnm & R). rewrite Forall_forall in Hnm. pose proof (Hnm _ Hsel_in) as En. cbn [fst] in En. subst nm'.
        pose proof (IH _ _ T (Hh (Z.to_nat idx)) R) as Hall. rewrite Forall_forall in Hall.
        assert (Hp : fits p T) by (apply Hall; apply in_map_iff; exists (nm, p); split; [reflexivity|exact Hsel_in]).
        destruct c; cbn [vpl] in Ev; try discriminate; injection Ev as <- <- <-; cbn [fits]; (split; [exact Hge|]); exists T; (split; [exact Eg|]); exact Hp.
  Qed.
End Fits.

(* for every collection of samples (no record repeats a key): whenever tracing succeeds, every sample fits the result *)
Theorem fits_total o d vs t : Forall (ndk o) vs -> trace_seq' o d vs (Ok (TUnknown false)) = Ok t -> Forall (fun v => fits o v t) vs.
Proof. intros Hn H. apply (fits_hom o (depth_of vs) d vs t (success_hom o _ d vs t (bound_all o vs Hn) H) H). Qed.

(* ... in particular for the tracer behind a successful from_samples *)
Theorem from_samples_fits o vs fs : Forall (ndk o) vs -> from_samples o [] vs = Ok fs ->
  exists root, trace_all o vs = Ok root /\ Forall (fun v => fits o v root) vs /\ to_schema o [] root = Ok fs.
Proof.
  intros Hn H. unfold from_samples in H. apply bind_ok in H as (root & T & H). exists root. split; [exact T|]. split; [apply (fits_total o 0 vs root Hn T)|].
  destruct (check_overwrites [] root); [exact H|discriminate].
Qed.
