(* C04 (first clause, on the tracer models): the schema traced from a type accepts every value of the type - every value of a covering
   collection FITS the fully explored tracer of the type (the tracer from_type converges to): shape, field / position / variant presence,
   nullability, and a leaf type whose builder accepts the scalar.  From C08 (the samples trace to that tracer up to counters) and C06
   (every sample fits the tracer of its own collection). *)
From Verif Require Import Tracer Coerce Coerce_proofs Builder_proofs Null_proofs Struct_proofs Project_proofs FlatRecords_proofs Shapes_proofs Nested_order Nested_repeat Nested_total Accept Accept_proofs Fits FromType FromType_proofs Agree.
From Coq Require Import Permutation.
Require Import Lia.
Local Open Scope nat_scope.

(* induction over values that also descends into map keys *)
Section ValueInd2.
  Variable P : Value -> Prop.
  Hypothesis Hbool : forall x, P (VBool x).
  Hypothesis Hint : forall k z, P (VInt k z).
  Hypothesis Hf32 : forall x, P (VF32 x).
  Hypothesis Hf64 : forall x, P (VF64 x).
  Hypothesis Hchar : forall c, P (VChar c).
  Hypothesis Hstr : forall s, P (VStr s).
  Hypothesis Hbytes : forall s, P (VBytes s).
  Hypothesis Hnone : P VNone.
  Hypothesis Hsome : forall v, P v -> P (VSome v).
  Hypothesis Hunit : P VUnit.
  Hypothesis Hunits : P VUnitStruct.
  Hypothesis Hnewtype : forall v, P v -> P (VNewtypeStruct v).
  Hypothesis Hseq : forall l, Forall P l -> P (VSeq l).
  Hypothesis Htuple : forall l, Forall P l -> P (VTuple l).
  Hypothesis Htuples : forall l, Forall P l -> P (VTupleStruct l).
  Hypothesis Hmap : forall kvs, Forall (fun kv : Value * Value => P (fst kv) /\ P (snd kv)) kvs -> P (VMap kvs).
  Hypothesis Hstruct : forall fs, Forall (fun nv : bytes * Value => P (snd nv)) fs -> P (VStruct fs).
  Hypothesis Huv : forall i n, P (VUnitVariant i n).
  Hypothesis Hnv : forall i n v, P v -> P (VNewtypeVariant i n v).
  Hypothesis Htv : forall i n l, Forall P l -> P (VTupleVariant i n l).
  Hypothesis Hsv : forall i n fs, Forall (fun nv : bytes * Value => P (snd nv)) fs -> P (VStructVariant i n fs).
  Fixpoint Value_ind2 (v : Value) : P v :=
    let list_ind := fix go (l : list Value) : Forall P l :=
        match l with [] => Forall_nil _ | x :: r => Forall_cons x (Value_ind2 x) (go r) end in
    let fields_ind := fix go (l : list (bytes * Value)) : Forall (fun nv : bytes * Value => P (snd nv)) l :=
        match l with [] => Forall_nil _ | (n, x) :: r => Forall_cons (n, x) (Value_ind2 x) (go r) end in
    match v with
    | VBool x => Hbool x | VInt k z => Hint k z | VF32 x => Hf32 x | VF64 x => Hf64 x | VChar c => Hchar c
    | VStr s => Hstr s | VBytes s => Hbytes s | VNone => Hnone | VSome x => Hsome x (Value_ind2 x)
    | VUnit => Hunit | VUnitStruct => Hunits | VNewtypeStruct x => Hnewtype x (Value_ind2 x)
    | VSeq l => Hseq l (list_ind l) | VTuple l => Htuple l (list_ind l) | VTupleStruct l => Htuples l (list_ind l)
    | VMap kvs => Hmap kvs ((fix go (l : list (Value * Value)) : Forall (fun kv : Value * Value => P (fst kv) /\ P (snd kv)) l :=
                               match l with [] => Forall_nil _ | (k, x) :: r => Forall_cons (k, x) (conj (Value_ind2 k) (Value_ind2 x)) (go r) end) kvs)
    | VStruct fs => Hstruct fs (fields_ind fs)
    | VUnitVariant i n => Huv i n | VNewtypeVariant i n x => Hnv i n x (Value_ind2 x)
    | VTupleVariant i n l => Htv i n l (list_ind l) | VStructVariant i n fs => Hsv i n fs (fields_ind fs)
    end.
End ValueInd2.

Section Transfer.
  Variable o : Opts.

  Definition Tr (v : Value) : Prop := forall t t', norm t = norm t' -> fits o v t -> fits o v t'.

  Lemma nullable_norm t : t_nullable (norm t) = t_nullable t.
  Proof. destruct t; reflexivity. Qed.
  Lemma norm_nullable_eq t t' : norm t = norm t' -> t_nullable t = t_nullable t'.
  Proof. intros H. rewrite <- (nullable_norm t), <- (nullable_norm t'), H. reflexivity. Qed.

  Lemma tr_tuple l : Forall Tr l -> forall t t', norm t = norm t' -> fits o (VTuple l) t -> fits o (VTuple l) t'.
  Proof.
    intros HF t t' Hn Hf. destruct t as [| | | | |n F|]; try (cbn [fits] in Hf; contradiction).
    destruct t' as [| | | | |n' F'|]; try discriminate Hn. cbn [norm] in Hn. injection Hn as -> HF'.
    apply fits_tuple in Hf as [Hpos Hnull]. apply fits_tuple.
    assert (Hlen : length F = length F') by (rewrite <- (map_length norm F), HF', map_length; reflexivity).
    assert (Hnth : forall i, norm (nth_tracer F i) = norm (nth_tracer F' i)) by (intros i; rewrite <- !nth_tracer_map_norm, HF'; reflexivity).
    split.
    - intros j x Hj. rewrite Forall_forall in HF. apply (HF x (nth_error_In _ _ Hj) _ _ (Hnth j)). apply (Hpos j x Hj).
    - intros i Hi HiF. rewrite <- (norm_nullable_eq _ _ (Hnth i)). apply Hnull; [exact Hi|rewrite Hlen; exact HiF].
  Qed.

  Definition normf (f : bytes * Tracer * nat) : bytes * Tracer * nat := let '(nm, ft, _) := f in (nm, norm ft, 0).
  Lemma fget2_normf : forall fs fs' k tk lk, map normf fs = map normf fs' -> fget2 k fs = Some (tk, lk) ->
    exists tk' lk', fget2 k fs' = Some (tk', lk') /\ norm tk = norm tk'.
  Proof.
    induction fs as [|[[n1 t1] s1] r IH]; intros [|[[n2 t2] s2] r'] k tk lk Hm Hg; try discriminate Hm; [discriminate Hg|].
    cbn [map normf] in Hm. injection Hm as -> Ht Hr. cbn [fget2] in *. destruct (bytes_eqb n2 k).
    - injection Hg as <- <-. exists t2, s2. split; [reflexivity|exact Ht].
    - apply (IH r' k tk lk Hr Hg).
  Qed.
  Lemma tr_fields (fa : list (bytes * Value)) : Forall (fun nv : bytes * Value => Tr (snd nv)) fa -> forall fs fs', map normf fs = map normf fs' ->
    (forall k x, In (k, x) fa -> exists tk lk, fget2 k fs = Some (tk, lk) /\ fits o x tk) ->
    (forall k x, In (k, x) fa -> exists tk lk, fget2 k fs' = Some (tk, lk) /\ fits o x tk).
  Proof.
    intros HF fs fs' Hm H k x Hin. destruct (H k x Hin) as (tk & lk & Hg & Hf). destruct (fget2_normf fs fs' k tk lk Hm Hg) as (tk' & lk' & Hg' & Hn).
    exists tk', lk'. split; [exact Hg'|]. rewrite Forall_forall in HF. apply (HF (k, x) Hin tk tk' Hn Hf).
  Qed.
  Lemma tr_struct fa : Forall (fun nv : bytes * Value => Tr (snd nv)) fa -> forall t t', norm t = norm t' -> fits o (VStruct fa) t -> fits o (VStruct fa) t'.
  Proof.
    intros HF t t' Hn Hf. destruct t as [| | | |n m s fs| |]; try (cbn [fits] in Hf; contradiction).
    destruct t' as [| | | |n' m' s' fs'| |]; try discriminate Hn. cbn [norm] in Hn. injection Hn as -> -> Hm.
    pose proof (proj1 (fits_struct o fa _ _ _ _) Hf) as Hf1. apply (proj2 (fits_struct o fa _ _ _ _)). apply (tr_fields fa HF fs fs' Hm Hf1).
  Qed.

  Lemma get_variant_normopt V V' i nm T : map normopt V = map normopt V' -> get_variant V i = Some (nm, T) ->
    exists T', get_variant V' i = Some (nm, T') /\ norm T = norm T'.
  Proof.
    intros Hm Hg. assert (E : normopt (get_variant V i) = normopt (get_variant V' i)) by (rewrite <- !(get_variant_map normopt) by reflexivity; rewrite Hm; reflexivity).
    rewrite Hg in E. cbn [normopt] in E. destruct (get_variant V' i) as [[nm' T']|]; [|discriminate E]. cbn [normopt] in E. injection E as <- E. exists T'. split; [reflexivity|exact E].
  Qed.

  Theorem fits_norm_eq : forall v, Tr v.
  Proof.
    intros v. induction v using Value_ind2; intros t t' Hn Hf.
    all: try (cbn [fits] in *; destruct Hf as (nn & q & -> & Hq); cbn [norm] in Hn; destruct t'; try discriminate Hn; injection Hn as <- <-; exists nn, q; split; [reflexivity|exact Hq]).
    - cbn [fits] in *. rewrite <- (norm_nullable_eq _ _ Hn). exact Hf.
    - cbn [fits] in *. destruct Hf as [Hnl Hf]. split; [rewrite <- (norm_nullable_eq _ _ Hn); exact Hnl|apply (IHv t t' Hn Hf)].
    - cbn [fits] in *. rewrite <- (norm_nullable_eq _ _ Hn). exact Hf.
    - cbn [fits] in *. rewrite <- (norm_nullable_eq _ _ Hn). exact Hf.
    - cbn [fits] in *. apply (IHv t t' Hn Hf).
    - (* seq *)
      destruct t as [| |n it| | | |]; try (cbn [fits] in Hf; contradiction). destruct t' as [| |n' it'| | | |]; try discriminate Hn.
      cbn [norm] in Hn. injection Hn as -> Hi. apply fits_seq in Hf. apply fits_seq. rewrite Forall_forall in *. intros x Hx. apply (H x Hx it it' Hi (Hf x Hx)).
    - apply (tr_tuple l H t t' Hn Hf).
    - apply (tr_tuple l H t t' Hn Hf).
    - (* map *)
      destruct (o_map_as_struct o) eqn:Em.
      + destruct t as [| | | |n m s fs| |]; try (cbn [fits] in Hf; rewrite Em in Hf; contradiction).
        destruct t' as [| | | |n' m' s' fs'| |]; try discriminate Hn. cbn [norm] in Hn. injection Hn as -> -> Hm.
        cbn [fits] in *. rewrite Em in *. revert Hf. induction H as [|[k x] r [_ Hx] _ IHr]; intros Hf; [exact I|].
        destruct k; try contradiction. destruct Hf as [H1 H2]. split; [|apply IHr, H2].
        destruct (fget2 s0 fs) as [[tk lk]|] eqn:Eg; [|contradiction]. destruct (fget2_normf fs fs' s0 tk lk Hm Eg) as (tk' & lk' & -> & Hnk). apply (Hx tk tk' Hnk H1).
      + destruct t as [| | |n kt vt| | |]; try (cbn [fits] in Hf; rewrite Em in Hf; contradiction).
        destruct t' as [| | |n' kt' vt'| | |]; try discriminate Hn. cbn [norm] in Hn. injection Hn as -> Hk Hv.
        pose proof (proj1 (fits_map o kvs _ kt vt Em) Hf) as Hf1. apply (proj2 (fits_map o kvs _ kt' vt' Em)). clear Hf. rename Hf1 into Hf. rewrite Forall_forall in *. intros kv Hkv.
        destruct (Hf kv Hkv) as [F1 F2]. destruct (H kv Hkv) as [P1 P2]. split; [apply (P1 kt kt' Hk F1)|apply (P2 vt vt' Hv F2)].
    - apply (tr_struct fs H t t' Hn Hf).
    - (* unit variant *)
      destruct t as [| | | | | |n0 V]; try (cbn [fits] in Hf; contradiction). destruct t' as [| | | | | |n' V']; try discriminate Hn. cbn [norm] in Hn. injection Hn as -> Hm.
      cbn [fits] in *. destruct Hf as (Hge & T & Hg & Hnl). split; [exact Hge|]. destruct (get_variant_normopt V V' _ _ T Hm Hg) as (T' & Hg' & HT). exists T'. split; [exact Hg'|rewrite <- (norm_nullable_eq _ _ HT); exact Hnl].
    - (* newtype variant *)
      destruct t as [| | | | | |n0 V]; try (cbn [fits] in Hf; contradiction). destruct t' as [| | | | | |n' V']; try discriminate Hn. cbn [norm] in Hn. injection Hn as -> Hm.
      cbn [fits] in *. destruct Hf as (Hge & T & Hg & Hx). split; [exact Hge|]. destruct (get_variant_normopt V V' _ _ T Hm Hg) as (T' & Hg' & HT). exists T'. split; [exact Hg'|apply (IHv T T' HT Hx)].
    - (* tuple variant *)
      destruct t as [| | | | | |n0 V]; try (cbn [fits] in Hf; contradiction). destruct t' as [| | | | | |n' V']; try discriminate Hn. cbn [norm] in Hn. injection Hn as -> Hm.
      cbn [fits] in *. destruct Hf as (Hge & T & Hg & Hx). split; [exact Hge|]. destruct (get_variant_normopt V V' _ _ T Hm Hg) as (T' & Hg' & HT). exists T'. split; [exact Hg'|].
      apply (tr_tuple l H T T' HT Hx).
    - (* struct variant *)
      destruct t as [| | | | | |n0 V]; try (cbn [fits] in Hf; contradiction). destruct t' as [| | | | | |n' V']; try discriminate Hn. cbn [norm] in Hn. injection Hn as -> Hm.
      cbn [fits] in *. destruct Hf as (Hge & T & Hg & Hx). split; [exact Hge|]. destruct (get_variant_normopt V V' _ _ T Hm Hg) as (T' & Hg' & HT). exists T'. split; [exact Hg'|].
      apply (tr_struct fs H T T' HT Hx).
  Qed.
End Transfer.

(* ---- a covering collection has no record with a repeated key ---- *)
Section CovNdk.
  Variable o : Opts.

  Lemma ndk_list (l : list Value) : Forall (ndk o) l -> fold_right (fun x P => ndk o x /\ P) True l.
  Proof. apply (proj2 (fr_forall o l)). Qed.
  Lemma ndk_fields (fa : list (bytes * Value)) : Forall (fun f : bytes * Value => ndk o (snd f)) fa ->
    fold_right (fun (f : bytes * Value) P => let '(_, x) := f in ndk o x /\ P) True fa.
  Proof. induction 1 as [|[k x] r Hx _ IH]; cbn [fold_right]; [exact I|split; [exact Hx|exact IH]]. Qed.
  Lemma ndk_pairs (kvs : list (Value * Value)) : Forall (fun kv : Value * Value => ndk o (fst kv) /\ ndk o (snd kv)) kvs ->
    fold_right (fun (kv : Value * Value) P => let '(k, x) := kv in ndk o k /\ ndk o x /\ P) True kvs.
  Proof. induction 1 as [|[k x] r [Hk Hx] _ IH]; cbn [fold_right]; [exact I|repeat split; assumption]. Qed.

  Definition NdkCov (ty : Ty) : Prop := forall d vs0, ok o d ty = true -> Cov ty vs0 -> Forall (ndk o) vs0.

  Lemma ndkcov_tuple_gen ts : Forall NdkCov ts -> forall d ls, Nat.ltb d max_depth && forallb (fun t => ok o (S d) t) ts = true ->
    Forall (fun l => length l = length ts) ls -> (forall j t, nth_error ts j = Some t -> Cov t (col j ls)) -> Forall (fun l => Forall (ndk o) l) ls.
  Proof.
    intros HF d ls Hok Hlen Hpos. apply andb_true_iff in Hok as [_ Hok]. rewrite forallb_forall in Hok. rewrite Forall_forall in *. intros l Hl. apply Forall_forall. intros x Hx.
    apply In_nth_error in Hx as (j & Hj). assert (Hjl : j < length ts) by (rewrite <- (Hlen l Hl); apply nth_error_Some; congruence).
    destruct (nth_error ts j) as [t|] eqn:Et; [|apply nth_error_None in Et; lia].
    pose proof (HF t (nth_error_In _ _ Et) (S d) _ (Hok t (nth_error_In _ _ Et)) (Hpos j t Et)) as Hall. rewrite Forall_forall in Hall. apply Hall.
    unfold col. apply in_flat_map. exists l. split; [exact Hl|rewrite Hj; left; reflexivity].
  Qed.
  Lemma ndkcov_struct_gen fs : Forall (fun f : bytes * Ty => NdkCov (snd f)) fs -> forall d SS,
    Nat.ltb d max_depth && forallb (fun f : bytes * Ty => let '(nm, t) := f in ok o (S d + count_dots nm) t) fs = true ->
    NoDup (map fst fs) -> Forall (fun fa : list (bytes * Value) => map fst fa = map fst fs) SS -> (forall nm t, In (nm, t) fs -> Cov t (vals nm SS)) ->
    Forall (fun fa : list (bytes * Value) => NoDup (map fst fa) /\ Forall (fun f : bytes * Value => ndk o (snd f)) fa) SS.
  Proof.
    intros HF d SS Hok Hnd Hkeys Hfs. apply andb_true_iff in Hok as [_ Hok]. rewrite forallb_forall in Hok. rewrite Forall_forall in *. intros fa Hfa.
    assert (Hndfa : NoDup (map fst fa)) by (rewrite (Hkeys fa Hfa); exact Hnd). split; [exact Hndfa|]. apply Forall_forall. intros [k x] Hkx. cbn [snd].
    assert (Hk : In k (map fst fs)) by (rewrite <- (Hkeys fa Hfa); apply (in_map fst _ _ Hkx)). apply in_map_iff in Hk as ([nm t] & Enm & Hin). cbn [fst] in Enm. subst nm.
    pose proof (HF (k, t) Hin (S d + count_dots k) _ (Hok (k, t) Hin) (Hfs k t Hin)) as Hall. rewrite Forall_forall in Hall. apply Hall.
    unfold vals. apply in_flat_map. exists fa. split; [exact Hfa|]. rewrite (Nested_repeat.flookup_in k x fa Hndfa Hkx). left. reflexivity.
  Qed.

  Theorem cov_ndk : forall ty, NdkCov ty.
  Proof.
    induction ty using Ty_ind'; intros d vs0 Hok Hc; cbn [Cov] in Hc.
    all: try (destruct Hc as [_ HF]; eapply Forall_impl; [|exact HF]; cbn beta; intros v Hv; first [destruct Hv as (x & ->); exact I|destruct Hv as [-> | ->]; exact I]).
    - (* option *)
      destruct Hc as [HF Hc]. cbn [FromType_proofs.ok] in Hok. pose proof (IHty d _ Hok Hc) as Hall. rewrite Forall_forall in *. intros v Hv.
      destruct (HF v Hv) as [->|(w & ->)]; [exact I|]. cbn [ndk]. apply Hall. unfold somes. apply in_flat_map. exists (VSome w). split; [exact Hv|left; reflexivity].
    - (* seq *)
      destruct Hc as (ls & -> & Hc). cbn [FromType_proofs.ok] in Hok. apply andb_true_iff in Hok as [_ Hok]. pose proof (IHty (S d) _ Hok Hc) as Hall.
      apply Forall_map. rewrite Forall_forall in *. intros l Hl. cbn [ndk]. apply ndk_list. apply Forall_forall. intros x Hx. apply Hall. apply in_concat. exists l. split; assumption.
    - (* tuple *)
      destruct Hc as (ls & -> & _ & Hlen & Hpos0). pose proof (proj1 (cov_positions o ls ts 0) Hpos0) as Hpos. cbn [Nat.add] in Hpos. cbn [FromType_proofs.ok] in Hok.
      pose proof (ndkcov_tuple_gen ts H d ls Hok Hlen Hpos) as Hall. apply Forall_map. eapply Forall_impl; [|exact Hall]. intros l Hl. cbn [ndk]. apply ndk_list, Hl.
    - (* map *)
      destruct Hc as (kvss & -> & Hck & Hcv). cbn [FromType_proofs.ok] in Hok. apply andb_true_iff in Hok as [Hok Hokv]. apply andb_true_iff in Hok as [Hok Hokk]. apply andb_true_iff in Hok as [Hm _].
      apply negb_true_iff in Hm. pose proof (IHty1 (S d) _ Hokk Hck) as Hk. pose proof (IHty2 (S d) _ Hokv Hcv) as Hv.
      apply Forall_map. rewrite Forall_forall in *. intros kvs Hkvs. cbn [ndk]. split; [rewrite Hm; discriminate|]. apply ndk_pairs. apply Forall_forall. intros kv Hkv. split.
      + apply Hk. unfold mkeys. apply in_flat_map. exists kvs. split; [exact Hkvs|apply in_map, Hkv].
      + apply Hv. unfold mvals. apply in_flat_map. exists kvs. split; [exact Hkvs|apply in_map, Hkv].
    - (* struct *)
      destruct Hc as (SS & -> & _ & Hnd & Hkeys & Hfs0). pose proof (proj1 (cov_fields SS fs) Hfs0) as Hfs. cbn [FromType_proofs.ok] in Hok.
      pose proof (ndkcov_struct_gen fs H d SS Hok Hnd Hkeys Hfs) as Hall. apply Forall_map. eapply Forall_impl; [|exact Hall]. intros fa [Hn Hch]. cbn [ndk]. split; [exact Hn|apply ndk_fields, Hch].
    - (* newtype *)
      destruct Hc as (ws & -> & Hc). cbn [FromType_proofs.ok] in Hok. pose proof (IHty d _ Hok Hc) as Hall. apply Forall_map. eapply Forall_impl; [|exact Hall]. intros w Hw. exact Hw.
    - (* enum *)
      destruct Hc as (_ & HFv & Hrange & Hgo). pose proof (cov_variants o vs0 vs 0 Hgo) as Hvs. cbn [Nat.add] in Hvs.
      cbn [FromType_proofs.ok] in Hok. apply andb_true_iff in Hok as [_ Hvars]. rewrite forallb_forall in Hvars.
      rewrite Forall_forall in *. intros v Hv. pose proof (HFv v Hv) as Hvp. destruct (vpl v) as [[[idx nm] p]|] eqn:Ev; [|congruence].
      assert (Hw : In (idx, nm, p) (pls vs0)) by (unfold pls; apply in_flat_map; exists v; split; [exact Hv|rewrite Ev; left; reflexivity]).
      pose proof (Hrange _ Hw) as Hr. cbn [fst] in Hr. set (i := Z.to_nat idx).
      destruct (nth_error vs i) as [[vn vp]|] eqn:Ei; [|apply nth_error_None in Ei; unfold i in Ei; lia].
      destruct (Hvs i vn vp Ei) as [_ Hcv].
      assert (Hp : ndk o p).
      { pose proof (H (vn, vp) (nth_error_In _ _ Ei) (S d + count_dots vn) _ (ok_payload o d vn vp (Hvars (vn, vp) (nth_error_In _ _ Ei))) Hcv) as Hall. rewrite Forall_forall in Hall. apply Hall.
        apply in_map_iff. exists (nm, p). split; [reflexivity|]. unfold wsel. apply in_flat_map. exists (idx, nm, p). split; [exact Hw|].
        replace (Z.of_nat i) with idx by (unfold i; lia). rewrite Z.eqb_refl. left. reflexivity. }
      destruct v; cbn [vpl] in Ev; try discriminate; injection Ev as <- <- <-; cbn [ndk] in *; first [exact I|exact Hp].
  Qed.
End CovNdk.

(* ---- every value of a covering collection fits the fully explored tracer of the type ---- *)
Theorem typed_values_fit o ty vs : o_guess_dates o = false -> ok o 0 ty = true -> Cov ty vs -> Forall (fun v => fits o v (full o false ty)) vs.
Proof.
  intros Hgd Hok Hc. destruct (cov_full o Hgd ty 0 vs Hok Hc) as (t & Ht & Hn).
  pose proof (fits_total o 0 vs t (cov_ndk o ty 0 vs Hok Hc) Ht) as Hall.
  eapply Forall_impl; [|exact Hall]. intros v Hv. apply (fits_norm_eq o v t (full o false ty) Hn Hv).
Qed.

(* ... which is the tracer from_type ends with *)
Theorem from_type_accepts_its_values o ty vs budget : o_guess_dates o = false -> ok o 0 ty = true -> passes ty <= budget -> Cov ty vs ->
  exists root, ft_loop o budget ty (TUnknown false) = Ok root /\ Forall (fun v => fits o v root) vs.
Proof.
  intros Hgd Hok Hb Hc. exists (full o false ty). split; [apply (ft_converges o ty budget Hok Hb)|apply (typed_values_fit o ty vs Hgd Hok Hc)].
Qed.
