(* The arms of coerce_primitive_type as regenerated from /repo's tracer.rs on every run
   (Gen/TracerTables.v), interpreted as a first-match table, and the theorem that this table is the
   hand-written `coerce_core` of the tracer model for every pair of traced primitive types, every
   nullability and every setting of the three options it consults.  A new, removed, reordered or
   re-guarded arm in the source changes the generated table and breaks the theorem. *)
From Coq Require Import String.
From Verif Require Import Tracer TracerTables.
Local Open Scope string_scope.

Definition pt_name (p : PT) : string :=
  match p with
  | PNull => "Null" | PBool => "Boolean"
  | PI I8 => "Int8" | PI I16 => "Int16" | PI I32 => "Int32" | PI I64 => "Int64"
  | PI U8 => "UInt8" | PI U16 => "UInt16" | PI U32 => "UInt32" | PI U64 => "UInt64"
  | PFloat32 => "Float32" | PFloat64 => "Float64"
  | PStr true => "LargeUtf8" | PStr false => "Utf8"
  | PTs _ => "Timestamp" | PTime64Ns => "Time64" | PDate32T => "Date32" | PLargeBinary => "LargeBinary"
  end.

Definition named_pts : list PT :=
  [PNull; PBool; PI I8; PI I16; PI I32; PI I64; PI U8; PI U16; PI U32; PI U64; PFloat32; PFloat64; PStr true; PStr false].

(* a constant result type, by its name *)
Definition pt_of_name (s : string) : option PT := find (fun p => String.eqb (pt_name p) s) named_pts.

Definition alt_matches (p : PT) (alts : list string) : bool :=
  existsb (fun a => String.eqb a "*" || String.eqb a (pt_name p)) alts.

Definition tz_of (p : PT) : option bool := match p with PTs u => Some u | _ => None end.

(* None = a guard / result this interpreter does not know (the theorem below then fails) *)
Definition guard_holds (cn ts : bool) (prev curr : PT) (g : string) : option bool :=
  if String.eqb g "" then Some true
  else if String.eqb g "options.coerce_numbers" then Some cn
  else if String.eqb g "options.allow_to_string" then Some ts
  else if String.eqb g "prev_ty == &curr_ty && prev_st == curr_st.as_ref()" then Some (pt_eqb prev curr)
  else if String.eqb g "prev_tz.as_ref() != curr_tz.as_ref()" then
    match tz_of prev, tz_of curr with Some a, Some c => Some (negb (Bool.eqb a c)) | _, _ => None end
  else None.

Definition result_type (lg : bool) (prev curr : PT) (r : string) : option PT :=
  if String.eqb r "curr_ty" then Some curr
  else if String.eqb r "prev_ty.clone()" then Some prev
  else if String.eqb r "options.string_type()" then Some (PStr lg)
  else pt_of_name r.

Definition result_null (nullable : bool) (r : string) : option bool :=
  if String.eqb r "prev" then Some nullable
  else if String.eqb r "true" then Some true
  else if String.eqb r "false" then Some false
  else None.

Definition Arm := (list string * list string * string * string * string)%type.

Fixpoint first_match (arms : list Arm) (cn ts lg : bool) (prev : PT) (nullable : bool) (curr : PT)
  : option (option (PT * bool)) :=
  match arms with
  | [] => None                                   (* a Rust match is exhaustive: the table must end with a catch-all *)
  | (pa, ca, g, rt, rn) :: rest =>
    if alt_matches prev pa && alt_matches curr ca then
      match guard_holds cn ts prev curr g with
      | None => None
      | Some false => first_match rest cn ts lg prev nullable curr
      | Some true =>
        if String.eqb rt "fail" then Some None
        else match result_type lg prev curr rt, result_null nullable rn with
             | Some t, Some n => Some (Some (t, n))
             | _, _ => None
             end
      end
    else first_match rest cn ts lg prev nullable curr
  end.

Definition all_pt : list PT :=
  named_pts ++ [PTs false; PTs true; PTime64Ns; PDate32T; PLargeBinary].
Definition bools : list bool := [false; true].

Definition res_eqb (a c : option (PT * bool)) : bool :=
  match a, c with
  | Some (p, n), Some (q, m) => pt_eqb p q && Bool.eqb n m
  | None, None => true
  | _, _ => false
  end.

Definition table_agrees : bool :=
  forallb (fun cn => forallb (fun ts => forallb (fun lg => forallb (fun nl =>
    forallb (fun prev => forallb (fun curr =>
      match first_match coerce_arms cn ts lg prev nl curr with
      | Some r => res_eqb r (coerce_core cn ts lg prev nl curr)
      | None => false
      end) all_pt) all_pt) bools) bools) bools) bools.
