(* Structural validity of an array for a field (C03): wf_arr strict f a.
   strict = true is what the crate's own writer must produce (offsets start at 0 and end at the
   child length, children of fixed-size/struct containers hold exactly the parent's rows, bit
   offset 0); strict = false is what a reader must accept (C02/C12). *)
From Verif Require Export Arr.
Local Open Scope nat_scope.

Fixpoint utf8_valid (s : bytes) : bool :=
  match s with
  | [] => true
  | c :: r =>
    let cont (x : N) := (128 <=? x)%N && (x <=? 191)%N in
    if (c <? 128)%N then utf8_valid r
    else if (194 <=? c)%N && (c <=? 223)%N then
      match r with c1 :: r1 => cont c1 && utf8_valid r1 | _ => false end
    else if (224 <=? c)%N && (c <=? 239)%N then
      match r with
      | c1 :: c2 :: r2 =>
        (if (c =? 224)%N then (160 <=? c1)%N && (c1 <=? 191)%N
         else if (c =? 237)%N then (128 <=? c1)%N && (c1 <=? 159)%N else cont c1)
        && cont c2 && utf8_valid r2
      | _ => false end
    else if (240 <=? c)%N && (c <=? 244)%N then
      match r with
      | c1 :: c2 :: c3 :: r3 =>
        (if (c =? 240)%N then (144 <=? c1)%N && (c1 <=? 191)%N
         else if (c =? 244)%N then (128 <=? c1)%N && (c1 <=? 143)%N else cont c1)
        && cont c2 && cont c3 && utf8_valid r3
      | _ => false end
    else false
  end.

Definition unit_eqb (a c : TimeUnit) : bool :=
  match a, c with Second, Second | Millisecond, Millisecond | Microsecond, Microsecond | Nanosecond, Nanosecond => true | _, _ => false end.
Definition intkind_eqb (a c : IntKind) : bool :=
  match a, c with I8, I8 | I16, I16 | I32, I32 | I64, I64 | U8, U8 | U16, U16 | U32, U32 | U64, U64 => true | _, _ => false end.
Definition primkind_eqb (a c : PrimKind) : bool :=
  match a, c with
  | PInt x, PInt y => intkind_eqb x y
  | PF16, PF16 | PF32, PF32 | PF64, PF64 | PDate32, PDate32 | PDate64, PDate64 => true
  | PTime32 x, PTime32 y | PTime64 x, PTime64 y | PDuration x, PDuration y => unit_eqb x y
  | PTimestamp x tx, PTimestamp y ty => unit_eqb x y && option_eqb bytes_eqb tx ty
  | PDecimal p s, PDecimal p' s' => (p =? p')%N && (s =? s')%Z
  | _, _ => false
  end.
Definition byteskind_eqb (a c : BytesKind) : bool :=
  match a, c with BUtf8, BUtf8 | BLargeUtf8, BLargeUtf8 | BBinary, BBinary | BLargeBinary, BLargeBinary => true | _, _ => false end.
Definition viewkind_eqb (a c : ViewKind) : bool :=
  match a, c with KUtf8View, KUtf8View | KBinaryView, KBinaryView => true | _, _ => false end.
Definition listkind_eqb (a c : ListKind) : bool :=
  match a, c with KList, KList | KLargeList, KLargeList => true | _, _ => false end.

(* storage range of a primitive kind (floats are carried as unsigned bit patterns) *)
Definition prim_range (k : PrimKind) (z : Z) : bool :=
  match k with
  | PInt i => in_int i z
  | PF16 => in_int U16 z | PF32 => in_int U32 z | PF64 => in_int U64 z
  | PDate32 | PTime32 _ => in_int I32 z
  | PDecimal _ _ => (- 2 ^ 127 <=? z)%Z && (z <? 2 ^ 127)%Z
  | _ => in_int I64 z
  end.

Definition validity_ok (strict nullable : bool) (v : option Bitmap) (n : nat) : bool :=
  match v with
  | None => true
  | Some bm =>
    (negb strict || Nat.eqb (bm_off bm) 0) &&
    match bits_of bm n with
    | Some bits => nullable || forallb (fun x => x) bits
    | None => false
    end
  end.

Fixpoint monotone (prev : Z) (l : list Z) : bool :=
  match l with [] => true | o :: r => (prev <=? o)%Z && monotone o r end.

Definition offsets_ok (strict : bool) (wide : bool) (offs : list Z) (child_len : nat) : bool :=
  match offs with
  | [] => false
  | o0 :: r =>
    (if strict then (o0 =? 0)%Z else (0 <=? o0)%Z) && monotone o0 r &&
    (let lst := last offs 0%Z in
     (if strict then (lst =? Z.of_nat child_len)%Z else (lst <=? Z.of_nat child_len)%Z) &&
     in_int (if wide then I64 else I32) lst)
  end.

Definition is_utf8_kind (k : BytesKind) : bool := match k with BUtf8 | BLargeUtf8 => true | _ => false end.
Definition is_wide (k : BytesKind) : bool := match k with BLargeUtf8 | BLargeBinary => true | _ => false end.

Definition visible_ok (a : Arr) (p : LVal -> bool) : bool :=
  match decode a with Some vs => forallb p vs | None => false end.

Definition meta_matches (m : Meta) (f : Field) : bool :=
  bytes_eqb (m_name m) (fname' f) && Bool.eqb (m_nullable m) (fnullable' f).

Definition len_ok (strict : bool) (have need : nat) : bool :=
  if strict then Nat.eqb have need else Nat.leb need have.

Fixpoint wf_arr (strict : bool) (f : Field) (a : Arr) {struct a} : bool :=
  let nullable := fnullable' f in
  match fdt' f, a with
  | DNull, ANull _ => true
  | DBool, ABool n v values =>
    validity_ok strict nullable v n && (negb strict || Nat.eqb (bm_off values) 0)
    && match bits_of values n with Some _ => true | None => false end
  | DPrim k, APrim k' v vals =>
    primkind_eqb k k' && validity_ok strict nullable v (length vals) && forallb (prim_range k) vals
  | DBytes k, ABytes k' v offs data =>
    byteskind_eqb k k' && validity_ok strict nullable v (length offs - 1)
    && offsets_ok strict (is_wide k) offs (length data)
    && (negb (is_utf8_kind k)
        || visible_ok a (fun x => match x with LBytes s => utf8_valid s | _ => true end))
  | DView k, AView k' v descs buffers =>
    viewkind_eqb k k' && validity_ok strict nullable v (length descs)
    && visible_ok a (fun x => match x, k with LBytes s, KUtf8View => utf8_valid s | _, _ => true end)
  | DFixedBin n, AFixedBin n' v data =>
    (n =? n')%Z && (0 <=? n)%Z
    && (if (n =? 0)%Z then Nat.eqb (length data) 0 else Nat.eqb (length data mod Z.to_nat n) 0)
    && validity_ok strict nullable v (arr_len a)
  | DList k cf, AList k' v offs m elems =>
    listkind_eqb k k' && meta_matches m cf && validity_ok strict nullable v (length offs - 1)
    && offsets_ok strict (match k with KLargeList => true | KList => false end) offs (arr_len elems)
    && wf_arr strict cf elems
  | DFixedList n cf, AFixedList len n' v m elems =>
    (n =? n')%Z && (0 <=? n)%Z && meta_matches m cf && validity_ok strict nullable v len
    && len_ok strict (arr_len elems) (len * Z.to_nat n) && wf_arr strict cf elems
  | DStruct fs, AStruct len v children =>
    validity_ok strict nullable v len &&
    (fix go (fs : list Field) (cs : list (Meta * Arr)) {struct cs} : bool :=
       match fs, cs with
       | [], [] => true
       | cf :: fs', (m, c) :: cs' =>
         meta_matches m cf && len_ok strict (arr_len c) len && wf_arr strict cf c && go fs' cs'
       | _, _ => false
       end) fs children
  | DMap en kf vf, AMap v offs en' km vm keys values =>
    bytes_eqb en en' && meta_matches km kf && meta_matches vm vf
    && validity_ok strict nullable v (length offs - 1)
    && Nat.eqb (arr_len keys) (arr_len values)
    && offsets_ok strict false offs (arr_len keys)
    && wf_arr strict kf keys && wf_arr strict vf values
  | DDict key val, ADict keys values =>
    wf_arr strict (mkField [] (DPrim (PInt key)) nullable) keys
    && wf_arr strict (mkField [] (DBytes val) false) values
    && visible_ok keys (fun x => match x with
                                 | LInt i => (0 <=? i)%Z && (i <? Z.of_nat (arr_len values))%Z
                                 | _ => true end)
  | DUnion fs, AUnion types offs children =>
    Nat.eqb (length types) (length offs)
    && forallb (in_int I8) types
    && (fix go (fs : list (Z * Field)) (cs : list (Z * Meta * Arr)) {struct cs} : bool :=
          match fs, cs with
          | [], [] => true
          | (t, cf) :: fs', (t', m, c) :: cs' =>
            (t =? t')%Z && meta_matches m cf && wf_arr strict cf c && go fs' cs'
          | _, _ => false
          end) fs children
    && forallb (fun p : Z * Z =>
                  let '(t, o) := p in
                  match find (fun c : Z * Meta * Arr => (fst (fst c) =? t)%Z) children with
                  | Some (_, _, c) => (0 <=? o)%Z && (o <? Z.of_nat (arr_len c))%Z
                  | None => false end) (combine types offs)
  | _, _ => false
  end.

(* all columns of a batch: well formed and of one length *)
Definition wf_batch (strict : bool) (fields : list Field) (arrs : list Arr) (rows : nat) : bool :=
  Nat.eqb (length fields) (length arrs) &&
  forallb (fun p : Field * Arr => wf_arr strict (fst p) (snd p) && Nat.eqb (arr_len (snd p)) rows)
          (combine fields arrs).
