(* structural equality of arrays, for the case runners *)
From Verif Require Export Wf.
Local Open Scope nat_scope.

Definition nlist_eqb := list_eqb N.eqb.
Definition zlist_eqb := list_eqb Z.eqb.
Definition bitmap_eqb (a c : Bitmap) : bool := Nat.eqb (bm_off a) (bm_off c) && nlist_eqb (bm_data a) (bm_data c).
Definition validity_eqb := option_eqb bitmap_eqb.
Definition meta_eqb (a c : Meta) : bool := bytes_eqb (m_name a) (m_name c) && Bool.eqb (m_nullable a) (m_nullable c).

Fixpoint arr_eqb (a c : Arr) {struct a} : bool :=
  match a, c with
  | ANull n, ANull n' => Nat.eqb n n'
  | ABool n v x, ABool n' v' x' => Nat.eqb n n' && validity_eqb v v' && bitmap_eqb x x'
  | APrim k v x, APrim k' v' x' => primkind_eqb k k' && validity_eqb v v' && zlist_eqb x x'
  | ABytes k v o d, ABytes k' v' o' d' => byteskind_eqb k k' && validity_eqb v v' && zlist_eqb o o' && nlist_eqb d d'
  | AView k v ds bs, AView k' v' ds' bs' => viewkind_eqb k k' && validity_eqb v v' && nlist_eqb ds ds' && list_eqb nlist_eqb bs bs'
  | AFixedBin n v d, AFixedBin n' v' d' => Z.eqb n n' && validity_eqb v v' && nlist_eqb d d'
  | AList k v o m e, AList k' v' o' m' e' => listkind_eqb k k' && validity_eqb v v' && zlist_eqb o o' && meta_eqb m m' && arr_eqb e e'
  | AFixedList l n v m e, AFixedList l' n' v' m' e' => Nat.eqb l l' && Z.eqb n n' && validity_eqb v v' && meta_eqb m m' && arr_eqb e e'
  | AStruct l v fs, AStruct l' v' fs' =>
    Nat.eqb l l' && validity_eqb v v' &&
    (fix go (x : list (Meta * Arr)) (y : list (Meta * Arr)) {struct x} : bool :=
       match x, y with
       | [], [] => true
       | (m, e) :: x', (m', e') :: y' => meta_eqb m m' && arr_eqb e e' && go x' y'
       | _, _ => false end) fs fs'
  | AMap v o en km vm k x, AMap v' o' en' km' vm' k' x' =>
    validity_eqb v v' && zlist_eqb o o' && bytes_eqb en en' && meta_eqb km km' && meta_eqb vm vm' && arr_eqb k k' && arr_eqb x x'
  | ADict k x, ADict k' x' => arr_eqb k k' && arr_eqb x x'
  | AUnion t o fs, AUnion t' o' fs' =>
    zlist_eqb t t' && zlist_eqb o o' &&
    (fix go (x : list (Z * Meta * Arr)) (y : list (Z * Meta * Arr)) {struct x} : bool :=
       match x, y with
       | [], [] => true
       | (i, m, e) :: x', (i', m', e') :: y' => Z.eqb i i' && meta_eqb m m' && arr_eqb e e' && go x' y'
       | _, _ => false end) fs fs'
  | _, _ => false
  end.
