(* Arrow data: data types, arrays/views (one type for marrow::array::Array and marrow::view::View:
   an owned array is a view with bit offset 0), and the specification of their logical content. *)
From Verif Require Export Bytes Span.
Local Open Scope nat_scope.

Inductive IntKind := I8 | I16 | I32 | I64 | U8 | U16 | U32 | U64.

Definition int_min (k : IntKind) : Z :=
  match k with I8 => -128 | I16 => -32768 | I32 => -2147483648 | I64 => -9223372036854775808 | _ => 0 end%Z.
Definition int_max (k : IntKind) : Z :=
  match k with
  | I8 => 127 | I16 => 32767 | I32 => 2147483647 | I64 => 9223372036854775807
  | U8 => 255 | U16 => 65535 | U32 => 4294967295 | U64 => 18446744073709551615 end%Z.
Definition in_int (k : IntKind) (z : Z) : bool := (int_min k <=? z)%Z && (z <=? int_max k)%Z.

Inductive PrimKind :=
| PInt (k : IntKind) | PF16 | PF32 | PF64 | PDate32 | PDate64
| PTime32 (u : TimeUnit) | PTime64 (u : TimeUnit) | PTimestamp (u : TimeUnit) (tz : option bytes)
| PDuration (u : TimeUnit) | PDecimal (p : N) (s : Z).
Inductive BytesKind := BUtf8 | BLargeUtf8 | BBinary | BLargeBinary.
Inductive ViewKind := KUtf8View | KBinaryView.
Inductive ListKind := KList | KLargeList.

Inductive DT :=
| DNull | DBool | DPrim (k : PrimKind) | DBytes (k : BytesKind) | DView (k : ViewKind) | DFixedBin (n : Z)
| DList (k : ListKind) (f : Field) | DFixedList (n : Z) (f : Field) | DStruct (fs : list Field)
| DMap (entries : bytes) (kf vf : Field) | DDict (key : IntKind) (val : BytesKind)
| DUnion (fs : list (Z * Field))
with Field := mkField (fname : bytes) (fdt : DT) (fnullable : bool).

Definition fname' (f : Field) := match f with mkField n _ _ => n end.
Definition fdt' (f : Field) := match f with mkField _ d _ => d end.
Definition fnullable' (f : Field) := match f with mkField _ _ b => b end.

Record Bitmap := { bm_off : nat; bm_data : list N }.
Record Meta := { m_name : bytes; m_nullable : bool }.

Inductive Arr :=
| ANull (len : nat)
| ABool (len : nat) (validity : option Bitmap) (values : Bitmap)
| APrim (k : PrimKind) (validity : option Bitmap) (values : list Z)
| ABytes (k : BytesKind) (validity : option Bitmap) (offsets : list Z) (data : list N)
| AView (k : ViewKind) (validity : option Bitmap) (descs : list N) (buffers : list (list N))
| AFixedBin (n : Z) (validity : option Bitmap) (data : list N)
| AList (k : ListKind) (validity : option Bitmap) (offsets : list Z) (meta : Meta) (elems : Arr)
| AFixedList (len : nat) (n : Z) (validity : option Bitmap) (meta : Meta) (elems : Arr)
| AStruct (len : nat) (validity : option Bitmap) (fields : list (Meta * Arr))
| AMap (validity : option Bitmap) (offsets : list Z) (entries : bytes) (kmeta vmeta : Meta) (keys values : Arr)
| ADict (keys values : Arr)
| AUnion (types : list Z) (offsets : list Z) (fields : list (Z * Meta * Arr)).

(* ---------------- bitmaps ---------------- *)
Definition get_bit (data : list N) (i : nat) : option bool :=
  match nth_error data (i / 8) with
  | Some byte => Some (N.testbit byte (N.of_nat (i mod 8)))
  | None => None
  end.

Fixpoint bits_from (data : list N) (start n : nat) : option (list bool) :=
  match n with
  | O => Some []
  | S n' => match get_bit data start, bits_from data (S start) n' with
            | Some b0, Some r => Some (b0 :: r) | _, _ => None end
  end.
Definition bits_of (bm : Bitmap) (n : nat) : option (list bool) := bits_from (bm_data bm) (bm_off bm) n.

(* ---------------- logical values ---------------- *)
Inductive LVal :=
| LNull | LBool (v : bool) | LInt (z : Z) | LBytes (bs : bytes)
| LList (l : list LVal) | LStruct (fs : list (bytes * LVal))
| LMap (kvs : list (LVal * LVal)) | LUnion (type_id : Z) (v : LVal).

Fixpoint lval_eqb (a c : LVal) : bool :=
  match a, c with
  | LNull, LNull => true
  | LBool x, LBool y => Bool.eqb x y
  | LInt x, LInt y => Z.eqb x y
  | LBytes x, LBytes y => bytes_eqb x y
  | LList x, LList y =>
    (fix go (x y : list LVal) : bool :=
       match x, y with [], [] => true | a' :: x', c' :: y' => lval_eqb a' c' && go x' y' | _, _ => false end) x y
  | LStruct x, LStruct y =>
    (fix go (x y : list (bytes * LVal)) : bool :=
       match x, y with [], [] => true
       | (k, a') :: x', (k', c') :: y' => bytes_eqb k k' && lval_eqb a' c' && go x' y' | _, _ => false end) x y
  | LMap x, LMap y =>
    (fix go (x y : list (LVal * LVal)) : bool :=
       match x, y with [], [] => true
       | (k, a') :: x', (k', c') :: y' => lval_eqb k k' && lval_eqb a' c' && go x' y' | _, _ => false end) x y
  | LUnion t x, LUnion t' y => Z.eqb t t' && lval_eqb x y
  | _, _ => false
  end.

(* ---------------- helpers ---------------- *)
Definition apply_validity (v : option Bitmap) (vals : list LVal) : option (list LVal) :=
  match v with
  | None => Some vals
  | Some bm =>
    match bits_of bm (length vals) with
    | Some bits => Some (map (fun p : bool * LVal => if fst p then snd p else LNull) (combine bits vals))
    | None => None
    end
  end.

Definition sub_list {A} (l : list A) (start len : nat) : option (list A) :=
  if Nat.leb (start + len) (length l) then Some (firstn len (skipn start l)) else None.

(* ranges designated by consecutive offsets: each [o_i, o_{i+1}) must be a valid range of `l` *)
Fixpoint ranges {A} (l : list A) (offsets : list Z) : option (list (list A)) :=
  match offsets with
  | [] => None                                     (* an offsets buffer has at least one entry *)
  | o0 :: rest =>
    (fix go (prev : Z) (rest : list Z) : option (list (list A)) :=
       match rest with
       | [] => Some []
       | o :: rest' =>
         if (0 <=? prev)%Z && (prev <=? o)%Z then
           match sub_list l (Z.to_nat prev) (Z.to_nat (o - prev)), go o rest' with
           | Some x, Some r => Some (x :: r) | _, _ => None end
         else None
       end) o0 rest
  end.

Fixpoint chunks {A} (l : list A) (n count : nat) : option (list (list A)) :=
  match count with
  | O => Some []
  | S c => if Nat.leb n (length l)
           then match chunks (skipn n l) n c with Some r => Some (firstn n l :: r) | None => None end
           else None
  end.

(* 16-byte view descriptor: length in the low 32 bits; inline bytes 4..16 if length <= 12, else
   prefix (32..64), buffer index (64..96), offset (96..128) *)
Definition desc_len (d : N) : N := N.land d 4294967295.
Definition desc_byte (d : N) (i : nat) : N := N.land (N.shiftr d (8 * N.of_nat i)) 255.
Definition desc_buffer (d : N) : N := N.land (N.shiftr d 64) 4294967295.
Definition desc_offset (d : N) : N := N.land (N.shiftr d 96) 4294967295.

(* comparisons are made in N before anything becomes a unary number (descriptors of corrupted
   views carry lengths and offsets up to 2^32) *)
Definition view_bytes (buffers : list (list N)) (d : N) : option bytes :=
  if (desc_len d <=? 12)%N then Some (map (fun i => desc_byte d (4 + i)) (seq 0 (N.to_nat (desc_len d))))
  else if (N.of_nat (length buffers) <=? desc_buffer d)%N then None
  else match nth_error buffers (N.to_nat (desc_buffer d)) with
       | Some buf =>
         if (desc_offset d + desc_len d <=? N.of_nat (length buf))%N
         then Some (firstn (N.to_nat (desc_len d)) (skipn (N.to_nat (desc_offset d)) buf))
         else None
       | None => None
       end.

Fixpoint mapM_opt {A B} (f : A -> option B) (l : list A) : option (list B) :=
  match l with
  | [] => Some []
  | x :: r => match f x, mapM_opt f r with Some y, Some ys => Some (y :: ys) | _, _ => None end
  end.

Definition arr_validity (a : Arr) : option Bitmap :=
  match a with
  | ANull _ => None | ABool _ v _ | APrim _ v _ | ABytes _ v _ _ | AView _ v _ _ | AFixedBin _ v _
  | AList _ v _ _ _ | AFixedList _ _ v _ _ | AStruct _ v _ | AMap v _ _ _ _ _ _ => v
  | ADict _ _ | AUnion _ _ _ => None
  end.

(* number of rows *)
Fixpoint arr_len (a : Arr) : nat :=
  match a with
  | ANull n => n
  | ABool n _ _ => n
  | APrim _ _ vs => length vs
  | ABytes _ _ offs _ => length offs - 1
  | AView _ _ ds _ => length ds
  | AFixedBin n _ data => if (n <=? 0)%Z then 0 else length data / Z.to_nat n
  | AList _ _ offs _ _ => length offs - 1
  | AFixedList n _ _ _ _ => n
  | AStruct n _ _ => n
  | AMap _ offs _ _ _ _ _ => length offs - 1
  | ADict keys _ => arr_len keys
  | AUnion types _ _ => length types
  end.

(* transpose n rows out of decoded columns (each column must have at least n entries) *)
Fixpoint struct_rows (n : nat) (cols : list (bytes * list LVal)) : option (list (list (bytes * LVal))) :=
  match n with
  | O => Some []
  | S n' =>
    match mapM_opt (fun c => match snd c with v :: _ => Some (fst c, v) | [] => None end) cols,
          struct_rows n' (map (fun c => (fst c, tl (snd c))) cols) with
    | Some row, Some rest => Some (row :: rest)
    | _, _ => None
    end
  end.

(* ---------------- decode: the logical content by the rules of the Arrow format ---------------- *)
Fixpoint decode (a : Arr) : option (list LVal) :=
  match a with
  | ANull n => Some (repeat LNull n)
  | ABool n v values =>
    match bits_of values n with
    | Some bits => apply_validity v (map LBool bits)
    | None => None
    end
  | APrim _ v vals => apply_validity v (map LInt vals)
  | ABytes _ v offs data =>
    match ranges data offs with
    | Some rs => apply_validity v (map LBytes rs)
    | None => None
    end
  | AView _ v descs buffers =>
    match mapM_opt (view_bytes buffers) descs with
    | Some bs => apply_validity v (map LBytes bs)
    | None => None
    end
  | AFixedBin n v data =>
    if (n <=? 0)%Z then None
    else if negb (Nat.eqb (length data mod Z.to_nat n) 0) then None
    else match chunks data (Z.to_nat n) (length data / Z.to_nat n) with
         | Some cs => apply_validity v (map LBytes cs)
         | None => None
         end
  | AList _ v offs _ elems =>
    match decode elems with
    | Some es => match ranges es offs with
                 | Some rs => apply_validity v (map LList rs)
                 | None => None end
    | None => None
    end
  | AFixedList n sz v _ elems =>
    if (sz <? 0)%Z then None else
    match decode elems with
    | Some es => match chunks es (Z.to_nat sz) n with
                 | Some cs => apply_validity v (map LList cs)
                 | None => None end
    | None => None
    end
  | AStruct n v fields =>
    match (fix go (fs : list (Meta * Arr)) : option (list (bytes * list LVal)) :=
             match fs with
             | [] => Some []
             | (m, c) :: r => match decode c, go r with
                              | Some vs, Some rest => Some ((m_name m, vs) :: rest) | _, _ => None end
             end) fields with
    | Some cols => match struct_rows n cols with
                   | Some rows => apply_validity v (map LStruct rows)
                   | None => None end
    | None => None
    end
  | AMap v offs _ _ _ keys values =>
    match decode keys, decode values with
    | Some ks, Some vs =>
      if Nat.eqb (length ks) (length vs) then
        match ranges (combine ks vs) offs with
        | Some rs => apply_validity v (map LMap rs)
        | None => None end
      else None
    | _, _ => None
    end
  | ADict keys values =>
    match decode keys, decode values with
    | Some ks, Some vs =>
      mapM_opt (fun k => match k with
                         | LNull => Some LNull
                         | LInt i => if (i <? 0)%Z then None else nth_error vs (Z.to_nat i)
                         | _ => None end) ks
    | _, _ => None
    end
  | AUnion types offs fields =>
    match (fix go (fs : list (Z * Meta * Arr)) : option (list (Z * list LVal)) :=
             match fs with
             | [] => Some []
             | (t, _, c) :: r => match decode c, go r with
                                 | Some vs, Some rest => Some ((t, vs) :: rest) | _, _ => None end
             end) fields with
    | Some cols =>
      if Nat.eqb (length types) (length offs) then
        mapM_opt (fun p => let '(t, o) := p in
                    match find (fun c => Z.eqb (fst c) t) cols with
                    | Some (_, vs) => if (o <? 0)%Z then None
                                      else match nth_error vs (Z.to_nat o) with
                                           | Some x => Some (LUnion t x) | None => None end
                    | None => None
                    end) (combine types offs)
      else None
    | None => None
    end
  end.
