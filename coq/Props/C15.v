(* C15 - Decimal128 conversions are exact within the declared precision and scale. *)
From Verif Require Import DecimalCodec DecimalCodec_proofs DecimalExact_proofs DecimalFormat_proofs Constants ConstantsSpec.

(* Full-strength statement (kept visible; the parts proved so far are below, the remainder is
   evaluated as the specification oracle `RunC15.oracle` on every implementation output):
   parse p s t = Ok v  <->  exists n, denote t = Some n /\ v = value_scaled s n /\ |v| < 10^p *)
Definition C15_full : Prop :=
  forall p s t, p <= 38 -> (-128 <= s <= 127)%Z ->
    match denote t with
    | Some n => if (Z.abs (value_scaled s n) <? 10 ^ Z.of_nat p)%Z
                then parse_decimal128 p s t = Ok (value_scaled s n)
                else parse_decimal128 p s t = Err
    | None => parse_decimal128 p s t = Err
    end.

(* proved: for every precision up to 38, every scale and every text - the three digit-copying parsers
   (integer only / mixed / fraction only, chosen by precision and scale), leading-zero and
   all-digit guards, zero padding, truncation of excess fraction digits, the i128 parse *)
Theorem C15_full_proved : C15_full.
Proof. intros p s t Hp _. apply parse_exact. exact Hp. Qed.

(* no panic: every u8 precision, every scale, every text; every i128 and every i8 scale *)
Theorem C15_parse_no_panic : forall p s t, p <= 255 -> forall k, parse_decimal128 p s t <> Panic k.
Proof. exact parse_decimal128_np. Qed.

Theorem C15_format_no_panic : forall v s,
  (- 2 ^ 127 <= v < 2 ^ 127)%Z -> (-128 <= s <= 127)%Z -> forall k, format_decimal v s <> Panic k.
Proof. exact format_decimal_np. Qed.

(* reading a column: for every 128-bit value and every scale the printed text exists, is a plain decimal
   numeral (sign? digits ('.' digits)?), and is numerically equal to value * 10^(-scale): with
   numeral = (+/-) digits(int ++ frac) / 10^|frac|, cross-multiplied (numeral_eq); value_scaled = v says the
   same through the truncating specification of the writer (nothing is lost at this scale) *)
Theorem C15_format_total : forall v s, (- 2 ^ 127 <= v < 2 ^ 127)%Z -> (-128 <= s <= 127)%Z ->
  exists t, format_decimal v s = Ok t.
Proof. exact format_decimal_total. Qed.

Theorem C15_format_exact : forall v s t, format_decimal v s = Ok t ->
  exists n, denote t = Some n /\ value_scaled s n = v /\ numeral_eq n v s.
Proof. exact format_exact. Qed.

(* what is read parses back to the stored value, in every column whose precision can hold it *)
Theorem C15_format_parse_roundtrip : forall p s v t, p <= 38 -> (Z.abs v < 10 ^ Z.of_nat p)%Z ->
  format_decimal v s = Ok t -> parse_decimal128 p s t = Ok v.
Proof. exact format_parse_roundtrip. Qed.

(* a stored value never needs more digits than the precision: strings and floats alike *)
Theorem C15_parse_within_precision : forall p s t v,
  parse_decimal128 p s t = Ok v -> (Z.abs v < 10 ^ Z.of_nat p)%Z.
Proof. exact parse_decimal128_bound. Qed.

Theorem C15_float_within_precision : forall p sc v,
  float_to_decimal p sc = Ok v -> (Z.abs v < 10 ^ Z.of_nat p)%Z.
Proof. exact float_to_decimal_bound. Qed.

(* the digits handed to the integer parser are ASCII digits, at most `precision` of them *)
Theorem C15_copied_digits : forall p s t ds,
  copy_digits (parser_new p s) t = Ok ds -> all_digit ds = true /\ length ds <= p.
Proof. exact copy_digits_ok. Qed.

(* non-vacuity and the formerly failing inputs *)
Example C15_examples :
  parse_decimal128 5 2 (b "12.5") = Ok 1250%Z /\
  parse_decimal128 5 2 (b "-0.019") = Ok (-1)%Z /\
  parse_decimal128 10 (-3) (b "5") = Ok 0%Z /\
  parse_decimal128 5 2 (b "") = Err /\ parse_decimal128 5 2 (b ".") = Err /\ parse_decimal128 5 2 (b "-") = Err /\
  parse_decimal128 3 2 (b "12.5") = Err /\
  format_decimal (-123) 4 = Ok (b "-0.0123") /\ format_decimal 123 (-2) = Ok (b "12300") /\
  format_decimal 12345 3 = Ok (b "12.345").
Proof. vm_compute. repeat split; reflexivity. Qed.

(* the digit buffer of the model has the size the source declares (BUFFER_SIZE_I128, regenerated on every run) *)
Theorem C15_buffer_matches_source : BUF = buffer_size_i128.
Proof. exact (proj1 (proj2 (proj2 constants_match))). Qed.

Print Assumptions C15_full_proved.
Print Assumptions C15_format_total.
Print Assumptions C15_format_exact.
Print Assumptions C15_format_parse_roundtrip.
Print Assumptions C15_parse_no_panic.
Print Assumptions C15_format_no_panic.
Print Assumptions C15_parse_within_precision.
Print Assumptions C15_buffer_matches_source.
