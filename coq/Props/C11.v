(* C11 - How a record is presented does not change the arrays. *)
From Verif Require Import Lookup Lookup_proofs Builder_proofs Refine_proofs Order_proofs.
Require Import Permutation.

(* the positional guess of the field-name cache never overrides the name index: whatever the cache
   holds (any interleaving of records from different Rust types, equal names at different
   addresses or positions), lookup returns the position of the field with that name.
   AddrOk - equal (address, length) of two static strings implies equal content - is the fact
   about Rust statics the fast path relies on; it appears as a premise. *)
Theorem C11_lookup_sound : forall (World : SKey -> Prop),
  (forall k1 k2, World k1 -> World k2 -> k_addr k1 = k_addr k2 -> k_len k1 = k_len k2 -> k_content k1 = k_content k2) ->
  forall names, NoDup names ->
  forall cache guess key r cache',
    CacheInv World names cache -> World key -> lookup names cache guess key = (r, cache') ->
    r = index_of_name names (k_content key) /\ CacheInv World names cache'.
Proof. exact lookup_sound. Qed.

Theorem C11_fresh_cache : forall World names n, CacheInv World names (repeat None n).
Proof. exact CacheInv_empty. Qed.

(* whatever order the fields of a record arrive in, the builder reaches the same state - hence emits
   the same arrays, byte for byte - for every builder and at any nesting depth; a record that is
   accepted in one order is accepted in every order (any permutation, extra and absent fields
   included) *)
Theorem C11_field_order_irrelevant : forall fields fields' b b', Permutation fields fields' ->
  (push (VStruct fields) b = Ok b' <-> push (VStruct fields') b = Ok b').
Proof. exact push_struct_perm_iff. Qed.

(* a tuple in schema order is exactly the struct with the schema's field names (outcomes equal,
   errors included), when the names of the struct are unique *)
Theorem C11_tuple_is_struct : forall l len v cs, NoDup (names_of cs) ->
  push (VTuple l) (BdStruct len v cs) = push (VStruct (combine (names_of cs) l)) (BdStruct len v cs).
Proof. exact push_tuple_is_struct. Qed.

(* what the record denotes does not depend on its presentation either (specification side): the
   logical value appended is the one assembled by field name - C01_push_refines *)
Theorem C11_presentation_denotes_record : forall v f b b' lvs,
  shape f b -> WfB b -> content b = Some lvs -> push v b = Ok b' ->
  exists lv, interp f v = IOk lv /\ content b' = Some (lvs ++ [lv]) /\ shape f b'.
Proof. exact push_sound. Qed.

(* a map with string keys behaves exactly like the struct with the same entries *)
Theorem C11_map_is_struct : forall fields b,
  push (VMap (map (fun nv : bytes * Value => (VStr (fst nv), snd nv)) fields)) b = push (VStruct fields) b.
Proof. exact push_map_is_push_struct. Qed.

(* records of any presentation leave every column in lock step: no state is carried from one
   record into the next (the per-record seen flags are local to one push) *)
Theorem C11_no_state_between_records : forall v b b', WfB b -> push v b = Ok b' -> WfB b' /\ rows b' = S (rows b).
Proof. exact push_wf. Qed.

(* absent nullable -> null, absent required -> error (end of record) *)
Example C11_absent :
  finish_record [({| m_name := b "a"; m_nullable := true |}, BdPrim (PInt I32) (Some []) []);
                 ({| m_name := b "r"; m_nullable := false |}, BdPrim (PInt I32) None [])] [false; false] = Err /\
  finish_record [({| m_name := b "a"; m_nullable := true |}, BdPrim (PInt I32) (Some []) [])] [false]
  = Ok [({| m_name := b "a"; m_nullable := true |}, BdPrim (PInt I32) (Some [0%N]) [0%Z])].
Proof. split; vm_compute; reflexivity. Qed.

Print Assumptions C11_field_order_irrelevant.
Print Assumptions C11_tuple_is_struct.
Print Assumptions C11_lookup_sound.
Print Assumptions C11_map_is_struct.
