(* C06 - A schema traced from samples accepts those same samples.
   The closure is evaluated on the implementation on every run (trace, then serialize the same
   samples with the traced schema, then decode = interp inside Coq: the C01 oracle); the tracer
   model is compared with the crate in the C07 run. *)
From Verif Require Import Tracer Coerce Coerce_proofs Accept Accept_proofs CoerceTable CoerceTable_proofs TracerTablesSpec Null_proofs Struct_proofs Project_proofs TableClosure Shapes_proofs Nested_order Nested_total Fits.

(* Full-strength statement (kept visible); Excluded = the three documented exclusions *)
Definition C06_full (accepts : list SField -> list Value -> Prop) (Excluded : Opts -> list Value -> Prop) : Prop :=
  forall o samples schema, ~ Excluded o samples -> from_samples o [] samples = Ok schema -> accepts schema samples.

(* Proved, for every leaf position, any number of samples, every option set: the primitive type the
   tracer joins to is accepted by the builder of that type for every scalar that reached the
   position (numeric and string coercions are wide enough), ... *)
Theorem C06_leaf_accepts_partial : forall o d vs l n q v pr,
  all_atoms o vs = Some l -> trace_seq o d vs (TUnknown false) = Ok (TPrim n q) ->
  In v vs -> pres_of o v = Some pr -> builder_accepts q pr = true.
Proof. exact leaf_accepts. Qed.

(* ... and a position that saw a None, a Some, or a unit is traced as nullable *)
Theorem C06_leaf_null_nullable_partial : forall o d vs l t v,
  all_atoms o vs = Some l -> trace_seq o d vs (TUnknown false) = Ok t ->
  In v vs -> (v = VNone \/ v = VUnit \/ v = VUnitStruct \/ exists x, v = VSome x) -> t_nullable t = true.
Proof. exact leaf_null_nullable. Qed.

(* fields missing in some samples are traced as nullable: the end-of-record step marks every field
   not seen in the current sample *)
Theorem C06_missing_field_nullable : forall seen fs name t ls,
  In (name, t, ls) fs -> ls <> seen -> In (name, mark_nullable t, ls) (struct_end seen fs).
Proof.
  intros seen fs name t ls Hin Hne. unfold struct_end. apply in_map_iff. exists (name, t, ls). split; [|exact Hin].
  destruct (Nat.eqb_spec ls seen); [contradiction|reflexivity].
Qed.

(* non-vacuity: chars, small and large integers and floats at one position under coerce_numbers *)
Example C06_example :
  let o := {| o_allow_null := false; o_map_as_struct := true; o_large_list := true; o_large_utf8 := true; o_dict := false;
              o_coerce := true; o_to_string := false; o_guess_dates := false; o_enums_str := false |} in
  let vs := [VChar 120; VInt I8 (-3); VNone; VF32 0] in
  trace_seq o 1 vs (TUnknown false) = Ok (TPrim true PFloat64) /\
  map (pres_of o) vs = [Some 11; Some 1; None; Some 9]%nat /\
  forallb (builder_accepts PFloat64) [11; 1; 9]%nat = true.
Proof. vm_compute. repeat split; reflexivity. Qed.

(* the model's coerce_core IS the match of coerce_primitive_type in /repo's tracer.rs: the arms are regenerated
   from the source on every run (Gen/TracerTables.v) and read as a first-match table *)
Theorem C06_coerce_arms_match_model : forall cn ts lg prev nl curr,
  CoerceTable.first_match TracerTables.coerce_arms cn ts lg prev nl curr = Some (coerce_core cn ts lg prev nl curr).
Proof. exact CoerceTable_proofs.coerce_table_is_model. Qed.

(* nested shapes: a null among samples of any shape, at any place in the order, leaves the position nullable *)
Theorem C06_null_makes_nullable_nested : forall o d l1 l2 t t',
  trace_seq' o d (l1 ++ VNone :: l2) (Ok t) = Ok t' -> t_nullable t' = true.
Proof. exact null_makes_nullable. Qed.

(* fields missing in some samples are traced as nullable - end to end, for nested shapes: if some record sample of the collection
   does not mention k, then every field called k of the final record tracer is nullable; whatever the other samples are (records
   with any nested content, records presented as maps, nulls, Some(..) wrappers), wherever the sample stands in the order, and
   whether k was first seen before it (the end-of-record step marks it) or after it (a field first seen in a later sample starts
   nullable); and nullability, once recorded, is never lost *)
Theorem C06_missing_field_is_nullable_nested : forall o d pre fa post n0 n m s fs k,
  ~ In k (map fst fa) ->
  trace_seq' o d (pre ++ VStruct fa :: post) (Ok (TUnknown n0)) = Ok (TStruct n m s fs) ->
  forall f, In f fs -> fname3 f = k -> t_nullable (ftr3 f) = true.
Proof. exact missing_field_is_nullable. Qed.

Theorem C06_nullable_is_never_lost : forall o d v t t', t_nullable t = true -> trace o d v t = Ok t' -> t_nullable t' = true.
Proof. exact nullable_monotone. Qed.

(* non-vacuity: the field b is missing in the second sample and first seen in the third *)
Example C06_missing_field_example :
  exists n m s fs, trace_seq' default_opts 0 [VStruct [(b "a", VInt I32 1)]; VStruct [(b "a", VInt I32 2); (b "c", VSeq [VBool true])]; VStruct [(b "a", VInt I32 3); (b "b", VStr (b "x")); (b "c", VSeq [])]]
                   (Ok (TUnknown false)) = Ok (TStruct n m s fs) /\ map (fun f => (fname3 f, t_nullable (ftr3 f))) fs = [(b "a", false); (b "c", true); (b "b", true)].
Proof. do 4 eexists. vm_compute. split; reflexivity. Qed.

(* closure at every column of a table: for records whose values in column k are scalars (any presentation of the leaf alphabet), the
   tracer of column k is a primitive whose builder accepts the serde call of EVERY value any record carries in that column
   (builder_accepts: the method tables of the builders), at any nesting depth of the record position *)
Theorem C06_table_column_accepts : forall o d SS n0 m s fs k tk lk fa v pr,
  Forall (fun fa => NoDup (map fst fa)) SS -> (exists l, all_atoms o (vals k SS) = Some l) ->
  trace_seq' o d (map VStruct SS) (Ok (TUnknown n0)) = Ok (TStruct n0 m s fs) ->
  fget2 k fs = Some (tk, lk) -> In fa SS -> flookup k fa = Some v -> pres_of o v = Some pr ->
  exists n q, tk = TPrim n q /\ builder_accepts q pr = true.
Proof. exact table_column_accepts. Qed.

(* ---- closure at every depth, for every collection of samples ----
   `fits o v t`: the tracer t has the shape of the sample v at every position - every field, tuple position, map key / value, variant
   (by index AND name) of v is there -, t is nullable wherever v has a null, an Option or (through the projection theorem) a field
   that another sample omits, and at every leaf t's primitive type is one whose builder accepts v's scalar (`builder_accepts`: the
   numeric and string coercions chosen by the options are wide enough).
   Whenever tracing a collection succeeds, EVERY sample fits the traced tracer.  First on the class Hom, then - since every collection
   that traces is in the class (C07_success_puts_in_class) - for every collection in which no record repeats a key. *)
Theorem C06_every_sample_fits_nested : forall o n d vs t,
  Hom o n vs -> trace_seq' o d vs (Ok (TUnknown false)) = Ok t -> Forall (fun v => fits o v t) vs.
Proof. exact fits_hom. Qed.

Theorem C06_every_sample_fits : forall o d vs t,
  Forall (ndk o) vs -> trace_seq' o d vs (Ok (TUnknown false)) = Ok t -> Forall (fun v => fits o v t) vs.
Proof. exact fits_total. Qed.

(* ... in particular the tracer behind a successful from_samples: the returned schema is the schema of a tracer that every sample fits *)
Theorem C06_from_samples_fits : forall o vs fs, Forall (ndk o) vs -> from_samples o [] vs = Ok fs ->
  exists root, trace_all o vs = Ok root /\ Forall (fun v => fits o v root) vs /\ to_schema o [] root = Ok fs.
Proof. exact from_samples_fits. Qed.

(* non-vacuity: nested records with an optional list of optional strings, an enum, a number that needs widening; the hypotheses hold
   and the conclusion is not trivial (the traced tracer is a struct of a primitive, a list and a union) *)
Definition c06_opts : Opts := {| o_allow_null := false; o_map_as_struct := true; o_large_list := true; o_large_utf8 := true; o_dict := false;
                                 o_coerce := true; o_to_string := false; o_guess_dates := false; o_enums_str := false |}.
Definition c06_n1 : Value := VStruct [(b "a", VInt I8 1); (b "l", VSome (VSeq [VSome (VStr (b "x")); VNone])); (b "e", VNewtypeVariant 1 (b "B") (VInt I32 5))].
Definition c06_n2 : Value := VStruct [(b "a", VInt U16 300); (b "e", VUnitVariant 0 (b "A"))].
Example C06_every_sample_fits_example :
  Forall (ndk c06_opts) [c06_n1; c06_n2] /\
  exists t, trace_seq' c06_opts 0 [c06_n1; c06_n2] (Ok (TUnknown false)) = Ok t /\
            match t with TStruct false _ _ [(_, TPrim false (PI I64), _); (_, TList true (TPrim true (PStr true)), _); (_, TUnion false [Some _; Some _], _)] => True | _ => False end.
Proof. split; [repeat constructor; cbn; intuition discriminate|]. eexists. split; [vm_compute; reflexivity|exact I]. Qed.

Print Assumptions C06_every_sample_fits_nested.
Print Assumptions C06_every_sample_fits.
Print Assumptions C06_from_samples_fits.
Print Assumptions C06_leaf_accepts_partial.
Print Assumptions C06_leaf_null_nullable_partial.
Print Assumptions C06_coerce_arms_match_model.
Print Assumptions C06_null_makes_nullable_nested.
Print Assumptions C06_missing_field_is_nullable_nested.
Print Assumptions C06_table_column_accepts.
