(* C13 - Deserializer random access, iteration and bulk reads agree.
   Only the property theorems live here; each is closed by `exact`. *)
From Verif Require Import DeserApi DeserApi_proofs.

(* construction: a field/array count mismatch and unequal lengths are refused; on success every
   array has the reported length *)
Theorem C13_construct : forall nf lens d,
  new nf lens = Ok d -> nf = length lens /\ d_cols d = nf /\ Forall (fun l => l = d_len d) lens.
Proof. exact new_ok. Qed.

Theorem C13_refuses_count_mismatch : forall nf lens, nf <> length lens -> new nf lens = Err.
Proof. exact new_refuses_count. Qed.

Theorem C13_refuses_unequal_lengths : forall nf lens a c,
  In a lens -> In c lens -> a <> c -> new nf lens = Err.
Proof. exact new_refuses_unequal. Qed.

Theorem C13_accepts_consistent : forall lens l,
  Forall (fun x => x = l) lens -> lens <> [] ->
  new (length lens) lens = Ok {| d_len := l; d_cols := length lens |}.
Proof. exact new_complete. Qed.

(* an item is handed out for exactly the indices below len, positioned at that index *)
Theorem C13_get_domain : forall d i, (exists x, get d i = Some x) <-> i < d_len d.
Proof. exact get_domain. Qed.

Theorem C13_get_value : forall d i x, get d i = Some x -> x = i.
Proof. exact get_value. Qed.

(* iteration and the bulk read yield exactly positions 0 .. len-1 in order *)
Theorem C13_iter_all : forall d, drain (iter d) = seq 0 (d_len d).
Proof. exact iter_all. Qed.

Theorem C13_bulk_all : forall d, bulk d = seq 0 (d_len d).
Proof. exact bulk_all. Qed.

(* size hints are truthful at every step (for every iterator state, reachable or not) *)
Theorem C13_size_hint : forall it,
  size_hint it = (length (drain it), Some (length (drain it))).
Proof. exact size_hint_truthful. Qed.

(* by index, by iteration and as element of the bulk read: the same positioned reader *)
Theorem C13_agree : forall d i, i < d_len d ->
  get d i = Some i /\ nth_error (drain (iter d)) i = Some i /\ nth_error (bulk d) i = Some i.
Proof. exact access_paths_agree. Qed.

(* any access history: the deserializer is immutable and the cursor stays in range *)
Theorem C13_history_inv : forall d it o, IterInv d it -> IterInv d (snd (step d it o)).
Proof. exact step_inv. Qed.

Theorem C13_get_stateless : forall d it1 it2 i,
  fst (step d it1 (OGet i)) = fst (step d it2 (OGet i)).
Proof. exact get_stateless. Qed.

(* non-vacuity *)
Example C13_example :
  run 2 [3; 3] [OSizeHint; ONext; OSizeHint; OGet 2; OGet 3; OCollect; OSizeHint; OBulk]
  = Ok [BHint 3 (Some 3); BItem (Some 0); BHint 2 (Some 2); BItem (Some 2); BItem None;
        BItems [1; 2]; BHint 0 (Some 0); BItems [0; 1; 2]].
Proof. reflexivity. Qed.

Print Assumptions C13_construct.
Print Assumptions C13_refuses_count_mismatch.
Print Assumptions C13_refuses_unequal_lengths.
Print Assumptions C13_accepts_consistent.
Print Assumptions C13_get_domain.
Print Assumptions C13_get_value.
Print Assumptions C13_iter_all.
Print Assumptions C13_bulk_all.
Print Assumptions C13_size_hint.
Print Assumptions C13_agree.
Print Assumptions C13_history_inv.
Print Assumptions C13_get_stateless.
