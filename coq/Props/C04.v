(* C04 - Round trip through a type-traced schema is the identity.
   The round trip is evaluated on the implementation for every zoo type, option set, value and
   front end (the check's oracle); the traced schema is tied to the documented mapping by C08, the
   writer to `decode = interp` by the C01 oracle on every case, the reader to `present o decode` by
   C02. Proved here: the composition on the models for primitive columns. *)
From Verif Require Import Builder Builder_proofs Reader Reader_proofs Doc Refine_proofs Wf_proofs.
From Verif Require Import Tracer Nested_total Fits FromType FromType_proofs Agree TypeFits.
Local Open Scope nat_scope.

(* Full-strength statement (kept visible) *)
Definition C04_full (trace_type : Ty -> option (list Field)) (ser : Ty -> Value -> Prop) (roundtrip : list Field -> list Value -> option (list Value)) : Prop :=
  forall ty fields vs, trace_type ty = Some fields -> Forall (ser ty) vs -> roundtrip fields vs = Some vs.

(* write then read on the models, for every schema of the builder core (Boolean, 8 integer types,
   Utf8 / LargeUtf8, List / LargeList, Struct; nullable or not; any nesting) and every record
   sequence the writer accepts: every record is in the documented mapping, and a self-describing
   read of row i of column j returns exactly the presentation of the j-th component of what record
   i denotes.  This is the composition of C01 (decode o write = interp), C03 (the written arrays
   are well formed) and C02 (read = present o decode). *)
Theorem C04_write_then_read : forall fields recs arrs,
  names_ok (mkField [] (DStruct fields) false) -> Forall text_ok recs -> to_marrow fields recs = Some (Ok arrs) ->
  exists rows, Forall2 (fun r lv => interp (mkField [] (DStruct fields) false) r = IOk lv) recs (map LStruct rows) /\
    forall j a f i row, nth_error arrs j = Some a -> nth_error fields j = Some f -> nth_error rows i = Some row ->
      read a i = of_option (present f (match nth_error row j with Some (_, v) => v | None => LNull end)).
Proof. exact write_then_read. Qed.

(* writer model then reader model on an integer column of any width, nullable or not: the value
   read at the new row is exactly the value written, for every in-range integer and every
   presentation width *)
Theorem C04_int_roundtrip_partial : forall k w z nullable,
  in_int k z = true ->
  exists b', push (VInt w z) (BdPrim (PInt k) (new_validity nullable) []) = Ok b' /\
             read (into_array b') 0 = Ok (RInt z).
Proof.
  intros k w z nullable Hin. cbn [push prim_value]. rewrite Hin. cbn [bind].
  destruct nullable; cbn [new_validity set_validity bind length].
  - eexists. split; [reflexivity|]. cbn [into_array app some_bitmap read nth_error valid_at]. 
    unfold bit_at. cbn. reflexivity.
  - eexists. split; [reflexivity|]. cbn. reflexivity.
Qed.

(* a null written to a nullable integer column reads back as None *)
Theorem C04_null_roundtrip_partial : forall k,
  exists b', push VNone (BdPrim (PInt k) (new_validity true) []) = Ok b' /\ read (into_array b') 0 = Ok RNone.
Proof. intros k. eexists. split; [reflexivity|]. cbn. reflexivity. Qed.

(* Boolean and string columns *)
Theorem C04_bool_roundtrip_partial : forall x nullable,
  exists b', push (VBool x) (BdBool (new_validity nullable) [] 0) = Ok b' /\ read (into_array b') 0 = Ok (RBool x).
Proof. intros x nullable. destruct nullable, x; eexists; (split; [reflexivity|]); vm_compute; reflexivity. Qed.

Example C04_example :
  let f := mkField (b "s") (DStruct [mkField (b "n") (DPrim (PInt I16)) true; mkField (b "t") (DBytes BLargeUtf8) false]) false in
  match build f with
  | Some b0 =>
    match push (VStruct [(b "t", VStr (b "hi")); (b "n", VSome (VInt I64 (-3)))]) b0 with
    | Ok b1 => read (into_array b1) 0 = Ok (RMap [(RStr (b "n"), RInt (-3)); (RStr (b "t"), RStr (b "hi"))])
    | _ => False
    end
  | None => False
  end.
Proof. vm_compute. reflexivity. Qed.

(* ---- "the schema traced from the type accepts every value of that type", on the tracer models ----
   For every type description and every collection of its values that covers it (Cov, C08): the tracer from_type ends with - the fully
   explored tracer of the type, whose schema is the documented one - FITS every one of the values (C06's predicate: the shape of the
   value at every position, every field / tuple position / variant present by index and name, nullable wherever the value has a None,
   and at every leaf a primitive type whose builder accepts the scalar).  From C08 (the samples trace to that tracer up to counters),
   C06 (every sample fits the tracer of its own collection) and the invariance of `fits` under forgetting the counters.  What this does
   not give is the builder's acceptance itself (no general progress theorem for the builder model, see DESIGN): that part is the
   round-trip oracle on the implementation. *)
Theorem C04_type_schema_fits_its_values : forall o ty vs budget,
  o_guess_dates o = false -> ok o 0 ty = true -> passes ty <= budget -> Cov ty vs ->
  exists root, ft_loop o budget ty (TUnknown false) = Ok root /\ Forall (fun v => fits o v root) vs.
Proof. exact from_type_accepts_its_values. Qed.

Theorem C04_fits_ignores_counters : forall o v t t', norm t = norm t' -> fits o v t -> fits o v t'.
Proof. exact fits_norm_eq. Qed.

Theorem C04_covering_values_have_distinct_keys : forall o ty d vs, ok o d ty = true -> Cov ty vs -> Forall (ndk o) vs.
Proof. exact cov_ndk. Qed.

Print Assumptions C04_type_schema_fits_its_values.
Print Assumptions C04_write_then_read.
Print Assumptions C04_int_roundtrip_partial.
