(* C08 - Tracing yields the documented mapping; from_type and from_samples agree.
   Specification: Trace/Doc.v (doc_schema: the mapping of lib.rs and of every option's doc comment,
   by recursion on a description of the type). Models: Trace/Tracer.v (from_samples, to_field,
   overwrites). from_type of the crate is compared with doc_schema inside Coq on every case. *)
From Verif Require Import Tracer Doc CoerceTable CoerceTable_proofs TracerTablesSpec FromType FromType_proofs Constants ConstantsSpec Null_proofs Shapes_proofs Project_proofs Agree.
Require Import Lia.
Local Open Scope nat_scope.

(* Full-strength statements (kept visible); judged per case by RunC08.oracle / corr *)
Definition C08_full_doc (from_type : Opts -> Ty -> Outcome (list SField)) : Prop := forall o ty, from_type o ty = doc_schema o ty.

(* the documented default mapping of the leaf constructs, and what each string / list option changes *)
Theorem C08_doc_leaves : forall o name n,
  doc_field o name n TyBool = Ok (mkSF name (SPrim PBool) n None) /\
  (forall k, doc_field o name n (TyInt k) = Ok (mkSF name (SPrim (PI k)) n None)) /\
  doc_field o name n TyF32 = Ok (mkSF name (SPrim PFloat32) n None) /\
  doc_field o name n TyF64 = Ok (mkSF name (SPrim PFloat64) n None) /\
  doc_field o name n TyChar = Ok (mkSF name (SPrim (PI U32)) n None) /\
  doc_field o name n TyBytes = Ok (mkSF name (SPrim PLargeBinary) n None) /\
  doc_field o name n TyString = Ok (mkSF name (if o_dict o then SDictU32 (o_large_utf8 o) else SPrim (PStr (o_large_utf8 o))) n None) /\
  doc_field o name n TyUnit = (if o_allow_null o then Ok (mkSF name (SPrim PNull) true None) else Err) /\
  (forall x, doc_field o name n (TyOption x) = doc_field o name true x) /\
  (forall x, doc_field o name n (TyNewtype x) = doc_field o name n x).
Proof. intros o name n. repeat split; reflexivity. Qed.

(* both tracers choose the same leaf kinds: tracing a sample of a leaf type from scratch yields the
   documented field, under every option set *)
Definition leaf_sample (t : Ty) : option Value :=
  match t with
  | TyBool => Some (VBool true) | TyInt k => Some (VInt k 1) | TyF32 => Some (VF32 0) | TyF64 => Some (VF64 0)
  | TyChar => Some (VChar 97) | TyBytes => Some (VBytes []) | TyUnit => Some VUnit
  | _ => None
  end.
Theorem C08_leaf_tracers_agree : forall o name path d t v, o_guess_dates o = false -> leaf_sample t = Some v ->
  (do tr <- trace o d v (TUnknown false) ;; to_field o [] name path tr) = doc_field o name false t.
Proof.
  intros o name path d t v Hg Hs. destruct t; cbn in Hs; inversion Hs; subst; cbn; unfold get_overwrite; cbn;
    try reflexivity; destruct (o_allow_null o); reflexivity.
Qed.
Theorem C08_string_tracers_agree : forall o name path d s, o_guess_dates o = false ->
  (do tr <- trace o d (VStr s) (TUnknown false) ;; to_field o [] name path tr) = doc_field o name false TyString.
Proof. intros o name path d s Hg. cbn. unfold str_type. rewrite Hg. cbn. unfold get_overwrite, str_dt, dict_field. cbn. destruct (o_dict o); reflexivity. Qed.

(* an overwrite replaces exactly the field at its path, whatever was traced there; a different name
   at that path is an error; a path that is not in the traced tree is an error *)
Theorem C08_overwrite_replaces : forall o ows name path t ow,
  get_overwrite ows path = Some ow -> sf_name ow = name -> to_field o ows name path t = Ok ow.
Proof. intros o ows name path t ow H Hn. destruct t; cbn [to_field]; rewrite H, Hn, bytes_eqb_refl; reflexivity. Qed.

Theorem C08_overwrite_wrong_name : forall o ows name path t ow,
  get_overwrite ows path = Some ow -> bytes_eqb (sf_name ow) name = false -> to_field o ows name path t = Err.
Proof. intros o ows name path t ow H Hn. destruct t; cbn [to_field]; rewrite H, Hn; reflexivity. Qed.

Theorem C08_overwrite_missing_path : forall o ows samples root,
  trace_all o samples = Ok root -> check_overwrites ows root = false -> from_samples o ows samples = Err.
Proof. intros o ows samples root H Hc. unfold from_samples. rewrite H. cbn [bind]. rewrite Hc. reflexivity. Qed.

(* the root must be a non-nullable struct *)
Theorem C08_root : forall o ows root f, to_field o ows (b "$") (b "$") root = Ok f ->
  to_schema o ows root = (if sf_nullable f then Err else match sf_dt f with SStruct fs => Ok fs | _ => Err end).
Proof. intros o ows root f H. unfold to_schema. rewrite H. reflexivity. Qed.

(* non-vacuity: a type using every construct, under non-default options *)
Example C08_example :
  let o := {| o_allow_null := true; o_map_as_struct := false; o_large_list := false; o_large_utf8 := true; o_dict := false;
              o_coerce := false; o_to_string := false; o_guess_dates := false; o_enums_str := false |} in
  doc_schema o (TyStruct [(b "a", TyOption (TySeq (TyTuple [TyInt I8; TyString])));
                          (b "e", TyEnum [(b "A", PUnit); (b "B", PNewtype TyBool)]);
                          (b "m", TyMap TyString TyF64)])
  = Ok [mkSF (b "a") (SList false (mkSF (b "element") (SStruct [mkSF (b "0") (SPrim (PI I8)) false None; mkSF (b "1") (SPrim (PStr true)) false None]) false (Some STupleAsStruct))) true None;
        mkSF (b "e") (SUnion [mkSF (b "A") (SPrim PNull) true None; mkSF (b "B") (SPrim PBool) false None]) false None;
        mkSF (b "m") (SMap (mkSF (b "key") (SPrim (PStr true)) false None) (mkSF (b "value") (SPrim PFloat64) false None)) false None].
Proof. vm_compute. reflexivity. Qed.

(* the model's coerce_core IS the match of coerce_primitive_type in /repo's tracer.rs: the arms are regenerated
   from the source on every run (Gen/TracerTables.v) and read as a first-match table *)
Theorem C08_coerce_arms_match_model : forall cn ts lg prev nl curr,
  CoerceTable.first_match TracerTables.coerce_arms cn ts lg prev nl curr = Some (coerce_core cn ts lg prev nl curr).
Proof. exact CoerceTable_proofs.coerce_table_is_model. Qed.

(* the serde-call -> transition tables of both tracers (regenerated from from_samples/mod.rs and from_type/mod.rs)
   are the ones the model was written against; every leaf call makes exactly one primitive transition naming
   the same data type in both tracers, and that is the model's transition *)
Theorem C08_leaf_calls_match_model :
  forwarders_ok = true /\ sample_calls_ok = true /\ type_calls_ok = true /\ leaf_tables_ok = true /\
  forall o d t, Forall (fun r : String.string * String.string * Value * PT =>
                          let '(_, _, v, p) := r in trace o d v t = ensure_prim o p t) leaf_methods.
Proof. exact leaf_calls_match_model. Qed.

(* ---- from_type = the documented mapping, for every type description ----
   from_type is modelled as the loop of the source (Trace/FromType.v): T::deserialize is handed the tracer until it
   is complete or the budget is used up; each pass visits everything below a position but exactly one variant of
   an enum (the first whose tracer is not complete).  For every description of a type (any nesting of options,
   newtypes, sequences, tuples, maps, structs and enums with unit / newtype / tuple / struct variants) inside the
   side conditions `ok` - nesting below the depth limit, maps only when they are not traced as structs, enums with
   1..128 variants, no newtype variant whose payload is unit-like (the known finding recorded under C06) - and for
   every option set: the exploration terminates within `passes ty` iterations (sum over the variants of an enum,
   maximum over everything else) with the fully explored tracer, and its schema is doc_schema, success and
   failure alike (a unit field without allow_null_fields, an enum without data, a root that is not a struct). *)
Theorem C08_from_type_is_documented : forall o ty budget,
  ok o 0 ty = true -> passes ty <= budget -> from_type o [] budget ty = doc_schema o ty.
Proof. exact from_type_is_doc. Qed.

Theorem C08_from_type_converges : forall o ty budget,
  ok o 0 ty = true -> passes ty <= budget -> ft_loop o budget ty (TUnknown false) = Ok (full o false ty).
Proof. exact ft_converges. Qed.

(* every pass keeps the tracer an approximation of the type and strictly reduces the passes still needed *)
Theorem C08_from_type_pass : forall o ty n dots t, ok o dots ty = true -> appr o n ty t ->
  exists t', ft_pass o dots ty t = Ok t' /\ shaped o n ty t' /\ rem ty t' <= pred (rem ty t).
Proof. exact pass_ok. Qed.

Definition c08_ty : Ty :=
  TyStruct [(b "a", TyOption (TySeq TyBool));
            (b "e", TyEnum [(b "A", PUnit); (b "B", PNewtype (TyInt I32)); (b "C", PStruct [(b "x", TyString); (b "y", TyTuple [TyF64; TyChar])])]);
            (b "m", TyNewtype (TyOption (TyEnum [(b "P", PTuple [TyInt U8; TyBytes]); (b "Q", PUnit)])))].
(* non-vacuity: the side conditions hold, three passes are needed and suffice, two do not *)
Example C08_from_type_example :
  let o := {| o_allow_null := true; o_map_as_struct := true; o_large_list := true; o_large_utf8 := true;
              o_dict := false; o_coerce := false; o_to_string := false; o_guess_dates := false; o_enums_str := false |} in
  ok o 0 c08_ty = true /\ passes c08_ty = 3 /\
  from_type o [] 3 c08_ty = doc_schema o c08_ty /\ (exists fs, doc_schema o c08_ty = Ok fs /\ length fs = 3) /\
  from_type o [] 2 c08_ty = Err.
Proof. vm_compute. repeat split; try reflexivity. eexists. split; reflexivity. Qed.
(* the excluded class: a newtype variant with a unit-like payload next to unit variants is traced as "without data" *)
Example C08_unit_payload_needs_exclusion :
  let o := {| o_allow_null := true; o_map_as_struct := true; o_large_list := true; o_large_utf8 := true;
              o_dict := false; o_coerce := false; o_to_string := false; o_guess_dates := false; o_enums_str := true |} in
  let ty := TyStruct [(b "e", TyEnum [(b "A", PUnit); (b "B", PNewtype TyUnit)])] in
  ok o 0 ty = false /\ from_type o [] 100 ty <> doc_schema o ty.
Proof. vm_compute. split; [reflexivity|discriminate]. Qed.

(* the depth limit, the number of transitions guarded by it, and the default tracing options (incl. the from_type budget
   of 100) are the source's: regenerated from tracer.rs / tracing_options.rs on every run *)
Theorem C08_constants_match_source :
  max_depth = max_type_depth /\ depth_limited_transitions = 5 /\ defaults_ok = true.
Proof. destruct constants_match as (A & B & _ & D). exact (conj A (conj B D)). Qed.

(* ---- the two tracers agree ----
   `Cov ty vs` (Trace/Agree.v): vs are values of the type described by ty as its derived / std Serialize impl presents them, and together
   they exercise every variant, a Some below every Option and a non-empty collection below every sequence and map.  Then tracing the
   samples gives the fully explored tracer of the type - the one from_type converges to - up to the sample counters, so from_samples
   returns the documented schema, which is what from_type returns.  Side conditions: `ok` (as for from_type: depth limit, no map under
   map_as_struct, 1..128 variants, no unit-like newtype payload) and guess_dates off (a String sample that looks like a date is traced as
   a date: the documented difference between the tracers).  By induction on the type from the projection theorems and their converses. *)
Theorem C08_samples_give_full_tracer : forall o, o_guess_dates o = false -> forall ty d vs, ok o d ty = true -> Cov ty vs ->
  exists t, trace_seq' o d vs (Ok (TUnknown false)) = Ok t /\ norm t = norm (full o false ty).
Proof. exact cov_full. Qed.

Theorem C08_from_samples_is_documented : forall o ty vs, o_guess_dates o = false -> ok o 0 ty = true -> Cov ty vs ->
  from_samples o [] vs = doc_schema o ty.
Proof. exact from_samples_covering. Qed.

Theorem C08_tracers_agree : forall o ty vs budget, o_guess_dates o = false -> ok o 0 ty = true -> passes ty <= budget -> Cov ty vs ->
  from_samples o [] vs = from_type o [] budget ty.
Proof. exact tracers_agree. Qed.

(* the schema does not see the sample counters that `norm` forgets *)
Theorem C08_schema_ignores_counters : forall o t name path, to_field o [] name path (norm t) = to_field o [] name path t.
Proof. exact to_field_norm. Qed.

(* non-vacuity: a struct with an Option, a Vec<String> and an enum with a unit and a newtype variant; two samples cover it *)
Definition c08_cty : Ty := TyStruct [(b "a", TyOption (TyInt I32)); (b "l", TySeq TyString); (b "e", TyEnum [(b "A", PUnit); (b "B", PNewtype TyBool)])].
Definition c08_f1 : list (bytes * Value) := [(b "a", VSome (VInt I32 1)); (b "l", VSeq [VStr (b "x")]); (b "e", VUnitVariant 0 (b "A"))].
Definition c08_f2 : list (bytes * Value) := [(b "a", VNone); (b "l", VSeq []); (b "e", VNewtypeVariant 1 (b "B") (VBool true))].
Definition c08_copts : Opts := {| o_allow_null := true; o_map_as_struct := true; o_large_list := true; o_large_utf8 := true; o_dict := false;
                                  o_coerce := false; o_to_string := false; o_guess_dates := false; o_enums_str := false |}.
Example C08_cover_example : Cov c08_cty [VStruct c08_f1; VStruct c08_f2] /\ ok c08_copts 0 c08_cty = true /\
  exists fs, from_samples c08_copts [] [VStruct c08_f1; VStruct c08_f2] = Ok fs /\ length fs = 3.
Proof.
  split; [|split; [reflexivity|eexists; split; [vm_compute; reflexivity|reflexivity]]].
  cbn [Cov c08_cty]. exists [c08_f1; c08_f2]. split; [reflexivity|]. split; [discriminate|]. split; [repeat constructor; cbn; intuition discriminate|]. split; [repeat constructor|].
  split; [|split; [|split; [|exact I]]].
  - replace (vals (b "a") [c08_f1; c08_f2]) with [VSome (VInt I32 1); VNone] by reflexivity. split; [apply Forall_cons; [right; eexists; reflexivity|apply Forall_cons; [left; reflexivity|constructor]]|].
    cbn [somes flat_map app]. split; [discriminate|repeat constructor; eexists; reflexivity].
  - replace (vals (b "l") [c08_f1; c08_f2]) with [VSeq [VStr (b "x")]; VSeq []] by reflexivity. exists [[VStr (b "x")]; []]. split; [reflexivity|].
    cbn [concat app]. split; [discriminate|repeat constructor; eexists; reflexivity].
  - replace (vals (b "e") [c08_f1; c08_f2]) with [VUnitVariant 0 (b "A"); VNewtypeVariant 1 (b "B") (VBool true)] by reflexivity.
    split; [discriminate|]. split; [repeat constructor; discriminate|]. split; [repeat constructor; cbn; lia|].
    replace (pls [VUnitVariant 0 (b "A"); VNewtypeVariant 1 (b "B") (VBool true)]) with [(0%Z, b "A", VUnit); (1%Z, b "B", VBool true)] by reflexivity.
    cbn [wsel flat_map Z.eqb Z.of_nat Pos.of_succ_nat Pos.eqb app map snd fst].
    repeat split; try discriminate; repeat constructor; try (left; reflexivity); try (eexists; reflexivity).
Qed.

Print Assumptions C08_samples_give_full_tracer.
Print Assumptions C08_from_samples_is_documented.
Print Assumptions C08_tracers_agree.
Print Assumptions C08_schema_ignores_counters.
Print Assumptions C08_leaf_tracers_agree.
Print Assumptions C08_overwrite_replaces.
Print Assumptions C08_coerce_arms_match_model.
Print Assumptions C08_leaf_calls_match_model.
Print Assumptions C08_from_type_is_documented.
Print Assumptions C08_from_type_pass.
Print Assumptions C08_constants_match_source.
