(* C19 - All array back ends give the same logical result.
   Proof part: the build-time selection of the arrow version (build.rs / Cargo.toml / lib.rs), over
   tables regenerated from the source on every run. The equality of the back ends themselves is
   differential (marrow <-> arrow / arrow2 conversions are external code): see the check's streams. *)
From Coq Require Import List Arith Bool.
From Verif Require Import ArrowVersions Versions.
Import ListNotations.

(* for any consistent table and any set of enabled features: the selected version is enabled and
   no enabled feature is higher *)
Theorem C19_selected_is_highest : forall pairs enabled v, pairs_consistent pairs = true -> selected pairs enabled = Some v ->
  enabled v = true /\ In (v, v) pairs /\ forall f, In (f, f) pairs -> enabled f = true -> f <= v.
Proof. exact selected_is_highest. Qed.

Theorem C19_none_iff_nothing_enabled : forall pairs enabled,
  selected pairs enabled = None <-> forall p, In p pairs -> enabled (fst p) = false.
Proof. exact nothing_selected_iff_nothing_enabled. Qed.

(* the current source: every feature names one version consistently in build.rs, Cargo.toml
   (feature -> arrow-array / arrow-schema / marrow feature, dependency versions) and lib.rs
   (re-export), the three version lists coincide, both selections use max, thresholds 47 / 53 *)
Theorem C19_tables_consistent : tables_ok = true.
Proof. exact tables_consistent. Qed.

Theorem C19_has_arrow_exactly_highest : forall enabled n, has_arrow_n enabled n = true ->
  enabled n = true /\ forall f, In (f, f) build_pairs -> enabled f = true -> f <= n.
Proof. exact has_arrow_exactly_highest. Qed.

Theorem C19_has_arrow_unique : forall enabled n m, has_arrow_n enabled n = true -> has_arrow_n enabled m = true -> n = m.
Proof. exact has_arrow_unique. Qed.

(* non-vacuity: arrow-37, arrow-53 and arrow-55 enabled together select 55 with both derived cfgs *)
Example C19_example :
  let enabled := fun n => Nat.eqb n 37 || Nat.eqb n 53 || Nat.eqb n 55 in
  selected build_pairs enabled = Some 55 /\ has_arrow_n enabled 55 = true /\ has_arrow_n enabled 53 = false /\
  fixed_binary_support enabled = true /\ bytes_view_support enabled = true /\
  bytes_view_support (fun n => Nat.eqb n 52) = false /\ fixed_binary_support (fun n => Nat.eqb n 46) = false.
Proof. vm_compute. repeat split; reflexivity. Qed.

Print Assumptions C19_selected_is_highest.
Print Assumptions C19_tables_consistent.
