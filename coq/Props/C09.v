(* C09 - Schemas survive every interchange form unchanged.
   Model: Schema/Dsl.v - the data type mini language (Term parser, build_data_type, the printer of
   PrettyFieldDataType) and the compact field form as a serde value tree (print_field / parse_field
   with CustomField defaults, strategy merging, Null => nullable, validate_field). *)
From Verif Require Import Dsl Dsl_proofs Field_proofs SchemaTables NamesSpec NamesSpec_proofs.

(* Full-strength statement for the field form (kept visible): evaluated inside Coq on every
   generated field of the run (RunC09.oracle: the printer model equals the crate's tree, and the
   parser model reads it back to the same field) *)
Definition normalize_null (f : YField) : YField :=
  match f with mkY n YNull _ m s => mkY n YNull true m s | _ => f end.
Definition C09_full (valid : YField -> Prop) : Prop :=
  forall f, valid f -> parse_field (print_field f) = Some (normalize_null f).

(* Proved (C09_full with valid := field_ok and the reader's normal form norm: Null fields at every
   depth are nullable): the compact field form of every valid field tree - any nesting, every data
   type and parameter value, metadata without the reserved key, a strategy allowed for its type -
   is read back to the same field *)
Theorem C09_field_roundtrip : forall f, field_ok f -> parse_field (print_field f) = Some (norm f).
Proof. exact field_roundtrip. Qed.

(* field_ok is not stronger than it looks: it implies the executable validity check *)
Theorem C09_ok_is_valid : forall f, field_ok f -> valid_y f = true.
Proof. exact field_ok_valid. Qed.

(* Proved: every data type name the printer emits parses back to the same type - all 27
   constructors, every i32 size, every u8 precision and i8 scale, all four units, absent and
   present time zones (any text of printable ASCII characters, quotes and backslashes included),
   containers with their children *)
Theorem C09_dsl_roundtrip : forall d, param_ok d -> build_data_type (print_dt d) (children_of d) = Some d.
Proof. exact dsl_roundtrip. Qed.

(* numbers and quoted text inside type names *)
Theorem C09_int_roundtrip : forall lo hi z, (lo <= z <= hi)%Z -> parse_int lo hi (print_Z z) = Some z.
Proof. exact parse_int_print. Qed.

Theorem C09_quoted_roundtrip : forall tz fuel r, Forall (fun c => plain_char c = true) tz -> length tz < fuel ->
  scan_quoted fuel (debug_esc tz ++ 34%N :: r) = Some (tz, r).
Proof. exact scan_quoted_roundtrip. Qed.

(* both accepted spellings of a type name denote the same type *)
Theorem C09_spellings : 
  map (fun s => build_data_type (b s) []) ["Bool"; "U8"; "U16"; "U32"; "U64"; "I8"; "I16"; "I32"; "I64"; "F16"; "F32"; "F64"]%string
  = map (fun s => build_data_type (b s) []) ["Boolean"; "UInt8"; "UInt16"; "UInt32"; "UInt64"; "Int8"; "Int16"; "Int32"; "Int64"; "Float16"; "Float32"; "Float64"]%string
  /\ Forall (fun o => o <> None) (map (fun s => build_data_type (b s) []) ["Bool"; "U8"; "U16"; "U32"; "U64"; "I8"; "I16"; "I32"; "I64"; "F16"; "F32"; "F64"]%string).
Proof. split; [vm_compute; reflexivity|]. vm_compute. repeat constructor; discriminate. Qed.

(* both top-level forms denote the same schema *)
Theorem C09_forms_agree : forall l, parse_schema (JArr l) = parse_schema (JObj [(b "fields", JArr l)]).
Proof. intros l. reflexivity. Qed.

(* values that do not denote a schema are rejected: witnesses for each class *)
Example C09_invalid_rejected :
  map parse_field
      [JObj [(b "name", JStr (b "x"))];                                                   (* no data type *)
       JObj [(b "name", JStr (b "x")); (b "data_type", JStr (b "F128"))];                 (* unknown type *)
       JObj [(b "name", JStr (b "x")); (b "data_type", JStr (b "List"))];                 (* child missing *)
       JObj [(b "name", JStr (b "x")); (b "data_type", JStr (b "Time32(Nanosecond)"))];   (* invalid unit *)
       JObj [(b "name", JStr (b "x")); (b "data_type", JStr (b "FixedSizeBinary(-1)"))];  (* negative size *)
       JObj [(b "name", JStr (b "x")); (b "data_type", JStr (b "I8")); (b "strategy", JStr (b "MapAsStruct"))];
       JObj [(b "name", JStr (b "x")); (b "data_type", JStr (b "Decimal128(256, 0)"))];
       JObj [(b "name", JStr (b "x")); (b "data_type", JStr (b "Timestamp(Second, Some(UTC))"))];
       JStr (b "I8")]
  = [None; None; None; None; None; None; None; None; None].
Proof. vm_compute. reflexivity. Qed.

(* non-vacuity: a nested field with metadata, strategy and an escaped time zone round trips *)
Example C09_example :
  let f := mkY (b "s") (YStruct [mkY (b "t") (YTimestamp Millisecond (Some (b "a""b\c"))) true [(b "k", b "v")] None;
                                 mkY (b "d") (YDecimal 38 (-3)) false [] None;
                                 mkY (b "l") (YFixedList 0 (mkY (b "element") YNull true [] (Some (b "UnknownVariant")))) false [] None])
               false [] (Some (b "TupleAsStruct")) in
  parse_field (print_field f) = Some f.
Proof. vm_compute. reflexivity. Qed.

(* non-vacuity: the nested example field satisfies field_ok *)
Example C09_field_ok_example :
  field_ok (mkY (b "s") (YStruct [mkY (b "t") (YTimestamp Millisecond (Some (b "a""b\c"))) true [(b "k", b "v")] None;
                                 mkY (b "d") (YDecimal 38 (-3)) false [] None;
                                 mkY (b "l") (YFixedList 0 (mkY (b "element") YNull true [] (Some (b "UnknownVariant")))) false [] None;
                                 mkY (b "m") (YMap (mkY (b "entries") (YStruct [mkY (b "key") YUtf8 false [] None; mkY (b "value") (YDict (YInt U16) YLargeUtf8) true [] None]) false [] None)) false [] None])
               false [] (Some (b "TupleAsStruct"))).
Proof. cbn [field_ok]. repeat split. all: try reflexivity. all: try (repeat constructor). all: try (cbn; lia). all: try (unfold i32_lo; lia). all: try (unfold i32_hi; lia). Qed.

(* the names of the type mini language are the source's: the table of what PrettyFieldDataType prints and the table of
   spellings / argument counts build_data_type accepts are regenerated from schema/serde/{serialize,deserialize}.rs on
   every run; they equal the tables the model was written against, the model's printer prints the source's name for
   EVERY model type, and the model's parser reads every spelling of the source (with its arguments) as that type *)
Theorem C09_type_names_match_source :
  prints_ok = true /\ parses_ok = true /\ (forall d, print_matches d = true) /\ (parses_match = true /\ unknown_refused = true) /\ strategies_ok = true.
Proof.
  split; [exact (proj1 tables_are_expected)|]. split; [exact (proj2 tables_are_expected)|]. split; [exact print_names_match|]. split; [exact parse_names_match|exact strategies_match].
Qed.

Print Assumptions C09_field_roundtrip.
Print Assumptions C09_dsl_roundtrip.
Print Assumptions C09_spellings.
Print Assumptions C09_type_names_match_source.
