(* C10 - ArrayBuilder: each build returns exactly the rows pushed since the last one. *)
From Verif Require Import Take Take_proofs Builder_proofs Refine_proofs Wf_proofs DictBuilder DictBuilder_proofs UnionBuilder UnionBuilder_proofs.

(* every successful push adds exactly one row (to every buffer, at every nesting level) *)
Theorem C10_push_adds_one_row : forall v b b', WfB b -> push v b = Ok b' -> WfB b' /\ rows b' = S (rows b).
Proof. exact push_wf. Qed.

(* a push never changes what the builder will be reset to: no bookkeeping survives a build *)
Theorem C10_reset_ignores_pushes : forall v b b', push v b = Ok b' -> reset b' = reset b.
Proof. exact reset_push. Qed.

(* building leaves the builder indistinguishable from a freshly constructed one *)
Theorem C10_take_is_fresh : forall f b0 recs b,
  build f = Some b0 -> push_all b0 recs = Ok b -> snd (take b) = b0.
Proof. exact take_is_fresh. Qed.

(* any history of pushes and builds (including builds of zero rows and repeated builds): the k-th
   build returns the one-shot conversion of exactly the rows added since the (k-1)-th *)
Theorem C10_history : forall f b0, build f = Some b0 ->
  forall ops cur b outs, push_all b0 cur = Ok b -> run_history b ops = Ok outs ->
  Forall2 (fun batch out => one_shot b0 batch = Ok out) (batches cur ops) outs.
Proof. exact history_batches. Qed.

(* ... and that one-shot conversion decodes to exactly what the rows of the batch denote (C01): for
   any history, the k-th build returns arrays whose logical content is the documented value of
   each row pushed since the (k-1)-th build, in order - nothing from an earlier batch, nothing lost *)
Theorem C10_history_content : forall f b0, build f = Some b0 -> names_ok f ->
  forall ops outs, run_history b0 ops = Ok outs ->
  Forall2 (fun batch out => exists lvs, Forall2 (fun r lv => interp f r = IOk lv) batch lvs /\ decode out = Some lvs)
          (batches [] ops) outs.
Proof.
  intros f b0 Hb Hn ops outs Hrun.
  pose proof (history_batches f b0 Hb ops [] b0 outs eq_refl Hrun) as HF.
  destruct (build_wf _ _ Hb) as [Hw0 _]. destruct (build_shape _ _ Hb Hn) as [Hs0 Hc0].
  clear Hrun. induction HF as [|batch out bs os Hone _ IH]; [constructor|constructor; [|exact IH]].
  unfold one_shot in Hone. apply bind_ok in Hone as (b & Hfold & Hout). injection Hout as <-.
  destruct (fold_push_sound f batch (Ok b0) b Hfold) as (b0' & E & Hrest). injection E as <-.
  destruct (Hrest [] Hs0 Hw0 Hc0) as (lvs & HF2 & Hcb & _ & _). exists lvs. split; [exact HF2|exact Hcb].
Qed.

(* histories with FAILING operations in between (a rejected push returns an error, the caller goes on): every build returns the one-shot
   conversion of exactly the rows whose push succeeded since the previous build - a rejected value leaves no row behind *)
Theorem C10_rejected_pushes_leave_no_row : forall f b0, build f = Some b0 ->
  forall ops, Forall2 (fun batch out => one_shot b0 batch = Ok out) (batches [] (accepted b0 ops)) (run_lenient b0 ops).
Proof. exact lenient_history_batches. Qed.

Example C10_rejected_example :
  match build (mkField [] (DStruct [mkField (b "a") (DPrim (PInt I8)) false]) false) with
  | Some b0 =>
    let ops := [HPush (VStruct [(b "a", VInt I8 1)]); HPush VNone; HPush (VStruct [(b "a", VInt I32 300)]); HPush (VStruct [(b "a", VInt I8 2)]); HBuild] in
    accepted b0 ops = [HPush (VStruct [(b "a", VInt I8 1)]); HPush (VStruct [(b "a", VInt I8 2)]); HBuild]
    /\ run_lenient b0 ops = [AStruct 2 None [({| m_name := b "a"; m_nullable := false |}, APrim (PInt I8) None [1; 2]%Z)]]
  | None => False
  end.
Proof. vm_compute. split; reflexivity. Qed.

(* ---- per-batch state: the dictionary builder (string -> key table, key and value builders) ---- *)
(* a build empties the table together with the children: what stays behind is the freshly constructed builder *)
Theorem C10_dictionary_take_is_fresh : forall d k nl vk, dict_kinds d = Some (k, nl, vk) -> dict_reset d = dict_new k vk nl.
Proof. exact dict_reset_fresh. Qed.

(* any history over a dictionary column: the k-th build is the one-shot conversion of exactly the values
   pushed since the (k-1)-th build; strings seen in an earlier batch are numbered afresh *)
Theorem C10_dictionary_history : forall k nl vk ops cur d outs,
  Forall (fun op => match op with DPush v => leaf_text_ok (strip v) | DBuild => True end) ops -> Forall (fun v => leaf_text_ok (strip v)) cur ->
  dict_push_all (dict_new k vk nl) cur = Ok d -> dict_history d ops = Ok outs ->
  Forall2 (fun batch out => dict_one_shot (dict_new k vk nl) batch = Ok out) (dict_batches cur ops) outs.
Proof. exact dict_history_batches. Qed.

(* within a batch: a pushed value is appended as its text (or null) and no earlier row changes,
   whether the string was already in the table or not; every emitted key is inside the values *)
Theorem C10_dictionary_push : forall v d d' lvs nm key val nullable kv kvals,
  DInv d -> d_keys d = BdPrim (PInt key) kv kvals -> vnull (mkField nm (DDict key val) nullable) kv ->
  dict_content d = Some lvs -> dict_push v d = Ok d' ->
  exists lv, interp (mkField nm (DDict key val) nullable) v = IOk lv /\ dict_content d' = Some (lvs ++ [lv]).
Proof. exact dict_push_content. Qed.

Theorem C10_dictionary_well_formed : forall strict d nm nullable, DInv d ->
  forall k kv kvals vk offs data, d_keys d = BdPrim (PInt k) kv kvals -> d_values d = BdUtf8 vk None offs data ->
  vnull (mkField nm (DDict k vk) nullable) kv -> is_utf8_kind vk = true ->
  wf_arr strict (mkField nm (DDict k vk) nullable) (dict_arr d) = true.
Proof. exact dict_wf. Qed.

Theorem C10_dictionary_invariant : forall v d d', leaf_text_ok (strip v) -> DInv d -> dict_push v d = Ok d' -> DInv d'.
Proof. exact dict_push_inv. Qed.

(* non-vacuity: repeated strings share a key; a build restarts the numbering *)
Example C10_dictionary_example :
  dict_history (dict_new I8 BUtf8 true) [DPush (VStr (b "x")); DPush (VStr (b "y")); DPush VNone; DPush (VStr (b "x")); DBuild; DPush (VStr (b "y")); DBuild]
  = Ok [ADict (APrim (PInt I8) (Some {| bm_off := 0; bm_data := [11%N] |}) [0; 1; 0; 0]%Z) (ABytes BUtf8 None [0; 1; 2]%Z (b "xy"));
        ADict (APrim (PInt I8) (Some {| bm_off := 0; bm_data := [1%N] |}) [0]%Z) (ABytes BUtf8 None [0; 1]%Z (b "y"))].
Proof. vm_compute. reflexivity. Qed.

(* ---- per-batch state: the union builder (type ids, offsets, one row counter per variant) ---- *)
(* a pushed variant is appended as (type id, denoted payload) - unit, newtype, tuple and struct variants -
   and no earlier row changes: every offset still points at the row of its variant *)
Theorem C10_union_push : forall nm ufs u u' v lvs, UInv ufs u -> ucontent u = Some lvs -> union_push v u = Ok u' ->
  exists lv, interp (ufield nm ufs) v = IOk lv /\ ucontent u' = Some (lvs ++ [lv]) /\ UInv ufs u'.
Proof. exact union_push_sound. Qed.

(* ucontent is the logical content of the emitted dense union array *)
Theorem C10_union_content_is_decode : forall u, decode (union_into_array u) = ucontent u.
Proof. exact decode_union_into. Qed.

(* a build resets the counters together with the children *)
Theorem C10_union_take_is_fresh : forall fields0 u, resets_to fields0 u -> union_reset u = union_new fields0.
Proof. exact union_reset_fresh. Qed.

(* any history over a union column: the k-th build is the one-shot conversion of the variants pushed since
   the (k-1)-th build; offsets restart from zero for every variant *)
Theorem C10_union_history : forall fields0, resets_to fields0 (union_new fields0) ->
  forall ops cur u outs, union_push_all (union_new fields0) cur = Ok u -> union_history u ops = Ok outs ->
  Forall2 (fun batch out => union_one_shot (union_new fields0) batch = Ok out) (union_batches cur ops) outs.
Proof. exact union_history_batches. Qed.

Theorem C10_union_builder_is_fresh : forall fs u0, union_of fs = Some u0 -> resets_to (u_fields u0) (union_new (u_fields u0)).
Proof. exact union_of_fresh. Qed.

Example C10_union_example :
  match union_of [mkField (b "N") DNull true; mkField (b "I") (DPrim (PInt I16)) false] with
  | Some u0 =>
    union_history u0 [UPush (VNewtypeVariant 1 (b "I") (VInt I16 7)); UPush (VUnitVariant 0 (b "N")); UPush (VNewtypeVariant 1 (b "I") (VInt I16 8)); UBuild;
                      UPush (VNewtypeVariant 1 (b "I") (VInt I16 9)); UBuild]
    = Ok [AUnion [1; 0; 1]%Z [0; 0; 1]%Z [(0%Z, {| m_name := b "N"; m_nullable := true |}, ANull 1); (1%Z, {| m_name := b "I"; m_nullable := false |}, APrim (PInt I16) None [7; 8]%Z)];
          AUnion [1]%Z [0]%Z [(0%Z, {| m_name := b "N"; m_nullable := true |}, ANull 0); (1%Z, {| m_name := b "I"; m_nullable := false |}, APrim (PInt I16) None [9]%Z)]]
  | None => False
  end.
Proof. vm_compute. reflexivity. Qed.

Example C10_example :
  match build (mkField [] (DStruct [mkField (b "a") (DBytes BUtf8) true]) false) with
  | Some b0 =>
    run_history b0 [HPush (VStruct [(b "a", VStr (b "x"))]); HBuild; HBuild; HPush (VTuple [VNone]); HPush (VMap []); HBuild]
    = Ok [AStruct 1 None [({| m_name := b "a"; m_nullable := true |}, ABytes BUtf8 (Some {| bm_off := 0; bm_data := [1%N] |}) [0; 1]%Z [120%N])];
          AStruct 0 None [({| m_name := b "a"; m_nullable := true |}, ABytes BUtf8 (Some {| bm_off := 0; bm_data := [] |}) [0]%Z [])];
          AStruct 2 None [({| m_name := b "a"; m_nullable := true |}, ABytes BUtf8 (Some {| bm_off := 0; bm_data := [0%N] |}) [0; 0; 0]%Z [])]]
  | None => False
  end.
Proof. vm_compute. reflexivity. Qed.

(* binary columns are inside the builder model: bytes, or a sequence / tuple of u8, element by element *)
Example C10_binary_example :
  match build (mkField [] (DStruct [mkField (b "d") (DBytes BBinary) true]) false) with
  | Some b0 =>
    match run_history b0 [HPush (VStruct [(b "d", VBytes (b "ab"))]); HPush (VStruct [(b "d", VSeq [VInt U8 1; VInt U8 255])]); HPush (VStruct [(b "d", VNone)]); HBuild;
                          HPush (VStruct [(b "d", VTuple [VInt U8 7])]); HBuild] with
    | Ok [AStruct 3 None [(_, ABytes BBinary (Some _) offs data)]; AStruct 1 None [(_, ABytes BBinary (Some _) offs2 data2)]] =>
      offs = [0; 2; 4; 4]%Z /\ data = [97; 98; 1; 255]%N /\ offs2 = [0; 1]%Z /\ data2 = [7]%N
    | _ => False
    end
  | None => False
  end.
Proof. vm_compute. repeat split; reflexivity. Qed.

Print Assumptions C10_take_is_fresh.
Print Assumptions C10_union_push.
Print Assumptions C10_union_history.
Print Assumptions C10_dictionary_history.
Print Assumptions C10_dictionary_well_formed.
Print Assumptions C10_history_content.
Print Assumptions C10_history.
Print Assumptions C10_rejected_pushes_leave_no_row.
