(* C10 - ArrayBuilder: each build returns exactly the rows pushed since the last one. *)
From Verif Require Import Take Take_proofs Builder_proofs.

(* every successful push adds exactly one row (to every buffer, at every nesting level) *)
Theorem C10_push_adds_one_row : forall v b b', WfB b -> push v b = Ok b' -> WfB b' /\ rows b' = S (rows b).
Proof. exact push_wf. Qed.

(* a push never changes what the builder will be reset to: no bookkeeping survives a build *)
Theorem C10_reset_ignores_pushes : forall v b b', push v b = Ok b' -> reset b' = reset b.
Proof. exact reset_push. Qed.

(* building leaves the builder indistinguishable from a freshly constructed one *)
Theorem C10_take_is_fresh : forall f b0 recs b,
  build f = Some b0 -> push_all b0 recs = Ok b -> snd (take b) = b0.
Proof. exact take_is_fresh. Qed.

(* any history of pushes and builds (including builds of zero rows and repeated builds): the k-th
   build returns the one-shot conversion of exactly the rows added since the (k-1)-th *)
Theorem C10_history : forall f b0, build f = Some b0 ->
  forall ops cur b outs, push_all b0 cur = Ok b -> run_history b ops = Ok outs ->
  Forall2 (fun batch out => one_shot b0 batch = Ok out) (batches cur ops) outs.
Proof. exact history_batches. Qed.

Example C10_example :
  match build (mkField [] (DStruct [mkField (b "a") (DBytes BUtf8) true]) false) with
  | Some b0 =>
    run_history b0 [HPush (VStruct [(b "a", VStr (b "x"))]); HBuild; HBuild; HPush (VTuple [VNone]); HPush (VMap []); HBuild]
    = Ok [AStruct 1 None [({| m_name := b "a"; m_nullable := true |}, ABytes BUtf8 (Some {| bm_off := 0; bm_data := [1%N] |}) [0; 1]%Z [120%N])];
          AStruct 0 None [({| m_name := b "a"; m_nullable := true |}, ABytes BUtf8 (Some {| bm_off := 0; bm_data := [] |}) [0]%Z [])];
          AStruct 2 None [({| m_name := b "a"; m_nullable := true |}, ABytes BUtf8 (Some {| bm_off := 0; bm_data := [0%N] |}) [0; 0; 0]%Z [])]]
  | None => False
  end.
Proof. vm_compute. reflexivity. Qed.

Print Assumptions C10_take_is_fresh.
Print Assumptions C10_history.
