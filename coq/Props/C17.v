(* C17 - Structurally inconsistent array views give an error, not a panic or foreign data.
   The reader model (De/Reader.v) is stated for every view whatsoever - no well-formedness
   hypothesis: children shorter than their parent, offsets beyond the data or decreasing, type ids
   and dictionary keys out of range, bitmaps shorter than the length, invalid UTF-8. *)
From Verif Require Import Reader Reader_proofs.

Theorem C17_no_panic : forall a idx p, read a idx <> Panic p.
Proof. exact read_no_panic. Qed.

Theorem C17_no_panic_top : forall a idx p, read_top a idx <> Panic p.
Proof. exact read_top_no_panic. Qed.

(* nothing is ever handed out for a position at or beyond the length a view designates: lists,
   maps, unions and dictionaries cannot reach elements outside their children *)
Theorem C17_no_foreign_rows : forall a idx, arr_len a <= idx -> read a idx = Err.
Proof. exact read_oob. Qed.

(* where the inconsistency is never touched the values are the correct ones: a read only depends
   on the slots it visits - here for the window of a slice, whose untouched parts may be anything *)
Theorem C17_child_at_faithful : forall c z, (0 <= z)%Z -> at_z (read c) (arr_len c) z = read c (Z.to_nat z).
Proof. exact read_child_at. Qed.

(* non-vacuity: decreasing offsets, offsets beyond the data, a type id without variant, a child
   shorter than its parent, a bitmap shorter than the length, invalid UTF-8: all errors *)
Example C17_example :
  map (fun a => read_top a 0)
      [ABytes BUtf8 None [3; 1]%Z (b "abcd");
       ABytes BBinary None [0; 9]%Z (b "abcd");
       AUnion [2]%Z [0]%Z [(0%Z, {| m_name := b "A"; m_nullable := false |}, APrim (PInt I8) None [1]%Z)];
       AStruct 2 None [({| m_name := b "x"; m_nullable := false |}, APrim (PInt I8) None []%Z)];
       APrim (PInt I8) (Some {| bm_off := 0; bm_data := [] |}) [1]%Z;
       ABytes BUtf8 None [0; 1]%Z [255]%N;
       AList KList None [0; 4611686018427387904]%Z {| m_name := b "e"; m_nullable := true |} (ANull 1);
       AFixedBin 0 None [1]%N]
  = [Err; Err; Err; Err; Err; Err; Err; Err].
Proof. vm_compute. reflexivity. Qed.

Print Assumptions C17_no_panic.
Print Assumptions C17_no_foreign_rows.
