(* C12 - Deserializing a slice equals slicing the deserialized values.
   slice_arr (De/Reader.v) is the layout of an Arrow slice converted to a view (values / offsets /
   descriptor windows, validity bit offsets, fixed-size children sliced by n, struct children
   sliced, dictionary keys sliced, union type ids and offsets windowed; list, map and union
   children untouched); the harness compares it with arrow-rs slices on every run. *)
From Verif Require Import Reader Reader_proofs.

Definition C12_full : Prop :=
  forall a o l i, construct a = true -> lens_ok a = true -> o + l <= arr_len a ->
    read_top (slice_arr a o l) i = (if Nat.ltb i l then read_top a (o + i) else Ok None).

(* row i of the window [o, o+l) reads exactly as row o+i of the whole array: every data type of the
   dispatcher, any nesting, windows starting inside a bitmap byte *)
Theorem C12_slice : forall a o l i, lens_ok a = true -> o + l <= arr_len a -> i < l ->
  read (slice_arr a o l) i = read a (o + i).
Proof. exact read_slice. Qed.

Theorem C12_slice_items : forall a o l i, construct a = true -> lens_ok a = true -> o + l <= arr_len a -> i < l ->
  read_top (slice_arr a o l) i = read_top a (o + i).
Proof. exact read_top_slice. Qed.

Theorem C12_slice_len : forall a o l, lens_ok a = true -> o + l <= arr_len a -> arr_len (slice_arr a o l) = l.
Proof. exact arr_len_slice. Qed.

Theorem C12_slice_end : forall a o l i, construct a = true -> lens_ok a = true -> o + l <= arr_len a -> l <= i ->
  read_top (slice_arr a o l) i = Ok None.
Proof. exact read_top_slice_end. Qed.

Theorem C12_full_proved : C12_full.
Proof.
  intros a o l i Hc Hok Hol. destruct (Nat.ltb_spec i l).
  - apply read_top_slice; assumption.
  - apply read_top_slice_end; assumption.
Qed.

Theorem C12_slice_of_slice : forall a o l o2 l2 i, lens_ok a = true -> o + l <= arr_len a -> o2 + l2 <= l -> i < l2 ->
  read (slice_arr (slice_arr a o l) o2 l2) i = read a (o + o2 + i).
Proof. exact read_slice_of_slice. Qed.

(* the hypothesis lens_ok is met by every well-formed array (reader's notion, strict = false) *)
Theorem C12_wf_lens_ok : forall a strict f, wf_arr strict f a = true -> lens_ok a = true.
Proof. exact wf_lens_ok. Qed.

(* non-vacuity: a nullable struct of (list of nullable int32, utf8) with a validity bitmap at bit offset 3 *)
Example C12_example :
  let a := AStruct 4 (Some {| bm_off := 3; bm_data := [107]%N |})
             [({| m_name := b "l"; m_nullable := true |},
               AList KList (Some {| bm_off := 0; bm_data := [13]%N |}) [0; 2; 2; 3; 5]%Z {| m_name := b "element"; m_nullable := true |}
                     (APrim (PInt I32) (Some {| bm_off := 1; bm_data := [42]%N |}) [1; 2; 3; 4; 5]%Z));
              ({| m_name := b "s"; m_nullable := false |}, ABytes BUtf8 None [0; 1; 1; 3; 4]%Z (b "abcd"))] in
  construct a = true /\ lens_ok a = true /\
  map (read_top (slice_arr a 1 2)) [0; 1; 2] = [read_top a 1; read_top a 2; Ok None] /\
  read_top a 2 = Ok (Some (RMap [(RStr (b "l"), RSeq [RInt 3]); (RStr (b "s"), RStr (b "bc"))])).
Proof. vm_compute. repeat split; reflexivity. Qed.

Print Assumptions C12_full_proved.
Print Assumptions C12_slice_of_slice.
