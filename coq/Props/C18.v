(* C18 - Every conversion error names the field that caused it. *)
From Verif Require Import Paths Paths_proofs AnnotTable.

(* Full-strength statement (kept visible): judged per case on the implementation (RunC18.oracle):
   for a fault injected at the node reached by `route`, the error's field annotation is the model's
   path of exactly that node and its data_type annotation the node's type text. *)
Definition C18_full (observed : YField -> list nat -> bool -> option (bytes * bytes)) : Prop :=
  forall f route ser, observed f route ser = (if ser then ser_at f route else de_at f route).

(* the annotation protocol: the innermost annotating context wins, so an error carries the path and
   type of the node that raised it provided that node annotates at all *)
Theorem C18_innermost_wins : forall path dt outer,
  lookup_annot (b "field") (propagate (node_annot path dt :: outer)) = Some path /\
  lookup_annot (b "data_type") (propagate (node_annot path dt :: outer)) = Some dt.
Proof. exact innermost_field. Qed.

(* every Context impl of the source (table regenerated from /repo on every run) sets exactly the
   keys "field" and "data_type" ... *)
Theorem C18_table_keys : forallb keys_ok annot_table = true.
Proof. exact annot_table_keys. Qed.

(* ... and only data type texts the model knows *)
Theorem C18_table_texts : forallb texts_ok annot_table = true.
Proof. exact annot_table_texts. Qed.

(* the path of a deeper node is never the path of one of its ancestors *)
Theorem C18_deeper_is_not_ancestor : forall raw dtx path f route p d,
  route <> [] -> node_at raw dtx path f route = Some (p, d) -> p <> path.
Proof. exact deeper_path_is_longer. Qed.

(* non-vacuity *)
Example C18_example :
  let f := mkY (b "orders") (YList (mkY (b "element") (YStruct [mkY (b "id") (YInt I64) false [] None;
                                                                mkY (b "price") (YDecimal 10 2) true [] None]) false [] None)) false [] None in
  ser_at f [0; 1]%nat = Some (b "$.orders.element.price", b "Decimal128(..)") /\
  de_at f [0; 1]%nat = Some (b "$.orders.element.price", b "Decimal128(..)") /\
  de_at f [0]%nat = Some (b "$.orders.element", b "Struct(..)").
Proof. vm_compute. repeat split; reflexivity. Qed.

Print Assumptions C18_innermost_wins.
Print Assumptions C18_table_keys.
