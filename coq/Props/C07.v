(* C07 - The traced schema does not depend on sample order or repetition.
   Model: Trace/Tracer.v (trace, to_field, from_samples), compared with the crate on every run
   (exhaustive leaf pairs x 16 option sets, triples, nested shapes). *)
From Verif Require Import Tracer Coerce Coerce_proofs CoerceTable CoerceTable_proofs TracerTablesSpec Null_proofs Struct_proofs Project_proofs FlatRecords_proofs Shapes_proofs Nested_order Nested_schema Nested_repeat Nested_success Nested_total.
Require Import Lia.
From Coq Require Import Permutation.

(* Full-strength statement (kept visible): evaluated on the implementation on every run by the
   order / repetition oracle (all permutations of up to 3 samples, seeded permutations beyond) *)
Definition schema_canon_equal (a c : list SField) : Prop := Permutation a c.   (* first-seen field order may differ *)
Definition C07_full : Prop :=
  forall o s1 s2 f1 f2, Permutation s1 s2 ->
    from_samples o [] s1 = Ok f1 -> from_samples o [] s2 = Ok f2 -> schema_canon_equal f1 f2.

(* Proved: at every leaf position (the values reaching it are scalars, strings, bytes, unit, None,
   Some(leaf), newtype-wrapped leaves - the complete leaf alphabet), for collections of any length
   and every option set: *)

(* any two orders that both trace give the same state: same primitive type, same nullability *)
Theorem C07_leaf_perm_partial : forall o d vs1 vs2 l1 t1 t2,
  all_atoms o vs1 = Some l1 -> Permutation vs1 vs2 ->
  trace_seq o d vs1 (TUnknown false) = Ok t1 -> trace_seq o d vs2 (TUnknown false) = Ok t2 -> t1 = t2.
Proof. exact leaf_perm. Qed.

(* repeating the samples changes neither success nor result *)
Theorem C07_leaf_repeat_partial : forall o d vs l t,
  all_atoms o vs = Some l -> trace_seq o d vs (TUnknown false) = Ok t -> trace_seq o d (vs ++ vs) (TUnknown false) = Ok t.
Proof. exact leaf_repeat. Qed.

(* unless primitives may coerce to strings, success itself is independent of the order *)
Theorem C07_leaf_success_order_free_partial : forall o d vs1 vs2 l1,
  o_to_string o = false -> all_atoms o vs1 = Some l1 -> Permutation vs1 vs2 ->
  is_ok (trace_seq o d vs1 (TUnknown false)) = is_ok (trace_seq o d vs2 (TUnknown false)).
Proof. exact leaf_success_order_free. Qed.

(* the closed form: the traced type is a function of the set of kinds seen (2^17 sets x 17 kinds
   x 8 option sets swept by vm_compute, lifted to traces of any length) *)
Theorem C07_closed_form : forall o l t,
  Forall (atom_ok (o_large_utf8 o)) l -> run_atoms o l (TUnknown false) = Ok t ->
  render (o_coerce o) (o_to_string o) (o_large_utf8 o) (summ l summ0) = Some t.
Proof. intros o l t Hok R. exact (inv_render _ _ _ _ _ (inv_run o l _ _ _ (inv0 _ _ _) Hok R)). Qed.

Theorem C07_summary_order_free : forall l1 l2, Permutation l1 l2 -> forall s, summ l1 s = summ l2 s.
Proof. exact summ_perm. Qed.

(* with allow_to_string, success does depend on the order (the property says so): a witness *)
Example C07_to_string_order_matters :
  let o := {| o_allow_null := false; o_map_as_struct := true; o_large_list := true; o_large_utf8 := true; o_dict := false;
              o_coerce := false; o_to_string := true; o_guess_dates := false; o_enums_str := false |} in
  is_ok (trace_seq o 1 [VBool true; VInt I8 1; VStr (b "x")] (TUnknown false)) = false /\
  trace_seq o 1 [VStr (b "x"); VBool true; VInt I8 1] (TUnknown false) = Ok (TPrim false (PStr true)).
Proof. vm_compute. split; reflexivity. Qed.

(* non-vacuity: a mixed collection that traces in both orders *)
Example C07_example :
  let o := {| o_allow_null := false; o_map_as_struct := true; o_large_list := true; o_large_utf8 := true; o_dict := false;
              o_coerce := true; o_to_string := false; o_guess_dates := false; o_enums_str := false |} in
  let vs := [VInt U8 1; VNone; VSome (VInt I32 2); VF32 0; VUnit] in
  all_atoms o vs <> None /\
  trace_seq o 1 vs (TUnknown false) = Ok (TPrim true PFloat64) /\ trace_seq o 1 (rev vs) (TUnknown false) = Ok (TPrim true PFloat64).
Proof. vm_compute. repeat split; try reflexivity; discriminate. Qed.

(* the model's coerce_core IS the match of coerce_primitive_type in /repo's tracer.rs: the arms are regenerated
   from the source on every run (Gen/TracerTables.v) and read as a first-match table *)
Theorem C07_coerce_arms_match_model : forall cn ts lg prev nl curr,
  CoerceTable.first_match TracerTables.coerce_arms cn ts lg prev nl curr = Some (coerce_core cn ts lg prev nl curr).
Proof. exact CoerceTable_proofs.coerce_table_is_model. Qed.

(* ---- nested shapes: nullability is orthogonal to everything else a tracer records ----
   For samples of ANY shape (records, sequences, tuples, maps, enum variants, at any nesting) and any tracer state: marking a
   position nullable commutes with tracing a sample into it (trace_mark).  Hence: a null sample anywhere in a collection makes
   the position nullable and changes nothing else - neither success nor any other part of the result - so its place in the
   order is irrelevant; Some(x) is x plus a null; and the same holds for a null among the elements of a sequence at any depth *)
Theorem C07_null_commutes_with_any_sample : forall o v d t, trace o d v (mark_nullable t) = omark (trace o d v t).
Proof. exact trace_mark. Qed.

Theorem C07_null_position_irrelevant : forall o d l1 l2 l1' l2' t, l1 ++ l2 = l1' ++ l2' ->
  trace_seq' o d (l1 ++ VNone :: l2) (Ok t) = trace_seq' o d (l1' ++ VNone :: l2') (Ok t).
Proof. exact null_positions_agree. Qed.

Theorem C07_null_only_marks : forall o d l1 l2 t,
  trace_seq' o d (l1 ++ VNone :: l2) (Ok t) = omark (trace_seq' o d (l1 ++ l2) (Ok t)).
Proof. exact null_anywhere. Qed.

Theorem C07_some_is_null_plus_value : forall o d v t, trace o d (VSome v) t = omark (trace o d v t).
Proof. exact some_is_null_plus_value. Qed.

Theorem C07_null_element_position : forall o d l1 l2 l1' l2' t, l1 ++ l2 = l1' ++ l2' ->
  trace o d (VSeq (l1 ++ VNone :: l2)) t = trace o d (VSeq (l1' ++ VNone :: l2')) t.
Proof. exact null_element_position. Qed.

(* trace_seq' at depth 0 from the unknown root is the tracing of a whole collection *)
Example C07_trace_all_is_fold : forall o samples, trace_all o samples = trace_seq' o 0 samples (Ok (TUnknown false)).
Proof. reflexivity. Qed.

(* "struct fields may appear in first-seen order": for a collection of record samples (with any nested content) the fields of the
   record tracer are exactly the keys of the samples in the order of their first occurrence - never removed, renamed or reordered *)
Theorem C07_fields_in_first_seen_order : forall o d samples t t',
  Forall (fun v => exists fa, v = VStruct fa) samples ->
  (match t with TStruct _ _ _ _ | TUnknown _ => True | _ => False end) ->
  samples <> [] -> trace_seq' o d samples (Ok t) = Ok t' ->
  exists n m s fs', t' = TStruct n m s fs' /\
    map fname3 fs' = fold_left (fun acc v => match v with VStruct fa => add_names acc (map fst fa) | _ => acc end) samples
                               (match t with TStruct _ _ _ fs => map fname3 fs | _ => [] end).
Proof. exact record_collection_names. Qed.

(* ---- records: the projection theorem ----
   A collection of record samples (distinct keys within a sample, field values of ANY nested shape) traced into a fresh position
   gives a record tracer in which the tracer of every field k is exactly the result of tracing the values of k alone, in the order
   of the samples, into a fresh tracer - marked nullable iff some sample does not mention k; fields no sample mentions do not
   exist.  The fields of a record are traced independently of each other, so every order law of a record position reduces to the
   order laws of its fields (and, applied again, of the fields of nested records). *)
Theorem C07_record_projection : forall o d SS n0 t,
  SS <> [] -> Forall (fun fa => NoDup (map fst fa)) SS ->
  trace_seq' o d (map VStruct SS) (Ok (TUnknown n0)) = Ok t ->
  exists fs, t = TStruct n0 false (length SS) fs /\
    forall k, match fget2 k fs with
              | Some (tk, _) => vals k SS <> [] /\
                                exists T, trace_seq' o (S d + count_dots k) (vals k SS) (Ok (TUnknown false)) = Ok T /\ tk = mk (missing k SS) T
              | None => vals k SS = []
              end.
Proof. exact record_projection. Qed.

(* ... with the leaf-level closed form: tables (records whose field values are leaf-like: scalars, strings, bytes, unit, None, Some /
   newtype wrappers of those) give the same field tracers - type and nullability of every column - in every order of the samples,
   whenever both orders trace; only the order of the fields (first seen) may differ *)
Theorem C07_tables_order_independent : forall o d SS SS' n0 m s fs m' s' fs',
  Permutation SS SS' -> Forall (fun fa => NoDup (map fst fa)) SS ->
  (forall k, exists l, all_atoms o (vals k SS) = Some l) ->
  trace_seq' o d (map VStruct SS) (Ok (TUnknown n0)) = Ok (TStruct n0 m s fs) ->
  trace_seq' o d (map VStruct SS') (Ok (TUnknown n0)) = Ok (TStruct n0 m' s' fs') ->
  forall k, option_map fst (fget2 k fs) = option_map fst (fget2 k fs').
Proof. exact flat_records_order_independent. Qed.

(* non-vacuity: three records in two orders; column types and nullabilities agree, the field order differs *)
Example C07_tables_example :
  let o := {| o_allow_null := false; o_map_as_struct := true; o_large_list := true; o_large_utf8 := true; o_dict := false;
              o_coerce := true; o_to_string := false; o_guess_dates := false; o_enums_str := false |} in
  let r1 := [(b "a", VInt I8 1); (b "s", VSome (VStr (b "x")))] in
  let r2 := [(b "b", VBool true); (b "a", VInt U16 7)] in
  let r3 := [(b "a", VF32 0); (b "s", VNone)] in
  exists m1 s1 fs1 m2 s2 fs2,
    trace_seq' o 0 (map VStruct [r1; r2; r3]) (Ok (TUnknown false)) = Ok (TStruct false m1 s1 fs1) /\
    trace_seq' o 0 (map VStruct [r3; r2; r1]) (Ok (TUnknown false)) = Ok (TStruct false m2 s2 fs2) /\
    map (fun k => option_map fst (fget2 k fs1)) [b "a"; b "s"; b "b"] = [Some (TPrim false PFloat64); Some (TPrim true (PStr true)); Some (TPrim true PBool)] /\
    map fname3 fs1 = [b "a"; b "s"; b "b"] /\ map fname3 fs2 = [b "a"; b "s"; b "b"].
Proof. do 6 eexists. vm_compute. repeat split; reflexivity. Qed.

(* ---- order independence for nested data, to any depth ----
   Collections built from leaf values, Option / newtype wrappers, nulls written as None or as the unit value, sequences, records and - when maps are traced as structs -
   records presented as maps with string keys (JSON objects; distinct keys per record), nested to any depth
   and homogeneous at every position (class Hom: tables, nested records, lists of records, records with list fields, optional
   anything): the same samples in ANY order give the same tracer - the same shape, the same primitive types and the same
   nullability at every position - whenever both orders trace; `teq` is equality up to the order of record fields (which is
   first-seen, C07_fields_in_first_seen_order) and the internal sample counters.  By induction on the depth from the leaf closed
   form, trace_mark, the projection theorem for records and its analogues for sequences, maps traced as maps (a key position and a
   value position), tuples and tuple structs (one position per index) and enum variants (one position per variant index, the
   variant names being part of the result).  The class covers what serde_json::Value produces (objects, arrays, strings, numbers,
   booleans, null) and what derived Serialize implementations produce (structs, tuples, enums with unit / newtype / tuple /
   struct variants, Option, Vec, maps), including the mixtures the crate accepts at one position (a struct at one sample and a
   string-keyed map at another; tuples and tuple structs).  C07_success_puts_in_class below shows that nothing else traces: the class
   is exactly the collections that trace (up to duplicate keys inside one record). *)
Theorem C07_nested_order_independent : forall o n d vs vs' t t',
  Hom o n vs -> Permutation vs vs' ->
  trace_seq' o d vs (Ok (TUnknown false)) = Ok t -> trace_seq' o d vs' (Ok (TUnknown false)) = Ok t' -> teq t t'.
Proof. exact nested_order_independent. Qed.

Definition structs (SS : list (list (bytes * Value))) : list (bool * list (bytes * Value)) := map (pair false) SS.
Definition mapsS (SS : list (list (bytes * Value))) : list (bool * list (bytes * Value)) := map (pair true) SS.

(* non-vacuity: records with an optional nested record, a list of records and scalar columns; three samples in two orders *)
Definition c07_s1 : Value := VStruct [(b "id", VInt I32 1); (b "tags", VSeq [VStr (b "x"); VNone]); (b "pos", VSome (VStruct [(b "x", VF64 0); (b "y", VF64 0)]))].
Definition c07_s2 : Value := VStruct [(b "id", VInt I32 2); (b "pos", VNone); (b "items", VSeq [VStruct [(b "n", VInt U8 1)]; VStruct [(b "n", VInt U8 2); (b "w", VBool true)]])].
Definition c07_s3 : Value := VSome (VStruct [(b "tags", VSeq []); (b "id", VInt I32 3); (b "items", VSeq [])]).
Example C07_nested_example :
  Hom default_opts 3 [c07_s1; c07_s2; c07_s3] /\
  (exists t t', trace_seq' default_opts 0 [c07_s1; c07_s2; c07_s3] (Ok (TUnknown false)) = Ok t /\
                trace_seq' default_opts 0 [c07_s3; c07_s1; c07_s2] (Ok (TUnknown false)) = Ok t' /\ t <> t').
Proof.
  split.
  - right. right. left. exists (structs [[(b "id", VInt I32 1); (b "tags", VSeq [VStr (b "x"); VNone]); (b "pos", VSome (VStruct [(b "x", VF64 0); (b "y", VF64 0)]))];
                         [(b "id", VInt I32 2); (b "pos", VNone); (b "items", VSeq [VStruct [(b "n", VInt U8 1)]; VStruct [(b "n", VInt U8 2); (b "w", VBool true)]])];
                         [(b "tags", VSeq []); (b "id", VInt I32 3); (b "items", VSeq [])]]).
    split; [reflexivity|]. split; [discriminate|]. split; [unfold structs; cbn [map snd]; repeat constructor; cbn; intuition discriminate|]. intros k.
    destruct (bytes_eqb (b "id") k) eqn:E1; [apply bytes_eqb_eq in E1; subst k; left; vm_compute; eexists; reflexivity|].
    destruct (bytes_eqb (b "tags") k) eqn:E2.
    { apply bytes_eqb_eq in E2. subst k. right. left. exists [[VStr (b "x"); VNone]; []]. split; [reflexivity|]. left. vm_compute. eexists; reflexivity. }
    destruct (bytes_eqb (b "pos") k) eqn:E3.
    { apply bytes_eqb_eq in E3. subst k. right. right. left. exists (structs [[(b "x", VF64 0); (b "y", VF64 0)]]). split; [reflexivity|]. split; [discriminate|]. split; [unfold structs; cbn [map snd]; repeat constructor; cbn; intuition discriminate|].
      intros k'. destruct (bytes_eqb (b "x") k') eqn:F1; [apply bytes_eqb_eq in F1; subst k'; left; vm_compute; eexists; reflexivity|].
      destruct (bytes_eqb (b "y") k') eqn:F2; [apply bytes_eqb_eq in F2; subst k'; left; vm_compute; eexists; reflexivity|].
      left. exists []. unfold vals, structs, mapsS. cbn [map snd flat_map flookup]. rewrite F1, F2. reflexivity. }
    destruct (bytes_eqb (b "items") k) eqn:E4.
    { apply bytes_eqb_eq in E4. subst k. right. left. exists [[VStruct [(b "n", VInt U8 1)]; VStruct [(b "n", VInt U8 2); (b "w", VBool true)]]; []]. split; [reflexivity|].
      right. right. left. exists (structs [[(b "n", VInt U8 1)]; [(b "n", VInt U8 2); (b "w", VBool true)]]). split; [reflexivity|]. split; [discriminate|]. split; [unfold structs; cbn [map snd]; repeat constructor; cbn; intuition discriminate|].
      intros k'. destruct (bytes_eqb (b "n") k') eqn:F1; [apply bytes_eqb_eq in F1; subst k'; left; vm_compute; eexists; reflexivity|].
      destruct (bytes_eqb (b "w") k') eqn:F2; [apply bytes_eqb_eq in F2; subst k'; left; vm_compute; eexists; reflexivity|].
      left. exists []. unfold vals, structs, mapsS. cbn [map snd flat_map flookup]. rewrite F1, F2. reflexivity. }
    left. exists []. unfold vals, structs, mapsS. cbn [map snd flat_map flookup]. rewrite E1, E2, E3, E4. reflexivity.
  - do 2 eexists. split; [vm_compute; reflexivity|]. split; [vm_compute; reflexivity|]. discriminate.
Qed.

(* non-vacuity on JSON-like data: objects as maps with string keys, null as the unit value, arrays; sorted fields in the schema *)
Definition c07_j1 : Value := VMap [(VStr (b "b"), VInt I64 1); (VStr (b "a"), VSeq [VUnit; VStr (b "x")])].
Definition c07_j2 : Value := VMap [(VStr (b "a"), VUnit); (VStr (b "c"), VMap [(VStr (b "z"), VBool true)])].
Example C07_json_example :
  Hom default_opts 2 [c07_j1; c07_j2; VUnit] /\
  exists fs1 fs2, from_samples {| o_allow_null := true; o_map_as_struct := true; o_large_list := true; o_large_utf8 := true; o_dict := false;
                                   o_coerce := false; o_to_string := false; o_guess_dates := false; o_enums_str := false |} [] [c07_j1; c07_j2] = Ok fs1 /\
                  from_samples {| o_allow_null := true; o_map_as_struct := true; o_large_list := true; o_large_utf8 := true; o_dict := false;
                                   o_coerce := false; o_to_string := false; o_guess_dates := false; o_enums_str := false |} [] [c07_j2; c07_j1] = Ok fs2 /\
                  fs1 = fs2 /\ map sf_name fs1 = [b "a"; b "b"; b "c"].
Proof.
  split.
  - right. right. left. exists (mapsS [[(b "b", VInt I64 1); (b "a", VSeq [VUnit; VStr (b "x")])]; [(b "a", VUnit); (b "c", VMap [(VStr (b "z"), VBool true)])]]).
    split; [reflexivity|]. split; [intros _; reflexivity|]. split; [unfold mapsS; cbn [map snd]; repeat constructor; cbn; intuition discriminate|]. intros k.
    destruct (bytes_eqb (b "b") k) eqn:E1; [apply bytes_eqb_eq in E1; subst k; left; vm_compute; eexists; reflexivity|].
    destruct (bytes_eqb (b "a") k) eqn:E2.
    { apply bytes_eqb_eq in E2. subst k. right. left. exists [[VUnit; VStr (b "x")]]. split; [reflexivity|]. left. vm_compute. eexists; reflexivity. }
    destruct (bytes_eqb (b "c") k) eqn:E3.
    { apply bytes_eqb_eq in E3. subst k. right. right. left. exists (mapsS [[(b "z", VBool true)]]). split; [reflexivity|]. split; [intros _; reflexivity|]. split; [unfold mapsS; cbn [map snd]; repeat constructor; cbn; intuition discriminate|].
      intros k'. destruct (bytes_eqb (b "z") k') eqn:F1; [apply bytes_eqb_eq in F1; subst k'; left; vm_compute; eexists; reflexivity|].
      left. exists []. unfold vals, structs, mapsS. cbn [map snd flat_map flookup]. rewrite F1. reflexivity. }
    left. exists []. unfold vals, structs, mapsS. cbn [map snd flat_map flookup]. rewrite E1, E2, E3. reflexivity.
  - do 2 eexists. split; [vm_compute; reflexivity|]. split; [vm_compute; reflexivity|]. split; reflexivity.
Qed.

(* the projection theorems for the remaining shapes: the tracer of a child position is the result of tracing that child's values alone,
   in the order of the samples *)
Theorem C07_map_projection : forall o d kvss n0 t, o_map_as_struct o = false -> kvss <> [] ->
  trace_seq' o d (map VMap kvss) (Ok (TUnknown n0)) = Ok t ->
  exists kt vt, t = TMap n0 kt vt /\ trace_seq' o (S d) (mkeys kvss) (Ok (TUnknown false)) = Ok kt /\
                trace_seq' o (S d) (mvals kvss) (Ok (TUnknown false)) = Ok vt.
Proof. exact maps_projection. Qed.

(* tuples (of any lengths): position i is the trace of the i-th elements alone, marked nullable iff some tuple is too short to have one *)
Theorem C07_tuple_projection : forall o d ls n0 t, ls <> [] ->
  trace_seq' o d (map VTuple ls) (Ok (TUnknown n0)) = Ok t ->
  exists F, t = TTuple n0 F /\ length F = maxlen ls /\
            forall i, exists T, trace_seq' o (S d) (col i ls) (Ok (TUnknown false)) = Ok T /\ nth_tracer F i = mk (tflag i ls) T.
Proof. exact tuple_projection. Qed.

(* variants: slot i is empty iff no sample has variant i; otherwise it carries the (common) name of the samples with variant i and the
   tracer of their payloads *)
Theorem C07_union_projection : forall o d cs n0 t, cs <> [] -> Forall (fun c => vpl c <> None) cs ->
  trace_seq' o d cs (Ok (TUnknown n0)) = Ok t -> exists V, t = TUnion n0 V /\ UInv o d (pls cs) V.
Proof. exact union_projection. Qed.

(* non-vacuity on derived-type data: an enum with a newtype, a struct (holding a tuple) and a unit variant, and an Option around it *)
Definition c07_e1 : Value := VStructVariant 1 (b "B") [(b "x", VTuple [VBool true; VStr (b "s")])].
Definition c07_e2 : Value := VNewtypeVariant 0 (b "A") (VInt I32 1).
Definition c07_e3 : Value := VSome (VUnitVariant 2 (b "C")).
Example C07_enum_example :
  Hom default_opts 3 [c07_e1; c07_e2; c07_e3; VNone] /\
  (exists t t', trace_seq' default_opts 0 [c07_e1; c07_e2; c07_e3; VNone] (Ok (TUnknown false)) = Ok t /\
                trace_seq' default_opts 0 [VNone; c07_e3; c07_e2; c07_e1] (Ok (TUnknown false)) = Ok t').
Proof.
  split.
  - do 5 right. split; [repeat constructor; discriminate|].
    replace (pls (cores [c07_e1; c07_e2; c07_e3; VNone]))
      with [(1%Z, b "B", VStruct [(b "x", VTuple [VBool true; VStr (b "s")])]); (0%Z, b "A", VInt I32 1); (2%Z, b "C", VUnit)] by reflexivity.
    intros i. destruct i as [|[|[|i]]].
    + left. vm_compute. eexists; reflexivity.
    + right. right. left. exists (structs [[(b "x", VTuple [VBool true; VStr (b "s")])]]). split; [reflexivity|]. split; [discriminate|]. split; [unfold structs; cbn [map snd]; repeat constructor; cbn; intuition discriminate|].
      intros k. destruct (bytes_eqb (b "x") k) eqn:E1.
      * apply bytes_eqb_eq in E1. subst k. do 4 right. left. exists [(false, [VBool true; VStr (b "s")])]. split; [reflexivity|].
        intros j. destruct j as [|[|[|j]]]; left; vm_compute; eexists; reflexivity.
      * left. exists []. unfold vals, structs, mapsS. cbn [map snd flat_map flookup]. rewrite E1. reflexivity.
    + left. vm_compute. eexists; reflexivity.
    + left. exists []. unfold wsel. cbn [flat_map]. repeat (match goal with |- context [Z.eqb ?a ?c] => destruct (Z.eqb_spec a c); [lia|] end). reflexivity.
  - do 2 eexists. split; vm_compute; reflexivity.
Qed.

(* ... and on maps traced as maps *)
Definition c07_mopts : Opts := {| o_allow_null := true; o_map_as_struct := false; o_large_list := true; o_large_utf8 := true; o_dict := false;
                                  o_coerce := false; o_to_string := false; o_guess_dates := false; o_enums_str := false |}.
Example C07_map_example :
  Hom c07_mopts 1 [VMap [(VStr (b "k"), VInt I32 1)]; VMap []; VMap [(VStr (b "j"), VNone)]] /\
  (exists t t', trace_seq' c07_mopts 0 [VMap [(VStr (b "k"), VInt I32 1)]; VMap []; VMap [(VStr (b "j"), VNone)]] (Ok (TUnknown false)) = Ok t /\
                trace_seq' c07_mopts 0 [VMap [(VStr (b "j"), VNone)]; VMap []; VMap [(VStr (b "k"), VInt I32 1)]] (Ok (TUnknown false)) = Ok t').
Proof.
  split.
  - do 3 right. left. split; [reflexivity|]. exists [[(VStr (b "k"), VInt I32 1)]; []; [(VStr (b "j"), VNone)]]. split; [reflexivity|].
    split; left; vm_compute; eexists; reflexivity.
  - do 2 eexists. split; vm_compute; reflexivity.
Qed.

(* "repeating samples changes nothing", for nested data: tracing a collection of the class Hom twice over succeeds whenever tracing it
   once does, and gives the same tracer up to the order of record fields and counters (the converse direction of the projection
   theorems: a record / sequence position traces successfully as soon as each of its children does) *)
Theorem C07_nested_repeat : forall o n d vs t, Hom o n vs -> trace_seq' o d vs (Ok (TUnknown false)) = Ok t ->
  exists t2, trace_seq' o d (vs ++ vs) (Ok (TUnknown false)) = Ok t2 /\ teq t t2.
Proof. exact nested_repeat. Qed.

(* "unless primitives are allowed to coerce to strings, success itself is independent of the order of the whole collection", for
   nested data: whenever a collection of the class Hom traces, every permutation of it traces (projection: the children of a position
   that traces, trace; induction on the children; converse: a position traces as soon as its children do, the variant names agree
   and the depth limit is respected - all of which are order-free) *)
Theorem C07_nested_success_order_free : forall o, o_to_string o = false -> forall n d vs vs' t,
  Hom o n vs -> Permutation vs vs' -> trace_seq' o d vs (Ok (TUnknown false)) = Ok t ->
  exists t', trace_seq' o d vs' (Ok (TUnknown false)) = Ok t'.
Proof. exact nested_success_order_free. Qed.

(* ... and at the level of schemas: from_samples on nested data (the class Hom) gives, for the same samples in any two orders that both
   succeed, the same schema up to the order of struct fields at every level (sdeq: the same field names, and for every name fields
   that agree in name, nullability, strategy and - recursively - data type).  This is C07_full restricted to the class Hom. *)
Theorem C07_from_samples_order_independent_nested : forall o n vs vs' fs1 fs2,
  Hom o n vs -> Permutation vs vs' ->
  from_samples o [] vs = Ok fs1 -> from_samples o [] vs' = Ok fs2 -> sdeq (SStruct fs1) (SStruct fs2).
Proof. exact from_samples_order_independent. Qed.

(* ---- translator tie for the shape transitions ----
   The arms of `match self` in ensure_struct / ensure_tuple / ensure_union / ensure_list / ensure_map are regenerated from /repo's
   tracer.rs on every run (Gen/TracerTables.v: pattern and action of every arm, depth limit first) and compared with the table the
   model was written against; the model's ensure_* are that table, read as equations.  C07_success_puts_in_class rests on exactly this
   bookkeeping (a position is upgraded only from Unknown / a null-only primitive, keeps its kind, refuses every other kind). *)
Theorem C07_shape_transitions_match_source :
  ensure_arms_ok = true /\
  (forall d t, ensure_list d t = if Nat.leb max_depth d then Err else if upgradable t then Ok (TList (t_nullable t) (TUnknown false)) else match t with TList _ _ => Ok t | _ => Err end) /\
  (forall d t, ensure_map d t = if Nat.leb max_depth d then Err else if upgradable t then Ok (TMap (t_nullable t) (TUnknown false) (TUnknown false)) else match t with TMap _ _ _ => Ok t | _ => Err end) /\
  (forall d m t, ensure_struct d m t = if Nat.leb max_depth d then Err else if upgradable t then Ok (TStruct (t_nullable t) m 0 []) else match t with TStruct n m0 s fs => Ok (TStruct n (m0 || m) s fs) | _ => Err end) /\
  (forall d k t, ensure_tuple d k t = if Nat.leb max_depth d then Err else if upgradable t then Ok (TTuple (t_nullable t) (repeat (TUnknown false) k)) else match t with TTuple nl fs => Ok (TTuple nl (arity_adjust fs k)) | _ => Err end) /\
  (forall d t, ensure_union d t = if Nat.leb max_depth d then Err else if upgradable t then Ok (TUnion (t_nullable t) []) else match t with TUnion _ _ => Ok t | _ => Err end).
Proof.
  split; [vm_compute; reflexivity|]. split; [exact ensure_list_reads|]. split; [exact ensure_map_reads|]. split; [exact ensure_struct_reads|]. split; [exact ensure_tuple_reads|exact ensure_union_reads].
Qed.

(* ---- C07 at full strength on the tracer model ----
   Every collection that traces is in the class Hom: the tracer refuses a position at which two samples have different shapes (other
   than the mixtures inside the class, and nulls anywhere).  `bound o n v` says that v nests at most n deep and that no record inside v
   mentions a key twice (serde structs cannot; a map presented with a repeated key can, and the projection theorem does not cover it). *)
Theorem C07_success_puts_in_class : forall o n d vs t,
  Forall (bound o n) vs -> trace_seq' o d vs (Ok (TUnknown false)) = Ok t -> Hom o n vs.
Proof. exact success_hom. Qed.

(* hence, for ALL collections of samples (every shape, every nesting, every mixture), with no hypothesis but the absence of repeated keys
   inside a record: the same samples in any order give the same tracer whenever both orders trace ... *)
Theorem C07_full_order : forall o d vs vs' t t', Forall (ndk o) vs -> Permutation vs vs' ->
  trace_seq' o d vs (Ok (TUnknown false)) = Ok t -> trace_seq' o d vs' (Ok (TUnknown false)) = Ok t' -> teq t t'.
Proof. exact order_independent_total. Qed.

(* ... and the same schema from from_samples, up to the order of struct fields at every level ... *)
Theorem C07_full_schema : forall o vs vs' fs1 fs2, Forall (ndk o) vs -> Permutation vs vs' ->
  from_samples o [] vs = Ok fs1 -> from_samples o [] vs' = Ok fs2 -> sdeq (SStruct fs1) (SStruct fs2).
Proof. exact from_samples_total. Qed.

(* ... repeating the samples changes neither success nor result ... *)
Theorem C07_full_repeat : forall o d vs t, Forall (ndk o) vs -> trace_seq' o d vs (Ok (TUnknown false)) = Ok t ->
  exists t2, trace_seq' o d (vs ++ vs) (Ok (TUnknown false)) = Ok t2 /\ teq t t2.
Proof. exact repeat_total. Qed.

(* ... and unless primitives may coerce to strings, success itself is independent of the order of the whole collection *)
Theorem C07_full_success : forall o, o_to_string o = false -> forall d vs vs' t, Forall (ndk o) vs -> Permutation vs vs' ->
  trace_seq' o d vs (Ok (TUnknown false)) = Ok t -> exists t', trace_seq' o d vs' (Ok (TUnknown false)) = Ok t'.
Proof. exact success_order_free_total. Qed.

(* non-vacuity: the samples of the examples above satisfy the hypothesis *)
Example C07_full_example :
  Forall (ndk default_opts) [c07_s1; c07_s2; c07_s3] /\ Forall (ndk default_opts) [c07_e1; c07_e2; c07_e3; VNone] /\
  Forall (ndk default_opts) [c07_j1; c07_j2; VUnit].
Proof. repeat split; repeat constructor; cbn; intuition discriminate. Qed.

Definition c07_s3' : Value := VStruct [(b "tags", VSeq []); (b "id", VInt I32 3); (b "items", VSeq [])].
Example C07_nested_schema_example :
  exists fs1 fs2, from_samples default_opts [] [c07_s1; c07_s2; c07_s3'] = Ok fs1 /\ from_samples default_opts [] [c07_s3'; c07_s1; c07_s2] = Ok fs2 /\
                  map sf_name fs1 = [b "id"; b "tags"; b "pos"; b "items"] /\ map sf_name fs2 = [b "tags"; b "id"; b "items"; b "pos"].
Proof. do 2 eexists. vm_compute. repeat split; reflexivity. Qed.

Print Assumptions C07_shape_transitions_match_source.
Print Assumptions C07_success_puts_in_class.
Print Assumptions C07_full_order.
Print Assumptions C07_full_schema.
Print Assumptions C07_full_repeat.
Print Assumptions C07_full_success.
Print Assumptions C07_nested_success_order_free.
Print Assumptions C07_map_projection.
Print Assumptions C07_tuple_projection.
Print Assumptions C07_union_projection.
Print Assumptions C07_leaf_perm_partial.
Print Assumptions C07_leaf_success_order_free_partial.
Print Assumptions C07_coerce_arms_match_model.
Print Assumptions C07_null_commutes_with_any_sample.
Print Assumptions C07_fields_in_first_seen_order.
Print Assumptions C07_record_projection.
Print Assumptions C07_tables_order_independent.
Print Assumptions C07_nested_order_independent.
Print Assumptions C07_from_samples_order_independent_nested.
Print Assumptions C07_nested_repeat.
