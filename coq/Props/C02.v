(* C02 - Deserializing any valid Arrow array yields exactly its logical content.
   Specification: decode (Arrow/Arr.v: the logical content by the rules of the format, compositional
   on whole arrays) and present (De/Present.v: what a self-describing read shows for a logical value
   of a field).  Implementation model: read (De/Reader.v: index arithmetic per accessor). *)
From Verif Require Import Reader Reader_proofs.

(* Full-strength statement (kept visible): evaluated on every case of the check as the
   specification oracle RunC02.oracle (all data types); proved below for the leaf kinds. *)
Definition C02_full : Prop :=
  forall f a lvs i lv, wf_arr false f a = true -> construct a = true ->
    decode a = Some lvs -> nth_error lvs i = Some lv ->
    read a i = of_option (present f lv).

(* nulls exactly where the validity bitmap says so, whatever the bit offset and whatever is stored
   below a null slot *)
Theorem C02_validity : forall v vals out i x,
  apply_validity v vals = Some out -> nth_error vals i = Some x ->
  exists b0, valid_at v i = Ok b0 /\ nth_error out i = Some (if b0 then x else LNull).
Proof. exact apply_validity_nth. Qed.

Theorem C02_null_partial : forall n nm nl lvs i lv,
  decode (ANull n) = Some lvs -> nth_error lvs i = Some lv ->
  read (ANull n) i = of_option (present (mkField nm DNull nl) lv).
Proof. exact read_decode_null. Qed.

Theorem C02_bool_partial : forall n v vals nm nl lvs i lv,
  decode (ABool n v vals) = Some lvs -> nth_error lvs i = Some lv ->
  read (ABool n v vals) i = of_option (present (mkField nm DBool nl) lv).
Proof. exact read_decode_bool. Qed.

(* all primitive kinds: integers, floats (bit patterns), dates, times, timestamps, durations,
   decimals (presented as the formatted text) *)
Theorem C02_prim_partial : forall k v vals nm nl lvs i lv,
  decode (APrim k v vals) = Some lvs -> nth_error lvs i = Some lv ->
  read (APrim k v vals) i = of_option (present (mkField nm (DPrim k) nl) lv).
Proof. exact read_decode_prim. Qed.

(* strings and binary: slot i is data[offs[i] .. offs[i+1]] - non-zero first offsets and
   unreferenced parts of the data buffer do not matter *)
Theorem C02_bytes_partial : forall k v offs data nm nl lvs i lv,
  decode (ABytes k v offs data) = Some lvs -> nth_error lvs i = Some lv ->
  (is_utf8_kind k = true -> forall x, lv = LBytes x -> utf8_valid x = true) ->
  read (ABytes k v offs data) i = of_option (present (mkField nm (DBytes k) nl) lv).
Proof. exact read_decode_bytes. Qed.

(* layout irrelevance for these kinds: two arrays with the same logical content read the same *)
Corollary C02_layout_irrelevant_prim : forall k v vals v' vals' lvs i lv,
  decode (APrim k v vals) = Some lvs -> decode (APrim k v' vals') = Some lvs -> nth_error lvs i = Some lv ->
  read (APrim k v vals) i = read (APrim k v' vals') i.
Proof.
  intros k v vals v' vals' lvs i lv H1 H2 Hx.
  rewrite (read_decode_prim k v vals [] true lvs i lv H1 Hx), (read_decode_prim k v' vals' [] true lvs i lv H2 Hx). reflexivity.
Qed.

(* reads never go beyond the length, and the clamped child loops of the model are the loops of the code *)
Theorem C02_read_oob : forall a idx, arr_len a <= idx -> read a idx = Err.
Proof. exact read_oob. Qed.

Theorem C02_child_range_faithful : forall e s t, (0 <= s)%Z -> range_z (read e) (arr_len e) s t = naive_range (read e) s t.
Proof. exact read_child_range. Qed.

(* non-vacuity: garbage under a null, bit offset 5, first offset 2 *)
Example C02_example :
  let a := ABytes BUtf8 (Some {| bm_off := 5; bm_data := [160; 1]%N |}) [2; 4; 4; 5; 7]%Z (b "xxhi!ZZz") in
  decode a = Some [LBytes (b "hi"); LNull; LBytes (b "!"); LBytes (b "ZZ")] /\
  map (read a) [0; 1; 2; 3] = [Ok (RStr (b "hi")); Ok RNone; Ok (RStr (b "!")); Ok (RStr (b "ZZ"))].
Proof. vm_compute. split; reflexivity. Qed.

Print Assumptions C02_prim_partial.
Print Assumptions C02_bytes_partial.
