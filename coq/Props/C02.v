From Verif Require Import Present.
