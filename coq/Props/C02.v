(* C02 - Deserializing any valid Arrow array yields exactly its logical content.
   Specification: decode (Arrow/Arr.v: the logical content by the rules of the format, compositional
   on whole arrays) and present (De/Present.v: what a self-describing read shows for a logical value
   of a field).  Implementation model: read (De/Reader.v: index arithmetic per accessor). *)
From Verif Require Import Reader Reader_proofs Decode_proofs SerializerTables SerTablesSpec.

(* Full-strength statement (kept visible): evaluated on every case of the check as the
   specification oracle RunC02.oracle (all data types); proved below (C02_full_proved) for every
   data type and any nesting depth, under one side condition: the value offsets of a dictionary
   have fewer than 2^63 entries (addressable; the reader converts keys through i64). *)
Definition C02_full : Prop :=
  forall f a lvs i lv, wf_arr false f a = true -> construct a = true ->
    decode a = Some lvs -> nth_error lvs i = Some lv ->
    read a i = of_option (present f lv).

Theorem C02_full_proved : forall f a lvs i lv,
  wf_arr false f a = true -> construct a = true -> addressable a = true ->
  decode a = Some lvs -> nth_error lvs i = Some lv ->
  read a i = of_option (present f lv).
Proof. intros f a lvs i lv Hwf Hc Ha. exact (read_decode_full a f Hwf Hc Ha lvs i lv). Qed.

(* layout irrelevance, all data types: two well-formed views of one field with the same logical
   content (different validity bit offsets, first offsets, unreferenced buffer parts, child
   lengths, garbage under nulls) read the same at every row *)
Corollary C02_layout_irrelevant : forall f a a' lvs i lv,
  wf_arr false f a = true -> construct a = true -> addressable a = true ->
  wf_arr false f a' = true -> construct a' = true -> addressable a' = true ->
  decode a = Some lvs -> decode a' = Some lvs -> nth_error lvs i = Some lv ->
  read a i = read a' i.
Proof.
  intros f a a' lvs i lv W C A W' C' A' D D' Hx.
  rewrite (read_decode_full a f W C A lvs i lv D Hx), (read_decode_full a' f W' C' A' lvs i lv D' Hx). reflexivity.
Qed.

(* the number of rows of the logical content is the length of the view *)
Theorem C02_length : forall a lvs, decode a = Some lvs -> length lvs = arr_len a.
Proof. exact decode_length. Qed.

(* the container steps, each usable on its own (children need only read correctly) *)
Theorem C02_list_step : forall k k' v offs m elems cf nm nl,
  reads_ok cf elems -> reads_ok (mkField nm (DList k' cf) nl) (AList k v offs m elems).
Proof. exact read_decode_list. Qed.
Theorem C02_struct_step : forall len v fields fs nm nl,
  Forall2 (fun sf (mc : Meta * Arr) => fname' sf = m_name (fst mc) /\ reads_ok sf (snd mc)) fs fields ->
  reads_ok (mkField nm (DStruct fs) nl) (AStruct len v fields).
Proof. exact read_decode_struct. Qed.
Theorem C02_union_step : forall types offs fields ufs nm nl,
  Forall2 UR ufs fields -> consecutive 0 fields = true ->
  reads_ok (mkField nm (DUnion ufs) nl) (AUnion types offs fields).
Proof. exact read_decode_union. Qed.

(* tie to the source by translation (regenerated from /repo on every run): every kind of view is
   routed to the reader type the model assumes - 33 kinds and the 16 dictionary key / value
   combinations (8 integer key types x Utf8 / LargeUtf8), which is exactly what `construct` accepts *)
Theorem C02_reader_dispatch_table : reader_dispatch_ok = true.
Proof. vm_compute. reflexivity. Qed.

(* nulls exactly where the validity bitmap says so, whatever the bit offset and whatever is stored
   below a null slot *)
Theorem C02_validity : forall v vals out i x,
  apply_validity v vals = Some out -> nth_error vals i = Some x ->
  exists b0, valid_at v i = Ok b0 /\ nth_error out i = Some (if b0 then x else LNull).
Proof. exact apply_validity_nth. Qed.

Theorem C02_null_partial : forall n nm nl lvs i lv,
  decode (ANull n) = Some lvs -> nth_error lvs i = Some lv ->
  read (ANull n) i = of_option (present (mkField nm DNull nl) lv).
Proof. exact read_decode_null. Qed.

Theorem C02_bool_partial : forall n v vals nm nl lvs i lv,
  decode (ABool n v vals) = Some lvs -> nth_error lvs i = Some lv ->
  read (ABool n v vals) i = of_option (present (mkField nm DBool nl) lv).
Proof. exact read_decode_bool. Qed.

(* all primitive kinds: integers, floats (bit patterns), dates, times, timestamps, durations,
   decimals (presented as the formatted text) *)
Theorem C02_prim_partial : forall k v vals nm nl lvs i lv,
  decode (APrim k v vals) = Some lvs -> nth_error lvs i = Some lv ->
  read (APrim k v vals) i = of_option (present (mkField nm (DPrim k) nl) lv).
Proof. exact read_decode_prim. Qed.

(* strings and binary: slot i is data[offs[i] .. offs[i+1]] - non-zero first offsets and
   unreferenced parts of the data buffer do not matter *)
Theorem C02_bytes_partial : forall k v offs data nm nl lvs i lv,
  decode (ABytes k v offs data) = Some lvs -> nth_error lvs i = Some lv ->
  (is_utf8_kind k = true -> forall x, lv = LBytes x -> utf8_valid x = true) ->
  read (ABytes k v offs data) i = of_option (present (mkField nm (DBytes k) nl) lv).
Proof. exact read_decode_bytes. Qed.

(* layout irrelevance for these kinds: two arrays with the same logical content read the same *)
Corollary C02_layout_irrelevant_prim : forall k v vals v' vals' lvs i lv,
  decode (APrim k v vals) = Some lvs -> decode (APrim k v' vals') = Some lvs -> nth_error lvs i = Some lv ->
  read (APrim k v vals) i = read (APrim k v' vals') i.
Proof.
  intros k v vals v' vals' lvs i lv H1 H2 Hx.
  rewrite (read_decode_prim k v vals [] true lvs i lv H1 Hx), (read_decode_prim k v' vals' [] true lvs i lv H2 Hx). reflexivity.
Qed.

(* reads never go beyond the length, and the clamped child loops of the model are the loops of the code *)
Theorem C02_read_oob : forall a idx, arr_len a <= idx -> read a idx = Err.
Proof. exact read_oob. Qed.

Theorem C02_child_range_faithful : forall e s t, (0 <= s)%Z -> range_z (read e) (arr_len e) s t = naive_range (read e) s t.
Proof. exact read_child_range. Qed.

(* non-vacuity: garbage under a null, bit offset 5, first offset 2 *)
Example C02_example :
  let a := ABytes BUtf8 (Some {| bm_off := 5; bm_data := [160; 1]%N |}) [2; 4; 4; 5; 7]%Z (b "xxhi!ZZz") in
  decode a = Some [LBytes (b "hi"); LNull; LBytes (b "!"); LBytes (b "ZZ")] /\
  map (read a) [0; 1; 2; 3] = [Ok (RStr (b "hi")); Ok RNone; Ok (RStr (b "!")); Ok (RStr (b "ZZ"))].
Proof. vm_compute. split; reflexivity. Qed.

(* non-vacuity of the full theorem: a nullable list of structs holding a dictionary column and a
   dense union, child arrays longer than needed, first offset 1, validity at bit offset 3 *)
Example C02_full_example :
  let keys := APrim (PInt I8) None [1; 0; 1; 1]%Z in
  let dict := ADict keys (ABytes BUtf8 None [0; 1; 3]%Z (b "xyz")) in
  let un := AUnion [0; 1; 1; 0]%Z [0; 0; 1; 1]%Z
                   [(0%Z, {| m_name := b "N"; m_nullable := true |}, ANull 2);
                    (1%Z, {| m_name := b "I"; m_nullable := false |}, APrim (PInt I16) None [7; 8; 9]%Z)] in
  let st := AStruct 4 None [({| m_name := b "d"; m_nullable := false |}, dict); ({| m_name := b "u"; m_nullable := false |}, un)] in
  let a := AList KList (Some {| bm_off := 3; bm_data := [40]%N |}) [1; 3; 3; 4]%Z {| m_name := b "element"; m_nullable := false |} st in
  let f := mkField (b "c") (DList KList (mkField (b "element")
             (DStruct [mkField (b "d") (DDict I8 BUtf8) false;
                       mkField (b "u") (DUnion [(0%Z, mkField (b "N") DNull true); (1%Z, mkField (b "I") (DPrim (PInt I16)) false)]) false]) false)) true in
  wf_arr false f a = true /\ construct a = true /\ addressable a = true /\
  map (read a) [0; 1; 2] =
    [Ok (RSeq [RMap [(RStr (b "d"), RStr (b "x")); (RStr (b "u"), REnum (RStr (b "I")) (RInt 7))];
               RMap [(RStr (b "d"), RStr (b "yz")); (RStr (b "u"), REnum (RStr (b "I")) (RInt 8))]]);
     Ok RNone;
     Ok (RSeq [RMap [(RStr (b "d"), RStr (b "yz")); (RStr (b "u"), REnum (RStr (b "N")) RUnit)]])].
Proof. vm_compute. repeat split; reflexivity. Qed.

Print Assumptions C02_full_proved.
Print Assumptions C02_layout_irrelevant.
Print Assumptions C02_prim_partial.
Print Assumptions C02_bytes_partial.
