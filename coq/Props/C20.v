(* C20 - Extension-type field helpers emit valid canonical-extension fields. *)
From Verif Require Import Tensor Tensor_proofs Json_proofs.

(* a permutation is accepted exactly when it is a rearrangement of 0..ndim *)
Theorem C20_perm_iff : forall ndim p,
  check_permutation ndim p = Ok tt <-> Permutation p (seq 0 ndim).
Proof. exact check_permutation_iff. Qed.

Theorem C20_dim_names_iff : forall ndim ns, check_dim_names ndim ns = Ok tt <-> length ns = ndim.
Proof.
  intros ndim ns. unfold check_dim_names. destruct (Nat.eqb_spec (length ns) ndim); split; intros H; congruence.
Qed.

Theorem C20_uniform_shape_iff : forall ndim u, check_uniform_shape ndim u = Ok tt <-> length u = ndim.
Proof.
  intros ndim u. unfold check_uniform_shape. destruct (Nat.eqb_spec (length u) ndim); split; intros H; congruence.
Qed.

(* the metadata text is valid JSON stating exactly the configuration *)
Theorem C20_fixed_metadata_json : forall c, json_parse (fixed_metadata c) = Some (fixed_expected c).
Proof. exact fixed_metadata_json. Qed.

Theorem C20_var_metadata_json : forall c, json_parse (var_metadata c) = Some (var_expected c).
Proof. exact var_metadata_json. Qed.

(* the JSON reader inverts the compact printer on every value (the general fact behind both) *)
Theorem C20_json_roundtrip : forall v, json_parse (print v) = Some v.
Proof. exact json_parse_print. Qed.

(* storage: the fixed-size list holds the product of the shape, within i32 *)
Theorem C20_fixed_size : forall c n,
  fixed_list_size c = Ok n -> n = fold_left N.mul (f_shape c) 1%N /\ (n <= i32_max)%N.
Proof. exact fixed_list_size_spec. Qed.

(* the element-count product and the validators never panic *)
Theorem C20_fixed_no_panic : forall shape perm names k, fixed_field shape perm names <> Panic k.
Proof. exact fixed_field_total. Qed.

Theorem C20_var_no_panic : forall ndim perm names uni k, var_field ndim perm names uni <> Panic k.
Proof. exact var_field_total. Qed.

(* non-vacuity: a configuration using every optional setting, with a name that needs escaping *)
Example C20_example_fixed :
  fixed_field [2; 3]%N (Some [1; 0]%nat) (Some [b "x""y"; [1; 92]%N])
  = Ok (6%N, b "{""shape"":[2,3],""permutation"":[1,0],""dim_names"":[""x\""y"",""\u0001\\""]}").
Proof. vm_compute. reflexivity. Qed.

Example C20_example_var :
  var_field 2 (Some [1; 0]%nat) None (Some [Some 4%N; None])
  = Ok (2%N, b "{""permutation"":[1,0],""uniform_shape"":[4,null]}").
Proof. vm_compute. reflexivity. Qed.

Example C20_example_reject : check_permutation 3 [0; 0; 1]%nat = Err /\ check_permutation 2 [0; 2]%nat = Err.
Proof. split; reflexivity. Qed.

Print Assumptions C20_perm_iff.
Print Assumptions C20_fixed_metadata_json.
Print Assumptions C20_var_metadata_json.
Print Assumptions C20_json_roundtrip.
