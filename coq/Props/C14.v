(* C14 - Date, time, timestamp and duration conversions are exact. *)
From Verif Require Import Calendar Calendar_proofs Temporal_proofs Span_proofs UnitTables UnitSpec.
Local Open Scope Z_scope.

(* calendar: day numbers and valid civil dates are in bijection, over all of Z
   (one 400-year era checked exhaustively by vm_compute, lifted by the era-shift lemmas) *)
Theorem C14_days_civil_days : forall z,
  let '(y, m, d) := civil_from_days z in valid_date y m d = true /\ days_from_civil y m d = z.
Proof. exact days_civil_days. Qed.

Theorem C14_civil_days_civil : forall y m d, valid_date y m d = true ->
  civil_from_days (days_from_civil y m d) = (y, m, d).
Proof. exact civil_days_civil. Qed.

(* durations: the stored integer is exactly trunc(span * unit), sign applied afterwards; interval
   style spans (years, months) are refused; the result is within the 64-bit range *)
Theorem C14_duration_exact : forall u t v, parse_duration u t = Ok v ->
  exists sp m, parse_span t = Some sp /\ dv (sp_year sp) = 0 /\ dv (sp_month sp) = 0 /\
    span_magnitude sp u = Some m /\ v = (if sp_neg sp then - m else m) /\ (i64_min <= v <= i64_max).
Proof. exact parse_duration_exact. Qed.

(* times of day: what is stored splits back into the same second of day and the sub-second part
   truncated to the unit *)
Theorem C14_time_exact : forall u h mi s nanos,
  0 <= h -> 0 <= mi -> 0 <= s -> 0 <= nanos < 1000000000 ->
  let v := time_value u h mi s nanos in
  Z.quot v (per_second u) = h * 3600 + mi * 60 + s /\
  Z.rem v (per_second u) * sub_factor u = nanos / sub_factor u * sub_factor u.
Proof. exact time_value_split. Qed.

(* instants: the stored timestamp splits back into the same civil date and time of day, finer
   digits dropped by floor, before and after the epoch and for negative years *)
Theorem C14_timestamp_exact : forall u y m d h mi s nanos,
  valid_date y m d = true -> 0 <= h < 24 -> 0 <= mi < 60 -> 0 <= s < 60 -> 0 <= nanos < 1000000000 ->
  let v := timestamp_value u y m d h mi s nanos in
  let total := v * sub_factor u in
  civil_from_days (total / 1000000000 / 86400) = (y, m, d) /\
  total / 1000000000 mod 86400 = h * 3600 + mi * 60 + s /\
  total mod 1000000000 = nanos / sub_factor u * sub_factor u.
Proof. exact timestamp_value_split. Qed.

(* the unit factors are the source's: every `match unit { TimeUnit::X => .. }` of the duration parser / printer, the time
   builder and reader and the timestamp builder and reader is regenerated from /repo on every run (integer literals of each
   arm in source order, zero-padding widths, chrono calls) and equals what the model's per_second / sub_factor dictate *)
Theorem C14_unit_factors_match_source :
  unit_tables_ok = true /\ forall u, (per_second u * sub_factor u = 1000000000)%Z /\ (per_second u = 10 ^ digits_of u)%Z.
Proof. split; [exact unit_tables_match|exact factors]. Qed.

(* non-vacuity *)
Example C14_examples :
  days_from_civil 1970 1 1 = 0 /\ days_from_civil 2000 2 29 = 11016 /\ days_from_civil (-1) 12 31 = -719529 /\
  civil_from_days (-719529) = (-1, 12, 31) /\
  parse_duration Millisecond (b "-P1DT2H3M4.5678S") = Ok (-93784567) /\
  parse_duration Second (b "-PT9223372036854775808S") = Ok i64_min /\
  parse_duration Millisecond (b "PT9223372036854775.808S") = Err /\
  timestamp_value Millisecond 1969 12 31 23 59 59 999500000 = -1 /\
  format_timestamp Millisecond true (-1) = Ok (b "1969-12-31T23:59:59.999Z") /\
  format_date 1 (-719529) = Ok (b "-000001-12-31") /\
  format_duration Nanosecond i64_min = b "-PT9223372036.854775808s".
Proof. vm_compute. repeat split; reflexivity. Qed.

Print Assumptions C14_days_civil_days.
Print Assumptions C14_civil_days_civil.
Print Assumptions C14_duration_exact.
Print Assumptions C14_timestamp_exact.
Print Assumptions C14_unit_factors_match_source.
