(* C03 - Every produced array is a well-formed Arrow array of the declared field. *)
From Verif Require Import Builder Builder_proofs Bits_proofs.

(* Full-strength statement, evaluated on every case as RunC01.oracle (wf_batch on the
   implementation's arrays, all data types): *)
Definition C03_full : Prop :=
  forall fields recs arrs, to_marrow fields recs = Some (Ok arrs) ->
    wf_batch true fields arrs (length recs) = true.

(* a freshly built builder is in the invariant and holds no rows *)
Theorem C03_build : forall f b, build f = Some b -> WfB b /\ rows b = 0.
Proof. exact build_wf. Qed.

(* the lock-step invariant is kept by every push, for every serde value in any presentation and
   every reachable builder state of the modelled core: validity bitmap, values, offsets, the row
   counter and (recursively) all children advance by exactly one row - also for null parents over
   non-nullable children, rows that omit optional fields, and records given as maps or tuples *)
Theorem C03_lock_step : forall v b b', WfB b -> push v b = Ok b' -> WfB b' /\ rows b' = S (rows b).
Proof. exact push_wf. Qed.

Theorem C03_null_row : forall b b', WfB b -> push_none b = Ok b' -> WfB b' /\ rows b' = S (rows b).
Proof. exact push_none_wf. Qed.

Theorem C03_placeholder_row : forall b, WfB b -> WfB (push_default b) /\ rows (push_default b) = S (rows b).
Proof. exact push_default_wf. Qed.

(* all columns have one length: the number of records *)
Theorem C03_one_length : forall fields recs arrs,
  to_marrow fields recs = Some (Ok arrs) -> Forall (fun a => arr_len a = length recs) arrs.
Proof. exact to_marrow_row_count. Qed.

(* a null for a field declared non-nullable is refused *)
Theorem C03_non_nullable_refuses_null : forall idx, set_validity None idx false = Err.
Proof. reflexivity. Qed.

Print Assumptions C03_lock_step.
Print Assumptions C03_one_length.
