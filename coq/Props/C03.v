(* C03 - Every produced array is a well-formed Arrow array of the declared field. *)
From Verif Require Import Builder Builder_proofs Bits_proofs Refine_proofs Wf_proofs.

(* Full-strength statement, evaluated on every case as RunC01.oracle (wf_batch on the
   implementation's arrays, all data types): *)
Definition C03_full : Prop :=
  forall fields recs arrs, to_marrow fields recs = Some (Ok arrs) ->
    wf_batch true fields arrs (length recs) = true.

(* C03_full for the modelled core (Boolean, 8 integer types, Utf8 / LargeUtf8, List / LargeList,
   Struct; nullable or not; any nesting; every presentation of the records), for schemas whose
   structs have unique field names and inputs whose text renders to valid UTF-8 (which Rust's str
   and char guarantee by type): validity bitmaps of the right length with no null in a
   non-nullable array, stored integers inside their type, offsets starting at 0, monotone, ending
   at the child length and inside their index type, valid UTF-8 in every slot of a string column,
   children of exactly the parent's length, child names / nullability as declared *)
Theorem C03_core_proved : forall fields recs arrs,
  names_ok (mkField [] (DStruct fields) false) -> Forall text_ok recs ->
  to_marrow fields recs = Some (Ok arrs) -> wf_batch true fields arrs (length recs) = true.
Proof. exact (to_marrow_wf true). Qed.

(* every reachable builder state emits a well-formed array of its field (strict and non-strict) *)
Theorem C03_state_wf : forall strict b f, shape f b -> WfB b -> Inv2 b -> wf_arr strict f (into_array b) = true.
Proof. exact wf_of_good. Qed.

Theorem C03_values_invariant : forall v, text_ok v -> forall b b', WfB b -> Inv2 b -> push v b = Ok b' -> Inv2 b'.
Proof. exact push_inv2. Qed.

(* text produced from integers is always valid (the hypothesis text_ok constrains strings, chars and variant names only) *)
Theorem C03_integer_text_valid : forall z, utf8_valid (print_Z z) = true.
Proof. exact print_Z_utf8. Qed.

(* a freshly built builder is in the invariant and holds no rows *)
Theorem C03_build : forall f b, build f = Some b -> WfB b /\ rows b = 0.
Proof. exact build_wf. Qed.

(* the lock-step invariant is kept by every push, for every serde value in any presentation and
   every reachable builder state of the modelled core: validity bitmap, values, offsets, the row
   counter and (recursively) all children advance by exactly one row - also for null parents over
   non-nullable children, rows that omit optional fields, and records given as maps or tuples *)
Theorem C03_lock_step : forall v b b', WfB b -> push v b = Ok b' -> WfB b' /\ rows b' = S (rows b).
Proof. exact push_wf. Qed.

Theorem C03_null_row : forall b b', WfB b -> push_none b = Ok b' -> WfB b' /\ rows b' = S (rows b).
Proof. exact push_none_wf. Qed.

Theorem C03_placeholder_row : forall b, WfB b -> WfB (push_default b) /\ rows (push_default b) = S (rows b).
Proof. exact push_default_wf. Qed.

(* all columns have one length: the number of records *)
Theorem C03_one_length : forall fields recs arrs,
  to_marrow fields recs = Some (Ok arrs) -> Forall (fun a => arr_len a = length recs) arrs.
Proof. exact to_marrow_row_count. Qed.

(* a null for a field declared non-nullable is refused *)
Theorem C03_non_nullable_refuses_null : forall idx, set_validity None idx false = Err.
Proof. reflexivity. Qed.

Print Assumptions C03_core_proved.
Print Assumptions C03_lock_step.
Print Assumptions C03_one_length.
