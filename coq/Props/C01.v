(* C01 - Serialized arrays decode to exactly the input records. *)
From Verif Require Import Builder Builder_proofs Bits_proofs Refine_proofs SerializerTables SerTablesSpec FloatOfInt FloatOfInt_proofs FloatRoutes_proofs.

(* Full-strength statement (kept visible). It is evaluated on every case of the check as the
   specification oracle RunC01.oracle (decode of the implementation's arrays = interp of the rows,
   all data types). It is proved below about the builder model (C01_core_proved: every schema of
   the modelled core - Boolean, the eight integer types, Utf8 / LargeUtf8, List / LargeList, Struct,
   nullable or not, any nesting - whose structs have unique field names, every record sequence in
   every presentation); the other data types are covered by the per-case oracle only. *)
Definition C01_full : Prop :=
  forall fields recs arrs lrows,
    to_marrow fields recs = Some (Ok arrs) ->
    iall (map (interp (mkField [] (DStruct fields) false)) recs) = Some (Some lrows) ->
    Forall2 (fun (i : nat) (a : Arr) =>
               decode a = Some (map (fun r => match r with
                                              | LStruct fs => match nth_error fs i with Some (_, v) => v | None => LNull end
                                              | _ => LNull end) lrows))
            (seq 0 (length arrs)) arrs.

(* ---- tie to the source by translation (regenerated from /repo on every run) ---- *)
(* the default methods of SimpleSerializer: Some / newtype struct are transparent, unit and unit
   struct are a none, everything else refuses - exactly the first three arms of the model's push *)
Theorem C01_serializer_defaults_table : defaults_ok = true.
Proof. vm_compute. reflexivity. Qed.

(* every data type is routed to the builder type the model assumes, and every builder type
   accepts exactly the serde methods recorded (a builder gaining or losing a method, or a type
   routed elsewhere, changes the generated table) *)
Theorem C01_builder_tables : builder_dispatch_ok = true /\ builder_methods_ok = true.
Proof. split; vm_compute; reflexivity. Qed.

(* the recorded method sets are what the model's leaf builders accept: for every scalar serde
   method, the table lists it for the builder type iff the model's push of a value of that kind
   succeeds (floats into string columns are outside the model: judged in C14/C15) *)
Definition scalar_methods : list (String.string * Value) :=
  [("serialize_bool", VBool true); ("serialize_i8", VInt I8 1); ("serialize_i16", VInt I16 1); ("serialize_i32", VInt I32 1); ("serialize_i64", VInt I64 1);
   ("serialize_u8", VInt U8 1); ("serialize_u16", VInt U16 1); ("serialize_u32", VInt U32 1); ("serialize_u64", VInt U64 1);
   ("serialize_char", VChar 97); ("serialize_str", VStr (b "s")); ("serialize_bytes", VBytes [1%N]);
   ("serialize_unit_variant", VUnitVariant 0 (b "V"))]%string.
Definition table_accepts (builder : String.string) (m : String.string) : bool :=
  match SerTablesSpec.lookup builder expected_builder_methods with Some ms => existsb (String.eqb m) ms | None => false end.
Definition model_agrees (builder : String.string) (bld : Builder) : bool :=
  forallb (fun mv : String.string * Value => Bool.eqb (table_accepts builder (fst mv)) (is_ok (push (snd mv) bld))) scalar_methods.
Theorem C01_method_tables_match_model :
  model_agrees "BoolBuilder"%string (BdBool None [] 0) = true /\
  model_agrees "IntBuilder"%string (BdPrim (PInt I64) None []) = true /\
  model_agrees "Utf8Builder"%string (BdUtf8 BUtf8 None [0%Z] []) = true.
Proof. repeat split; vm_compute; reflexivity. Qed.

(* the casts written in float_builder.rs / float_impls.rs are the ones the model takes: one direct cast per method (regenerated from
   the source on every run; a detour through the other width, or a changed expression, changes the table) *)
Theorem C01_float_casts_table : float_casts_ok = true.
Proof. vm_compute. reflexivity. Qed.

(* ... and the float builders accept exactly the scalar kinds the model accepts *)
Theorem C01_float_method_tables_match_model :
  model_agrees "FloatBuilder<f32>"%string (BdPrim PF32 None []) = true /\ model_agrees "FloatBuilder<f64>"%string (BdPrim PF64 None []) = true.
Proof. split; vm_compute; reflexivity. Qed.

(* one push: if the builder accepts the value, the value is in the documented mapping, and the
   logical content of the arrays grows by exactly the denoted value; no earlier row changes *)
Theorem C01_push_refines : forall v f b b' lvs,
  shape f b -> WfB b -> content b = Some lvs -> push v b = Ok b' ->
  exists lv, interp f v = IOk lv /\ content b' = Some (lvs ++ [lv]) /\ shape f b'.
Proof. exact push_sound. Qed.

(* whole conversions: every accepted record is in the documented mapping and column j decodes to
   exactly the j-th components of the denoted rows *)
Theorem C01_to_marrow_sound : forall fields recs arrs,
  names_ok (mkField [] (DStruct fields) false) -> to_marrow fields recs = Some (Ok arrs) ->
  exists rows, Forall2 (fun r lv => interp (mkField [] (DStruct fields) false) r = IOk lv) recs (map LStruct rows) /\
               forall j a, nth_error arrs j = Some a -> decode a = Some (column_of j rows).
Proof. exact to_marrow_sound. Qed.

Lemma iall_of_forall2 (f : Value -> IRes) : forall recs lvs, Forall2 (fun r lv => f r = IOk lv) recs lvs -> iall (map f recs) = Some (Some lvs).
Proof. intros recs lvs H. induction H as [|r lv recs' lvs' Hr _ IH]; [reflexivity|]. cbn [map iall]. rewrite Hr, IH. reflexivity. Qed.

Lemma forall2_seq {A} (P : nat -> A -> Prop) : forall (l : list A) s, (forall j a, nth_error l j = Some a -> P (s + j) a) -> Forall2 P (seq s (length l)) l.
Proof.
  induction l as [|a r IH]; intros s H; [constructor|]. cbn [length seq]. constructor.
  - rewrite <- (Nat.add_0_r s). apply (H 0 a). reflexivity.
  - apply IH. intros j a' Hj. replace (S s + j) with (s + S j) by lia. apply (H (S j) a'). exact Hj.
Qed.

(* C01_full for the modelled core *)
Theorem C01_core_proved : forall fields recs arrs lrows,
  names_ok (mkField [] (DStruct fields) false) ->
  to_marrow fields recs = Some (Ok arrs) ->
  iall (map (interp (mkField [] (DStruct fields) false)) recs) = Some (Some lrows) ->
  Forall2 (fun (i : nat) (a : Arr) =>
             decode a = Some (map (fun r => match r with
                                            | LStruct fs => match nth_error fs i with Some (_, v) => v | None => LNull end
                                            | _ => LNull end) lrows))
          (seq 0 (length arrs)) arrs.
Proof.
  intros fields recs arrs lrows Hn Hm Hi. destruct (to_marrow_sound fields recs arrs Hn Hm) as (rows & HF & Hcols).
  rewrite (iall_of_forall2 _ _ _ HF) in Hi. injection Hi as <-.
  apply forall2_seq. intros j a Hj. cbn [plus]. rewrite (Hcols j a Hj). unfold column_of. rewrite map_map. reflexivity.
Qed.

(* the same row count in every column, for every schema of the modelled core and every record
   sequence in any presentation *)
Theorem C01_row_count : forall fields recs arrs,
  to_marrow fields recs = Some (Ok arrs) -> Forall (fun a => arr_len a = length recs) arrs.
Proof. exact to_marrow_row_count. Qed.

(* validity bitmaps: what the incremental bit writer produces reads back as exactly the pushed bits *)
Theorem C01_bits_roundtrip : forall bits,
  bits_of {| bm_off := 0; bm_data := pack_bits bits |} (length bits) = Some bits.
Proof. exact bits_of_pack. Qed.

Theorem C01_bit_writer_refines_append : forall bits v,
  set_bit (pack_bits bits) (length bits) v = pack_bits (bits ++ [v]).
Proof. exact set_bit_pack. Qed.

(* integer columns (all eight widths, nullable or not): pushing a row appends exactly one logical
   value - the pushed integer, or null - and leaves every earlier row unchanged *)
Theorem C01_int_column_exact : forall k v vals valid z vs,
  ValOk v (length vals) ->
  decode (APrim (PInt k) (some_bitmap v) vals) = Some vs ->
  forall v', set_validity v (length vals) valid = Ok v' ->
  decode (APrim (PInt k) (some_bitmap v') (vals ++ [z])) = Some (vs ++ [if valid then LInt z else LNull]).
Proof. exact prim_push_decode. Qed.

(* non-vacuity: a nested schema, records in three presentations, a null parent over a
   non-nullable child; the model's arrays decode to the documented logical values *)
Example C01_example :
  let fields := [mkField (b "a") (DPrim (PInt I32)) false;
                 mkField (b "s") (DStruct [mkField (b "x") (DBytes BUtf8) false;
                                           mkField (b "l") (DList KList (mkField (b "element") (DPrim (PInt U8)) true)) true]) true] in
  let recs := [VStruct [(b "a", VInt I64 7); (b "s", VStruct [(b "l", VSeq [VInt U8 1; VNone]); (b "x", VStr (b "hi"))])];
               VTuple [VInt U8 8; VNone];
               VMap [(VStr (b "s"), VSome (VTuple [VChar 233; VNone])); (VStr (b "a"), VBool true)]] in
  match to_marrow fields recs with
  | Some (Ok arrs) =>
    map decode arrs =
    [Some [LInt 7; LInt 8; LInt 1];
     Some [LStruct [(b "x", LBytes (b "hi")); (b "l", LList [LInt 1; LNull])];
           LNull;
           LStruct [(b "x", LBytes [195; 169]%N); (b "l", LNull)]]]
  | _ => False
  end.
Proof. vm_compute. reflexivity. Qed.

(* non-vacuity of C01_core_proved: the schema of the example has unique names and its conversion succeeds *)
Example C01_core_example :
  let fields := [mkField (b "a") (DPrim (PInt I32)) false;
                 mkField (b "s") (DStruct [mkField (b "x") (DBytes BUtf8) false;
                                           mkField (b "l") (DList KList (mkField (b "element") (DPrim (PInt U8)) true)) true]) true] in
  names_ok (mkField [] (DStruct fields) false) /\
  exists arrs, to_marrow fields [VTuple [VInt U8 8; VNone]; VMap [(VSome (VStr (b "a")), VBool true)]] = Some (Ok arrs).
Proof.
  split.
  - cbn [names_ok map fname']. repeat split; repeat constructor; cbn; intuition discriminate.
  - eexists. vm_compute. reflexivity.
Qed.

(* ---- the documented mapping of integers (and chars) into Float32 / Float64 columns: `v as f32` / `v as f64` ----
   The value stored is the float nearest to the integer, ties to the even significand (one rounding, not two):
   with (q, e) the significand and exponent chosen by the model and u the spacing of floats in the integer's binade,
   the error is at most u/2, and exactly u/2 only when q is even. *)
Theorem C01_int_to_float_correctly_rounded : forall p m q e, (1 < p)%Z -> (0 < m)%Z -> (p <= Z.log2 m)%Z -> round_mag p m = (q, e) ->
  let u := (2 ^ (Z.log2 m - (p - 1)))%Z in
  (2 ^ (p - 1) <= q < 2 ^ p)%Z /\ (Z.log2 m <= e <= Z.log2 m + 1)%Z /\
  (2 * Z.abs (fvalue p q e - m) <= u)%Z /\ ((2 * Z.abs (fvalue p q e - m))%Z = u -> Z.even q = true).
Proof. exact round_mag_rounded. Qed.

(* an integer that fits the significand is stored exactly *)
Theorem C01_int_to_float_exact_when_it_fits : forall p m, (1 < p)%Z -> (0 < m)%Z -> (Z.log2 m < p)%Z ->
  round_mag p m = ((m * 2 ^ (p - 1 - Z.log2 m))%Z, Z.log2 m) /\ (2 ^ (p - 1) <= m * 2 ^ (p - 1 - Z.log2 m) < 2 ^ p)%Z.
Proof. exact round_mag_exact. Qed.

(* the word written: sign bit, biased exponent, fraction - each inside its field, the whole inside the column width *)
Theorem C01_int_to_float_word : forall p bias width z q e, (1 < p)%Z -> z <> 0%Z -> round_mag p (Z.abs z) = (q, e) ->
  float_of_int p bias width z = ((if z <? 0 then 2 ^ (width - 1) else 0) + (e + bias) * 2 ^ (p - 1) + (q - 2 ^ (p - 1)))%Z
  /\ (0 <= q - 2 ^ (p - 1) < 2 ^ (p - 1))%Z.
Proof. exact float_of_int_fields. Qed.

Theorem C01_int_to_float_in_range : forall z, (- 2 ^ 64 < z < 2 ^ 64)%Z ->
  (0 <= f32_of_int z < 2 ^ 32)%Z /\ (0 <= f64_of_int z < 2 ^ 64)%Z.
Proof. intros z H. split; [exact (f32_of_int_range z H)|exact (f64_of_int_range z H)]. Qed.

(* non-vacuity: just above a tie the single rounding goes up (rounding through f64 first would go down) *)
Example C01_int_to_float_example :
  f32_of_int (2 ^ 60 + 2 ^ 36 + 1) = 1568669697%Z /\ f32_of_int (2 ^ 60 + 2 ^ 36) = 1568669696%Z /\ f32_of_int 16777217 = 1266679808%Z /\ f64_of_int (2 ^ 64 - 1) = 4895412794951729152%Z.
Proof. vm_compute. repeat split; reflexivity. Qed.

(* ---- one float width into the other (`v as f32` for an f64 - every serde_json number into a Float32 column - and `v as f64` for an f32) ----
   A finite value m * 2^x is stored with the quantum 2^qe of the target format at that magnitude (never below its subnormal spacing):
   exactly when it sits on that grid, otherwise as the nearest grid point, the even one on a tie. *)
Theorem C01_float_cast_quantum : forall p qmin m x, snd (round_scaled p qmin m x) = Z.max (Z.log2 m + x - (p - 1)) qmin.
Proof. exact round_scaled_quantum. Qed.

Theorem C01_float_cast_exact_on_grid : forall p qmin m x, (Z.max (Z.log2 m + x - (p - 1)) qmin <= x)%Z ->
  round_scaled p qmin m x = ((m * 2 ^ (x - Z.max (Z.log2 m + x - (p - 1)) qmin))%Z, Z.max (Z.log2 m + x - (p - 1)) qmin).
Proof. exact round_scaled_exact. Qed.

Theorem C01_float_cast_correctly_rounded : forall p qmin m x q qe, (1 < p)%Z -> (0 < m)%Z -> round_scaled p qmin m x = (q, qe) ->
  (x < Z.max (Z.log2 m + x - (p - 1)) qmin)%Z ->
  qe = Z.max (Z.log2 m + x - (p - 1)) qmin /\ (0 <= q <= 2 ^ p)%Z /\
  (2 * Z.abs (q * 2 ^ (qe - x) - m) <= 2 ^ (qe - x))%Z /\ ((2 * Z.abs (q * 2 ^ (qe - x) - m))%Z = (2 ^ (qe - x))%Z -> Z.even q = true).
Proof. exact round_scaled_rounded. Qed.

(* widening never rounds *)
Theorem C01_float_widening_exact : forall m x, (0 < m < 2 ^ 24)%Z -> (-149 <= x)%Z ->
  exists qe, (qe <= x)%Z /\ round_scaled 53 (-1074) m x = ((m * 2 ^ (x - qe))%Z, qe).
Proof. exact widen_exact. Qed.

Theorem C01_float_cast_in_range : forall x, (0 <= x)%Z -> (0 <= f32_of_f64 x < 2 ^ 32)%Z /\ (0 <= f64_of_f32 x < 2 ^ 64)%Z.
Proof. intros x H. split; [exact (f32_of_f64_range x H)|exact (f64_of_f32_range x H)]. Qed.

Example C01_float_cast_example :
  f32_of_f64 4607182418800017408 = 1065353216%Z /\ f32_of_f64 3936146074321813504 = 1%Z /\ f32_of_f64 4039728865751334912 = 8388608%Z
  /\ f32_of_f64 5183643170835005440 = 2139095040%Z /\ f32_of_f64 5183643170566569984 = 2139095039%Z
  /\ f64_of_f32 1 = 3936146074321813504%Z /\ f64_of_f32 8388607 = 4039728864677593088%Z.
Proof. vm_compute. repeat split; reflexivity. Qed.

(* the two roundings do not commute: an integer just above a tie of the f32 grid goes UP when cast once, and DOWN when it is first cast
   to f64 (which lands it on the tie) and then to f32 - the model separates the two routes (seed C01m_1 took the second) *)
Example C01_cast_through_f64_differs :
  f32_of_int (2 ^ 60 + 2 ^ 36 + 1) = 1568669697%Z /\ f32_of_f64 (f64_of_int (2 ^ 60 + 2 ^ 36 + 1)) = 1568669696%Z
  /\ f32_of_int (2 ^ 63 + 2 ^ 39 + 1) = 1593835521%Z /\ f32_of_f64 (f64_of_int (2 ^ 63 + 2 ^ 39 + 1)) = 1593835520%Z.
Proof. vm_compute. repeat split; reflexivity. Qed.

(* ... and they DO agree whenever the integer fits the f64 significand: for every integer of at most 53 bits - all 8, 16 and 32 bit
   widths, every char - casting to f64 first and then to f32 stores the same word as casting once. The window in which a detour through
   f64 can alter a Float32 column is exactly the 64-bit integers beyond 2^53. *)
Theorem C01_cast_through_f64_agrees_up_to_53_bits : forall z, z <> 0%Z -> (Z.log2 (Z.abs z) < 53)%Z -> f32_of_f64 (f64_of_int z) = f32_of_int z.
Proof. exact cast_through_f64. Qed.

Theorem C01_cast_through_f64_agrees_for_32_bit : forall z, (- 2 ^ 32 < z < 2 ^ 32)%Z -> f32_of_f64 (f64_of_int z) = f32_of_int z.
Proof. exact cast_through_f64_32bit. Qed.

(* one rounding function serves every cast of the model: the integer cast is round_scaled applied to |z| * 2^0, encoded like any other *)
Theorem C01_int_cast_is_the_same_rounding : forall p bias width z, (1 < p)%Z -> (1 <= bias)%Z -> z <> 0%Z ->
  (Z.log2 (Z.abs z) + bias + 1 < 2 ^ (width - p))%Z ->
  forall q qe, round_scaled p (1 - bias - (p - 1)) (Z.abs z) 0 = (q, qe) ->
  float_of_int p bias width z = ((if z <? 0 then 2 ^ (width - 1) else 0) + encode_mag p bias width q qe)%Z.
Proof. exact int_cast_is_round_scaled. Qed.

Print Assumptions C01_float_cast_correctly_rounded.
Print Assumptions C01_float_cast_in_range.
Print Assumptions C01_cast_through_f64_agrees_up_to_53_bits.

Print Assumptions C01_int_to_float_correctly_rounded.
Print Assumptions C01_int_to_float_in_range.

Print Assumptions C01_push_refines.
Print Assumptions C01_core_proved.
Print Assumptions C01_row_count.
Print Assumptions C01_int_column_exact.
