(* C01 - Serialized arrays decode to exactly the input records. *)
From Verif Require Import Builder Builder_proofs Bits_proofs.

(* Full-strength statement (kept visible). It is evaluated on every case of the check as the
   specification oracle RunC01.oracle (decode of the implementation's arrays = interp of the rows,
   all data types); the parts below are proved about the builder model. *)
Definition C01_full : Prop :=
  forall fields recs arrs lrows,
    to_marrow fields recs = Some (Ok arrs) ->
    iall (map (interp (mkField [] (DStruct fields) false)) recs) = Some (Some lrows) ->
    Forall2 (fun (i : nat) (a : Arr) =>
               decode a = Some (map (fun r => match r with
                                              | LStruct fs => match nth_error fs i with Some (_, v) => v | None => LNull end
                                              | _ => LNull end) lrows))
            (seq 0 (length arrs)) arrs.

(* the same row count in every column, for every schema of the modelled core and every record
   sequence in any presentation *)
Theorem C01_row_count : forall fields recs arrs,
  to_marrow fields recs = Some (Ok arrs) -> Forall (fun a => arr_len a = length recs) arrs.
Proof. exact to_marrow_row_count. Qed.

(* validity bitmaps: what the incremental bit writer produces reads back as exactly the pushed bits *)
Theorem C01_bits_roundtrip : forall bits,
  bits_of {| bm_off := 0; bm_data := pack_bits bits |} (length bits) = Some bits.
Proof. exact bits_of_pack. Qed.

Theorem C01_bit_writer_refines_append : forall bits v,
  set_bit (pack_bits bits) (length bits) v = pack_bits (bits ++ [v]).
Proof. exact set_bit_pack. Qed.

(* integer columns (all eight widths, nullable or not): pushing a row appends exactly one logical
   value - the pushed integer, or null - and leaves every earlier row unchanged *)
Theorem C01_int_column_exact : forall k v vals valid z vs,
  ValOk v (length vals) ->
  decode (APrim (PInt k) (some_bitmap v) vals) = Some vs ->
  forall v', set_validity v (length vals) valid = Ok v' ->
  decode (APrim (PInt k) (some_bitmap v') (vals ++ [z])) = Some (vs ++ [if valid then LInt z else LNull]).
Proof. exact prim_push_decode. Qed.

(* non-vacuity: a nested schema, records in three presentations, a null parent over a
   non-nullable child; the model's arrays decode to the documented logical values *)
Example C01_example :
  let fields := [mkField (b "a") (DPrim (PInt I32)) false;
                 mkField (b "s") (DStruct [mkField (b "x") (DBytes BUtf8) false;
                                           mkField (b "l") (DList KList (mkField (b "element") (DPrim (PInt U8)) true)) true]) true] in
  let recs := [VStruct [(b "a", VInt I64 7); (b "s", VStruct [(b "l", VSeq [VInt U8 1; VNone]); (b "x", VStr (b "hi"))])];
               VTuple [VInt U8 8; VNone];
               VMap [(VStr (b "s"), VSome (VTuple [VChar 233; VNone])); (VStr (b "a"), VBool true)]] in
  match to_marrow fields recs with
  | Some (Ok arrs) =>
    map decode arrs =
    [Some [LInt 7; LInt 8; LInt 1];
     Some [LStruct [(b "x", LBytes (b "hi")); (b "l", LList [LInt 1; LNull])];
           LNull;
           LStruct [(b "x", LBytes [195; 169]%N); (b "l", LNull)]]]
  | _ => False
  end.
Proof. vm_compute. reflexivity. Qed.

Print Assumptions C01_row_count.
Print Assumptions C01_int_column_exact.
