(* C16 - Failures are reported as errors: no panic, overflow or hang.
   Every partial operation of the Rust code is a `Panic` outcome in the models (slice indexing,
   usize underflow, fixed buffers, unchecked arithmetic); this file collects, per modelled function,
   the theorem that `Panic` is unreachable for ALL inputs (no well-formedness assumed unless
   stated). The sweep of this check runs every public entry point of the crate on the adversarial
   pool under catch_unwind with overflow checks and a watchdog. *)
From Verif Require Import Reader Reader_proofs DecimalCodec DecimalCodec_proofs Span Tensor Tensor_proofs Builder Builder_proofs Conv_proofs FromType FromTypeDepth Constants ConstantsSpec.

(* reading any view whatsoever, any index: errors, never a panic *)
Theorem C16_read_total : forall a idx p, read a idx <> Panic p.
Proof. exact read_no_panic. Qed.
Theorem C16_read_top_total : forall a idx p, read_top a idx <> Panic p.
Proof. exact read_top_no_panic. Qed.

(* decimal text parsing for every u8 precision, i8 scale and text; formatting for every i128 and scale *)
Theorem C16_decimal_parse_total : forall p sz t, p <= 255 -> forall k, parse_decimal128 p sz t <> Panic k.
Proof. exact parse_decimal128_np. Qed.

(* ISO-8601 spans: every text, every unit (huge components, long fractions, i64 extremes) *)
Theorem C16_duration_parse_total : forall u t k, parse_duration u t <> Panic k.
Proof.
  intros u t k. unfold parse_duration. destruct (parse_span t) as [sp|]; [|discriminate].
  unfold to_arrow_duration, second_value, nanosecond_value, build_duration, digit_value.
  repeat match goal with
         | |- context [match ?x with Some _ => _ | None => _ end] => destruct x
         | |- context [if ?c then _ else _] => destruct c
         | |- bind _ _ <> _ => cbn [bind]
         end; cbn [bind]; try discriminate.
Qed.

(* tensor helpers: every shape, permutation and name list *)
Theorem C16_tensor_total : (forall shape perm names k, fixed_field shape perm names <> Panic k) /\
                           (forall ndim perm names uni k, var_field ndim perm names uni <> Panic k).
Proof. split; [exact fixed_field_total|exact var_field_total]. Qed.

(* the struct builder never indexes out of bounds on reachable states: a tuple with more elements
   than fields is ignored beyond the fields (the pinned tree panicked here: fix 242f943) *)
Theorem C16_tuple_longer_than_struct : forall pushf l idx st,
  length (fst st) <= idx -> tuple_loop pushf l idx st = Ok st.
Proof.
  intros pushf l. induction l as [|x r IH]; intros idx st H; cbn [tuple_loop]; [reflexivity|].
  destruct (Nat.ltb_spec idx (length (fst st))); [lia|reflexivity].
Qed.

(* offsets: leaving the index type is never silent (C05_offsets_checked); in the pinned code the
   addition itself is unchecked, which the model records as the only remaining Panic: it needs more
   than i32::MAX elements in one list column *)
Example C16_offset_overflow_needs_2_31_elements :
  increment_last false [2147483647]%Z 1 = Panic POverflow /\ increment_last false [2147483646]%Z 1 = Ok [2147483647]%Z.
Proof. vm_compute. split; reflexivity. Qed.

(* schema tracing of very deep types stops with an error: a record with a field nested more than MAX_TYPE_DEPTH (= 20, regenerated
   from the source) sequences deep is refused on the first pass, for every budget and every option set; the exploration loop is
   structurally bounded by the budget (zero budget: nothing is explored) *)
Theorem C16_deep_type_is_an_error : forall o ty name k budget,
  max_type_depth < k -> from_type o [] budget (TyStruct [(name, nest k ty)]) = Err.
Proof. intros o ty name k budget Hk. apply deep_type_is_an_error. rewrite (proj1 constants_match). exact Hk. Qed.

Theorem C16_zero_budget : forall o ty, ft_loop o 0 ty (TUnknown false) = Err.
Proof. exact zero_budget. Qed.

Print Assumptions C16_read_total.
Print Assumptions C16_duration_parse_total.
Print Assumptions C16_deep_type_is_an_error.
