(* C05 - Values a column cannot represent are rejected, never silently altered. *)
From Verif Require Import Conv Conv_proofs SerializerTables SerTablesSpec DictBuilder UnionBuilder Builder_proofs Refine_proofs Progress_proofs FloatOfInt FloatOfInt_proofs FloatRoutes_proofs.

(* Full-strength statement (kept visible): on every serialization cell of the run the C01 oracle
   is evaluated inside Coq (accepted => the arrays decode to exactly interp(value); a value outside
   the documented mapping must be refused); the documented lossy cells (float narrowing, integer to
   float, decimal truncation to scale) are the ISkip cells of interp. *)

(* tie to the source by translation (regenerated from /repo on every run): the typed requests the
   integer and Boolean readers implement are exactly the requests the conversion model answers;
   every other request falls through to the refusing default *)
Definition req_methods : list (String.string * Req) :=
  [("deserialize_i8", RInt I8); ("deserialize_i16", RInt I16); ("deserialize_i32", RInt I32); ("deserialize_i64", RInt I64);
   ("deserialize_u8", RInt U8); ("deserialize_u16", RInt U16); ("deserialize_u32", RInt U32); ("deserialize_u64", RInt U64);
   ("deserialize_bool", RBool); ("deserialize_char", RChar); ("deserialize_f32", RF32); ("deserialize_f64", RF64); ("deserialize_str", RStr)]%string.
Definition reader_implements (reader m : String.string) : bool :=
  match SerTablesSpec.lookup reader expected_reader_methods with Some ms => existsb (String.eqb m) ms | None => false end.
Theorem C05_reader_methods_match_model :
  reader_methods_ok = true /\
  forallb (fun mr : String.string * Req => Bool.eqb (reader_implements "IntegerDeserializer" (fst mr)) (is_ok (conv_de_int (snd mr) 1))) req_methods = true /\
  forallb (fun mr : String.string * Req => Bool.eqb (reader_implements "BoolDeserializer" (fst mr)) (is_ok (conv_de_bool (snd mr) true))) req_methods = true.
Proof. repeat split; vm_compute; reflexivity. Qed.

(* writing integers: exactly the pushed value is stored, or the push is an error - for every
   integer width of the value and of the column, every Z *)
Theorem C05_ser_int_exact : forall k w z val vals b',
  push (VInt w z) (BdPrim (PInt k) val vals) = Ok b' -> in_int k z = true /\ exists val', b' = BdPrim (PInt k) val' (vals ++ [z]).
Proof. exact ser_int_exact. Qed.
Theorem C05_ser_int_out_of_range : forall k w z val vals, in_int k z = false -> push (VInt w z) (BdPrim (PInt k) val vals) = Err.
Proof. exact ser_int_out_of_range. Qed.
Theorem C05_ser_int_total : forall k w z val vals, in_int k z = true ->
  exists val', push (VInt w z) (BdPrim (PInt k) val vals) = Ok (BdPrim (PInt k) val' (vals ++ [z])).
Proof. exact ser_int_total. Qed.
Theorem C05_ser_char_exact : forall k c val vals b',
  push (VChar c) (BdPrim (PInt k) val vals) = Ok b' -> in_int k c = true /\ exists val', b' = BdPrim (PInt k) val' (vals ++ [c]).
Proof. exact ser_char_exact. Qed.

(* error classes *)
Theorem C05_null_non_nullable :
  (forall k vals, push VNone (BdPrim k None vals) = Err) /\ (forall vals len, push VNone (BdBool None vals len) = Err) /\
  (forall k offs data, push VNone (BdUtf8 k None offs data) = Err) /\ (forall k offs m e, push VNone (BdList k None offs m e) = Err) /\
  (forall len fs, push VNone (BdStruct len None fs) = Err).
Proof. repeat split; intros; reflexivity. Qed.
Theorem C05_missing_required_field : forall m cb r seen, m_nullable m = false -> finish_record ((m, cb) :: r) (false :: seen) = Err.
Proof. exact missing_required_field. Qed.
Theorem C05_duplicate_field : forall pushf fs seen idx x, nth idx seen false = true -> struct_element pushf (fs, seen) idx x = Err.
Proof. exact duplicate_field. Qed.
Theorem C05_offsets_checked : forall wide offs inc offs', increment_last wide offs inc = Ok offs' ->
  in_int (if wide then I64 else I32) (last offs' 0%Z) = true.
Proof. exact offsets_checked. Qed.

(* reading integers *)
Theorem C05_de_int_total : forall k z, in_int k z = true <-> conv_de_int (RInt k) z = Ok (VdInt z).
Proof. exact de_int_total. Qed.
Theorem C05_de_int_out_of_range : forall k z, in_int k z = false -> conv_de_int (RInt k) z = Err.
Proof. exact de_int_out_of_range. Qed.
Theorem C05_de_exact : forall req z d, conv_de_int req z = Ok d -> denote d = z \/ (req = RBool /\ d = VdBool (negb (Z.eqb z 0))).
Proof. exact de_int_exact. Qed.
Theorem C05_de_char_valid : forall z d, conv_de_int RChar z = Ok d -> d = VdChar z /\ valid_char z = true.
Proof. exact de_char_valid. Qed.

(* non-vacuity *)
Example C05_example :
  push (VInt I64 128) (BdPrim (PInt I8) (Some []) [1]%Z) = Err /\ push (VInt U64 127) (BdPrim (PInt I8) None [1]%Z) = Ok (BdPrim (PInt I8) None [1; 127]%Z) /\
  conv_de_int (RInt U8) (-1) = Err /\ conv_de_int RChar 55296 = Err /\ conv_de_int RChar 233 = Ok (VdChar 233).
Proof. vm_compute. repeat split; reflexivity. Qed.

(* container-level classes on the union and dictionary builder models: a variant index the union does not declare (negative,
   beyond the last variant, or outside the i8 type ids) is an error and nothing is written; a value that is not an enum variant
   is refused by a union column; a null for a non-nullable dictionary column is refused *)
Theorem C05_union_unknown_variant : forall idx payload u,
  (idx < 0 \/ Z.of_nat (length (u_fields u)) <= idx \/ 127 < idx)%Z -> union_push_variant idx payload u = Err.
Proof.
  intros idx payload u H. unfold union_push_variant. destruct (Z.ltb_spec idx 0) as [_|Hn]; [reflexivity|].
  destruct (nth_error (u_fields u) (Z.to_nat idx)) as [[m c]|] eqn:E; [|reflexivity].
  destruct (nth_error (u_cur u) (Z.to_nat idx)); [|reflexivity].
  assert (Hlt : (Z.to_nat idx < length (u_fields u))%nat) by (apply nth_error_Some; congruence).
  destruct H as [H|[H|H]]; try lia. unfold in_int, int_min, int_max. cbn.
  destruct (Z.leb_spec (-128) idx); destruct (Z.leb_spec idx 127); cbn; try reflexivity; lia.
Qed.

Theorem C05_union_refuses_non_variants : forall v u,
  match v with VUnitVariant _ _ | VNewtypeVariant _ _ _ | VTupleVariant _ _ _ | VStructVariant _ _ _ => False | _ => True end ->
  union_push v u = Err.
Proof. intros v u H. destruct v; try contradiction; reflexivity. Qed.

Theorem C05_dictionary_null_non_nullable : forall k vk, dict_push VNone (dict_new k vk false) = Err.
Proof. reflexivity. Qed.

(* ---- the container level, on the builder model (Boolean, integers, floats, temporal integers, strings, binary, lists, structs; any
   nesting, every presentation): a value that the documented mapping of the column does not contain is never accepted - whatever it is
   (a number out of range three levels down, a null under a non-nullable field, a missing or duplicated field of an inner record, a
   wrong kind of value) and whatever the state of the builder; and an accepted value appends exactly what it denotes and changes no
   earlier row (C01_push_refines).  This is the contrapositive reading of the refinement theorem: nothing is wrapped, truncated,
   defaulted or dropped silently. *)
Theorem C05_unrepresentable_is_rejected : forall v f b lvs, shape f b -> WfB b -> content b = Some lvs ->
  (forall lv, interp f v <> IOk lv) -> forall b', push v b <> Ok b'.
Proof.
  intros v f b lvs Hs Hw Hc Hno b' Hp. destruct (push_sound v f b b' lvs Hs Hw Hc Hp) as (lv & Hi & _). exact (Hno lv Hi).
Qed.
Theorem C05_accepted_is_exact : forall v f b b' lvs, shape f b -> WfB b -> content b = Some lvs -> push v b = Ok b' ->
  exists lv, interp f v = IOk lv /\ content b' = Some (lvs ++ [lv]).
Proof.
  intros v f b b' lvs Hs Hw Hc Hp. destruct (push_sound v f b b' lvs Hs Hw Hc Hp) as (lv & Hi & Hc' & _). exists lv. split; assumption.
Qed.

(* ... and no spurious rejection at the fixed-width leaves: every value that the documented mapping of a Boolean / integer / float /
   temporal-integer column contains - through any Option / newtype layers, a null into a nullable column included - is accepted,
   whatever the state of the builder (`wt`: the numbers a serde value of each width can carry).  With C05_unrepresentable_is_rejected:
   at these columns the builder accepts EXACTLY the documented mapping.  (Variable-width and nested builders additionally need room in
   their offset type: no general statement.) *)
Theorem C05_fixed_width_total : forall v f b lv, fixed_width b -> shape f b -> wt v -> interp f v = IOk lv -> exists b', push v b = Ok b'.
Proof. exact fixed_width_progress. Qed.

(* ... and at the string / binary leaves, given room in the offset type (`room`: the length of the value and the new last offset fit
   the 32- or 64-bit offset type of the column): the only other way a value of the mapping can be refused *)
Theorem C05_bytes_total : forall v f k val offs data s, shape f (BdUtf8 k val offs data) -> wt v ->
  (match v with VNone | VSome _ | VUnit | VUnitStruct | VNewtypeStruct _ => False | _ => True end) ->
  interp f v = IOk (LBytes s) -> room (is_wide k) offs (length s) -> exists b', push v (BdUtf8 k val offs data) = Ok b'.
Proof. exact bytes_progress. Qed.

(* non-vacuity: a u16 above i8::MAX two levels down (inside a list inside a struct) is outside the mapping *)
Example C05_nested_out_of_range :
  let f := mkField (b "r") (DStruct [mkField (b "l") (DList KLargeList (mkField (b "element") (DPrim (PInt I8)) false)) false]) false in
  forall lv, interp f (VStruct [(b "l", VSeq [VInt U16 1; VInt U16 200])]) <> IOk lv.
Proof. intros f lv. vm_compute. discriminate. Qed.

(* ---- the documented lossy conversions are exactly these: float narrowing and integer-to-float (the C01_int_to_float and C01_float_cast theorems) ----
   Reading a float column: the same width is handed out bit for bit; a Float32 value read as f64 is exact (it sits on the f64 grid);
   only a Float64 value read as f32 may round, and then to the nearest f32 (round_scaled_rounded). *)
Theorem C05_float_read_same_width_is_identity : forall w bits, conv_de_float w w bits = bits.
Proof. intros [|] bits; reflexivity. Qed.

Theorem C05_float_widening_is_exact : forall m x, (0 < m < 2 ^ 24)%Z -> (-149 <= x)%Z ->
  exists qe, (qe <= x)%Z /\ round_scaled 53 (-1074) m x = ((m * 2 ^ (x - qe))%Z, qe).
Proof. exact widen_exact. Qed.

Theorem C05_float_narrowing_is_nearest : forall m x q qe, (0 < m)%Z -> round_scaled 24 (-149) m x = (q, qe) ->
  (x < Z.max (Z.log2 m + x - 23) (-149))%Z ->
  (2 * Z.abs (q * 2 ^ (qe - x) - m) <= 2 ^ (qe - x))%Z /\ ((2 * Z.abs (q * 2 ^ (qe - x) - m))%Z = (2 ^ (qe - x))%Z -> Z.even q = true).
Proof.
  intros m x q qe Hm H Hx. destruct (round_scaled_rounded 24 (-149) m x q qe ltac:(reflexivity) Hm H Hx) as (_ & _ & H1 & H2). split; assumption.
Qed.

(* ... so widening loses nothing that narrowing could not give back: every Float32 word that is not a NaN - zeros of both signs,
   subnormals, normal numbers, infinities - survives `as f64` followed by `as f32` bit for bit (a Float32 column read as f64, e.g. into
   serde_json numbers, and written into a Float32 column again) *)
Theorem C05_float_widen_then_narrow_is_identity : forall x, (0 <= x < 2 ^ 32)%Z ->
  (forall frac, snd (classify 24 127 32 x) <> FNaN frac) -> f32_of_f64 (f64_of_f32 x) = x.
Proof. exact widen_narrow. Qed.

Example C05_float_round_trip_example :
  List.map (fun x => f32_of_f64 (f64_of_f32 x)) [0; 1; 8388607; 8388608; 1065353216; 2139095039; 2139095040; 2147483648; 2147483649; 4286578688]%Z
  = [0; 1; 8388607; 8388608; 1065353216; 2139095039; 2139095040; 2147483648; 2147483649; 4286578688]%Z.
Proof. vm_compute. reflexivity. Qed.

(* the casts of the float readers (float_impls.rs) and float builders are the ones modelled, regenerated from the source on every run *)
Theorem C05_float_casts_table : float_casts_ok = true.
Proof. vm_compute. reflexivity. Qed.

Print Assumptions C05_unrepresentable_is_rejected.
Print Assumptions C05_fixed_width_total.
Print Assumptions C05_bytes_total.
Print Assumptions C05_ser_int_exact.
Print Assumptions C05_de_exact.
Print Assumptions C05_union_unknown_variant.
Print Assumptions C05_float_narrowing_is_nearest.
Print Assumptions C05_float_widen_then_narrow_is_identity.
