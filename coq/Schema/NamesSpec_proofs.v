From Coq Require Import String.
From Verif Require Import Dsl SchemaTables NamesSpec.

Lemma tables_are_expected : prints_ok = true /\ parses_ok = true.
Proof. split; vm_compute; reflexivity. Qed.

(* for EVERY model type (all parameters, all children): the source prints a name for its variant and the
   model's printer prints that name (the text before the argument list) *)
Theorem print_names_match : forall d, print_matches d = true.
Proof.
  intros d. destruct d as [| |[]| | | | | | | | | | | |p s|[]|[]|[]|[] [tz|]|n|n f|fs|f|fs|k v|f|f]; vm_compute; reflexivity.
Qed.

Theorem parse_names_match : parses_match = true /\ unknown_refused = true.
Proof. split; vm_compute; reflexivity. Qed.

Lemma strategies_match : strategies_ok = true.
Proof. vm_compute. reflexivity. Qed.
