(* The names of the data type mini language: the tables regenerated from /repo's schema/serde/serialize.rs
   (what PrettyFieldDataType prints) and deserialize.rs (what build_data_type accepts) on every run
   (Gen/SchemaTables.v), compared with the tables the model was written against, and tied to the model's
   printer `print_dt` and parser `build_data_type` (Schema/Dsl.v). *)
From Coq Require Import String.
From Verif Require Import Dsl SchemaTables.
Local Open Scope string_scope.

Definition expected_prints : list (string * string) := [
  ("Null", "Null");
  ("Boolean", "Bool");
  ("Int8", "I8");
  ("Int16", "I16");
  ("Int32", "I32");
  ("Int64", "I64");
  ("UInt8", "U8");
  ("UInt16", "U16");
  ("UInt32", "U32");
  ("UInt64", "U64");
  ("Float16", "F16");
  ("Float32", "F32");
  ("Float64", "F64");
  ("Utf8", "Utf8");
  ("LargeUtf8", "LargeUtf8");
  ("Utf8View", "Utf8View");
  ("Binary", "Binary");
  ("LargeBinary", "LargeBinary");
  ("BinaryView", "BinaryView");
  ("Date32", "Date32");
  ("Date64", "Date64");
  ("Decimal128", "Decimal128({precision}, {scale})");
  ("Duration", "Duration({unit})");
  ("Time32", "Time32({unit})");
  ("Time64", "Time64({unit})");
  ("Timestamp", "Timestamp({unit}, {tz:?})");
  ("FixedSizeBinary", "FixedSizeBinary({n})");
  ("FixedSizeList", "FixedSizeList({n})");
  ("Struct", "Struct");
  ("Map", "Map");
  ("Union", "Union");
  ("Dictionary", "Dictionary");
  ("LargeList", "LargeList");
  ("List", "List");
  ("*", "error")
].
Definition expected_parses : list (list string * nat * string) := [
  (["Null"], 0, "Null");
  (["Bool"; "Boolean"], 0, "Boolean");
  (["Utf8"], 0, "Utf8");
  (["LargeUtf8"], 0, "LargeUtf8");
  (["Utf8View"], 0, "Utf8View");
  (["U8"; "UInt8"], 0, "UInt8");
  (["U16"; "UInt16"], 0, "UInt16");
  (["U32"; "UInt32"], 0, "UInt32");
  (["U64"; "UInt64"], 0, "UInt64");
  (["I8"; "Int8"], 0, "Int8");
  (["I16"; "Int16"], 0, "Int16");
  (["I32"; "Int32"], 0, "Int32");
  (["I64"; "Int64"], 0, "Int64");
  (["F16"; "Float16"], 0, "Float16");
  (["F32"; "Float32"], 0, "Float32");
  (["F64"; "Float64"], 0, "Float64");
  (["Date32"], 0, "Date32");
  (["Date64"], 0, "Date64");
  (["Binary"], 0, "Binary");
  (["LargeBinary"], 0, "LargeBinary");
  (["FixedSizeBinary"], 1, "FixedSizeBinary");
  (["BinaryView"], 0, "BinaryView");
  (["Timestamp"], 2, "Timestamp");
  (["Time32"], 1, "Time32");
  (["Time64"], 1, "Time64");
  (["Duration"], 1, "Duration");
  (["Decimal128"], 2, "Decimal128");
  (["Struct"], 0, "Struct");
  (["List"], 0, "List");
  (["LargeList"], 0, "LargeList");
  (["FixedSizeList"], 1, "FixedSizeList");
  (["Dictionary"], 0, "Dictionary");
  (["Map"], 0, "Map");
  (["Union"], 0, "Union");
  (["*"], 0, "fail")
].

Definition str_list_eqb (x y : list string) : bool :=
  (fix go x y := match x, y with [] , [] => true | a :: x', c :: y' => String.eqb a c && go x' y' | _, _ => false end) x y.
Definition prints_ok : bool :=
  (fix go (x y : list (string * string)) := match x, y with
     | [], [] => true | (a, c) :: x', (a', c') :: y' => String.eqb a a' && String.eqb c c' && go x' y' | _, _ => false end)
  type_prints expected_prints.
Definition parses_ok : bool :=
  (fix go (x y : list (list string * nat * string)) := match x, y with
     | [], [] => true
     | (n, a, v) :: x', (n', a', v') :: y' => str_list_eqb n n' && Nat.eqb a a' && String.eqb v v' && go x' y'
     | _, _ => false end)
  type_parses expected_parses.

(* the marrow DataType variant a model type stands for *)
Definition variant_of (d : YDT) : string :=
  match d with
  | YNull => "Null" | YBool => "Boolean"
  | YInt I8 => "Int8" | YInt I16 => "Int16" | YInt I32 => "Int32" | YInt I64 => "Int64"
  | YInt U8 => "UInt8" | YInt U16 => "UInt16" | YInt U32 => "UInt32" | YInt U64 => "UInt64"
  | YF16 => "Float16" | YF32 => "Float32" | YF64 => "Float64"
  | YUtf8 => "Utf8" | YLargeUtf8 => "LargeUtf8" | YUtf8View => "Utf8View"
  | YBinary => "Binary" | YLargeBinary => "LargeBinary" | YBinaryView => "BinaryView"
  | YDate32 => "Date32" | YDate64 => "Date64" | YDecimal _ _ => "Decimal128"
  | YDuration _ => "Duration" | YTime32 _ => "Time32" | YTime64 _ => "Time64" | YTimestamp _ _ => "Timestamp"
  | YFixedBin _ => "FixedSizeBinary" | YFixedList _ _ => "FixedSizeList" | YStruct _ => "Struct" | YMap _ => "Map"
  | YUnion _ => "Union" | YDict _ _ => "Dictionary" | YList _ => "List" | YLargeList _ => "LargeList"
  end.

Fixpoint lookup_print (v : string) (l : list (string * string)) : option string :=
  match l with [] => None | (a, c) :: r => if String.eqb a v then Some c else lookup_print v r end.

(* the text up to the first '(' *)
Fixpoint head_of (s : bytes) : bytes :=
  match s with [] => [] | c :: r => if N.eqb c 40 then [] else c :: head_of r end.

Definition print_matches (d : YDT) : bool :=
  match lookup_print (variant_of d) type_prints with
  | Some fmt => bytes_eqb (head_of (print_dt d)) (head_of (b fmt))
  | None => false
  end.

(* one representative per variant, with the children the parser needs and the argument text it is printed with *)
Definition child : YField := mkY (b "c") (YInt I32) false [] None.
Definition entries : YField := mkY (b "entries") (YStruct [mkY (b "key") YUtf8 false [] None; mkY (b "value") YBool true [] None]) false [] None.
Definition reprs : list (YDT * list YField) :=
  [(YNull, []); (YBool, []); (YInt I8, []); (YInt I16, []); (YInt I32, []); (YInt I64, []); (YInt U8, []); (YInt U16, []); (YInt U32, []); (YInt U64, []);
   (YF16, []); (YF32, []); (YF64, []); (YUtf8, []); (YLargeUtf8, []); (YUtf8View, []); (YBinary, []); (YLargeBinary, []); (YBinaryView, []);
   (YDate32, []); (YDate64, []); (YDecimal 5 2, []); (YDecimal 38 (-3), []); (YDuration Millisecond, []); (YTime32 Second, []); (YTime64 Nanosecond, []);
   (YTimestamp Microsecond None, []); (YTimestamp Second (Some (b "UTC")), []); (YFixedBin 4, []); (YFixedList 3 child, [child]);
   (YStruct [child; child], [child; child]); (YMap entries, [entries]); (YUnion [child], [child]);
   (YDict (YInt U32) YLargeUtf8, [mkY (b "key") (YInt U32) false [] None; mkY (b "value") YLargeUtf8 false [] None]);
   (YList child, [child]); (YLargeList child, [child])].

(* the argument text "(..)" a type is printed with *)
Fixpoint args_of (s : bytes) : bytes :=
  match s with [] => [] | c :: r => if N.eqb c 40 then s else args_of r end.
Fixpoint count_args (s : bytes) : nat :=      (* top-level commas + 1 when there is an argument list *)
  match s with [] => 0 | c :: r => (if N.eqb c 44 then 1 else 0) + count_args r end.
Definition arity_of (d : YDT) : nat := match args_of (print_dt d) with [] => 0 | a => S (count_args a) end.

Definition ydt_eqb_repr (a c : YDT) : bool := bytes_eqb (print_dt a) (print_dt c) && String.eqb (variant_of a) (variant_of c).

(* every spelling the source accepts for the variant of a representative, with its arguments, is read by the model's
   parser as that representative (the children compare by their printed form) *)
Definition parse_row_ok (row : list string * nat * string) : bool :=
  let '(names, arity, v) := row in
  if String.eqb v "fail" then true
  else forallb (fun dc : YDT * list YField =>
                  let '(d, cs) := dc in
                  if String.eqb (variant_of d) v then
                    Nat.eqb (arity_of d) arity &&
                    forallb (fun n => match build_data_type (app (b n) (args_of (print_dt d))) cs with
                                      | Some d' => ydt_eqb_repr d' d
                                      | None => false end) names
                  else true) reprs
       && existsb (fun dc : YDT * list YField => String.eqb (variant_of (fst dc)) v) reprs.
Definition parses_match : bool := forallb parse_row_ok type_parses.
(* a spelling outside the table is refused *)
Definition unknown_refused : bool :=
  match build_data_type (b "Int") [], build_data_type (b "Float") [], build_data_type (b "Utf") [] with None, None, None => true | _, _, _ => false end.

(* strategies: the metadata key and the four names, printed and parsed identically *)
Definition strategies_ok : bool :=
  bytes_eqb strategy_key (b strategy_key_text)
  && forallb (fun pr : string * string => String.eqb (fst pr) (snd pr) && known_strategy (b (snd pr))) strategy_prints
  && forallb (fun pr : string * string => if String.eqb (snd pr) "fail" then String.eqb (fst pr) "*" else String.eqb (fst pr) (snd pr) && known_strategy (b (fst pr))) strategy_parses
  && Nat.eqb (length strategy_prints) 4 && Nat.eqb (length strategy_parses) 5 && negb (known_strategy (b "Unknown")).
