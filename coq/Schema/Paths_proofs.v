From Verif Require Import Paths.
From Verif Require Import AnnotTable.
Local Open Scope N_scope.

(* the innermost context wins, whatever the outer contexts are *)
Lemma fold_ctx_nonempty a l : a <> [] -> fold_left ctx l a = a.
Proof. intros H. induction l as [|c r IH]; cbn [fold_left]; [reflexivity|]. destruct a; [congruence|]. cbn [ctx]. exact IH. Qed.

Theorem innermost_wins path dt outer :
  propagate (node_annot path dt :: outer) = node_annot path dt.
Proof. unfold propagate. cbn [fold_left ctx]. apply fold_ctx_nonempty. discriminate. Qed.

Theorem innermost_field path dt outer :
  lookup_annot (b "field") (propagate (node_annot path dt :: outer)) = Some path /\
  lookup_annot (b "data_type") (propagate (node_annot path dt :: outer)) = Some dt.
Proof. rewrite innermost_wins. split; reflexivity. Qed.

(* a context that annotates nothing (a builder/reader without ctx) lets the parent's path through:
   the protocol needs every node to annotate *)
Example silent_node_loses_the_path :
  lookup_annot (b "field") (propagate [[]; node_annot (b "$.parent") (b "Struct(..)")]) = Some (b "$.parent").
Proof. reflexivity. Qed.

(* the generated table: every Context impl of the source sets exactly the keys field and data_type *)
Definition keys_ok (row : string * string * string * list string * list string) : bool :=
  match row with
  | (_, _, _, keys, _) =>
    match keys with
    | [k1; k2] => (String.eqb k1 "field" && String.eqb k2 "data_type") || (String.eqb k1 "data_type" && String.eqb k2 "field")
    | _ => false
    end
  end.

Theorem annot_table_keys : forallb keys_ok annot_table = true.
Proof. vm_compute. reflexivity. Qed.

(* every literal data_type text of the table is one the model uses, and conversely (per side) *)
Definition model_texts_ser : list string :=
  ["Null"; "<unknown variant>"; "Boolean"; "Int8"; "Int16"; "Int32"; "Int64"; "UInt8"; "UInt16"; "UInt32"; "UInt64"; "Float16"; "Float32"; "Float64";
   "Date32"; "Date64"; "Decimal128(..)"; "Duration(..)"; "Time32"; "Time64"; "Timestamp(..)"; "FixedSizeBinary(..)"; "FixedSizeList(..)";
   "Struct(..)"; "Map(..)"; "Union(..)"; "Dictionary(..)"; "List"; "LargeList"; "<unknown>"]%string.
Definition model_texts_de : list string :=
  ["Null"; "Boolean"; "Int8"; "Int16"; "Int32"; "Int64"; "UInt8"; "UInt16"; "UInt32"; "UInt64"; "Float16"; "Float32"; "Float64";
   "Date32"; "Date64"; "Decimal128(..)"; "Duration(..)"; "Time32"; "Time64"; "Timestamp(..)"; "FixedSizeBinary(..)"; "FixedSizeList(..)";
   "Struct(..)"; "Map(..)"; "Union(..)"; "Dictionary(..)"; "List(..)"; "LargeList(..)"; "<unknown>";
   "Utf8"; "LargeUtf8"; "Utf8View"; "Binary"; "LargeBinary"; "BinaryView"]%string.
Definition texts_ok (row : string * string * string * list string * list string) : bool :=
  match row with
  | (side, _, _, _, lits) =>
    forallb (fun t => existsb (String.eqb t) (if String.eqb side "serialization" then model_texts_ser ++ ["Utf8"; "LargeUtf8"; "Utf8View"; "Binary"; "LargeBinary"; "BinaryView"]%string else model_texts_de)) lits
  end.
Theorem annot_table_texts : forallb texts_ok annot_table = true.
Proof. vm_compute. reflexivity. Qed.

(* paths extend the parent's path: a child's path is never its ancestor's *)
Lemma node_at_prefix raw dtx : forall route path f p d, node_at raw dtx path f route = Some (p, d) ->
  exists suffix, p = path ++ suffix /\ (route <> [] -> suffix <> []).
Proof.
  induction route as [|i rest IH]; intros path f p d H; cbn [node_at] in H.
  - inversion H; subst. exists []. split; [rewrite app_nil_r; reflexivity|congruence].
  - assert (Hstep : forall path' c, node_at raw dtx path' c rest = Some (p, d) -> (exists mid, path' = path ++ 46 :: mid) ->
                                    exists suffix, p = path ++ suffix /\ (i :: rest <> [] -> suffix <> [])).
    { intros path' c Hn [mid ->]. destruct (IH _ _ _ _ Hn) as [sfx [-> _]]. exists (46 :: mid ++ sfx). split.
      - rewrite <- app_assoc. reflexivity.
      - intros _. discriminate. }
    destruct (y_dt f); try discriminate.
    + destruct i; [|discriminate]. eapply Hstep; [exact H|]. eexists. reflexivity.
    + destruct (nth_error fs i); [|discriminate]. eapply Hstep; [exact H|]. eexists. reflexivity.
    + destruct (map_entries f0) as [[k v]|]; [|discriminate]. destruct i as [|[|i]]; try discriminate.
      * eapply Hstep; [exact H|]. unfold dot. eexists. rewrite <- !app_assoc. reflexivity.
      * eapply Hstep; [exact H|]. unfold dot. eexists. rewrite <- !app_assoc. reflexivity.
    + destruct (nth_error fs i); [|discriminate]. eapply Hstep; [exact H|]. eexists. reflexivity.
    + destruct raw; [|discriminate]. destruct i as [|[|i]]; try discriminate; (eapply Hstep; [exact H|]; eexists; reflexivity).
    + destruct i; [|discriminate]. eapply Hstep; [exact H|]. eexists. reflexivity.
    + destruct i; [|discriminate]. eapply Hstep; [exact H|]. eexists. reflexivity.
Qed.

Theorem deeper_path_is_longer raw dtx path f route p d :
  route <> [] -> node_at raw dtx path f route = Some (p, d) -> p <> path.
Proof.
  intros Hr H. destruct (node_at_prefix raw dtx route path f p d H) as [sfx [-> Hne]].
  intros E. assert (length (path ++ sfx) = length path) by (rewrite E; reflexivity).
  rewrite app_length in H0. specialize (Hne Hr). destruct sfx; [congruence|]. cbn in H0. lia.
Qed.
