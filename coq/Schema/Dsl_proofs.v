(* Round trip of the data type mini language: for every data type (all parameters: every i32 size,
   every precision/scale, every unit, every time zone text whose characters need no \u escape), the
   printed name parses back to the same type. *)
From Verif Require Import Dsl Decimal_proofs.
Require Import ZifyBool ZifyNat ZifyN.
Local Open Scope N_scope.

Definition identb (c : N) : bool := is_ident_char c.

Lemma ident_not_ws c : is_ident_char c = true -> is_ws c = false.
Proof. unfold is_ident_char, is_ws, is_digit, is_alpha. lia. Qed.
Lemma ident_not_quote c : is_ident_char c = true -> c <> 34.
Proof. unfold is_ident_char, is_digit, is_alpha. lia. Qed.

Lemma span_ident_app i : forall c r, Forall (fun x => is_ident_char x = true) i -> is_ident_char c = false ->
  span_ident (i ++ c :: r) = (i, c :: r).
Proof.
  induction i as [|x i IH]; intros c r Hi Hc; cbn [app span_ident].
  - rewrite Hc. reflexivity.
  - inversion Hi as [|? ? Hx Hr]; subst. rewrite Hx, (IH c r Hr Hc). reflexivity.
Qed.

Lemma span_ident_all i : Forall (fun x => is_ident_char x = true) i -> span_ident i = (i, []).
Proof. induction i as [|x i IH]; intros Hi; cbn [span_ident]; [reflexivity|]. inversion Hi as [|? ? Hx Hr]; subst. rewrite Hx, (IH Hr). reflexivity. Qed.

Lemma trim_start_ident i r : i <> [] -> Forall (fun x => is_ident_char x = true) i -> trim_start (i ++ r) = i ++ r.
Proof.
  destruct i as [|x i]; [congruence|]. intros _ Hi. inversion Hi as [|? ? Hx _]; subst. cbn [app trim_start].
  rewrite (ident_not_ws x Hx). reflexivity.
Qed.

(* an identifier followed by a delimiter that is neither white space nor an opening parenthesis *)
Lemma parse_name_ident i rest : i <> [] -> Forall (fun x => is_ident_char x = true) i ->
  span_ident (i ++ rest) = (i, rest) -> parse_name (i ++ rest) = Some (i, false, rest).
Proof.
  intros Hne Hi Hsp. unfold parse_name. destruct i as [|x i]; [congruence|]. cbn [app] in *.
  inversion Hi as [|? ? Hx Hr]; subst. destruct (N.eqb_spec x 34) as [->|_]; [cbv in Hx; discriminate|].
  rewrite Hsp. reflexivity.
Qed.

Lemma parse_term_ident f i c r : i <> [] -> Forall (fun x => is_ident_char x = true) i ->
  is_ident_char c = false -> is_ws c = false -> c <> 40 ->
  parse_term (S f) (i ++ c :: r) = Some (mkTerm i false [], c :: r).
Proof.
  intros Hne Hi Hc Hws H40. cbn [parse_term]. rewrite trim_start_ident by assumption.
  rewrite (parse_name_ident i (c :: r) Hne Hi (span_ident_app i c r Hi Hc)).
  cbn [trim_start]. rewrite Hws. cbn [starts_with]. destruct (N.eqb_spec c 40); [contradiction|reflexivity].
Qed.

Lemma parse_term_ident_end f i : i <> [] -> Forall (fun x => is_ident_char x = true) i ->
  parse_term (S f) i = Some (mkTerm i false [], []).
Proof.
  intros Hne Hi. cbn [parse_term]. rewrite <- (app_nil_r i) at 1. rewrite trim_start_ident by assumption.
  rewrite (parse_name_ident i [] Hne Hi); [reflexivity|]. rewrite app_nil_r. apply span_ident_all. exact Hi.
Qed.

(* ---------------- numbers ---------------- *)
Lemma digit_ident c : is_digit c = true -> is_ident_char c = true.
Proof. unfold is_ident_char. intros ->. reflexivity. Qed.

Lemma print_N_ident n : Forall (fun x => is_ident_char x = true) (print_N n).
Proof. eapply Forall_impl; [|apply print_N_digits]. intros a Ha. apply digit_ident. exact Ha. Qed.

Lemma print_Z_ident z : Forall (fun x => is_ident_char x = true) (print_Z z) /\ print_Z z <> [].
Proof.
  unfold print_Z. destruct (z <? 0)%Z.
  - split; [constructor; [reflexivity|apply print_N_ident]|discriminate].
  - split; [apply print_N_ident|apply print_N_nonempty].
Qed.

Lemma forallb_digits n : forallb is_digit (print_N n) = true.
Proof. apply forallb_forall. intros x Hx. assert (H := print_N_digits n). rewrite Forall_forall in H. apply H. exact Hx. Qed.

Lemma parse_int_print lo hi z : (lo <= z <= hi)%Z -> parse_int lo hi (print_Z z) = Some z.
Proof.
  intros Hr. unfold parse_int, print_Z. destruct (Z.ltb_spec z 0).
  - assert (Hlo : (0 <=? lo)%Z = false) by lia. cbn [N.eqb Pos.eqb].
    assert (Hd := forallb_digits (Z.abs_N z)). assert (Hp := parse_print_N (Z.abs_N z)).
    destruct (print_N (Z.abs_N z)) as [|c t] eqn:E; [exfalso; exact (print_N_nonempty _ E)|].
    rewrite Hlo. cbn [andb]. rewrite Hd, Hp.
    replace (- Z.of_N (Z.abs_N z))%Z with z by lia.
    destruct (Z.leb_spec lo z), (Z.leb_spec z hi); try lia. reflexivity.
  - assert (Hd := forallb_digits (Z.to_N z)). assert (Hp := parse_print_N (Z.to_N z)).
    destruct (print_N_head (Z.to_N z)) as [c [t [E Hc]]]. rewrite E in *.
    assert (c <> 45 /\ c <> 43) as [H45 H43] by (unfold is_digit in Hc; lia).
    destruct (N.eqb_spec c 45); [contradiction|]. destruct (N.eqb_spec c 43); [contradiction|].
    cbn [andb]. rewrite Hd, Hp.
    replace (Z.of_N (Z.to_N z)) with z by lia.
    destruct (Z.leb_spec lo z), (Z.leb_spec z hi); try lia. reflexivity.
Qed.

(* ---------------- quoted text ---------------- *)
Lemma scan_quoted_roundtrip tz : forall fuel r, Forall (fun c => plain_char c = true) tz -> (length tz < fuel)%nat ->
  scan_quoted fuel (debug_esc tz ++ 34 :: r) = Some (tz, r).
Proof.
  induction tz as [|c tz IH]; intros fuel r Hp Hf; destruct fuel as [|f]; try (cbn in Hf; lia).
  - reflexivity.
  - inversion Hp as [|? ? Hc Hr]; subst. cbn [length] in Hf. cbn [debug_esc flat_map].
    fold (debug_esc tz). unfold plain_char in Hc.
    destruct (N.eqb_spec c 34) as [->|H34].
    + cbn [orb app scan_quoted N.eqb Pos.eqb]. rewrite IH by (try assumption; lia). reflexivity.
    + destruct (N.eqb_spec c 92) as [->|H92].
      * cbn [orb app scan_quoted N.eqb Pos.eqb]. rewrite IH by (try assumption; lia). reflexivity.
      * cbn [orb app scan_quoted]. destruct (N.eqb_spec c 34); [contradiction|]. destruct (N.eqb_spec c 92); [contradiction|].
        rewrite IH by (try assumption; lia). reflexivity.
Qed.

Lemma debug_esc_length tz : (length tz <= length (debug_esc tz))%nat.
Proof. induction tz as [|c tz IH]; cbn [debug_esc flat_map length]; [lia|]. fold (debug_esc tz). rewrite app_length. destruct ((c =? 34) || (c =? 92)); cbn [length]; lia. Qed.

Lemma parse_term_quoted f tz c r : Forall (fun x => plain_char x = true) tz -> is_ws c = false -> c <> 40 ->
  parse_term (S f) (34 :: debug_esc tz ++ 34 :: c :: r) = Some (mkTerm tz true [], c :: r).
Proof.
  intros Hp Hws H40. cbn [parse_term]. change (trim_start (34 :: debug_esc tz ++ 34 :: c :: r)) with (34 :: debug_esc tz ++ 34 :: c :: r).
  cbn [parse_name N.eqb Pos.eqb].
  rewrite scan_quoted_roundtrip; [|exact Hp|rewrite app_length; cbn [length]; assert (H := debug_esc_length tz); lia].
  cbn [trim_start]. rewrite Hws. cbn [starts_with]. destruct (N.eqb_spec c 40); [contradiction|reflexivity].
Qed.

(* ---------------- calls ---------------- *)
Definition Ident (i : bytes) : Prop := i <> [] /\ Forall (fun x => is_ident_char x = true) i.

Lemma parse_term_call f name args_s ts s3 r : Ident name ->
  parse_args f args_s = Some (ts, s3) -> starts_with 41 (trim_start s3) = Some r ->
  parse_term (S f) (name ++ 40 :: args_s) = Some (mkTerm name false ts, r).
Proof.
  intros [Hne Hi] Ha Hc. cbn [parse_term]. rewrite trim_start_ident by assumption.
  rewrite (parse_name_ident name (40 :: args_s) Hne Hi (span_ident_app name 40 args_s Hi eq_refl)).
  change (trim_start (40 :: args_s)) with (40 :: args_s). cbn [starts_with N.eqb Pos.eqb]. rewrite Ha, Hc. reflexivity.
Qed.

Lemma parse_args_last g a r : Ident a -> parse_args (S (S g)) (a ++ 41 :: r) = Some ([mkTerm a false []], 41 :: r).
Proof.
  intros [Hne Hi]. cbn [parse_args]. rewrite trim_start_ident by assumption.
  rewrite parse_term_ident by (try assumption; try reflexivity; discriminate). reflexivity.
Qed.

Lemma parse_args_cons g a rest ts r : Ident a -> parse_args (S g) rest = Some (ts, r) ->
  parse_args (S (S g)) (a ++ 44 :: rest) = Some (mkTerm a false [] :: ts, r).
Proof.
  intros [Hne Hi] H. cbn [parse_args]. rewrite trim_start_ident by assumption.
  rewrite parse_term_ident by (try assumption; try reflexivity; discriminate).
  change (trim_start (44 :: rest)) with (44 :: rest). cbn [starts_with N.eqb Pos.eqb].
  cbn [parse_args] in H. rewrite H. reflexivity.
Qed.

Lemma parse_args_space g s : parse_args g (32 :: s) = parse_args g s.
Proof. destruct g as [|g]; [reflexivity|]. cbn [parse_args]. reflexivity. Qed.

Lemma unit_ident u : Ident (unit_name u).
Proof. destruct u; (split; [discriminate|repeat constructor]). Qed.

Lemma print_Z_Ident z : Ident (print_Z z).
Proof. destruct (print_Z_ident z) as [H1 H2]. split; assumption. Qed.

Lemma parse_unit_name u : parse_unit (mkTerm (unit_name u) false []) = Some u.
Proof. destruct u; reflexivity. Qed.

Lemma ident_lit (s : string) : forallb is_ident_char (b s) = true -> b s <> [] -> Ident (b s).
Proof. intros H Hne. split; [exact Hne|]. apply Forall_forall. intros x Hx. rewrite forallb_forall in H. apply H. exact Hx. Qed.

Ltac lit := apply ident_lit; [reflexivity|discriminate].

(* the parsed terms *)
Lemma term_call1 name a : Ident name -> Ident a ->
  term_of_string (name ++ 40 :: a ++ [41]) = Some (mkTerm name false [mkTerm a false []]).
Proof.
  intros Hn Ha. unfold term_of_string.
  assert (Hl : exists m, S (length (name ++ 40 :: a ++ [41])) = S (S (S (S m)))).
  { exists (length name + length a - 1)%nat. rewrite app_length. cbn [length]. rewrite app_length. cbn [length].
    destruct Hn as [Hne _], Ha as [Hae _]. destruct name; [congruence|]. destruct a; [congruence|]. cbn [length]. lia. }
  destruct Hl as [m ->].
  rewrite (parse_term_call (S (S (S m))) name (a ++ [41]) [mkTerm a false []] [41] [] Hn); [reflexivity| |reflexivity].
  apply parse_args_last. exact Ha.
Qed.

Lemma term_call2 name a c : Ident name -> Ident a -> Ident c ->
  term_of_string (name ++ 40 :: a ++ 44 :: 32 :: c ++ [41]) = Some (mkTerm name false [mkTerm a false []; mkTerm c false []]).
Proof.
  intros Hn Ha Hc. unfold term_of_string.
  assert (Hl : exists m, S (length (name ++ 40 :: a ++ 44 :: 32 :: c ++ [41])) = S (S (S (S (S m))))).
  { exists (length name + length a + length c)%nat. rewrite app_length. cbn [length]. rewrite app_length. cbn [length]. rewrite app_length. cbn [length]. lia. }
  destruct Hl as [m ->].
  rewrite (parse_term_call (S (S (S (S m)))) name (a ++ 44 :: 32 :: c ++ [41]) [mkTerm a false []; mkTerm c false []] [41] [] Hn); [reflexivity| |reflexivity].
  apply parse_args_cons; [exact Ha|]. rewrite parse_args_space. apply parse_args_last. exact Hc.
Qed.

Lemma term_timestamp_some u tz : Forall (fun x => plain_char x = true) tz ->
  term_of_string (b "Timestamp(" ++ unit_name u ++ b ", Some(""" ++ debug_esc tz ++ b """))")
  = Some (mkTerm (b "Timestamp") false [mkTerm (unit_name u) false []; mkTerm (b "Some") false [mkTerm tz true []]]).
Proof.
  intros Hp. unfold term_of_string.
  change (b "Timestamp(" ++ unit_name u ++ b ", Some(""" ++ debug_esc tz ++ b """))")
    with (b "Timestamp" ++ 40 :: (unit_name u ++ 44 :: 32 :: (b "Some" ++ 40 :: (34 :: debug_esc tz ++ 34 :: 41 :: [41])))).
  assert (Hl : exists m, S (length (b "Timestamp" ++ 40 :: (unit_name u ++ 44 :: 32 :: (b "Some" ++ 40 :: (34 :: debug_esc tz ++ 34 :: 41 :: [41]))))) = S (S (S (S (S (S (S m))))))).
  { exists (length (unit_name u) + length (debug_esc tz) + 15)%nat. cbn [b bytes_of_string app length]. rewrite app_length. cbn [length]. rewrite app_length. cbn [length]. lia. }
  destruct Hl as [m ->].
  rewrite (parse_term_call (S (S (S (S (S (S m)))))) (b "Timestamp") _ [mkTerm (unit_name u) false []; mkTerm (b "Some") false [mkTerm tz true []]] [41] []); [reflexivity|lit| |reflexivity].
  apply parse_args_cons; [apply unit_ident|]. rewrite parse_args_space.
  (* the last argument: Some("...") *)
  cbn [parse_args]. change (trim_start (b "Some" ++ 40 :: 34 :: debug_esc tz ++ 34 :: 41 :: [41])) with (b "Some" ++ 40 :: (34 :: debug_esc tz ++ 34 :: 41 :: [41])).
  rewrite (parse_term_call (S (S (S m))) (b "Some") (34 :: debug_esc tz ++ 34 :: 41 :: [41]) [mkTerm tz true []] [41; 41] [41]); [reflexivity|lit| |reflexivity].
  cbn [parse_args]. change (trim_start (34 :: debug_esc tz ++ 34 :: 41 :: [41])) with (34 :: debug_esc tz ++ 34 :: 41 :: [41]).
  rewrite parse_term_quoted by (try assumption; try reflexivity; discriminate). reflexivity.
Qed.

(* ---------------- the round trip of every data type name ---------------- *)
Definition children_of (d : YDT) : list YField :=
  match d with
  | YFixedList _ c | YMap c | YLargeList c | YList c => [c]
  | YStruct fs | YUnion fs => fs
  | YDict k v => [mkY (b "key") k false [] None; mkY (b "value") v false [] None]
  | _ => []
  end.

Definition param_ok (d : YDT) : Prop :=
  match d with
  | YFixedBin n | YFixedList n _ => (i32_lo <= n <= i32_hi)%Z
  | YDecimal p s => (0 <= p <= 255)%Z /\ (-128 <= s <= 127)%Z
  | YTimestamp _ (Some tz) => Forall (fun x => plain_char x = true) tz
  | YUnion fs => (length fs <= 128)%nat
  | _ => True
  end.

Local Arguments parse_unit : simpl never.
Local Arguments int_arg : simpl never.
Local Arguments parse_int : simpl never.

Theorem dsl_roundtrip : forall d, param_ok d -> build_data_type (print_dt d) (children_of d) = Some d.
Proof.
  intros d Hok. destruct d as [| |k| | | | | | | | | | | |p s|u|u|u|u tz|n|n c|fs|c|fs|k v|c|c]; cbn [print_dt children_of param_ok] in *;
    try (match goal with |- build_data_type (b _) _ = _ => vm_compute; reflexivity end).
  - destruct k; vm_compute; reflexivity.
  - (* Decimal128(p, s) *)
    destruct Hok as [Hp Hs]. unfold build_data_type.
    change (b "Decimal128(" ++ print_Z p ++ b ", " ++ print_Z s ++ b ")") with (b "Decimal128" ++ 40 :: print_Z p ++ 44 :: 32 :: print_Z s ++ [41]).
    rewrite term_call2 by (try lit; apply print_Z_Ident).
    cbn. unfold int_arg. cbn [as_ident]. rewrite !parse_int_print by assumption. reflexivity.
  - unfold build_data_type. change (b "Duration(" ++ unit_name u ++ b ")") with (b "Duration" ++ 40 :: unit_name u ++ [41]).
    rewrite term_call1 by (try lit; apply unit_ident). cbn. rewrite parse_unit_name. reflexivity.
  - unfold build_data_type. change (b "Time32(" ++ unit_name u ++ b ")") with (b "Time32" ++ 40 :: unit_name u ++ [41]).
    rewrite term_call1 by (try lit; apply unit_ident). cbn. rewrite parse_unit_name. reflexivity.
  - unfold build_data_type. change (b "Time64(" ++ unit_name u ++ b ")") with (b "Time64" ++ 40 :: unit_name u ++ [41]).
    rewrite term_call1 by (try lit; apply unit_ident). cbn. rewrite parse_unit_name. reflexivity.
  - destruct tz as [tz|].
    + unfold build_data_type. rewrite term_timestamp_some by exact Hok. cbn. rewrite parse_unit_name. reflexivity.
    + unfold build_data_type. change (b "Timestamp(" ++ unit_name u ++ b ", None)") with (b "Timestamp" ++ 40 :: unit_name u ++ 44 :: 32 :: b "None" ++ [41]).
      rewrite term_call2 by (try lit; apply unit_ident). cbn. rewrite parse_unit_name. reflexivity.
  - unfold build_data_type. change (b "FixedSizeBinary(" ++ print_Z n ++ b ")") with (b "FixedSizeBinary" ++ 40 :: print_Z n ++ [41]).
    rewrite term_call1 by (try lit; apply print_Z_Ident). cbn. unfold int_arg. cbn [as_ident]. rewrite parse_int_print by exact Hok. reflexivity.
  - unfold build_data_type. change (b "FixedSizeList(" ++ print_Z n ++ b ")") with (b "FixedSizeList" ++ 40 :: print_Z n ++ [41]).
    rewrite term_call1 by (try lit; apply print_Z_Ident). cbn. unfold int_arg. cbn [as_ident]. rewrite parse_int_print by exact Hok. reflexivity.
  - assert (E : term_of_string (b "Union") = Some (mkTerm (b "Union") false [])) by (vm_compute; reflexivity).
    unfold build_data_type. rewrite E. cbn. destruct (Nat.leb_spec (length fs) 128) as [_|Hgt]; [reflexivity|lia].
Qed.
