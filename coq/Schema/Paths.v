(* C18: the path and data type text every builder (serialization/outer_sequence_builder.rs:
   build_struct / build_builder) and every reader (deserializer.rs, deserialization/*: new) is
   constructed with, and the error annotation protocol (error.rs: the first context with a
   non-empty annotation wins). *)
From Verif Require Export Dsl.
Local Open Scope N_scope.

Definition child_name (n : bytes) : bytes := match n with [] => b "<empty>" | _ => n end.
Definition dot (p n : bytes) : bytes := p ++ [46] ++ n.

(* data_type text of the Context impl of each builder *)
Definition ser_dt_text (f : YField) : bytes :=
  match y_dt f with
  | YNull => match y_strategy f with
             | Some s => if bytes_eqb s (b "UnknownVariant") then b "<unknown variant>" else b "Null"
             | None => b "Null" end
  | YBool => b "Boolean"
  | YInt I8 => b "Int8" | YInt I16 => b "Int16" | YInt I32 => b "Int32" | YInt I64 => b "Int64"
  | YInt U8 => b "UInt8" | YInt U16 => b "UInt16" | YInt U32 => b "UInt32" | YInt U64 => b "UInt64"
  | YF16 => b "Float16" | YF32 => b "Float32" | YF64 => b "Float64"
  | YUtf8 => b "Utf8" | YLargeUtf8 => b "LargeUtf8" | YUtf8View => b "Utf8View"
  | YBinary => b "Binary" | YLargeBinary => b "LargeBinary" | YBinaryView => b "BinaryView"
  | YDate32 => b "Date32" | YDate64 => b "Date64" | YDecimal _ _ => b "Decimal128(..)"
  | YDuration _ => b "Duration(..)" | YTime32 _ => b "Time32" | YTime64 _ => b "Time64" | YTimestamp _ _ => b "Timestamp(..)"
  | YFixedBin _ => b "FixedSizeBinary(..)" | YFixedList _ _ => b "FixedSizeList(..)" | YStruct _ => b "Struct(..)"
  | YMap _ => b "Map(..)" | YUnion _ => b "Union(..)" | YDict _ _ => b "Dictionary(..)"
  | YList _ => b "List" | YLargeList _ => b "LargeList"
  end.
Definition de_dt_text (f : YField) : bytes :=
  match y_dt f with
  | YNull => b "Null"
  | YList _ => b "List(..)" | YLargeList _ => b "LargeList(..)"
  | _ => ser_dt_text f
  end.

Definition map_entries (e : YField) : option (YField * YField) :=
  match y_dt e with YStruct [k; v] => Some (k, v) | _ => None end.

(* the node reached by a route (child index per level; map: 0 = key, 1 = value) and its
   (path, data_type text). `raw_struct` = struct children are joined by their raw name (builders)
   instead of ChildName (readers). *)
Fixpoint node_at (raw_struct : bool) (dt_text : YField -> bytes) (path : bytes) (f : YField) (route : list nat) {struct route}
  : option (bytes * bytes) :=
  match route with
  | [] => Some (path, dt_text f)
  | i :: rest =>
    match y_dt f with
    | YList c | YLargeList c | YFixedList _ c =>
      match i with O => node_at raw_struct dt_text (dot path (child_name (y_name c))) c rest | _ => None end
    | YStruct fs =>
      match nth_error fs i with
      | Some c => node_at raw_struct dt_text (dot path (if raw_struct then y_name c else child_name (y_name c))) c rest
      | None => None end
    | YMap e =>
      match map_entries e with
      | Some (k, v) =>
        let base := dot path (child_name (y_name e)) in
        match i with
        | O => node_at raw_struct dt_text (dot base (child_name (y_name k))) k rest
        | S O => node_at raw_struct dt_text (dot base (child_name (y_name v))) v rest
        | _ => None end
      | None => None end
    | YUnion fs =>
      match nth_error fs i with
      | Some c => node_at raw_struct dt_text (dot path (child_name (y_name c))) c rest
      | None => None end
    | YDict k v =>
      (* only the dictionary builder has child builders: keys (nullable like the field) and values *)
      if raw_struct then
        match i with
        | O => node_at raw_struct dt_text (dot path (b "key")) (mkY (b "key") k (y_nullable f) [] None) rest
        | S O => node_at raw_struct dt_text (dot path (b "value")) (mkY (b "value") v false [] None) rest
        | _ => None end
      else None
    | _ => None
    end
  end.

(* a top-level field: builders are made by build_struct("$", fields) (raw names), readers by
   Deserializer::new (ChildName) *)
Definition ser_at (f : YField) (route : list nat) := node_at true ser_dt_text (dot (b "$") (y_name f)) f route.
Definition de_at (f : YField) (route : list nat) := node_at false de_dt_text (dot (b "$") (child_name (y_name f))) f route.

(* ---------------- the annotation protocol ---------------- *)
Definition Annot := list (bytes * bytes).
(* ContextSupport::ctx: annotate only when nothing is annotated yet *)
Definition ctx (err : Annot) (context : Annot) : Annot := match err with [] => context | _ => err end.
(* an error raised at a node passes the contexts from the innermost outwards *)
Definition propagate (contexts_inner_first : list Annot) : Annot := fold_left ctx contexts_inner_first [].
Definition node_annot (path dt : bytes) : Annot := [(b "data_type", dt); (b "field", path)].
Fixpoint lookup_annot (k : bytes) (a : Annot) : option bytes :=
  match a with [] => None | (k', v) :: r => if bytes_eqb k k' then Some v else lookup_annot k r end.
