(* The data type mini language (serde_arrow/src/internal/utils/dsl.rs: Term, FromStr) and the
   compact field form (schema/serde/serialize.rs: PrettyField, schema/serde/deserialize.rs:
   CustomField::into_field, build_data_type, merge_strategy_with_metadata; schema/mod.rs:
   validate_field). Text is bytes; identifiers are ASCII (the printer only emits ASCII names). *)
From Verif Require Export Value.
Local Open Scope N_scope.

(* ---------------- schema ---------------- *)
Inductive YDT :=
| YNull | YBool | YInt (k : IntKind) | YF16 | YF32 | YF64
| YUtf8 | YLargeUtf8 | YUtf8View | YBinary | YLargeBinary | YBinaryView
| YDate32 | YDate64 | YDecimal (p : Z) (s : Z) | YDuration (u : TimeUnit) | YTime32 (u : TimeUnit) | YTime64 (u : TimeUnit)
| YTimestamp (u : TimeUnit) (tz : option bytes)
| YFixedBin (n : Z) | YFixedList (n : Z) (f : YField) | YStruct (fs : list YField) | YMap (f : YField)
| YUnion (fs : list YField) | YDict (k v : YDT) | YList (f : YField) | YLargeList (f : YField)
with YField := mkY (name : bytes) (dt : YDT) (nullable : bool) (meta : list (bytes * bytes)) (strategy : option bytes).

Definition y_name f := match f with mkY n _ _ _ _ => n end.
Definition y_dt f := match f with mkY _ d _ _ _ => d end.
Definition y_nullable f := match f with mkY _ _ n _ _ => n end.
Definition y_meta f := match f with mkY _ _ _ m _ => m end.
Definition y_strategy f := match f with mkY _ _ _ _ s => s end.

(* ---------------- terms ---------------- *)
Inductive Term := mkTerm (name : bytes) (quoted : bool) (args : list Term).

Definition is_alpha (c : N) : bool := ((65 <=? c) && (c <=? 90)) || ((97 <=? c) && (c <=? 122)).
Definition is_ident_char (c : N) : bool := is_digit c || is_alpha c || (c =? 45) || (c =? 43).
Definition is_ws (c : N) : bool := (c =? 32) || ((9 <=? c) && (c <=? 13)).

Fixpoint trim_start (s : bytes) : bytes :=
  match s with c :: r => if is_ws c then trim_start r else s | [] => [] end.
Fixpoint span_ident (s : bytes) : bytes * bytes :=
  match s with
  | c :: r => if is_ident_char c then let '(i, r') := span_ident r in (c :: i, r') else ([], s)
  | [] => ([], [])
  end.

Definition hex_val (c : N) : option N :=
  if is_digit c then Some (c - 48) else if (97 <=? c) && (c <=? 102) then Some (c - 87)
  else if (65 <=? c) && (c <=? 70) then Some (c - 55) else None.

(* \u{XXXX}: hex digits up to '}' *)
Fixpoint scan_hex (s : bytes) (acc : N) : option (N * bytes) :=
  match s with
  | [] => None
  | c :: r => if c =? 125 then Some (acc, r)
              else match hex_val c with
                   | Some d => if 4294967295 <? acc * 16 + d then None else scan_hex r (acc * 16 + d)
                   | None => None end
  end.
Definition valid_scalar (n : N) : bool := (n <? 55296) || ((57344 <=? n) && (n <? 1114112)).

(* the text after the opening quote: the inverse of Rust's {:?} for strings *)
Fixpoint scan_quoted (fuel : nat) (s : bytes) : option (bytes * bytes) :=
  match fuel with
  | O => None
  | S f =>
    match s with
    | [] => None
    | c :: r =>
      if c =? 34 then Some ([], r)
      else if c =? 92 then
        match r with
        | [] => None
        | e :: r =>
          let cont (x : bytes) (r' : bytes) := match scan_quoted f r' with Some (t, r'') => Some (x ++ t, r'') | None => None end in
          if (e =? 34) || (e =? 92) || (e =? 39) then cont [e] r
          else if e =? 110 then cont [10] r else if e =? 114 then cont [13] r else if e =? 116 then cont [9] r
          else if e =? 48 then cont [0] r
          else if e =? 117 then
                 match r with
                 | o :: r1 => if o =? 123 then
                                match scan_hex r1 0 with
                                | Some (code, r2) => if valid_scalar code then cont (utf8_encode (Z.of_N code)) r2 else None
                                | None => None end
                              else None
                 | [] => None
                 end
          else None
        end
      else match scan_quoted f r with Some (t, r') => Some (c :: t, r') | None => None end
    end
  end.

Definition parse_name (s : bytes) : option (bytes * bool * bytes) :=
  match s with
  | c :: r =>
    if c =? 34 then match scan_quoted (S (length r)) r with Some (n, r') => Some (n, true, r') | None => None end
    else let '(i, r') := span_ident s in match i with [] => None | _ => Some (i, false, r') end
  | [] => None
  end.

Definition starts_with (c : N) (s : bytes) : option bytes :=
  match s with x :: r => if x =? c then Some r else None | [] => None end.

Fixpoint parse_term (fuel : nat) (s : bytes) {struct fuel} : option (Term * bytes) :=
  match fuel with
  | O => None
  | S f =>
    match parse_name (trim_start s) with
    | None => None
    | Some (name, quoted, s1) =>
      match starts_with 40 (trim_start s1) with
      | Some s2 =>
        match parse_args f s2 with
        | Some (ts, s3) => match starts_with 41 (trim_start s3) with Some r => Some (mkTerm name quoted ts, r) | None => None end
        | None => None
        end
      | None => Some (mkTerm name quoted [], trim_start s1)
      end
    end
  end
with parse_args (fuel : nat) (s : bytes) {struct fuel} : option (list Term * bytes) :=
  match fuel with
  | O => None
  | S g =>
    match parse_term g (trim_start s) with
    | None => None
    | Some (t, s') =>
      match starts_with 44 (trim_start s') with
      | Some s'' => match parse_args g s'' with Some (ts, r) => Some (t :: ts, r) | None => None end
      | None => Some ([t], trim_start s')
      end
    end
  end.

Definition term_of_string (s : bytes) : option Term :=
  match parse_term (S (length s)) s with
  | Some (t, rest) => match trim_start rest with [] => Some t | _ => None end
  | None => None
  end.

(* ---------------- numbers in identifiers: str::parse::<iN>() ---------------- *)
Definition parse_int (lo hi : Z) (s : bytes) : option Z :=
  let '(neg, ds) := match s with
                    | c :: r => if c =? 45 then (true, r) else if c =? 43 then (false, r) else (false, s)
                    | [] => (false, s) end in
  match ds with
  | [] => None
  | _ => if neg && (0 <=? lo)%Z then None          (* unsigned types take no minus sign, not even -0 *)
         else if forallb is_digit ds then
           let v := Z.of_N (parse_digits ds) in
           let z := if neg then (- v)%Z else v in
           if (lo <=? z)%Z && (z <=? hi)%Z then Some z else None
         else None
  end.

Definition as_ident (t : Term) : option bytes := match t with mkTerm n false [] => Some n | _ => None end.
Definition parse_unit (t : Term) : option TimeUnit :=
  match as_ident t with
  | Some n => if bytes_eqb n (b "Second") then Some Second else if bytes_eqb n (b "Millisecond") then Some Millisecond
              else if bytes_eqb n (b "Microsecond") then Some Microsecond else if bytes_eqb n (b "Nanosecond") then Some Nanosecond else None
  | None => None
  end.
Definition int_arg (lo hi : Z) (t : Term) : option Z := match as_ident t with Some n => parse_int lo hi n | None => None end.
Definition i32_lo : Z := -2147483648. Definition i32_hi : Z := 2147483647.

Definition one_child (cs : list YField) : option YField := match cs with [c] => Some c | _ => None end.

(* build_data_type *)
Definition build_data_type (s : bytes) (children : list YField) : option YDT :=
  match term_of_string s with
  | Some (mkTerm name false args) =>
    let is n := bytes_eqb name (b n) in
    let leaf (d : YDT) := match args with [] => Some d | _ => None end in
    if is "Null"%string then leaf YNull else if is "Bool"%string || is "Boolean"%string then leaf YBool
    else if is "Utf8"%string then leaf YUtf8 else if is "LargeUtf8"%string then leaf YLargeUtf8 else if is "Utf8View"%string then leaf YUtf8View
    else if is "U8"%string || is "UInt8"%string then leaf (YInt U8) else if is "U16"%string || is "UInt16"%string then leaf (YInt U16)
    else if is "U32"%string || is "UInt32"%string then leaf (YInt U32) else if is "U64"%string || is "UInt64"%string then leaf (YInt U64)
    else if is "I8"%string || is "Int8"%string then leaf (YInt I8) else if is "I16"%string || is "Int16"%string then leaf (YInt I16)
    else if is "I32"%string || is "Int32"%string then leaf (YInt I32) else if is "I64"%string || is "Int64"%string then leaf (YInt I64)
    else if is "F16"%string || is "Float16"%string then leaf YF16 else if is "F32"%string || is "Float32"%string then leaf YF32
    else if is "F64"%string || is "Float64"%string then leaf YF64
    else if is "Date32"%string then leaf YDate32 else if is "Date64"%string then leaf YDate64
    else if is "Binary"%string then leaf YBinary else if is "LargeBinary"%string then leaf YLargeBinary
    else if is "FixedSizeBinary"%string then match args with [n] => option_map YFixedBin (int_arg i32_lo i32_hi n) | _ => None end
    else if is "BinaryView"%string then leaf YBinaryView
    else if is "Timestamp"%string then
           match args with
           | [u; tz] =>
             match parse_unit u, tz with
             | Some u', mkTerm tn false [] => if bytes_eqb tn (b "None") then Some (YTimestamp u' None) else None
             | Some u', mkTerm tn false [mkTerm z true []] => if bytes_eqb tn (b "Some") then Some (YTimestamp u' (Some z)) else None
             | _, _ => None
             end
           | _ => None
           end
    else if is "Time32"%string then match args with [u] => option_map YTime32 (parse_unit u) | _ => None end
    else if is "Time64"%string then match args with [u] => option_map YTime64 (parse_unit u) | _ => None end
    else if is "Duration"%string then match args with [u] => option_map YDuration (parse_unit u) | _ => None end
    else if is "Decimal128"%string then
           match args with
           | [p; sc] => match int_arg 0 255 p, int_arg (-128) 127 sc with Some p', Some s' => Some (YDecimal p' s') | _, _ => None end
           | _ => None
           end
    else if is "Struct"%string then leaf (YStruct children)
    else if is "List"%string then match args with [] => option_map YList (one_child children) | _ => None end
    else if is "LargeList"%string then match args with [] => option_map YLargeList (one_child children) | _ => None end
    else if is "FixedSizeList"%string then
           match args with
           | [n] => match one_child children, int_arg i32_lo i32_hi n with Some c, Some n' => Some (YFixedList n' c) | _, _ => None end
           | _ => None
           end
    else if is "Dictionary"%string then
           match args, children with [], [k; v] => Some (YDict (y_dt k) (y_dt v)) | _, _ => None end
    else if is "Map"%string then match args with [] => option_map YMap (one_child children) | _ => None end
    else if is "Union"%string then match args with [] => if Nat.leb (length children) 128 then Some (YUnion children) else None | _ => None end
    else None
  | _ => None
  end.

(* ---------------- the printer (PrettyFieldDataType) ---------------- *)
Definition unit_name (u : TimeUnit) : bytes :=
  match u with Second => b "Second" | Millisecond => b "Millisecond" | Microsecond => b "Microsecond" | Nanosecond => b "Nanosecond" end.

(* {:?} of a string whose characters need no escape except the quote and the backslash *)
Definition debug_esc (s : bytes) : bytes :=
  flat_map (fun c => if (c =? 34) || (c =? 92) then [92; c] else [c]) s.
Definition plain_char (c : N) : bool := (32 <=? c) && (c <=? 126).

Definition print_dt (d : YDT) : bytes :=
  match d with
  | YNull => b "Null" | YBool => b "Bool"
  | YInt I8 => b "I8" | YInt I16 => b "I16" | YInt I32 => b "I32" | YInt I64 => b "I64"
  | YInt U8 => b "U8" | YInt U16 => b "U16" | YInt U32 => b "U32" | YInt U64 => b "U64"
  | YF16 => b "F16" | YF32 => b "F32" | YF64 => b "F64"
  | YUtf8 => b "Utf8" | YLargeUtf8 => b "LargeUtf8" | YUtf8View => b "Utf8View"
  | YBinary => b "Binary" | YLargeBinary => b "LargeBinary" | YBinaryView => b "BinaryView"
  | YDate32 => b "Date32" | YDate64 => b "Date64"
  | YDecimal p s => b "Decimal128(" ++ print_Z p ++ b ", " ++ print_Z s ++ b ")"
  | YDuration u => b "Duration(" ++ unit_name u ++ b ")"
  | YTime32 u => b "Time32(" ++ unit_name u ++ b ")"
  | YTime64 u => b "Time64(" ++ unit_name u ++ b ")"
  | YTimestamp u None => b "Timestamp(" ++ unit_name u ++ b ", None)"
  | YTimestamp u (Some tz) => b "Timestamp(" ++ unit_name u ++ b ", Some(""" ++ debug_esc tz ++ b """))"
  | YFixedBin n => b "FixedSizeBinary(" ++ print_Z n ++ b ")"
  | YFixedList n _ => b "FixedSizeList(" ++ print_Z n ++ b ")"
  | YStruct _ => b "Struct" | YMap _ => b "Map" | YUnion _ => b "Union" | YDict _ _ => b "Dictionary"
  | YLargeList _ => b "LargeList" | YList _ => b "List"
  end.

(* ---------------- the field form as a serde value tree ---------------- *)
Inductive JV := JStr (s : bytes) | JBool (v : bool) | JArr (l : list JV) | JObj (kvs : list (bytes * JV)) | JOther (* numbers, null *).

Definition has_children (d : YDT) : bool :=
  match d with YFixedList _ _ | YStruct _ | YMap _ | YUnion _ | YDict _ _ | YLargeList _ | YList _ => true | _ => false end.

Fixpoint print_field (f : YField) : JV :=
  match f with
  | mkY name dt nullable meta strategy =>
    let children : list JV :=
        match dt with
        | YFixedList _ c | YMap c | YLargeList c | YList c => [print_field c]
        | YStruct fs | YUnion fs => (fix go (l : list YField) : list JV := match l with [] => [] | x :: r => print_field x :: go r end) fs
        | YDict k v => [JObj [(b "name", JStr (b "key")); (b "data_type", JStr (print_dt k))];
                        JObj [(b "name", JStr (b "value")); (b "data_type", JStr (print_dt v))]]
        | _ => []
        end in
    JObj ([(b "name", JStr name); (b "data_type", JStr (print_dt dt))]
          ++ (if nullable then [(b "nullable", JBool true)] else [])
          ++ (match meta with [] => [] | _ => [(b "metadata", JObj (map (fun kv => (fst kv, JStr (snd kv))) meta))] end)
          ++ (match strategy with Some s => [(b "strategy", JStr s)] | None => [] end)
          ++ (if has_children dt then [(b "children", JArr children)] else []))
  end.

Definition strategy_key : bytes := b "SERDE_ARROW:strategy".
Definition known_strategy (s : bytes) : bool :=
  bytes_eqb s (b "InconsistentTypes") || bytes_eqb s (b "TupleAsStruct") || bytes_eqb s (b "MapAsStruct") || bytes_eqb s (b "UnknownVariant").

Fixpoint jlookup (k : bytes) (kvs : list (bytes * JV)) : option JV :=
  match kvs with [] => None | (k', v) :: r => if bytes_eqb k k' then Some v else jlookup k r end.
Fixpoint count_key (k : bytes) (kvs : list (bytes * JV)) : nat :=
  match kvs with [] => O | (k', _) :: r => (if bytes_eqb k k' then 1 else 0) + count_key k r end%nat.

(* strategy allowed for the data type (validate_field) *)
Definition strategy_ok (d : YDT) (s : option bytes) : bool :=
  match s with
  | None => true
  | Some st =>
    match d with
    | YNull => bytes_eqb st (b "InconsistentTypes") || bytes_eqb st (b "UnknownVariant")
    | YStruct _ => bytes_eqb st (b "MapAsStruct") || bytes_eqb st (b "TupleAsStruct")
    | _ => false
    end
  end.

Definition is_int_dt (d : YDT) : bool := match d with YInt _ => true | _ => false end.

(* local checks of validate_field (children are validated when they are parsed) *)
Definition validate_local (d : YDT) (s : option bytes) : bool :=
  strategy_ok d s &&
  match d with
  | YFixedBin n | YFixedList n _ => (0 <=? n)%Z
  | YTime32 u => match u with Second | Millisecond => true | _ => false end
  | YTime64 u => match u with Microsecond | Nanosecond => true | _ => false end
  | YDict k v => is_int_dt k && match v with YUtf8 | YLargeUtf8 => true | _ => false end
  | YMap e => match y_dt e with YStruct [_; _] => true | _ => false end
  | _ => true
  end.

(* validity of a whole field tree (validate_field recursing into children): what a foreign field
   object passed as a schema value has to satisfy at every depth *)
Fixpoint valid_y (f : YField) : bool :=
  match f with
  | mkY _ d _ _ s =>
    match s with Some st => known_strategy st | None => true end && validate_local d s &&
    match d with
    | YFixedList _ c | YMap c | YList c | YLargeList c => valid_y c
    | YStruct fs | YUnion fs => (fix go (fs : list YField) : bool := match fs with [] => true | c :: r => valid_y c && go r end) fs
    | _ => true
    end
  end.

Definition dup_key (kvs : list (bytes * JV)) : bool :=
  existsb (fun k => Nat.ltb 1 (count_key (b k) kvs)) ["name"; "data_type"; "nullable"; "strategy"; "children"; "metadata"]%string.

(* CustomField (derived Deserialize: unknown keys ignored, duplicate keys refused) then into_field *)
Fixpoint parse_field (j : JV) : option YField :=
  match j with
  | JObj kvs =>
    if dup_key kvs then None else
    match jlookup (b "name") kvs, jlookup (b "data_type") kvs with
    | Some (JStr name), Some (JStr dts) =>
      let nullable := match jlookup (b "nullable") kvs with None => Some false | Some (JBool x) => Some x | Some _ => None end in
      let strategy := match jlookup (b "strategy") kvs with
                      | None => Some None
                      | Some (JStr s) => if known_strategy s then Some (Some s) else None
                      | Some _ => None end in
      let children :=
          (fix fc (kvs : list (bytes * JV)) : option (list YField) :=
             match kvs with
             | [] => Some []
             | (k, v) :: r =>
               if bytes_eqb (b "children") k then
                 match v with
                 | JArr l => (fix go (l : list JV) : option (list YField) :=
                                match l with
                                | [] => Some []
                                | x :: r => match parse_field x, go r with Some f, Some fs => Some (f :: fs) | _, _ => None end
                                end) l
                 | _ => None
                 end
               else fc r
             end) kvs in
      let meta := match jlookup (b "metadata") kvs with
                  | None => Some []
                  | Some (JObj m) => (fix go (m : list (bytes * JV)) : option (list (bytes * bytes)) :=
                                        match m with
                                        | [] => Some []
                                        | (k, JStr v) :: r => match go r with Some ms => Some ((k, v) :: ms) | None => None end
                                        | _ => None
                                        end) m
                  | Some _ => None end in
      match nullable, strategy, children, meta with
      | Some nl, Some st, Some cs, Some ms =>
        match build_data_type dts cs with
        | Some dt =>
          (* merge_strategy_with_metadata: a strategy both in the metadata map and as a key is refused;
             the normal form keeps the strategy out of the metadata map *)
          let in_meta := find (fun kv : bytes * bytes => bytes_eqb (fst kv) strategy_key) ms in
          let merged := match st, in_meta with
                        | Some _, Some _ => None
                        | Some s, None => Some (Some s)
                        | None, Some (_, s) => if known_strategy s then Some (Some s) else None
                        | None, None => Some None
                        end in
          match merged with
          | Some st' =>
            let ms' := filter (fun kv : bytes * bytes => negb (bytes_eqb (fst kv) strategy_key)) ms in
            let nl' := match dt with YNull => true | _ => nl end in
            if validate_local dt st' then Some (mkY name dt nl' ms' st') else None
          | None => None
          end
        | None => None
        end
      | _, _, _, _ => None
      end
    | _, _ => None
    end
  | _ => None
  end.

(* both top-level forms *)
Definition parse_schema (j : JV) : option (list YField) :=
  let fields (l : list JV) := (fix go (l : list JV) : option (list YField) :=
                                 match l with [] => Some [] | x :: r => match parse_field x, go r with Some f, Some fs => Some (f :: fs) | _, _ => None end end) l in
  match j with
  | JArr l => fields l
  | JObj kvs => match jlookup (b "fields") (rev kvs) with Some (JArr l) => fields l | _ => None end   (* the last entry wins *)
  | _ => None
  end.
