(* C09: the compact field form round trips: parse_field (print_field f) = Some (norm f) for every
   valid field tree - any nesting, every data type and parameter, metadata, strategy - where norm
   is the normal form of the reader (Null fields are nullable). *)
From Verif Require Import Dsl Dsl_proofs.
Require Import ZifyBool ZifyN ZifyNat.
Local Open Scope nat_scope.

Section YFieldInd.
  Variable P : YField -> Prop.
  Definition YIH (dt : YDT) : Prop :=
    match dt with
    | YFixedList _ c | YMap c | YList c | YLargeList c => P c
    | YStruct fs | YUnion fs => Forall P fs
    | _ => True
    end.
  Hypothesis H : forall n dt nl m s, YIH dt -> P (mkY n dt nl m s).
  Fixpoint YField_ind' (f : YField) : P f :=
    match f with
    | mkY n dt nl m s =>
      H n dt nl m s
        (match dt return YIH dt with
         | YFixedList _ c | YMap c | YList c | YLargeList c => YField_ind' c
         | YStruct fs | YUnion fs => (fix go (l : list YField) : Forall P l :=
                                        match l with [] => Forall_nil _ | x :: r => Forall_cons x (YField_ind' x) (go r) end) fs
         | _ => I
         end)
    end.
End YFieldInd.

Definition null_nullable (d : YDT) (nl : bool) : bool := match d with YNull => true | _ => nl end.

Fixpoint norm (f : YField) : YField :=
  match f with
  | mkY n d nl m s =>
    let d' := match d with
              | YFixedList k c => YFixedList k (norm c) | YMap c => YMap (norm c)
              | YList c => YList (norm c) | YLargeList c => YLargeList (norm c)
              | YStruct fs => YStruct ((fix go (l : list YField) : list YField := match l with [] => [] | x :: r => norm x :: go r end) fs)
              | YUnion fs => YUnion ((fix go (l : list YField) : list YField := match l with [] => [] | x :: r => norm x :: go r end) fs)
              | _ => d
              end in
    mkY n d' (null_nullable d nl) m s
  end.

Definition normd (d : YDT) : YDT :=
  match d with
  | YFixedList k c => YFixedList k (norm c) | YMap c => YMap (norm c)
  | YList c => YList (norm c) | YLargeList c => YLargeList (norm c)
  | YStruct fs => YStruct (map norm fs) | YUnion fs => YUnion (map norm fs)
  | _ => d
  end.

Lemma norm_eq n d nl m s : norm (mkY n d nl m s) = mkY n (normd d) (null_nullable d nl) m s.
Proof.
  destruct d; reflexivity.
Qed.

(* validity of the whole tree, as a proposition *)
Definition meta_free (m : list (bytes * bytes)) : Prop := Forall (fun kv : bytes * bytes => bytes_eqb (fst kv) strategy_key = false) m.

Fixpoint field_ok (f : YField) : Prop :=
  match f with
  | mkY _ d _ m s =>
    match s with Some st => known_strategy st = true | None => True end /\ validate_local d s = true /\ param_ok d /\ meta_free m /\
    match d with
    | YFixedList _ c | YMap c | YList c | YLargeList c => field_ok c
    | YStruct fs | YUnion fs => (fix go (l : list YField) : Prop := match l with [] => True | x :: r => field_ok x /\ go r end) fs
    | _ => True
    end
  end.

Lemma field_ok_children fs : (fix go (l : list YField) : Prop := match l with [] => True | x :: r => field_ok x /\ go r end) fs <-> Forall field_ok fs.
Proof. induction fs as [|x r IH]; [split; constructor|]. split; [intros [H1 H2]; constructor; [exact H1|apply IH, H2]|intros H; inversion H; subst; split; [assumption|apply IH; assumption]]. Qed.

(* ---- pieces of parse_field on a printed object ---- *)
Lemma meta_parse m :
  (fix go (m : list (bytes * JV)) : option (list (bytes * bytes)) :=
     match m with
     | [] => Some []
     | (k, JStr v) :: r => match go r with Some ms => Some ((k, v) :: ms) | None => None end
     | _ => None
     end) (map (fun kv : bytes * bytes => (fst kv, JStr (snd kv))) m) = Some m.
Proof. induction m as [|[k v] r IH]; [reflexivity|]. cbn [map fst snd]. rewrite IH. reflexivity. Qed.

Lemma meta_free_find m : meta_free m -> find (fun kv : bytes * bytes => bytes_eqb (fst kv) strategy_key) m = None.
Proof. induction 1 as [|kv r Hk _ IH]; [reflexivity|]. cbn [find]. rewrite Hk. exact IH. Qed.

Lemma meta_free_filter m : meta_free m -> filter (fun kv : bytes * bytes => negb (bytes_eqb (fst kv) strategy_key)) m = m.
Proof. induction 1 as [|kv r Hk _ IH]; [reflexivity|]. cbn [filter]. rewrite Hk. cbn [negb]. rewrite IH. reflexivity. Qed.

Definition parse_children (l : list JV) : option (list YField) :=
  (fix go (l : list JV) : option (list YField) :=
     match l with
     | [] => Some []
     | x :: r => match parse_field x, go r with Some f, Some fs => Some (f :: fs) | _, _ => None end
     end) l.

Lemma parse_children_map cs : Forall (fun c => parse_field (print_field c) = Some (norm c)) cs ->
  parse_children (map print_field cs) = Some (map norm cs).
Proof. induction 1 as [|c r Hc _ IH]; [reflexivity|]. unfold parse_children in *. cbn [map]. rewrite Hc, IH. reflexivity. Qed.

Definition parse_meta (m : list (bytes * JV)) : option (list (bytes * bytes)) :=
  (fix go (m : list (bytes * JV)) : option (list (bytes * bytes)) :=
     match m with
     | [] => Some []
     | (k, JStr v) :: r => match go r with Some ms => Some ((k, v) :: ms) | None => None end
     | _ => None
     end) m.

Fixpoint find_children (kvs : list (bytes * JV)) : option (list YField) :=
  match kvs with
  | [] => Some []
  | (k, v) :: r => if bytes_eqb (b "children") k then match v with JArr l => parse_children l | _ => None end else find_children r
  end.

Lemma parse_field_obj kvs :
  parse_field (JObj kvs) =
  if dup_key kvs then None else
  match jlookup (b "name") kvs, jlookup (b "data_type") kvs with
  | Some (JStr name), Some (JStr dts) =>
    let nullable := match jlookup (b "nullable") kvs with None => Some false | Some (JBool x) => Some x | Some _ => None end in
    let strategy := match jlookup (b "strategy") kvs with
                    | None => Some None
                    | Some (JStr s) => if known_strategy s then Some (Some s) else None
                    | Some _ => None end in
    let meta := match jlookup (b "metadata") kvs with None => Some [] | Some (JObj m) => parse_meta m | Some _ => None end in
    match nullable, strategy, find_children kvs, meta with
    | Some nl, Some st, Some cs, Some ms =>
      match build_data_type dts cs with
      | Some dt =>
        let in_meta := find (fun kv : bytes * bytes => bytes_eqb (fst kv) strategy_key) ms in
        let merged := match st, in_meta with
                      | Some _, Some _ => None
                      | Some s, None => Some (Some s)
                      | None, Some (_, s) => if known_strategy s then Some (Some s) else None
                      | None, None => Some None
                      end in
        match merged with
        | Some st' =>
          let ms' := filter (fun kv : bytes * bytes => negb (bytes_eqb (fst kv) strategy_key)) ms in
          let nl' := match dt with YNull => true | _ => nl end in
          if validate_local dt st' then Some (mkY name dt nl' ms' st') else None
        | None => None
        end
      | None => None
      end
    | _, _, _, _ => None
    end
  | _, _ => None
  end.
Proof.
  cbn [parse_field].
  assert (E : forall l, (fix fc (kvs : list (bytes * JV)) : option (list YField) :=
             match kvs with
             | [] => Some []
             | (k, v) :: r =>
               if bytes_eqb (b "children") k then
                 match v with
                 | JArr l => (fix go (l : list JV) : option (list YField) :=
                                match l with
                                | [] => Some []
                                | x :: r => match parse_field x, go r with Some f, Some fs => Some (f :: fs) | _, _ => None end
                                end) l
                 | _ => None
                 end
               else fc r
             end) l = find_children l).
  { induction l as [|[k v] r IH]; [reflexivity|]. cbn [find_children]. rewrite <- IH. reflexivity. }
  rewrite E. reflexivity.
Qed.

(* the object print_field builds, with its optional parts made explicit *)
Definition printed (n dts : bytes) (nl : bool) (m : list (bytes * bytes)) (s : option bytes) (children : option (list JV)) : JV :=
  JObj ([(b "name", JStr n); (b "data_type", JStr dts)]
          ++ (if nl then [(b "nullable", JBool true)] else [])
          ++ (match m with [] => [] | _ => [(b "metadata", JObj (map (fun kv : bytes * bytes => (fst kv, JStr (snd kv))) m))] end)
          ++ (match s with Some st => [(b "strategy", JStr st)] | None => [] end)
          ++ (match children with Some l => [(b "children", JArr l)] | None => [] end)).

Definition pkvs (n dts : bytes) (nl : bool) (m : list (bytes * bytes)) (s : option bytes) (children : option (list JV)) : list (bytes * JV) :=
  match printed n dts nl m s children with JObj kvs => kvs | _ => [] end.

Ltac opts nl m s children := destruct nl; destruct m as [|? ?]; destruct s as [?|]; destruct children as [?|]; reflexivity.

Lemma pk_dup n dts nl m s c : dup_key (pkvs n dts nl m s c) = false.                               Proof. opts nl m s c. Qed.
Lemma pk_name n dts nl m s c : jlookup (b "name") (pkvs n dts nl m s c) = Some (JStr n).            Proof. opts nl m s c. Qed.
Lemma pk_dt n dts nl m s c : jlookup (b "data_type") (pkvs n dts nl m s c) = Some (JStr dts).       Proof. opts nl m s c. Qed.
Lemma pk_nl n dts nl m s c : jlookup (b "nullable") (pkvs n dts nl m s c) = if nl then Some (JBool true) else None.  Proof. opts nl m s c. Qed.
Lemma pk_st n dts nl m s c : jlookup (b "strategy") (pkvs n dts nl m s c) = match s with Some st => Some (JStr st) | None => None end.  Proof. opts nl m s c. Qed.
Lemma pk_meta n dts nl m s c : jlookup (b "metadata") (pkvs n dts nl m s c)
  = match m with [] => None | _ => Some (JObj (map (fun kv : bytes * bytes => (fst kv, JStr (snd kv))) m)) end.  Proof. opts nl m s c. Qed.
Lemma pk_children n dts nl m s c : find_children (pkvs n dts nl m s c) = match c with Some l => parse_children l | None => Some [] end.  Proof. opts nl m s c. Qed.

Lemma parse_printed n dts nl m s children cs :
  match s with Some st => known_strategy st = true | None => True end -> meta_free m ->
  match children with Some l => parse_children l = Some cs | None => cs = [] end ->
  parse_field (printed n dts nl m s children) =
  match build_data_type dts cs with
  | Some dt => if validate_local dt s then Some (mkY n dt (null_nullable dt nl) m s) else None
  | None => None
  end.
Proof.
  intros Hs Hm Hc. change (printed n dts nl m s children) with (JObj (pkvs n dts nl m s children)).
  rewrite parse_field_obj, pk_dup, pk_name, pk_dt, pk_nl, pk_st, pk_meta, pk_children. cbv zeta.
  assert (Ech : match children with Some l => parse_children l | None => Some [] end = Some cs) by (destruct children; [exact Hc|subst; reflexivity]).
  rewrite Ech.
  assert (Em : match (match m with [] => None | _ => Some (JObj (map (fun kv : bytes * bytes => (fst kv, JStr (snd kv))) m)) end) with
               | None => Some [] | Some (JObj m0) => parse_meta m0 | Some _ => None end = Some m).
  { destruct m as [|kv r]; [reflexivity|]. apply (meta_parse (kv :: r)). }
  rewrite Em.
  assert (Es : match (match s with Some st => Some (JStr st) | None => None end) with
               | None => Some None | Some (JStr s0) => if known_strategy s0 then Some (Some s0) else None | Some _ => None end = Some s).
  { destruct s as [st|]; [rewrite Hs; reflexivity|reflexivity]. }
  rewrite Es.
  replace (match (if nl then Some (JBool true) else None) with None => Some false | Some (JBool x) => Some x | Some _ => None end) with (Some nl) by (destruct nl; reflexivity).
  destruct (build_data_type dts cs) as [dt|]; [|reflexivity].
  rewrite (meta_free_find _ Hm), (meta_free_filter _ Hm). destruct s; reflexivity.
Qed.

(* ---- print_field in the explicit form ---- *)
Lemma print_field_printed n d nl m s : validate_local d s = true ->
  print_field (mkY n d nl m s) = printed n (print_dt d) nl m s (if has_children d then Some (map print_field (children_of d)) else None).
Proof.
  intros Hv. destruct d; try reflexivity.
  (* dictionaries: key and value are leaf types, printed without optional parts *)
  unfold validate_local in Hv. apply andb_true_iff in Hv as [_ Hv]. apply andb_true_iff in Hv as [Hk Hv].
  destruct d1; try discriminate Hk. destruct d2; try discriminate Hv; reflexivity.
Qed.

Lemma print_dt_normd d : print_dt (normd d) = print_dt d.
Proof. destruct d; reflexivity. Qed.

Lemma null_nullable_normd d nl : null_nullable (normd d) nl = null_nullable d nl.
Proof. destruct d; reflexivity. Qed.

Lemma children_of_normd d s : validate_local d s = true -> children_of (normd d) = map norm (children_of d).
Proof.
  intros Hv. destruct d; try reflexivity.
  unfold validate_local in Hv. apply andb_true_iff in Hv as [_ Hv]. apply andb_true_iff in Hv as [Hk Hv].
  destruct d1; try discriminate Hk. destruct d2; try discriminate Hv; reflexivity.
Qed.

Lemma param_ok_normd d : param_ok d -> param_ok (normd d).
Proof. destruct d; cbn [normd param_ok]; try exact (fun H => H). rewrite map_length. exact (fun H => H). Qed.

Lemma y_dt_norm c : match y_dt (norm c) with YStruct [_; _] => true | _ => false end = match y_dt c with YStruct [_; _] => true | _ => false end.
Proof. destruct c as [n d nl m s]. rewrite norm_eq. cbn [y_dt]. destruct d; try reflexivity. cbn [normd]. destruct fs as [|a [|c [|e r]]]; reflexivity. Qed.

Lemma validate_local_normd d s : validate_local (normd d) s = validate_local d s.
Proof.
  unfold validate_local. f_equal; [destruct d; reflexivity|]. destruct d; try reflexivity. cbn [normd].
  pose proof (y_dt_norm f) as E. destruct (y_dt (norm f)) as [| | | | | | | | | | | | | | | | | | | | |fs1| | | | |]; destruct (y_dt f) as [| | | | | | | | | | | | | | | | | | | | |fs2| | | | |]; try reflexivity; try discriminate E;
    try (destruct fs1 as [|a1 [|b1 [|c1 r1]]]; try reflexivity; try discriminate E);
    try (destruct fs2 as [|a2 [|b2 [|c2 r2]]]; try reflexivity; try discriminate E).
Qed.

(* the synthetic children of a dictionary *)
Lemma dict_children_roundtrip d s k v : d = YDict k v -> validate_local d s = true ->
  Forall (fun c => parse_field (print_field c) = Some (norm c)) (children_of d).
Proof.
  intros -> Hv. unfold validate_local in Hv. apply andb_true_iff in Hv as [_ Hv]. apply andb_true_iff in Hv as [Hk Hv].
  destruct k as [| |ik| | | | | | | | | | | | | | | | | | | | | | | |]; try discriminate Hk. destruct v; try discriminate Hv; destruct ik; repeat constructor.
Qed.

Theorem field_roundtrip : forall f, field_ok f -> parse_field (print_field f) = Some (norm f).
Proof.
  intros f. induction f as [n d nl m s IH] using YField_ind'. intros (Hs & Hv & Hp & Hm & Hch).
  rewrite (print_field_printed n d nl m s Hv), norm_eq.
  assert (Hkids : Forall (fun c => parse_field (print_field c) = Some (norm c)) (children_of d)).
  { destruct d; cbn [children_of YIH] in *.
    all: try apply Forall_nil.
    all: try (apply Forall_cons; [apply IH; exact Hch|apply Forall_nil]).
    all: try (apply field_ok_children in Hch; rewrite Forall_forall in *; intros c Hin; apply (IH c Hin), (Hch c Hin)).
    exact (dict_children_roundtrip (YDict d1 d2) s d1 d2 eq_refl Hv). }
  rewrite (parse_printed n (print_dt d) nl m s _ (map norm (children_of d)) Hs Hm).
  - rewrite <- (print_dt_normd d), <- (children_of_normd d s Hv), (dsl_roundtrip (normd d) (param_ok_normd d Hp)).
    rewrite validate_local_normd, Hv, null_nullable_normd. reflexivity.
  - destruct (has_children d) eqn:Eh; [apply parse_children_map; exact Hkids|]. destruct d; try discriminate Eh; reflexivity.
Qed.

(* the hypothesis of the theorem implies what the executable validity check (valid_y, used to judge
   foreign field objects on every run) accepts *)
Theorem field_ok_valid : forall f, field_ok f -> valid_y f = true.
Proof.
  intros f. induction f as [n d nl m s IH] using YField_ind'. intros (Hs & Hv & _ & _ & Hch). cbn [valid_y].
  rewrite Hv. assert (Es : match s with Some st => known_strategy st | None => true end = true) by (destruct s; [exact Hs|reflexivity]). rewrite Es. cbn [andb].
  destruct d; cbn [YIH] in *; try reflexivity; try (apply IH; exact Hch).
  - apply field_ok_children in Hch. induction fs as [|x r IHr]; [reflexivity|]. inversion IH; subst. inversion Hch; subst. rewrite (H1 H3). cbn [andb]. apply IHr; assumption.
  - apply field_ok_children in Hch. induction fs as [|x r IHr]; [reflexivity|]. inversion IH; subst. inversion Hch; subst. rewrite (H1 H3). cbn [andb]. apply IHr; assumption.
Qed.
