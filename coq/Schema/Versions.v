(* C19: the version selection of build.rs and the re-export of lib.rs, over the tables regenerated
   from the source on every run (Gen/ArrowVersions.v). *)
From Coq Require Import List Arith Lia Bool.
From Verif Require Import ArrowVersions.
Import ListNotations.

(* build.rs: the values of the enabled features, then `.max()` *)
Definition enabled_values (pairs : list (nat * nat)) (enabled : nat -> bool) : list nat :=
  map snd (filter (fun p => enabled (fst p)) pairs).
Fixpoint list_max_opt (l : list nat) : option nat :=
  match l with [] => None | x :: r => match list_max_opt r with Some m => Some (Nat.max x m) | None => Some x end end.
Definition selected (pairs : list (nat * nat)) (enabled : nat -> bool) : option nat := list_max_opt (enabled_values pairs enabled).

(* the cfgs the build script emits *)
Definition has_arrow_n (enabled : nat -> bool) (n : nat) : bool :=
  match selected build_pairs enabled with Some v => Nat.eqb v n | None => false end.
Definition fixed_binary_support (enabled : nat -> bool) : bool := match selected build_pairs enabled with Some v => Nat.leb 47 v | None => false end.
Definition bytes_view_support (enabled : nat -> bool) : bool := match selected build_pairs enabled with Some v => Nat.leb 53 v | None => false end.

Lemma list_max_opt_spec l m : list_max_opt l = Some m -> In m l /\ Forall (fun x => x <= m) l.
Proof.
  revert m; induction l as [|x r IH]; intros m H; cbn in H; [discriminate|].
  destruct (list_max_opt r) as [m'|] eqn:E.
  - inversion H; subst. destruct (IH m' eq_refl) as [Hin Hall]. split.
    + destruct (Nat.max_spec x m') as [[_ ->]|[_ ->]]; [right; exact Hin|left; reflexivity].
    + constructor; [lia|]. eapply Forall_impl; [|exact Hall]. intros a Ha. cbn in Ha. lia.
  - inversion H; subst. destruct r; [|cbn in E; destruct (list_max_opt r); discriminate]. split; [left; reflexivity|repeat constructor].
Qed.

Lemma list_max_opt_none l : list_max_opt l = None <-> l = [].
Proof. destruct l as [|x r]; cbn; [tauto|]. destruct (list_max_opt r); split; intros H; discriminate. Qed.

(* every (feature, value) pair of the build script names the same version twice *)
Definition pairs_consistent (pairs : list (nat * nat)) : bool := forallb (fun p => Nat.eqb (fst p) (snd p)) pairs.

(* the selected version is an enabled feature and no enabled feature is higher: for ANY table whose
   pairs are consistent and ANY set of enabled features *)
Theorem selected_is_highest pairs enabled v : pairs_consistent pairs = true -> selected pairs enabled = Some v ->
  enabled v = true /\ In (v, v) pairs /\ forall f, In (f, f) pairs -> enabled f = true -> f <= v.
Proof.
  intros Hc Hs. unfold selected in Hs. destruct (list_max_opt_spec _ _ Hs) as [Hin Hall].
  unfold enabled_values in *. apply in_map_iff in Hin as [[f v'] [Hv Hf]]. cbn in Hv. subst v'.
  apply filter_In in Hf as [Hp He]. cbn in He.
  unfold pairs_consistent in Hc. rewrite forallb_forall in Hc. assert (Hfv := Hc _ Hp). cbn in Hfv. apply Nat.eqb_eq in Hfv. subst f.
  split; [exact He|]. split; [exact Hp|]. intros f Hf He'. rewrite Forall_forall in Hall. apply Hall.
  apply in_map_iff. exists (f, f). split; [reflexivity|]. apply filter_In. split; [exact Hf|exact He'].
Qed.

Theorem nothing_selected_iff_nothing_enabled pairs enabled :
  selected pairs enabled = None <-> forall p, In p pairs -> enabled (fst p) = false.
Proof.
  unfold selected. rewrite list_max_opt_none. unfold enabled_values. split.
  - intros H p Hp. destruct (enabled (fst p)) eqn:E; [|reflexivity]. exfalso.
    assert (In (snd p) (map snd (filter (fun q => enabled (fst q)) pairs))) by (apply in_map; apply filter_In; split; assumption).
    rewrite H in H0. destruct H0.
  - intros H. destruct (filter (fun q => enabled (fst q)) pairs) as [|q r] eqn:E; [reflexivity|]. exfalso.
    assert (In q (filter (fun q => enabled (fst q)) pairs)) by (rewrite E; left; reflexivity).
    apply filter_In in H0 as [Hq He]. rewrite (H q Hq) in He. discriminate.
Qed.

(* the tables of the current source *)
Definition versions_of_build : list nat := map fst build_pairs.
Definition tables_ok : bool :=
  pairs_consistent build_pairs && pairs_consistent build_pairs_arrow2 && Nat.eqb build_uses_max 2
  && forallb (fun t : nat * nat * nat * nat => let '(f, a, s, m) := t in Nat.eqb f a && Nat.eqb f s && Nat.eqb f m) cargo_features
  && forallb (fun p => Nat.eqb (fst p) (snd p)) cargo_deps
  && forallb (fun t : nat * nat * nat => let '(c, a, s) := t in Nat.eqb c a && Nat.eqb c s) lib_reexports
  && (* the same set of versions everywhere *)
     forallb (fun v => existsb (fun t : nat * nat * nat * nat => Nat.eqb (fst (fst (fst t))) v) cargo_features
                       && existsb (fun t : nat * nat * nat => Nat.eqb (fst (fst t)) v) lib_reexports
                       && Nat.leb 2 (length (filter (fun p => Nat.eqb (fst p) v) cargo_deps))) versions_of_build
  && Nat.eqb (length cargo_features) (length build_pairs) && Nat.eqb (length lib_reexports) (length build_pairs)
  && (match build_thresholds with [47; 53] => true | _ => false end).

Theorem tables_consistent : tables_ok = true.
Proof. vm_compute. reflexivity. Qed.

(* for the current tables: whatever features are enabled, exactly the highest enabled version gets
   its has_arrow_N cfg *)
Theorem has_arrow_exactly_highest enabled n : has_arrow_n enabled n = true ->
  enabled n = true /\ forall f, In (f, f) build_pairs -> enabled f = true -> f <= n.
Proof.
  unfold has_arrow_n. destruct (selected build_pairs enabled) as [v|] eqn:E; [|discriminate].
  intros H. apply Nat.eqb_eq in H. subst v.
  assert (Hc : pairs_consistent build_pairs = true) by (vm_compute; reflexivity).
  destruct (selected_is_highest _ _ _ Hc E) as [He [_ Hmax]]. split; assumption.
Qed.

Theorem has_arrow_unique enabled n m : has_arrow_n enabled n = true -> has_arrow_n enabled m = true -> n = m.
Proof.
  unfold has_arrow_n. destruct (selected build_pairs enabled) as [v|]; [|discriminate].
  intros H1 H2. apply Nat.eqb_eq in H1. apply Nat.eqb_eq in H2. congruence.
Qed.
