(* What the models encode about the dispatch and method tables of the serialization and
   deserialization layers, as literal tables; the theorems below compare them with the tables
   regenerated from /repo's source on every run (Gen/SerializerTables.v, tools/translate.py).
   A changed default method, a builder or reader that gains or loses a serde method, a data type
   routed to another builder or reader: each changes a generated table and breaks a theorem. *)
From Coq Require Import List String Bool.
From Verif Require Import SerializerTables.
Import ListNotations.
Local Open Scope string_scope.

Fixpoint lookup {A} (k : string) (l : list (string * A)) : option A :=
  match l with [] => None | (k', v) :: r => if String.eqb k k' then Some v else lookup k r end.

Definition str_list_eqb (x y : list string) : bool :=
  (fix go x y := match x, y with [] , [] => true | a :: x', c :: y' => String.eqb a c && go x' y' | _, _ => false end) x y.

(* ---- the transparent layers of push: Some / newtype struct forward to the inner value, a unit and a
   unit struct are a none, everything else is refused unless the builder overrides it ---- *)

Definition expected_defaults : list (string * string) := [
  ("serialize_default", "fail");
  ("serialize_unit", "as:serialize_none");
  ("serialize_none", "fail");
  ("serialize_some", "transparent");
  ("serialize_bool", "fail");
  ("serialize_char", "fail");
  ("serialize_u8", "fail");
  ("serialize_u16", "fail");
  ("serialize_u32", "fail");
  ("serialize_u64", "fail");
  ("serialize_i8", "fail");
  ("serialize_i16", "fail");
  ("serialize_i32", "fail");
  ("serialize_i64", "fail");
  ("serialize_f32", "fail");
  ("serialize_f64", "fail");
  ("serialize_bytes", "fail");
  ("serialize_str", "fail");
  ("serialize_newtype_struct", "transparent");
  ("serialize_newtype_variant", "fail");
  ("serialize_unit_struct", "as:serialize_unit");
  ("serialize_unit_variant", "fail");
  ("serialize_map_start", "fail");
  ("serialize_map_key", "fail");
  ("serialize_map_value", "fail");
  ("serialize_map_end", "fail");
  ("serialize_seq_start", "fail");
  ("serialize_seq_element", "fail");
  ("serialize_seq_end", "fail");
  ("serialize_struct_start", "fail");
  ("serialize_struct_field", "fail");
  ("serialize_struct_end", "fail");
  ("serialize_tuple_start", "fail");
  ("serialize_tuple_element", "fail");
  ("serialize_tuple_end", "fail");
  ("serialize_tuple_struct_start", "fail");
  ("serialize_tuple_struct_field", "fail");
  ("serialize_tuple_struct_end", "fail");
  ("serialize_struct_variant_start", "fail");
  ("serialize_tuple_variant_start", "fail")
].

(* ---- serde methods each builder type accepts (overrides of the refusing defaults) ---- *)
Definition expected_builder_methods : list (string * list string) := [
  ("BoolBuilder", ["serialize_bool"; "serialize_default"; "serialize_none"]);
  ("IntBuilder", ["serialize_bool"; "serialize_char"; "serialize_default"; "serialize_i16"; "serialize_i32"; "serialize_i64"; "serialize_i8"; "serialize_none"; "serialize_u16"; "serialize_u32"; "serialize_u64"; "serialize_u8"]);
  ("Utf8Builder", ["serialize_bool"; "serialize_char"; "serialize_default"; "serialize_f32"; "serialize_f64"; "serialize_i16"; "serialize_i32"; "serialize_i64"; "serialize_i8"; "serialize_newtype_variant"; "serialize_none"; "serialize_str"; "serialize_struct_variant_start"; "serialize_tuple_variant_start"; "serialize_u16"; "serialize_u32"; "serialize_u64"; "serialize_u8"; "serialize_unit_variant"]);
  ("ListBuilder", ["serialize_bytes"; "serialize_default"; "serialize_none"; "serialize_seq_element"; "serialize_seq_end"; "serialize_seq_start"; "serialize_tuple_element"; "serialize_tuple_end"; "serialize_tuple_start"; "serialize_tuple_struct_end"; "serialize_tuple_struct_field"; "serialize_tuple_struct_start"]);
  ("StructBuilder", ["serialize_default"; "serialize_map_end"; "serialize_map_key"; "serialize_map_start"; "serialize_map_value"; "serialize_none"; "serialize_struct_end"; "serialize_struct_field"; "serialize_struct_start"; "serialize_tuple_element"; "serialize_tuple_end"; "serialize_tuple_start"; "serialize_tuple_struct_end"; "serialize_tuple_struct_field"; "serialize_tuple_struct_start"]);
  ("KeyLookupSerializer", ["serialize_str"]);
  ("NullBuilder", ["serialize_default"; "serialize_none"; "serialize_unit_struct"]);
  ("FloatBuilder<f32>", ["serialize_char"; "serialize_default"; "serialize_f32"; "serialize_f64"; "serialize_i16"; "serialize_i32"; "serialize_i64"; "serialize_i8"; "serialize_none"; "serialize_some"; "serialize_u16"; "serialize_u32"; "serialize_u64"; "serialize_u8"]);
  ("FloatBuilder<f64>", ["serialize_char"; "serialize_default"; "serialize_f32"; "serialize_f64"; "serialize_i16"; "serialize_i32"; "serialize_i64"; "serialize_i8"; "serialize_none"; "serialize_u16"; "serialize_u32"; "serialize_u64"; "serialize_u8"]);
  ("FloatBuilder<f16>", ["serialize_default"; "serialize_f32"; "serialize_f64"; "serialize_none"]);
  ("BinaryBuilder", ["serialize_bytes"; "serialize_default"; "serialize_none"; "serialize_seq_element"; "serialize_seq_end"; "serialize_seq_start"; "serialize_tuple_element"; "serialize_tuple_end"; "serialize_tuple_start"; "serialize_tuple_struct_end"; "serialize_tuple_struct_field"; "serialize_tuple_struct_start"]);
  ("DateBuilder", ["serialize_default"; "serialize_i32"; "serialize_i64"; "serialize_none"; "serialize_str"]);
  ("TimeBuilder", ["serialize_default"; "serialize_i32"; "serialize_i64"; "serialize_none"; "serialize_str"]);
  ("TimestampBuilder", ["serialize_default"; "serialize_i64"; "serialize_none"; "serialize_str"]);
  ("DurationBuilder", ["serialize_default"; "serialize_i16"; "serialize_i32"; "serialize_i64"; "serialize_i8"; "serialize_none"; "serialize_str"; "serialize_u16"; "serialize_u32"; "serialize_u64"; "serialize_u8"]);
  ("DecimalBuilder", ["serialize_default"; "serialize_f32"; "serialize_f64"; "serialize_none"; "serialize_str"]);
  ("MapBuilder", ["serialize_default"; "serialize_map_end"; "serialize_map_key"; "serialize_map_start"; "serialize_map_value"; "serialize_none"]);
  ("FixedSizeListBuilder", ["serialize_default"; "serialize_none"; "serialize_seq_element"; "serialize_seq_end"; "serialize_seq_start"; "serialize_tuple_element"; "serialize_tuple_end"; "serialize_tuple_start"; "serialize_tuple_struct_end"; "serialize_tuple_struct_field"; "serialize_tuple_struct_start"]);
  ("FixedSizeBinaryBuilder", ["serialize_bytes"; "serialize_default"; "serialize_none"; "serialize_seq_element"; "serialize_seq_end"; "serialize_seq_start"; "serialize_tuple_element"; "serialize_tuple_end"; "serialize_tuple_start"; "serialize_tuple_struct_end"; "serialize_tuple_struct_field"; "serialize_tuple_struct_start"]);
  ("DictionaryUtf8Builder", ["serialize_bool"; "serialize_char"; "serialize_default"; "serialize_f32"; "serialize_f64"; "serialize_i16"; "serialize_i32"; "serialize_i64"; "serialize_i8"; "serialize_newtype_variant"; "serialize_none"; "serialize_str"; "serialize_struct_variant_start"; "serialize_tuple_variant_start"; "serialize_u16"; "serialize_u32"; "serialize_u64"; "serialize_u8"; "serialize_unit_variant"]);
  ("UnionBuilder", ["serialize_default"; "serialize_newtype_variant"; "serialize_struct_variant_start"; "serialize_tuple_variant_start"; "serialize_unit_variant"])
].

(* ---- data type -> builder ---- *)
Definition expected_builder_dispatch : list (string * list (string * string)) := [
  ("Null", [("UnknownVariant", "UnknownVariantBuilder"); ("Null", "NullBuilder")]);
  ("Boolean", [("Bool", "BoolBuilder")]);
  ("Int8", [("I8", "IntBuilder")]);
  ("Int16", [("I16", "IntBuilder")]);
  ("Int32", [("I32", "IntBuilder")]);
  ("Int64", [("I64", "IntBuilder")]);
  ("UInt8", [("U8", "IntBuilder")]);
  ("UInt16", [("U16", "IntBuilder")]);
  ("UInt32", [("U32", "IntBuilder")]);
  ("UInt64", [("U64", "IntBuilder")]);
  ("Float16", [("F16", "FloatBuilder")]);
  ("Float32", [("F32", "FloatBuilder")]);
  ("Float64", [("F64", "FloatBuilder")]);
  ("Date32", [("Date32", "DateBuilder")]);
  ("Date64", [("Date64", "DateBuilder")]);
  ("Timestamp", [("Timestamp", "TimestampBuilder")]);
  ("Time32", [("Time32", "TimeBuilder")]);
  ("Time64", [("Time64", "TimeBuilder")]);
  ("Duration", [("Duration", "DurationBuilder")]);
  ("Decimal128", [("Decimal128", "DecimalBuilder")]);
  ("Utf8", [("Utf8", "Utf8Builder")]);
  ("LargeUtf8", [("LargeUtf8", "Utf8Builder")]);
  ("Utf8View", [("Utf8View", "Utf8Builder")]);
  ("List", [("List", "ListBuilder")]);
  ("LargeList", [("LargeList", "ListBuilder")]);
  ("FixedSizeList", [("FixedSizedList", "FixedSizeListBuilder")]);
  ("Binary", [("Binary", "BinaryBuilder")]);
  ("LargeBinary", [("LargeBinary", "BinaryBuilder")]);
  ("BinaryView", [("BinaryView", "BinaryBuilder")]);
  ("FixedSizeBinary", [("FixedSizeBinary", "FixedSizeBinaryBuilder")]);
  ("Map", [("Map", "MapBuilder")]);
  ("Struct", [("Struct", "build_struct")]);
  ("Dictionary", [("DictionaryUtf8", "DictionaryUtf8Builder")]);
  ("Union", [("Union", "UnionBuilder")])
].

(* ---- view -> reader ---- *)
Definition expected_reader_dispatch : list (string * string * string) := [
  ("Null", "Null", "NullDeserializer");
  ("Boolean", "Bool", "BoolDeserializer");
  ("Int8", "I8", "IntegerDeserializer");
  ("Int16", "I16", "IntegerDeserializer");
  ("Int32", "I32", "IntegerDeserializer");
  ("Int64", "I64", "IntegerDeserializer");
  ("UInt8", "U8", "IntegerDeserializer");
  ("UInt16", "U16", "IntegerDeserializer");
  ("UInt32", "U32", "IntegerDeserializer");
  ("UInt64", "U64", "IntegerDeserializer");
  ("Float16", "F16", "FloatDeserializer");
  ("Float32", "F32", "FloatDeserializer");
  ("Float64", "F64", "FloatDeserializer");
  ("Decimal128", "Decimal128", "DecimalDeserializer");
  ("Date32", "Date32", "DateDeserializer");
  ("Date64", "Date64", "DateDeserializer");
  ("Time32", "Time32", "TimeDeserializer");
  ("Time64", "Time64", "TimeDeserializer");
  ("Timestamp", "Timestamp", "TimestampDeserializer");
  ("Duration", "Duration", "DurationDeserializer");
  ("Utf8", "Utf8", "StringDeserializer");
  ("LargeUtf8", "LargeUtf8", "StringDeserializer");
  ("Utf8View", "Utf8View", "StringDeserializer");
  ("Binary", "Binary", "BinaryDeserializer");
  ("LargeBinary", "LargeBinary", "BinaryDeserializer");
  ("BinaryView", "BinaryView", "BinaryDeserializer");
  ("FixedSizeBinary", "FixedSizeBinary", "FixedSizeBinaryDeserializer");
  ("List", "List", "ListDeserializer");
  ("LargeList", "LargeList", "ListDeserializer");
  ("FixedSizeList", "FixedSizeList", "FixedSizeListDeserializer");
  ("Struct", "Struct", "StructDeserializer");
  ("Map", "Map", "MapDeserializer");
  ("Union", "Enum", "EnumDeserializer")
].
Definition expected_reader_dictionary_dispatch : list (string * string * string) := [
  ("Int8", "Utf8", "DictionaryI8I32");
  ("Int16", "Utf8", "DictionaryI16I32");
  ("Int32", "Utf8", "DictionaryI32I32");
  ("Int64", "Utf8", "DictionaryI64I32");
  ("UInt8", "Utf8", "DictionaryU8I32");
  ("UInt16", "Utf8", "DictionaryU16I32");
  ("UInt32", "Utf8", "DictionaryU32I32");
  ("UInt64", "Utf8", "DictionaryU64I32");
  ("Int8", "LargeUtf8", "DictionaryI8I64");
  ("Int16", "LargeUtf8", "DictionaryI16I64");
  ("Int32", "LargeUtf8", "DictionaryI32I64");
  ("Int64", "LargeUtf8", "DictionaryI64I64");
  ("UInt8", "LargeUtf8", "DictionaryU8I64");
  ("UInt16", "LargeUtf8", "DictionaryU16I64");
  ("UInt32", "LargeUtf8", "DictionaryU32I64");
  ("UInt64", "LargeUtf8", "DictionaryU64I64")
].

(* ---- typed requests each reader implements (everything else is the refusing default) ---- *)
Definition expected_reader_methods : list (string * list string) := [
  ("BoolDeserializer", ["deserialize_any_some"; "deserialize_bool"; "deserialize_i16"; "deserialize_i32"; "deserialize_i64"; "deserialize_i8"; "deserialize_u16"; "deserialize_u32"; "deserialize_u64"; "deserialize_u8"; "is_some"]);
  ("IntegerDeserializer", ["deserialize_any_some"; "deserialize_bool"; "deserialize_char"; "deserialize_i16"; "deserialize_i32"; "deserialize_i64"; "deserialize_i8"; "deserialize_u16"; "deserialize_u32"; "deserialize_u64"; "deserialize_u8"; "is_some"]);
  ("StringDeserializer", ["deserialize_any_some"; "deserialize_byte_buf"; "deserialize_bytes"; "deserialize_enum"; "deserialize_str"; "deserialize_string"; "is_some"]);
  ("NullDeserializer", ["deserialize_any"; "deserialize_any_some"; "deserialize_option"; "deserialize_unit"; "deserialize_unit_struct"; "is_some"]);
  ("FloatDeserializer", ["deserialize_any_some"; "deserialize_f32"; "deserialize_f64"; "is_some"]);
  ("ListDeserializer", ["deserialize_any_some"; "deserialize_byte_buf"; "deserialize_bytes"; "deserialize_seq"; "is_some"]);
  ("StructDeserializer", ["deserialize_any_some"; "deserialize_map"; "deserialize_struct"; "deserialize_tuple"; "deserialize_tuple_struct"; "is_some"]);
  ("MapDeserializer", ["deserialize_any_some"; "deserialize_map"; "is_some"]);
  ("EnumDeserializer", ["deserialize_any_some"; "deserialize_enum"; "is_some"]);
  ("FixedSizeListDeserializer", ["deserialize_any_some"; "deserialize_seq"; "is_some"]);
  ("FixedSizeBinaryDeserializer", ["deserialize_any_some"; "deserialize_byte_buf"; "deserialize_bytes"; "deserialize_seq"; "is_some"]);
  ("BinaryDeserializer", ["deserialize_any"; "deserialize_any_some"; "deserialize_byte_buf"; "deserialize_bytes"; "deserialize_option"; "deserialize_seq"; "is_some"]);
  ("DictionaryDeserializer", ["deserialize_any_some"; "deserialize_enum"; "deserialize_str"; "deserialize_string"; "is_some"]);
  ("DateDeserializer", ["deserialize_any_some"; "deserialize_byte_buf"; "deserialize_bytes"; "deserialize_i32"; "deserialize_i64"; "deserialize_str"; "deserialize_string"; "is_some"]);
  ("TimeDeserializer", ["deserialize_any_some"; "deserialize_byte_buf"; "deserialize_bytes"; "deserialize_i32"; "deserialize_i64"; "deserialize_str"; "deserialize_string"; "is_some"]);
  ("TimestampDeserializer", ["deserialize_any_some"; "deserialize_byte_buf"; "deserialize_bytes"; "deserialize_i64"; "deserialize_str"; "deserialize_string"; "is_some"]);
  ("DurationDeserializer", ["deserialize_any_some"; "deserialize_byte_buf"; "deserialize_bytes"; "deserialize_i64"; "deserialize_str"; "deserialize_string"; "is_some"]);
  ("DecimalDeserializer", ["deserialize_any_some"; "deserialize_str"; "deserialize_string"; "is_some"])
].

Definition pair_eqb (x y : string * string) : bool := String.eqb (fst x) (fst y) && String.eqb (snd x) (snd y).
Definition triple_eqb (x y : string * string * string) : bool :=
  String.eqb (fst (fst x)) (fst (fst y)) && String.eqb (snd (fst x)) (snd (fst y)) && String.eqb (snd x) (snd y).
Fixpoint list_eqb' {A} (e : A -> A -> bool) (x y : list A) : bool :=
  match x, y with [], [] => true | a :: x', c :: y' => e a c && list_eqb' e x' y' | _, _ => false end.

Definition defaults_ok : bool := list_eqb' pair_eqb simple_defaults expected_defaults.
Definition builder_methods_ok : bool :=
  forallb (fun e : string * list string => match lookup (fst e) builder_methods with Some ms => str_list_eqb ms (snd e) | None => false end) expected_builder_methods.
Definition builder_dispatch_ok : bool :=
  list_eqb' (fun x y : string * list (string * string) => String.eqb (fst x) (fst y) && list_eqb' pair_eqb (snd x) (snd y)) builder_dispatch expected_builder_dispatch.
Definition reader_dispatch_ok : bool :=
  list_eqb' triple_eqb reader_dispatch expected_reader_dispatch && list_eqb' triple_eqb reader_dictionary_dispatch expected_reader_dictionary_dispatch.
Definition reader_methods_ok : bool :=
  forallb (fun e : string * list string => match lookup (fst e) reader_methods with Some ms => str_list_eqb ms (snd e) | None => false end) expected_reader_methods.

(* the facts the models rest on, read off the expected tables *)
Lemma defaults_facts :
  lookup "serialize_some" expected_defaults = Some "transparent" /\
  lookup "serialize_newtype_struct" expected_defaults = Some "transparent" /\
  lookup "serialize_unit" expected_defaults = Some "as:serialize_none" /\
  lookup "serialize_unit_struct" expected_defaults = Some "as:serialize_unit" /\
  forallb (fun e : string * string => String.eqb (snd e) "fail" || existsb (String.eqb (fst e)) ["serialize_some"; "serialize_newtype_struct"; "serialize_unit"; "serialize_unit_struct"]) expected_defaults = true.
Proof. repeat split; reflexivity. Qed.

(* ---- the numeric casts (float_builder.rs, float_impls.rs): each scalar method of the Float32 / Float64 builders stores the DIRECT cast of
   its argument (`v as f32`, never a detour through the other width), chars go through u32, the same width is stored as is; the readers
   hand out the stored value, `as f64` or `as f32`.  This is the route the model takes (Base/FloatOfInt.v: float_of_int for integers and
   chars, convert_float between the widths, the identity otherwise); Float16 goes through the `half` crate and is outside the model. *)
Definition expected_float_casts : list (string * string * string) := [
  ("FloatBuilder<f32>", "serialize_i8", "v as f32");
  ("FloatBuilder<f32>", "serialize_i16", "v as f32");
  ("FloatBuilder<f32>", "serialize_i32", "v as f32");
  ("FloatBuilder<f32>", "serialize_i64", "v as f32");
  ("FloatBuilder<f32>", "serialize_u8", "v as f32");
  ("FloatBuilder<f32>", "serialize_u16", "v as f32");
  ("FloatBuilder<f32>", "serialize_u32", "v as f32");
  ("FloatBuilder<f32>", "serialize_u64", "v as f32");
  ("FloatBuilder<f32>", "serialize_f32", "v");
  ("FloatBuilder<f32>", "serialize_f64", "v as f32");
  ("FloatBuilder<f32>", "serialize_char", "u32::from(v) as f32");
  ("FloatBuilder<f64>", "serialize_i8", "v as f64");
  ("FloatBuilder<f64>", "serialize_i16", "v as f64");
  ("FloatBuilder<f64>", "serialize_i32", "v as f64");
  ("FloatBuilder<f64>", "serialize_i64", "v as f64");
  ("FloatBuilder<f64>", "serialize_u8", "v as f64");
  ("FloatBuilder<f64>", "serialize_u16", "v as f64");
  ("FloatBuilder<f64>", "serialize_u32", "v as f64");
  ("FloatBuilder<f64>", "serialize_u64", "v as f64");
  ("FloatBuilder<f64>", "serialize_f32", "v as f64");
  ("FloatBuilder<f64>", "serialize_f64", "v");
  ("FloatBuilder<f64>", "serialize_char", "u32::from(v) as f64");
  ("FloatBuilder<f16>", "serialize_f32", "f16::from_f32(v)");
  ("FloatBuilder<f16>", "serialize_f64", "f16::from_f64(v)");
  ("Float for f16", "into_f32", "Ok(self.to_f32())");
  ("Float for f16", "into_f64", "Ok(self.to_f64())");
  ("Float for f32", "into_f32", "Ok(self)");
  ("Float for f32", "into_f64", "Ok(self as f64)");
  ("Float for f64", "into_f32", "Ok(self as f32)");
  ("Float for f64", "into_f64", "Ok(self)")
].

Definition float_casts_ok : bool := list_eqb' triple_eqb float_casts expected_float_casts.

(* read off the expected table: every integer method of a float builder casts once, to the builder's own width *)
Lemma float_casts_facts :
  forallb (fun w : string =>
    forallb (fun m : string => existsb (triple_eqb ("FloatBuilder<" ++ w ++ ">", m, "v as " ++ w)) expected_float_casts)
      ["serialize_i8"; "serialize_i16"; "serialize_i32"; "serialize_i64"; "serialize_u8"; "serialize_u16"; "serialize_u32"; "serialize_u64"])
    ["f32"; "f64"] = true
  /\ existsb (triple_eqb ("FloatBuilder<f32>", "serialize_f64", "v as f32")) expected_float_casts = true
  /\ existsb (triple_eqb ("FloatBuilder<f64>", "serialize_f32", "v as f64")) expected_float_casts = true
  /\ existsb (triple_eqb ("Float for f64", "into_f32", "Ok(self as f32)")) expected_float_casts = true
  /\ existsb (triple_eqb ("Float for f32", "into_f64", "Ok(self as f64)")) expected_float_casts = true.
Proof. repeat split; vm_compute; reflexivity. Qed.
