(* Model of serde_arrow::Deserializer's sequence API
   (serde_arrow/src/internal/deserializer.rs: new, len, is_empty, get, iter,
    Iterator::next, Iterator::size_hint, SeqAccess::next_element_seed).

   The arrays are abstracted to their lengths: `new` only looks at `view.len()`.
   Reading an item is `StructDeserializer::at(idx)`, a stateless positioned reader, so an item
   is modelled by the index it is positioned at. *)
From Verif Require Export Outcome.

Record Deser := { d_len : nat; d_cols : nat }.

(* Deserializer::new(fields, views): the number of fields and views must agree, the length is
   that of the first view (0 without views), every view must have that length. *)
Definition new (nfields : nat) (view_lens : list nat) : Outcome Deser :=
  if negb (Nat.eqb nfields (length view_lens)) then Err
  else
    let len := hd 0 view_lens in
    if forallb (Nat.eqb len) view_lens
    then Ok {| d_len := len; d_cols := nfields |}
    else Err.

Definition len (d : Deser) : nat := d_len d.
Definition is_empty (d : Deser) : bool := Nat.eqb (len d) 0.

(* get(idx): Some(item positioned at idx) iff idx < len *)
Definition get (d : Deser) (idx : nat) : option nat :=
  if Nat.leb (d_len d) idx then None else Some idx.

(* DeserializerIterator { deserializer, next } *)
Record Iter := { it_d : Deser; it_next : nat }.
Definition iter (d : Deser) : Iter := {| it_d := d; it_next := 0 |}.

Definition next (it : Iter) : option nat * Iter :=
  if Nat.leb (d_len (it_d it)) (it_next it) then (None, it)
  else (Some (it_next it), {| it_d := it_d it; it_next := S (it_next it) |}).

Definition size_hint (it : Iter) : nat * option nat :=
  let remaining := d_len (it_d it) - it_next it in
  (remaining, Some remaining).

(* pull items until None; fuel = an upper bound on the number of remaining items *)
Fixpoint drain_fuel (fuel : nat) (it : Iter) : list nat :=
  match fuel with
  | 0 => []
  | S f => match next it with
           | (None, _) => []
           | (Some i, it') => i :: drain_fuel f it'
           end
  end.
Definition drain (it : Iter) : list nat := drain_fuel (S (d_len (it_d it))) it.

(* bulk read: Deserializer::deserialize_seq hands the visitor a SeqAccess that yields the reader
   positioned at `next` and then increments; a Vec<T> visitor pulls until None *)
Definition bulk (d : Deser) : list nat := drain (iter d).

(* ---------------------------------------------------------------------------------------- *)
(* access histories, for the correspondence check *)

Inductive Op :=
| OLen | OIsEmpty
| OGet (idx : nat)
| OIterNew                  (* start a fresh iterator, replacing the current one *)
| ONext | OSizeHint         (* on the current iterator *)
| OCollect                  (* drain the current iterator *)
| OBulk
(* other std::iter::Iterator methods, all defined in terms of `next` *)
| ONth (k : nat) | OStepBy (k : nat) | OCount | OLast.

Inductive Obs :=
| BNat (n : nat) | BBool (b : bool) | BItem (i : option nat)
| BHint (lo : nat) (hi : option nat) | BItems (l : list nat) | BUnit.

Definition step (d : Deser) (it : Iter) (o : Op) : Obs * Iter :=
  match o with
  | OLen => (BNat (len d), it)
  | OIsEmpty => (BBool (is_empty d), it)
  | OGet i => (BItem (get d i), it)
  | OIterNew => (BUnit, iter d)
  | ONext => let '(r, it') := next it in (BItem r, it')
  | OSizeHint => let '(lo, hi) := size_hint it in (BHint lo hi, it)
  | OCollect => (BItems (drain it), {| it_d := d; it_next := Nat.max (it_next it) (d_len d) |})
  | OBulk => (BItems (bulk d), it)
  | ONth k =>
    let pos := it_next it + k in
    if Nat.ltb pos (d_len d) then (BItem (Some pos), {| it_d := d; it_next := S pos |})
    else (BItem None, {| it_d := d; it_next := Nat.max (it_next it) (d_len d) |})
  | OStepBy k =>
    (BItems (filter (fun i => Nat.eqb ((i - it_next it) mod (S k)) 0) (drain it)),
     {| it_d := d; it_next := Nat.max (it_next it) (d_len d) |})
  | OCount => (BNat (length (drain it)), {| it_d := d; it_next := Nat.max (it_next it) (d_len d) |})
  | OLast => (BItem (last (map Some (drain it)) None), {| it_d := d; it_next := Nat.max (it_next it) (d_len d) |})
  end.

Fixpoint run_ops (d : Deser) (it : Iter) (ops : list Op) : list Obs :=
  match ops with
  | [] => []
  | o :: r => let '(b, it') := step d it o in b :: run_ops d it' r
  end.

Definition run (nfields : nat) (view_lens : list nat) (ops : list Op) : Outcome (list Obs) :=
  do d <- new nfields view_lens ;; Ok (run_ops d (iter d) ops).
