(* Model of the readers (serde_arrow/src/internal/deserialization/*, utils/array_view_ext.rs) as
   seen through deserialize_any: a stateless function of (view, index) with the index arithmetic
   of each accessor written out - validity bit offsets, offset pairs, absolute child positions,
   fixed-size strides, dense-union (type id, offset) pairs, dictionary keys, view descriptors.
   All kinds of the dispatcher ArrayDeserializer::new are covered (Float16 values and the
   Decimal128 text are presented through prim_present).

   Every bounds violation is an error value: the model follows the code after the fix: commits
   recorded in KNOWN_FINDINGS.txt (C17); it contains no Panic.

   Index conversions are done in Z and clamped by the child's length before they become unary
   numbers (a corrupted 64-bit offset must not be turned into a nat); Reader_proofs.v shows that
   the clamp is only an evaluation device: reads at or beyond the length of a view are errors
   (read_oob), so the clamped loops equal the unclamped ones (range_z_faithful). *)
From Verif Require Export Present.
Local Open Scope nat_scope.

(* bitset_is_set / get_bit_buffer(data, offset, idx): the byte at (idx + offset) / 8 must exist *)
Definition bit_at (bm : Bitmap) (idx : nat) : Outcome bool := of_option (get_bit (bm_data bm) (idx + bm_off bm)).
Definition valid_at (v : option Bitmap) (idx : nat) : Outcome bool :=
  match v with None => Ok true | Some bm => bit_at bm idx end.

Definition prim_present (k : PrimKind) (z : Z) : option RVal :=
  match k with
  | PF32 => Some (RF32 z) | PF64 => Some (RF64 z) | PF16 => None
  | PDecimal _ s => match format_decimal z s with Ok t => Some (RStr t) | _ => None end
  | _ => Some (RInt z)
  end.

Definition modelled_prim (k : PrimKind) : bool := match k with PF16 => false | _ => true end.

Definition to_usize (z : Z) : Outcome Z := if (z <? 0)%Z then Err else Ok z.

(* the pair of offsets of slot idx (try_into_usize on both) *)
Definition offset_pair (offs : list Z) (idx : nat) : Outcome (Z * Z) :=
  match nth_error offs idx, nth_error offs (S idx) with
  | Some s, Some e => do s' <- to_usize s ;; do e' <- to_usize e ;; Ok (s', e')
  | _, _ => Err
  end.

(* child.at(z): positions at or beyond the child's length are errors (read_oob) *)
Definition at_z {A} (rd : nat -> Outcome A) (len : nat) (z : Z) : Outcome A :=
  if (z <? 0)%Z then Err else if (Z.of_nat len <=? z)%Z then Err else rd (Z.to_nat z).

(* `while start < end { item.at(start); start += 1 }` over a child of length len *)
Definition range_z {A} (rd : nat -> Outcome A) (len : nat) (s e : Z) : Outcome (list A) :=
  if (e <=? s)%Z then Ok []
  else if (Z.of_nat len <? e)%Z then
         (if (Z.of_nat len <=? s)%Z then Err
          else do _ <- mapM rd (seq (Z.to_nat s) (len - Z.to_nat s)) ;; Err)
       else mapM rd (seq (Z.to_nat s) (Z.to_nat (e - s))).

(* BytesView::get *)
Definition bytes_get (v : option Bitmap) (offs : list Z) (data : list N) (idx : nat) : Outcome (option bytes) :=
  if Nat.leb (length offs) (S idx) then Err
  else do ok <- valid_at v idx ;;
       if negb ok then Ok None
       else do se <- offset_pair offs idx ;;
            let '(s, e) := se in
            if (s <=? e)%Z && (e <=? Z.of_nat (length data))%Z
            then Ok (Some (firstn (Z.to_nat (e - s)) (skipn (Z.to_nat s) data)))
            else Err.

Definition text_or_bytes (is_text : bool) (x : bytes) : Outcome RVal :=
  if is_text then (if utf8_valid x then Ok (RStr x) else Err) else Ok (RBytes x).

Definition is_null_arr (a : Arr) : bool := match a with ANull _ => true | _ => false end.

Fixpoint read (a : Arr) (idx : nat) {struct a} : Outcome RVal :=
  match a with
  | ANull len => if Nat.leb len idx then Err else Ok RNone
  | ABool len v vals =>
    if Nat.leb len idx then Err
    else do ok <- valid_at v idx ;;
         if ok then do x <- bit_at vals idx ;; Ok (RBool x) else Ok RNone
  | APrim k v vals =>
    match nth_error vals idx with
    | None => Err
    | Some z => do ok <- valid_at v idx ;;
                if ok then of_option (prim_present k z) else Ok RNone
    end
  | ABytes k v offs data =>
    do r <- bytes_get v offs data idx ;;
    match r with None => Ok RNone | Some x => text_or_bytes (is_utf8_kind k) x end
  | AView k v descs bufs =>
    match nth_error descs idx with
    | None => Err
    | Some d => do ok <- valid_at v idx ;;
                if negb ok then Ok RNone
                else match view_bytes bufs d with
                     | Some x => text_or_bytes (match k with KUtf8View => true | KBinaryView => false end) x
                     | None => Err
                     end
    end
  | AFixedBin n v data =>
    if Nat.leb (arr_len a) idx then Err
    else do ok <- valid_at v idx ;;
         if negb ok then Ok RNone
         else Ok (RBytes (firstn (Z.to_nat n) (skipn (idx * Z.to_nat n) data)))
  | AList k v offs _ elems =>
    if Nat.leb (length offs) (S idx) then Err
    else do ok <- valid_at v idx ;;
         if negb ok then Ok RNone
         else do se <- offset_pair offs idx ;;
              let '(s, e) := se in
              do items <- range_z (read elems) (arr_len elems) s e ;; Ok (RSeq items)
  | AFixedList len n v _ elems =>
    if Nat.leb len idx then Err
    else do ok <- valid_at v idx ;;
         if negb ok then Ok RNone
         else do items <- range_z (read elems) (arr_len elems) (Z.of_nat idx * n) ((Z.of_nat idx + 1) * n) ;;
              Ok (RSeq items)
  | AStruct len v fields =>
    if Nat.leb len idx then Err
    else do ok <- valid_at v idx ;;
         if negb ok then Ok RNone
         else do kvs <- (fix go (fs : list (Meta * Arr)) : Outcome (list (RVal * RVal)) :=
                           match fs with
                           | [] => Ok []
                           | (m, c) :: r => do x <- read c idx ;; do rest <- go r ;; Ok ((RStr (m_name m), x) :: rest)
                           end) fields ;;
              Ok (RMap kvs)
  | AMap v offs _ _ _ keys values =>
    if Nat.leb (length offs) (S idx) then Err
    else do ok <- valid_at v idx ;;
         if negb ok then Ok RNone
         else do se <- offset_pair offs idx ;;
              let '(s, e) := se in
              do kvs <- range_z (fun i => do k <- read keys i ;; do x <- read values i ;; Ok (k, x))
                                (Nat.min (arr_len keys) (arr_len values)) s e ;;
              Ok (RMap kvs)
  | ADict keys values =>
    match keys, values with
    | APrim (PInt _) kv kvals, ABytes bk None offs data =>
      match nth_error kvals idx with
      | None => Err
      | Some z =>
        do ok <- valid_at kv idx ;;
        if negb ok then Ok RNone
        else if (z <? 0)%Z || (9223372036854775807 <? z)%Z then Err
             else do r <- at_z (bytes_get None offs data) (length offs - 1) z ;;
                  match r with Some x => text_or_bytes true x | None => Err end
      end
    | _, _ => Err
    end
  | AUnion types offs fields =>
    match nth_error types idx, nth_error offs idx with
    | Some t, Some o =>
      do o' <- to_usize o ;;
      if (t <? 0)%Z then Err
      else (fix pick (fs : list (Z * Meta * Arr)) (n : nat) {struct fs} : Outcome RVal :=
              match fs with
              | [] => Err
              | (_, m, c) :: r =>
                match n with
                | O => if is_null_arr c then Ok (REnum (RStr (m_name m)) RUnit)
                       else do x <- at_z (read c) (arr_len c) o' ;; Ok (REnum (RStr (m_name m)) x)
                | S n' => pick r n'
                end
              end) fields (Z.to_nat t)
    | _, _ => Err
    end
  end.

(* ArrayDeserializer::new: what is refused when the reader tree is built *)
Definition lower (c : N) : N := if (65 <=? c)%N && (c <=? 90)%N then (c + 32)%N else c.
Definition utc_tz (tz : option bytes) : bool :=
  match tz with None => true | Some t => bytes_eqb (map lower t) (b "utc") end.

Fixpoint consecutive (i : Z) (fs : list (Z * Meta * Arr)) : bool :=
  match fs with [] => true | (t, _, _) :: r => (t =? i)%Z && consecutive (i + 1) r end.

Fixpoint construct (a : Arr) : bool :=
  match a with
  | ANull _ | ABool _ _ _ | ABytes _ _ _ _ | AView _ _ _ _ => true
  | APrim (PTimestamp _ tz) _ _ => utc_tz tz
  | APrim _ _ _ => true
  | AFixedBin n _ data =>
    (0 <=? n)%Z && (if (n =? 0)%Z then Nat.eqb (length data) 0 else Nat.eqb (length data mod Z.to_nat n) 0)
  | AList _ _ _ _ e => construct e
  | AFixedList _ n _ _ e => (0 <=? n)%Z && construct e
  | AStruct _ _ fs => forallb (fun mc => construct (snd mc)) fs
  | AMap _ _ _ _ _ k v => construct k && construct v
  | ADict k v =>
    match k, v with
    | APrim (PInt _) _ _, ABytes (BUtf8 | BLargeUtf8) None _ _ => true
    | _, _ => false
    end
  | AUnion types offs fs =>
    Nat.eqb (length types) (length offs) && consecutive 0 fs && forallb (fun tmc => construct (snd tmc)) fs
  end.

(* Deserializer::from_marrow on one column, then get(idx) and deserialize_any of the item *)
Definition read_top (a : Arr) (idx : nat) : Outcome (option RVal) :=
  if construct a then
    if Nat.ltb idx (arr_len a) then omap Some (read a idx) else Ok None
  else Err.

Fixpoint modelled_arr (a : Arr) : bool :=
  match a with
  | ANull _ | ABool _ _ _ => true
  | APrim k _ _ => modelled_prim k
  | ABytes _ _ _ _ | AView _ _ _ _ | AFixedBin _ _ _ => true
  | AList _ _ _ _ e | AFixedList _ _ _ _ e => modelled_arr e
  | AStruct _ _ fs => forallb (fun mc => modelled_arr (snd mc)) fs
  | AMap _ _ _ _ _ k v => modelled_arr k && modelled_arr v
  | ADict k v => modelled_arr k && modelled_arr v
  | AUnion _ _ fs => forallb (fun tmc => modelled_arr (snd tmc)) fs
  end.

(* ---- slicing with the layout of an Arrow slice ---- *)
Definition slice_bm (bm : Bitmap) (o : nat) : Bitmap := {| bm_off := bm_off bm + o; bm_data := bm_data bm |}.
Definition slice_validity (v : option Bitmap) (o : nat) : option Bitmap := option_map (fun bm => slice_bm bm o) v.
Definition window {A} (l : list A) (o n : nat) : list A := firstn n (skipn o l).

Fixpoint slice_arr (a : Arr) (o l : nat) {struct a} : Arr :=
  match a with
  | ANull _ => ANull l
  | ABool _ v vals => ABool l (slice_validity v o) (slice_bm vals o)
  | APrim k v vals => APrim k (slice_validity v o) (window vals o l)
  | ABytes k v offs data => ABytes k (slice_validity v o) (window offs o (S l)) data
  | AView k v descs bufs => AView k (slice_validity v o) (window descs o l) bufs
  | AFixedBin n v data => AFixedBin n (slice_validity v o) (window data (o * Z.to_nat n) (l * Z.to_nat n))
  | AList k v offs m e => AList k (slice_validity v o) (window offs o (S l)) m e
  | AFixedList _ n v m e => AFixedList l n (slice_validity v o) m (slice_arr e (o * Z.to_nat n) (l * Z.to_nat n))
  | AStruct _ v fs => AStruct l (slice_validity v o) (map (fun mc => (fst mc, slice_arr (snd mc) o l)) fs)
  | AMap v offs en km vm k x => AMap (slice_validity v o) (window offs o (S l)) en km vm k x
  | ADict k x => ADict (slice_arr k o l) x
  | AUnion types offs fs => AUnion (window types o l) (window offs o l) fs
  end.
