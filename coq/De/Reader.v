(* Model of the readers (serde_arrow/src/internal/deserialization/*, utils/array_view_ext.rs) as
   seen through deserialize_any: a stateless function of (view, index) with the index arithmetic
   of each accessor written out - validity bit offsets, offset pairs, absolute child positions.
   Kinds: Null, Boolean, primitives, Utf8/LargeUtf8/Binary/LargeBinary, List/LargeList, Struct.
   Every bounds violation is an error value. *)
From Verif Require Export Present.
Local Open Scope nat_scope.

(* bitset_is_set / get_bit_buffer(data, offset, idx): the byte at (idx + offset) / 8 must exist *)
Definition bit_at (bm : Bitmap) (idx : nat) : Outcome bool := of_option (get_bit (bm_data bm) (idx + bm_off bm)).
Definition valid_at (v : option Bitmap) (idx : nat) : Outcome bool :=
  match v with None => Ok true | Some bm => bit_at bm idx end.

Definition prim_present (k : PrimKind) (z : Z) : option RVal :=
  match k with
  | PF32 => Some (RF32 z) | PF64 => Some (RF64 z) | PF16 => None
  | PDecimal _ s => match format_decimal z s with Ok t => Some (RStr t) | _ => None end
  | _ => Some (RInt z)
  end.

Definition modelled_prim (k : PrimKind) : bool := match k with PF16 | PDecimal _ _ => false | _ => true end.

Definition to_usize (z : Z) : Outcome nat := if (z <? 0)%Z then Err else Ok (Z.to_nat z).

(* the pair of offsets of slot idx *)
Definition offset_pair (offs : list Z) (idx : nat) : Outcome (nat * nat) :=
  match nth_error offs idx, nth_error offs (S idx) with
  | Some s, Some e => do s' <- to_usize s ;; do e' <- to_usize e ;; Ok (s', e')
  | _, _ => Err
  end.

Fixpoint read (a : Arr) (idx : nat) {struct a} : Outcome RVal :=
  match a with
  | ANull _ => Ok RNone
  | ABool len v vals =>
    if Nat.leb len idx then Err
    else do ok <- valid_at v idx ;;
         if ok then do x <- bit_at vals idx ;; Ok (RBool x) else Ok RNone
  | APrim k v vals =>
    match nth_error vals idx with
    | None => Err
    | Some z => do ok <- valid_at v idx ;;
                if ok then of_option (prim_present k z) else Ok RNone
    end
  | ABytes k v offs data =>
    if Nat.leb (length offs) (S idx) then Err
    else do ok <- valid_at v idx ;;
         if negb ok then Ok RNone
         else do se <- offset_pair offs idx ;;
              let '(s, e) := se in
              if Nat.leb s e && Nat.leb e (length data) then
                let x := firstn (e - s) (skipn s data) in
                if is_utf8_kind k then (if utf8_valid x then Ok (RStr x) else Err) else Ok (RBytes x)
              else Err
  | AList k v offs _ elems =>
    if Nat.leb (length offs) (S idx) then Err
    else do ok <- valid_at v idx ;;
         if negb ok then Ok RNone
         else do se <- offset_pair offs idx ;;
              let '(s, e) := se in
              do items <- mapM (read elems) (seq s (e - s)) ;; Ok (RSeq items)
  | AStruct len v fields =>
    if Nat.leb len idx then Err
    else do ok <- valid_at v idx ;;
         if negb ok then Ok RNone
         else do kvs <- (fix go (fs : list (Meta * Arr)) : Outcome (list (RVal * RVal)) :=
                           match fs with
                           | [] => Ok []
                           | (m, c) :: r => do x <- read c idx ;; do rest <- go r ;; Ok ((RStr (m_name m), x) :: rest)
                           end) fields ;;
              Ok (RMap kvs)
  | _ => Err
  end.

Fixpoint modelled_arr (a : Arr) : bool :=
  match a with
  | ANull _ | ABool _ _ _ => true
  | APrim k _ _ => modelled_prim k
  | ABytes _ _ _ _ => true
  | AList _ _ _ _ e => modelled_arr e
  | AStruct _ _ fs => forallb (fun mc => modelled_arr (snd mc)) fs
  | _ => false
  end.

(* ---- slicing with the layout of an Arrow slice ---- *)
Definition slice_bm (bm : Bitmap) (o : nat) : Bitmap := {| bm_off := bm_off bm + o; bm_data := bm_data bm |}.
Definition slice_validity (v : option Bitmap) (o : nat) : option Bitmap := option_map (fun bm => slice_bm bm o) v.

Fixpoint slice_arr (a : Arr) (o l : nat) {struct a} : Arr :=
  match a with
  | ANull _ => ANull l
  | ABool _ v vals => ABool l (slice_validity v o) (slice_bm vals o)
  | APrim k v vals => APrim k (slice_validity v o) (firstn l (skipn o vals))
  | ABytes k v offs data => ABytes k (slice_validity v o) (firstn (S l) (skipn o offs)) data
  | AList k v offs m e => AList k (slice_validity v o) (firstn (S l) (skipn o offs)) m e
  | AStruct _ v fs => AStruct l (slice_validity v o) (map (fun mc => (fst mc, slice_arr (snd mc) o l)) fs)
  | other => other
  end.
