(* C02 for the container kinds: reads return present(decode a)[i] for well-formed views.
   First: the logical content has exactly arr_len rows. *)
From Verif Require Import Reader Reader_proofs.
Require Import ZifyBool ZifyNat.
Local Open Scope nat_scope.

Lemma mapM_opt_length {A B} (f : A -> option B) : forall l r, mapM_opt f l = Some r -> length r = length l.
Proof.
  induction l as [|x l IH]; intros r H; cbn [mapM_opt] in H; [inversion H; reflexivity|].
  destruct (f x); [|discriminate]. destruct (mapM_opt f l) as [ys|]; [|discriminate]. inversion H; subst. cbn. f_equal. apply IH. reflexivity.
Qed.

Lemma ranges_go_length {A} (l : list A) : forall rest o0 rs, ranges_go l o0 rest = Some rs -> length rs = length rest.
Proof.
  induction rest as [|o1 rest IH]; intros o0 rs H; cbn [ranges_go] in H; [inversion H; reflexivity|].
  destruct ((0 <=? o0)%Z && (o0 <=? o1)%Z); [|discriminate]. destruct (sub_list l _ _); [|discriminate].
  destruct (ranges_go l o1 rest) as [r|] eqn:E; [|discriminate]. inversion H; subst. cbn. f_equal. eapply IH. exact E.
Qed.

Lemma ranges_length {A} (l : list A) offs rs : ranges l offs = Some rs -> length rs = length offs - 1.
Proof.
  destruct offs as [|o0 rest]; [rewrite ranges_nil; discriminate|]. rewrite ranges_eq. intros H.
  rewrite (ranges_go_length _ _ _ _ H). cbn. lia.
Qed.

Lemma chunks_length {A} : forall count (l : list A) n cs, chunks l n count = Some cs -> length cs = count.
Proof.
  induction count as [|c IH]; intros l n cs H; cbn [chunks] in H; [inversion H; reflexivity|].
  destruct (Nat.leb n (length l)); [|discriminate]. destruct (chunks (skipn n l) n c) as [r|] eqn:E; [|discriminate].
  inversion H; subst. cbn. f_equal. eapply IH. exact E.
Qed.

Lemma struct_rows_length : forall n cols rows, struct_rows n cols = Some rows -> length rows = n.
Proof.
  induction n as [|n IH]; intros cols rows H; cbn [struct_rows] in H; [inversion H; reflexivity|].
  destruct (mapM_opt _ cols); [|discriminate]. destruct (struct_rows n _) as [rest|] eqn:E; [|discriminate].
  inversion H; subst. cbn. f_equal. eapply IH. exact E.
Qed.

Lemma bits_from_length data : forall n start bits, bits_from data start n = Some bits -> length bits = n.
Proof. intros n start bits H. exact (proj1 (bits_from_spec data n start bits H)). Qed.

Theorem decode_length : forall a lvs, decode a = Some lvs -> length lvs = arr_len a.
Proof.
  intros a. induction a as [n|n v x|k v x|k v offs d|k v d bs|n v d|k v offs m e IHe|len n v m e IHe|len v fs IH
                            |v offs en km vm ks xs IHk IHx|ks xs IHk IHx|t offs fs IH] using Arr_ind'; intros lvs H; cbn [decode arr_len] in *.
  - inversion H; subst. apply repeat_length.
  - destruct (bits_of x n) as [bits|] eqn:Eb; [|discriminate]. rewrite (apply_validity_length _ _ _ H), map_length.
    unfold bits_of in Eb. eapply bits_from_length. exact Eb.
  - rewrite (apply_validity_length _ _ _ H). apply map_length.
  - destruct (ranges d offs) as [rs|] eqn:Er; [|discriminate]. rewrite (apply_validity_length _ _ _ H), map_length. eapply ranges_length. exact Er.
  - destruct (mapM_opt (view_bytes bs) d) as [xs|] eqn:Em; [|discriminate]. rewrite (apply_validity_length _ _ _ H), map_length. eapply mapM_opt_length. exact Em.
  - destruct (n <=? 0)%Z; [discriminate|]. destruct (negb (length d mod Z.to_nat n =? 0)); [discriminate|].
    destruct (chunks d (Z.to_nat n) (length d / Z.to_nat n)) as [cs|] eqn:Ec; [|discriminate].
    rewrite (apply_validity_length _ _ _ H), map_length. eapply chunks_length. exact Ec.
  - destruct (decode e) as [es|]; [|discriminate]. destruct (ranges es offs) as [rs|] eqn:Er; [|discriminate].
    rewrite (apply_validity_length _ _ _ H), map_length. eapply ranges_length. exact Er.
  - destruct (n <? 0)%Z; [discriminate|]. destruct (decode e) as [es|]; [|discriminate]. destruct (chunks es (Z.to_nat n) len) as [cs|] eqn:Ec; [|discriminate].
    rewrite (apply_validity_length _ _ _ H), map_length. eapply chunks_length. exact Ec.
  - match type of H with match ?g with _ => _ end = _ => destruct g as [cols|]; [|discriminate] end.
    destruct (struct_rows len cols) as [rows|] eqn:Es; [|discriminate].
    rewrite (apply_validity_length _ _ _ H), map_length. eapply struct_rows_length. exact Es.
  - destruct (decode ks) as [kl|]; [|discriminate]. destruct (decode xs) as [xl|]; [|discriminate].
    destruct (length kl =? length xl); [|discriminate]. destruct (ranges (combine kl xl) offs) as [rs|] eqn:Er; [|discriminate].
    rewrite (apply_validity_length _ _ _ H), map_length. eapply ranges_length. exact Er.
  - destruct (decode ks) as [kl|] eqn:Ek; [|discriminate]. destruct (decode xs) as [xl|]; [|discriminate].
    rewrite (mapM_opt_length _ _ _ H). apply IHk. reflexivity.
  - match type of H with match ?g with _ => _ end = _ => destruct g as [cols|]; [|discriminate] end.
    destruct (Nat.eqb_spec (length t) (length offs)) as [El|]; [|discriminate].
    rewrite (mapM_opt_length _ _ _ H), combine_length. lia.
Qed.

(* ---------------- containers: reads of a container are the presented logical content as soon
   as the reads of its children are (compositional, any depth) ---------------- *)
Definition reads_ok (f : Field) (a : Arr) : Prop :=
  forall lvs i lv, decode a = Some lvs -> nth_error lvs i = Some lv -> read a i = of_option (present f lv).

Lemma skipn_nth_cons {A} (l : list A) s x : nth_error l s = Some x -> skipn s l = x :: skipn (S s) l.
Proof.
  revert l; induction s as [|s IH]; intros [|y l] H; cbn in H; try discriminate.
  - inversion H; reflexivity.
  - cbn [skipn]. rewrite (IH l H). destruct l; reflexivity.
Qed.

Lemma mapM_read_present {K} (rd : nat -> Outcome K) {L} (g : L -> option K) (es : list L) : forall n s,
  s + n <= length es ->
  (forall j lv, nth_error es j = Some lv -> rd j = of_option (g lv)) ->
  mapM rd (seq s n) = of_option (all_some (map g (firstn n (skipn s es)))).
Proof.
  induction n as [|n IH]; intros s Hl H; [reflexivity|].
  destruct (nth_error es s) as [x|] eqn:Ex; [|apply nth_error_None in Ex; lia].
  rewrite (skipn_nth_cons _ _ _ Ex). cbn [seq mapM firstn map all_some]. rewrite (H _ _ Ex).
  destruct (g x) as [y|]; cbn [of_option bind]; [|reflexivity].
  rewrite IH by (try lia; exact H). destruct (all_some _); reflexivity.
Qed.

Lemma lvs_index {A} (f : A -> LVal) v rs lvs i lv :
  apply_validity v (map f rs) = Some lvs -> nth_error lvs i = Some lv ->
  exists x b0, nth_error rs i = Some x /\ valid_at v i = Ok b0 /\ lv = if b0 then f x else LNull.
Proof.
  intros H Hx.
  assert (Hi : i < length rs).
  { rewrite <- (map_length f rs), <- (apply_validity_length _ _ _ H). apply nth_error_Some. congruence. }
  destruct (nth_error rs i) as [x|] eqn:Ex; [|apply nth_error_None in Ex; lia].
  assert (Hv : nth_error (map f rs) i = Some (f x)) by (apply map_nth_error; exact Ex).
  destruct (apply_validity_nth _ _ _ _ _ H Hv) as [b0 [Hb0 Hout]].
  rewrite Hx in Hout. injection Hout as Hlv. exists x, b0. auto.
Qed.

Lemma present_null f : present f LNull = Some RNone.
Proof. unfold present. destruct (fdt' f); reflexivity. Qed.

Theorem read_decode_list k k' v offs m elems cf nm nl :
  reads_ok cf elems -> reads_ok (mkField nm (DList k' cf) nl) (AList k v offs m elems).
Proof.
  intros IH lvs i lv H Hx. cbn [decode] in H.
  destruct (decode elems) as [es|] eqn:Ee; [|discriminate]. destruct (ranges es offs) as [rs|] eqn:Er; [|discriminate].
  destruct offs as [|o0 rest]; [rewrite ranges_nil in Er; discriminate|].
  destruct (lvs_index _ _ _ _ _ _ H Hx) as [x [b0 [Ex [Hb0 ->]]]].
  rewrite ranges_eq in Er. destruct (ranges_nth _ _ _ _ _ _ Er Ex) as [s [e [Hs [He [H0 [Hse [Hel ->]]]]]]].
  cbn [read]. assert (S i < length (o0 :: rest)) by (apply nth_error_Some; congruence).
  destruct (Nat.leb_spec (length (o0 :: rest)) (S i)); [lia|]. rewrite Hb0. cbn [bind].
  destruct b0; cbn [negb]; [|rewrite present_null; reflexivity].
  unfold offset_pair. rewrite Hs, He. unfold to_usize.
  destruct (Z.ltb_spec s 0); [lia|]. destruct (Z.ltb_spec e 0); [lia|]. cbn [bind].
  rewrite <- (decode_length _ _ Ee). rewrite range_z_in_bounds by lia.
  rewrite (mapM_read_present _ (present cf) es) by (try lia; intros j lv' Hj; apply (IH es j lv' Ee Hj)).
  cbn [present fdt']. destruct (all_some _); reflexivity.
Qed.

(* ---- fixed-size lists ---- *)
Lemma chunks_nth {A} : forall count (l : list A) n cs i x, chunks l n count = Some cs -> nth_error cs i = Some x ->
  (i + 1) * n <= length l /\ x = firstn n (skipn (i * n) l).
Proof.
  induction count as [|c IH]; intros l n cs i x H Hx; cbn [chunks] in H.
  - inversion H; subst. destruct i; discriminate.
  - destruct (Nat.leb_spec n (length l)) as [Hle|]; [|discriminate].
    destruct (chunks (skipn n l) n c) as [r|] eqn:E; [|discriminate]. inversion H; subst.
    destruct i as [|i]; cbn [nth_error] in Hx.
    + inversion Hx; subst. split; [lia|reflexivity].
    + destruct (IH _ _ _ _ _ E Hx) as [Hl ->]. rewrite skipn_length in Hl. split; [lia|].
      rewrite skipn_skipn'. f_equal; f_equal; lia.
Qed.

Theorem read_decode_fixed_list len n v m elems cf nm nl :
  reads_ok cf elems -> reads_ok (mkField nm (DFixedList n cf) nl) (AFixedList len n v m elems).
Proof.
  intros IH lvs i lv H Hx. cbn [decode] in H.
  destruct (n <? 0)%Z eqn:Hn; [discriminate|]. apply Z.ltb_ge in Hn.
  destruct (decode elems) as [es|] eqn:Ee; [|discriminate]. destruct (chunks es (Z.to_nat n) len) as [cs|] eqn:Ec; [|discriminate].
  destruct (lvs_index _ _ _ _ _ _ H Hx) as [x [b0 [Ex [Hb0 ->]]]].
  destruct (chunks_nth _ _ _ _ _ _ Ec Ex) as [Hl ->].
  assert (Hi : i < len) by (rewrite <- (chunks_length _ _ _ _ Ec); apply nth_error_Some; congruence).
  cbn [read]. destruct (Nat.leb_spec len i); [lia|]. rewrite Hb0. cbn [bind].
  destruct b0; cbn [negb]; [|rewrite present_null; reflexivity].
  rewrite <- (decode_length _ _ Ee). rewrite range_z_in_bounds by nia.
  replace (Z.to_nat (Z.of_nat i * n)) with (i * Z.to_nat n) by nia.
  replace (Z.to_nat ((Z.of_nat i + 1) * n - Z.of_nat i * n)) with (Z.to_nat n) by nia.
  rewrite (mapM_read_present _ (present cf) es) by (try lia; intros j lv' Hj; apply (IH es j lv' Ee Hj)).
  cbn [present fdt']. destruct (all_some _); reflexivity.
Qed.

(* ---- structs ---- *)
Fixpoint decode_cols (fs : list (Meta * Arr)) : option (list (bytes * list LVal)) :=
  match fs with
  | [] => Some []
  | (m, c) :: r => match decode c, decode_cols r with Some vs, Some rest => Some ((m_name m, vs) :: rest) | _, _ => None end
  end.

Lemma decode_struct n v fs :
  decode (AStruct n v fs) =
  match decode_cols fs with
  | Some cols => match struct_rows n cols with Some rows => apply_validity v (map LStruct rows) | None => None end
  | None => None
  end.
Proof.
  cbn [decode].
  match goal with |- match ?x with _ => _ end = match ?y with _ => _ end => assert (E : x = y); [|rewrite E; reflexivity] end.
  induction fs as [|[m c] r IH]; [reflexivity|]. cbn [decode_cols]. rewrite <- IH. reflexivity.
Qed.

Fixpoint present_fields (fs : list Field) (vs : list (bytes * LVal)) {struct vs} : list (option (RVal * RVal)) :=
  match vs, fs with
  | (_, v) :: vs', sf :: fs' => option_map (fun r => (RStr (fname' sf), r)) (present sf v) :: present_fields fs' vs'
  | _, _ => []
  end.

Lemma present_struct f fs vs : fdt' f = DStruct fs ->
  present f (LStruct vs) = option_map RMap (all_some (present_fields fs vs)).
Proof.
  intros E. destruct f as [nm dt nl]. cbn [fdt'] in E. subst dt. cbn [present fdt'].
  reflexivity.
Qed.

Definition pick_row (i : nat) (c : bytes * list LVal) : option (bytes * LVal) :=
  match nth_error (snd c) i with Some v => Some (fst c, v) | None => None end.

Lemma struct_rows_nth : forall n cols rows i row, struct_rows n cols = Some rows -> nth_error rows i = Some row ->
  mapM_opt (pick_row i) cols = Some row.
Proof.
  induction n as [|n IH]; intros cols rows i row H Hx; cbn [struct_rows] in H.
  - inversion H; subst. destruct i; discriminate.
  - match type of H with match ?g with _ => _ end = _ => destruct g as [r0|] eqn:E0; [|discriminate] end.
    destruct (struct_rows n _) as [rest|] eqn:Er; [|discriminate]. inversion H; subst.
    destruct i as [|i]; cbn [nth_error] in Hx.
    + inversion Hx; subst. rewrite <- E0. clear. induction cols as [|[k [|x xs]] r IH]; cbn [mapM_opt pick_row snd fst nth_error]; try reflexivity.
      rewrite IH. reflexivity.
    + rewrite <- (IH _ _ _ _ Er Hx). clear - E0. revert r0 E0. induction cols as [|[k l] r IH]; intros r0 E0; [reflexivity|].
      cbn [mapM_opt map] in *. cbn [snd fst] in *. destruct l as [|x xs]; [discriminate|].
      destruct (mapM_opt _ r) as [ys|] eqn:Ey; [|discriminate].
      unfold pick_row at 1 3. cbn [snd fst nth_error tl]. rewrite (IH _ eq_refl). reflexivity.
Qed.

Lemma struct_go_present idx : forall fs fields cols row,
  Forall2 (fun sf (mc : Meta * Arr) => fname' sf = m_name (fst mc) /\ reads_ok sf (snd mc)) fs fields ->
  decode_cols fields = Some cols -> mapM_opt (pick_row idx) cols = Some row ->
  struct_go (fun c => read c idx) fields = of_option (all_some (present_fields fs row)).
Proof.
  intros fs fields cols row HF. revert cols row. induction HF as [|sf [m c] fs' fields' [Hn Hr] HF IH]; intros cols row Hc Hp.
  - cbn in Hc. inversion Hc; subst. cbn in Hp. inversion Hp; subst. reflexivity.
  - cbn [decode_cols] in Hc. destruct (decode c) as [vs|] eqn:Ed; [|discriminate].
    destruct (decode_cols fields') as [rest|] eqn:Er; [|discriminate]. inversion Hc; subst.
    cbn [mapM_opt] in Hp. unfold pick_row at 1 in Hp. cbn [snd fst] in Hp.
    destruct (nth_error vs idx) as [x|] eqn:Ex; [|discriminate].
    destruct (mapM_opt (pick_row idx) rest) as [row'|] eqn:Erow; [|discriminate]. inversion Hp; subst.
    cbn [struct_go present_fields snd fst] in *. rewrite (Hr vs idx x Ed Ex).
    destruct (present sf x) as [y|]; cbn [of_option bind option_map all_some]; [|reflexivity].
    rewrite (IH _ _ eq_refl Erow). rewrite Hn. destruct (all_some _); reflexivity.
Qed.

Theorem read_decode_struct len v fields fs nm nl :
  Forall2 (fun sf (mc : Meta * Arr) => fname' sf = m_name (fst mc) /\ reads_ok sf (snd mc)) fs fields ->
  reads_ok (mkField nm (DStruct fs) nl) (AStruct len v fields).
Proof.
  intros HF lvs i lv H Hx. rewrite decode_struct in H.
  destruct (decode_cols fields) as [cols|] eqn:Ec; [|discriminate]. destruct (struct_rows len cols) as [rows|] eqn:Es; [|discriminate].
  destruct (lvs_index _ _ _ _ _ _ H Hx) as [row [b0 [Ex [Hb0 ->]]]].
  assert (Hi : i < len) by (rewrite <- (struct_rows_length _ _ _ Es); apply nth_error_Some; congruence).
  rewrite read_struct. destruct (Nat.leb_spec len i); [lia|]. rewrite Hb0. cbn [bind].
  destruct b0; cbn [negb]; [|rewrite present_null; reflexivity].
  rewrite (struct_go_present i fs fields cols row HF Ec (struct_rows_nth _ _ _ _ _ Es Ex)).
  rewrite (present_struct _ fs) by reflexivity. destruct (all_some _); reflexivity.
Qed.

(* ---- maps ---- *)
Lemma nth_error_combine {A B} : forall (l : list A) (r : list B) j p, nth_error (combine l r) j = Some p ->
  nth_error l j = Some (fst p) /\ nth_error r j = Some (snd p).
Proof.
  induction l as [|x l IH]; intros [|y r] [|j] p H; cbn in H; try discriminate.
  - inversion H; subst. split; reflexivity.
  - cbn [nth_error]. apply IH. exact H.
Qed.

Definition present_kv (kf vf : Field) (kv : LVal * LVal) : option (RVal * RVal) :=
  match present kf (fst kv), present vf (snd kv) with Some k, Some v => Some (k, v) | _, _ => None end.

Theorem read_decode_map v offs en km vm keys values kf vf nm nl :
  reads_ok kf keys -> reads_ok vf values ->
  reads_ok (mkField nm (DMap en kf vf) nl) (AMap v offs en km vm keys values).
Proof.
  intros IHk IHv lvs i lv H Hx. cbn [decode] in H.
  destruct (decode keys) as [ks|] eqn:Ek; [|discriminate]. destruct (decode values) as [vs|] eqn:Ev; [|discriminate].
  destruct (Nat.eqb_spec (length ks) (length vs)) as [El|]; [|discriminate].
  destruct (ranges (combine ks vs) offs) as [rs|] eqn:Er; [|discriminate].
  destruct offs as [|o0 rest]; [rewrite ranges_nil in Er; discriminate|].
  destruct (lvs_index _ _ _ _ _ _ H Hx) as [x [b0 [Ex [Hb0 ->]]]].
  rewrite ranges_eq in Er. destruct (ranges_nth _ _ _ _ _ _ Er Ex) as [s [e [Hs [He [H0 [Hse [Hel ->]]]]]]].
  cbn [read]. assert (S i < length (o0 :: rest)) by (apply nth_error_Some; congruence).
  destruct (Nat.leb_spec (length (o0 :: rest)) (S i)); [lia|]. rewrite Hb0. cbn [bind].
  destruct b0; cbn [negb]; [|rewrite present_null; reflexivity].
  unfold offset_pair. rewrite Hs, He. unfold to_usize.
  destruct (Z.ltb_spec s 0); [lia|]. destruct (Z.ltb_spec e 0); [lia|]. cbn [bind].
  rewrite <- (decode_length _ _ Ek), <- (decode_length _ _ Ev).
  rewrite combine_length in Hel. rewrite range_z_in_bounds by lia.
  rewrite (mapM_read_present _ (present_kv kf vf) (combine ks vs)).
  - cbn [present fdt']. unfold present_kv. destruct (all_some _); reflexivity.
  - rewrite combine_length. lia.
  - intros j kv Hj. destruct (nth_error_combine _ _ _ _ Hj) as [Hkj Hvj].
    rewrite (IHk ks j _ Ek Hkj), (IHv vs j _ Ev Hvj). unfold present_kv.
    destruct (present kf (fst kv)); cbn [of_option bind]; [|reflexivity]. destruct (present vf (snd kv)); reflexivity.
Qed.

(* ---- dense unions ---- *)
Fixpoint decode_ucols (fs : list (Z * Meta * Arr)) : option (list (Z * list LVal)) :=
  match fs with
  | [] => Some []
  | (t, _, c) :: r => match decode c, decode_ucols r with Some vs, Some rest => Some ((t, vs) :: rest) | _, _ => None end
  end.

Definition union_row (cols : list (Z * list LVal)) (p : Z * Z) : option LVal :=
  let '(t, o) := p in
  match find (fun c : Z * list LVal => Z.eqb (fst c) t) cols with
  | Some (_, vs) => if (o <? 0)%Z then None else match nth_error vs (Z.to_nat o) with Some x => Some (LUnion t x) | None => None end
  | None => None
  end.

Lemma decode_union types offs fs :
  decode (AUnion types offs fs) =
  match decode_ucols fs with
  | Some cols => if Nat.eqb (length types) (length offs) then mapM_opt (union_row cols) (combine types offs) else None
  | None => None
  end.
Proof.
  cbn [decode].
  match goal with |- match ?x with _ => _ end = match ?y with _ => _ end => assert (E : x = y); [|rewrite E; reflexivity] end.
  induction fs as [|[[t m] c] r IH]; [reflexivity|]. cbn [decode_ucols]. rewrite <- IH. reflexivity.
Qed.

Lemma mapM_opt_nth {A B} (f : A -> option B) : forall l r i x, mapM_opt f l = Some r -> nth_error r i = Some x ->
  exists a, nth_error l i = Some a /\ f a = Some x.
Proof.
  induction l as [|a l IH]; intros r i x H Hx; cbn [mapM_opt] in H.
  - inversion H; subst. destruct i; discriminate.
  - destruct (f a) as [y|] eqn:Ey; [|discriminate]. destruct (mapM_opt f l) as [ys|] eqn:Em; [|discriminate]. inversion H; subst.
    destruct i as [|i]; cbn [nth_error] in *.
    + inversion Hx; subst. exists a. auto.
    + apply (IH ys i x eq_refl Hx).
Qed.

Definition present_variant (vf : Field) (x : LVal) : option RVal :=
  match fdt' vf with
  | DNull => Some (REnum (RStr (fname' vf)) RUnit)
  | _ => option_map (REnum (RStr (fname' vf))) (present vf x)
  end.

Definition UR (tf : Z * Field) (tmc : Z * Meta * Arr) : Prop :=
  fst tf = fst (fst tmc) /\ fname' (snd tf) = m_name (snd (fst tmc)) /\ reads_ok (snd tf) (snd tmc) /\
  (is_null_arr (snd tmc) = true <-> fdt' (snd tf) = DNull).

Lemma find_ge k : forall fields cols t p, consecutive k fields = true -> decode_ucols fields = Some cols ->
  find (fun c : Z * list LVal => Z.eqb (fst c) t) cols = Some p -> (k <= t)%Z.
Proof.
  intros fields. revert k. induction fields as [|[[t1 m] c] r IH]; intros k cols t p Hc Hd Hf.
  - cbn in Hd. inversion Hd; subst. discriminate.
  - cbn [consecutive] in Hc. apply andb_true_iff in Hc as [Ht Hc]. apply Z.eqb_eq in Ht. subst t1.
    cbn [decode_ucols] in Hd. destruct (decode c); [|discriminate]. destruct (decode_ucols r) as [rest|] eqn:Er; [|discriminate].
    inversion Hd; subst. cbn [find fst] in Hf. destruct (Z.eqb_spec k t); [lia|].
    specialize (IH (k + 1)%Z rest t p Hc eq_refl Hf). lia.
Qed.

Lemma union_pick_find (o : nat) : forall ufs fields, Forall2 UR ufs fields -> forall cols k t t0 vs x,
  consecutive k fields = true -> decode_ucols fields = Some cols -> (k <= t)%Z ->
  find (fun c : Z * list LVal => Z.eqb (fst c) t) cols = Some (t0, vs) -> nth_error vs o = Some x ->
  union_pick (fun c => at_z (read c) (arr_len c) (Z.of_nat o)) fields (Z.to_nat (t - k)) =
  of_option (match find (fun tf : Z * Field => Z.eqb (fst tf) t) ufs with Some (_, vf) => present_variant vf x | None => None end).
Proof.
  intros ufs fields HF. induction HF as [|[tu vf] [[t1 m] c] ufs' fields' [Ht [Hn [Hr Hnull]]] HF IH]; intros cols k t t0 vs x Hc Hd Hk Hf Hx.
  - cbn in Hd. inversion Hd; subst. discriminate.
  - cbn [fst snd] in *. subst tu.
    cbn [consecutive] in Hc. apply andb_true_iff in Hc as [Ht Hc]. apply Z.eqb_eq in Ht. subst t1.
    cbn [decode_ucols] in Hd. destruct (decode c) as [cvs|] eqn:Ec; [|discriminate]. destruct (decode_ucols fields') as [rest|] eqn:Er; [|discriminate].
    inversion Hd; subst. cbn [find fst] in *. destruct (Z.eqb_spec k t) as [Heq|Hne].
    + subst t. injection Hf as E1 E2. subst t0 cvs. replace (Z.to_nat (k - k)) with 0 by lia. cbn [union_pick]. unfold present_variant.
      destruct (is_null_arr c) eqn:En.
      * rewrite (proj1 Hnull eq_refl). rewrite Hn. reflexivity.
      * assert (Hd' : fdt' vf <> DNull) by (intros E; apply Hnull in E; congruence).
        unfold at_z. destruct (Z.ltb_spec (Z.of_nat o) 0); [lia|].
        assert (o < length vs) by (apply nth_error_Some; congruence). rewrite <- (decode_length _ _ Ec).
        destruct (Z.leb_spec (Z.of_nat (length vs)) (Z.of_nat o)); [lia|]. rewrite Nat2Z.id.
        rewrite (Hr vs o x Ec Hx), Hn. destruct (fdt' vf); try congruence; destruct (present vf x); reflexivity.
    + replace (Z.to_nat (t - k)) with (S (Z.to_nat (t - (k + 1)))) by lia. cbn [union_pick].
      apply (IH rest (k + 1)%Z t t0 vs x Hc eq_refl); [lia|exact Hf|exact Hx].
Qed.

Theorem read_decode_union types offs fields ufs nm nl :
  Forall2 UR ufs fields -> consecutive 0 fields = true ->
  reads_ok (mkField nm (DUnion ufs) nl) (AUnion types offs fields).
Proof.
  intros HF Hc lvs i lv H Hx. rewrite decode_union in H.
  destruct (decode_ucols fields) as [cols|] eqn:Ed; [|discriminate].
  destruct (Nat.eqb_spec (length types) (length offs)) as [El|]; [|discriminate].
  destruct (mapM_opt_nth _ _ _ _ _ H Hx) as [[t o] [Hto Hrow]].
  destruct (nth_error_combine _ _ _ _ Hto) as [Ht Ho]. cbn [fst snd] in Ht, Ho.
  unfold union_row in Hrow. destruct (find _ cols) as [[t0 vs]|] eqn:Ef; [|discriminate].
  destruct (Z.ltb_spec o 0) as [|Hge]; [discriminate|]. destruct (nth_error vs (Z.to_nat o)) as [x|] eqn:Ex; [|discriminate].
  inversion Hrow; subst lv. rewrite read_union, Ht, Ho. unfold to_usize. destruct (Z.ltb_spec o 0); [lia|]. cbn [bind].
  pose proof (find_ge 0 _ _ _ _ Hc Ed Ef) as Htge. destruct (Z.ltb_spec t 0); [lia|].
  pose proof (union_pick_find (Z.to_nat o) ufs fields HF cols 0%Z t t0 vs x Hc Ed Htge Ef Ex) as E.
  rewrite Z2Nat.id in E by lia. rewrite Z.sub_0_r in E. rewrite E.
  cbn [present fdt']. destruct (find _ ufs) as [[tu vf]|]; reflexivity.
Qed.

(* ---- remaining leaves: views, fixed-size binary, dictionaries ---- *)
Theorem read_decode_view k v descs bufs nm nl lvs i lv :
  decode (AView k v descs bufs) = Some lvs -> nth_error lvs i = Some lv ->
  (k = KUtf8View -> forall x, lv = LBytes x -> utf8_valid x = true) ->
  read (AView k v descs bufs) i = of_option (present (mkField nm (DView k) nl) lv).
Proof.
  intros H Hx Hutf. cbn [decode] in H. destruct (mapM_opt (view_bytes bufs) descs) as [bs|] eqn:Em; [|discriminate].
  destruct (lvs_index _ _ _ _ _ _ H Hx) as [x [b0 [Ex [Hb0 ->]]]].
  destruct (mapM_opt_nth _ _ _ _ _ Em Ex) as [d [Hd Hv]].
  cbn [read]. rewrite Hd, Hb0. cbn [bind]. destruct b0; cbn [negb]; [|rewrite present_null; reflexivity].
  rewrite Hv. unfold text_or_bytes. cbn [present fdt' is_text_dt].
  destruct k; [rewrite (Hutf eq_refl _ eq_refl)|]; reflexivity.
Qed.

Theorem read_decode_fixed_bin n v data nm nl lvs i lv :
  decode (AFixedBin n v data) = Some lvs -> nth_error lvs i = Some lv ->
  read (AFixedBin n v data) i = of_option (present (mkField nm (DFixedBin n) nl) lv).
Proof.
  intros H Hx. cbn [decode] in H. destruct (n <=? 0)%Z eqn:Hn; [discriminate|].
  destruct (negb (length data mod Z.to_nat n =? 0)); [discriminate|].
  destruct (chunks data (Z.to_nat n) (length data / Z.to_nat n)) as [cs|] eqn:Ec; [|discriminate].
  destruct (lvs_index _ _ _ _ _ _ H Hx) as [x [b0 [Ex [Hb0 ->]]]].
  destruct (chunks_nth _ _ _ _ _ _ Ec Ex) as [Hl ->].
  assert (Hi : i < length data / Z.to_nat n).
  { pose proof (chunks_length _ _ _ _ Ec) as Hcl. assert (i < length cs) by (apply (proj1 (nth_error_Some cs i)); intros E; unfold bytes in *; congruence). lia. }
  cbn [read arr_len]. rewrite Hn. destruct (Nat.leb_spec (length data / Z.to_nat n) i); [lia|]. rewrite Hb0. cbn [bind].
  destruct b0; cbn [negb]; [|rewrite present_null; reflexivity]. reflexivity.
Qed.

Lemma bytes_get_decode v offs data rs i x b0 :
  ranges data offs = Some rs -> nth_error rs i = Some x -> valid_at v i = Ok b0 ->
  bytes_get v offs data i = Ok (if b0 then Some x else None).
Proof.
  intros Er Ex Hb0. destruct offs as [|o0 rest]; [rewrite ranges_nil in Er; discriminate|].
  rewrite ranges_eq in Er. destruct (ranges_nth _ _ _ _ _ _ Er Ex) as [s [e [Hs [He [H0 [Hse [Hel ->]]]]]]].
  unfold bytes_get. assert (S i < length (o0 :: rest)) by (apply nth_error_Some; congruence).
  destruct (Nat.leb_spec (length (o0 :: rest)) (S i)); [lia|]. rewrite Hb0. cbn [bind].
  destruct b0; cbn [negb]; [|reflexivity].
  unfold offset_pair. rewrite Hs, He. unfold to_usize.
  destruct (Z.ltb_spec s 0); [lia|]. destruct (Z.ltb_spec e 0); [lia|]. cbn [bind].
  destruct (Z.leb_spec s e); [|lia]. destruct (Z.leb_spec e (Z.of_nat (length data))); [|lia]. reflexivity.
Qed.

Theorem read_decode_dict ik kv kvals bk offs data key val nm nl lvs i lv :
  (Z.of_nat (length offs) <= 9223372036854775807)%Z ->
  decode (ADict (APrim (PInt ik) kv kvals) (ABytes bk None offs data)) = Some lvs -> nth_error lvs i = Some lv ->
  (forall x, lv = LBytes x -> utf8_valid x = true) ->
  read (ADict (APrim (PInt ik) kv kvals) (ABytes bk None offs data)) i = of_option (present (mkField nm (DDict key val) nl) lv).
Proof.
  intros Hsz H Hx Hutf. cbn [decode] in H.
  destruct (apply_validity kv (map LInt kvals)) as [ks|] eqn:Ek; [|discriminate].
  destruct (ranges data offs) as [rs|] eqn:Er; [|discriminate]. cbn [apply_validity] in H.
  destruct (mapM_opt_nth _ _ _ _ _ H Hx) as [k0 [Hk Hf]].
  destruct (lvs_index _ _ _ _ _ _ Ek Hk) as [z [b0 [Ez [Hb0 ->]]]].
  cbn [read]. rewrite Ez, Hb0. cbn [bind]. destruct b0; cbn [negb].
  - destruct (Z.ltb_spec z 0) as [|Hz]; [discriminate|].
    destruct (nth_error (map LBytes rs) (Z.to_nat z)) as [y|] eqn:Ey; [|discriminate]. injection Hf as ->.
    assert (Hlt : Z.to_nat z < length rs) by (rewrite <- (map_length LBytes); apply nth_error_Some; congruence).
    destruct (nth_error rs (Z.to_nat z)) as [x|] eqn:Ex; [|apply nth_error_None in Ex; lia].
    rewrite (map_nth_error LBytes _ _ Ex) in Ey. injection Ey as <-.
    pose proof (ranges_length _ _ _ Er) as Hrl.
    destruct (Z.ltb_spec 9223372036854775807 z); [lia|]. cbn [orb].
    unfold at_z. destruct (Z.ltb_spec z 0); [lia|]. destruct (Z.leb_spec (Z.of_nat (length offs - 1)) z); [lia|].
    rewrite (bytes_get_decode None offs data rs _ x true Er Ex eq_refl). cbn [bind].
    unfold text_or_bytes. rewrite (Hutf x eq_refl). reflexivity.
  - injection Hf as <-. rewrite present_null. reflexivity.
Qed.

(* ---------------- C02 at full strength: every well-formed view of every data type ---------------- *)
(* the only side condition besides well-formedness: a dictionary's value offsets are addressable
   (fewer than 2^63 entries - the reader converts keys through i64) *)
Fixpoint addressable (a : Arr) : bool :=
  match a with
  | ADict _ (ABytes _ _ offs _) => (Z.of_nat (length offs) <=? 9223372036854775807)%Z
  | AList _ _ _ _ e | AFixedList _ _ _ _ e => addressable e
  | AStruct _ _ fs => forallb (fun mc => addressable (snd mc)) fs
  | AMap _ _ _ _ _ k x => addressable k && addressable x
  | AUnion _ _ fs => forallb (fun tmc => addressable (snd tmc)) fs
  | _ => true
  end.

Lemma unit_eqb_eq a c : unit_eqb a c = true -> a = c.
Proof. destruct a, c; cbn; congruence. Qed.
Lemma intkind_eqb_eq a c : intkind_eqb a c = true -> a = c.
Proof. destruct a, c; cbn; congruence. Qed.
Lemma primkind_eqb_eq a c : primkind_eqb a c = true -> a = c.
Proof.
  destruct a, c; cbn [primkind_eqb]; intros H; try discriminate; try reflexivity.
  - f_equal. apply intkind_eqb_eq. exact H.
  - f_equal. apply unit_eqb_eq. exact H.
  - f_equal. apply unit_eqb_eq. exact H.
  - apply andb_true_iff in H as [H1 H2]. apply unit_eqb_eq in H1. subst.
    destruct tz as [x|], tz0 as [y|]; cbn in H2; try discriminate; [|reflexivity]. apply bytes_eqb_eq in H2. subst. reflexivity.
  - f_equal. apply unit_eqb_eq. exact H.
  - apply andb_true_iff in H as [H1 H2]. apply N.eqb_eq in H1. apply Z.eqb_eq in H2. subst. reflexivity.
Qed.
Lemma byteskind_eqb_eq a c : byteskind_eqb a c = true -> a = c.
Proof. destruct a, c; cbn; congruence. Qed.
Lemma viewkind_eqb_eq a c : viewkind_eqb a c = true -> a = c.
Proof. destruct a, c; cbn; congruence. Qed.

Lemma visible_in a p lvs i lv : visible_ok a p = true -> decode a = Some lvs -> nth_error lvs i = Some lv -> p lv = true.
Proof.
  unfold visible_ok. intros H Hd Hx. rewrite Hd in H. rewrite forallb_forall in H. apply H. eapply nth_error_In. exact Hx.
Qed.

Lemma wf_null_iff strict f c : wf_arr strict f c = true -> (is_null_arr c = true <-> fdt' f = DNull).
Proof.
  destruct f as [nm dt nl]. destruct c; cbn [wf_arr fdt' is_null_arr]; destruct dt; intros H; try discriminate H; split; intros E; try discriminate E; reflexivity.
Qed.

Definition Full (c : Arr) : Prop :=
  forall f, wf_arr false f c = true -> construct c = true -> addressable c = true -> reads_ok f c.

Lemma struct_children_full len : forall children fs,
  Forall (fun mc : Meta * Arr => Full (snd mc)) children ->
  (fix go (fs : list Field) (cs : list (Meta * Arr)) {struct cs} : bool :=
     match fs, cs with
     | [], [] => true
     | cf :: fs', (m, c) :: cs' => meta_matches m cf && len_ok false (arr_len c) len && wf_arr false cf c && go fs' cs'
     | _, _ => false
     end) fs children = true ->
  forallb (fun mc => construct (snd mc)) children = true ->
  forallb (fun mc => addressable (snd mc)) children = true ->
  Forall2 (fun sf (mc : Meta * Arr) => fname' sf = m_name (fst mc) /\ reads_ok sf (snd mc)) fs children.
Proof.
  induction children as [|[m c] r IH]; intros fs HF Hgo Hc Ha; destruct fs as [|cf fs']; try discriminate Hgo; [constructor|].
  apply andb_true_iff in Hgo as [Hgo Hrest]. apply andb_true_iff in Hgo as [Hgo Hwf]. apply andb_true_iff in Hgo as [Hm _].
  cbn [forallb snd] in Hc, Ha. apply andb_true_iff in Hc as [Hc1 Hc2]. apply andb_true_iff in Ha as [Ha1 Ha2].
  inversion HF as [|x l HF1 HF2]; subst. constructor.
  - cbn [fst snd] in *. split; [|apply HF1; assumption].
    unfold meta_matches in Hm. apply andb_true_iff in Hm as [Hm _]. apply bytes_eqb_eq in Hm. congruence.
  - apply IH; assumption.
Qed.

Lemma union_children_full : forall children ufs,
  Forall (fun tmc : Z * Meta * Arr => Full (snd tmc)) children ->
  (fix go (fs : list (Z * Field)) (cs : list (Z * Meta * Arr)) {struct cs} : bool :=
     match fs, cs with
     | [], [] => true
     | (t, cf) :: fs', (t', m, c) :: cs' => (t =? t')%Z && meta_matches m cf && wf_arr false cf c && go fs' cs'
     | _, _ => false
     end) ufs children = true ->
  forallb (fun tmc => construct (snd tmc)) children = true ->
  forallb (fun tmc => addressable (snd tmc)) children = true ->
  Forall2 UR ufs children.
Proof.
  induction children as [|[[t' m] c] r IH]; intros ufs HF Hgo Hc Ha; destruct ufs as [|[t cf] fs']; try discriminate Hgo; [constructor|].
  apply andb_true_iff in Hgo as [Hgo Hrest]. apply andb_true_iff in Hgo as [Hgo Hwf]. apply andb_true_iff in Hgo as [Ht Hm].
  cbn [forallb snd] in Hc, Ha. apply andb_true_iff in Hc as [Hc1 Hc2]. apply andb_true_iff in Ha as [Ha1 Ha2].
  inversion HF as [|x l HF1 HF2]; subst. constructor.
  - unfold UR. cbn [fst snd] in *. apply Z.eqb_eq in Ht.
    unfold meta_matches in Hm. apply andb_true_iff in Hm as [Hm _]. apply bytes_eqb_eq in Hm.
    repeat split; try congruence; try (apply HF1; assumption); apply (wf_null_iff false cf c Hwf).
  - apply IH; assumption.
Qed.

Lemma dict_value_in ks vs lvs i x :
  mapM_opt (fun k => match k with
                     | LNull => Some LNull
                     | LInt i => if (i <? 0)%Z then None else nth_error vs (Z.to_nat i)
                     | _ => None end) ks = Some lvs ->
  nth_error lvs i = Some (LBytes x) -> In (LBytes x) vs.
Proof.
  intros H Hx. destruct (mapM_opt_nth _ _ _ _ _ H Hx) as [k [_ Hf]].
  destruct k; try discriminate Hf. destruct (z <? 0)%Z; [discriminate|]. eapply nth_error_In. exact Hf.
Qed.

Theorem read_decode_full : forall a, Full a.
Proof.
  intros a. induction a as [n|n v x|k v x|k v offs d|k v d bs|n v d|k v offs m e IHe|len n v m e IHe|len v fs IH
                            |v offs en km vm ks xs IHk IHx|ks xs IHk IHx|t offs fs IH] using Arr_ind';
    intros [nm dt nl] Hwf Hc Ha; cbn [wf_arr fdt' fnullable'] in Hwf;
    destruct dt as [| |pk|bk|vk|fbn|lk cf|fln cf|sfs|en' kf vf|key val|ufs]; try discriminate Hwf.
  - intros lvs i lv H Hx. eapply read_decode_null; eassumption.
  - intros lvs i lv H Hx. eapply read_decode_bool; eassumption.
  - intros lvs i lv H Hx. apply andb_true_iff in Hwf as [Hwf _]. apply andb_true_iff in Hwf as [Hk _]. apply primkind_eqb_eq in Hk. subst pk.
    eapply read_decode_prim; eassumption.
  - intros lvs i lv H Hx. apply andb_true_iff in Hwf as [Hwf Hu]. apply andb_true_iff in Hwf as [Hwf _]. apply andb_true_iff in Hwf as [Hk _].
    apply byteskind_eqb_eq in Hk. subst bk. eapply read_decode_bytes; try eassumption.
    intros Hutf y ->. rewrite Hutf in Hu. cbn [negb orb] in Hu. exact (visible_in _ _ _ _ _ Hu H Hx).
  - intros lvs i lv H Hx. apply andb_true_iff in Hwf as [Hwf Hu]. apply andb_true_iff in Hwf as [Hk _].
    apply viewkind_eqb_eq in Hk. subst vk. eapply read_decode_view; try eassumption.
    intros -> y ->. exact (visible_in _ _ _ _ _ Hu H Hx).
  - intros lvs i lv H Hx. apply andb_true_iff in Hwf as [Hwf _]. apply andb_true_iff in Hwf as [Hwf _]. apply andb_true_iff in Hwf as [Hn _].
    apply Z.eqb_eq in Hn. subst fbn. eapply read_decode_fixed_bin; eassumption.
  - apply andb_true_iff in Hwf as [_ Hwf]. cbn [construct addressable] in Hc, Ha.
    apply read_decode_list. apply IHe; assumption.
  - apply andb_true_iff in Hwf as [Hwf Hwe]. do 4 apply andb_true_iff in Hwf as [Hwf _]. apply Z.eqb_eq in Hwf. subst fln.
    cbn [construct addressable] in Hc, Ha. apply andb_true_iff in Hc as [_ Hc].
    apply read_decode_fixed_list. apply IHe; assumption.
  - apply andb_true_iff in Hwf as [_ Hgo]. cbn [construct addressable] in Hc, Ha.
    apply read_decode_struct. exact (struct_children_full len fs sfs IH Hgo Hc Ha).
  - apply andb_true_iff in Hwf as [Hwf Hwv]. apply andb_true_iff in Hwf as [Hwf Hwk]. do 5 apply andb_true_iff in Hwf as [Hwf _].
    apply bytes_eqb_eq in Hwf. subst en'.
    cbn [construct addressable] in Hc, Ha. apply andb_true_iff in Hc as [Hc1 Hc2]. apply andb_true_iff in Ha as [Ha1 Ha2].
    apply read_decode_map; [apply IHk|apply IHx]; assumption.
  - intros lvs i lv H Hx. apply andb_true_iff in Hwf as [Hwf _]. apply andb_true_iff in Hwf as [Hwk Hwv].
    cbn [construct] in Hc. destruct ks as [| |pk kv kvals| | | | | | | | |]; try discriminate Hc. destruct pk as [ik| | | | | | | | | |]; try discriminate Hc.
    destruct xs as [| | |bk bv boffs bdata| | | | | | | |]; try discriminate Hc. destruct bv as [bm|]; [destruct bk; discriminate Hc|].
    cbn [addressable] in Ha. apply Z.leb_le in Ha.
    eapply read_decode_dict; try eassumption.
    intros y ->. cbn [wf_arr fdt'] in Hwv.
    assert (Hutf : is_utf8_kind val = true) by (destruct bk; try discriminate Hc; destruct val; try reflexivity; cbn in Hwv; discriminate Hwv).
    apply andb_true_iff in Hwv as [_ Hu]. rewrite Hutf in Hu. cbn [negb orb] in Hu. unfold visible_ok in Hu.
    change (decode (ADict (APrim (PInt ik) kv kvals) (ABytes bk None boffs bdata))) with
      (match decode (APrim (PInt ik) kv kvals), decode (ABytes bk None boffs bdata) with
       | Some ks, Some vs => mapM_opt (fun k => match k with
                         | LNull => Some LNull
                         | LInt i => if (i <? 0)%Z then None else nth_error vs (Z.to_nat i)
                         | _ => None end) ks
       | _, _ => None end) in H.
    destruct (decode (APrim (PInt ik) kv kvals)) as [ks|]; [|discriminate]. destruct (decode (ABytes bk None boffs bdata)) as [vs|]; [|discriminate].
    rewrite forallb_forall in Hu. exact (Hu _ (dict_value_in _ _ _ _ _ H Hx)).
  - apply andb_true_iff in Hwf as [Hwf _]. apply andb_true_iff in Hwf as [_ Hgo].
    cbn [construct addressable] in Hc, Ha. apply andb_true_iff in Hc as [Hc Hcc]. apply andb_true_iff in Hc as [_ Hcons].
    apply read_decode_union; [exact (union_children_full fs ufs IH Hgo Hcc Ha)|exact Hcons].
Qed.
