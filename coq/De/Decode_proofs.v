(* C02 for the container kinds: reads return present(decode a)[i] for well-formed views.
   First: the logical content has exactly arr_len rows. *)
From Verif Require Import Reader Reader_proofs.
Require Import ZifyBool ZifyNat.
Local Open Scope nat_scope.

Lemma mapM_opt_length {A B} (f : A -> option B) : forall l r, mapM_opt f l = Some r -> length r = length l.
Proof.
  induction l as [|x l IH]; intros r H; cbn [mapM_opt] in H; [inversion H; reflexivity|].
  destruct (f x); [|discriminate]. destruct (mapM_opt f l) as [ys|]; [|discriminate]. inversion H; subst. cbn. f_equal. apply IH. reflexivity.
Qed.

Lemma ranges_go_length {A} (l : list A) : forall rest o0 rs, ranges_go l o0 rest = Some rs -> length rs = length rest.
Proof.
  induction rest as [|o1 rest IH]; intros o0 rs H; cbn [ranges_go] in H; [inversion H; reflexivity|].
  destruct ((0 <=? o0)%Z && (o0 <=? o1)%Z); [|discriminate]. destruct (sub_list l _ _); [|discriminate].
  destruct (ranges_go l o1 rest) as [r|] eqn:E; [|discriminate]. inversion H; subst. cbn. f_equal. eapply IH. exact E.
Qed.

Lemma ranges_length {A} (l : list A) offs rs : ranges l offs = Some rs -> length rs = length offs - 1.
Proof.
  destruct offs as [|o0 rest]; [rewrite ranges_nil; discriminate|]. rewrite ranges_eq. intros H.
  rewrite (ranges_go_length _ _ _ _ H). cbn. lia.
Qed.

Lemma chunks_length {A} : forall count (l : list A) n cs, chunks l n count = Some cs -> length cs = count.
Proof.
  induction count as [|c IH]; intros l n cs H; cbn [chunks] in H; [inversion H; reflexivity|].
  destruct (Nat.leb n (length l)); [|discriminate]. destruct (chunks (skipn n l) n c) as [r|] eqn:E; [|discriminate].
  inversion H; subst. cbn. f_equal. eapply IH. exact E.
Qed.

Lemma struct_rows_length : forall n cols rows, struct_rows n cols = Some rows -> length rows = n.
Proof.
  induction n as [|n IH]; intros cols rows H; cbn [struct_rows] in H; [inversion H; reflexivity|].
  destruct (mapM_opt _ cols); [|discriminate]. destruct (struct_rows n _) as [rest|] eqn:E; [|discriminate].
  inversion H; subst. cbn. f_equal. eapply IH. exact E.
Qed.

Lemma bits_from_length data : forall n start bits, bits_from data start n = Some bits -> length bits = n.
Proof. intros n start bits H. exact (proj1 (bits_from_spec data n start bits H)). Qed.

Theorem decode_length : forall a lvs, decode a = Some lvs -> length lvs = arr_len a.
Proof.
  intros a. induction a as [n|n v x|k v x|k v offs d|k v d bs|n v d|k v offs m e IHe|len n v m e IHe|len v fs IH
                            |v offs en km vm ks xs IHk IHx|ks xs IHk IHx|t offs fs IH] using Arr_ind'; intros lvs H; cbn [decode arr_len] in *.
  - inversion H; subst. apply repeat_length.
  - destruct (bits_of x n) as [bits|] eqn:Eb; [|discriminate]. rewrite (apply_validity_length _ _ _ H), map_length.
    unfold bits_of in Eb. eapply bits_from_length. exact Eb.
  - rewrite (apply_validity_length _ _ _ H). apply map_length.
  - destruct (ranges d offs) as [rs|] eqn:Er; [|discriminate]. rewrite (apply_validity_length _ _ _ H), map_length. eapply ranges_length. exact Er.
  - destruct (mapM_opt (view_bytes bs) d) as [xs|] eqn:Em; [|discriminate]. rewrite (apply_validity_length _ _ _ H), map_length. eapply mapM_opt_length. exact Em.
  - destruct (n <=? 0)%Z; [discriminate|]. destruct (negb (length d mod Z.to_nat n =? 0)); [discriminate|].
    destruct (chunks d (Z.to_nat n) (length d / Z.to_nat n)) as [cs|] eqn:Ec; [|discriminate].
    rewrite (apply_validity_length _ _ _ H), map_length. eapply chunks_length. exact Ec.
  - destruct (decode e) as [es|]; [|discriminate]. destruct (ranges es offs) as [rs|] eqn:Er; [|discriminate].
    rewrite (apply_validity_length _ _ _ H), map_length. eapply ranges_length. exact Er.
  - destruct (n <? 0)%Z; [discriminate|]. destruct (decode e) as [es|]; [|discriminate]. destruct (chunks es (Z.to_nat n) len) as [cs|] eqn:Ec; [|discriminate].
    rewrite (apply_validity_length _ _ _ H), map_length. eapply chunks_length. exact Ec.
  - match type of H with match ?g with _ => _ end = _ => destruct g as [cols|]; [|discriminate] end.
    destruct (struct_rows len cols) as [rows|] eqn:Es; [|discriminate].
    rewrite (apply_validity_length _ _ _ H), map_length. eapply struct_rows_length. exact Es.
  - destruct (decode ks) as [kl|]; [|discriminate]. destruct (decode xs) as [xl|]; [|discriminate].
    destruct (length kl =? length xl); [|discriminate]. destruct (ranges (combine kl xl) offs) as [rs|] eqn:Er; [|discriminate].
    rewrite (apply_validity_length _ _ _ H), map_length. eapply ranges_length. exact Er.
  - destruct (decode ks) as [kl|] eqn:Ek; [|discriminate]. destruct (decode xs) as [xl|]; [|discriminate].
    rewrite (mapM_opt_length _ _ _ H). apply IHk. reflexivity.
  - match type of H with match ?g with _ => _ end = _ => destruct g as [cols|]; [|discriminate] end.
    destruct (Nat.eqb_spec (length t) (length offs)) as [El|]; [|discriminate].
    rewrite (mapM_opt_length _ _ _ H), combine_length. lia.
Qed.

(* ---------------- containers: reads of a container are the presented logical content as soon
   as the reads of its children are (compositional, any depth) ---------------- *)
Definition reads_ok (f : Field) (a : Arr) : Prop :=
  forall lvs i lv, decode a = Some lvs -> nth_error lvs i = Some lv -> read a i = of_option (present f lv).

Lemma skipn_nth_cons {A} (l : list A) s x : nth_error l s = Some x -> skipn s l = x :: skipn (S s) l.
Proof.
  revert l; induction s as [|s IH]; intros [|y l] H; cbn in H; try discriminate.
  - inversion H; reflexivity.
  - cbn [skipn]. rewrite (IH l H). destruct l; reflexivity.
Qed.

Lemma mapM_read_present {K} (rd : nat -> Outcome K) {L} (g : L -> option K) (es : list L) : forall n s,
  s + n <= length es ->
  (forall j lv, nth_error es j = Some lv -> rd j = of_option (g lv)) ->
  mapM rd (seq s n) = of_option (all_some (map g (firstn n (skipn s es)))).
Proof.
  induction n as [|n IH]; intros s Hl H; [reflexivity|].
  destruct (nth_error es s) as [x|] eqn:Ex; [|apply nth_error_None in Ex; lia].
  rewrite (skipn_nth_cons _ _ _ Ex). cbn [seq mapM firstn map all_some]. rewrite (H _ _ Ex).
  destruct (g x) as [y|]; cbn [of_option bind]; [|reflexivity].
  rewrite IH by (try lia; exact H). destruct (all_some _); reflexivity.
Qed.

Lemma lvs_index {A} (f : A -> LVal) v rs lvs i lv :
  apply_validity v (map f rs) = Some lvs -> nth_error lvs i = Some lv ->
  exists x b0, nth_error rs i = Some x /\ valid_at v i = Ok b0 /\ lv = if b0 then f x else LNull.
Proof.
  intros H Hx.
  assert (Hi : i < length rs).
  { rewrite <- (map_length f rs), <- (apply_validity_length _ _ _ H). apply nth_error_Some. congruence. }
  destruct (nth_error rs i) as [x|] eqn:Ex; [|apply nth_error_None in Ex; lia].
  assert (Hv : nth_error (map f rs) i = Some (f x)) by (apply map_nth_error; exact Ex).
  destruct (apply_validity_nth _ _ _ _ _ H Hv) as [b0 [Hb0 Hout]].
  rewrite Hx in Hout. injection Hout as Hlv. exists x, b0. auto.
Qed.

Lemma present_null f : present f LNull = Some RNone.
Proof. unfold present. destruct (fdt' f); reflexivity. Qed.

Theorem read_decode_list k v offs m elems cf nm nl :
  reads_ok cf elems -> reads_ok (mkField nm (DList k cf) nl) (AList k v offs m elems).
Proof.
  intros IH lvs i lv H Hx. cbn [decode] in H.
  destruct (decode elems) as [es|] eqn:Ee; [|discriminate]. destruct (ranges es offs) as [rs|] eqn:Er; [|discriminate].
  destruct offs as [|o0 rest]; [rewrite ranges_nil in Er; discriminate|].
  destruct (lvs_index _ _ _ _ _ _ H Hx) as [x [b0 [Ex [Hb0 ->]]]].
  rewrite ranges_eq in Er. destruct (ranges_nth _ _ _ _ _ _ Er Ex) as [s [e [Hs [He [H0 [Hse [Hel ->]]]]]]].
  cbn [read]. assert (S i < length (o0 :: rest)) by (apply nth_error_Some; congruence).
  destruct (Nat.leb_spec (length (o0 :: rest)) (S i)); [lia|]. rewrite Hb0. cbn [bind].
  destruct b0; cbn [negb]; [|rewrite present_null; reflexivity].
  unfold offset_pair. rewrite Hs, He. unfold to_usize.
  destruct (Z.ltb_spec s 0); [lia|]. destruct (Z.ltb_spec e 0); [lia|]. cbn [bind].
  rewrite <- (decode_length _ _ Ee). rewrite range_z_in_bounds by lia.
  rewrite (mapM_read_present _ (present cf) es) by (try lia; intros j lv' Hj; apply (IH es j lv' Ee Hj)).
  cbn [present fdt']. destruct (all_some _); reflexivity.
Qed.
