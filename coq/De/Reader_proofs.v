From Verif Require Import Reader.
Require Import ZifyBool ZifyNat.
Local Open Scope nat_scope.

Section ArrInd.
  Variable P : Arr -> Prop.
  Hypothesis Hnull : forall n, P (ANull n).
  Hypothesis Hbool : forall n v x, P (ABool n v x).
  Hypothesis Hprim : forall k v x, P (APrim k v x).
  Hypothesis Hbytes : forall k v o d, P (ABytes k v o d).
  Hypothesis Hview : forall k v d bs, P (AView k v d bs).
  Hypothesis Hfb : forall n v d, P (AFixedBin n v d).
  Hypothesis Hlist : forall k v o m e, P e -> P (AList k v o m e).
  Hypothesis Hfl : forall l n v m e, P e -> P (AFixedList l n v m e).
  Hypothesis Hstruct : forall l v fs, Forall (fun mc => P (snd mc)) fs -> P (AStruct l v fs).
  Hypothesis Hmap : forall v o en km vm k x, P k -> P x -> P (AMap v o en km vm k x).
  Hypothesis Hdict : forall k x, P k -> P x -> P (ADict k x).
  Hypothesis Hunion : forall t o fs, Forall (fun tmc => P (snd tmc)) fs -> P (AUnion t o fs).
  Fixpoint Arr_ind' (a : Arr) : P a :=
    match a with
    | ANull n => Hnull n | ABool n v x => Hbool n v x | APrim k v x => Hprim k v x | ABytes k v o d => Hbytes k v o d
    | AView k v d bs => Hview k v d bs | AFixedBin n v d => Hfb n v d
    | AList k v o m e => Hlist k v o m e (Arr_ind' e) | AFixedList l n v m e => Hfl l n v m e (Arr_ind' e)
    | AStruct l v fs => Hstruct l v fs ((fix go (x : list (Meta * Arr)) : Forall (fun mc => P (snd mc)) x :=
                                            match x with [] => Forall_nil _ | (m, c) :: r => Forall_cons (m, c) (Arr_ind' c) (go r) end) fs)
    | AMap v o en km vm k x => Hmap v o en km vm k x (Arr_ind' k) (Arr_ind' x)
    | ADict k x => Hdict k x (Arr_ind' k) (Arr_ind' x)
    | AUnion t o fs => Hunion t o fs ((fix go (x : list (Z * Meta * Arr)) : Forall (fun tmc => P (snd tmc)) x :=
                                         match x with [] => Forall_nil _ | (t', m, c) :: r => Forall_cons (t', m, c) (Arr_ind' c) (go r) end) fs)
    end.
End ArrInd.

(* ---------------- the nested loops of read, as standalone functions ---------------- *)
Fixpoint struct_go (rd : Arr -> Outcome RVal) (fs : list (Meta * Arr)) : Outcome (list (RVal * RVal)) :=
  match fs with
  | [] => Ok []
  | (m, c) :: r => do x <- rd c ;; do rest <- struct_go rd r ;; Ok ((RStr (m_name m), x) :: rest)
  end.

Fixpoint union_pick (rd : Arr -> Outcome RVal) (fs : list (Z * Meta * Arr)) (n : nat) : Outcome RVal :=
  match fs with
  | [] => Err
  | (_, m, c) :: r =>
    match n with
    | O => if is_null_arr c then Ok (REnum (RStr (m_name m)) RUnit)
           else do x <- rd c ;; Ok (REnum (RStr (m_name m)) x)
    | S n' => union_pick rd r n'
    end
  end.

Lemma read_struct len v fs idx :
  read (AStruct len v fs) idx =
  if Nat.leb len idx then Err
  else do ok <- valid_at v idx ;;
       if negb ok then Ok RNone
       else do kvs <- struct_go (fun c => read c idx) fs ;; Ok (RMap kvs).
Proof.
  cbn [read]. destruct (Nat.leb len idx); [reflexivity|].
  destruct (valid_at v idx) as [ok| |p]; cbn [bind]; try reflexivity.
  destruct ok; cbn [negb]; [|reflexivity].
  match goal with |- bind ?x _ = bind ?y _ => assert (E : x = y); [|rewrite E; reflexivity] end.
  induction fs as [|[m c] r IH]; [reflexivity|]. cbn [struct_go]. rewrite <- IH. reflexivity.
Qed.

Lemma read_union types offs fs idx :
  read (AUnion types offs fs) idx =
  match nth_error types idx, nth_error offs idx with
  | Some t, Some o =>
    do o' <- to_usize o ;;
    if (t <? 0)%Z then Err
    else union_pick (fun c => at_z (read c) (arr_len c) o') fs (Z.to_nat t)
  | _, _ => Err
  end.
Proof.
  cbn [read]. destruct (nth_error types idx) as [t|]; [|reflexivity].
  destruct (nth_error offs idx) as [o|]; [|reflexivity].
  destruct (to_usize o) as [o'| |p]; cbn [bind]; try reflexivity.
  destruct (t <? 0)%Z; [reflexivity|]. generalize (Z.to_nat t) as n.
  induction fs as [|[[t' m] c] r IH]; intros n; [reflexivity|]. cbn [union_pick].
  destruct n as [|n]; [reflexivity|]. apply IH.
Qed.

(* ---------------- no panic, for every view whatsoever (C17) ---------------- *)
Definition NP {A} (o : Outcome A) : Prop := forall p, o <> Panic p.

Lemma NP_ok {A} (a : A) : NP (Ok a). Proof. intros p; discriminate. Qed.
Lemma NP_err {A} : NP (@Err A). Proof. intros p; discriminate. Qed.
Lemma NP_bind {A B} (o : Outcome A) (f : A -> Outcome B) : NP o -> (forall a, NP (f a)) -> NP (bind o f).
Proof. intros H1 H2 p. apply bind_not_panic; [exact H1|]. intros a q. apply H2. Qed.
Lemma NP_of_option {A} (o : option A) : NP (of_option o). Proof. destruct o; [apply NP_ok|apply NP_err]. Qed.
Lemma NP_omap {A B} (f : A -> B) o : NP o -> NP (omap f o).
Proof. destruct o as [a| |q]; cbn; intros H p; try discriminate. exfalso. exact (H q eq_refl). Qed.
Lemma NP_if {A} (c : bool) (x y : Outcome A) : NP x -> NP y -> NP (if c then x else y).
Proof. destruct c; auto. Qed.
Lemma NP_valid_at v i : NP (valid_at v i).
Proof. destruct v as [bm|]; cbn; [apply NP_of_option|apply NP_ok]. Qed.
Lemma NP_bit_at bm i : NP (bit_at bm i). Proof. apply NP_of_option. Qed.
Lemma NP_to_usize z : NP (to_usize z). Proof. unfold to_usize. apply NP_if; [apply NP_err|apply NP_ok]. Qed.
Lemma NP_offset_pair offs i : NP (offset_pair offs i).
Proof.
  unfold offset_pair. destruct (nth_error offs i); [|apply NP_err]. destruct (nth_error offs (S i)); [|apply NP_err].
  apply NP_bind; [apply NP_to_usize|]. intros s. apply NP_bind; [apply NP_to_usize|]. intros e. apply NP_ok.
Qed.
Lemma NP_mapM {A B} (f : A -> Outcome B) l : (forall x, NP (f x)) -> NP (mapM f l).
Proof.
  intros H. induction l as [|x r IH]; cbn [mapM]; [apply NP_ok|].
  apply NP_bind; [apply H|]. intros y. apply NP_bind; [exact IH|]. intros ys. apply NP_ok.
Qed.
Lemma NP_range_z {A} (rd : nat -> Outcome A) len s e : (forall i, NP (rd i)) -> NP (range_z rd len s e).
Proof.
  intros H. unfold range_z. apply NP_if; [apply NP_ok|]. apply NP_if.
  - apply NP_if; [apply NP_err|]. apply NP_bind; [apply NP_mapM; exact H|]. intros _. apply NP_err.
  - apply NP_mapM; exact H.
Qed.
Lemma NP_at_z {A} (rd : nat -> Outcome A) len z : (forall i, NP (rd i)) -> NP (at_z rd len z).
Proof. intros H. unfold at_z. apply NP_if; [apply NP_err|]. apply NP_if; [apply NP_err|apply H]. Qed.
Lemma NP_text_or_bytes t x : NP (text_or_bytes t x).
Proof. unfold text_or_bytes. apply NP_if; [apply NP_if; [apply NP_ok|apply NP_err]|apply NP_ok]. Qed.
Lemma NP_bytes_get v offs data i : NP (bytes_get v offs data i).
Proof.
  unfold bytes_get. apply NP_if; [apply NP_err|]. apply NP_bind; [apply NP_valid_at|]. intros ok.
  apply NP_if; [apply NP_ok|]. apply NP_bind; [apply NP_offset_pair|]. intros [s e].
  apply NP_if; [apply NP_ok|apply NP_err].
Qed.

Theorem read_no_panic : forall a idx, NP (read a idx).
Proof.
  intros a. induction a as [n|n v x|k v x|k v offs d|k v d bs|n v d|k v offs m e IHe|len n v m e IHe|len v fs IH
                            |v offs en km vm ks xs IHk IHx|ks xs IHk IHx|t offs fs IH] using Arr_ind'; intros idx.
  - cbn [read]. apply NP_if; [apply NP_err|apply NP_ok].
  - cbn [read]. apply NP_if; [apply NP_err|]. apply NP_bind; [apply NP_valid_at|]. intros ok.
    apply NP_if; [|apply NP_ok]. apply NP_bind; [apply NP_bit_at|]. intros y. apply NP_ok.
  - cbn [read]. destruct (nth_error x idx); [|apply NP_err]. apply NP_bind; [apply NP_valid_at|]. intros ok.
    apply NP_if; [apply NP_of_option|apply NP_ok].
  - cbn [read]. apply NP_bind; [apply NP_bytes_get|]. intros [y|]; [apply NP_text_or_bytes|apply NP_ok].
  - cbn [read]. destruct (nth_error d idx); [|apply NP_err]. apply NP_bind; [apply NP_valid_at|]. intros ok.
    apply NP_if; [apply NP_ok|]. destruct (view_bytes bs n); [apply NP_text_or_bytes|apply NP_err].
  - cbn [read]. apply NP_if; [apply NP_err|]. apply NP_bind; [apply NP_valid_at|]. intros ok.
    apply NP_if; apply NP_ok.
  - cbn [read]. apply NP_if; [apply NP_err|]. apply NP_bind; [apply NP_valid_at|]. intros ok.
    apply NP_if; [apply NP_ok|]. apply NP_bind; [apply NP_offset_pair|]. intros [s e'].
    apply NP_bind; [apply NP_range_z; exact IHe|]. intros items. apply NP_ok.
  - cbn [read]. apply NP_if; [apply NP_err|]. apply NP_bind; [apply NP_valid_at|]. intros ok.
    apply NP_if; [apply NP_ok|]. apply NP_bind; [apply NP_range_z; exact IHe|]. intros items. apply NP_ok.
  - rewrite read_struct. apply NP_if; [apply NP_err|]. apply NP_bind; [apply NP_valid_at|]. intros ok.
    apply NP_if; [apply NP_ok|]. apply NP_bind; [|intros kvs; apply NP_ok].
    induction IH as [|[m c] r Hc Hr IHr]; cbn [struct_go]; [apply NP_ok|].
    apply NP_bind; [apply Hc|]. intros y. apply NP_bind; [exact IHr|]. intros rest. apply NP_ok.
  - cbn [read]. apply NP_if; [apply NP_err|]. apply NP_bind; [apply NP_valid_at|]. intros ok.
    apply NP_if; [apply NP_ok|]. apply NP_bind; [apply NP_offset_pair|]. intros [s e'].
    apply NP_bind; [|intros kvs; apply NP_ok]. apply NP_range_z. intros i.
    apply NP_bind; [apply IHk|]. intros k'. apply NP_bind; [apply IHx|]. intros x'. apply NP_ok.
  - cbn [read]. destruct ks; try apply NP_err. destruct k; try apply NP_err. destruct xs; try apply NP_err.
    destruct validity0; try apply NP_err.
    destruct (nth_error values idx); [|apply NP_err]. apply NP_bind; [apply NP_valid_at|]. intros ok.
    apply NP_if; [apply NP_ok|]. apply NP_if; [apply NP_err|].
    apply NP_bind; [apply NP_at_z; intros i; apply NP_bytes_get|]. intros [y|]; [apply NP_text_or_bytes|apply NP_err].
  - rewrite read_union. destruct (nth_error t idx); [|apply NP_err]. destruct (nth_error offs idx); [|apply NP_err].
    apply NP_bind; [apply NP_to_usize|]. intros o'. apply NP_if; [apply NP_err|].
    generalize (Z.to_nat z) as n. induction IH as [|[[t' m] c] r Hc Hr IHr]; intros n; cbn [union_pick]; [apply NP_err|].
    destruct n as [|n]; [|apply IHr]. apply NP_if; [apply NP_ok|].
    apply NP_bind; [apply NP_at_z; exact Hc|]. intros y. apply NP_ok.
Qed.

Theorem read_top_no_panic : forall a idx, NP (read_top a idx).
Proof.
  intros a idx. unfold read_top. apply NP_if; [|apply NP_err]. apply NP_if; [|apply NP_ok].
  apply NP_omap. apply read_no_panic.
Qed.

(* ---------------- reads at or beyond the length are errors; the clamps are faithful ---------------- *)
Theorem read_oob : forall a idx, arr_len a <= idx -> read a idx = Err.
Proof.
  intros a idx H. destruct a; cbn [arr_len] in H.
  - cbn [read]. destruct (Nat.leb_spec len idx); [reflexivity|lia].
  - cbn [read]. destruct (Nat.leb_spec len idx); [reflexivity|lia].
  - cbn [read]. destruct (nth_error values idx) eqn:E; [|reflexivity].
    assert (idx < length values) by (apply nth_error_Some; congruence). lia.
  - cbn [read]. unfold bytes_get. destruct (Nat.leb_spec (length offsets) (S idx)); [reflexivity|lia].
  - cbn [read]. destruct (nth_error descs idx) eqn:E; [|reflexivity]. assert (idx < length descs) by (apply nth_error_Some; congruence). lia.
  - cbn [read arr_len]. destruct (Nat.leb_spec (if (n <=? 0)%Z then 0 else length data / Z.to_nat n) idx); [reflexivity|lia].
  - cbn [read]. destruct (Nat.leb_spec (length offsets) (S idx)); [reflexivity|lia].
  - cbn [read]. destruct (Nat.leb_spec len idx); [reflexivity|lia].
  - rewrite read_struct. destruct (Nat.leb_spec len idx); [reflexivity|lia].
  - cbn [read]. destruct (Nat.leb_spec (length offsets) (S idx)); [reflexivity|lia].
  - cbn [read]. destruct a1; try reflexivity. destruct k; try reflexivity. destruct a2; try reflexivity.
    destruct validity0; try reflexivity. cbn [arr_len] in H.
    destruct (nth_error values idx) eqn:E; [|reflexivity]. assert (idx < length values) by (apply nth_error_Some; congruence). lia.
  - rewrite read_union. destruct (nth_error types idx) eqn:E; [|reflexivity]. assert (idx < length types) by (apply nth_error_Some; congruence). lia.
Qed.

(* the loops as the Rust code runs them, without the clamp *)
Definition naive_range {A} (rd : nat -> Outcome A) (s e : Z) : Outcome (list A) :=
  if (e <=? s)%Z then Ok [] else mapM rd (seq (Z.to_nat s) (Z.to_nat (e - s))).

Lemma mapM_app_err {A B} (f : A -> Outcome B) l1 x l2 :
  (forall y, NP (f y)) -> f x = Err -> mapM f (l1 ++ x :: l2) = do _ <- mapM f l1 ;; Err.
Proof.
  intros Hnp Hx. induction l1 as [|y r IH]; cbn [app mapM bind].
  - rewrite Hx. reflexivity.
  - destruct (f y) as [y'| |p] eqn:Ey; cbn [bind]; try reflexivity.
    rewrite IH. destruct (mapM f r) as [ys| |p]; cbn [bind]; reflexivity.
Qed.

Theorem range_z_faithful {A} (rd : nat -> Outcome A) len s e :
  (forall i, len <= i -> rd i = Err) -> (forall i, NP (rd i)) -> (0 <= s)%Z ->
  range_z rd len s e = naive_range rd s e.
Proof.
  intros Hoob Hnp Hs. unfold range_z, naive_range.
  destruct (Z.leb_spec e s); [reflexivity|].
  destruct (Z.ltb_spec (Z.of_nat len) e); [|reflexivity].
  destruct (Z.leb_spec (Z.of_nat len) s).
  - destruct (Z.to_nat (e - s)) as [|n] eqn:En; [lia|]. cbn [seq mapM]. rewrite Hoob by lia. reflexivity.
  - replace (Z.to_nat (e - s)) with ((len - Z.to_nat s) + S (Z.to_nat (e - Z.of_nat len) - 1)) by lia.
    rewrite seq_app. cbn [seq]. rewrite mapM_app_err; [reflexivity|exact Hnp|]. apply Hoob. lia.
Qed.

Theorem at_z_faithful {A} (rd : nat -> Outcome A) len z :
  (forall i, len <= i -> rd i = Err) -> (0 <= z)%Z -> at_z rd len z = rd (Z.to_nat z).
Proof.
  intros Hoob Hz. unfold at_z. destruct (Z.ltb_spec z 0); [lia|].
  destruct (Z.leb_spec (Z.of_nat len) z); [|reflexivity]. rewrite Hoob by lia. reflexivity.
Qed.

(* the clamped child accesses of read are exactly the unclamped ones *)
Corollary read_child_range e s t : (0 <= s)%Z -> range_z (read e) (arr_len e) s t = naive_range (read e) s t.
Proof. intros H. apply range_z_faithful; [apply read_oob|apply read_no_panic|exact H]. Qed.
Corollary read_child_at c z : (0 <= z)%Z -> at_z (read c) (arr_len c) z = read c (Z.to_nat z).
Proof. intros H. apply at_z_faithful; [apply read_oob|exact H]. Qed.

(* ---------------- slices (C12) ---------------- *)
Lemma bit_at_slice bm o i : bit_at (slice_bm bm o) i = bit_at bm (o + i).
Proof. unfold bit_at, slice_bm. cbn [bm_off bm_data]. f_equal. f_equal. lia. Qed.

Lemma valid_at_slice v o i : valid_at (slice_validity v o) i = valid_at v (o + i).
Proof. destruct v as [bm|]; cbn [slice_validity option_map valid_at]; [apply bit_at_slice|reflexivity]. Qed.

Lemma nth_error_firstn_lt {A} (l : list A) n i : i < n -> nth_error (firstn n l) i = nth_error l i.
Proof.
  revert n i; induction l as [|x r IH]; intros [|n] [|i] H; cbn; try reflexivity; try lia.
  apply IH. lia.
Qed.

Lemma nth_error_skipn {A} (l : list A) o i : nth_error (skipn o l) i = nth_error l (o + i).
Proof.
  revert l; induction o as [|o IH]; intros l; [reflexivity|]. destruct l as [|x r]; [destruct i; reflexivity|].
  cbn [skipn plus nth_error]. apply IH.
Qed.

Lemma nth_error_window {A} (l : list A) o n i : i < n -> nth_error (window l o n) i = nth_error l (o + i).
Proof. intros H. unfold window. rewrite nth_error_firstn_lt by exact H. apply nth_error_skipn. Qed.

Lemma offset_pair_window offs o l i : i < l -> offset_pair (window offs o (S l)) i = offset_pair offs (o + i).
Proof.
  intros H. unfold offset_pair. rewrite !nth_error_window by lia.
  replace (o + S i) with (S (o + i)) by lia. reflexivity.
Qed.

Lemma window_length {A} (l : list A) o n : o + n <= length l -> length (window l o n) = n.
Proof. intros H. unfold window. rewrite firstn_length, skipn_length. lia. Qed.

Lemma mapM_ext_seq {A} (f g : nat -> Outcome A) k s n :
  (forall j, s <= j < s + n -> f j = g (k + j)) -> mapM f (seq s n) = mapM g (seq (k + s) n).
Proof.
  revert s; induction n as [|n IH]; intros s H; [reflexivity|]. cbn [seq mapM].
  rewrite H by lia. replace (S (k + s)) with (k + S s) by lia. rewrite IH; [reflexivity|]. intros j Hj. apply H. lia.
Qed.

Lemma range_z_in_bounds {A} (rd : nat -> Outcome A) len s e :
  (s <= e)%Z -> (e <= Z.of_nat len)%Z ->
  range_z rd len s e = mapM rd (seq (Z.to_nat s) (Z.to_nat (e - s))).
Proof.
  intros H1 H2. unfold range_z. destruct (Z.leb_spec e s).
  - replace (Z.to_nat (e - s)) with 0 by lia. reflexivity.
  - destruct (Z.ltb_spec (Z.of_nat len) e); [lia|reflexivity].
Qed.

(* length consistency of fixed-size and struct containers (implied by wf_arr, see wf_lens_ok) *)
Fixpoint lens_ok (a : Arr) : bool :=
  match a with
  | AFixedList len n _ _ e => (0 <=? n)%Z && Nat.leb (len * Z.to_nat n) (arr_len e) && lens_ok e
  | AStruct len _ fs => forallb (fun mc => Nat.leb len (arr_len (snd mc)) && lens_ok (snd mc)) fs
  | ADict k _ => lens_ok k
  | _ => true
  end.

Lemma window_offs_len {A} (offs : list A) o l : o + l <= length offs - 1 -> length (window offs o (S l)) - 1 = l.
Proof. intros H. unfold window. rewrite firstn_length, skipn_length. lia. Qed.

Lemma div_mul_window n l : 0 < n -> l * n / n = l.
Proof. intros H. apply Nat.div_mul. lia. Qed.

Lemma arr_len_slice : forall a o l, lens_ok a = true -> o + l <= arr_len a -> arr_len (slice_arr a o l) = l.
Proof.
  intros a. induction a as [n|n v x|k v x|k v offs d|k v d bs|n v d|k v offs m e IHe|len n v m e IHe|len v fs IH
                            |v offs en km vm ks xs IHk IHx|ks xs IHk IHx|t offs fs IH] using Arr_ind';
    intros o l Hok Hol; cbn [arr_len] in Hol; cbn [slice_arr arr_len]; try reflexivity.
  - apply window_length. exact Hol.
  - apply window_offs_len. exact Hol.
  - apply window_length. exact Hol.
  - destruct (Z.leb_spec n 0); [lia|]. rewrite window_length.
    + apply div_mul_window. lia.
    + assert (Hd := Nat.mul_div_le (length d) (Z.to_nat n)). nia.
  - apply window_offs_len. exact Hol.
  - apply window_offs_len. exact Hol.
  - cbn [lens_ok] in Hok. apply IHk; assumption.
  - apply window_length. exact Hol.
Qed.

Lemma skipn_skipn' {A} (l : list A) x y : skipn x (skipn y l) = skipn (y + x) l.
Proof.
  revert l; induction y as [|y IH]; intros l; [reflexivity|]. destruct l as [|a r]; [rewrite !skipn_nil; reflexivity|].
  cbn [skipn plus]. apply IH.
Qed.

Lemma skipn_window {A} (l : list A) o n i : skipn i (window l o n) = window l (o + i) (n - i).
Proof.
  unfold window. rewrite skipn_firstn_comm. rewrite skipn_skipn'. reflexivity.
Qed.

Lemma firstn_window {A} (l : list A) o n k : k <= n -> firstn k (window l o n) = firstn k (skipn o l).
Proof. intros H. unfold window. rewrite firstn_firstn. f_equal. lia. Qed.

(* Deserializing a slice equals slicing the deserialized values: row i of the window [o, o+l) reads
   exactly as row o+i of the whole array - for every data type of the dispatcher, at every nesting
   level, for windows that start inside a bitmap byte *)
Theorem read_slice : forall a o l i, lens_ok a = true -> o + l <= arr_len a -> i < l ->
  read (slice_arr a o l) i = read a (o + i).
Proof.
  intros a. induction a as [n|n v x|k v x|k v offs d|k v d bs|n v d|k v offs m e IHe|len n v m e IHe|len v fs IH
                            |v offs en km vm ks xs IHk IHx|ks xs IHk IHx|t offs fs IH] using Arr_ind';
    intros o l i Hok Hol Hi; cbn [arr_len] in Hol.
  - cbn [slice_arr read]. destruct (Nat.leb_spec l i); [lia|]. destruct (Nat.leb_spec n (o + i)); [lia|]. reflexivity.
  - cbn [slice_arr read]. destruct (Nat.leb_spec l i); [lia|]. destruct (Nat.leb_spec n (o + i)); [lia|].
    rewrite valid_at_slice, bit_at_slice. reflexivity.
  - cbn [slice_arr read]. rewrite nth_error_window by exact Hi. rewrite valid_at_slice. reflexivity.
  - cbn [slice_arr read]. unfold bytes_get. rewrite window_length by lia.
    destruct (Nat.leb_spec (S l) (S i)); [lia|]. destruct (Nat.leb_spec (length offs) (S (o + i))); [lia|].
    rewrite valid_at_slice, offset_pair_window by exact Hi. reflexivity.
  - cbn [slice_arr read]. rewrite nth_error_window by exact Hi. rewrite valid_at_slice. reflexivity.
  - cbn [slice_arr]. assert (Hlen := arr_len_slice (AFixedBin n v d) o l eq_refl Hol). cbn [slice_arr] in Hlen.
    cbn [read]. rewrite Hlen. cbn [arr_len].
    destruct (Nat.leb_spec l i); [lia|].
    destruct (Nat.leb_spec (if (n <=? 0)%Z then 0 else length d / Z.to_nat n) (o + i)); [lia|].
    rewrite valid_at_slice. destruct (valid_at v (o + i)) as [ok| |p]; cbn [bind]; try reflexivity.
    destruct ok; cbn [negb]; [|reflexivity]. f_equal. f_equal.
    rewrite skipn_window. rewrite firstn_window by nia. f_equal. f_equal. lia.
  - cbn [slice_arr read]. rewrite window_length by lia.
    destruct (Nat.leb_spec (S l) (S i)); [lia|]. destruct (Nat.leb_spec (length offs) (S (o + i))); [lia|].
    rewrite valid_at_slice, offset_pair_window by exact Hi. reflexivity.
  - cbn [lens_ok] in Hok. apply andb_true_iff in Hok as [Hok Hoke]. apply andb_true_iff in Hok as [Hn Hle].
    apply Z.leb_le in Hn. apply Nat.leb_le in Hle.
    cbn [slice_arr read]. destruct (Nat.leb_spec l i); [lia|]. destruct (Nat.leb_spec len (o + i)); [lia|].
    rewrite valid_at_slice. destruct (valid_at v (o + i)) as [ok| |p]; cbn [bind]; try reflexivity.
    destruct ok; cbn [negb]; [|reflexivity].
    rewrite arr_len_slice by (try assumption; nia).
    rewrite !range_z_in_bounds by nia.
    replace (Z.to_nat ((Z.of_nat (o + i) + 1) * n - Z.of_nat (o + i) * n)) with (Z.to_nat n) by nia.
    replace (Z.to_nat ((Z.of_nat i + 1) * n - Z.of_nat i * n)) with (Z.to_nat n) by nia.
    replace (Z.to_nat (Z.of_nat (o + i) * n)) with (o * Z.to_nat n + Z.to_nat (Z.of_nat i * n)) by nia.
    rewrite (mapM_ext_seq (read (slice_arr e (o * Z.to_nat n) (l * Z.to_nat n))) (read e) (o * Z.to_nat n)); [reflexivity|].
    intros j Hj. apply IHe; [exact Hoke|nia|nia].
  - cbn [lens_ok] in Hok. cbn [slice_arr]. rewrite !read_struct.
    destruct (Nat.leb_spec l i); [lia|]. destruct (Nat.leb_spec len (o + i)); [lia|].
    rewrite valid_at_slice. destruct (valid_at v (o + i)) as [ok| |p]; cbn [bind]; try reflexivity.
    destruct ok; cbn [negb]; [|reflexivity].
    match goal with |- bind ?x _ = bind ?y _ => assert (E : x = y); [|rewrite E; reflexivity] end.
    induction IH as [|[m c] r Hc Hr IHr]; [reflexivity|]. cbn [forallb snd] in Hok.
    apply andb_true_iff in Hok as [Hc1 Hr1]. apply andb_true_iff in Hc1 as [Hcl Hcok]. apply Nat.leb_le in Hcl.
    cbn [snd] in Hc. cbn [map struct_go fst snd]. rewrite (Hc o l i); [|exact Hcok|lia|exact Hi]. rewrite IHr by exact Hr1. reflexivity.
  - cbn [slice_arr read]. rewrite window_length by lia.
    destruct (Nat.leb_spec (S l) (S i)); [lia|]. destruct (Nat.leb_spec (length offs) (S (o + i))); [lia|].
    rewrite valid_at_slice, offset_pair_window by exact Hi. reflexivity.
  - cbn [lens_ok] in Hok. cbn [slice_arr]. destruct ks; try reflexivity. destruct k; try reflexivity.
    cbn [slice_arr read]. cbn [arr_len] in Hol. rewrite nth_error_window by exact Hi. rewrite valid_at_slice. reflexivity.
  - cbn [slice_arr]. rewrite !read_union. rewrite !nth_error_window by exact Hi. reflexivity.
Qed.

(* the reader tree of a slice is accepted whenever that of the whole array is *)
Lemma construct_slice : forall a o l, lens_ok a = true -> o + l <= arr_len a -> construct a = true ->
  construct (slice_arr a o l) = true.
Proof.
  intros a. induction a as [n|n v x|k v x|k v offs d|k v d bs|n v d|k v offs m e IHe|len n v m e IHe|len v fs IH
                            |v offs en km vm ks xs IHk IHx|ks xs IHk IHx|t offs fs IH] using Arr_ind';
    intros o l Hok Hol Hc; cbn [arr_len] in Hol; cbn [slice_arr construct] in *; try assumption; try reflexivity.
  - apply andb_true_iff in Hc as [Hn Hd]. apply Z.leb_le in Hn. rewrite (proj2 (Z.leb_le 0 n) Hn). cbn [andb].
    destruct (Z.eqb_spec n 0) as [->|Hn0].
    + cbn [Z.to_nat]. rewrite !Nat.mul_0_r. reflexivity.
    + destruct (Z.leb_spec n 0); [lia|]. apply Nat.eqb_eq.
      assert (Hd' := Nat.mul_div_le (length d) (Z.to_nat n)).
      rewrite window_length by nia. apply Nat.mod_mul. lia.
  - cbn [lens_ok] in Hok. apply andb_true_iff in Hok as [Hok Hoke]. apply andb_true_iff in Hok as [Hn Hle].
    apply Nat.leb_le in Hle. apply andb_true_iff in Hc as [Hn' Hce]. rewrite Hn'. cbn [andb].
    apply IHe; [exact Hoke|nia|exact Hce].
  - cbn [lens_ok] in Hok. rewrite forallb_forall in *. intros mc' Hin. apply in_map_iff in Hin as [[m c] [<- Hin]].
    cbn [snd fst]. rewrite Forall_forall in IH. specialize (Hok _ Hin). specialize (Hc _ Hin). cbn [snd] in *.
    apply andb_true_iff in Hok as [Hl Hokc]. apply Nat.leb_le in Hl. apply (IH _ Hin); cbn [snd]; [exact Hokc|lia|exact Hc].
  - cbn [lens_ok] in Hok. destruct ks; try discriminate. destruct k; try discriminate. cbn [slice_arr]. exact Hc.
  - apply andb_true_iff in Hc as [Hc Hfs]. apply andb_true_iff in Hc as [Hlen Hcons]. apply Nat.eqb_eq in Hlen.
    rewrite Hcons, Hfs. rewrite !window_length by lia. rewrite Nat.eqb_refl. reflexivity.
Qed.

(* C12 through the public entry point (one column): item i of the slice = item o+i of the whole
   array, and the slice has exactly l items *)
Theorem read_top_slice : forall a o l i, construct a = true -> lens_ok a = true -> o + l <= arr_len a -> i < l ->
  read_top (slice_arr a o l) i = read_top a (o + i).
Proof.
  intros a o l i Hc Hok Hol Hi. unfold read_top. rewrite Hc, construct_slice by assumption.
  rewrite arr_len_slice by assumption.
  destruct (Nat.ltb_spec i l); [|lia]. destruct (Nat.ltb_spec (o + i) (arr_len a)); [|lia].
  rewrite read_slice by assumption. reflexivity.
Qed.

Theorem read_top_slice_end : forall a o l i, construct a = true -> lens_ok a = true -> o + l <= arr_len a -> l <= i ->
  read_top (slice_arr a o l) i = Ok None.
Proof.
  intros a o l i Hc Hok Hol Hi. unfold read_top. rewrite construct_slice by assumption.
  rewrite arr_len_slice by assumption. destruct (Nat.ltb_spec i l); [lia|reflexivity].
Qed.

(* slices of slices: a window of a window is the composed window *)
Lemma lens_ok_slice : forall a o l, lens_ok a = true -> o + l <= arr_len a -> lens_ok (slice_arr a o l) = true.
Proof.
  intros a. induction a as [n|n v x|k v x|k v offs d|k v d bs|n v d|k v offs m e IHe|len n v m e IHe|len v fs IH
                            |v offs en km vm ks xs IHk IHx|ks xs IHk IHx|t offs fs IH] using Arr_ind';
    intros o l Hok Hol; cbn [arr_len] in Hol; cbn [slice_arr lens_ok] in *; try reflexivity.
  - apply andb_true_iff in Hok as [Hok Hoke]. apply andb_true_iff in Hok as [Hn Hle]. apply Nat.leb_le in Hle.
    rewrite Hn. cbn [andb]. rewrite arr_len_slice by (try assumption; nia). rewrite Nat.leb_refl. cbn [andb].
    apply IHe; [exact Hoke|nia].
  - rewrite forallb_forall in *. intros mc' Hin. apply in_map_iff in Hin as [[m c] [<- Hin]].
    cbn [snd fst]. rewrite Forall_forall in IH. specialize (Hok _ Hin). cbn [snd] in *.
    apply andb_true_iff in Hok as [Hl Hokc]. apply Nat.leb_le in Hl.
    rewrite arr_len_slice by (try assumption; lia). rewrite Nat.leb_refl. cbn [andb]. apply (IH _ Hin); cbn [snd]; [exact Hokc|lia].
  - apply IHk; assumption.
Qed.

Theorem read_slice_of_slice : forall a o l o2 l2 i, lens_ok a = true -> o + l <= arr_len a -> o2 + l2 <= l -> i < l2 ->
  read (slice_arr (slice_arr a o l) o2 l2) i = read a (o + o2 + i).
Proof.
  intros a o l o2 l2 i Hok Hol Hol2 Hi.
  rewrite read_slice; [|apply lens_ok_slice; assumption|rewrite arr_len_slice by assumption; exact Hol2|exact Hi].
  rewrite read_slice by (try assumption; lia). f_equal. lia.
Qed.

(* well-formed arrays satisfy the length condition of the slice theorems *)
Lemma wf_lens_ok : forall a strict f, wf_arr strict f a = true -> lens_ok a = true.
Proof.
  intros a. induction a as [n|n v x|k v x|k v offs d|k v d bs|n v d|k v offs m e IHe|len n v m e IHe|len v fs IH
                            |v offs en km vm ks xs IHk IHx|ks xs IHk IHx|t offs fs IH] using Arr_ind';
    intros strict [fnm fd fnl] Hwf; cbn [lens_ok]; try reflexivity.
  - destruct fd; cbn [wf_arr fdt'] in Hwf; try discriminate.
    repeat (apply andb_true_iff in Hwf as [Hwf ?]).
    match goal with H : (0 <=? _)%Z = true |- _ => rename H into Hn end.
    match goal with H : len_ok _ _ _ = true |- _ => rename H into Hl end.
    match goal with H : (_ =? _)%Z = true |- _ => apply Z.eqb_eq in H; subst end.
    rewrite Hn. cbn [andb]. apply andb_true_iff. split.
    + unfold len_ok in Hl. destruct strict; [apply Nat.eqb_eq in Hl; rewrite Hl; apply Nat.leb_refl|exact Hl].
    + eapply IHe. eassumption.
  - destruct fd; cbn [wf_arr fdt'] in Hwf; try discriminate.
    apply andb_true_iff in Hwf as [_ Hgo]. revert fs0 Hgo.
    induction IH as [|[m c] r Hc Hr IHr]; intros fs0 Hgo; [reflexivity|].
    destruct fs0 as [|cf fs0]; [discriminate|].
    repeat (apply andb_true_iff in Hgo as [Hgo ?]). cbn [forallb snd].
    apply andb_true_iff; split; [apply andb_true_iff; split|].
    + match goal with H : len_ok _ _ _ = true |- _ => unfold len_ok in H; destruct strict; [apply Nat.eqb_eq in H; rewrite H; apply Nat.leb_refl|exact H] end.
    + eapply Hc. eassumption.
    + eapply IHr. eassumption.
  - destruct fd; cbn [wf_arr fdt'] in Hwf; try discriminate.
    repeat (apply andb_true_iff in Hwf as [Hwf ?]). eapply IHk. eassumption.
Qed.

(* ---------------- reads return the logical content (C02), leaf kinds ---------------- *)
Lemma bits_from_spec data : forall n start bits, bits_from data start n = Some bits ->
  length bits = n /\ forall i, i < n -> get_bit data (start + i) = Some (nth i bits false).
Proof.
  induction n as [|n IH]; intros start bits H; cbn [bits_from] in H.
  - inversion H; subst. split; [reflexivity|]. intros i Hi. lia.
  - destruct (get_bit data start) as [b0|] eqn:E0; [|discriminate].
    destruct (bits_from data (S start) n) as [r|] eqn:Er; [|discriminate]. inversion H; subst.
    destruct (IH _ _ Er) as [Hl Hn]. split; [cbn; lia|]. intros [|i] Hi.
    + rewrite Nat.add_0_r. exact E0.
    + cbn [nth]. replace (start + S i) with (S start + i) by lia. apply Hn. lia.
Qed.

Lemma nth_error_map_combine {A} (bits : list bool) (vals : list A) (f : bool * A -> A) i x :
  length bits = length vals -> nth_error vals i = Some x ->
  nth_error (map f (combine bits vals)) i = Some (f (nth i bits false, x)).
Proof.
  revert vals i; induction bits as [|b0 r IH]; intros [|v0 vs] i Hl Hx; cbn in Hl; try lia.
  - destruct i; discriminate.
  - destruct i as [|i]; cbn in *; [inversion Hx; reflexivity|]. apply IH; [lia|exact Hx].
Qed.

(* validity: the slot is null exactly when the bit at (bit offset + i) is clear; the value
   below a null slot is irrelevant *)
Lemma apply_validity_nth v vals out i x :
  apply_validity v vals = Some out -> nth_error vals i = Some x ->
  exists b0, valid_at v i = Ok b0 /\ nth_error out i = Some (if b0 then x else LNull).
Proof.
  intros H Hx. assert (Hi : i < length vals) by (apply nth_error_Some; congruence).
  destruct v as [bm|]; cbn [apply_validity valid_at] in *.
  - unfold bits_of in H. destruct (bits_from (bm_data bm) (bm_off bm) (length vals)) as [bits|] eqn:Eb; [|discriminate].
    inversion H; subst. destruct (bits_from_spec _ _ _ _ Eb) as [Hl Hn].
    exists (nth i bits false). split.
    + unfold bit_at. rewrite Nat.add_comm, (Hn i Hi). reflexivity.
    + rewrite (nth_error_map_combine bits vals _ i x Hl Hx). reflexivity.
  - inversion H; subst. exists true. split; [reflexivity|exact Hx].
Qed.

Lemma apply_validity_length v vals out : apply_validity v vals = Some out -> length out = length vals.
Proof.
  destruct v as [bm|]; cbn [apply_validity]; intros H.
  - unfold bits_of in H. destruct (bits_from (bm_data bm) (bm_off bm) (length vals)) as [bits|] eqn:Eb; [|discriminate].
    inversion H; subst. destruct (bits_from_spec _ _ _ _ Eb) as [Hl _]. rewrite map_length, combine_length. lia.
  - inversion H; reflexivity.
Qed.

Theorem read_decode_null n nm nl lvs i lv :
  decode (ANull n) = Some lvs -> nth_error lvs i = Some lv ->
  read (ANull n) i = of_option (present (mkField nm DNull nl) lv).
Proof.
  intros H Hx. cbn [decode] in H. inversion H; subst.
  assert (i < n) by (rewrite <- (repeat_length LNull n); apply nth_error_Some; congruence).
  cbn [read]. destruct (Nat.leb_spec n i); [lia|]. destruct lv; reflexivity.
Qed.

Theorem read_decode_bool n v vals nm nl lvs i lv :
  decode (ABool n v vals) = Some lvs -> nth_error lvs i = Some lv ->
  read (ABool n v vals) i = of_option (present (mkField nm DBool nl) lv).
Proof.
  intros H Hx. cbn [decode] in H. destruct (bits_of vals n) as [bits|] eqn:Eb; [|discriminate].
  unfold bits_of in Eb. destruct (bits_from_spec _ _ _ _ Eb) as [Hl Hn].
  assert (Hi : i < n).
  { rewrite <- Hl, <- (map_length LBool bits), <- (apply_validity_length _ _ _ H). apply nth_error_Some. congruence. }
  assert (Hv : nth_error (map LBool bits) i = Some (LBool (nth i bits false))).
  { rewrite nth_error_map. rewrite (nth_error_nth' bits false) by lia. reflexivity. }
  destruct (apply_validity_nth _ _ _ _ _ H Hv) as [b0 [Hb0 Hout]].
  rewrite Hx in Hout. injection Hout as Hlv. subst lv.
  cbn [read]. destruct (Nat.leb_spec n i); [lia|]. rewrite Hb0. cbn [bind].
  destruct b0; [|reflexivity]. unfold bit_at. rewrite Nat.add_comm, (Hn i Hi). reflexivity.
Qed.

Theorem read_decode_prim k v vals nm nl lvs i lv :
  decode (APrim k v vals) = Some lvs -> nth_error lvs i = Some lv ->
  read (APrim k v vals) i = of_option (present (mkField nm (DPrim k) nl) lv).
Proof.
  intros H Hx. cbn [decode] in H.
  assert (Hi : i < length vals).
  { rewrite <- (map_length LInt vals), <- (apply_validity_length _ _ _ H). apply nth_error_Some. congruence. }
  destruct (nth_error vals i) as [z|] eqn:Ez; [|apply nth_error_None in Ez; lia].
  assert (Hv : nth_error (map LInt vals) i = Some (LInt z)) by (rewrite nth_error_map, Ez; reflexivity).
  destruct (apply_validity_nth _ _ _ _ _ H Hv) as [b0 [Hb0 Hout]].
  rewrite Hx in Hout. injection Hout as Hlv. subst lv.
  cbn [read]. rewrite Ez, Hb0. cbn [bind]. destruct b0; [|destruct k; reflexivity].
  cbn [present fdt']. destruct k; try reflexivity.
Qed.

(* offsets: slot i of a bytes array is data[offs[i] .. offs[i+1]], whatever the first offset is
   and whether or not other parts of data are referenced *)
Fixpoint ranges_go {A} (l : list A) (prev : Z) (rest : list Z) : option (list (list A)) :=
  match rest with
  | [] => Some []
  | o :: rest' =>
    if (0 <=? prev)%Z && (prev <=? o)%Z then
      match sub_list l (Z.to_nat prev) (Z.to_nat (o - prev)), ranges_go l o rest' with
      | Some x, Some r => Some (x :: r) | _, _ => None end
    else None
  end.

Lemma ranges_eq {A} (l : list A) o0 rest : ranges l (o0 :: rest) = ranges_go l o0 rest.
Proof.
  destruct l as [|a l]; cbn [ranges]; revert o0; induction rest as [|o1 rest IH]; intros o0; cbn [ranges_go];
    try reflexivity; rewrite <- IH; reflexivity.
Qed.

Lemma ranges_nil {A} (l : list A) : ranges l [] = None.
Proof. destruct l; reflexivity. Qed.

Lemma ranges_nth {A} (l : list A) : forall rest o0 rs i x,
  ranges_go l o0 rest = Some rs -> nth_error rs i = Some x ->
  exists s e, nth_error (o0 :: rest) i = Some s /\ nth_error (o0 :: rest) (S i) = Some e /\ (0 <= s)%Z /\ (s <= e)%Z /\ (e <= Z.of_nat (length l))%Z /\ x = firstn (Z.to_nat (e - s)) (skipn (Z.to_nat s) l).
Proof.
  induction rest as [|o1 rest IH]; intros o0 rs i x H Hx.
  - cbn in H. inversion H; subst. destruct i; discriminate Hx.
  - cbn [ranges_go] in H.
    destruct ((0 <=? o0)%Z && (o0 <=? o1)%Z) eqn:Ec; [|discriminate].
    apply andb_true_iff in Ec as [E0 E1]. apply Z.leb_le in E0. apply Z.leb_le in E1.
    unfold sub_list in H.
    destruct (Nat.leb_spec (Z.to_nat o0 + Z.to_nat (o1 - o0)) (length l)) as [Hle|]; [|discriminate].
    destruct (ranges_go l o1 rest) as [r|] eqn:Er; [|discriminate].
    inversion H; subst. destruct i as [|i].
    + cbn in Hx. inversion Hx; subst. exists o0, o1. repeat split; try reflexivity; try lia.
    + cbn [nth_error] in Hx. destruct (IH o1 r i x) as [s [e [Hs [He Hr]]]]; [exact Er|exact Hx|].
      exists s, e. split; [exact Hs|]. split; [exact He|exact Hr].
Qed.

Theorem read_decode_bytes k v offs data nm nl lvs i lv :
  decode (ABytes k v offs data) = Some lvs -> nth_error lvs i = Some lv ->
  (is_utf8_kind k = true -> forall x, lv = LBytes x -> utf8_valid x = true) ->
  read (ABytes k v offs data) i = of_option (present (mkField nm (DBytes k) nl) lv).
Proof.
  intros H Hx Hutf. cbn [decode] in H. destruct (ranges data offs) as [rs|] eqn:Er; [|discriminate].
  destruct offs as [|o0 rest]; [rewrite ranges_nil in Er; discriminate|].
  assert (Hi : i < length rs).
  { replace (length rs) with (length (map LBytes rs)) by apply map_length.
    rewrite <- (apply_validity_length _ _ _ H). apply nth_error_Some. congruence. }
  destruct (nth_error rs i) as [x|] eqn:Ex; [|apply nth_error_None in Ex; lia].
  rewrite ranges_eq in Er. destruct (ranges_nth _ _ _ _ _ _ Er Ex) as [s [e [Hs [He [H0 [Hse [Hel ->]]]]]]].
  assert (Hv : nth_error (map LBytes rs) i = Some (LBytes (firstn (Z.to_nat (e - s)) (skipn (Z.to_nat s) data))))
    by (apply (map_nth_error LBytes); exact Ex).
  destruct (apply_validity_nth _ _ _ _ _ H Hv) as [b0 [Hb0 Hout]].
  rewrite Hx in Hout. injection Hout as Hlv. subst lv.
  cbn [read]. unfold bytes_get.
  assert (S i < length (o0 :: rest)) by (apply nth_error_Some; congruence).
  destruct (Nat.leb_spec (length (o0 :: rest)) (S i)); [lia|]. rewrite Hb0. cbn [bind].
  destruct b0; cbn [negb]; [|destruct k; reflexivity].
  unfold offset_pair. rewrite Hs, He. unfold to_usize.
  destruct (Z.ltb_spec s 0); [lia|]. destruct (Z.ltb_spec e 0); [lia|]. cbn [bind].
  destruct (Z.leb_spec s e); [|lia]. destruct (Z.leb_spec e (Z.of_nat (length data))); [|lia]. cbn [andb bind].
  unfold text_or_bytes. cbn [present fdt']. destruct k; cbn [is_utf8_kind is_text_dt] in *;
    try rewrite (Hutf eq_refl _ eq_refl); reflexivity.
Qed.
