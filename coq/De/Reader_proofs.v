From Verif Require Import Reader.
Require Import ZifyBool ZifyNat.
Local Open Scope nat_scope.

Section ArrInd.
  Variable P : Arr -> Prop.
  Hypothesis Hnull : forall n, P (ANull n).
  Hypothesis Hbool : forall n v x, P (ABool n v x).
  Hypothesis Hprim : forall k v x, P (APrim k v x).
  Hypothesis Hbytes : forall k v o d, P (ABytes k v o d).
  Hypothesis Hview : forall k v d bs, P (AView k v d bs).
  Hypothesis Hfb : forall n v d, P (AFixedBin n v d).
  Hypothesis Hlist : forall k v o m e, P e -> P (AList k v o m e).
  Hypothesis Hfl : forall l n v m e, P e -> P (AFixedList l n v m e).
  Hypothesis Hstruct : forall l v fs, Forall (fun mc => P (snd mc)) fs -> P (AStruct l v fs).
  Hypothesis Hmap : forall v o en km vm k x, P k -> P x -> P (AMap v o en km vm k x).
  Hypothesis Hdict : forall k x, P k -> P x -> P (ADict k x).
  Hypothesis Hunion : forall t o fs, Forall (fun tmc => P (snd tmc)) fs -> P (AUnion t o fs).
  Fixpoint Arr_ind' (a : Arr) : P a :=
    match a with
    | ANull n => Hnull n | ABool n v x => Hbool n v x | APrim k v x => Hprim k v x | ABytes k v o d => Hbytes k v o d
    | AView k v d bs => Hview k v d bs | AFixedBin n v d => Hfb n v d
    | AList k v o m e => Hlist k v o m e (Arr_ind' e) | AFixedList l n v m e => Hfl l n v m e (Arr_ind' e)
    | AStruct l v fs => Hstruct l v fs ((fix go (x : list (Meta * Arr)) : Forall (fun mc => P (snd mc)) x :=
                                            match x with [] => Forall_nil _ | (m, c) :: r => Forall_cons (m, c) (Arr_ind' c) (go r) end) fs)
    | AMap v o en km vm k x => Hmap v o en km vm k x (Arr_ind' k) (Arr_ind' x)
    | ADict k x => Hdict k x (Arr_ind' k) (Arr_ind' x)
    | AUnion t o fs => Hunion t o fs ((fix go (x : list (Z * Meta * Arr)) : Forall (fun tmc => P (snd tmc)) x :=
                                         match x with [] => Forall_nil _ | (t', m, c) :: r => Forall_cons (t', m, c) (Arr_ind' c) (go r) end) fs)
    end.
End ArrInd.

(* ---------------- slices ---------------- *)
Lemma bit_at_slice bm o i : bit_at (slice_bm bm o) i = bit_at bm (o + i).
Proof. unfold bit_at, slice_bm. cbn [bm_off bm_data]. f_equal. f_equal. lia. Qed.

Lemma valid_at_slice v o i : valid_at (slice_validity v o) i = valid_at v (o + i).
Proof. destruct v as [bm|]; cbn [slice_validity option_map valid_at]; [apply bit_at_slice|reflexivity]. Qed.

Lemma nth_error_window {A} (l : list A) o n i : i < n -> nth_error (firstn n (skipn o l)) i = nth_error l (o + i).
Proof.
  intros Hi. rewrite nth_error_firstn by exact Hi. Abort.

Lemma nth_error_firstn_lt {A} (l : list A) n i : i < n -> nth_error (firstn n l) i = nth_error l i.
Proof.
  revert n i; induction l as [|x r IH]; intros [|n] [|i] H; cbn; try reflexivity; try lia.
  apply IH. lia.
Qed.

Lemma nth_error_skipn {A} (l : list A) o i : nth_error (skipn o l) i = nth_error l (o + i).
Proof.
  revert l; induction o as [|o IH]; intros l; [reflexivity|]. destruct l as [|x r]; [destruct i; reflexivity|].
  cbn [skipn plus nth_error]. apply IH.
Qed.

Lemma nth_error_window {A} (l : list A) o n i : i < n -> nth_error (firstn n (skipn o l)) i = nth_error l (o + i).
Proof. intros H. rewrite nth_error_firstn_lt by exact H. apply nth_error_skipn. Qed.

Lemma offset_pair_window offs o l i : i < l ->
  offset_pair (firstn (S l) (skipn o offs)) i = offset_pair offs (o + i).
Proof.
  intros H. unfold offset_pair. rewrite !nth_error_window by lia.
  replace (o + S i) with (S (o + i)) by lia. reflexivity.
Qed.

Lemma window_length {A} (l : list A) o n : o + n <= length l -> length (firstn n (skipn o l)) = n.
Proof. intros H. rewrite firstn_length, skipn_length. lia. Qed.

(* Deserializing a slice equals slicing the deserialized values: row i of the window [o, o+l) reads
   exactly as row o+i of the whole array - for every modelled kind, at every nesting level, for
   windows that start inside a bitmap byte *)
Theorem read_slice : forall a o l i, o + l <= arr_len a -> i < l ->
  read (slice_arr a o l) i = read a (o + i).
Proof.
  intros a. induction a as [n|n v x|k v x|k v offs d|k v d bs|n v d|k v offs m e IHe|len n v m e IHe|len v fs IH
                            |v offs en km vm ks xs IHk IHx|ks xs IHk IHx|t offs fs IH] using Arr_ind';
    intros o l i Hol Hi; cbn [arr_len] in Hol; cbn [slice_arr read].
  - reflexivity.
  - destruct (Nat.leb_spec l i); [lia|]. destruct (Nat.leb_spec n (o + i)); [lia|].
    rewrite valid_at_slice, bit_at_slice. reflexivity.
  - rewrite nth_error_window by exact Hi. rewrite valid_at_slice. reflexivity.
  - rewrite window_length by lia.
    destruct (Nat.leb_spec (S l) (S i)); [lia|]. destruct (Nat.leb_spec (length offs) (S (o + i))); [lia|].
    rewrite valid_at_slice, offset_pair_window by exact Hi. reflexivity.
  - admit.
  - admit.
  - rewrite window_length by lia.
    destruct (Nat.leb_spec (S l) (S i)); [lia|]. destruct (Nat.leb_spec (length offs) (S (o + i))); [lia|].
    rewrite valid_at_slice, offset_pair_window by exact Hi. reflexivity.
  - admit.
  - destruct (Nat.leb_spec l i); [lia|]. destruct (Nat.leb_spec len (o + i)); [lia|].
    rewrite valid_at_slice. destruct (valid_at v (o + i)) as [ok| |p]; cbn [bind]; try reflexivity.
    destruct ok; cbn [negb]; [|reflexivity]. f_equal.
Abort.
