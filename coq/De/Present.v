(* What a self-describing read (deserialize_any) presents for a logical value of a field:
   the specification of the reader's output. *)
From Verif Require Export Arr Wf DecimalCodec.
Local Open Scope nat_scope.

Inductive RVal :=
| RNone | RUnit | RBool (v : bool) | RInt (z : Z) | RF32 (bits : Z) | RF64 (bits : Z)
| RStr (s : bytes) | RBytes (s : bytes) | RSome (r : RVal)
| RSeq (l : list RVal) | RMap (l : list (RVal * RVal)) | REnum (variant payload : RVal).

Fixpoint rval_eqb (a c : RVal) : bool :=
  match a, c with
  | RNone, RNone | RUnit, RUnit => true
  | RBool x, RBool y => Bool.eqb x y
  | RInt x, RInt y | RF32 x, RF32 y | RF64 x, RF64 y => Z.eqb x y
  | RStr x, RStr y | RBytes x, RBytes y => bytes_eqb x y
  | RSome x, RSome y => rval_eqb x y
  | RSeq x, RSeq y =>
    (fix go (x y : list RVal) : bool :=
       match x, y with [], [] => true | a' :: x', c' :: y' => rval_eqb a' c' && go x' y' | _, _ => false end) x y
  | RMap x, RMap y =>
    (fix go (x y : list (RVal * RVal)) : bool :=
       match x, y with [], [] => true
       | (k, a') :: x', (k', c') :: y' => rval_eqb k k' && rval_eqb a' c' && go x' y' | _, _ => false end) x y
  | REnum k x, REnum k' y => rval_eqb k k' && rval_eqb x y
  | _, _ => false
  end.

Fixpoint all_some {A} (l : list (option A)) : option (list A) :=
  match l with
  | [] => Some []
  | Some x :: r => match all_some r with Some xs => Some (x :: xs) | None => None end
  | None :: _ => None
  end.

Definition is_text_dt (dt : DT) : bool :=
  match dt with DBytes (BUtf8 | BLargeUtf8) | DView KUtf8View | DDict _ _ => true | _ => false end.

(* None = not judged (Float16 values are converted to f32 by the reader) *)
Fixpoint present (f : Field) (lv : LVal) {struct lv} : option RVal :=
  match fdt' f with
  | DNull => Some RNone
  | dt =>
    match lv with
    | LNull => Some RNone
    | LBool x => Some (RBool x)
    | LInt z =>
      match dt with
      | DPrim PF32 => Some (RF32 z) | DPrim PF64 => Some (RF64 z) | DPrim PF16 => None
      | DPrim (PDecimal _ s) => match format_decimal z s with Ok t => Some (RStr t) | _ => None end
      | _ => Some (RInt z)
      end
    | LBytes s => Some (if is_text_dt dt then RStr s else RBytes s)
    | LList l =>
      match dt with
      | DList _ cf | DFixedList _ cf => option_map RSeq (all_some (map (present cf) l))
      | _ => None
      end
    | LStruct vs =>
      match dt with
      | DStruct fs =>
        option_map RMap
          (all_some ((fix go (fs : list Field) (vs : list (bytes * LVal)) {struct vs} : list (option (RVal * RVal)) :=
                        match vs, fs with
                        | (_, v) :: vs', sf :: fs' =>
                          option_map (fun r => (RStr (fname' sf), r)) (present sf v) :: go fs' vs'
                        | _, _ => []
                        end) fs vs))
      | _ => None
      end
    | LMap kvs =>
      match dt with
      | DMap _ kf vf =>
        option_map RMap
          (all_some (map (fun kv => match present kf (fst kv), present vf (snd kv) with
                                    | Some k, Some v => Some (k, v) | _, _ => None end) kvs))
      | _ => None
      end
    | LUnion t v =>
      match dt with
      | DUnion ufs =>
        match find (fun tf => Z.eqb (fst tf) t) ufs with
        | Some (_, vf) =>
          match fdt' vf with
          | DNull => Some (REnum (RStr (fname' vf)) RUnit)
          | _ => option_map (REnum (RStr (fname' vf))) (present vf v)
          end
        | None => None
        end
      | _ => None
      end
    end
  end.
