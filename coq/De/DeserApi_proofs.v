From Verif Require Import DeserApi.

Lemma new_ok nf lens d :
  new nf lens = Ok d ->
  nf = length lens /\ d_cols d = nf /\ Forall (fun l => l = d_len d) lens.
Proof.
  unfold new. destruct (Nat.eqb nf (length lens)) eqn:Hc; cbn; [|discriminate].
  destruct (forallb (Nat.eqb (hd 0 lens)) lens) eqn:Hall; [|discriminate].
  intros H; inversion H; subst; cbn. apply Nat.eqb_eq in Hc.
  repeat split; auto.
  rewrite forallb_forall in Hall. apply Forall_forall. intros x Hx.
  specialize (Hall x Hx). apply Nat.eqb_eq in Hall. auto.
Qed.

Lemma new_refuses_count nf lens : nf <> length lens -> new nf lens = Err.
Proof. unfold new. intros H. apply Nat.eqb_neq in H. rewrite H. reflexivity. Qed.

Lemma new_refuses_unequal nf lens a c :
  In a lens -> In c lens -> a <> c -> new nf lens = Err.
Proof.
  intros Ha Hc Hne. unfold new. destruct (Nat.eqb nf (length lens)); cbn; [|reflexivity].
  destruct (forallb (Nat.eqb (hd 0 lens)) lens) eqn:Hall; [|reflexivity].
  rewrite forallb_forall in Hall.
  pose proof (Hall a Ha) as H1. pose proof (Hall c Hc) as H2.
  apply Nat.eqb_eq in H1, H2. congruence.
Qed.

Lemma new_complete lens l :
  Forall (fun x => x = l) lens -> lens <> [] ->
  new (length lens) lens = Ok {| d_len := l; d_cols := length lens |}.
Proof.
  intros Hall Hne. unfold new. rewrite Nat.eqb_refl. cbn [negb].
  assert (Hhd : hd 0 lens = l).
  { destruct lens as [|x xs]; [congruence|]. inversion Hall; subst. reflexivity. }
  rewrite Hhd.
  assert (forallb (Nat.eqb l) lens = true) as ->; [|reflexivity].
  apply forallb_forall. intros y Hy. rewrite Forall_forall in Hall.
  apply Nat.eqb_eq. symmetry. apply Hall. exact Hy.
Qed.

Lemma get_domain d i : (exists x, get d i = Some x) <-> i < d_len d.
Proof.
  unfold get. destruct (Nat.leb_spec (d_len d) i); split; intros H'; try lia.
  - destruct H' as [x Hx]; discriminate.
  - eauto.
Qed.

Lemma get_value d i x : get d i = Some x -> x = i.
Proof. unfold get. destruct (Nat.leb (d_len d) i); congruence. Qed.

Lemma drain_fuel_seq d fuel n :
  d_len d - n <= fuel -> n <= d_len d ->
  drain_fuel fuel {| it_d := d; it_next := n |} = seq n (d_len d - n).
Proof.
  revert n. induction fuel as [|f IH]; intros n Hf Hn.
  - assert (d_len d - n = 0) as -> by lia. reflexivity.
  - cbn [drain_fuel]. unfold next; cbn [it_d it_next].
    destruct (Nat.leb_spec (d_len d) n) as [Hle|Hlt].
    + assert (d_len d - n = 0) as -> by lia. reflexivity.
    + rewrite IH by lia. replace (d_len d - n) with (S (d_len d - S n)) by lia. reflexivity.
Qed.

Lemma drain_seq d n : n <= d_len d ->
  drain {| it_d := d; it_next := n |} = seq n (d_len d - n).
Proof. intros H. unfold drain; cbn [it_d]. apply drain_fuel_seq; lia. Qed.

Lemma drain_past d n : d_len d <= n -> drain {| it_d := d; it_next := n |} = [].
Proof.
  intros H. unfold drain; cbn [it_d drain_fuel]. unfold next; cbn [it_d it_next].
  destruct (Nat.leb_spec (d_len d) n); [reflexivity|lia].
Qed.

Lemma iter_all d : drain (iter d) = seq 0 (d_len d).
Proof. unfold iter. rewrite drain_seq by lia. f_equal. lia. Qed.

Lemma bulk_all d : bulk d = seq 0 (d_len d).
Proof. apply iter_all. Qed.

Lemma size_hint_truthful it :
  size_hint it = (length (drain it), Some (length (drain it))).
Proof.
  destruct it as [d n]. unfold size_hint; cbn [it_d it_next].
  destruct (Nat.le_gt_cases n (d_len d)) as [Hle|Hgt].
  - rewrite drain_seq by exact Hle. rewrite seq_length. reflexivity.
  - rewrite drain_past by lia. cbn. replace (d_len d - n) with 0 by lia. reflexivity.
Qed.

(* the three access paths position the reader at the same index *)
Lemma access_paths_agree d i : i < d_len d ->
  get d i = Some i /\ nth_error (drain (iter d)) i = Some i /\ nth_error (bulk d) i = Some i.
Proof.
  intros Hi. rewrite bulk_all, iter_all. repeat split.
  - unfold get. destruct (Nat.leb_spec (d_len d) i); [lia|reflexivity].
  - rewrite nth_error_nth' with (d := 0) by (rewrite seq_length; lia). rewrite seq_nth by lia. reflexivity.
  - rewrite nth_error_nth' with (d := 0) by (rewrite seq_length; lia). rewrite seq_nth by lia. reflexivity.
Qed.

(* the iterator state reachable by any op history stays within [0, len]; the deserializer is
   never modified *)
Definition IterInv (d : Deser) (it : Iter) : Prop := it_d it = d /\ it_next it <= d_len d.

Lemma step_inv d it o : IterInv d it -> IterInv d (snd (step d it o)).
Proof.
  intros [Hd Hn]. unfold IterInv. destruct o; cbn [step snd fst iter it_d it_next].
  - split; assumption.
  - split; assumption.
  - split; assumption.
  - split; [reflexivity|lia].
  - unfold next. rewrite Hd.
    destruct (Nat.leb_spec (d_len d) (it_next it)); cbn [snd it_d it_next]; split; auto; lia.
  - unfold size_hint. cbn [snd]. split; assumption.
  - split; [reflexivity|lia].
  - split; assumption.
  - destruct (Nat.ltb_spec (it_next it + k) (d_len d)); cbn [snd it_d it_next]; split; try reflexivity; lia.
  - split; [reflexivity|lia].
  - split; [reflexivity|lia].
  - split; [reflexivity|lia].
Qed.

(* next on an in-invariant iterator: yields exactly position `it_next` while below len *)
Lemma next_spec d it : IterInv d it ->
  (it_next it < d_len d -> next it = (Some (it_next it), {| it_d := d; it_next := S (it_next it) |}))
  /\ (it_next it = d_len d -> next it = (None, it)).
Proof.
  intros [Hd Hn]. unfold next. rewrite Hd. split; intros H.
  - destruct (Nat.leb_spec (d_len d) (it_next it)); [lia|reflexivity].
  - destruct (Nat.leb_spec (d_len d) (it_next it)); [reflexivity|lia].
Qed.

(* get is history independent: whatever ops were run before, OGet i observes the same *)
Lemma get_stateless d it1 it2 i : fst (step d it1 (OGet i)) = fst (step d it2 (OGet i)).
Proof. reflexivity. Qed.
