(* C17 runner: corrupted views. corr = the reader model (no well-formedness assumed) predicts the
   outcome class and value of every read; oracle = no read panics and none returns data the view does not designate. *)
From Verif Require Export RunC02.
Local Open Scope nat_scope.

Definition corr (c : Case) : bool :=
  if modelled_arr (c_view c) then forallb (read_corr (c_view c)) (c_reads c) else true.
(* oracle: no read panics, and no read hands out a value where the reader specification - which never leaves the ranges the view
   designates (C17_no_foreign_rows, C17_child_at_faithful) - finds nothing to hand out: that value can only be foreign data *)
Definition oracle (c : Case) : bool :=
  forallb (fun r : nat * Outcome (option RVal) => match snd r with Panic _ => false | _ => true end) (c_reads c)
  && (if modelled_arr (c_view c)
      then forallb (fun r : nat * Outcome (option RVal) => match snd r, read_top (c_view c) (fst r) with Ok _, Err => false | _, _ => true end) (c_reads c)
      else true).
Definition info (cs : list Case) : list N := [N.of_nat (length (flat_map c_reads cs)); N.of_nat (length (flat_map c_reads (filter (fun c => modelled_arr (c_view c)) cs)))].
