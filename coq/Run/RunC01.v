From Verif Require Export Bytes Arr Wf ArrEq Value Builder.
Local Open Scope nat_scope.

Record Case := { c_fields : list Field; c_rows : list Value; c_impl : Outcome (list Arr) }.

Definition top_field (c : Case) : Field := mkField (b "$") (DStruct (c_fields c)) false.

Fixpoint lvals_eqb (x y : list LVal) : bool :=
  match x, y with [], [] => true | a :: x', c :: y' => lval_eqb a c && lvals_eqb x' y' | _, _ => false end.

(* column i of the expected rows *)
Definition column (rows : list LVal) (i : nat) : list LVal :=
  map (fun r => match r with LStruct fs => match nth_error fs i with Some (_, v) => v | None => LNull end | _ => LNull end) rows.

(* 0 ok; 1 arrays do not decode to the input; 2 not a well-formed batch of the declared fields;
   3 a value the column must refuse was accepted; 4 a documented presentation was refused; 5 panic *)
Definition oracle_code (c : Case) : N :=
  let interps := map (interp (top_field c)) (c_rows c) in
  match c_impl c with
  | Panic _ => 5%N
  | Ok arrs =>
    if negb (wf_batch true (c_fields c) arrs (length (c_rows c))) then 2%N
    else match iall interps with
         | None => 3%N
         | Some None => 0%N                                (* some row is outside the judged mapping *)
         | Some (Some rows) =>
           if forallb (fun p : nat * Arr =>
                         match decode (snd p) with
                         | Some vs => lvals_eqb vs (column rows (fst p))
                         | None => false end)
                      (combine (seq 0 (length arrs)) arrs)
           then 0%N else 1%N
         end
  | Err => match iall interps with Some (Some _) => 4%N | _ => 0%N end
  end.

Definition oracle (c : Case) : bool := (oracle_code c =? 0)%N.
Definition outside_judged (c : Case) : bool :=
  match iall (map (interp (top_field c)) (c_rows c)) with Some None => true | _ => false end.
(* correspondence with the builder model, for schemas inside the modelled core *)
Definition corr (c : Case) : bool :=
  match to_marrow (c_fields c) (c_rows c) with
  | None => true
  | Some mo =>
    match mo, c_impl c with
    | Ok a, Ok i => list_eqb arr_eqb a i
    | Err, Err => true
    | Panic _, Panic _ => true
    (* the builder model has no float -> text formatting (f32/f64 Display) and answers Err there: a case
       with such a row (interp = ISkip) that the implementation accepts is outside the model *)
    | Err, Ok _ => outside_judged c
    | _, _ => false
    end
  end.
Definition modelled (c : Case) : bool :=
  match to_marrow (c_fields c) (c_rows c), c_impl c with
  | Some Err, Ok _ => negb (outside_judged c)
  | Some _, _ => true
  | None, _ => false
  end.
(* [cases inside the builder model; cases fully judged by the specification oracle] *)
Definition info (cs : list Case) : list N :=
  [N.of_nat (length (filter modelled cs));
   N.of_nat (length (filter (fun c => match c_impl c, iall (map (interp (top_field c)) (c_rows c)) with
                                      | Ok _, Some (Some _) => true | _, _ => false end) cs))].
