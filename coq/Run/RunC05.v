(* C05 runner: serialization cells are judged by the C01 oracle (decode = interp; a value the column
   must refuse was accepted; a documented value was refused); deserialization cells by conv_de. *)
From Verif Require Export RunC01 Conv.
Local Open Scope nat_scope.

Inductive Case :=
| CSer (c : RunC01.Case)
| CDeInt (col : IntKind) (req : Req) (z : Z) (impl : Outcome DVal)
| CDeBool (req : Req) (v : bool) (impl : Outcome DVal)
| CDeFloat (col32 req32 : bool) (bits : Z) (impl : Outcome Z)   (* a float column read as f32 / f64: the bits handed out *)
| CMalformed (column text : bytes) (accepted : bool).   (* text that is not a value of the column's type *)

Definition out_eqb (m i : Outcome DVal) : bool :=
  match m, i with Ok a, Ok c => dval_eqb a c | Err, Err => true | Panic _, Panic _ => true | _, _ => false end.

Definition corr (c : Case) : bool :=
  match c with
  | CSer s => match iall (map (interp (top_field s)) (c_rows s)) with
              | Some None => true        (* a documented lossy / text cell: outside the builder model *)
              | _ => RunC01.corr s end
  | CDeInt col req z impl => out_eqb (conv_de_int req z) impl
  | CDeBool req v impl => out_eqb (conv_de_bool req v) impl
  | CDeFloat col32 req32 bits impl => match impl with Ok z => Z.eqb z (conv_de_float col32 req32 bits) | _ => false end
  | CMalformed _ _ _ => true
  end.
(* the property: Ok => the value read is exactly the stored one; nothing panics *)
Definition oracle (c : Case) : bool :=
  match c with
  | CSer s => RunC01.oracle s
  | CDeInt col req z impl =>
    match impl with
    | Ok (VdBool v) => match req with RBool => Bool.eqb v (negb (Z.eqb z 0)) | _ => false end
    | Ok d => Z.eqb (denote d) z
    | Err => true
    | Panic _ => false
    end
  | CDeBool req v impl =>
    match impl with Ok d => Z.eqb (denote d) (if v then 1 else 0)%Z | Err => true | Panic _ => false end
  (* the value read is the stored one, or its documented narrowing / exact widening *)
  | CDeFloat col32 req32 bits impl => match impl with Ok z => Z.eqb z (conv_de_float col32 req32 bits) | Err => true | Panic _ => false end
  | CMalformed _ _ accepted => negb accepted
  end.
Definition info (cs : list Case) : list N :=
  [N.of_nat (length (filter (fun c => match c with CSer _ => true | _ => false end) cs));
   N.of_nat (length (filter (fun c => match c with CSer s => RunC01.modelled s | _ => false end) cs));
   N.of_nat (length (filter (fun c => match c with CSer _ => false | _ => true end) cs))].
