From Verif Require Export Bytes Arr Wf Present Reader.
Local Open Scope nat_scope.

Record Case := { c_field : Field; c_view : Arr; c_reads : list (nat * Outcome (option RVal)) }.

(* judged against the specification: row i reads as present(decode view)[i]; one past the end
   there is no item; nothing panics *)
Definition read_ok (f : Field) (vs : list LVal) (r : nat * Outcome (option RVal)) : bool :=
  let '(i, out) := r in
  match out with
  | Panic _ => false
  | Ok None => Nat.leb (length vs) i
  | Ok (Some got) =>
    match nth_error vs i with
    | Some lv => match present f lv with Some e => rval_eqb e got | None => true end
    | None => false
    end
  | Err =>
    (* a valid view must be readable, unless the value is outside the judged presentation *)
    match nth_error vs i with
    | Some lv => match present f lv with Some _ => false | None => true end
    | None => false
    end
  end.

Definition oracle (c : Case) : bool :=
  wf_arr false (c_field c) (c_view c) &&
  match decode (c_view c) with
  | Some vs => forallb (read_ok (c_field c) vs) (c_reads c)
  | None => false
  end.

(* correspondence with the reader model (all kinds of the dispatcher): same outcome class and,
   when Ok, the same presented value; one past the end there is no item *)
Definition read_corr (a : Arr) (r : nat * Outcome (option RVal)) : bool :=
  let '(i, out) := r in
  match out, read_top a i with
  | Ok x, Ok y => option_eqb rval_eqb x y
  | Err, Err => true
  | Panic _, Panic _ => true
  | _, _ => false
  end.
Definition corr (c : Case) : bool :=
  if modelled_arr (c_view c) then forallb (read_corr (c_view c)) (c_reads c) else true.
Definition info (cs : list Case) : list N := [N.of_nat (length (flat_map c_reads cs)); N.of_nat (length (flat_map c_reads (filter (fun c => modelled_arr (c_view c)) cs)))].
