(* case runner for C13: the harness writes cases as (nfields, view lengths, ops, implementation
   observations) and this file compares them with the model *)
From Verif Require Export Bytes DeserApi.

Definition nat_opt_eqb (a c : option nat) : bool :=
  match a, c with None, None => true | Some x, Some y => Nat.eqb x y | _, _ => false end.
Fixpoint nat_list_eqb (a c : list nat) : bool :=
  match a, c with [], [] => true | x :: a', y :: c' => Nat.eqb x y && nat_list_eqb a' c' | _, _ => false end.

Definition obs_eqb (a c : Obs) : bool :=
  match a, c with
  | BNat x, BNat y => Nat.eqb x y
  | BBool x, BBool y => Bool.eqb x y
  | BItem x, BItem y => nat_opt_eqb x y
  | BHint l h, BHint l' h' => Nat.eqb l l' && nat_opt_eqb h h'
  | BItems x, BItems y => nat_list_eqb x y
  | BUnit, BUnit => true
  | _, _ => false
  end.

Fixpoint obs_list_eqb (a c : list Obs) : bool :=
  match a, c with [], [] => true | x :: a', y :: c' => obs_eqb x y && obs_list_eqb a' c' | _, _ => false end.

Record Case := { c_nf : nat; c_lens : list nat; c_ops : list Op; c_impl : Outcome (list Obs) }.

Definition corr (c : Case) : bool :=
  match run (c_nf c) (c_lens c) (c_ops c), c_impl c with
  | Ok a, Ok i => obs_list_eqb a i
  | Err, Err => true
  | Panic _, Panic _ => true
  | _, _ => false
  end.

(* the direct oracle of C13 (size hints truthful, construction refused exactly when inconsistent)
   is evaluated on the Rust side; nothing further to check here *)
Definition oracle (c : Case) : bool := true.
Definition info (cs : list Case) : list N := [].
