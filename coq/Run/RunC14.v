From Verif Require Export Bytes Span Calendar.
Local Open Scope Z_scope.

Inductive Case :=
| CDurParse (u : TimeUnit) (text : bytes) (impl : Outcome Z)
| CDurFormat (u : TimeUnit) (v : Z) (impl : Outcome bytes)
(* a date/time/timestamp written as text (rendered by the harness from these fields, in one of the
   accepted spellings); `lo`/`hi` = range of the storage integer *)
| CDateW (factor lo hi : Z) (y m d : Z) (impl : Outcome Z)
| CTimeW (u : TimeUnit) (lo hi : Z) (h mi s nanos : Z) (impl : Outcome Z)
| CTsW (u : TimeUnit) (y m d h mi s nanos : Z) (impl : Outcome Z)
| CDateR (factor : Z) (v : Z) (impl : Outcome bytes)
| CTimeR (u : TimeUnit) (v : Z) (impl : Outcome bytes)
| CTsR (u : TimeUnit) (utc : bool) (v : Z) (impl : Outcome bytes).

Definition in_range (lo hi v : Z) : Outcome Z := if (v <? lo) || (hi <? v) then Err else Ok v.

(* the Arrow definition, with the acceptance conditions of the text front end *)
Definition date_write (factor lo hi y m d : Z) : Outcome Z :=
  if valid_date y m d && (min_year <=? y) && (y <=? max_year)
  then in_range lo hi (days_from_civil y m d * factor) else Err.

Definition valid_time (h mi s nanos : Z) : bool :=
  (0 <=? h) && (h <? 24) && (0 <=? mi) && (mi <? 60) && (0 <=? s) && (s <? 60) && (0 <=? nanos) && (nanos <? 1000000000).

Definition time_write (u : TimeUnit) (lo hi h mi s nanos : Z) : Outcome Z :=
  if valid_time h mi s nanos then in_range lo hi (time_value u h mi s nanos) else Err.

Definition ts_write (u : TimeUnit) (y m d h mi s nanos : Z) : Outcome Z :=
  if valid_date y m d && valid_time h mi s nanos && (-262143 <=? y) && (y <=? 262142)
  then in_range i64_min i64_max (timestamp_value u y m d h mi s nanos) else Err.

Definition out_z_eqb (a c : Outcome Z) : bool :=
  match a, c with
  | Ok x, Ok y => x =? y | Err, Err => true | Panic _, Panic _ => true | _, _ => false end.
Definition out_b_eqb (a c : Outcome bytes) : bool :=
  match a, c with
  | Ok x, Ok y => bytes_eqb x y | Err, Err => true | Panic _, Panic _ => true | _, _ => false end.

Definition corr (c : Case) : bool :=
  match c with
  | CDurParse u t i => out_z_eqb (parse_duration u t) i
  | CDurFormat u v i => out_b_eqb (Ok (format_duration u v)) i
  | CDateW f lo hi y m d i => out_z_eqb (date_write f lo hi y m d) i
  | CTimeW u lo hi h mi s n i => out_z_eqb (time_write u lo hi h mi s n) i
  | CTsW u y m d h mi s n i => out_z_eqb (ts_write u y m d h mi s n) i
  | CDateR f v i => out_b_eqb (format_date f v) i
  | CTimeR u v i => out_b_eqb (format_time u v) i
  | CTsR u utc v i => out_b_eqb (format_timestamp u utc v) i
  end.

(* specification oracle on the implementation's output *)
Definition oracle (c : Case) : bool :=
  match c with
  | CDurParse u t (Ok v) =>
    match parse_span t with
    | Some sp => match span_magnitude sp u with
                 | Some m => v =? (if sp_neg sp then - m else m)
                 | None => false end
    | None => false
    end
  | CDurParse _ _ (Panic _) => false
  | CDurParse _ _ Err => true
  | CDurFormat u v (Ok t) => out_z_eqb (parse_duration u t) (Ok v)
  | CDurFormat _ _ _ => false
  | CDateW _ _ _ _ _ _ (Panic _) | CTimeW _ _ _ _ _ _ _ (Panic _) | CTsW _ _ _ _ _ _ _ _ (Panic _) => false
  (* an accepted text is stored as exactly the integer the Arrow type defines for the instant it names; a text that names no
     instant of the type (a 61st second, a 30th of February, a value outside the storage integer) is never accepted *)
  | CDateW f lo hi y m d (Ok z) => out_z_eqb (date_write f lo hi y m d) (Ok z)
  | CTimeW u lo hi h mi s n (Ok z) => out_z_eqb (time_write u lo hi h mi s n) (Ok z)
  | CTsW u y m d h mi s n (Ok z) => out_z_eqb (ts_write u y m d h mi s n) (Ok z)
  | CDateR _ _ (Panic _) | CTimeR _ _ (Panic _) | CTsR _ _ _ (Panic _) => false
  | _ => true
  end.
Definition info (cs : list Case) : list N := [].
