(* C16 runner: outcomes of the adversarial sweep (the judgement is the property itself: no panic,
   no call beyond the time limit). *)
From Verif Require Export Bytes.
Record Case := { c_what : bytes; c_panicked : bool; c_slow : bool }.
Definition corr (c : Case) : bool := true.
Definition oracle (c : Case) : bool := negb (c_panicked c) && negb (c_slow c).
Definition info (cs : list Case) : list N := [N.of_nat (length cs)].
