From Verif Require Export Bytes DecimalCodec.
Local Open Scope Z_scope.

Inductive Case :=
| CParse (p : nat) (s : Z) (text : bytes) (impl : Outcome Z)
| CFloat (p : nat) (scaled : option Z) (impl : Outcome Z)
| CFormat (v s : Z) (impl : Outcome bytes).

Definition out_z_eqb (a c : Outcome Z) : bool :=
  match a, c with
  | Ok x, Ok y => x =? y | Err, Err => true | Panic _, Panic _ => true | _, _ => false end.
Definition out_b_eqb (a c : Outcome bytes) : bool :=
  match a, c with
  | Ok x, Ok y => bytes_eqb x y | Err, Err => true | Panic _, Panic _ => true | _, _ => false end.

Definition corr (c : Case) : bool :=
  match c with
  | CParse p s t i => out_z_eqb (parse_decimal128 p s t) i
  | CFloat p sc i => out_z_eqb (float_to_decimal p sc) i
  | CFormat v s i => out_b_eqb (format_decimal v s) i
  end.

(* specification oracle, applied to the implementation's own output *)
Definition oracle (c : Case) : bool :=
  match c with
  | CParse p s t (Ok v) =>
    match denote t with
    | Some n => (v =? value_scaled s n) && (Z.abs v <? 10 ^ Z.of_nat p)
    | None => false
    end
  | CParse p s t Err =>
    match denote t with
    | Some n => negb ((Z.abs (value_scaled s n) <? 10 ^ Z.of_nat p) && (Z.abs (value_scaled s n) <=? i128_max))
    | None => true
    end
  | CParse _ _ _ (Panic _) => false
  | CFloat p _ (Ok z) => Z.abs z <? 10 ^ Z.of_nat p
  | CFloat _ _ (Panic _) => false
  | CFloat _ _ Err => true
  | CFormat v s (Ok t) =>
    match denote t with
    | Some n =>
      Bool.eqb (nm_neg n) (v <? 0) &&
      (if s <? 0 then (length (nm_frac n) =? 0)%nat && (Z.of_N (parse_digits (nm_int n)) =? Z.abs v * 10 ^ (- s))
       else (length (nm_frac n) =? Z.to_nat s)%nat && (Z.of_N (parse_digits (nm_int n ++ nm_frac n)) =? Z.abs v))
    | None => false
    end
  | CFormat _ _ _ => false
  end.
Definition info (cs : list Case) : list N := [].
