(* C07 / C08 runner: traced schemas of the implementation compared with the tracer model. *)
From Verif Require Export Tracer.
Local Open Scope nat_scope.

Record Case := { c_opts : Opts; c_samples : list Value; c_impl : Outcome (list SField) }.

Definition strategy_eqb (a c : option Strategy) : bool :=
  match a, c with
  | None, None | Some SMapAsStruct, Some SMapAsStruct | Some STupleAsStruct, Some STupleAsStruct
  | Some SUnknownVariant, Some SUnknownVariant => true
  | _, _ => false
  end.

Fixpoint sfield_eqb (x y : SField) {struct x} : bool :=
  match x, y with
  | mkSF n d nl s, mkSF n' d' nl' s' =>
    bytes_eqb n n' && Bool.eqb nl nl' && strategy_eqb s s' &&
    match d, d' with
    | SPrim p, SPrim q => pt_eqb p q
    | SDictU32 l, SDictU32 l' => Bool.eqb l l'
    | SList l f, SList l' g => Bool.eqb l l' && sfield_eqb f g
    | SStruct fs, SStruct gs | SUnion fs, SUnion gs =>
      (fix go (fs gs : list SField) : bool :=
         match fs, gs with [], [] => true | f :: fs', g :: gs' => sfield_eqb f g && go fs' gs' | _, _ => false end) fs gs
    | SMap k v, SMap k' v' => sfield_eqb k k' && sfield_eqb v v'
    | _, _ => false
    end
  end.

Definition corr (c : Case) : bool :=
  match from_samples (c_opts c) [] (c_samples c), c_impl c with
  | Ok m, Ok i => list_eqb sfield_eqb m i
  | Err, Err => true
  | Panic _, Panic _ => true
  | _, _ => false
  end.
(* tracing never panics *)
Definition oracle (c : Case) : bool := match c_impl c with Panic _ => false | _ => true end.
Definition info (cs : list Case) : list N :=
  [N.of_nat (length cs); N.of_nat (length (filter (fun c => match c_impl c with Ok _ => true | _ => false end) cs))].
