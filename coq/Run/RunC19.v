(* C19 runner: the arrays of the arrow back end (as views) judged by the C01 specification oracle. *)
From Verif Require Export RunC01.
Definition Case := RunC01.Case.
(* the arrays come from another back end: judged by the specification, not compared with the builder model byte for byte *)
Definition corr (c : Case) : bool := true.
Definition oracle (c : Case) : bool :=
  match c_impl c with
  | Err => true                      (* failure agreement between the back ends is judged on the Rust side *)
  | _ => RunC01.oracle c
  end.
Definition info (cs : list Case) : list N := [N.of_nat (length cs); N.of_nat (length (filter (fun c => match c_impl c with Ok _ => true | _ => false end) cs))].
