(* C09 runner: the compact field form of the implementation (a serde value tree) is read by the
   parser model and compared with the printer model. *)
From Verif Require Export Dsl.
Local Open Scope nat_scope.

Record Case := { c_tree : JV; c_expect : option YField; c_impl_ok : bool; c_model : bool; c_check_print : bool;
                 c_foreign : option YField (* a field object handed to from_value: accepted iff valid at every depth *) }.

Definition unit_eqb' (a c : TimeUnit) : bool :=
  match a, c with Second, Second | Millisecond, Millisecond | Microsecond, Microsecond | Nanosecond, Nanosecond => true | _, _ => false end.
Definition meta_eqb (x y : list (bytes * bytes)) : bool :=
  list_eqb (fun p q : bytes * bytes => bytes_eqb (fst p) (fst q) && bytes_eqb (snd p) (snd q)) x y.

Fixpoint ydt_eqb (x y : YDT) {struct x} : bool :=
  match x, y with
  | YNull, YNull | YBool, YBool | YF16, YF16 | YF32, YF32 | YF64, YF64 | YUtf8, YUtf8 | YLargeUtf8, YLargeUtf8 | YUtf8View, YUtf8View
  | YBinary, YBinary | YLargeBinary, YLargeBinary | YBinaryView, YBinaryView | YDate32, YDate32 | YDate64, YDate64 => true
  | YInt a, YInt c => intkind_eqb a c
  | YDecimal p s, YDecimal p' s' => (p =? p')%Z && (s =? s')%Z
  | YDuration u, YDuration u' | YTime32 u, YTime32 u' | YTime64 u, YTime64 u' => unit_eqb' u u'
  | YTimestamp u tz, YTimestamp u' tz' => unit_eqb' u u' && option_eqb bytes_eqb tz tz'
  | YFixedBin n, YFixedBin n' => (n =? n')%Z
  | YFixedList n f, YFixedList n' f' => (n =? n')%Z && yfield_eqb f f'
  | YStruct fs, YStruct gs | YUnion fs, YUnion gs =>
    (fix go (fs gs : list YField) : bool :=
       match fs, gs with [], [] => true | f :: fs', g :: gs' => yfield_eqb f g && go fs' gs' | _, _ => false end) fs gs
  | YMap f, YMap f' | YList f, YList f' | YLargeList f, YLargeList f' => yfield_eqb f f'
  | YDict k v, YDict k' v' => ydt_eqb k k' && ydt_eqb v v'
  | _, _ => false
  end
with yfield_eqb (x y : YField) {struct x} : bool :=
  match x, y with
  | mkY n d nl m s, mkY n' d' nl' m' s' =>
    bytes_eqb n n' && Bool.eqb nl nl' && meta_eqb m m' && option_eqb bytes_eqb s s' && ydt_eqb d d'
  end.

(* objects are maps: key order is irrelevant (keys of a printed field are unique) *)
Fixpoint jv_equiv (x y : JV) {struct x} : bool :=
  match x, y with
  | JStr a, JStr c => bytes_eqb a c
  | JBool a, JBool c => Bool.eqb a c
  | JArr l, JArr l' =>
    (fix go (l l' : list JV) : bool :=
       match l, l' with [], [] => true | a :: r, c :: r' => jv_equiv a c && go r r' | _, _ => false end) l l'
  | JObj kvs, JObj kvs' =>
    Nat.eqb (length kvs) (length kvs') &&
    (fix go (kvs : list (bytes * JV)) : bool :=
       match kvs with
       | [] => true
       | (k, v) :: r => match jlookup k kvs' with Some v' => jv_equiv v v' | None => false end && go r
       end) kvs
  | _, _ => false
  end.

Definition corr (c : Case) : bool :=
  if negb (c_model c) then true else
  match parse_field (c_tree c) with
  | Some f => c_impl_ok c && match c_expect c with Some e => yfield_eqb f e | None => true end
  | None => negb (c_impl_ok c)
  end.

(* the model's own round trip on the expected field, and the printer against the implementation's tree *)
Definition oracle (c : Case) : bool :=
  match c_foreign c with Some f => Bool.eqb (c_impl_ok c) (valid_y f) | None => true end &&
  if c_check_print c then
    match c_expect c with
    | Some e => jv_equiv (print_field e) (c_tree c)
                && match parse_field (print_field e) with Some f => yfield_eqb f e | None => false end
    | None => true
    end
  else true.
Definition info (cs : list Case) : list N :=
  [N.of_nat (length (filter c_model cs)); N.of_nat (length (filter c_check_print cs)); N.of_nat (length (filter c_impl_ok cs))].
