(* C08 runner: from_type of the implementation against the documented mapping (specification), and
   from_samples on covering samples against the tracer model. *)
From Verif Require Export Doc FromType RunC07.
Local Open Scope nat_scope.

Record Case := { c_opts : Opts; c_budget : nat; c_overwrites : list (bytes * SField); c_ty : Ty; c_from_type : Outcome (list SField); c_samples : list Value; c_from_samples : Outcome (list SField) }.

Definition res_eqb (m i : Outcome (list SField)) : bool :=
  match m, i with Ok a, Ok c => list_eqb sfield_eqb a c | Err, Err => true | Panic _, Panic _ => true | _, _ => false end.

Definition is_overwrite_case (c : Case) : bool := match c_ty c, c_samples c with TyStruct [], [] => true | _, _ => false end.

(* the tracer model on the covering samples, and the from_type model (multi-pass exploration with the
   case's budget) on the description of the type *)
Definition corr (c : Case) : bool :=
  if is_overwrite_case c then true
  else res_eqb (from_samples (c_opts c) (c_overwrites c) (c_samples c)) (c_from_samples c)
       && res_eqb (from_type (c_opts c) (c_overwrites c) (c_budget c) (c_ty c)) (c_from_type c).
(* the documented mapping *)
Definition oracle (c : Case) : bool :=
  if is_overwrite_case c then true
  else if Nat.ltb (c_budget c) 100 then true        (* reduced budgets are judged by the from_type model only *)
  else match c_overwrites c with _ :: _ => true | [] =>   (* overwrites: judged by the tracer models and the harness *)
  res_eqb (doc_schema (c_opts c) (c_ty c)) (c_from_type c) end.
Definition info (cs : list Case) : list N :=
  [N.of_nat (length (filter (fun c => negb (is_overwrite_case c)) cs)); N.of_nat (length (filter is_overwrite_case cs))].
