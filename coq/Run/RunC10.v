(* C10 runner: batches of histories judged like C01 cases, plus histories over one dictionary column
   compared with the dictionary builder model (string table, keys, values, placeholder handling,
   reset at every build). *)
From Verif Require Export RunC01 DictBuilder UnionBuilder.
Local Open Scope nat_scope.

Inductive Case :=
| CBatch (c : RunC01.Case)
| CDict (key : IntKind) (val : BytesKind) (nullable : bool) (ops : list DOp) (impl : Outcome (list Arr))
| CUnion (variants : list Field) (ops : list UOp) (impl : Outcome (list Arr)).

Definition corr (c : Case) : bool :=
  match c with
  | CBatch s => RunC01.corr s
  | CDict k v n ops impl =>
    match dict_history (dict_new k v n) ops, impl with
    | Ok a, Ok i => list_eqb arr_eqb a i
    | Err, Err => true
    | Panic _, Panic _ => true
    | _, _ => false
    end
  | CUnion fs ops impl =>
    match union_of fs with
    | None => true
    | Some u0 =>
      match union_history u0 ops, impl with
      | Ok a, Ok i => list_eqb arr_eqb a i
      | Err, Err => true
      | Panic _, Panic _ => true
      | _, _ => false
      end
    end
  end.

(* specification on the implementation's own arrays: every built batch is a well-formed dictionary
   array of the field and decodes to exactly what the values pushed since the previous build denote *)
Definition dict_field (k : IntKind) (v : BytesKind) (n : bool) : Field := mkField (b "c") (DDict k v) n.
Fixpoint batches_ok (f : Field) (bs : list (list Value)) (arrs : list Arr) : bool :=
  match bs, arrs with
  | [], [] => true
  | batch :: bs', a :: arrs' =>
    wf_arr true f a
    && match iall (map (interp f) batch) with
       | Some (Some lvs) => match decode a with Some d => lvals_eqb d lvs | None => false end
       | _ => true
       end
    && batches_ok f bs' arrs'
  | _, _ => false
  end.
Definition oracle (c : Case) : bool :=
  match c with
  | CBatch s => RunC01.oracle s
  | CDict k v n ops impl =>
    match impl with
    | Ok arrs => batches_ok (dict_field k v n) (dict_batches [] ops) arrs
    | Err => true
    | Panic _ => false
    end
  | CUnion fs ops impl =>
    match impl with
    | Ok arrs => batches_ok (mkField (b "c") (DUnion (combine (map Z.of_nat (seq 0 (length fs))) fs)) false) (union_batches [] ops) arrs
    | Err => true
    | Panic _ => false
    end
  end.
Definition info (cs : list Case) : list N :=
  [N.of_nat (length (filter (fun c => match c with CBatch s => RunC01.modelled s | CDict _ _ _ _ _ => true | CUnion _ _ _ => true end) cs));
   N.of_nat (length (filter (fun c => match c with CDict _ _ _ _ _ => true | CUnion _ _ _ => true | _ => false end) cs))].
