(* C18 runner: the field / data_type annotations observed on the crate's errors against the path
   and data type text of the node where the fault was injected. *)
From Verif Require Export Paths.
Local Open Scope nat_scope.

Record Case := { c_field : YField; c_route : list nat; c_ser : bool; c_obs_field : option bytes; c_obs_dt : option bytes }.

Definition expected (c : Case) : option (bytes * bytes) :=
  if c_ser c then ser_at (c_field c) (c_route c) else de_at (c_field c) (c_route c).

Definition corr (c : Case) : bool :=
  match expected c, c_obs_field c, c_obs_dt c with
  | Some (p, d), Some of, Some od => bytes_eqb p of && bytes_eqb d od
  | _, _, _ => false
  end.
(* the property itself: the field named is the innermost one (not an ancestor, not a sibling) and
   the data_type text names the Arrow type of that field (its constructor name; parameters may be
   elided as "(..)" or dropped) *)
Definition dt_head (s : bytes) : bytes :=
  (fix go (s : bytes) : bytes := match s with [] => [] | c :: r => if N.eqb c 40 then [] else c :: go r end) s.
Definition oracle (c : Case) : bool :=
  match expected c, c_obs_field c, c_obs_dt c with
  | Some (p, d), Some of, Some od => bytes_eqb p of && bytes_eqb (dt_head d) (dt_head od)
  | _, _, _ => false
  end.
Definition info (cs : list Case) : list N :=
  [N.of_nat (length (filter c_ser cs)); N.of_nat (length (filter (fun c => negb (c_ser c)) cs)); N.of_nat (length (filter (fun c => Nat.ltb 0 (length (c_route c))) cs))].
