From Verif Require Export Bytes Tensor.
Local Open Scope N_scope.

Inductive Cfg :=
| CFixed (shape : list N) (perm : option (list nat)) (names : option (list bytes))
| CVar (ndim : nat) (perm : option (list nat)) (names : option (list bytes)) (uniform : option (list (option N))).

Record Case := { c_cfg : Cfg; c_impl : Outcome (N * bytes) }.

Definition run (c : Cfg) : Outcome (N * bytes) :=
  match c with
  | CFixed s p n => fixed_field s p n
  | CVar d p n u => var_field d p n u
  end.

Definition corr (c : Case) : bool :=
  match run (c_cfg c), c_impl c with
  | Ok (n, m), Ok (n', m') => (n =? n') && bytes_eqb m m'
  | Err, Err => true
  | Panic _, Panic _ => true
  | _, _ => false
  end.

Definition expected (c : Cfg) : Json :=
  match c with
  | CFixed s p n => fixed_expected {| f_shape := s; f_perm := p; f_names := n |}
  | CVar d p n u => var_expected {| v_ndim := d; v_perm := p; v_names := n; v_uniform := u |}
  end.

(* specification oracle on the implementation's own output: the metadata it produced parses as
   JSON to exactly the configured object *)
Definition oracle (c : Case) : bool :=
  match c_impl c with
  | Ok (_, m) => match json_parse m with Some j => json_eqb j (expected (c_cfg c)) | None => false end
  | _ => true
  end.
Definition info (cs : list Case) : list N := [].
