(* Text and byte strings are lists of bytes (N < 256). *)
From Coq Require Export Ascii String.
From Verif Require Export Outcome.

Definition byte := N.
Definition bytes := list N.

Fixpoint bytes_of_string (s : string) : bytes :=
  match s with
  | EmptyString => []
  | String c r => N_of_ascii c :: bytes_of_string r
  end.
Notation b := bytes_of_string.

Fixpoint string_of_bytes (l : bytes) : string :=
  match l with
  | [] => EmptyString
  | x :: r => String (ascii_of_N x) (string_of_bytes r)
  end.

Fixpoint bytes_eqb (x y : bytes) : bool :=
  match x, y with
  | [], [] => true
  | a :: x', c :: y' => N.eqb a c && bytes_eqb x' y'
  | _, _ => false
  end.

Lemma bytes_eqb_eq x y : bytes_eqb x y = true <-> x = y.
Proof.
  revert y; induction x as [|a x IH]; intros [|c y]; cbn; split; intros H; try discriminate; auto.
  - apply andb_true_iff in H as [H1 H2]. apply N.eqb_eq in H1. apply IH in H2. congruence.
  - inversion H; subst. rewrite N.eqb_refl. cbn. apply IH. reflexivity.
Qed.

Lemma bytes_eqb_refl x : bytes_eqb x x = true.
Proof. apply bytes_eqb_eq; reflexivity. Qed.

Definition is_digit (c : N) : bool := (48 <=? c)%N && (c <=? 57)%N.
Definition digit_val (c : N) : N := (c - 48)%N.

Section ListEq.
  Context {A : Type} (eqb : A -> A -> bool).
  Fixpoint list_eqb (x y : list A) : bool :=
    match x, y with
    | [], [] => true
    | a :: x', c :: y' => eqb a c && list_eqb x' y'
    | _, _ => false
    end.
  Definition option_eqb (x y : option A) : bool :=
    match x, y with
    | None, None => true
    | Some a, Some c => eqb a c
    | _, _ => false
    end.
End ListEq.

Lemma list_eqb_eq {A} (eqb : A -> A -> bool) :
  (forall a c, eqb a c = true <-> a = c) -> forall x y, list_eqb eqb x y = true <-> x = y.
Proof.
  intros Heq x; induction x as [|a x IH]; intros [|c y]; cbn; split; intros H; try discriminate; auto.
  - apply andb_true_iff in H as [H1 H2]. apply Heq in H1. apply IH in H2. congruence.
  - inversion H; subst. apply andb_true_iff; split; [apply Heq|apply IH]; reflexivity.
Qed.
