(* The integer-to-float cast of the model is the correctly rounded one: exact when the integer fits the
   significand, otherwise within half a unit in the last place of the integer's binade, and on an exact tie
   the even significand; the encoded word fits the column width. *)
From Coq Require Import ZArith Bool Lia.
From Verif Require Import FloatOfInt.
Local Open Scope Z_scope.

Lemma pow_split a b : 0 <= a -> 0 <= b -> 2 ^ (a + b) = 2 ^ a * 2 ^ b.
Proof. intros; apply Z.pow_add_r; assumption. Qed.

Lemma pow_pos a : 0 <= a -> 0 < 2 ^ a.
Proof. intros; apply Z.pow_pos_nonneg; lia. Qed.

Definition fvalue (p q e : Z) : Z := q * 2 ^ (e - (p - 1)).

Lemma round_mag_exact p m : 1 < p -> 0 < m -> Z.log2 m < p ->
  round_mag p m = (m * 2 ^ (p - 1 - Z.log2 m), Z.log2 m) /\ 2 ^ (p - 1) <= m * 2 ^ (p - 1 - Z.log2 m) < 2 ^ p.
Proof.
  intros Hp Hm Hl. unfold round_mag. destruct (Z.ltb_spec (Z.log2 m) p) as [_|C]; [|lia]. split; [reflexivity|].
  pose proof (Z.log2_spec m Hm) as [Hlo Hhi]. pose proof (Z.log2_nonneg m) as Hn.
  set (L := Z.log2 m) in *. set (d := p - 1 - L).
  assert (E1 : 2 ^ (p - 1) = 2 ^ L * 2 ^ d) by (rewrite <- pow_split by (subst d; lia); f_equal; subst d; lia).
  assert (E2 : 2 ^ p = 2 ^ (Z.succ L) * 2 ^ d) by (rewrite <- pow_split by (subst d; lia); f_equal; subst d; lia).
  pose proof (pow_pos d ltac:(subst d; lia)) as Hd. rewrite E1, E2. nia.
Qed.

Lemma round_mag_rounded p m q e : 1 < p -> 0 < m -> p <= Z.log2 m -> round_mag p m = (q, e) ->
  let u := 2 ^ (Z.log2 m - (p - 1)) in
  2 ^ (p - 1) <= q < 2 ^ p /\ Z.log2 m <= e <= Z.log2 m + 1 /\
  2 * Z.abs (fvalue p q e - m) <= u /\ (2 * Z.abs (fvalue p q e - m) = u -> Z.even q = true).
Proof.
  intros Hp Hm Hl. unfold round_mag, fvalue. destruct (Z.ltb_spec (Z.log2 m) p) as [C|_]; [lia|].
  pose proof (Z.log2_spec m Hm) as [Hlo Hhi]. set (L := Z.log2 m) in *. set (sh := L - (p - 1)).
  assert (Hsh : 1 <= sh) by (subst sh; lia).
  assert (ES : 2 ^ sh = 2 * 2 ^ (sh - 1)) by (replace sh with (1 + (sh - 1)) at 1 by lia; rewrite pow_split by lia; reflexivity).
  assert (EL : 2 ^ L = 2 ^ (p - 1) * 2 ^ sh) by (rewrite <- pow_split by lia; f_equal; subst sh; lia).
  assert (EL1 : 2 ^ (Z.succ L) = 2 ^ p * 2 ^ sh) by (rewrite <- pow_split by lia; f_equal; subst sh; lia).
  assert (EP : 2 ^ p = 2 * 2 ^ (p - 1)) by (replace p with (1 + (p - 1)) at 1 by lia; rewrite pow_split by lia; reflexivity).
  assert (EP2 : 2 ^ (p - 1) = 2 * 2 ^ (p - 2)) by (replace (p - 1) with (1 + (p - 2)) at 1 by lia; rewrite pow_split by lia; reflexivity).
  pose proof (pow_pos (sh - 1) ltac:(lia)) as HH. pose proof (pow_pos (p - 2) ltac:(lia)) as HP2.
  pose proof (Z.div_mod m (2 ^ sh) ltac:(lia)) as Hdm. pose proof (Z.mod_pos_bound m (2 ^ sh) ltac:(lia)) as Hr.
  set (S := 2 ^ sh) in *. set (H := 2 ^ (sh - 1)) in *. set (P := 2 ^ (p - 1)) in *. set (q0 := m / S) in *. set (r := m mod S) in *.
  assert (Hq0 : P <= q0 < 2 * P) by (rewrite EP in EL1; nia).
  assert (ES1 : 2 ^ (L + 1 - (p - 1)) = 2 * S) by (replace (L + 1 - (p - 1)) with (1 + sh) by (subst sh; lia); rewrite (pow_split 1 sh) by lia; reflexivity).
  set (up := (H <? r) || ((r =? H) && Z.odd q0)).
  intros Hres.
  assert (Hup : up = true -> H < r \/ (r = H /\ Z.odd q0 = true)).
  { subst up. intros Hu. apply orb_true_iff in Hu as [Hu|Hu]; [left; apply Z.ltb_lt; exact Hu|].
    apply andb_true_iff in Hu as [Hu1 Hu2]. right. split; [apply Z.eqb_eq; exact Hu1|exact Hu2]. }
  assert (Hdn : up = false -> r < H \/ (r = H /\ Z.odd q0 = false)).
  { subst up. intros Hu. apply orb_false_iff in Hu as [Hu1 Hu2]. apply Z.ltb_ge in Hu1. apply andb_false_iff in Hu2 as [Hu2|Hu2].
    - apply Z.eqb_neq in Hu2. left; lia.
    - destruct (Z.eq_dec r H) as [E|E]; [right; split; assumption|left; lia]. }
  destruct up eqn:Eup.
  - specialize (Hup eq_refl). destruct (Z.eqb_spec (q0 + 1) (2 ^ p)) as [Ec|Ec]; injection Hres as <- <-.
    + rewrite EP in Ec. fold P in Ec. fold P. rewrite ES1. repeat split; try nia.
      intros _. rewrite EP2. rewrite Z.even_mul. reflexivity.
    + rewrite EP in Ec |- *. fold P in Ec |- *. fold sh. fold S. repeat split; try nia.
      intros Ht. assert (r = H) by nia. destruct Hup as [Hup|[_ Ho]]; [lia|]. rewrite Z.even_add, <- Z.negb_odd, Ho. reflexivity.
  - specialize (Hdn eq_refl). destruct (Z.eqb_spec q0 (2 ^ p)) as [Ec|Ec]; [rewrite EP in Ec; fold P in Ec; lia|]. injection Hres as <- <-.
    rewrite EP. fold P. fold sh. fold S. repeat split; try nia.
    intros Ht. assert (r = H) by nia. destruct Hdn as [Hdn|[_ Ho]]; [lia|]. rewrite <- Z.negb_odd, Ho. reflexivity.
Qed.

(* the two cases together: what every later proof needs *)
Lemma round_mag_bounds p m q e : 1 < p -> 0 < m -> round_mag p m = (q, e) ->
  2 ^ (p - 1) <= q < 2 ^ p /\ Z.log2 m <= e <= Z.log2 m + 1.
Proof.
  intros Hp Hm H. destruct (Z.lt_ge_cases (Z.log2 m) p) as [C|C].
  - destruct (round_mag_exact p m Hp Hm C) as [E Hb]. rewrite E in H. injection H as <- <-. split; [exact Hb|lia].
  - destruct (round_mag_rounded p m q e Hp Hm C H) as (Hq & He & _). split; assumption.
Qed.

Lemma float_of_int_range p bias width z n :
  1 < p -> 0 <= bias -> 0 <= n -> - 2 ^ n < z < 2 ^ n -> (n + 1 + bias) * 2 ^ (p - 1) <= 2 ^ (width - 1) -> 1 <= width ->
  0 <= float_of_int p bias width z < 2 ^ width.
Proof.
  intros Hp Hb Hn Hz Hw Hw1. unfold float_of_int. destruct (Z.eqb_spec z 0) as [->|Hne].
  - split; [lia|apply pow_pos; lia].
  - destruct (round_mag p (Z.abs z)) as [q e] eqn:E.
    destruct (round_mag_bounds p (Z.abs z) q e Hp ltac:(lia) E) as (Hq & He).
    assert (Hl : Z.log2 (Z.abs z) < n) by (apply Z.log2_lt_pow2; lia). pose proof (Z.log2_nonneg (Z.abs z)) as Hl0.
    assert (EW : 2 ^ width = 2 * 2 ^ (width - 1)) by (replace width with (1 + (width - 1)) at 1 by lia; rewrite pow_split by lia; reflexivity).
    assert (EP : 2 ^ p = 2 * 2 ^ (p - 1)) by (replace p with (1 + (p - 1)) at 1 by lia; rewrite pow_split by lia; reflexivity).
    pose proof (pow_pos (p - 1) ltac:(lia)) as HP. pose proof (pow_pos (width - 1) ltac:(lia)) as HW.
    set (P := 2 ^ (p - 1)) in *. set (W := 2 ^ (width - 1)) in *.
    assert (Hmid : 0 <= (e + bias) * P + (q - P) < W) by nia.
    destruct (z <? 0); lia.
Qed.

Lemma f32_of_int_range z : - 2 ^ 64 < z < 2 ^ 64 -> 0 <= f32_of_int z < 2 ^ 32.
Proof. intros H. apply (float_of_int_range 24 127 32 z 64); first [exact H | lia | (vm_compute; discriminate)]. Qed.

Lemma f64_of_int_range z : - 2 ^ 64 < z < 2 ^ 64 -> 0 <= f64_of_int z < 2 ^ 64.
Proof. intros H. apply (float_of_int_range 53 1023 64 z 64); first [exact H | lia | (vm_compute; discriminate)]. Qed.

(* the word decodes to the rounded value: sign, biased exponent and fraction sit in their fields *)
Lemma float_of_int_fields p bias width z q e : 1 < p -> z <> 0 -> round_mag p (Z.abs z) = (q, e) ->
  float_of_int p bias width z = (if z <? 0 then 2 ^ (width - 1) else 0) + (e + bias) * 2 ^ (p - 1) + (q - 2 ^ (p - 1))
  /\ 0 <= q - 2 ^ (p - 1) < 2 ^ (p - 1).
Proof.
  intros Hp Hz E. unfold float_of_int. destruct (Z.eqb_spec z 0) as [C|_]; [contradiction|]. rewrite E. split; [reflexivity|].
  destruct (round_mag_bounds p (Z.abs z) q e Hp ltac:(lia) E) as (Hq & _).
  assert (EP : 2 ^ p = 2 * 2 ^ (p - 1)) by (replace p with (1 + (p - 1)) at 1 by lia; rewrite pow_split by lia; reflexivity). lia.
Qed.

(* the cases the seeded double rounding gets wrong: just above a tie the single rounding goes up *)
Example f32_above_tie : f32_of_int (2 ^ 60 + 2 ^ 36 + 1) = 1568669697 /\ f32_of_int (2 ^ 60 + 2 ^ 36) = 1568669696
  /\ f32_of_int (- (2 ^ 60 + 2 ^ 36 + 1)) = 2 ^ 31 + 1568669697 /\ f32_of_int 16777217 = 1266679808 /\ f32_of_int 1 = 1065353216
  /\ f64_of_int 1 = 4607182418800017408 /\ f64_of_int (2 ^ 64 - 1) = 4895412794951729152 /\ f64_of_int (- 2 ^ 63) = 14114281232179134464.
Proof. vm_compute. repeat split; reflexivity. Qed.

(* ---- float width to float width ---- *)
Lemma round_scaled_quantum p qmin m x : snd (round_scaled p qmin m x) = Z.max (Z.log2 m + x - (p - 1)) qmin.
Proof. unfold round_scaled. destruct (_ <=? x); reflexivity. Qed.

(* representable at the quantum: stored exactly (every f32 in f64, and every f64 whose low bits are zero in f32) *)
Lemma round_scaled_exact p qmin m x : Z.max (Z.log2 m + x - (p - 1)) qmin <= x ->
  round_scaled p qmin m x = (m * 2 ^ (x - Z.max (Z.log2 m + x - (p - 1)) qmin), Z.max (Z.log2 m + x - (p - 1)) qmin).
Proof. intros H. unfold round_scaled. destruct (Z.leb_spec (Z.max (Z.log2 m + x - (p - 1)) qmin) x) as [_|C]; [reflexivity|lia]. Qed.

(* otherwise: the nearest multiple of the quantum, the even one on a tie; with sh = qe - x the claim is in units of 2^x *)
Lemma round_scaled_rounded p qmin m x q qe : 1 < p -> 0 < m -> round_scaled p qmin m x = (q, qe) -> x < Z.max (Z.log2 m + x - (p - 1)) qmin ->
  qe = Z.max (Z.log2 m + x - (p - 1)) qmin /\ 0 <= q <= 2 ^ p /\
  2 * Z.abs (q * 2 ^ (qe - x) - m) <= 2 ^ (qe - x) /\ (2 * Z.abs (q * 2 ^ (qe - x) - m) = 2 ^ (qe - x) -> Z.even q = true).
Proof.
  intros Hp Hm. unfold round_scaled. set (QE := Z.max (Z.log2 m + x - (p - 1)) qmin).
  destruct (Z.leb_spec QE x) as [C|_]; [intros _ Hc; lia|]. intros Hres Hx.
  pose proof (Z.log2_spec m Hm) as [Hlo Hhi]. set (L := Z.log2 m) in *. set (sh := QE - x) in *.
  assert (Hsh : 1 <= sh) by (subst sh; lia).
  assert (ES : 2 ^ sh = 2 * 2 ^ (sh - 1)) by (replace sh with (1 + (sh - 1)) at 1 by lia; rewrite pow_split by lia; reflexivity).
  pose proof (pow_pos (sh - 1) ltac:(lia)) as HH.
  pose proof (Z.div_mod m (2 ^ sh) ltac:(lia)) as Hdm. pose proof (Z.mod_pos_bound m (2 ^ sh) ltac:(lia)) as Hr.
  assert (Hq0 : 0 <= m / 2 ^ sh < 2 ^ p).
  { split; [apply Z.div_pos; lia|]. apply Z.div_lt_upper_bound; [lia|]. rewrite <- pow_split by lia.
    eapply Z.lt_le_trans; [exact Hhi|]. apply Z.pow_le_mono_r; [lia|]. subst sh QE. lia. }
  pose proof (pow_pos p ltac:(lia)) as HP.
  set (S := 2 ^ sh) in *. set (H := 2 ^ (sh - 1)) in *. set (q0 := m / S) in *. set (r := m mod S) in *.
  set (up := (H <? r) || ((r =? H) && Z.odd q0)) in *.
  assert (Hup : up = true -> H < r \/ (r = H /\ Z.odd q0 = true)).
  { subst up. intros Hu. apply orb_true_iff in Hu as [Hu|Hu]; [left; apply Z.ltb_lt; exact Hu|].
    apply andb_true_iff in Hu as [Hu1 Hu2]. right. split; [apply Z.eqb_eq; exact Hu1|exact Hu2]. }
  assert (Hdn : up = false -> r < H \/ (r = H /\ Z.odd q0 = false)).
  { subst up. intros Hu. apply orb_false_iff in Hu as [Hu1 Hu2]. apply Z.ltb_ge in Hu1. apply andb_false_iff in Hu2 as [Hu2|Hu2].
    - apply Z.eqb_neq in Hu2. left; lia.
    - destruct (Z.eq_dec r H) as [E|E]; [right; split; assumption|left; lia]. }
  destruct up eqn:Eup; injection Hres as <- <-; fold sh; fold S.
  - specialize (Hup eq_refl). repeat split; try nia.
    intros Ht. assert (r = H) by nia. destruct Hup as [Hup|[_ Ho]]; [lia|]. rewrite Z.even_add, <- Z.negb_odd, Ho. reflexivity.
  - specialize (Hdn eq_refl). repeat split; try nia.
    intros Ht. assert (r = H) by nia. destruct Hdn as [Hdn|[_ Ho]]; [lia|]. rewrite <- Z.negb_odd, Ho. reflexivity.
Qed.

(* widening is exact: every finite f32 (significand below 2^24, quantum at least 2^-149) sits on the f64 grid *)
Lemma widen_exact m x : 0 < m < 2 ^ 24 -> -149 <= x -> exists qe, qe <= x /\ round_scaled 53 (-1074) m x = (m * 2 ^ (x - qe), qe).
Proof.
  intros Hm Hx. assert (Hl : Z.log2 m < 24) by (apply Z.log2_lt_pow2; lia).
  exists (Z.max (Z.log2 m + x - (53 - 1)) (-1074)). split; [lia|]. apply round_scaled_exact. lia.
Qed.

Lemma encode_mag_range p bias width q qe : 1 < p -> p < width -> 0 <= q -> 0 <= encode_mag p bias width q qe <= (2 ^ (width - p) - 1) * 2 ^ (p - 1).
Proof.
  intros Hp Hw Hq. unfold encode_mag. pose proof (pow_pos (p - 1) ltac:(lia)) as HP. pose proof (pow_pos (width - p) ltac:(lia)) as HW.
  split; [|apply Z.le_min_l]. apply Z.min_glb; [nia|]. pose proof (Z.le_max_l 0 (qe + (p - 1) + bias - 1)). nia.
Qed.

Lemma classify_nonneg p bias width bits sign m x : 1 < p -> classify p bias width bits = (sign, FFinite m x) -> 0 <= m.
Proof.
  intros Hp. unfold classify. intros E. injection E as _ E. pose proof (pow_pos (p - 1) ltac:(lia)) as HP.
  pose proof (Z.mod_pos_bound (bits mod 2 ^ (width - 1)) (2 ^ (p - 1)) HP) as Hf.
  destruct (_ =? 2 ^ (width - p) - 1); [destruct (_ =? 0); discriminate|].
  destruct (_ =? 0); [destruct (_ =? 0); [discriminate|injection E as <- _; lia]|injection E as <- _; lia].
Qed.

Lemma convert_float_range p1 bias1 width1 p2 bias2 width2 bits : 1 < p1 -> 2 < p2 -> p2 < width2 -> 0 <= bits ->
  0 <= convert_float p1 bias1 width1 p2 bias2 width2 bits < 2 ^ width2.
Proof.
  intros Hp1 Hp2 Hw Hb. unfold convert_float. destruct (classify p1 bias1 width1 bits) as [sign c] eqn:EC.
  assert (EW : 2 ^ width2 = 2 * 2 ^ (width2 - 1)) by (replace width2 with (1 + (width2 - 1)) at 1 by lia; rewrite pow_split by lia; reflexivity).
  assert (EW1 : 2 ^ (width2 - 1) = 2 ^ (width2 - p2) * 2 ^ (p2 - 1)) by (rewrite <- pow_split by lia; f_equal; lia).
  assert (EP : 2 ^ (p2 - 1) = 2 * 2 ^ (p2 - 2)) by (replace (p2 - 1) with (1 + (p2 - 2)) at 1 by lia; rewrite pow_split by lia; reflexivity).
  pose proof (pow_pos (p2 - 2) ltac:(lia)) as HP. pose proof (pow_pos (width2 - p2) ltac:(lia)) as HW.
  set (inf := (2 ^ (width2 - p2) - 1) * 2 ^ (p2 - 1)) in *.
  assert (Hbody : 0 <= match c with
      | FZero => 0 | FInf => inf
      | FNaN frac => inf + 2 ^ (p2 - 2) + (if p2 <=? p1 then frac / 2 ^ (p1 - p2) else frac * 2 ^ (p2 - p1)) mod 2 ^ (p2 - 2)
      | FFinite m x => let '(q, qe) := round_scaled p2 (1 - bias2 - (p2 - 1)) m x in encode_mag p2 bias2 width2 q qe
      end < 2 ^ (width2 - 1)).
  { destruct c as [|m x| |frac].
    - lia.
    - destruct (round_scaled p2 (1 - bias2 - (p2 - 1)) m x) as [q qe] eqn:E.
      assert (Hn : 0 <= q).
      { assert (Hm : 0 <= m) by (apply (classify_nonneg p1 bias1 width1 bits sign m x Hp1 EC)).
        revert E. unfold round_scaled. destruct (_ <=? x); intros E; injection E as <- _.
        - apply Z.mul_nonneg_nonneg; [exact Hm|apply Z.pow_nonneg; lia].
        - match goal with |- 0 <= (if _ then ?d + 1 else ?d) => assert (0 <= d) by (apply Z_div_nonneg_nonneg; [exact Hm|apply Z.pow_nonneg; lia]) end.
          match goal with |- 0 <= (if ?c then _ else _) => destruct c; lia end. }
      pose proof (encode_mag_range p2 bias2 width2 q qe ltac:(lia) Hw Hn) as H. fold inf in H. nia.
    - subst inf. nia.
    - pose proof (Z.mod_pos_bound (if p2 <=? p1 then frac / 2 ^ (p1 - p2) else frac * 2 ^ (p2 - p1)) (2 ^ (p2 - 2)) HP). subst inf. nia. }
  destruct sign; lia.
Qed.

Lemma f32_of_f64_range x : 0 <= x -> 0 <= f32_of_f64 x < 2 ^ 32.
Proof. intros H. apply convert_float_range; lia. Qed.

Lemma f64_of_f32_range x : 0 <= x -> 0 <= f64_of_f32 x < 2 ^ 64.
Proof. intros H. apply convert_float_range; lia. Qed.

(* 1.0, the smallest subnormal, infinities, a quiet NaN, ties to even in the normal and the subnormal range, overflow to infinity *)
Example convert_examples :
  f32_of_f64 4607182418800017408 = 1065353216 /\ f32_of_f64 3936146074321813504 = 1 /\ f32_of_f64 4039728865751334912 = 8388608
  /\ f32_of_f64 5183643170835005440 = 2139095040 /\ f32_of_f64 5183643170566569984 = 2139095039 /\ f32_of_f64 9221120237041090560 = 2143289344
  /\ f64_of_f32 1 = 3936146074321813504 /\ f64_of_f32 8388607 = 4039728864677593088 /\ f64_of_f32 4286578688 = 18442240474082181120.
Proof. vm_compute. repeat split; reflexivity. Qed.
