(* The integer-to-float cast of the model is the correctly rounded one: exact when the integer fits the
   significand, otherwise within half a unit in the last place of the integer's binade, and on an exact tie
   the even significand; the encoded word fits the column width. *)
From Coq Require Import ZArith Bool Lia.
From Verif Require Import FloatOfInt.
Local Open Scope Z_scope.

Lemma pow_split a b : 0 <= a -> 0 <= b -> 2 ^ (a + b) = 2 ^ a * 2 ^ b.
Proof. intros; apply Z.pow_add_r; assumption. Qed.

Lemma pow_pos a : 0 <= a -> 0 < 2 ^ a.
Proof. intros; apply Z.pow_pos_nonneg; lia. Qed.

Definition fvalue (p q e : Z) : Z := q * 2 ^ (e - (p - 1)).

Lemma round_mag_exact p m : 1 < p -> 0 < m -> Z.log2 m < p ->
  round_mag p m = (m * 2 ^ (p - 1 - Z.log2 m), Z.log2 m) /\ 2 ^ (p - 1) <= m * 2 ^ (p - 1 - Z.log2 m) < 2 ^ p.
Proof.
  intros Hp Hm Hl. unfold round_mag. destruct (Z.ltb_spec (Z.log2 m) p) as [_|C]; [|lia]. split; [reflexivity|].
  pose proof (Z.log2_spec m Hm) as [Hlo Hhi]. pose proof (Z.log2_nonneg m) as Hn.
  set (L := Z.log2 m) in *. set (d := p - 1 - L).
  assert (E1 : 2 ^ (p - 1) = 2 ^ L * 2 ^ d) by (rewrite <- pow_split by (subst d; lia); f_equal; subst d; lia).
  assert (E2 : 2 ^ p = 2 ^ (Z.succ L) * 2 ^ d) by (rewrite <- pow_split by (subst d; lia); f_equal; subst d; lia).
  pose proof (pow_pos d ltac:(subst d; lia)) as Hd. rewrite E1, E2. nia.
Qed.

Lemma round_mag_rounded p m q e : 1 < p -> 0 < m -> p <= Z.log2 m -> round_mag p m = (q, e) ->
  let u := 2 ^ (Z.log2 m - (p - 1)) in
  2 ^ (p - 1) <= q < 2 ^ p /\ Z.log2 m <= e <= Z.log2 m + 1 /\
  2 * Z.abs (fvalue p q e - m) <= u /\ (2 * Z.abs (fvalue p q e - m) = u -> Z.even q = true).
Proof.
  intros Hp Hm Hl. unfold round_mag, fvalue. destruct (Z.ltb_spec (Z.log2 m) p) as [C|_]; [lia|].
  pose proof (Z.log2_spec m Hm) as [Hlo Hhi]. set (L := Z.log2 m) in *. set (sh := L - (p - 1)).
  assert (Hsh : 1 <= sh) by (subst sh; lia).
  assert (ES : 2 ^ sh = 2 * 2 ^ (sh - 1)) by (replace sh with (1 + (sh - 1)) at 1 by lia; rewrite pow_split by lia; reflexivity).
  assert (EL : 2 ^ L = 2 ^ (p - 1) * 2 ^ sh) by (rewrite <- pow_split by lia; f_equal; subst sh; lia).
  assert (EL1 : 2 ^ (Z.succ L) = 2 ^ p * 2 ^ sh) by (rewrite <- pow_split by lia; f_equal; subst sh; lia).
  assert (EP : 2 ^ p = 2 * 2 ^ (p - 1)) by (replace p with (1 + (p - 1)) at 1 by lia; rewrite pow_split by lia; reflexivity).
  assert (EP2 : 2 ^ (p - 1) = 2 * 2 ^ (p - 2)) by (replace (p - 1) with (1 + (p - 2)) at 1 by lia; rewrite pow_split by lia; reflexivity).
  pose proof (pow_pos (sh - 1) ltac:(lia)) as HH. pose proof (pow_pos (p - 2) ltac:(lia)) as HP2.
  pose proof (Z.div_mod m (2 ^ sh) ltac:(lia)) as Hdm. pose proof (Z.mod_pos_bound m (2 ^ sh) ltac:(lia)) as Hr.
  set (S := 2 ^ sh) in *. set (H := 2 ^ (sh - 1)) in *. set (P := 2 ^ (p - 1)) in *. set (q0 := m / S) in *. set (r := m mod S) in *.
  assert (Hq0 : P <= q0 < 2 * P) by (rewrite EP in EL1; nia).
  assert (ES1 : 2 ^ (L + 1 - (p - 1)) = 2 * S) by (replace (L + 1 - (p - 1)) with (1 + sh) by (subst sh; lia); rewrite (pow_split 1 sh) by lia; reflexivity).
  set (up := (H <? r) || ((r =? H) && Z.odd q0)).
  intros Hres.
  assert (Hup : up = true -> H < r \/ (r = H /\ Z.odd q0 = true)).
  { subst up. intros Hu. apply orb_true_iff in Hu as [Hu|Hu]; [left; apply Z.ltb_lt; exact Hu|].
    apply andb_true_iff in Hu as [Hu1 Hu2]. right. split; [apply Z.eqb_eq; exact Hu1|exact Hu2]. }
  assert (Hdn : up = false -> r < H \/ (r = H /\ Z.odd q0 = false)).
  { subst up. intros Hu. apply orb_false_iff in Hu as [Hu1 Hu2]. apply Z.ltb_ge in Hu1. apply andb_false_iff in Hu2 as [Hu2|Hu2].
    - apply Z.eqb_neq in Hu2. left; lia.
    - destruct (Z.eq_dec r H) as [E|E]; [right; split; assumption|left; lia]. }
  destruct up eqn:Eup.
  - specialize (Hup eq_refl). destruct (Z.eqb_spec (q0 + 1) (2 ^ p)) as [Ec|Ec]; injection Hres as <- <-.
    + rewrite EP in Ec. fold P in Ec. fold P. rewrite ES1. repeat split; try nia.
      intros _. rewrite EP2. rewrite Z.even_mul. reflexivity.
    + rewrite EP in Ec |- *. fold P in Ec |- *. fold sh. fold S. repeat split; try nia.
      intros Ht. assert (r = H) by nia. destruct Hup as [Hup|[_ Ho]]; [lia|]. rewrite Z.even_add, <- Z.negb_odd, Ho. reflexivity.
  - specialize (Hdn eq_refl). destruct (Z.eqb_spec q0 (2 ^ p)) as [Ec|Ec]; [rewrite EP in Ec; fold P in Ec; lia|]. injection Hres as <- <-.
    rewrite EP. fold P. fold sh. fold S. repeat split; try nia.
    intros Ht. assert (r = H) by nia. destruct Hdn as [Hdn|[_ Ho]]; [lia|]. rewrite <- Z.negb_odd, Ho. reflexivity.
Qed.

(* the two cases together: what every later proof needs *)
Lemma round_mag_bounds p m q e : 1 < p -> 0 < m -> round_mag p m = (q, e) ->
  2 ^ (p - 1) <= q < 2 ^ p /\ Z.log2 m <= e <= Z.log2 m + 1.
Proof.
  intros Hp Hm H. destruct (Z.lt_ge_cases (Z.log2 m) p) as [C|C].
  - destruct (round_mag_exact p m Hp Hm C) as [E Hb]. rewrite E in H. injection H as <- <-. split; [exact Hb|lia].
  - destruct (round_mag_rounded p m q e Hp Hm C H) as (Hq & He & _). split; assumption.
Qed.

Lemma float_of_int_range p bias width z n :
  1 < p -> 0 <= bias -> 0 <= n -> - 2 ^ n < z < 2 ^ n -> (n + 1 + bias) * 2 ^ (p - 1) <= 2 ^ (width - 1) -> 1 <= width ->
  0 <= float_of_int p bias width z < 2 ^ width.
Proof.
  intros Hp Hb Hn Hz Hw Hw1. unfold float_of_int. destruct (Z.eqb_spec z 0) as [->|Hne].
  - split; [lia|apply pow_pos; lia].
  - destruct (round_mag p (Z.abs z)) as [q e] eqn:E.
    destruct (round_mag_bounds p (Z.abs z) q e Hp ltac:(lia) E) as (Hq & He).
    assert (Hl : Z.log2 (Z.abs z) < n) by (apply Z.log2_lt_pow2; lia). pose proof (Z.log2_nonneg (Z.abs z)) as Hl0.
    assert (EW : 2 ^ width = 2 * 2 ^ (width - 1)) by (replace width with (1 + (width - 1)) at 1 by lia; rewrite pow_split by lia; reflexivity).
    assert (EP : 2 ^ p = 2 * 2 ^ (p - 1)) by (replace p with (1 + (p - 1)) at 1 by lia; rewrite pow_split by lia; reflexivity).
    pose proof (pow_pos (p - 1) ltac:(lia)) as HP. pose proof (pow_pos (width - 1) ltac:(lia)) as HW.
    set (P := 2 ^ (p - 1)) in *. set (W := 2 ^ (width - 1)) in *.
    assert (Hmid : 0 <= (e + bias) * P + (q - P) < W) by nia.
    destruct (z <? 0); lia.
Qed.

Lemma f32_of_int_range z : - 2 ^ 64 < z < 2 ^ 64 -> 0 <= f32_of_int z < 2 ^ 32.
Proof. intros H. apply (float_of_int_range 24 127 32 z 64); first [exact H | lia | (vm_compute; discriminate)]. Qed.

Lemma f64_of_int_range z : - 2 ^ 64 < z < 2 ^ 64 -> 0 <= f64_of_int z < 2 ^ 64.
Proof. intros H. apply (float_of_int_range 53 1023 64 z 64); first [exact H | lia | (vm_compute; discriminate)]. Qed.

(* the word decodes to the rounded value: sign, biased exponent and fraction sit in their fields *)
Lemma float_of_int_fields p bias width z q e : 1 < p -> z <> 0 -> round_mag p (Z.abs z) = (q, e) ->
  float_of_int p bias width z = (if z <? 0 then 2 ^ (width - 1) else 0) + (e + bias) * 2 ^ (p - 1) + (q - 2 ^ (p - 1))
  /\ 0 <= q - 2 ^ (p - 1) < 2 ^ (p - 1).
Proof.
  intros Hp Hz E. unfold float_of_int. destruct (Z.eqb_spec z 0) as [C|_]; [contradiction|]. rewrite E. split; [reflexivity|].
  destruct (round_mag_bounds p (Z.abs z) q e Hp ltac:(lia) E) as (Hq & _).
  assert (EP : 2 ^ p = 2 * 2 ^ (p - 1)) by (replace p with (1 + (p - 1)) at 1 by lia; rewrite pow_split by lia; reflexivity). lia.
Qed.

(* the cases the seeded double rounding gets wrong: just above a tie the single rounding goes up *)
Example f32_above_tie : f32_of_int (2 ^ 60 + 2 ^ 36 + 1) = 1568669697 /\ f32_of_int (2 ^ 60 + 2 ^ 36) = 1568669696
  /\ f32_of_int (- (2 ^ 60 + 2 ^ 36 + 1)) = 2 ^ 31 + 1568669697 /\ f32_of_int 16777217 = 1266679808 /\ f32_of_int 1 = 1065353216
  /\ f64_of_int 1 = 4607182418800017408 /\ f64_of_int (2 ^ 64 - 1) = 4895412794951729152 /\ f64_of_int (- 2 ^ 63) = 14114281232179134464.
Proof. vm_compute. repeat split; reflexivity. Qed.
