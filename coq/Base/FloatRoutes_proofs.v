(* Two routes from an integer to an f32: cast once, or cast to f64 first.  They agree whenever the integer fits the f64 significand
   (every integer of at most 53 bits: all 8 / 16 / 32 bit widths) - and only then in general (C01_cast_through_f64_differs). *)
From Coq Require Import ZArith Bool Lia.
From Verif Require Import FloatOfInt FloatOfInt_proofs.
Local Open Scope Z_scope.

Lemma classify_normal p bias width (neg : bool) field frac : 1 < p -> p < width -> 0 < field < 2 ^ (width - p) - 1 -> 0 <= frac < 2 ^ (p - 1) ->
  classify p bias width ((if neg then 2 ^ (width - 1) else 0) + field * 2 ^ (p - 1) + frac) = (neg, FFinite (frac + 2 ^ (p - 1)) (field - bias - (p - 1))).
Proof.
  intros Hp Hw Hf Hfr. unfold classify.
  assert (EW : 2 ^ (width - 1) = 2 ^ (width - p) * 2 ^ (p - 1)) by (rewrite <- pow_split by lia; f_equal; lia).
  pose proof (pow_pos (p - 1) ltac:(lia)) as HP. pose proof (pow_pos (width - p) ltac:(lia)) as HW.
  set (P := 2 ^ (p - 1)) in *. set (Wd := 2 ^ (width - 1)) in *. set (F := 2 ^ (width - p)) in *.
  set (K := field * P + frac).
  assert (HK : 0 <= K < Wd) by (subst K; nia).
  assert (Hsign : (Wd <=? (if neg then Wd else 0) + field * P + frac) = neg).
  { destruct neg; [apply Z.leb_le|apply Z.leb_gt]; fold K; lia. }
  assert (Hmag : ((if neg then Wd else 0) + field * P + frac) mod Wd = K).
  { symmetry. destruct neg.
    - apply (Z.mod_unique _ _ 1); [left; exact HK|subst K; lia].
    - apply (Z.mod_unique _ _ 0); [left; exact HK|subst K; lia]. }
  rewrite Hsign, Hmag.
  assert (Hdiv : K / P = field) by (symmetry; apply (Z.div_unique K P field frac); [left; exact Hfr|subst K; lia]).
  assert (Hmod : K mod P = frac) by (symmetry; apply (Z.mod_unique K P field frac); [left; exact Hfr|subst K; lia]).
  rewrite Hdiv, Hmod.
  destruct (Z.eqb_spec field (F - 1)) as [C|_]; [lia|]. destruct (Z.eqb_spec field 0) as [C|_]; [lia|]. reflexivity.
Qed.

Lemma round_scaled_unfold p qmin m x : x < Z.max (Z.log2 m + x - (p - 1)) qmin ->
  round_scaled p qmin m x =
  (let sh := Z.max (Z.log2 m + x - (p - 1)) qmin - x in
   if (2 ^ (sh - 1) <? m mod 2 ^ sh) || ((m mod 2 ^ sh =? 2 ^ (sh - 1)) && Z.odd (m / 2 ^ sh)) then m / 2 ^ sh + 1 else m / 2 ^ sh,
   Z.max (Z.log2 m + x - (p - 1)) qmin).
Proof. intros H. unfold round_scaled. destruct (Z.leb_spec (Z.max (Z.log2 m + x - (p - 1)) qmin) x) as [C|_]; [lia|reflexivity]. Qed.

Lemma round_mag_unfold p m : p <= Z.log2 m ->
  round_mag p m =
  (let sh := Z.log2 m - (p - 1) in
   let q' := if (2 ^ (sh - 1) <? m mod 2 ^ sh) || ((m mod 2 ^ sh =? 2 ^ (sh - 1)) && Z.odd (m / 2 ^ sh)) then m / 2 ^ sh + 1 else m / 2 ^ sh in
   if q' =? 2 ^ p then (2 ^ (p - 1), Z.log2 m + 1) else (q', Z.log2 m)).
Proof. intros H. unfold round_mag. destruct (Z.ltb_spec (Z.log2 m) p) as [C|_]; [lia|reflexivity]. Qed.

(* the significand chosen when the f64 image of a 53-bit integer is narrowed is the one chosen by the direct cast *)
Lemma narrow_matches m : 0 < m -> Z.log2 m < 53 ->
  forall q' qe q e, round_scaled 24 (-149) (m * 2 ^ (52 - Z.log2 m)) (Z.log2 m - 52) = (q', qe) -> round_mag 24 m = (q, e) ->
  encode_mag 24 127 32 q' qe = (e + 127) * 2 ^ 23 + (q - 2 ^ 23).
Proof.
  intros Hm Hl q' qe q e. pose proof (Z.log2_nonneg m) as Hl0. set (L := Z.log2 m) in *.
  pose proof (pow_pos (52 - L) ltac:(lia)) as Hc. set (c := 2 ^ (52 - L)) in *.
  assert (HlM : Z.log2 (m * c) = 52) by (subst c; rewrite Z.log2_mul_pow2 by lia; fold L; lia).
  assert (Hqe : Z.max (Z.log2 (m * c) + (L - 52) - (24 - 1)) (-149) = L - 23) by (rewrite HlM; lia).
  rewrite round_scaled_unfold by (rewrite Hqe; lia). rewrite Hqe. replace (L - 23 - (L - 52)) with 29 by lia. cbv zeta.
  destruct (Z.lt_ge_cases L 24) as [Hs|Hb].
  - (* the integer fits the f32 significand: nothing is rounded on either route *)
    destruct (round_mag_exact 24 m ltac:(lia) Hm Hs) as [E Hq]. fold L in E, Hq. replace (24 - 1 - L) with (23 - L) in E, Hq by lia. rewrite E.
    assert (Ec : c = 2 ^ (23 - L) * 2 ^ 29) by (subst c; rewrite <- pow_split by lia; f_equal; lia).
    assert (Hd : m * c / 2 ^ 29 = m * 2 ^ (23 - L)) by (rewrite Ec, Z.mul_assoc; apply Z.div_mul; lia).
    assert (Hr : (m * c) mod 2 ^ 29 = 0) by (rewrite Ec, Z.mul_assoc; apply Z.mod_mul; lia).
    rewrite Hd, Hr. set (X := m * 2 ^ (23 - L)) in *. change (2 ^ (29 - 1) <? 0) with false. change (0 =? 2 ^ (29 - 1)) with false. rewrite Bool.orb_false_l, Bool.andb_false_l. cbv iota.
    intros E1 E2. injection E1 as <- <-. injection E2 as <- <-.
    unfold encode_mag. change (2 ^ 24) with 16777216 in Hq. change (2 ^ (24 - 1)) with 8388608 in *. change (2 ^ 23) with 8388608.
    change ((2 ^ (32 - 24) - 1) * 8388608) with 2139095040. lia.
  - (* it does not: both routes cut at the same binary place *)
    rewrite (round_mag_unfold 24 m) by (fold L; lia). fold L. cbv zeta.
    pose proof (pow_pos (L - 23) ltac:(lia)) as HS. pose proof (pow_pos (L - 24) ltac:(lia)) as HH.
    assert (E29 : 2 ^ 29 = 2 ^ (L - 23) * c) by (subst c; rewrite <- pow_split by lia; f_equal; lia).
    assert (E28 : 2 ^ (29 - 1) = 2 ^ (L - 24) * c) by (subst c; rewrite <- pow_split by lia; f_equal; lia).
    assert (Hd : m * c / 2 ^ 29 = m / 2 ^ (L - 23)) by (rewrite E29; apply Z.div_mul_cancel_r; lia).
    assert (Hr : (m * c) mod 2 ^ 29 = (m mod 2 ^ (L - 23)) * c) by (rewrite E29; apply Z.mul_mod_distr_r; lia).
    rewrite Hd, Hr, E28. replace (L - (24 - 1)) with (L - 23) by lia. replace (L - 23 - 1) with (L - 24) by lia.
    set (q0 := m / 2 ^ (L - 23)). set (r := m mod 2 ^ (L - 23)). set (H := 2 ^ (L - 24)).
    assert (B1 : (H * c <? r * c) = (H <? r)) by (destruct (Z.ltb_spec (H * c) (r * c)), (Z.ltb_spec H r); try reflexivity; nia).
    assert (B2 : (r * c =? H * c) = (r =? H)) by (destruct (Z.eqb_spec (r * c) (H * c)), (Z.eqb_spec r H); try reflexivity; nia).
    rewrite B1, B2. set (qq := if (H <? r) || (r =? H) && Z.odd q0 then q0 + 1 else q0).
    assert (Hq0 : 2 ^ 23 <= q0 < 2 ^ 24).
    { pose proof (Z.log2_spec m Hm) as [Hlo Hhi]. fold L in Hlo, Hhi.
      assert (EL : 2 ^ L = 2 ^ 23 * 2 ^ (L - 23)) by (rewrite <- pow_split by lia; f_equal; lia).
      assert (EL1 : 2 ^ Z.succ L = 2 ^ 24 * 2 ^ (L - 23)) by (rewrite <- pow_split by lia; f_equal; lia).
      subst q0. split; [apply Z.div_le_lower_bound; lia|apply Z.div_lt_upper_bound; lia]. }
    assert (Hqq : 2 ^ 23 <= qq <= 2 ^ 24) by (subst qq; destruct (_ || _); lia).
    intros E1 E2. injection E1 as <- <-. unfold encode_mag.
    change (2 ^ 24) with 16777216 in *. change (2 ^ 23) with 8388608 in *. change (2 ^ (24 - 1)) with 8388608 in *.
    change ((2 ^ (32 - 24) - 1) * 8388608) with 2139095040.
    destruct (Z.eqb_spec qq 16777216) as [C|C]; injection E2 as <- <-; lia.
Qed.

Theorem cast_through_f64 z : z <> 0 -> Z.log2 (Z.abs z) < 53 -> f32_of_f64 (f64_of_int z) = f32_of_int z.
Proof.
  intros Hz Hl. assert (Hm : 0 < Z.abs z) by lia. pose proof (Z.log2_nonneg (Z.abs z)) as Hl0.
  destruct (round_mag_exact 53 (Z.abs z) ltac:(lia) Hm Hl) as [E64 HM].
  destruct (float_of_int_fields 53 1023 64 z _ _ ltac:(lia) Hz E64) as [W _].
  unfold f64_of_int. rewrite W. clear W.
  set (m := Z.abs z) in *. set (L := Z.log2 m) in *. set (M := m * 2 ^ (53 - 1 - L)) in *.
  unfold f32_of_f64, convert_float.
  rewrite (classify_normal 53 1023 64 (z <? 0) (L + 1023) (M - 2 ^ (53 - 1))) by (change (2 ^ (64 - 53) - 1) with 2047; change (2 ^ 53) with (2 * 2 ^ (53 - 1)) in HM; lia).
  replace (M - 2 ^ (53 - 1) + 2 ^ (53 - 1)) with M by lia. replace (L + 1023 - 1023 - (53 - 1)) with (L - 52) by lia.
  change (1 - 127 - (24 - 1)) with (-149). subst M. replace (53 - 1 - L) with (52 - L) by lia.
  destruct (round_scaled 24 (-149) (m * 2 ^ (52 - L)) (L - 52)) as [q' qe] eqn:E1.
  destruct (round_mag 24 m) as [q e] eqn:E2.
  rewrite (narrow_matches m Hm Hl q' qe q e E1 E2).
  unfold f32_of_int, float_of_int. destruct (Z.eqb_spec z 0) as [C|_]; [contradiction|]. fold m. rewrite E2. change (2 ^ (24 - 1)) with (2 ^ 23). lia.
Qed.

(* in particular every integer of the 8, 16 and 32 bit widths (and every char) *)
Corollary cast_through_f64_32bit z : - 2 ^ 32 < z < 2 ^ 32 -> f32_of_f64 (f64_of_int z) = f32_of_int z.
Proof.
  intros H. destruct (Z.eq_dec z 0) as [->|Hz]; [reflexivity|]. apply cast_through_f64; [exact Hz|].
  assert (Z.log2 (Z.abs z) < 32) by (apply Z.log2_lt_pow2; lia). lia.
Qed.

(* ---- widening and narrowing again gives the word back (every Float32 value that is not a NaN) ---- *)
Lemma classify_zero_field p bias width (neg : bool) frac : 1 < p -> p < width -> 0 <= frac < 2 ^ (p - 1) ->
  classify p bias width ((if neg then 2 ^ (width - 1) else 0) + frac) =
  (neg, if frac =? 0 then FZero else FFinite frac (1 - bias - (p - 1))).
Proof.
  intros Hp Hw Hfr. unfold classify.
  assert (EW : 2 ^ (width - 1) = 2 ^ (width - p) * 2 ^ (p - 1)) by (rewrite <- pow_split by lia; f_equal; lia).
  pose proof (pow_pos (p - 1) ltac:(lia)) as HP. pose proof (pow_pos (width - p) ltac:(lia)) as HW.
  assert (HW2 : 2 <= 2 ^ (width - p)) by (change 2 with (2 ^ 1) at 1; apply Z.pow_le_mono_r; lia).
  set (P := 2 ^ (p - 1)) in *. set (Wd := 2 ^ (width - 1)) in *. set (F := 2 ^ (width - p)) in *.
  assert (HK : 0 <= frac < Wd) by nia.
  assert (Hsign : (Wd <=? (if neg then Wd else 0) + frac) = neg) by (destruct neg; [apply Z.leb_le|apply Z.leb_gt]; lia).
  assert (Hmag : ((if neg then Wd else 0) + frac) mod Wd = frac).
  { symmetry. destruct neg; [apply (Z.mod_unique _ _ 1)|apply (Z.mod_unique _ _ 0)]; try (left; exact HK); lia. }
  rewrite Hsign, Hmag. rewrite (Z.div_small frac P) by lia. rewrite (Z.mod_small frac P) by lia.
  destruct (Z.eqb_spec 0 (F - 1)) as [C|_]; [lia|]. reflexivity.
Qed.

Lemma classify_top_field p bias width (neg : bool) frac : 1 < p -> p < width -> 0 <= frac < 2 ^ (p - 1) ->
  classify p bias width ((if neg then 2 ^ (width - 1) else 0) + (2 ^ (width - p) - 1) * 2 ^ (p - 1) + frac) =
  (neg, if frac =? 0 then FInf else FNaN frac).
Proof.
  intros Hp Hw Hfr. unfold classify.
  assert (EW : 2 ^ (width - 1) = 2 ^ (width - p) * 2 ^ (p - 1)) by (rewrite <- pow_split by lia; f_equal; lia).
  pose proof (pow_pos (p - 1) ltac:(lia)) as HP. pose proof (pow_pos (width - p) ltac:(lia)) as HW.
  set (P := 2 ^ (p - 1)) in *. set (Wd := 2 ^ (width - 1)) in *. set (F := 2 ^ (width - p)) in *.
  set (K := (F - 1) * P + frac).
  assert (HK : 0 <= K < Wd) by (subst K; nia).
  assert (Hsign : (Wd <=? (if neg then Wd else 0) + (F - 1) * P + frac) = neg) by (destruct neg; [apply Z.leb_le|apply Z.leb_gt]; fold K; lia).
  assert (Hmag : ((if neg then Wd else 0) + (F - 1) * P + frac) mod Wd = K).
  { symmetry. destruct neg; [apply (Z.mod_unique _ _ 1)|apply (Z.mod_unique _ _ 0)]; try (left; exact HK); subst K; lia. }
  rewrite Hsign, Hmag.
  assert (Hdiv : K / P = F - 1) by (symmetry; apply (Z.div_unique K P (F - 1) frac); [left; exact Hfr|subst K; lia]).
  assert (Hmod : K mod P = frac) by (symmetry; apply (Z.mod_unique K P (F - 1) frac); [left; exact Hfr|subst K; lia]).
  rewrite Hdiv, Hmod, Z.eqb_refl. reflexivity.
Qed.

(* every word splits into sign, exponent field and fraction *)
Lemma word_fields p width x : 1 < p -> p < width -> 0 <= x < 2 ^ width ->
  exists (neg : bool) field frac, x = (if neg then 2 ^ (width - 1) else 0) + field * 2 ^ (p - 1) + frac
    /\ 0 <= field <= 2 ^ (width - p) - 1 /\ 0 <= frac < 2 ^ (p - 1).
Proof.
  intros Hp Hw Hx.
  assert (EW : 2 ^ width = 2 * 2 ^ (width - 1)) by (replace width with (1 + (width - 1)) at 1 by lia; rewrite pow_split by lia; reflexivity).
  assert (EW1 : 2 ^ (width - 1) = 2 ^ (width - p) * 2 ^ (p - 1)) by (rewrite <- pow_split by lia; f_equal; lia).
  pose proof (pow_pos (p - 1) ltac:(lia)) as HP. pose proof (pow_pos (width - p) ltac:(lia)) as HW.
  set (P := 2 ^ (p - 1)) in *. set (Wd := 2 ^ (width - 1)) in *. set (F := 2 ^ (width - p)) in *.
  exists (Wd <=? x). set (mag := if Wd <=? x then x - Wd else x).
  assert (Hmag : 0 <= mag < Wd) by (subst mag; destruct (Z.leb_spec Wd x); lia).
  exists (mag / P), (mag mod P).
  pose proof (Z.div_mod mag P ltac:(lia)) as Hdm. pose proof (Z.mod_pos_bound mag P HP) as Hr.
  assert (Hq : 0 <= mag / P <= F - 1).
  { split; [apply Z.div_pos; lia|]. assert (mag / P < F) by (apply Z.div_lt_upper_bound; lia). lia. }
  repeat split; try lia. subst mag. destruct (Z.leb_spec Wd x); lia.
Qed.

(* a finite f32 value m * 2^ex in canonical form (leading bit set, or the subnormal exponent): out to f64 and back *)
Lemma finite_round_trip (neg : bool) m ex : 0 < m < 2 ^ 24 -> -149 <= ex <= 104 -> (Z.log2 m = 23 \/ ex = -149) ->
  forall q qe, round_scaled 53 (1 - 1023 - (53 - 1)) m ex = (q, qe) ->
  f32_of_f64 ((if neg then 2 ^ (64 - 1) else 0) + encode_mag 53 1023 64 q qe) = (if neg then 2 ^ (32 - 1) else 0) + encode_mag 24 127 32 m ex.
Proof.
  intros Hm Hex Hcanon q qe. change (1 - 1023 - (53 - 1)) with (-1074).
  assert (Hl : Z.log2 m < 24) by (apply Z.log2_lt_pow2; lia). pose proof (Z.log2_nonneg m) as Hl0.
  set (L := Z.log2 m) in *.
  assert (HQE : Z.max (L + ex - (53 - 1)) (-1074) = L + ex - 52) by lia.
  rewrite round_scaled_exact by (fold L; lia). fold L. rewrite HQE. replace (ex - (L + ex - 52)) with (52 - L) by lia.
  pose proof (Z.log2_spec m ltac:(lia)) as [Hlo Hhi]. fold L in Hlo, Hhi.
  pose proof (pow_pos (52 - L) ltac:(lia)) as Hc.
  assert (E52 : 2 ^ 52 = 2 ^ L * 2 ^ (52 - L)) by (rewrite <- pow_split by lia; f_equal; lia).
  assert (E53 : 2 ^ 53 = 2 ^ Z.succ L * 2 ^ (52 - L)) by (rewrite <- pow_split by lia; f_equal; lia).
  set (c := 2 ^ (52 - L)) in *. set (Q := m * c) in *. set (QE := L + ex - 52) in *.
  intros E. injection E as <- <-.
  assert (HQ : 2 ^ 52 <= Q < 2 ^ 53) by (subst Q; nia).
  (* the f64 word is a normal number with field L + ex + 1023 and fraction Q - 2^52 *)
  assert (Eenc : encode_mag 53 1023 64 Q QE = (L + ex + 1023) * 2 ^ (53 - 1) + (Q - 2 ^ (53 - 1))).
  { unfold encode_mag. subst QE. change (2 ^ (53 - 1)) with (2 ^ 52). change ((2 ^ (64 - 53) - 1) * 2 ^ 52) with (2047 * 2 ^ 52).
    pose proof (pow_pos 52 ltac:(lia)) as H52. set (P := 2 ^ 52) in *. change (2 ^ 53) with (2 * P) in HQ. nia. }
  rewrite Eenc, Z.add_assoc. unfold f32_of_f64, convert_float.
  rewrite (classify_normal 53 1023 64 neg (L + ex + 1023) (Q - 2 ^ (53 - 1))) by (change (2 ^ (64 - 53) - 1) with 2047; change (2 ^ (53 - 1)) with (2 ^ 52); change (2 ^ 53) with (2 * 2 ^ 52) in HQ; lia).
  replace (Q - 2 ^ (53 - 1) + 2 ^ (53 - 1)) with Q by lia. replace (L + ex + 1023 - 1023 - (53 - 1)) with QE by (subst QE; lia).
  change (1 - 127 - (24 - 1)) with (-149).
  (* narrowing: the quantum is 2^ex again and nothing is cut off *)
  assert (HlQ : Z.log2 Q = 52) by (subst Q c; rewrite Z.log2_mul_pow2 by lia; fold L; lia).
  assert (Hqe : Z.max (Z.log2 Q + QE - (24 - 1)) (-149) = ex) by (rewrite HlQ; subst QE; lia).
  rewrite round_scaled_unfold by (rewrite Hqe; subst QE; lia). rewrite Hqe. replace (ex - QE) with (52 - L) by (subst QE; lia). cbv zeta. fold c.
  assert (Hd : Q / c = m) by (subst Q; apply Z.div_mul; lia).
  assert (Hr : Q mod c = 0) by (subst Q; apply Z.mod_mul; lia).
  rewrite Hd, Hr.
  pose proof (pow_pos (52 - L - 1) ltac:(lia)) as Hh.
  destruct (Z.ltb_spec (2 ^ (52 - L - 1)) 0) as [C|_]; [lia|]. destruct (Z.eqb_spec 0 (2 ^ (52 - L - 1))) as [C|_]; [lia|].
  rewrite Bool.orb_false_l, Bool.andb_false_l. reflexivity.
Qed.

Theorem widen_narrow x : 0 <= x < 2 ^ 32 -> (forall frac, snd (classify 24 127 32 x) <> FNaN frac) -> f32_of_f64 (f64_of_f32 x) = x.
Proof.
  intros Hx Hnan. destruct (word_fields 24 32 x ltac:(lia) ltac:(lia) Hx) as (neg & field & frac & Ex & Hf & Hfr).
  change (2 ^ (32 - 24) - 1) with 255 in Hf. subst x.
  destruct (Z.eq_dec field 255) as [->|Hn255]; [|destruct (Z.eq_dec field 0) as [->|Hn0]].
  - (* infinities (a NaN is excluded) *)
    change 255 with (2 ^ (32 - 24) - 1) in *.
    rewrite (classify_top_field 24 127 32 neg frac ltac:(lia) ltac:(lia) Hfr) in Hnan. cbn [snd] in Hnan.
    destruct (Z.eqb_spec frac 0) as [->|Hne]; [|exfalso; exact (Hnan frac eq_refl)].
    unfold f64_of_f32, convert_float. rewrite (classify_top_field 24 127 32 neg 0 ltac:(lia) ltac:(lia) ltac:(lia)).
    change (0 =? 0) with true. cbv beta iota zeta.
    unfold f32_of_f64, convert_float. rewrite <- (Z.add_0_r ((if neg then 2 ^ (64 - 1) else 0) + (2 ^ (64 - 53) - 1) * 2 ^ (53 - 1))).
    rewrite (classify_top_field 53 1023 64 neg 0 ltac:(lia) ltac:(lia) ltac:(lia)).
    change (0 =? 0) with true. cbv beta iota zeta. lia.
  - (* zeros and subnormals *)
    replace ((if neg then 2 ^ (32 - 1) else 0) + 0 * 2 ^ (24 - 1) + frac) with ((if neg then 2 ^ (32 - 1) else 0) + frac) by lia.
    unfold f64_of_f32, convert_float. rewrite (classify_zero_field 24 127 32 neg frac ltac:(lia) ltac:(lia) Hfr).
    destruct (Z.eqb_spec frac 0) as [->|Hne]; cbv beta iota zeta.
    + unfold f32_of_f64, convert_float.
      rewrite (classify_zero_field 53 1023 64 neg 0 ltac:(lia) ltac:(lia) ltac:(lia)). change (0 =? 0) with true. cbv beta iota zeta. reflexivity.
    + destruct (round_scaled 53 (1 - 1023 - (53 - 1)) frac (1 - 127 - (24 - 1))) as [q qe] eqn:E.
      change (1 - 127 - (24 - 1)) with (-149) in E.
      rewrite (finite_round_trip neg frac (-149) ltac:(change (2 ^ 24) with (2 * 2 ^ (24 - 1)); lia) ltac:(lia) ltac:(right; reflexivity) q qe E).
      unfold encode_mag. change (2 ^ (24 - 1)) with 8388608 in *. change ((2 ^ (32 - 24) - 1) * 8388608) with 2139095040. lia.
  - (* normal numbers *)
    unfold f64_of_f32, convert_float.
    rewrite (classify_normal 24 127 32 neg field frac ltac:(lia) ltac:(lia) ltac:(change (2 ^ (32 - 24) - 1) with 255; lia) Hfr). cbv beta iota zeta.
    destruct (round_scaled 53 (1 - 1023 - (53 - 1)) (frac + 2 ^ (24 - 1)) (field - 127 - (24 - 1))) as [q qe] eqn:E.
    assert (Hlog : Z.log2 (frac + 2 ^ (24 - 1)) = 23) by (apply Z.log2_unique; [lia|change (2 ^ Z.succ 23) with (2 * 2 ^ (24 - 1)); change (2 ^ 23) with (2 ^ (24 - 1)); lia]).
    rewrite (finite_round_trip neg (frac + 2 ^ (24 - 1)) (field - 127 - (24 - 1)) ltac:(change (2 ^ 24) with (2 * 2 ^ (24 - 1)); lia) ltac:(lia) ltac:(left; exact Hlog) q qe E).
    unfold encode_mag. change (2 ^ (24 - 1)) with 8388608 in *. change ((2 ^ (32 - 24) - 1) * 8388608) with 2139095040. lia.
Qed.

(* the integer cast is the same rounding as the cast between the widths, applied to m * 2^0: one rounding function serves every cast *)
Theorem int_cast_is_round_scaled p bias width z : 1 < p -> 1 <= bias -> z <> 0 -> Z.log2 (Z.abs z) + bias + 1 < 2 ^ (width - p) ->
  forall q qe, round_scaled p (1 - bias - (p - 1)) (Z.abs z) 0 = (q, qe) ->
  float_of_int p bias width z = (if z <? 0 then 2 ^ (width - 1) else 0) + encode_mag p bias width q qe.
Proof.
  intros Hp Hb Hz Hw q qe. assert (Hm : 0 < Z.abs z) by lia. pose proof (Z.log2_nonneg (Z.abs z)) as Hl0.
  unfold float_of_int. destruct (Z.eqb_spec z 0) as [C|_]; [contradiction|].
  set (m := Z.abs z) in *. set (L := Z.log2 m) in *.
  pose proof (pow_pos (p - 1) ltac:(lia)) as HP.
  assert (EP : 2 ^ p = 2 * 2 ^ (p - 1)) by (replace p with (1 + (p - 1)) at 1 by lia; rewrite pow_split by lia; reflexivity).
  assert (HQE : Z.max (L + 0 - (p - 1)) (1 - bias - (p - 1)) = L - (p - 1)) by lia.
  destruct (Z.lt_ge_cases L p) as [Hs|Hbig].
  - destruct (round_mag_exact p m Hp Hm Hs) as [E Hq]. fold L in E, Hq. rewrite E.
    rewrite round_scaled_exact by (fold L; lia). fold L. rewrite HQE. replace (0 - (L - (p - 1))) with (p - 1 - L) by lia.
    set (X := m * 2 ^ (p - 1 - L)) in *. set (P := 2 ^ (p - 1)) in *. set (F := 2 ^ (width - p)) in *. set (QE := L - (p - 1)) in *.
    intros E1. injection E1 as <- <-. unfold encode_mag. fold P F. subst QE.
    rewrite Z.max_r by lia. rewrite Z.min_r by nia. lia.
  - rewrite (round_mag_unfold p m) by (fold L; lia). fold L.
    rewrite round_scaled_unfold by (fold L; lia). fold L. rewrite HQE. replace (L - (p - 1) - 0) with (L - (p - 1)) by lia. cbv zeta.
    set (sh := L - (p - 1)) in *.
    set (qq := if (2 ^ (sh - 1) <? m mod 2 ^ sh) || (m mod 2 ^ sh =? 2 ^ (sh - 1)) && Z.odd (m / 2 ^ sh) then m / 2 ^ sh + 1 else m / 2 ^ sh).
    assert (Hqq : 2 ^ (p - 1) <= qq <= 2 ^ p).
    { pose proof (Z.log2_spec m Hm) as [Hlo Hhi]. fold L in Hlo, Hhi. pose proof (pow_pos sh ltac:(subst sh; lia)) as HS.
      assert (EL : 2 ^ L = 2 ^ (p - 1) * 2 ^ sh) by (rewrite <- pow_split by (subst sh; lia); f_equal; subst sh; lia).
      assert (EL1 : 2 ^ Z.succ L = 2 ^ p * 2 ^ sh) by (rewrite <- pow_split by (subst sh; lia); f_equal; subst sh; lia).
      assert (Hq0 : 2 ^ (p - 1) <= m / 2 ^ sh < 2 ^ p) by (split; [apply Z.div_le_lower_bound; lia|apply Z.div_lt_upper_bound; lia]).
      subst qq. destruct (_ || _); lia. }
    set (P := 2 ^ (p - 1)) in *. set (F := 2 ^ (width - p)) in *.
    intros E1. injection E1 as <- <-. unfold encode_mag. fold P F.
    rewrite Z.max_r by (subst sh; lia).
    destruct (Z.eqb_spec qq (2 ^ p)) as [C|C]; (rewrite Z.min_r by (subst sh; nia)); subst sh; lia.
Qed.
