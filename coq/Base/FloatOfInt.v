(* `v as f32` / `v as f64` for an integer v (FloatBuilder::serialize_i8 .. serialize_u64): the nearest
   representable value, ties to the even significand, as the IEEE-754 bit pattern.  Integers of up to
   64 bits never overflow either format and are never subnormal. *)
From Coq Require Import ZArith Bool.
Local Open Scope Z_scope.

(* magnitude m > 0, precision p: the significand q (p bits, leading bit set) and the exponent e of the
   leading bit, value = q * 2^(e - (p-1)) *)
Definition round_mag (p m : Z) : Z * Z :=
  let e := Z.log2 m in
  if e <? p then (m * 2 ^ (p - 1 - e), e)
  else
    let sh := e - (p - 1) in
    let q := m / 2 ^ sh in
    let r := m mod 2 ^ sh in
    let half := 2 ^ (sh - 1) in
    let up := (half <? r) || ((r =? half) && Z.odd q) in
    let q' := if up then q + 1 else q in
    if q' =? 2 ^ p then (2 ^ (p - 1), e + 1) else (q', e).

(* p significand bits (implicit bit included), exponent bias, total width *)
Definition float_of_int (p bias width z : Z) : Z :=
  if z =? 0 then 0
  else
    let '(q, e) := round_mag p (Z.abs z) in
    (if z <? 0 then 2 ^ (width - 1) else 0) + (e + bias) * 2 ^ (p - 1) + (q - 2 ^ (p - 1)).

Definition f32_of_int (z : Z) : Z := float_of_int 24 127 32 z.
Definition f64_of_int (z : Z) : Z := float_of_int 53 1023 64 z.
