(* `v as f32` / `v as f64` for an integer v (FloatBuilder::serialize_i8 .. serialize_u64): the nearest
   representable value, ties to the even significand, as the IEEE-754 bit pattern.  Integers of up to
   64 bits never overflow either format and are never subnormal. *)
From Coq Require Import ZArith Bool.
Local Open Scope Z_scope.

(* magnitude m > 0, precision p: the significand q (p bits, leading bit set) and the exponent e of the
   leading bit, value = q * 2^(e - (p-1)) *)
Definition round_mag (p m : Z) : Z * Z :=
  let e := Z.log2 m in
  if e <? p then (m * 2 ^ (p - 1 - e), e)
  else
    let sh := e - (p - 1) in
    let q := m / 2 ^ sh in
    let r := m mod 2 ^ sh in
    let half := 2 ^ (sh - 1) in
    let up := (half <? r) || ((r =? half) && Z.odd q) in
    let q' := if up then q + 1 else q in
    if q' =? 2 ^ p then (2 ^ (p - 1), e + 1) else (q', e).

(* p significand bits (implicit bit included), exponent bias, total width *)
Definition float_of_int (p bias width z : Z) : Z :=
  if z =? 0 then 0
  else
    let '(q, e) := round_mag p (Z.abs z) in
    (if z <? 0 then 2 ^ (width - 1) else 0) + (e + bias) * 2 ^ (p - 1) + (q - 2 ^ (p - 1)).

Definition f32_of_int (z : Z) : Z := float_of_int 24 127 32 z.
Definition f64_of_int (z : Z) : Z := float_of_int 53 1023 64 z.

(* ---- one float width to the other: `v as f32` for an f64 (FloatBuilder<f32>::serialize_f64) and `v as f64` for an f32 ----
   A finite non-zero float is m * 2^x with m > 0.  Rounding to a format with p significand bits whose smallest quantum
   (the spacing of the subnormals) is 2^qmin: the quantum of the result is 2^qe with qe = max (e - (p-1)) qmin, e the
   exponent of the leading bit; the significand is m * 2^x / 2^qe rounded to the nearest integer, ties to even. *)
Definition round_scaled (p qmin m x : Z) : Z * Z :=
  let e := Z.log2 m + x in
  let qe := Z.max (e - (p - 1)) qmin in
  if qe <=? x then (m * 2 ^ (x - qe), qe)
  else
    let sh := qe - x in
    let q := m / 2 ^ sh in
    let r := m mod 2 ^ sh in
    let half := 2 ^ (sh - 1) in
    let up := (half <? r) || ((r =? half) && Z.odd q) in
    ((if up then q + 1 else q), qe).

(* the word for significand q at quantum 2^qe: with the exponent field written as "field - 1" and the leading bit of q
   added on top, subnormals (field 0), normals and the carry of a rounded-up all-ones significand are one formula;
   beyond the largest finite value the result is infinity *)
Definition encode_mag (p bias width q qe : Z) : Z :=
  let inf := (2 ^ (width - p) - 1) * 2 ^ (p - 1) in
  let field1 := Z.max 0 (qe + (p - 1) + bias - 1) in
  Z.min inf (field1 * 2 ^ (p - 1) + q).

(* decode a word of a format: sign, and either zero, a finite magnitude m * 2^x, infinity or a NaN with its fraction *)
Inductive FClass := FZero | FFinite (m x : Z) | FInf | FNaN (frac : Z).
Definition classify (p bias width bits : Z) : bool * FClass :=
  let sign := 2 ^ (width - 1) <=? bits in
  let mag := bits mod 2 ^ (width - 1) in
  let field := mag / 2 ^ (p - 1) in
  let frac := mag mod 2 ^ (p - 1) in
  (sign,
   if field =? 2 ^ (width - p) - 1 then (if frac =? 0 then FInf else FNaN frac)
   else if field =? 0 then (if frac =? 0 then FZero else FFinite frac (1 - bias - (p - 1)))
   else FFinite (frac + 2 ^ (p - 1)) (field - bias - (p - 1))).

(* source format (p1 bias1 width1) to target format (p2 bias2 width2); a NaN stays a NaN: quiet, the leading bits of
   its fraction kept (what the conversion instructions of x86-64 and AArch64 do) *)
Definition convert_float (p1 bias1 width1 p2 bias2 width2 bits : Z) : Z :=
  let '(sign, c) := classify p1 bias1 width1 bits in
  let s := if sign then 2 ^ (width2 - 1) else 0 in
  let inf := (2 ^ (width2 - p2) - 1) * 2 ^ (p2 - 1) in
  s + match c with
      | FZero => 0
      | FInf => inf
      | FNaN frac => inf + 2 ^ (p2 - 2) + (if p2 <=? p1 then frac / 2 ^ (p1 - p2) else frac * 2 ^ (p2 - p1)) mod 2 ^ (p2 - 2)
      | FFinite m x => let '(q, qe) := round_scaled p2 (1 - bias2 - (p2 - 1)) m x in encode_mag p2 bias2 width2 q qe
      end.

Definition f32_of_f64 (bits : Z) : Z := convert_float 53 1023 64 24 127 32 bits.
Definition f64_of_f32 (bits : Z) : Z := convert_float 24 127 32 53 1023 64 bits.

Arguments f32_of_int : simpl never.
Arguments f64_of_int : simpl never.
Arguments f32_of_f64 : simpl never.
Arguments f64_of_f32 : simpl never.
