(* Outcome monad: every partial operation of the Rust code is either an error value
   (Err) or a panic (Panic); the two are kept distinct on purpose (C16/C17). *)
From Coq Require Export List NArith ZArith Bool Lia.
Export ListNotations.

Inductive PanicKind := PIndex | PSlice | POverflow | PDivZero | PAssert | PUnwrap | PExternal.

Inductive Outcome (A : Type) : Type :=
| Ok (a : A)
| Err
| Panic (p : PanicKind).
Arguments Ok {A} a.
Arguments Err {A}.
Arguments Panic {A} p.

Definition bind {A B} (o : Outcome A) (f : A -> Outcome B) : Outcome B :=
  match o with Ok a => f a | Err => Err | Panic p => Panic p end.

Definition omap {A B} (f : A -> B) (o : Outcome A) : Outcome B :=
  match o with Ok a => Ok (f a) | Err => Err | Panic p => Panic p end.

Notation "'do' x <- o ;; k" := (bind o (fun x => k))
  (at level 200, x pattern, o at level 100, k at level 200, right associativity).

Definition is_ok {A} (o : Outcome A) : bool := match o with Ok _ => true | _ => false end.
Definition is_err {A} (o : Outcome A) : bool := match o with Err => true | _ => false end.
Definition is_panic {A} (o : Outcome A) : bool := match o with Panic _ => true | _ => false end.

Definition of_option {A} (o : option A) : Outcome A :=
  match o with Some a => Ok a | None => Err end.

(* outcome class: what the correspondence check always compares *)
Inductive OClass := COk | CErr | CPanic.
Definition oclass {A} (o : Outcome A) : OClass :=
  match o with Ok _ => COk | Err => CErr | Panic _ => CPanic end.
Definition oclass_eqb (a b : OClass) : bool :=
  match a, b with COk, COk | CErr, CErr | CPanic, CPanic => true | _, _ => false end.

Fixpoint mapM {A B} (f : A -> Outcome B) (l : list A) : Outcome (list B) :=
  match l with
  | [] => Ok []
  | x :: xs => do y <- f x ;; do ys <- mapM f xs ;; Ok (y :: ys)
  end.

Lemma bind_ok {A B} (o : Outcome A) (f : A -> Outcome B) b :
  bind o f = Ok b -> exists a, o = Ok a /\ f a = Ok b.
Proof. destruct o as [a| |p]; cbn; intros H; try discriminate; eauto. Qed.

Lemma bind_not_panic {A B} (o : Outcome A) (f : A -> Outcome B) :
  (forall p, o <> Panic p) -> (forall a p, f a <> Panic p) -> forall p, bind o f <> Panic p.
Proof. destruct o as [a| |q]; cbn; intros H1 H2 p; auto; try discriminate. exfalso; exact (H1 q eq_refl). Qed.

(* indices of list elements satisfying a predicate; used by the case runners to report
   the cases on which model and implementation disagree *)
Fixpoint find_idx_from {A} (i : N) (f : A -> bool) (l : list A) : list N :=
  match l with
  | [] => []
  | x :: xs => if f x then i :: find_idx_from (N.succ i) f xs else find_idx_from (N.succ i) f xs
  end.
Definition failing {A} (ok : A -> bool) (l : list A) : list N :=
  find_idx_from 0%N (fun x => negb (ok x)) l.

Inductive Tag := TagCorr | TagOracle | TagModel | TagInfo.
