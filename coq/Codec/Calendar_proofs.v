From Verif Require Import Calendar.
Require Import ZifyBool.
Ltac Zify.zify_post_hook ::= Z.div_mod_to_equations.
Local Open Scope Z_scope.

(* ---- one 400-year era, checked exhaustively inside Coq ---- *)
Definition triple_eqb (a c : Z * Z * Z) : bool :=
  let '(y, m, d) := a in let '(y', m', d') := c in (y =? y') && (m =? m') && (d =? d').

Definition era_day_ok (r : Z) : bool :=
  let z := r - 719468 in                                (* days 0000-03-01 .. 0400-02-29 *)
  let '(y, m, d) := civil_from_days z in
  valid_date y m d && (days_from_civil y m d =? z).

Fixpoint range_ok (f : Z -> bool) (n : nat) (z : Z) : bool :=
  match n with O => true | S n' => f z && range_ok f n' (z + 1) end.

Lemma range_ok_spec f n : forall z, range_ok f n z = true ->
  forall i, 0 <= i < Z.of_nat n -> f (z + i) = true.
Proof.
  induction n as [|n IH]; intros z H i Hi; [lia|].
  cbn [range_ok] in H. apply andb_true_iff in H as [H0 H1].
  destruct (Z.eq_dec i 0) as [->|Hne]; [rewrite Z.add_0_r; exact H0|].
  replace (z + i) with (z + 1 + (i - 1)) by ring. apply IH; [exact H1|lia].
Qed.

Definition era_len : nat := Z.to_nat 146097.

Time Lemma era_sweep : range_ok era_day_ok era_len 0 = true.
Proof. vm_compute. reflexivity. Qed.

Lemma era_day r : 0 <= r < 146097 -> era_day_ok r = true.
Proof.
  intros H. pose proof (range_ok_spec era_day_ok era_len 0 era_sweep r) as Hs.
  unfold era_len in Hs. rewrite Z2Nat.id in Hs by lia. rewrite Z.add_0_l in Hs. apply Hs, H.
Qed.

(* ---- shifting by whole eras ---- *)
Time Lemma civil_from_days_shift z k :
  civil_from_days (z + 146097 * k) =
  let '(y, m, d) := civil_from_days z in (y + 400 * k, m, d).
Proof.
  unfold civil_from_days.
  replace (z + 146097 * k + 719468) with (z + 719468 + k * 146097) by ring.
  rewrite Z.div_add by lia.
  set (era := (z + 719468) / 146097).
  replace (z + 719468 + k * 146097 - (era + k) * 146097) with (z + 719468 - era * 146097) by ring.
  set (doe := z + 719468 - era * 146097).
  set (yoe := (doe - doe / 1460 + doe / 36524 - doe / 146096) / 365).
  set (doy := doe - (365 * yoe + yoe / 4 - yoe / 100)).
  set (mp := (5 * doy + 2) / 153).
  cbv zeta.
  destruct ((if mp <? 10 then mp + 3 else mp - 9) <=? 2); f_equal; f_equal; ring.
Qed.

Time Lemma days_from_civil_shift y m d k :
  days_from_civil (y + 400 * k) m d = days_from_civil y m d + 146097 * k.
Proof.
  unfold days_from_civil.
  assert (E : (if m <=? 2 then y + 400 * k - 1 else y + 400 * k) = (if m <=? 2 then y - 1 else y) + k * 400)
    by (destruct (m <=? 2); ring).
  rewrite E. set (y' := if m <=? 2 then y - 1 else y).
  rewrite Z.div_add by lia.
  replace (y' + k * 400 - (y' / 400 + k) * 400) with (y' - y' / 400 * 400) by ring.
  ring.
Qed.

Time Lemma valid_date_shift y m d k : valid_date (y + 400 * k) m d = valid_date y m d.
Proof.
  unfold valid_date, days_in_month, is_leap.
  replace (y + 400 * k) with (y + (100 * k) * 4) at 1 by ring. rewrite Z.mod_add by lia.
  replace (y + 400 * k) with (y + (4 * k) * 100) at 1 by ring. rewrite Z.mod_add by lia.
  replace (y + 400 * k) with (y + k * 400) by ring. rewrite Z.mod_add by lia. reflexivity.
Qed.

(* every day number corresponds to a valid civil date, and converts back to itself *)
Time Theorem days_civil_days z :
  let '(y, m, d) := civil_from_days z in valid_date y m d = true /\ days_from_civil y m d = z.
Proof.
  set (k := (z + 719468) / 146097). set (r := (z + 719468) mod 146097).
  assert (Hz : z = (r - 719468) + 146097 * k) by (subst k r; lia).
  assert (Hr : 0 <= r < 146097) by (subst r; lia).
  pose proof (civil_from_days_shift (r - 719468) k) as Hs. rewrite <- Hz in Hs.
  pose proof (era_day r Hr) as He. unfold era_day_ok in He.
  destruct (civil_from_days (r - 719468)) as [[y m] d]. rewrite Hs.
  apply andb_true_iff in He as [Hv Hd]. apply Z.eqb_eq in Hd.
  rewrite valid_date_shift, days_from_civil_shift. split; [exact Hv|lia].
Qed.

(* ---- the other direction: every valid civil date survives days_from_civil / civil_from_days ---- *)
Definition era_date_ok (i : Z) : bool :=
  let y := i / 372 in let m := i / 31 mod 12 + 1 in let d := i mod 31 + 1 in
  negb (valid_date y m d) || triple_eqb (civil_from_days (days_from_civil y m d)) (y, m, d).

Definition era_dates : nat := Z.to_nat 148800.      (* 400 years x 12 x 31 *)

Lemma era_date_sweep : range_ok era_date_ok era_dates 0 = true.
Proof. vm_compute. reflexivity. Qed.

Lemma triple_eqb_eq a c : triple_eqb a c = true -> a = c.
Proof.
  destruct a as [[y m] d], c as [[y' m'] d']. unfold triple_eqb.
  rewrite !andb_true_iff, !Z.eqb_eq. intros [[-> ->] ->]. reflexivity.
Qed.

Theorem civil_days_civil y m d : valid_date y m d = true ->
  civil_from_days (days_from_civil y m d) = (y, m, d).
Proof.
  intros Hv.
  set (k := y / 400). set (y0 := y mod 400).
  assert (Hy : y = y0 + 400 * k) by (subst k y0; lia).
  assert (Hy0 : 0 <= y0 < 400) by (subst y0; lia).
  rewrite Hy in Hv |- *. rewrite valid_date_shift in Hv. rewrite days_from_civil_shift, civil_from_days_shift.
  assert (Hmd : 1 <= m <= 12 /\ 1 <= d <= 31).
  { unfold valid_date, days_in_month in Hv. destruct (m =? 2); [destruct (is_leap y0)|destruct (_ || _)]; lia. }
  set (i := y0 * 372 + (m - 1) * 31 + (d - 1)).
  pose proof (range_ok_spec era_date_ok era_dates 0 era_date_sweep i) as Hs.
  unfold era_dates in Hs. rewrite Z2Nat.id in Hs by lia. rewrite Z.add_0_l in Hs.
  specialize (Hs ltac:(subst i; lia)). unfold era_date_ok in Hs.
  assert (E1 : i / 372 = y0) by (subst i; lia).
  assert (E2 : i / 31 mod 12 + 1 = m) by (subst i; lia).
  assert (E3 : i mod 31 + 1 = d) by (subst i; lia).
  rewrite E1, E2, E3, Hv in Hs. cbn [negb orb] in Hs. apply triple_eqb_eq in Hs. rewrite Hs. reflexivity.
Qed.

